/-
C17 helper lemmas, part 2: `linecol` is the text-editor cursor (`cursor`), with its declarative
characterisations (newline count, line start, inverse, monotonicity).
-/
import CLModel.Proofs.C17Engine
namespace Pos
open Rx P

/-! ### the reference: a cursor walking over the text -/

/-- Read `p` characters starting at (line, col): a newline moves to column 1 of the next line, any
    other character one column to the right; beyond the end of the text columns keep counting. -/
def walkLC : List Nat → Nat → Nat → Nat → Nat × Nat
  | _, 0, line, col => (line, col)
  | [], p + 1, line, col => (line, col + (p + 1))
  | c :: t, p + 1, line, col => if c = 10 then walkLC t p (line + 1) 1 else walkLC t p line (col + 1)

/-- 1-based (line, column) of offset `p` of the text `s` -/
def cursor (s : Array Nat) (p : Nat) : Nat × Nat := walkLC s.toList p 1 1

/-- strict lexicographic order on (line, column) -/
def lexLt (a b : Nat × Nat) : Prop := a.1 < b.1 ∨ (a.1 = b.1 ∧ a.2 < b.2)
def lexLe (a b : Nat × Nat) : Prop := a = b ∨ lexLt a b

/-- start offset of line `n` (0-based) of `l`: 0 for the first line, else one past the `n`-th newline -/
def lineStartOfLine : List Nat → Nat → Option Nat
  | _, 0 => some 0
  | [], _ + 1 => none
  | c :: t, n + 1 => (if c = 10 then lineStartOfLine t n else lineStartOfLine t (n + 1)).map (· + 1)

/-- the offset a 1-based (line, column) pair stands for -/
def offsetOf (s : Array Nat) (lc : Nat × Nat) : Option Nat :=
  (lineStartOfLine s.toList (lc.1 - 1)).map (· + (lc.2 - 1))

/-- `b` is the start of the line that contains offset `p`: it is at most `p`, it is the start of the text
    or follows a newline, and there is no newline between it and `p` -/
def IsLineStart (l : List Nat) (p b : Nat) : Prop :=
  b ≤ p ∧ (b = 0 ∨ l[b - 1]? = some 10) ∧ ∀ j, b ≤ j → j < p → l[j]? ≠ some 10

/-! ### line ends -/

theorem lineEndsL_gt (l : List Nat) (i : Nat) : ∀ e ∈ lineEndsL l i, i < e := by
  induction l generalizing i with
  | nil => intro e h; simp [lineEndsL] at h
  | cons c t ih =>
    intro e h
    simp only [lineEndsL] at h
    split at h
    · rcases List.mem_cons.mp h with h | h
      · omega
      · have := ih (i + 1) e h; omega
    · have := ih (i + 1) e h; omega

theorem lineEndsL_sorted (l : List Nat) (i : Nat) : (lineEndsL l i).Pairwise (· < ·) := by
  induction l generalizing i with
  | nil => simp [lineEndsL]
  | cons c t ih =>
    simp only [lineEndsL]
    split
    · refine List.pairwise_cons.mpr ⟨?_, ih (i + 1)⟩
      intro e he; exact lineEndsL_gt t (i + 1) e he
    · exact ih (i + 1)

theorem lineEndsL_mem (l : List Nat) (i e : Nat) :
    e ∈ lineEndsL l i ↔ i < e ∧ l[e - 1 - i]? = some 10 := by
  induction l generalizing i with
  | nil => simp [lineEndsL]
  | cons c t ih =>
    simp only [lineEndsL]
    by_cases hc : c = 10
    · simp only [hc, if_true, List.mem_cons, ih (i + 1)]
      constructor
      · rintro (h | ⟨h1, h2⟩)
        · subst h; simp
        · refine ⟨by omega, ?_⟩
          have : e - 1 - i = (e - 1 - (i + 1)) + 1 := by omega
          rw [this]; simpa using h2
      · rintro ⟨h1, h2⟩
        by_cases he : e = i + 1
        · exact Or.inl he
        · right
          refine ⟨by omega, ?_⟩
          have : e - 1 - i = (e - 1 - (i + 1)) + 1 := by omega
          rw [this] at h2; simpa using h2
    · simp only [hc, if_false, ih (i + 1)]
      constructor
      · rintro ⟨h1, h2⟩
        refine ⟨by omega, ?_⟩
        have : e - 1 - i = (e - 1 - (i + 1)) + 1 := by omega
        rw [this]; simpa using h2
      · rintro ⟨h1, h2⟩
        by_cases he : e = i + 1
        · subst he; simp at h2; exact absurd h2 hc
        · refine ⟨by omega, ?_⟩
          have : e - 1 - i = (e - 1 - (i + 1)) + 1 := by omega
          rw [this] at h2; simpa using h2

/-- Nat version of `bisect` -/
def bisectN (a : List Nat) (x : Nat) : Nat := (a.filter (fun e => decide (e ≤ x))).length

theorem bisect_cast (a : List Nat) (x : Nat) : bisect a (x : Int) = bisectN a x := by
  unfold bisect bisectN
  congr 2
  funext e
  simp [Int.ofNat_le]

theorem bisect_neg (a : List Nat) (x : Int) (hx : x < 0) : bisect a x = 0 := by
  unfold bisect
  simp only [List.length_eq_zero_iff, List.filter_eq_nil_iff]
  intro e _
  simp; omega

/-- the heart: `bisect` + indexing on the scanned line ends = the cursor walk -/
theorem walk_lineEnds (l : List Nat) : ∀ (i p line col : Nat), i ≤ p →
    (walkLC l (p - i) line col).1 = line + bisectN (lineEndsL l i) p ∧
    (bisectN (lineEndsL l i) p = 0 → (walkLC l (p - i) line col).2 = col + (p - i)) ∧
    (bisectN (lineEndsL l i) p ≠ 0 → ∃ b, (lineEndsL l i)[bisectN (lineEndsL l i) p - 1]? = some b ∧ b ≤ p ∧
      (walkLC l (p - i) line col).2 = p - b + 1) := by
  induction l with
  | nil =>
    intro i p line col hip
    simp only [lineEndsL, bisectN, List.filter_nil, List.length_nil]
    cases h : p - i with
    | zero => simp [walkLC]
    | succ n => simp [walkLC]
  | cons c t ih =>
    intro i p line col hip
    by_cases hpi : p = i
    · subst hpi
      have hk : bisectN (lineEndsL (c :: t) p) p = 0 := by
        unfold bisectN
        simp only [List.length_eq_zero_iff, List.filter_eq_nil_iff]
        intro e he
        have := lineEndsL_gt (c :: t) p e he
        simp; omega
      simp only [hk, Nat.sub_self, walkLC]
      simp
    · have hlt : i < p := by omega
      have hsub : p - i = (p - (i + 1)) + 1 := by omega
      rw [hsub]
      by_cases hc : c = 10
      · subst hc
        have hL : lineEndsL (10 :: t) i = (i + 1) :: lineEndsL t (i + 1) := by simp [lineEndsL]
        have hk : bisectN (lineEndsL (10 :: t) i) p = bisectN (lineEndsL t (i + 1)) p + 1 := by
          rw [hL]; unfold bisectN
          rw [List.filter_cons_of_pos (by simp; omega)]
          simp
        obtain ⟨h1, h2, h3⟩ := ih (i + 1) p (line + 1) 1 (by omega)
        simp only [walkLC, if_true]
        rw [hk]
        simp only [hL]
        refine ⟨by rw [h1]; omega, by intro h; omega, ?_⟩
        intro _
        by_cases hk' : bisectN (lineEndsL t (i + 1)) p = 0
        · refine ⟨i + 1, by simp [hk'], by omega, ?_⟩
          rw [h2 hk']; omega
        · obtain ⟨b, hb1, hb2, hb3⟩ := h3 hk'
          refine ⟨b, ?_, hb2, hb3⟩
          have : bisectN (lineEndsL t (i + 1)) p + 1 - 1 = (bisectN (lineEndsL t (i + 1)) p - 1) + 1 := by omega
          rw [this, List.getElem?_cons_succ]; exact hb1
      · have hL : lineEndsL (c :: t) i = lineEndsL t (i + 1) := by simp [lineEndsL, hc]
        obtain ⟨h1, h2, h3⟩ := ih (i + 1) p line (col + 1) (by omega)
        simp only [walkLC, hc, if_false, hL]
        refine ⟨h1, ?_, h3⟩
        intro hk; rw [h2 hk]; omega

/-- `linecol` on the naturals, computed from the scanned list of line ends -/
theorem linecol_eq_cursor (s : Array Nat) (p : Nat) :
    linecol s (p : Int) = some (((cursor s p).1 : Int), ((cursor s p).2 : Int)) := by
  unfold linecol
  simp only [lineEnds_eq, bisect_cast]
  obtain ⟨h1, h2, h3⟩ := walk_lineEnds s.toList 0 p 1 1 (Nat.zero_le _)
  simp only [Nat.sub_zero] at h1 h2 h3
  by_cases hk : bisectN (lineEndsL s.toList 0) p = 0
  · have h2 := h2 hk
    simp only [hk, cursor]
    simp [h1, h2, hk]; omega
  · obtain ⟨b, hb1, hb2, hb3⟩ := h3 hk
    simp only [cursor, bne_iff_ne, ne_eq, hk, not_false_eq_true, if_true, hb1]
    simp [h1, hb3]; omega

/-! ### properties of the cursor -/

theorem walkLC_line_ge (l : List Nat) : ∀ p line col, line ≤ (walkLC l p line col).1 := by
  induction l with
  | nil => intro p line col; cases p <;> simp [walkLC]
  | cons c t ih =>
    intro p line col
    cases p with
    | zero => simp [walkLC]
    | succ p =>
      simp only [walkLC]
      split
      · have := ih p (line + 1) 1; omega
      · exact ih p line (col + 1)

theorem walkLC_col_ge (l : List Nat) : ∀ p line col, 1 ≤ col → 1 ≤ (walkLC l p line col).2 := by
  induction l with
  | nil => intro p line col h; cases p <;> simp [walkLC] <;> omega
  | cons c t ih =>
    intro p line col h
    cases p with
    | zero => simpa [walkLC] using h
    | succ p =>
      simp only [walkLC]
      split
      · exact ih p (line + 1) 1 (Nat.le_refl _)
      · exact ih p line (col + 1) (by omega)

/-- one more character: a newline at `p` starts the next line, anything else (or the end of the text)
    moves one column to the right -/
theorem walkLC_succ (l : List Nat) : ∀ p line col,
    walkLC l (p + 1) line col =
      if l[p]? = some 10 then ((walkLC l p line col).1 + 1, 1)
      else ((walkLC l p line col).1, (walkLC l p line col).2 + 1) := by
  induction l with
  | nil => intro p line col; cases p <;> simp [walkLC] <;> omega
  | cons c t ih =>
    intro p line col
    cases p with
    | zero =>
      by_cases hc : c = 10 <;> simp [walkLC, hc]
    | succ p =>
      have := ih p
      by_cases hc : c = 10
      · simp only [walkLC, hc, if_true]
        rw [ih p (line + 1) 1]; simp
      · simp only [walkLC, hc, if_false]
        rw [ih p line (col + 1)]; simp

theorem walkLC_add (l : List Nat) : ∀ p q line col,
    walkLC l (p + q) line col = walkLC (l.drop p) q (walkLC l p line col).1 (walkLC l p line col).2 := by
  induction l with
  | nil =>
    intro p q line col
    cases p with
    | zero => simp [walkLC]
    | succ p =>
      cases q with
      | zero => simp [walkLC]
      | succ q =>
        have : p + 1 + (q + 1) = (p + q + 1) + 1 := by omega
        simp [walkLC]; omega
  | cons c t ih =>
    intro p q line col
    cases p with
    | zero => simp [walkLC]
    | succ p =>
      have : p + 1 + q = (p + q) + 1 := by omega
      rw [this]
      by_cases hc : c = 10
      · simp only [walkLC, hc, if_true, List.drop_succ_cons]; exact ih p q (line + 1) 1
      · simp only [walkLC, hc, if_false, List.drop_succ_cons]; exact ih p q line (col + 1)

/-- no newline among the next `q` characters: same line, `q` columns further -/
theorem walkLC_no_nl (l : List Nat) : ∀ q line col, (∀ j, j < q → l[j]? ≠ some 10) →
    walkLC l q line col = (line, col + q) := by
  induction l with
  | nil => intro q line col _; cases q <;> simp [walkLC]
  | cons c t ih =>
    intro q line col h
    cases q with
    | zero => simp [walkLC]
    | succ q =>
      have hc : c ≠ 10 := by have := h 0 (by omega); simpa using this
      simp only [walkLC, hc, if_false]
      rw [ih q line (col + 1) (fun j hj => by have := h (j + 1) (by omega); simpa using this)]
      congr 1; omega

theorem lexLt_trans {a b c : Nat × Nat} (h1 : lexLt a b) (h2 : lexLt b c) : lexLt a c := by
  unfold lexLt at *; omega

theorem cursor_succ (s : Array Nat) (p : Nat) :
    cursor s (p + 1) = if s[p]? = some 10 then ((cursor s p).1 + 1, 1) else ((cursor s p).1, (cursor s p).2 + 1) := by
  unfold cursor
  rw [walkLC_succ]
  simp

theorem cursor_lt_succ (s : Array Nat) (p : Nat) : lexLt (cursor s p) (cursor s (p + 1)) := by
  rw [cursor_succ]
  unfold lexLt
  split <;> simp

theorem cursor_strictMono (s : Array Nat) (p q : Nat) (h : p < q) : lexLt (cursor s p) (cursor s q) := by
  induction q with
  | zero => omega
  | succ q ih =>
    by_cases hpq : p = q
    · subst hpq; exact cursor_lt_succ s p
    · exact lexLt_trans (ih (by omega)) (cursor_lt_succ s q)

/-! ### inverse -/

theorem walkLC_inverse (l : List Nat) : ∀ p line col,
    ((walkLC l p line col).1 = line → (walkLC l p line col).2 = col + p) ∧
    ((walkLC l p line col).1 ≠ line →
      (walkLC l p line col).2 - 1 ≤ p ∧
      lineStartOfLine l ((walkLC l p line col).1 - line) = some (p - ((walkLC l p line col).2 - 1))) := by
  induction l with
  | nil => intro p line col; cases p <;> simp [walkLC]
  | cons c t ih =>
    intro p line col
    cases p with
    | zero => simp [walkLC]
    | succ p =>
      by_cases hc : c = 10
      · simp only [walkLC, hc, if_true]
        obtain ⟨h1, h2⟩ := ih p (line + 1) 1
        have hge := walkLC_line_ge t p (line + 1) 1
        refine ⟨by intro h; omega, ?_⟩
        intro _
        by_cases ha : (walkLC t p (line + 1) 1).1 = line + 1
        · have hb := h1 ha
          rw [ha, hb]
          have : line + 1 - line = 0 + 1 := by omega
          rw [this]
          simp [lineStartOfLine]
        · obtain ⟨hb1, hb2⟩ := h2 ha
          refine ⟨by omega, ?_⟩
          have : (walkLC t p (line + 1) 1).1 - line = ((walkLC t p (line + 1) 1).1 - (line + 1)) + 1 := by omega
          rw [this]
          simp only [lineStartOfLine, if_true, hb2, Option.map_some]
          congr 1; omega
      · simp only [walkLC, hc, if_false]
        obtain ⟨h1, h2⟩ := ih p line (col + 1)
        have hge := walkLC_line_ge t p line (col + 1)
        refine ⟨by intro h; rw [h1 h]; omega, ?_⟩
        intro ha
        obtain ⟨hb1, hb2⟩ := h2 ha
        refine ⟨by omega, ?_⟩
        obtain ⟨n, hn⟩ : ∃ n, (walkLC t p line (col + 1)).1 - line = n + 1 := ⟨(walkLC t p line (col + 1)).1 - line - 1, by omega⟩
        rw [hn] at hb2 ⊢
        simp only [lineStartOfLine, hc, if_false, hb2, Option.map_some]
        congr 1; omega

theorem offsetOf_cursor (s : Array Nat) (p : Nat) : offsetOf s (cursor s p) = some p := by
  unfold offsetOf cursor
  obtain ⟨h1, h2⟩ := walkLC_inverse s.toList p 1 1
  by_cases ha : (walkLC s.toList p 1 1).1 = 1
  · rw [ha, h1 ha]; simp [lineStartOfLine]
  · obtain ⟨hb1, hb2⟩ := h2 ha
    rw [hb2]; simp; omega

/-! ### declarative characterisation: newline count and line start -/

theorem walkLC_count (l : List Nat) : ∀ p line col,
    (walkLC l p line col).1 = line + (l.take p).count 10 := by
  induction l with
  | nil => intro p line col; cases p <;> simp [walkLC]
  | cons c t ih =>
    intro p line col
    cases p with
    | zero => simp [walkLC]
    | succ p =>
      by_cases hc : c = 10
      · simp only [walkLC, hc, if_true, List.take_succ_cons, List.count_cons_self]
        rw [ih p (line + 1) 1]; omega
      · simp only [walkLC, hc, if_false, List.take_succ_cons]
        rw [ih p line (col + 1)]; simp [hc]

/-- the column is counted from a line start in the sense of `IsLineStart` (relative version) -/
theorem walkLC_lineStart (l : List Nat) : ∀ p line col,
    ((walkLC l p line col).1 = line → (∀ j, j < p → l[j]? ≠ some 10)) ∧
    ((walkLC l p line col).1 ≠ line → ∃ b, 0 < b ∧ IsLineStart l p b ∧ (walkLC l p line col).2 = p - b + 1) := by
  induction l with
  | nil =>
    intro p line col
    cases p <;> simp [walkLC]
  | cons c t ih =>
    intro p line col
    cases p with
    | zero => simp [walkLC]
    | succ p =>
      by_cases hc : c = 10
      · simp only [walkLC, hc, if_true]
        obtain ⟨h1, h2⟩ := ih p (line + 1) 1
        have hge := walkLC_line_ge t p (line + 1) 1
        refine ⟨by intro h; omega, ?_⟩
        intro _
        by_cases ha : (walkLC t p (line + 1) 1).1 = line + 1
        · have hno := h1 ha
          have hcol := (walkLC_inverse t p (line + 1) 1).1 ha
          refine ⟨1, by omega, ⟨by omega, Or.inr (by simp), ?_⟩, by rw [hcol]; omega⟩
          intro j hj1 hj2
          obtain ⟨j', rfl⟩ : ∃ j', j = j' + 1 := ⟨j - 1, by omega⟩
          simpa using hno j' (by omega)
        · obtain ⟨b, hb0, ⟨hb1, hb2, hb3⟩, hb4⟩ := h2 ha
          refine ⟨b + 1, by omega, ⟨by omega, Or.inr ?_, ?_⟩, by rw [hb4]; omega⟩
          · rcases hb2 with hb2 | hb2
            · omega
            · have : b + 1 - 1 = (b - 1) + 1 := by omega
              rw [this]; simpa using hb2
          · intro j hj1 hj2
            obtain ⟨j', rfl⟩ : ∃ j', j = j' + 1 := ⟨j - 1, by omega⟩
            simpa using hb3 j' (by omega) (by omega)
      · simp only [walkLC, hc, if_false]
        obtain ⟨h1, h2⟩ := ih p line (col + 1)
        constructor
        · intro ha j hj
          cases j with
          | zero => simpa using hc
          | succ j => simpa using h1 ha j (by omega)
        · intro ha
          obtain ⟨b, hb0, ⟨hb1, hb2, hb3⟩, hb4⟩ := h2 ha
          refine ⟨b + 1, by omega, ⟨by omega, Or.inr ?_, ?_⟩, by rw [hb4]; omega⟩
          · rcases hb2 with hb2 | hb2
            · omega
            · have : b + 1 - 1 = (b - 1) + 1 := by omega
              rw [this]; simpa using hb2
          · intro j hj1 hj2
            obtain ⟨j', rfl⟩ : ∃ j', j = j' + 1 := ⟨j - 1, by omega⟩
            simpa using hb3 j' (by omega) (by omega)

theorem cursor_spec (s : Array Nat) (p : Nat) :
    ∃ b, IsLineStart s.toList p b ∧
      cursor s p = (1 + (s.toList.take p).count 10, p - b + 1) := by
  unfold cursor
  obtain ⟨h1, h2⟩ := walkLC_lineStart s.toList p 1 1
  have hcount := walkLC_count s.toList p 1 1
  by_cases ha : (walkLC s.toList p 1 1).1 = 1
  · have hcol := (walkLC_inverse s.toList p 1 1).1 ha
    refine ⟨0, ⟨Nat.zero_le _, Or.inl rfl, fun j _ hj => h1 ha j hj⟩, ?_⟩
    apply Prod.ext
    · simpa using hcount
    · simp [hcol]; omega
  · obtain ⟨b, _, hb, hcol⟩ := h2 ha
    exact ⟨b, hb, Prod.ext (by simpa using hcount) (by simpa using hcol)⟩

/-- a line start is unique -/
theorem IsLineStart_unique (l : List Nat) (p b b' : Nat) (h : IsLineStart l p b) (h' : IsLineStart l p b') : b = b' := by
  obtain ⟨h1, h2, h3⟩ := h
  obtain ⟨h1', h2', h3'⟩ := h'
  rcases Nat.lt_trichotomy b b' with hlt | heq | hgt
  · rcases h2' with h0 | hnl
    · omega
    · exact absurd hnl (h3 (b' - 1) (by omega) (by omega))
  · exact heq
  · rcases h2 with h0 | hnl
    · omega
    · exact absurd hnl (h3' (b - 1) (by omega) (by omega))

/-! ### lines of a value (for the DTD tuples) -/

theorem walkLC_lineStartOfLine (l : List Nat) : ∀ n o line col, 0 < n → lineStartOfLine l n = some o →
    walkLC l o line col = (line + n, 1) := by
  induction l with
  | nil => intro n o line col hn h; cases n <;> simp [lineStartOfLine] at h; omega
  | cons c t ih =>
    intro n o line col hn h
    obtain ⟨n', rfl⟩ : ∃ n', n = n' + 1 := ⟨n - 1, by omega⟩
    simp only [lineStartOfLine] at h
    by_cases hc : c = 10
    · simp only [hc, if_true, Option.map_eq_some_iff] at h
      obtain ⟨o', ho', rfl⟩ := h
      simp only [walkLC, hc, if_true]
      by_cases hn' : n' = 0
      · subst hn'
        have : o' = 0 := by cases t <;> simp [lineStartOfLine] at ho' <;> omega
        subst this; simp [walkLC]
      · rw [ih n' o' (line + 1) 1 (by omega) ho']
        congr 1; omega
    · simp only [hc, if_false, Option.map_eq_some_iff] at h
      obtain ⟨o', ho', rfl⟩ := h
      simp only [walkLC, hc, if_false]
      exact ih (n' + 1) o' line (col + 1) (by omega) ho'

/-! ### the same facts for the `Int` pairs `linecol` returns -/

def castLC (x : Nat × Nat) : Int × Int := ((x.1 : Int), (x.2 : Int))

/-- strict / weak lexicographic order on reported (line, column) pairs -/
def lexLtI (a b : Int × Int) : Prop := a.1 < b.1 ∨ (a.1 = b.1 ∧ a.2 < b.2)
def lexLeI (a b : Int × Int) : Prop := a = b ∨ lexLtI a b

theorem castLC_inj {a b : Nat × Nat} (h : castLC a = castLC b) : a = b := by
  unfold castLC at h
  have h1 := congrArg Prod.fst h
  have h2 := congrArg Prod.snd h
  simp only at h1 h2
  exact Prod.ext (by omega) (by omega)

theorem linecol_nat (s : Array Nat) (p : Nat) : linecol s (p : Int) = some (castLC (cursor s p)) :=
  linecol_eq_cursor s p

theorem linecol_of_nonneg (s : Array Nat) (x : Int) (hx : 0 ≤ x) : linecol s x = some (castLC (cursor s x.toNat)) := by
  obtain ⟨n, rfl⟩ := Int.eq_ofNat_of_zero_le hx
  rw [linecol_nat]; simp

theorem linecol_neg (s : Array Nat) (x : Int) (hx : x < 0) : linecol s x = some (1, x + 1) := by
  unfold linecol
  simp [bisect_neg _ _ hx]

theorem cursor_mono (s : Array Nat) (p q : Nat) (h : p ≤ q) : lexLeI (castLC (cursor s p)) (castLC (cursor s q)) := by
  rcases Nat.lt_or_eq_of_le h with h | h
  · right
    have := cursor_strictMono s p q h
    unfold lexLt at this; unfold lexLtI castLC; simp; omega
  · subst h; exact Or.inl rfl

theorem cursor_one_based (s : Array Nat) (p : Nat) : 1 ≤ (cursor s p).1 ∧ 1 ≤ (cursor s p).2 :=
  ⟨walkLC_line_ge _ _ _ _, walkLC_col_ge _ _ _ _ (Nat.le_refl _)⟩

end Pos

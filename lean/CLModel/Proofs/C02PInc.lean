/- C02 (round 4), .inc (DefinesParser): `# ` comment blocks (attached / stand-alone), instructions — in particular
   `#filter emptyLines` / `#unfilter emptyLines`, whose state decides whether blank lines are white-space —, blank lines,
   and inert garbage lines (garbage locality): the state machine of `DefinesParser.getNext`. -/
import CLModel.Proofs.C02PIni
import CLModel.Proofs.C02XInc
namespace C02P
open Rx P Gen.Pat C02X

/-! ### comment blocks `# text` -/

def ncBody : Re :=
  Re.seq (Re.bol true) (Re.seq (Re.lit 35) (Re.seq (Re.lit 32) (Re.seq (Re.rep 0 none false (Re.any false)) (Re.lit 10))))
def ncLast : Re := Re.seq (Re.bol true) (Re.seq (Re.lit 35) (Re.seq (Re.lit 32) (Re.rep 0 none true (Re.notLit 10))))

theorem incComment_eq : DefinesParser_reComment = Re.seq (Re.rep 0 none true ncBody) ncLast := rfl

/-- the text does not start with `# ` -/
def NotNC (l : List Nat) : Prop := ∀ t, l ≠ 35 :: 32 :: t

theorem nc_head_fail (s : Array Nat) (p : Nat) (l : List Nat) (caps) (h : At s p l) (hl : NotNC l) (K1 : K) :
    m s (Re.lit 35) ⟨p, caps⟩ (fun st' => m s (Re.lit 32) st' K1) = none := by
  cases l with
  | nil => exact lit_at_fail h (by simp) caps _
  | cons c l' =>
    by_cases hc : c = 35
    · subst hc
      rw [lit_at h]
      cases l' with
      | nil => exact lit_at_fail h.tail (by simp) caps _
      | cons d l'' =>
        have : d ≠ 32 := by intro hd; subst hd; exact hl l'' rfl
        exact lit_at_fail h.tail (by simp [this]) caps _
    · exact lit_at_fail h (by simp [hc]) caps _

theorem ncBody_fail (s : Array Nat) (p : Nat) (l : List Nat) (caps) (h : At s p l) (hl : NotNC l) (k' : K) :
    m s ncBody ⟨p, caps⟩ k' = none := by
  unfold ncBody
  rw [m_seq, m_bol]
  split
  · simp only [m_seq]; exact nc_head_fail s p l caps h hl _
  · rfl

theorem ncLast_fail (s : Array Nat) (p : Nat) (l : List Nat) (caps) (h : At s p l) (hl : NotNC l) (k' : K) :
    m s ncLast ⟨p, caps⟩ k' = none := by
  unfold ncLast
  rw [m_seq, m_bol]
  split
  · simp only [m_seq]; exact nc_head_fail s p l caps h hl _
  · rfl

theorem ncBody_nols (s : Array Nat) (p : Nat) (caps) (h : ¬ LineStart s p) (k' : K) : m s ncBody ⟨p, caps⟩ k' = none := by
  unfold ncBody; rw [m_seq, bol_fail s p caps _ h]

theorem ncLast_nols (s : Array Nat) (p : Nat) (caps) (h : ¬ LineStart s p) (k' : K) : m s ncLast ⟨p, caps⟩ k' = none := by
  unfold ncLast; rw [m_seq, bol_fail s p caps _ h]

theorem ncBody_line (s : Array Nat) (p : Nat) (t rest : List Nat) (caps) (h : At s p (35 :: 32 :: (t ++ 10 :: rest)))
    (hls : LineStart s p) (ht : ∀ x ∈ t, x ≠ 10) (k' : K) :
    m s ncBody ⟨p, caps⟩ k' = k' ⟨p + t.length + 3, caps⟩ := by
  have h2 := h.tail.tail
  have hp : p + 1 + 1 < s.size := h2.pos_lt (by simp)
  unfold ncBody
  rw [m_seq, bol_ok s p caps _ hls, m_seq, lit_at h, m_seq, lit_at h.tail, m_seq, m_rep, m_any_charStep]
  simp only []
  rw [lazy_at_exact _ caps _ h2 (fun x hx => by simp [ht x hx]) (by intro x hx; simp at hx; subst hx; decide)
    (fun j hj => lit_fail s _ 10 caps (by rw [h2.left j hj]; simp [ht _ (List.getElem_mem hj)]) _) (by omega)]
  rw [lit_at h2.app, show p + 1 + 1 + t.length + 1 = p + t.length + 3 by omega]

theorem ncBody_eof (s : Array Nat) (p : Nat) (t : List Nat) (caps) (h : At s p (35 :: 32 :: t))
    (ht : ∀ x ∈ t, x ≠ 10) (k' : K) : m s ncBody ⟨p, caps⟩ k' = none := by
  have h2 : At s (p + 1 + 1) (t ++ []) := by simpa using h.tail.tail
  have hp := h.size_ge (by simp)
  simp only [List.length_cons] at hp
  unfold ncBody
  rw [m_seq, m_bol]
  split
  · rw [m_seq, lit_at h, m_seq, lit_at h.tail, m_seq, m_rep, m_any_charStep]
    simp only []
    rw [lazy_at_exact _ caps _ h2 (fun x hx => by simp [ht x hx]) (by intro x hx; simp at hx)
      (fun j hj => lit_fail s _ 10 caps (by rw [h2.left j hj]; simp [ht _ (List.getElem_mem hj)]) _) (by omega)]
    exact lit_at_fail h2.app (by simp) caps k'
  · rfl

theorem ncLast_line (s : Array Nat) (p : Nat) (t rest : List Nat) (h : At s p (35 :: 32 :: (t ++ rest)))
    (hls : LineStart s p) (ht : ∀ x ∈ t, x ≠ 10) (hr : ∀ c, rest.head? = some c → c = 10) :
    m s ncLast ⟨p, []⟩ some = some ⟨p + t.length + 2, []⟩ := by
  have h2 := h.tail.tail
  have hp := h.size_ge (by simp)
  simp only [List.length_cons, List.length_append] at hp
  unfold ncLast
  rw [m_seq, bol_ok s p [] _ hls, m_seq, lit_at h, m_seq, lit_at h.tail, m_rep, m_notLit_charStep]
  simp only []
  rw [greedy_at _ [] some _ 0 h2 (fun x hx => by simp [ht x hx]) (by intro x hx; simp [hr x hx]) (by omega) (by omega) rfl]
  rw [show p + 1 + 1 + t.length = p + t.length + 2 by omega]

/-- the comment lines as `CLine`s: marker `#`, text = blank + the comment text -/
def ncLines (ts : List (List Nat)) : List CLine := ts.map (fun t => (35, 32 :: t))

/-- what follows a comment block: the end of the text, or a newline not followed by `# ` -/
def AfterNC (rest : List Nat) : Prop := rest = [] ∨ ∃ r', rest = 10 :: r' ∧ NotNC r'

theorem nc_loop (s : Array Nat) : ∀ (ts : List (List Nat)) (t : List Nat) (p fuel : Nat) (rest : List Nat),
    At s p (printCLines (ncLines (t :: ts)) ++ rest) → LineStart s p → (∀ x ∈ t :: ts, ∀ c ∈ x, c ≠ 10) → AfterNC rest →
    ts.length + 1 < fuel →
    loop (m s ncBody) true fuel 0 none ⟨p, []⟩ (fun st => m s ncLast st some) =
      some ⟨p + (printCLines (ncLines (t :: ts))).length, []⟩ := by
  intro ts
  induction ts with
  | nil =>
    intro t p fuel rest h hls hg hr hf
    obtain ⟨f, rfl⟩ : ∃ f, fuel = f + 1 := ⟨fuel - 1, by omega⟩
    have ht := hg t (by simp)
    have h' : At s p (35 :: 32 :: (t ++ rest)) := by simpa [At, printCLines, ncLines] using h
    have hlast := ncLast_line s p t rest h' hls ht (by
      intro c hc
      rcases hr with rfl | ⟨r', rfl, _⟩
      · simp at hc
      · simpa using hc.symm)
    have hmore : m s ncBody ⟨p, []⟩ (fun st' => if st'.pos ≤ p then none else
        loop (m s ncBody) true f (0 - 1) ((none : Option Nat).map (· - 1)) st' (fun st => m s ncLast st some)) = none := by
      rcases hr with rfl | ⟨r', rfl, hr'⟩
      · exact ncBody_eof s p t [] (by simpa using h') ht _
      · rw [ncBody_line s p t r' [] h' hls ht]
        simp only [show ¬ (p + t.length + 3 ≤ p) by omega, if_false]
        have h2 : At s (p + t.length + 3) r' := by
          have := h'.tail.tail.app.tail
          rw [show p + 1 + 1 + t.length + 1 = p + t.length + 3 by omega] at this
          exact this
        cases f with
        | zero => rw [loop]
        | succ f' =>
          rw [loop_body_fail _ true f' _ _ _ (fun k' => ncBody_fail s _ r' [] h2 hr' k')]
          exact ncLast_fail s _ r' [] h2 hr' _
    rw [loop]
    simp only [show ((none : Option Nat) == some 0) = false from rfl, Bool.false_eq_true, if_false, hmore]
    simp only [Nat.lt_irrefl, if_false, if_true]
    simp [hlast, printCLines, ncLines]
    omega
  | cons t' ts ih =>
    intro t p fuel rest h hls hg hr hf
    obtain ⟨f, rfl⟩ : ∃ f, fuel = f + 1 := ⟨fuel - 1, by omega⟩
    have ht := hg t (by simp)
    have h' : At s p (35 :: 32 :: (t ++ 10 :: (printCLines (ncLines (t' :: ts)) ++ rest))) := by
      simpa [At, printCLines_cons2, ncLines] using h
    have h2 : At s (p + t.length + 3) (printCLines (ncLines (t' :: ts)) ++ rest) := by
      have := h'.tail.tail.app.tail
      rw [show p + 1 + 1 + t.length + 1 = p + t.length + 3 by omega] at this
      exact this
    have hls2 : LineStart s (p + t.length + 3) := by
      have := lineStart_after h'.tail.tail.app
      rw [show p + 1 + 1 + t.length + 1 = p + t.length + 3 by omega] at this
      exact this
    have ihh := ih t' (p + t.length + 3) f rest h2 hls2 (fun x hx => hg x (by simp at hx ⊢; right; exact hx)) hr
      (by simp at hf; omega)
    rw [loop]
    simp only [show ((none : Option Nat) == some 0) = false from rfl, Bool.false_eq_true, if_false,
      ncBody_line s p t _ [] h' hls ht, show ¬ (p + t.length + 3 ≤ p) by omega, Option.map_none, Nat.zero_sub, ihh]
    simp [printCLines_cons2, ncLines]
    omega

theorem inc_comment_at (s : Array Nat) (p : Nat) (ts : List (List Nat)) (rest : List Nat) (hne : ts ≠ [])
    (hls : LineStart s p) (hg : ∀ x ∈ ts, ∀ c ∈ x, c ≠ 10) (hr : AfterNC rest)
    (h : At s p (printCLines (ncLines ts) ++ rest)) :
    matchAt s DefinesParser_reComment p = some ⟨p + (printCLines (ncLines ts)).length, []⟩ := by
  cases ts with
  | nil => exact absurd rfl hne
  | cons t ts =>
    have hl := h.len
    have hlen := printCLines_len (ncLines (t :: ts))
    have hn : (ncLines (t :: ts)).length = ts.length + 1 := by simp [ncLines]
    simp only [List.length_append] at hl
    rw [incComment_eq]
    simp only [matchAt, m_seq, m_rep]
    exact nc_loop s ts t p _ rest h hls hg hr (by omega)

theorem inc_comment_none_at (s : Array Nat) (p : Nat) (l : List Nat) (hl : NotNC l) (h : At s p l) :
    matchAt s DefinesParser_reComment p = none := by
  rw [incComment_eq]
  simp only [matchAt, m_seq, m_rep]
  cases hf : s.size + 2 - p with
  | zero => rw [loop]
  | succ f =>
    rw [loop_body_fail _ true f _ _ _ (fun k' => ncBody_fail s p l [] h hl k')]
    exact ncLast_fail s p l [] h hl _

theorem inc_comment_none_mid (s : Array Nat) (p : Nat) (h : ¬ LineStart s p) : matchAt s DefinesParser_reComment p = none := by
  rw [incComment_eq]
  simp only [matchAt, m_seq, m_rep]
  cases hf : s.size + 2 - p with
  | zero => rw [loop]
  | succ f =>
    rw [loop_body_fail _ true f _ _ _ (fun k' => ncBody_nols s p [] h k')]
    exact ncLast_nols s p [] h _

/-! ### `\n+` -/

theorem nws_at (s : Array Nat) (p : Nat) (w rest : List Nat) (hne : w ≠ []) (hw : ∀ c ∈ w, c = 10)
    (hr : rest.head? ≠ some 10) (h : At s p (w ++ rest)) :
    matchAt s DefinesParser_reWhitespace p = some ⟨p + w.length, []⟩ := by
  have hp : p < s.size := h.pos_lt (by simp [hne])
  simp only [matchAt, DefinesParser_reWhitespace, m_rep, m_lit_charStep]
  exact greedy_at _ [] some _ 1 h (fun c hc => by simp [hw c hc]) (fun c hc => by
      have : c ≠ 10 := by intro h10; subst h10; exact hr hc
      simp [this])
    (by have := List.length_pos_iff.mpr hne; omega) (by omega) rfl

theorem nws_none_at (s : Array Nat) (p : Nat) (l : List Nat) (hl : l.head? ≠ some 10) (h : At s p l) :
    matchAt s DefinesParser_reWhitespace p = none := by
  simp only [matchAt, DefinesParser_reWhitespace, m_rep, m_lit_charStep]
  exact greedy_at_short _ [] some _ 1 h (fun c hc => by
    have : c ≠ 10 := by intro h10; subst h10; exact hl hc
    simp [this]) (by omega)

/-! ### instructions -/

theorem incPI_eq : DefinesParser_rePI = Re.seq (Re.lit 35) (Re.group 1 (Re.seq (Re.rep 1 none true (Re.cls false [.word]))
    (Re.seq (Re.rep 1 none true (Re.cls false [.ch 32, .ch 9])) (Re.rep 1 none true (Re.notLit 10))))) := rfl

/-- `#word␣␣arg` -/
def instrText (word : List Nat) (nb : Nat) (arg : List Nat) : List Nat := 35 :: (word ++ (List.replicate nb 32 ++ arg))

structure InstrGood (word : List Nat) (nb : Nat) (arg : List Nat) : Prop where
  word_ne : word ≠ []
  word_ok : ∀ c ∈ word, asciiWord c = true
  /-- not `#define …` (the key regex is tried first) -/
  word_head : word.head? ≠ some 100
  nb : 0 < nb
  arg_ne : arg ≠ []
  arg_ok : ∀ c ∈ arg, c ≠ 10
  arg_head : ∀ c, arg.head? = some c → isBlank c = false

theorem inc_pi_at (s : Array Nat) (p : Nat) (word : List Nat) (nb : Nat) (arg rest : List Nat) (hg : InstrGood word nb arg)
    (hr : ∀ c, rest.head? = some c → c = 10) (h : At s p (instrText word nb arg ++ rest)) :
    matchAt s DefinesParser_rePI p =
      some ⟨p + (instrText word nb arg).length, [(1, p + 1, p + (instrText word nb arg).length)]⟩ := by
  have h0 : At s p (35 :: (word ++ (List.replicate nb 32 ++ (arg ++ rest)))) := by simpa [At, instrText] using h
  have h1 := h0.tail
  have h2 := h1.app
  have h3 := h2.app
  have hp := h3.pos_lt (by simp [hg.arg_ne])
  simp only [List.length_replicate] at h3 hp
  have hnb := hg.nb
  have hwl : 0 < word.length := List.length_pos_iff.mpr hg.word_ne
  have hal : 0 < arg.length := List.length_pos_iff.mpr hg.arg_ne
  rw [incPI_eq]
  simp only [matchAt, m_seq, m_group, m_rep, m_cls_charStep, m_notLit_charStep]
  rw [lit_at h0]
  apply greedy_at _ _ _ _ 1 h1 (fun c hc => by rw [inC_word]; exact isWord_of_ascii c (hg.word_ok c hc))
    (by
      intro c hc
      cases nb with
      | zero => omega
      | succ n => simp [List.replicate_succ] at hc; subst hc; rw [inC_word]; exact isWord_32)
    (by omega) (by omega)
  apply greedy_at _ _ _ _ 1 h2 (by intro c hc; simp at hc; rw [hc.2]; decide)
    (by
      intro c hc
      rw [head?_app_ne hg.arg_ne] at hc
      rw [inC_blank]; exact hg.arg_head c hc)
    (by simp; omega) (by omega)
  simp only [List.length_replicate]
  apply greedy_at _ _ _ _ 1 h3 (fun c hc => by simp [hg.arg_ok c hc]) (by intro c hc; simp [hr c hc]) (by omega) (by omega)
  simp [instrText]
  omega

/-! ### blocks -/

/-- `#define KEY[ value]` without its newline -/
def defText (r : IRec) : List Nat := defPrefix ++ (r.1 ++ (if r.2.isEmpty then [] else 32 :: r.2))

/-- a comment block in front of a `#define`, with the newline that ends it -/
def ncPre (ts : List (List Nat)) : List Nat := if ts.isEmpty then [] else printCLines (ncLines ts) ++ [10]

/-- a printed block of an .inc file -/
inductive NBlock
  | define (cm : List (List Nat)) (r : IRec) (gap : List Nat)
  | free (ts : List (List Nat)) (gap : List Nat)
  | instr (word : List Nat) (nb : Nat) (arg : List Nat) (gap : List Nat)

def NBlock.print : NBlock → List Nat
  | .define cm r gap => ncPre cm ++ (defText r ++ gap)
  | .free ts gap => printCLines (ncLines ts) ++ gap
  | .instr word nb arg gap => instrText word nb arg ++ gap

/-- `ctx.filter_empty_lines` after the block -/
def NBlock.tr (c : Bool) : NBlock → Bool
  | .instr word nb arg _ =>
    if word ++ (List.replicate nb 32 ++ arg) == filterEmptyLines then true
    else if word ++ (List.replicate nb 32 ++ arg) == unfilterEmptyLines then false else c
  | _ => c

/-- newlines between blocks -/
structure NGap (gap : List Nat) : Prop where
  ne : gap ≠ []
  nl : ∀ c ∈ gap, c = 10

def NBlock.Good' (c : Bool) : NBlock → Prop
  | .define cm r gap => (∀ t ∈ cm, ∀ x ∈ t, isLineBreak x = false) ∧ SafeIncRec r ∧ NGap gap ∧ (gap.length = 1 ∨ c = true)
  | .free ts gap => ts ≠ [] ∧ (∀ t ∈ ts, ∀ x ∈ t, x ≠ 10) ∧ NGap gap ∧ 2 ≤ gap.length ∧ c = true
  | .instr word nb arg gap => InstrGood word nb arg ∧ NGap gap ∧
      (gap.length = 1 ∨ NBlock.tr c (.instr word nb arg gap) = true)

def incEntityC (off pl klen vlen : Nat) (hasC : Bool) : Entry :=
  { incEntity (off + pl) klen vlen with full := off, pc := if hasC then some (off, off + pl - 1) else none }

def incInstrEntry (off len : Nat) : Entry :=
  { kind := .instruction, full := off, s := off, e := off + len, ks := (off + 1 : Nat), ke := (off + len : Nat),
    vs := (off + 1 : Nat), ve := (off + len : Nat) }

def NBlock.entries (off : Nat) : NBlock → List Entry
  | .define cm r gap =>
    [incEntityC off (ncPre cm).length r.1.length r.2.length (!cm.isEmpty),
     wsEntryN (off + (ncPre cm).length + (defText r).length) gap.length]
  | .free ts gap =>
    [commentEntry off (off + (printCLines (ncLines ts)).length), wsEntryN (off + (printCLines (ncLines ts)).length) gap.length]
  | .instr word nb arg gap =>
    [incInstrEntry off (instrText word nb arg).length, wsEntryN (off + (instrText word nb arg).length) gap.length]

theorem defText_length (r : IRec) : (defText r).length = incLen r.1.length r.2.length := by
  unfold defText incLen defPrefix
  cases hv : r.2 with
  | nil => simp; omega
  | cons a t => simp; omega

theorem ngap_cons {gap : List Nat} (h : NGap gap) : ∃ w, gap = 10 :: w ∧ ∀ c ∈ w, c = 10 := by
  cases hg : gap with
  | nil => exact absurd hg h.ne
  | cons a t =>
    have := h.nl a (by simp [hg]); subst this
    exact ⟨t, rfl, fun c hc => h.nl c (by simp [hg, hc])⟩

theorem ngap_last {gap : List Nat} (h : NGap gap) : gap.getLast? = some 10 := by
  cases hl : gap.getLast? with
  | none => rw [List.getLast?_eq_none_iff] at hl; exact absurd hl h.ne
  | some c => rw [h.nl c (List.mem_of_getLast? hl)]

/-- the text from a `#define` record on -/
theorem def_at_rec (s : Array Nat) (p : Nat) (r : IRec) (gap rest : List Nat) (hs : SafeIncRec r) (hgap : NGap gap)
    (h : At s p (defText r ++ (gap ++ rest))) : IncRecAt s p r.1.length r.2.length := by
  obtain ⟨w, hw, _⟩ := ngap_cons hgap
  apply incRecAt_of_drop s p r (w ++ rest) hs
  rw [hw] at h
  simpa [At, defText, printIncRec] using h

theorem notNC_def (l : List Nat) : NotNC (defPrefix ++ l) := by
  intro t ht; simp [defPrefix] at ht

theorem notNC_nl (l : List Nat) : NotNC (10 :: l) := by
  intro t ht; simp at ht

theorem notNC_nil : NotNC [] := by intro t ht; cases ht

/-- newlines: one white-space entry — if there is one newline only, or `#filter emptyLines` is on (and not at offset 0) -/
theorem inc_ws_n (s : Array Nat) (fel : Bool) (p : Nat) (w rest : List Nat) (hw : NGap w) (hr : rest.head? ≠ some 10)
    (hp : p ≠ 0) (hfel : w.length = 1 ∨ fel = true) (h : At s p (w ++ rest)) :
    definesGetNext s fel p = (wsEntryN p w.length, fel) := by
  obtain ⟨w', hw', _⟩ := ngap_cons hw
  have hcm := inc_comment_none_at s p _ (by rw [hw']; exact notNC_nl _) h
  have hws := nws_at s p w rest hw.ne hw.nl hr h
  unfold definesGetNext
  simp only [hcm, hws]
  rcases hfel with h1 | h1
  · simp [hp, h1, wsEntryN]
  · simp [hp, h1, wsEntryN]

/-! ### `DefinesParser.getNext` on the blocks -/

theorem ncPre_length (ts : List (List Nat)) (hne : ts ≠ []) : (ncPre ts).length = (printCLines (ncLines ts)).length + 1 := by
  simp [ncPre, isEmpty_false_of_ne hne]

theorem defText_head (r : IRec) (l : List Nat) : (defText r ++ l).head? = some 35 := rfl

theorem inc_define_plain (s : Array Nat) (fel : Bool) (off : Nat) (r : IRec) (gap rest : List Nat) (hs : SafeIncRec r)
    (hgap : NGap gap) (h : At s off (defText r ++ (gap ++ rest))) :
    definesGetNext s fel off = (incEntityC off 0 r.1.length r.2.length false, fel) := by
  have := inc_entity_at s fel off _ _ (def_at_rec s off r gap rest hs hgap h)
  rw [this]
  simp [incEntityC, incEntity]
  split <;> rfl

theorem inc_define_commented (s : Array Nat) (fel : Bool) (off : Nat) (ts : List (List Nat)) (r : IRec) (gap rest : List Nat)
    (hne : ts ≠ []) (hts : ∀ t ∈ ts, ∀ x ∈ t, x ≠ 10) (hs : SafeIncRec r) (hgap : NGap gap) (hls : LineStart s off)
    (h : At s off (printCLines (ncLines ts) ++ (10 :: (defText r ++ (gap ++ rest))))) :
    definesGetNext s fel off =
      (incEntityC off ((printCLines (ncLines ts)).length + 1) r.1.length r.2.length true, fel) := by
  have hac : AfterNC (10 :: (defText r ++ (gap ++ rest))) := Or.inr ⟨_, rfl, by
    have := notNC_def (r.1 ++ (if r.2.isEmpty then [] else 32 :: r.2) ++ (gap ++ rest))
    simpa [defText] using this⟩
  have hcm := inc_comment_at s off ts _ hne hls hts hac h
  have h2 : At s (off + (printCLines (ncLines ts)).length) ([10] ++ (defText r ++ (gap ++ rest))) := h.app
  have hws := nws_at s _ [10] _ (by simp) (by simp) (by rw [defText_head]; decide) h2
  have hrec := def_at_rec s _ r gap rest hs hgap h2.app
  have hkm := inc_key_match s _ _ _ hrec
  have hcpos : 0 < (printCLines (ncLines ts)).length := by
    have := printCLines_len (ncLines ts)
    have : 0 < ts.length := List.length_pos_iff.mpr hne
    simp [ncLines] at *; omega
  have hcnt : ¬ (countNl s (off + (printCLines (ncLines ts)).length) (off + (printCLines (ncLines ts)).length + [10].length) > 1) := by
    rw [countNl_at h2]; decide
  simp only [List.length_cons, List.length_nil, Nat.zero_add] at hws hkm hcnt
  unfold definesGetNext
  simp only [hcm, hws, hkm]
  have hoff1 : (off + (printCLines (ncLines ts)).length == 0) = false := by rw [beq_eq_false_iff_ne]; omega
  simp only [hoff1, Nat.add_sub_cancel_left, beq_self_eq_true, Bool.true_or, Bool.not_true, Bool.or_false, Bool.false_eq_true,
    if_false, hcnt]
  unfold incEntityC incEntity
  by_cases hv : r.2.length = 0
  · simp [hv, spanI, St.group, capOf, DefinesParser_reKey_g_key, DefinesParser_reKey_g_val, Nat.add_assoc]
  · simp [hv, spanI, St.group, capOf, DefinesParser_reKey_g_key, DefinesParser_reKey_g_val, Nat.add_assoc]

theorem inc_free_comment (s : Array Nat) (fel : Bool) (off : Nat) (ts : List (List Nat)) (gap rest : List Nat)
    (hne : ts ≠ []) (hts : ∀ t ∈ ts, ∀ x ∈ t, x ≠ 10) (hgap : NGap gap) (h2 : 2 ≤ gap.length) (hls : LineStart s off)
    (hr : rest.head? ≠ some 10) (h : At s off (printCLines (ncLines ts) ++ (gap ++ rest))) :
    definesGetNext s fel off = (commentEntry off (off + (printCLines (ncLines ts)).length), fel) := by
  obtain ⟨w, hw, hwn⟩ := ngap_cons hgap
  have hwne : w ≠ [] := by intro hh; subst hh; rw [hw] at h2; simp at h2
  have hac : AfterNC (gap ++ rest) := by
    right
    refine ⟨w ++ rest, by rw [hw]; rfl, ?_⟩
    cases w with
    | nil => exact absurd rfl hwne
    | cons a t => rw [hwn a (by simp)]; exact notNC_nl _
  have hcm := inc_comment_at s off ts _ hne hls hts hac h
  have hws := nws_at s _ gap rest hgap.ne hgap.nl hr h.app
  have hcnt : countNl s (off + (printCLines (ncLines ts)).length) (off + (printCLines (ncLines ts)).length + gap.length) > 1 := by
    rw [countNl_at h.app]
    have : gap.filter (· == 10) = gap := by
      rw [List.filter_eq_self]; intro c hc; simp [hgap.nl c hc]
    rw [this]; omega
  have hcpos : 0 < (printCLines (ncLines ts)).length := by
    have := printCLines_len (ncLines ts)
    have : 0 < ts.length := List.length_pos_iff.mpr hne
    simp [ncLines] at *; omega
  have hoff1 : (off + (printCLines (ncLines ts)).length == 0) = false := by rw [beq_eq_false_iff_ne]; omega
  have hgl : ¬ gap.length = 1 := by omega
  unfold definesGetNext
  simp only [hcm, hws, hoff1, Nat.add_sub_cancel_left]
  cases fel <;> simp [hgl, hcnt, commentEntry]

theorem inc_key_none_instr (s : Array Nat) (p : Nat) (l : List Nat) (h : At s p l) (hl : ∀ t, l ≠ 35 :: 100 :: t) :
    matchAt s DefinesParser_reKey p = none := by
  simp only [matchAt, DefinesParser_reKey, m_seq]
  cases l with
  | nil => exact lit_at_fail h (by simp) [] _
  | cons c l' =>
    by_cases hc : c = 35
    · subst hc
      rw [lit_at h]
      cases l' with
      | nil => exact lit_at_fail h.tail (by simp) [] _
      | cons d l'' =>
        have : d ≠ 100 := by intro hd; subst hd; exact hl l'' rfl
        exact lit_at_fail h.tail (by simp [this]) [] _
    · exact lit_at_fail h (by simp [hc]) [] _

theorem inc_pi_none (s : Array Nat) (p : Nat) (l : List Nat) (h : At s p l) (hl : l.head? ≠ some 35) :
    matchAt s DefinesParser_rePI p = none := by
  rw [incPI_eq]
  simp only [matchAt, m_seq]
  exact lit_at_fail h hl [] _

theorem inc_instr_at (s : Array Nat) (fel : Bool) (off : Nat) (word : List Nat) (nb : Nat) (arg gap rest : List Nat)
    (hg : InstrGood word nb arg) (hgap : NGap gap) (h : At s off (instrText word nb arg ++ (gap ++ rest))) :
    definesGetNext s fel off =
      (incInstrEntry off (instrText word nb arg).length, NBlock.tr fel (.instr word nb arg gap)) := by
  obtain ⟨w, hw, _⟩ := ngap_cons hgap
  obtain ⟨c0, wt, hword⟩ : ∃ c0 wt, word = c0 :: wt := by
    cases word with
    | nil => exact absurd rfl hg.word_ne
    | cons a t => exact ⟨a, t, rfl⟩
  have hc0 := hg.word_ok c0 (by simp [hword])
  have h0 : At s off (35 :: c0 :: (wt ++ (List.replicate nb 32 ++ (arg ++ (gap ++ rest))))) := by
    simpa [At, instrText, hword] using h
  have hcm := inc_comment_none_at s off _ (by
    intro t ht; simp at ht; rw [ht.1] at hc0; revert hc0; decide) h0
  have hws := nws_none_at s off _ (by simp) h0
  have hkm := inc_key_none_instr s off _ h0 (by
    intro t ht; simp at ht
    have := hg.word_head; rw [hword] at this; simp at this; exact this ht.1)
  have hpi := inc_pi_at s off word nb arg (gap ++ rest) hg (by intro c hc; rw [hw] at hc; simpa using hc.symm) h
  have hsl : slice s (off + 1) (off + (instrText word nb arg).length) = word ++ (List.replicate nb 32 ++ arg) := by
    have h1 : At s (off + 1) ((word ++ (List.replicate nb 32 ++ arg)) ++ (gap ++ rest)) := by
      have := h.tail (c := 35) (l := word ++ (List.replicate nb 32 ++ arg) ++ (gap ++ rest)) |> fun x => x
      simpa [At, instrText] using (show At s off (35 :: ((word ++ (List.replicate nb 32 ++ arg)) ++ (gap ++ rest))) by
        simpa [At, instrText] using h).tail
    have := h1.slice
    rw [← this]
    congr 1
    simp [instrText]; omega
  have hcast : ((off : Int) + ((instrText word nb arg).length : Int)).toNat = off + (instrText word nb arg).length := by omega
  unfold definesGetNext
  simp only [hcm, hws, hkm, hpi]
  simp [incInstrEntry, spanI, St.group, capOf, DefinesParser_rePI_g_val, hcast, hsl, NBlock.tr]

/-! ### walking one block -/

abbrev incNext (s : Array Nat) : Bool → Nat → Entry × Bool := fun fel off => definesGetNext s fel off

def NFollow (rest : List Nat) : Prop := rest.head? ≠ some 10

theorem ncLines_head (t : List Nat) (ts : List (List Nat)) (x : List Nat) :
    (printCLines (ncLines (t :: ts)) ++ x).head? = some 35 := by
  simp only [ncLines, List.map_cons]
  exact printCLines_head _ _ _

theorem nblock_head (b : NBlock) (c : Bool) (hg : b.Good' c) (l : List Nat) : (b.print ++ l).head? = some 35 := by
  cases b with
  | define cm r gap =>
    simp only [NBlock.print, ncPre]
    cases cm with
    | nil => rfl
    | cons t ts => simp only [List.isEmpty_cons, Bool.false_eq_true, if_false, List.append_assoc]; exact ncLines_head t ts _
  | free ts gap =>
    simp only [NBlock.print]
    cases ts with
    | nil => exact absurd rfl hg.1
    | cons t ts => rw [List.append_assoc]; exact ncLines_head t ts _
  | instr word nb arg gap => rfl

theorem nfollow_block (b : NBlock) (c : Bool) (hg : b.Good' c) (l : List Nat) : NFollow (b.print ++ l) := by
  unfold NFollow; rw [nblock_head b c hg l]; decide

theorem printCLines_nc_pos (ts : List (List Nat)) (hne : ts ≠ []) : 0 < (printCLines (ncLines ts)).length := by
  have := printCLines_len (ncLines ts)
  have : 0 < ts.length := List.length_pos_iff.mpr hne
  simp [ncLines] at *; omega

theorem inc_walks_block (s : Array Nat) (c : Bool) (off : Nat) (b : NBlock) (rest : List Nat) (hg : b.Good' c)
    (hfo : NFollow rest) (hls : LineStart s off) (h : At s off (b.print ++ rest)) :
    Walks (incNext s) s.size c off (b.entries off) (b.tr c) (off + b.print.length) ∧ LineStart s (off + b.print.length) := by
  cases b with
  | define cm r gap =>
    obtain ⟨hcm, hs, hgap, hfel⟩ := hg
    have hdl := defText_length r
    have hkl : 0 < r.1.length := List.length_pos_iff.mpr hs.key_ne
    have hil : 8 + r.1.length ≤ incLen r.1.length r.2.length := by unfold incLen; omega
    have h1 : At s off (ncPre cm ++ (defText r ++ (gap ++ rest))) := by simpa [At, NBlock.print] using h
    have h3 : At s (off + (ncPre cm).length + (defText r).length) (gap ++ rest) := h1.app.app
    have hgl : 0 < gap.length := List.length_pos_iff.mpr hgap.ne
    have e1 : definesGetNext s c off = (incEntityC off (ncPre cm).length r.1.length r.2.length (!cm.isEmpty), c) := by
      by_cases hne : cm = []
      · subst hne
        have := inc_define_plain s c off r gap rest hs hgap (by simpa [At, ncPre] using h1)
        simpa [ncPre] using this
      · have hemp := isEmpty_false_of_ne hne
        have h1' : At s off (printCLines (ncLines cm) ++ (10 :: (defText r ++ (gap ++ rest)))) := by
          simpa [At, ncPre, hemp] using h1
        have := inc_define_commented s c off cm r gap rest hne
          (fun t ht x hx h10 => by have := hcm t ht x hx; rw [h10] at this; revert this; decide) hs hgap hls h1'
        rw [this, ncPre_length cm hne, hemp]; rfl
    have e2 := inc_ws_n s c _ gap rest hgap hfo (by omega) hfel h3
    have hee : (incEntityC off (ncPre cm).length r.1.length r.2.length (!cm.isEmpty)).e = off + (ncPre cm).length + (defText r).length := by
      simp only [incEntityC]; rw [incEntity_e, hdl]
    have w1 : Walks (incNext s) s.size c off [incEntityC off (ncPre cm).length r.1.length r.2.length (!cm.isEmpty)] c
        (off + (ncPre cm).length + (defText r).length) := by
      have := Walks.one (next := incNext s) (size := s.size) (c := c) (c' := c) (off := off)
        (e := incEntityC off (ncPre cm).length r.1.length r.2.length (!cm.isEmpty))
        (h1.pos_lt (by intro hh; have := congrArg List.length hh; simp only [List.length_append, List.length_nil] at this; omega))
        (by rw [hee]; omega) e1
      rw [hee] at this; exact this
    have w2 : Walks (incNext s) s.size c (off + (ncPre cm).length + (defText r).length)
        [wsEntryN (off + (ncPre cm).length + (defText r).length) gap.length] c
        (off + (ncPre cm).length + (defText r).length + gap.length) :=
      Walks.one (h3.pos_lt (by simp [hgap.ne])) (by simp [wsEntryN]; omega) e2
    refine ⟨?_, ?_⟩
    · have := w1.append w2
      simpa [NBlock.entries, NBlock.print, NBlock.tr, Nat.add_assoc] using this
    · have := lineStart_of_last h3 hgap.ne (ngap_last hgap)
      simpa [NBlock.print, Nat.add_assoc] using this
  | free ts gap =>
    obtain ⟨hne, hts, hgap, h2, hc⟩ := hg
    subst hc
    have h' : At s off (printCLines (ncLines ts) ++ (gap ++ rest)) := by simpa [At, NBlock.print] using h
    have hcpos := printCLines_nc_pos ts hne
    have hgl : 0 < gap.length := List.length_pos_iff.mpr hgap.ne
    have e1 := inc_free_comment s true off ts gap rest hne hts hgap h2 hls hfo h'
    have e2 := inc_ws_n s true _ gap rest hgap hfo (by omega) (Or.inr rfl) h'.app
    have w1 : Walks (incNext s) s.size true off [commentEntry off (off + (printCLines (ncLines ts)).length)] true
        (off + (printCLines (ncLines ts)).length) :=
      Walks.one (next := incNext s) (e := commentEntry off (off + (printCLines (ncLines ts)).length))
        (h'.pos_lt (by simp [hgap.ne])) (by simp [commentEntry]; omega) e1
    have w2 : Walks (incNext s) s.size true (off + (printCLines (ncLines ts)).length)
        [wsEntryN (off + (printCLines (ncLines ts)).length) gap.length] true (off + (printCLines (ncLines ts)).length + gap.length) :=
      Walks.one (h'.app.pos_lt (by simp [hgap.ne])) (by simp [wsEntryN]; omega) e2
    refine ⟨?_, ?_⟩
    · have := w1.append w2
      simpa [NBlock.entries, NBlock.print, NBlock.tr, Nat.add_assoc] using this
    · have := lineStart_of_last h'.app hgap.ne (ngap_last hgap)
      simpa [NBlock.print, Nat.add_assoc] using this
  | instr word nb arg gap =>
    obtain ⟨hi, hgap, hfel⟩ := hg
    have h' : At s off (instrText word nb arg ++ (gap ++ rest)) := by simpa [At, NBlock.print] using h
    have hil : 0 < (instrText word nb arg).length := by simp [instrText]
    have hgl : 0 < gap.length := List.length_pos_iff.mpr hgap.ne
    have e1 := inc_instr_at s c off word nb arg gap rest hi hgap h'
    have e2 := inc_ws_n s (NBlock.tr c (.instr word nb arg gap)) _ gap rest hgap hfo (by omega) hfel h'.app
    have w1 : Walks (incNext s) s.size c off [incInstrEntry off (instrText word nb arg).length]
        (NBlock.tr c (.instr word nb arg gap)) (off + (instrText word nb arg).length) :=
      Walks.one (next := incNext s) (e := incInstrEntry off (instrText word nb arg).length)
        (h'.pos_lt (by simp [instrText])) (by simp [incInstrEntry]; omega) e1
    have w2 : Walks (incNext s) s.size (NBlock.tr c (.instr word nb arg gap)) (off + (instrText word nb arg).length)
        [wsEntryN (off + (instrText word nb arg).length) gap.length] (NBlock.tr c (.instr word nb arg gap))
        (off + (instrText word nb arg).length + gap.length) :=
      Walks.one (h'.app.pos_lt (by simp [hgap.ne])) (by simp [wsEntryN]; omega) e2
    refine ⟨?_, ?_⟩
    · have := w1.append w2
      simpa [NBlock.entries, NBlock.print, Nat.add_assoc] using this
    · have := lineStart_of_last h'.app hgap.ne (ngap_last hgap)
      simpa [NBlock.print, Nat.add_assoc] using this

/-! ### views -/

/-- `DefinesParser.Comment.val` (offset 2): every line loses `# ` -/
theorem offsetVal2_lines : ∀ (ts : List (List Nat)), (∀ t ∈ ts, ∀ x ∈ t, isLineBreak x = false) →
    offsetCommentVal 2 (printCLines (ncLines ts)) = cvalLines (ts.map (fun t => ((35 : Nat), t))) := by
  intro ts
  induction ts with
  | nil => intro _; simp [offsetCommentVal, splitLinesKeep, splitLinesGo, printCLines, cvalLines, ncLines]
  | cons t ts ih =>
    intro hg
    have hb := hg t (by simp)
    have hall : ∀ ch ∈ (35 :: 32 :: t), isLineBreak ch = false := by
      intro ch hch
      simp only [List.mem_cons] at hch
      rcases hch with h | h | h
      · subst h; decide
      · subst h; decide
      · exact hb ch h
    cases ts with
    | nil =>
      simp only [offsetCommentVal, splitLinesKeep, printCLines, cvalLines, ncLines, List.map_cons, List.map_nil]
      rw [splitLinesGo_noBreak _ [] hall (Or.inr (by simp))]
      simp
    | cons t' ts' =>
      have ihh := ih (fun x hx => hg x (by simp at hx ⊢; right; exact hx))
      simp only [offsetCommentVal, splitLinesKeep] at ihh ⊢
      simp only [ncLines, List.map_cons] at ihh ⊢
      rw [printCLines_cons2]
      have : (35 : Nat) :: ((32 :: t) ++ 10 :: printCLines ((35, 32 :: t') :: List.map (fun t => (35, 32 :: t)) ts')) =
          (35 :: 32 :: t) ++ 10 :: printCLines ((35, 32 :: t') :: List.map (fun t => (35, 32 :: t)) ts') := by simp
      rw [this, splitLinesGo_line (35 :: 32 :: t) [] _ hall]
      simp only [List.map_cons, List.flatten_cons, ihh]
      simp [cvalLines]

theorem entView_inc_pc (s : Array Nat) (e : Entry) (f : Nat) (a b : Nat) :
    entView .inc s { e with full := f, pc := some (a, b) } =
      (entView .inc s e).map (fun v => { v with comment := some (commentVal (.offset Gen.Tables.offsetCommentDefines) (slice s a b)) }) := by
  simp [entView, commentStyleOf]

theorem entView_inc_nopc (s : Array Nat) (e : Entry) (f : Nat) (h : e.pc = none) :
    entView .inc s { e with full := f, pc := none } = entView .inc s e := by
  simp [entView, h]

def NBlock.views : NBlock → List (Option EntView)
  | .define cm r _ =>
    [some { key := r.1, raw := r.2, val := some r.2, comment := if cm.isEmpty then none else some (cvalLines (cm.map (fun t => ((35 : Nat), t)))) }]
  | _ => []

theorem incEntity_pc (off klen vlen : Nat) : (incEntity off klen vlen).pc = none := by
  unfold incEntity; split <;> rfl

theorem incEntity_kind (off klen vlen : Nat) : (incEntity off klen vlen).kind = .entity := by
  unfold incEntity; split <;> rfl

theorem inc_views_block (s : Array Nat) (c : Bool) (off : Nat) (b : NBlock) (rest : List Nat) (hg : b.Good' c)
    (h : At s off (b.print ++ rest)) :
    entitiesOf .inc s (b.entries off) = b.views ∧ junkOf s (b.entries off) = [] := by
  cases b with
  | define cm r gap =>
    obtain ⟨hcm, hs, hgap, hfel⟩ := hg
    obtain ⟨w, hw, _⟩ := ngap_cons hgap
    have h1 : At s off (ncPre cm ++ (defText r ++ (gap ++ rest))) := by simpa [At, NBlock.print] using h
    have h2 : s.toList.drop (off + (ncPre cm).length) = printIncRec r ++ (w ++ rest) := by
      have := h1.app
      rw [hw] at this
      simpa [At, defText, printIncRec] using this
    have hbase := entView_incEntity s (off + (ncPre cm).length) r (w ++ rest) h2
    have hview : entView .inc s (incEntityC off (ncPre cm).length r.1.length r.2.length (!cm.isEmpty)) =
        some { key := r.1, raw := r.2, val := some r.2,
               comment := if cm.isEmpty then none else some (cvalLines (cm.map (fun t => ((35 : Nat), t)))) } := by
      by_cases hne : cm = []
      · subst hne
        simp only [incEntityC, List.isEmpty_nil, Bool.not_true, Bool.false_eq_true, if_false, if_true]
        rw [entView_inc_nopc s _ off (incEntity_pc _ _ _), hbase]
        rfl
      · have hemp := isEmpty_false_of_ne hne
        have hpl := ncPre_length cm hne
        have hcs : slice s off (off + (ncPre cm).length - 1) = printCLines (ncLines cm) := by
          have h1' : At s off (printCLines (ncLines cm) ++ (10 :: (defText r ++ (gap ++ rest)))) := by
            simpa [At, ncPre, hemp] using h1
          rw [hpl, show off + ((printCLines (ncLines cm)).length + 1) - 1 = off + (printCLines (ncLines cm)).length by omega]
          exact h1'.slice
        simp only [incEntityC, hemp, Bool.not_false, if_true, Bool.false_eq_true, if_false]
        rw [entView_inc_pc, hbase, hcs]
        simp [expectedView, commentVal, Gen.Tables.offsetCommentDefines, offsetVal2_lines cm hcm]
    constructor
    · simp only [NBlock.entries, NBlock.views]
      rw [entitiesOf_cons_entity _ _ _ _ (by simp only [incEntityC]; exact incEntity_kind _ _ _), hview,
        entitiesOf_cons_other _ _ _ _ (by simp [wsEntryN])]; rfl
    · simp only [NBlock.entries]
      rw [junkOf_cons_other _ _ _ (by simp only [incEntityC]; rw [incEntity_kind]; decide),
        junkOf_cons_other _ _ _ (by simp [wsEntryN])]; rfl
  | free ts gap =>
    constructor
    · simp only [NBlock.entries, NBlock.views]
      rw [entitiesOf_cons_other _ _ _ _ (by simp [commentEntry]), entitiesOf_cons_other _ _ _ _ (by simp [wsEntryN])]; rfl
    · simp only [NBlock.entries]
      rw [junkOf_cons_other _ _ _ (by simp [commentEntry]), junkOf_cons_other _ _ _ (by simp [wsEntryN])]; rfl
  | instr word nb arg gap =>
    constructor
    · simp only [NBlock.entries, NBlock.views]
      rw [entitiesOf_cons_other _ _ _ _ (by simp [incInstrEntry]), entitiesOf_cons_other _ _ _ _ (by simp [wsEntryN])]; rfl
    · simp only [NBlock.entries]
      rw [junkOf_cons_other _ _ _ (by simp [incInstrEntry]), junkOf_cons_other _ _ _ (by simp [wsEntryN])]; rfl

/-! ### garbage -/

/-- an inert garbage line and the newlines after it: non-empty, no `#`, no newline -/
structure NGarbage (g gap : List Nat) : Prop where
  ne : g ≠ []
  chars : ∀ c ∈ g, c ≠ 35 ∧ c ≠ 10
  gap : NGap gap

def incJunkExps : List Re := [DefinesParser_reComment, DefinesParser_reKey, DefinesParser_rePI]

theorem notNC_of_head (l : List Nat) (h : l.head? ≠ some 35) : NotNC l := by
  intro t ht; rw [ht] at h; simp at h

theorem inc_start_match (s : Array Nat) (c : Bool) (e : Nat) (b : NBlock) (rest : List Nat) (hg : b.Good' c)
    (hls : LineStart s e) (h : At s e (b.print ++ rest)) : ∃ r ∈ incJunkExps, (matchAt s r e).isSome := by
  cases b with
  | define cm r gap =>
    obtain ⟨hcm, hs, hgap, hfel⟩ := hg
    have h1 : At s e (ncPre cm ++ (defText r ++ (gap ++ rest))) := by simpa [At, NBlock.print] using h
    by_cases hne : cm = []
    · subst hne
      have hrec := def_at_rec s e r gap rest hs hgap (by simpa [At, ncPre] using h1)
      exact ⟨DefinesParser_reKey, by simp [incJunkExps], by rw [inc_key_match s _ _ _ hrec]; split <;> rfl⟩
    · have hemp := isEmpty_false_of_ne hne
      have h1' : At s e (printCLines (ncLines cm) ++ (10 :: (defText r ++ (gap ++ rest)))) := by
        simpa [At, ncPre, hemp] using h1
      have hac : AfterNC (10 :: (defText r ++ (gap ++ rest))) := Or.inr ⟨_, rfl, by
        have := notNC_def (r.1 ++ (if r.2.isEmpty then [] else 32 :: r.2) ++ (gap ++ rest))
        simpa [defText] using this⟩
      exact ⟨DefinesParser_reComment, by simp [incJunkExps], by
        rw [inc_comment_at s e cm _ hne hls
          (fun t ht x hx h10 => by have := hcm t ht x hx; rw [h10] at this; revert this; decide) hac h1']; rfl⟩
  | free ts gap =>
    obtain ⟨hne, hts, hgap, h2, hc⟩ := hg
    obtain ⟨w, hw, hwn⟩ := ngap_cons hgap
    have hwne : w ≠ [] := by intro hh; subst hh; rw [hw] at h2; simp at h2
    have hac : AfterNC (gap ++ rest) := by
      right
      refine ⟨w ++ rest, by rw [hw]; rfl, ?_⟩
      cases w with
      | nil => exact absurd rfl hwne
      | cons a t => rw [hwn a (by simp)]; exact notNC_nl _
    have h' : At s e (printCLines (ncLines ts) ++ (gap ++ rest)) := by simpa [At, NBlock.print] using h
    exact ⟨DefinesParser_reComment, by simp [incJunkExps], by rw [inc_comment_at s e ts _ hne hls hts hac h']; rfl⟩
  | instr word nb arg gap =>
    obtain ⟨hi, hgap, hfel⟩ := hg
    obtain ⟨w, hw, _⟩ := ngap_cons hgap
    have h' : At s e (instrText word nb arg ++ (gap ++ rest)) := by simpa [At, NBlock.print] using h
    exact ⟨DefinesParser_rePI, by simp [incJunkExps], by
      rw [inc_pi_at s e word nb arg (gap ++ rest) hi (by intro c hc; rw [hw] at hc; simpa using hc.symm) h']; rfl⟩

theorem inc_junk_at (s : Array Nat) (fel : Bool) (p : Nat) (g gap rest : List Nat) (hg : NGarbage g gap)
    (hnext : rest = [] ∨ ∃ r ∈ incJunkExps, (matchAt s r (p + g.length + gap.length)).isSome)
    (h : At s p (g ++ (gap ++ rest))) :
    definesGetNext s fel p = (junkEntry p (p + g.length + gap.length), fel) := by
  have hgl : 0 < g.length := List.length_pos_iff.mpr hg.ne
  have hgapl : 0 < gap.length := List.length_pos_iff.mpr hg.gap.ne
  have hsz := h.size_ge (by simp [hg.ne])
  simp only [List.length_append] at hsz
  have hhead : ∀ q, p ≤ q → q < p + g.length + gap.length → ∃ l, At s q l ∧ l.head? ≠ some 35 := by
    intro q h1 h2
    by_cases hq : q < p + g.length
    · have hat := h.drop_at (q - p) (by omega)
      rw [show p + (q - p) = q by omega] at hat
      cases hd : g.drop (q - p) with
      | nil => have := congrArg List.length hd; simp at this; omega
      | cons a t =>
        have hm : a ∈ g := List.mem_of_mem_drop (by rw [hd]; simp)
        exact ⟨_, hat, by rw [hd]; simp [(hg.chars a hm).1]⟩
    · have hat := h.app.drop_at (q - (p + g.length)) (by omega)
      rw [show p + g.length + (q - (p + g.length)) = q by omega] at hat
      cases hd : gap.drop (q - (p + g.length)) with
      | nil => have := congrArg List.length hd; simp at this; omega
      | cons a t =>
        have hm : a ∈ gap := List.mem_of_mem_drop (by rw [hd]; simp)
        exact ⟨_, hat, by rw [hd, hg.gap.nl a hm]; simp⟩
  have hnone : ∀ q l, At s q l → l.head? ≠ some 35 → ∀ r ∈ incJunkExps, matchAt s r q = none := by
    intro q l hat hh r hr
    simp only [incJunkExps, List.mem_cons, List.not_mem_nil, or_false] at hr
    rcases hr with rfl | rfl | rfl
    · exact inc_comment_none_at s q l (notNC_of_head l hh) hat
    · exact inc_key_none_instr s q l hat (by intro t ht; rw [ht] at hh; simp at hh)
    · exact inc_pi_none s q l hat hh
  obtain ⟨l0, hat0, hh0⟩ := hhead p (Nat.le_refl _) (by omega)
  have hcm := hnone p l0 hat0 hh0 DefinesParser_reComment (by simp [incJunkExps])
  have hkm := hnone p l0 hat0 hh0 DefinesParser_reKey (by simp [incJunkExps])
  have hpi := hnone p l0 hat0 hh0 DefinesParser_rePI (by simp [incJunkExps])
  have hws := nws_none_at s p _ (by
    cases hgg : g with
    | nil => exact absurd hgg hg.ne
    | cons a t => simp [(hg.chars a (by simp [hgg])).2]) h
  have hj := getJunk_at s p (p + g.length + gap.length) incJunkExps (by omega)
    (by
      intro r hr q h1 h2
      obtain ⟨l, hat, hh⟩ := hhead q (by omega) h2
      exact hnone q l hat hh r hr)
    (by
      rcases hnext with rfl | hm
      · right
        have he : p + g.length + gap.length = s.size := by
          have := h.le (by simp [hg.ne]); simp at this; omega
        have hend : At s (p + g.length + gap.length) [] := by simpa using h.app.app
        exact ⟨he, fun r hr => hnone _ [] hend (by simp) r hr⟩
      · exact Or.inl hm)
    (by omega)
  unfold definesGetNext
  simp only [hcm, hws, hkm, hpi]
  simpa [incJunkExps] using congrArg (fun e => (e, fel)) hj

/-! ### the format package -/

def incSpec : GSpec Bool NBlock where
  f := .inc
  next := fun s fel off => definesGetNext s fel off
  c0 := false
  pr := NBlock.print
  en := fun off _ b => b.entries off
  tr := NBlock.tr
  vw := NBlock.views
  Good' := fun c b => b.Good' c
  Lic := fun _ _ => True
  Garb := fun _ g gap => NGarbage g gap
  JOk := fun _ => True
  Follow := NFollow
  Inv := LineStart

theorem incSpec_laws : incSpec.Laws where
  walk_def := fun _ => rfl
  inv0 := fun _ => Or.inl rfl
  follow_nil := by simp [incSpec, NFollow]
  block_walk := fun s b c off rest hg _ h hfo hi => inc_walks_block s c off b rest hg hfo hi h
  block_follow := fun c b rest hg => nfollow_block b c hg rest
  block_views := fun s b c off rest hg h _ => inc_views_block s c off b rest hg h
  junk_at := by
    intro s c p g gap rest hg h hi hnext
    have hls : LineStart s (p + g.length + gap.length) := lineStart_of_last h.app hg.gap.ne (ngap_last hg.gap)
    refine ⟨?_, hls⟩
    apply inc_junk_at s c p g gap rest hg _ h
    rcases hnext with rfl | ⟨b, rest', rfl, hb, _, hfo⟩
    · exact Or.inl rfl
    · exact Or.inr (inc_start_match s c _ b rest' hb hls h.app.app)
  garb_follow := by
    intro _ g gap rest hg
    show (g ++ (gap ++ rest)).head? ≠ some 10
    cases hgg : g with
    | nil => exact absurd hgg hg.ne
    | cons a t => simp [(hg.chars a (by simp [hgg])).2]
  garb_pos := fun _ g gap hg => List.length_pos_iff.mpr hg.ne
  lic_after_garb := fun _ _ _ _ _ _ => trivial

/-- well-formedness of a document, following `ctx.filter_empty_lines` through the blocks -/
def NGoodAll : Bool → List (GB NBlock) → Prop
  | _, [] => True
  | c, x :: xs => x.b.Good' c ∧ (∀ g gap, x.junk = some (g, gap) → NGarbage g gap) ∧ NGoodAll (x.b.tr c) xs

theorem incGoodAll : ∀ (xs : List (GB NBlock)) (c : Bool) (off : Nat), NGoodAll c xs →
    GoodAll incSpec.gpr incSpec.gtr incSpec.GGood off c xs := by
  intro xs
  induction xs with
  | nil => intro c off _; trivial
  | cons x xs ih =>
    intro c off h
    exact ⟨⟨h.1, fun _ => trivial, fun g gap hj => ⟨h.2.1 g gap hj, trivial⟩⟩, ih _ _ h.2.2⟩

/-- .inc: the whole-file theorem with comments, the `#filter emptyLines` state, blank lines and garbage lines -/
theorem walk_inc_doc (xs : List (GB NBlock)) (tail : Option (List Nat × List Nat)) (hg : NGoodAll false xs)
    (htail : ∀ g gap, tail = some (g, gap) → NGarbage g gap) :
    walk .inc (incSpec.gprint xs tail).toArray = .done (incSpec.gentries xs tail) ∧
      entitiesOf .inc (incSpec.gprint xs tail).toArray (incSpec.gentries xs tail) = incSpec.gviews xs ∧
      junkOf (incSpec.gprint xs tail).toArray (incSpec.gentries xs tail) = gbJunk xs tail :=
  gdoc incSpec incSpec_laws xs tail (incGoodAll xs false 0 hg) htail

end C02P

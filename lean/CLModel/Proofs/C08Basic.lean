/-
Helper lemmas for C08: the stable insertion sort, insertion-ordered dicts, formatting.
-/
import CLModel.Checks.Fluent
namespace Ftl

/-! ### sortBy -/

theorem insBy_perm {α : Type} (le : α → α → Bool) (x : α) (l : List α) : (insBy le x l).Perm (x :: l) := by
  induction l with
  | nil => simp [insBy]
  | cons y r ih =>
    simp only [insBy]
    split
    · exact List.Perm.refl _
    · exact (List.Perm.cons y ih).trans (List.Perm.swap x y r)

theorem sortBy_perm {α : Type} (le : α → α → Bool) (l : List α) : (sortBy le l).Perm l := by
  induction l with
  | nil => simp [sortBy]
  | cons x r ih =>
    simp only [sortBy]
    exact (insBy_perm le x _).trans (List.Perm.cons x ih)

theorem mem_sortBy {α : Type} (le : α → α → Bool) (l : List α) (x : α) : x ∈ sortBy le l ↔ x ∈ l :=
  (sortBy_perm le l).mem_iff

theorem insBy_pairwise {α : Type} (le : α → α → Bool)
    (total : ∀ a b, le a b = true ∨ le b a = true) (trans : ∀ a b c, le a b = true → le b c = true → le a c = true)
    (x : α) (l : List α) (h : l.Pairwise (fun a b => le a b = true)) :
    (insBy le x l).Pairwise (fun a b => le a b = true) := by
  induction l with
  | nil => simp [insBy]
  | cons y r ih =>
    simp only [insBy]
    rw [List.pairwise_cons] at h
    split
    · rename_i hxy
      refine List.pairwise_cons.mpr ⟨?_, List.pairwise_cons.mpr h⟩
      intro z hz
      rcases List.mem_cons.mp hz with rfl | hz
      · exact hxy
      · exact trans _ _ _ hxy (h.1 z hz)
    · rename_i hxy
      have hyx : le y x = true := by
        rcases total x y with h1 | h1
        · exact absurd h1 hxy
        · exact h1
      refine List.pairwise_cons.mpr ⟨?_, ih h.2⟩
      intro z hz
      rcases List.mem_cons.mp ((insBy_perm le x r).mem_iff.mp hz) with rfl | hz
      · exact hyx
      · exact h.1 z hz

theorem sortBy_pairwise {α : Type} (le : α → α → Bool)
    (total : ∀ a b, le a b = true ∨ le b a = true) (trans : ∀ a b c, le a b = true → le b c = true → le a c = true)
    (l : List α) : (sortBy le l).Pairwise (fun a b => le a b = true) := by
  induction l with
  | nil => simp [sortBy]
  | cons x r ih => exact insBy_pairwise le total trans x _ ih

/-- stability: elements selected by a predicate that is compatible with the order keep their order.
    Stated for the sub-list of the elements with one given key. -/
theorem insBy_filter {α : Type} (le : α → α → Bool) (p : α → Bool)
    (hp : ∀ a b, p a = true → p b = true → le a b = true)
    (x : α) (l : List α) : (insBy le x l).filter p = (x :: l).filter p := by
  induction l with
  | nil => simp [insBy]
  | cons y r ih =>
    simp only [insBy]
    split
    · rfl
    · rename_i hxy
      by_cases hx : p x = true
      · by_cases hy : p y = true
        · exact absurd (hp x y hx hy) hxy
        · simp only [List.filter_cons, hy, hx] at ih ⊢
          simpa using ih
      · simp only [List.filter_cons, hx] at ih ⊢
        split <;> simp_all

theorem sortBy_filter {α : Type} (le : α → α → Bool) (p : α → Bool)
    (hp : ∀ a b, p a = true → p b = true → le a b = true)
    (l : List α) : (sortBy le l).filter p = l.filter p := by
  induction l with
  | nil => simp [sortBy]
  | cons x r ih =>
    simp only [sortBy]
    rw [insBy_filter le p hp]
    simp [List.filter_cons, ih]

/-! ### dicts -/

section dict
variable {κ ν : Type} [BEq κ] [LawfulBEq κ]

theorem dictKeys_dictSet (d : List (κ × ν)) (k : κ) (v : ν) :
    dictKeys (dictSet d k v) = setAdd (dictKeys d) k := by
  induction d with
  | nil => simp [dictSet, dictKeys, setAdd]
  | cons p r ih =>
    obtain ⟨k', v'⟩ := p
    simp only [dictSet]
    by_cases h : (k' == k) = true
    · have : k' = k := by simpa using h
      subst this
      simp [dictKeys, setAdd]
    · have hne : k' ≠ k := by simpa using h
      simp only [h, Bool.false_eq_true, if_false]
      simp only [dictKeys, List.map_cons] at ih ⊢
      rw [ih]
      simp only [setAdd, List.contains_cons]
      have : (k == k') = false := by simpa using (fun h' => hne h'.symm)
      simp only [this, Bool.false_or]
      split <;> simp

theorem mem_setAdd {α : Type} [BEq α] [LawfulBEq α] (s : List α) (x y : α) : y ∈ setAdd s x ↔ y ∈ s ∨ y = x := by
  simp only [setAdd]
  split
  · rename_i h
    have : x ∈ s := by simpa using h
    constructor
    · exact Or.inl
    · rintro (h | rfl) <;> assumption
  · simp

theorem nodup_setAdd {α : Type} [BEq α] [LawfulBEq α] (s : List α) (x : α) (h : s.Nodup) : (setAdd s x).Nodup := by
  simp only [setAdd]
  split
  · exact h
  · rename_i hc
    have : x ∉ s := by simpa using hc
    rw [List.nodup_append]
    refine ⟨h, by simp, ?_⟩
    intro a ha b hb
    simp at hb
    subst hb
    intro hab
    exact this (hab ▸ ha)

theorem dictGet?_dictSet (d : List (κ × ν)) (k k' : κ) (v : ν) :
    dictGet? (dictSet d k v) k' = if k == k' then some v else dictGet? d k' := by
  induction d with
  | nil =>
    simp [dictSet, dictGet?]
  | cons p r ih =>
    obtain ⟨k0, v0⟩ := p
    simp only [dictSet]
    by_cases h : (k0 == k) = true
    · have : k0 = k := by simpa using h
      subst this
      simp only [BEq.rfl, if_true, dictGet?]
      split <;> rfl
    · simp only [h, Bool.false_eq_true, if_false, dictGet?, ih]
      by_cases h2 : (k0 == k') = true
      · have : k0 = k' := by simpa using h2
        subst this
        have : (k == k0) = false := by
          have hne : k0 ≠ k := by simpa using h
          simpa using (fun h' => hne h'.symm)
        simp [this]
      · simp [h2]

theorem dictGet?_isSome (d : List (κ × ν)) (k : κ) : (dictGet? d k).isSome = (dictKeys d).contains k := by
  induction d with
  | nil => simp [dictGet?, dictKeys]
  | cons p r ih =>
    obtain ⟨k0, v0⟩ := p
    simp only [dictGet?, dictKeys, List.map_cons, List.contains_cons]
    by_cases h : (k0 == k) = true
    · have : k0 = k := by simpa using h
      subst this
      simp
    · have hne : k0 ≠ k := by simpa using h
      have : (k == k0) = false := by simpa using (fun h' => hne h'.symm)
      simp only [h, Bool.false_eq_true, if_false, this, Bool.false_or]
      simpa [dictKeys] using ih

end dict

theorem sevWarning_ne_sevError : sevWarning ≠ sevError := by decide

end Ftl

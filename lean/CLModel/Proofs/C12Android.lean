/- Android locale codes: the round trip as a decidable check, the curated locale list. -/
import CLModel.Paths.Matcher
namespace PM

/-- BCP 47 -> Android -> BCP 47 gives the same locale -/
def androidRoundTrip (l : Text) : Bool :=
  match toAndroid l with
  | .ok a => (match toStandard a with
    | .ok b => b == l
    | .error _ => false)
  | .error _ => false

/-- the locales compare-locales ships plural rules for -/
def shippedLocales : List Text := Gen.Tables.categoriesByLocale.map (·.1)

/-- language / language-REGION / script, numeric region, variant / legacy codes (with region, and in the `b+` form) -/
def curatedLocales : List Text := [
  [100, 101],  -- de
  [102, 114],  -- fr
  [97, 115, 116],  -- ast
  [101, 110],  -- en
  [107, 97, 98],  -- kab
  [122, 104],  -- zh
  [104, 115, 98],  -- hsb
  [108, 105, 106],  -- lij
  [119, 111],  -- wo
  [101, 110, 45, 85, 83],  -- en-US
  [101, 110, 45, 71, 66],  -- en-GB
  [112, 116, 45, 66, 82],  -- pt-BR
  [101, 115, 45, 77, 88],  -- es-MX
  [122, 104, 45, 84, 87],  -- zh-TW
  [104, 105, 45, 73, 78],  -- hi-IN
  [98, 110, 45, 66, 68],  -- bn-BD
  [102, 121, 45, 78, 76],  -- fy-NL
  [110, 98, 45, 78, 79],  -- nb-NO
  [97, 115, 116, 45, 69, 83],  -- ast-ES
  [115, 114, 45, 76, 97, 116, 110],  -- sr-Latn
  [115, 114, 45, 67, 121, 114, 108],  -- sr-Cyrl
  [122, 104, 45, 72, 97, 110, 116, 45, 84, 87],  -- zh-Hant-TW
  [122, 104, 45, 72, 97, 110, 115, 45, 67, 78],  -- zh-Hans-CN
  [117, 122, 45, 76, 97, 116, 110, 45, 85, 90],  -- uz-Latn-UZ
  [101, 115, 45, 52, 49, 57],  -- es-419
  [99, 97, 45, 118, 97, 108, 101, 110, 99, 105, 97],  -- ca-valencia
  [115, 114, 45, 67, 121, 114, 108, 45, 82, 83],  -- sr-Cyrl-RS
  [97, 122, 45, 65, 114, 97, 98],  -- az-Arab
  [104, 101],  -- he
  [105, 100],  -- id
  [121, 105],  -- yi
  [104, 101, 45, 73, 76],  -- he-IL
  [105, 100, 45, 73, 68],  -- id-ID
  [121, 105, 45, 85, 83],  -- yi-US
  [104, 101, 45, 72, 101, 98, 114, 45, 73, 76],  -- he-Hebr-IL
  [105, 100, 45, 76, 97, 116, 110, 45, 73, 68],  -- id-Latn-ID
  [121, 105, 45, 72, 101, 98, 114]]  -- yi-Hebr

theorem androidRoundTrip_spec {l : Text} (h : androidRoundTrip l = true) :
    ∃ a, toAndroid l = .ok a ∧ toStandard a = .ok l := by
  unfold androidRoundTrip at h
  split at h
  · rename_i a ha
    split at h
    · rename_i b hb
      have : b = l := by simpa using h
      subst this
      exact ⟨a, ha, hb⟩
    · cases h
  · cases h

def okEq (r : Except PyErr Text) (t : Text) : Bool :=
  match r with
  | .ok x => x == t
  | .error _ => false

theorem okEq_spec {r : Except PyErr Text} {t : Text} (h : okEq r t = true) : r = .ok t := by
  unfold okEq at h
  split at h
  · have := (by simpa using h : _ = t); subst this; rfl
  · cases h

end PM

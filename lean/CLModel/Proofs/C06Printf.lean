/- C06 helper lemmas, part 5: `checkPrintf` as a function of the two specifier lists. -/
import CLModel.Checks.Properties
import CLModel.Proofs.C06Prefix
import CLModel.Proofs.C06Specs
namespace PropCk
open Difflib

def hasError (fs : List Finding) : Prop := ∃ f ∈ fs, f.sev = Sev.error

abbrev Spec := Option Text

/-- an opcode that makes `checkPrintf` add an error message -/
def isBad (R : List Spec) (op : Opcode) : Bool :=
  match op.tag with
  | .equal => false
  | .delete => decide (op.i2 ≠ R.length)
  | .insert => true
  | .replace => true

/-- the shape conditions `ValidFrom` gives for one opcode -/
def OpOK (R L : List Spec) (op : Opcode) : Prop :=
  op.i1 ≤ op.i2 ∧ op.i2 ≤ R.length ∧ op.j1 ≤ op.j2 ∧ op.j2 ≤ L.length ∧
  (match op.tag with
   | .equal => True
   | .delete => op.i1 < op.i2
   | .insert => op.j1 < op.j2
   | .replace => op.i1 < op.i2 ∧ op.j1 < op.j2)

theorem range'_mem_lt {i1 n i : Nat} (h : i ∈ List.range' i1 n) : i1 ≤ i ∧ i < i1 + n := by
  simpa [List.mem_range'_1] using h

theorem opcodeStep_spec (R L : List Spec) (msgs : List Text) (warn : Option Text) (op : Opcode)
    (hok : OpOK R L op) :
    ∃ extra warn', opcodeStep R L (msgs, warn) op = some (msgs ++ extra, warn') ∧
      (extra ≠ [] ↔ isBad R op = true) := by
  obtain ⟨h1, h2, h3, h4, h5⟩ := hok
  unfold opcodeStep
  simp only
  cases htag : op.tag with
  | equal =>
    exact ⟨[], warn, by simp, by simp [isBad, htag]⟩
  | delete =>
    rw [htag] at h5
    simp only at h5
    by_cases hlast : op.i2 = R.length
    · simp only [hlast, if_true]
      obtain ⟨r, hr, _⟩ := mapOpt_total (missingMsg sTrailingArg R) (List.range' op.i1 (R.length - op.i1))
        (by
          intro i hi
          have := range'_mem_lt hi
          have : i < R.length := by omega
          simp [missingMsg, List.getElem?_eq_getElem this])
      rw [hr]
      exact ⟨[], some (join sCommaSp r), by simp, by simp [isBad, htag, hlast]⟩
    · simp only [hlast, if_false]
      obtain ⟨r, hr, hl⟩ := mapOpt_total (missingMsg sArgument R) (List.range' op.i1 (op.i2 - op.i1))
        (by
          intro i hi
          have := range'_mem_lt hi
          have : i < R.length := by omega
          simp [missingMsg, List.getElem?_eq_getElem this])
      rw [hr]
      refine ⟨r, warn, rfl, ?_⟩
      have : r ≠ [] := by
        intro h; rw [h] at hl; simp at hl; omega
      simp [isBad, htag, hlast, this]
  | insert =>
    rw [htag] at h5
    simp only at h5
    obtain ⟨r, hr, hl⟩ := mapOpt_total (obsoleteMsg L) (List.range' op.j1 (op.j2 - op.j1))
      (by
        intro i hi
        have := range'_mem_lt hi
        have : i < L.length := by omega
        simp [obsoleteMsg, List.getElem?_eq_getElem this])
    rw [hr]
    refine ⟨r, warn, rfl, ?_⟩
    have : r ≠ [] := by
      intro h; rw [h] at hl; simp at hl; omega
    simp [isBad, htag, this]
  | replace =>
    rw [htag] at h5
    simp only at h5
    obtain ⟨r, hr, hl⟩ := mapOpt_total (replaceMsg R L)
      ((List.range' op.i1 (op.i2 - op.i1)).zip (List.range' op.j1 (op.j2 - op.j1)))
      (by
        intro p hp
        have hp1 := range'_mem_lt (List.of_mem_zip hp).1
        have hp2 := range'_mem_lt (List.of_mem_zip hp).2
        have h1' : p.1 < R.length := by omega
        have h2' : p.2 < L.length := by omega
        simp [replaceMsg, List.getElem?_eq_getElem h1', List.getElem?_eq_getElem h2'])
    rw [hr]
    refine ⟨r, warn, rfl, ?_⟩
    have : r ≠ [] := by
      intro h; rw [h] at hl; simp at hl; omega
    simp [isBad, htag, this]

theorem validFrom_opOK {R L : List Spec} {i j : Nat} {op : Opcode} {rest : List Opcode}
    (h : ValidFrom R L i j (op :: rest)) : OpOK R L op ∧ ValidFrom R L op.i2 op.j2 rest := by
  rw [validFrom_cons] at h
  obtain ⟨_, _, h3, h4, h5, h6, h7, h8⟩ := h
  refine ⟨⟨h3, h4, h5, h6, ?_⟩, h8⟩
  cases htag : op.tag <;> rw [htag] at h7 <;> simp only at h7 ⊢
  · exact h7
  · exact h7.1
  · exact h7.2

theorem opcodeFold_spec (R L : List Spec) :
    ∀ (ops : List Opcode) (i j : Nat) (msgs : List Text) (warn : Option Text),
      ValidFrom R L i j ops →
      ∃ msgs' warn', opcodeFold R L ops (msgs, warn) = some (msgs', warn') ∧
        (msgs' ≠ [] ↔ msgs ≠ [] ∨ ∃ op ∈ ops, isBad R op = true) := by
  intro ops
  induction ops with
  | nil => intro i j msgs warn _; exact ⟨msgs, warn, rfl, by simp⟩
  | cons op rest ih =>
    intro i j msgs warn hv
    obtain ⟨hok, hrest⟩ := validFrom_opOK hv
    obtain ⟨extra, warn1, hs, hex⟩ := opcodeStep_spec R L msgs warn op hok
    obtain ⟨m2, w2, hf, hm⟩ := ih op.i2 op.j2 (msgs ++ extra) warn1 hrest
    refine ⟨m2, w2, by simp [opcodeFold, hs, hf], ?_⟩
    rw [hm]
    simp only [ne_eq, List.append_eq_nil_iff, not_and, List.mem_cons, exists_eq_or_imp]
    rw [← hex]
    constructor
    · rintro (h | h)
      · by_cases hm0 : msgs = []
        · right; left; exact h hm0
        · left; exact hm0
      · right; right; exact h
    · rintro (h | h | h)
      · left; intro h0; exact absurd h0 h
      · left; intro _; exact h
      · right; exact h

/-- after a trailing delete nothing but bad opcodes can follow -/
theorem validFrom_at_end {R L : List Spec} {j : Nat} {ops : List Opcode}
    (h : ValidFrom R L R.length j ops) (hn : ∀ op ∈ ops, isBad R op = false) : ops = [] := by
  cases ops with
  | nil => rfl
  | cons op rest =>
    rw [validFrom_cons] at h
    obtain ⟨h1, _, h3, h4, _, _, h7, _⟩ := h
    have hb := hn op (by simp)
    cases htag : op.tag <;> rw [htag] at h7 <;> simp only at h7 <;> simp [isBad, htag] at hb <;> omega

/-- without bad opcodes the second sequence is a prefix of the first -/
theorem noBad_prefix (R L : List Spec) :
    ∀ (ops : List Opcode) (i : Nat), ValidFrom R L i i ops → (∀ op ∈ ops, isBad R op = false) →
      i ≤ R.length → i ≤ L.length → L.take i = R.take i → L <+: R := by
  intro ops
  induction ops with
  | nil =>
    intro i hv _ _ _ ht
    obtain ⟨h1, h2⟩ := hv
    rw [h1] at ht
    rw [h1] at h2
    have : L = R := by
      rw [← List.take_length (l := L), ← List.take_length (l := R), ← h2]; exact ht
    rw [this]
    exact List.prefix_refl _
  | cons op rest ih =>
    intro i hv hn hiR hiL ht
    have hb := hn op (by simp)
    have hv' := hv
    rw [validFrom_cons] at hv
    obtain ⟨h1, h2, h3, h4, h5, h6, h7, h8⟩ := hv
    cases htag : op.tag with
    | replace => simp [isBad, htag] at hb
    | insert => simp [isBad, htag] at hb
    | delete =>
      rw [htag] at h7
      simp only at h7
      have hlast : op.i2 = R.length := by simpa [isBad, htag] using hb
      rw [hlast] at h8
      have hnil := validFrom_at_end h8 (fun o ho => hn o (by simp [ho]))
      rw [hnil] at h8
      obtain ⟨_, hj⟩ := h8
      -- L = L.take i = R.take i
      have : L = R.take i := by
        have : L.take i = L := by
          apply List.take_of_length_le; omega
        rw [← this]; exact ht
      rw [this]
      exact List.take_prefix i R
    | equal =>
      rw [htag] at h7
      simp only at h7
      obtain ⟨hlt, hlen, heq⟩ := h7
      have hj2 : op.j2 = op.i2 := by omega
      rw [hj2] at h8 h6
      apply ih op.i2 h8 (fun o ho => hn o (by simp [ho])) h4 h6
      apply List.ext_getElem?
      intro t
      by_cases htt : t < op.i2
      · rw [List.getElem?_take_of_lt htt, List.getElem?_take_of_lt htt]
        by_cases hti : t < i
        · have := congrArg (fun l => l[t]?) ht
          simpa [List.getElem?_take_of_lt hti] using this
        · have := heq (t - i) (by omega)
          rw [h1, h2] at this
          have e : i + (t - i) = t := by omega
          rw [e] at this
          exact this.symm
      · simp [List.getElem?_take, htt]

end PropCk

namespace PropCk
open Difflib

/-- the warning text for arguments `n+1 … |R|` of the reference that the localization dropped -/
def trailingMsg (R : List Spec) (n : Nat) : Text :=
  join sCommaSp ((List.range' n (R.length - n)).map (fun i =>
    sTrailingArg ++ decimal (i + 1) ++ sSpBt ++ showSpec (R[i]?).join ++ sBtMissing))

theorem checkPrintf_malformed (R : List Spec) (val msg : Text) (pos : Nat)
    (h : getPrintfSpecs val = .error (.printf msg pos)) :
    checkPrintf R val = some [⟨.error, .val pos, msg, .printf⟩] := by
  simp [checkPrintf, h]

theorem checkPrintf_equal (R : List Spec) (val : Text) (h : getPrintfSpecs val = .ok R) :
    checkPrintf R val = some [] := by
  simp [checkPrintf, h]

theorem checkPrintf_trailing (L t : List Spec) (val : Text) (h : getPrintfSpecs val = .ok L)
    (ht : t ≠ []) :
    checkPrintf (L ++ t) val = some [⟨.warning, .val 0, trailingMsg (L ++ t) L.length, .printf⟩] := by
  have hne : L ++ t ≠ L := by
    intro he
    have := congrArg List.length he
    simp at this
    exact ht this
  have hdel : opcodeStep (L ++ t) L ([], none) ⟨.delete, L.length, (L ++ t).length, L.length, L.length⟩ =
      some ([], some (trailingMsg (L ++ t) L.length)) := by
    simp only [opcodeStep, if_true]
    rw [mapOpt_eq_map (missingMsg sTrailingArg (L ++ t))
      (fun i => sTrailingArg ++ decimal (i + 1) ++ sSpBt ++ showSpec ((L ++ t)[i]?).join ++ sBtMissing)]
    · rfl
    · intro i hi
      have := range'_mem_lt hi
      have hlt : i < (L ++ t).length := by omega
      simp [missingMsg, List.getElem?_eq_getElem hlt]
  simp only [checkPrintf, h, ne_eq, hne, not_false_eq_true, if_true, opcodes_prefix L t ht]
  by_cases hb : L.length = 0
  · simp only [hb, ne_eq, not_true_eq_false, if_false, List.nil_append, opcodeFold]
    rw [hb] at hdel
    rw [hdel]
    simp [hb]
  · simp only [ne_eq, hb, not_false_eq_true, if_true, List.singleton_append, opcodeFold]
    have : opcodeStep (L ++ t) L ([], none) ⟨.equal, 0, L.length, 0, L.length⟩ = some ([], none) := by
      simp [opcodeStep]
    rw [this]
    simp only
    rw [hdel]
    simp

theorem checkPrintf_nonprefix (R L : List Spec) (val : Text) (h : getPrintfSpecs val = .ok L)
    (hn : ¬ L <+: R) :
    ∃ msg rest, checkPrintf R val = some (⟨.error, .val 0, msg, .printf⟩ :: rest) := by
  have hne : R ≠ L := by
    intro he; apply hn; rw [he]; exact List.prefix_refl _
  obtain ⟨ops, ho, hv⟩ := opcodes_valid R L
  obtain ⟨msgs, warn, hf, hm⟩ := opcodeFold_spec R L ops 0 0 [] none hv
  have hbad : ∃ op ∈ ops, isBad R op = true := by
    apply Classical.byContradiction
    intro hno
    apply hn
    apply noBad_prefix R L ops 0 hv
    · intro op hop
      cases hb : isBad R op
      · rfl
      · exact absurd ⟨op, hop, hb⟩ hno
    · omega
    · omega
    · simp
  have hmsgs : msgs ≠ [] := hm.mpr (Or.inr hbad)
  have hemp : msgs.isEmpty = false := by
    cases msgs with
    | nil => exact absurd rfl hmsgs
    | cons _ _ => rfl
  refine ⟨join sCommaSp msgs, (match warn with
      | some w => [⟨.warning, .val 0, w, .printf⟩]
      | none => []), ?_⟩
  simp only [checkPrintf, h, ne_eq, hne, not_false_eq_true, if_true, ho, hf, hemp, Bool.not_false,
    List.singleton_append]
  cases warn <;> rfl

/-- **Verdict of `checkPrintf`** as a function of the localized value's specifier list. -/
theorem checkPrintf_error_iff (R : List Spec) (val : Text) (hno : getPrintfSpecs val ≠ .error .other) :
    ∃ fs, checkPrintf R val = some fs ∧
      (hasError fs ↔ (∃ msg pos, getPrintfSpecs val = .error (.printf msg pos)) ∨
        (∃ L, getPrintfSpecs val = .ok L ∧ ¬ L <+: R)) := by
  cases h : getPrintfSpecs val with
  | error e =>
    cases e with
    | other => exact absurd h hno
    | printf msg pos =>
      refine ⟨_, checkPrintf_malformed R val msg pos h, ?_⟩
      constructor
      · intro _; left; exact ⟨msg, pos, rfl⟩
      · intro _; exact ⟨⟨.error, .val pos, msg, .printf⟩, by simp, rfl⟩
  | ok L =>
    by_cases hp : L <+: R
    · obtain ⟨t, rfl⟩ := hp
      by_cases ht : t = []
      · subst ht
        simp only [List.append_nil]
        refine ⟨[], checkPrintf_equal L val h, ?_⟩
        constructor
        · rintro ⟨f, hf, _⟩; simp at hf
        · rintro (⟨_, _, h'⟩ | ⟨L', h', hn⟩)
          · cases h'
          · cases h'; exact absurd (List.prefix_refl _) hn
      · refine ⟨_, checkPrintf_trailing L t val h ht, ?_⟩
        constructor
        · rintro ⟨f, hf, hs⟩
          simp at hf; subst hf; cases hs
        · rintro (⟨_, _, h'⟩ | ⟨L', h', hn⟩)
          · cases h'
          · cases h'; exact absurd (List.prefix_append _ _) hn
    · obtain ⟨msg, rest, hc⟩ := checkPrintf_nonprefix R L val h hp
      refine ⟨_, hc, ?_⟩
      constructor
      · intro _; right; exact ⟨L, rfl, hp⟩
      · intro _; exact ⟨⟨.error, .val 0, msg, .printf⟩, by simp, rfl⟩

end PropCk

import CLModel.Proofs.C09WalkTop
namespace C09P
open AndroidP

/-- a character that neither `toxml()` nor `quoteattr` touches -/
def plainChar (c : Nat) : Bool := c != 38 && c != 60 && c != 62 && c != 34 && c != 10 && c != 13 && c != 9

theorem flatMap_singletons {f : Nat → List Nat} : ∀ (l : List Nat), (∀ c ∈ l, f c = [c]) → l.flatMap f = l := by
  intro l
  induction l with
  | nil => intro _; rfl
  | cons c cs ih =>
    intro h
    rw [List.flatMap_cons, h c (by simp), ih (fun x hx => h x (by simp [hx]))]
    rfl

theorem plainChar_spec {c : Nat} (h : plainChar c = true) :
    c ≠ 38 ∧ c ≠ 60 ∧ c ≠ 62 ∧ c ≠ 34 ∧ c ≠ 10 ∧ c ≠ 13 ∧ c ≠ 9 := by
  simp only [plainChar, Bool.and_eq_true, bne_iff_ne, ne_eq] at h
  exact ⟨h.1.1.1.1.1.1, h.1.1.1.1.1.2, h.1.1.1.1.2, h.1.1.1.2, h.1.1.2, h.1.2, h.2⟩

theorem escapeData_plain (v : List Nat) (h : v.all plainChar = true) : escapeData v = v := by
  apply flatMap_singletons
  intro c hc
  have := plainChar_spec (List.all_eq_true.mp h c hc)
  simp [this]

theorem saxEscape_plain (v : List Nat) (h : v.all plainChar = true) : saxEscape v = v := by
  apply flatMap_singletons
  intro c hc
  have := plainChar_spec (List.all_eq_true.mp h c hc)
  simp [this]

theorem not_mem_quote (v : List Nat) (h : v.all plainChar = true) : 34 ∉ v := by
  intro hm
  have := plainChar_spec (List.all_eq_true.mp h 34 hm)
  exact this.2.2.2.1 rfl

theorem quoteattr_plain (v : List Nat) (h : v.all plainChar = true) : quoteattr v = [34] ++ v ++ [34] := by
  unfold quoteattr
  have := not_mem_quote v h
  simp [saxEscape_plain v h, this]

theorem rawAttr_plain (a : List Nat × List Nat) (h : a.2.all plainChar = true) : rawAttr a = writeAttrs [a] := by
  have hq : Gen.TablesAndroid.attr_quoteattr = true := by decide
  have h1 : Gen.TablesAndroid.attr_pre = [32] := by decide
  have h2 : Gen.TablesAndroid.attr_mid = [61] := by decide
  have h3 : Gen.TablesAndroid.attr_post = [] := by decide
  obtain ⟨n, v⟩ := a
  simp [rawAttr, attrWrapper, Entry.all, hq, h1, h2, h3, quoteattr_plain v h, writeAttrs, escapeData_plain v h]

theorem writeAttrs_cons (a : List Nat × List Nat) (as : List (List Nat × List Nat)) :
    writeAttrs (a :: as) = writeAttrs [a] ++ writeAttrs as := by
  obtain ⟨n, v⟩ := a
  simp [writeAttrs]

theorem rawAttrs_plain (attrs : List (List Nat × List Nat)) (h : ∀ a ∈ attrs, a.2.all plainChar = true) :
    attrs.flatMap rawAttr = writeAttrs attrs := by
  induction attrs with
  | nil => rfl
  | cons a as ih =>
    rw [List.flatMap_cons, writeAttrs_cons, rawAttr_plain a (h a (by simp)), ih (fun x hx => h x (by simp [hx]))]

/-- `<?xml version="1.0" encoding="utf-8"?>\n` -/
def xmlDecl : List Nat := Gen.TablesAndroid.open_all.take (Gen.TablesAndroid.open_all.length - (Gen.TablesAndroid.resources_tag.length + 1))

theorem frame_constants :
    Gen.TablesAndroid.open_all = xmlDecl ++ [60] ++ Gen.TablesAndroid.resources_tag ∧
    Gen.TablesAndroid.gt_all = [62] ∧
    Gen.TablesAndroid.close_all = [60, 47] ++ Gen.TablesAndroid.resources_tag ++ [62, 10] := by decide

theorem toxml_resources (attrs : List (List Nat × List Nat)) (c : DNode) (cs : List DNode) :
    (DNode.element Gen.TablesAndroid.resources_tag attrs (c :: cs)).toxml =
      [60] ++ Gen.TablesAndroid.resources_tag ++ writeAttrs attrs ++ [62] ++ toxmlList (c :: cs) ++
        [60, 47] ++ Gen.TablesAndroid.resources_tag ++ [62] := by
  simp [DNode.toxml, List.append_assoc]

end C09P

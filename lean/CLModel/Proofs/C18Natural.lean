/-
C18 helper lemmas: `AddRemove`, `Counter`, `KeyedTuple` lookups and the compare loop commute with every
renaming of keys that is injective on the keys involved.
-/
import CLModel.History.State
import CLModel.Proofs.AddRemove
namespace Hist
open AR

set_option linter.unusedSectionVars false
variable {κ κ' : Type} [BEq κ] [LawfulBEq κ] [BEq κ'] [LawfulBEq κ']

/-- `f` is injective on the keys in `ks` -/
def InjOn (f : κ → κ') (ks : List κ) : Prop := ∀ a ∈ ks, ∀ b ∈ ks, f a = f b → a = b

/-- rename the key component -/
def F {β : Type} (f : κ → κ') (p : κ × β) : κ' × β := (f p.1, p.2)

theorem beq_nat {f : κ → κ'} {ks : List κ} (hf : InjOn f ks) {a b : κ} (ha : a ∈ ks) (hb : b ∈ ks) :
    (f a == f b) = (a == b) := by
  by_cases h : a = b
  · subst h; rw [beq_self_eq_true, beq_self_eq_true]
  · have : f a ≠ f b := fun e => h (hf a ha b hb e)
    rw [beq_eq_false_iff_ne.mpr h, beq_eq_false_iff_ne.mpr this]

theorem contains_nat {f : κ → κ'} {ks : List κ} (hf : InjOn f ks) (l : List κ) (x : κ)
    (hl : ∀ y ∈ l, y ∈ ks) (hx : x ∈ ks) : (l.map f).contains (f x) = l.contains x := by
  induction l with
  | nil => rfl
  | cons y t ih =>
    simp only [List.map_cons, List.contains_cons]
    rw [ih (fun z hz => hl z (List.mem_cons_of_mem _ hz)), beq_nat hf hx (hl y List.mem_cons_self)]

theorem any_key_nat {β : Type} {f : κ → κ'} {ks : List κ} (hf : InjOn f ks) (d : List (κ × β)) (k : κ)
    (hd : ∀ p ∈ d, p.1 ∈ ks) (hk : k ∈ ks) :
    (d.map (F f)).any (·.1 == f k) = d.any (·.1 == k) := by
  induction d with
  | nil => rfl
  | cons p t ih =>
    simp only [List.map_cons, List.any_cons]
    rw [ih (fun z hz => hd z (List.mem_cons_of_mem _ hz))]
    show ((f p.1 == f k) || _) = _
    rw [beq_nat hf (hd p List.mem_cons_self) hk]

theorem dget_nat {β : Type} {f : κ → κ'} {ks : List κ} (hf : InjOn f ks) (d : List (κ × β)) (k : κ)
    (hd : ∀ p ∈ d, p.1 ∈ ks) (hk : k ∈ ks) :
    dget (d.map (F f)) (f k) = dget d k := by
  induction d with
  | nil => rfl
  | cons p t ih =>
    have ih' := ih (fun z hz => hd z (List.mem_cons_of_mem _ hz))
    unfold dget at ih' ⊢
    simp only [List.map_cons, List.find?_cons]
    have : ((F f p).1 == f k) = (p.1 == k) := beq_nat hf (hd p List.mem_cons_self) hk
    rw [this]
    cases p.1 == k
    · exact ih'
    · rfl

theorem upd_nat {β : Type} {f : κ → κ'} {ks : List κ} (hf : InjOn f ks) (d : List (κ × β)) (k : κ) (v : β)
    (hd : ∀ p ∈ d, p.1 ∈ ks) (hk : k ∈ ks) :
    (d.map (F f)).map (fun p => if p.1 == f k then (f k, v) else p)
      = (d.map (fun p => if p.1 == k then (k, v) else p)).map (F f) := by
  induction d with
  | nil => rfl
  | cons p t ih =>
    simp only [List.map_cons]
    rw [ih (fun z hz => hd z (List.mem_cons_of_mem _ hz))]
    have : ((F f p).1 == f k) = (p.1 == k) := beq_nat hf (hd p List.mem_cons_self) hk
    rw [this]
    cases p.1 == k <;> rfl

theorem dset_nat {β : Type} {f : κ → κ'} {ks : List κ} (hf : InjOn f ks) (d : List (κ × β)) (k : κ) (v : β)
    (hd : ∀ p ∈ d, p.1 ∈ ks) (hk : k ∈ ks) :
    dset (d.map (F f)) (f k) v = (dset d k v).map (F f) := by
  unfold dset
  rw [any_key_nat hf d k hd hk]
  split
  · exact upd_nat hf d k v hd hk
  · simp [F]

theorem dset_keys {β : Type} {ks : List κ} (d : List (κ × β)) (k : κ) (v : β)
    (hd : ∀ p ∈ d, p.1 ∈ ks) (hk : k ∈ ks) : ∀ p ∈ dset d k v, p.1 ∈ ks := by
  intro p hp
  unfold dset at hp
  split at hp
  · rw [List.mem_map] at hp
    obtain ⟨q, hq, rfl⟩ := hp
    split
    · exact hk
    · exact hd q hq
  · rw [List.mem_append] at hp
    rcases hp with hp | hp
    · exact hd p hp
    · simp at hp; subst hp; exact hk

/-! ### Counter -/

def cstep (d : List (κ × Nat)) (k : κ) : List (κ × Nat) :=
  dset d k (match dget d k with | some c => c + 1 | none => 1)

theorem counter_eq (keys : List κ) : counter keys = keys.foldl cstep [] := rfl

theorem counter_fold_nat {f : κ → κ'} {ks : List κ} (hf : InjOn f ks) :
    ∀ (xs : List κ) (d : List (κ × Nat)), (∀ p ∈ d, p.1 ∈ ks) → (∀ x ∈ xs, x ∈ ks) →
      (xs.map f).foldl cstep (d.map (F f)) = ((xs.foldl cstep d).map (F f)) ∧
      (∀ p ∈ xs.foldl cstep d, p.1 ∈ ks) := by
  intro xs
  induction xs with
  | nil => intro d hd _; exact ⟨rfl, hd⟩
  | cons x t ih =>
    intro d hd hx
    have hxk := hx x List.mem_cons_self
    simp only [List.map_cons, List.foldl_cons]
    have e : cstep (d.map (F f)) (f x) = (cstep d x).map (F f) := by
      unfold cstep
      rw [dget_nat hf d x hd hxk, dset_nat hf d x _ hd hxk]
    rw [e]
    exact ih (cstep d x) (dset_keys d x _ hd hxk) (fun y hy => hx y (List.mem_cons_of_mem _ hy))

theorem findDuplicates_nat {f : κ → κ'} {ks : List κ} (hf : InjOn f ks) (keys : List κ)
    (hk : ∀ x ∈ keys, x ∈ ks) :
    findDuplicates (keys.map f) = (findDuplicates keys).map (F f) := by
  unfold findDuplicates
  rw [counter_eq, counter_eq]
  have := (counter_fold_nat hf keys [] (by simp) hk).1
  simp only [List.map_nil] at this
  rw [this, List.filter_map]
  rfl

/-! ### KeyedTuple lookups -/

theorem idxOf_nat {f : κ → κ'} {ks : List κ} (hf : InjOn f ks) (l : List κ) (x : κ)
    (hl : ∀ y ∈ l, y ∈ ks) (hx : x ∈ ks) : (l.map f).idxOf (f x) = l.idxOf x := by
  induction l with
  | nil => rfl
  | cons y t ih =>
    simp only [List.map_cons, List.idxOf_cons]
    rw [ih (fun z hz => hl z (List.mem_cons_of_mem _ hz)), beq_nat hf (hl y List.mem_cons_self) hx]

theorem keyedIndex_nat {f : κ → κ'} {ks : List κ} (hf : InjOn f ks) (l : List κ) (x : κ)
    (hl : ∀ y ∈ l, y ∈ ks) (hx : x ∈ ks) : keyedIndex (l.map f) (f x) = keyedIndex l x := by
  rw [keyedIndex_eq, keyedIndex_eq, contains_nat hf l x hl hx, ← List.map_reverse,
    idxOf_nat hf l.reverse x (fun y hy => hl y (List.mem_reverse.mp hy)) hx, List.length_map]

theorem lookup_nat {f : κ → κ'} {ks : List κ} (hf : InjOn f ks) (ents : List (KEnt κ)) (k : κ)
    (hl : ∀ e ∈ ents, e.key ∈ ks) (hk : k ∈ ks) :
    lookup (ents.map (KEnt.mapKey f)) (f k) = (lookup ents k).map (KEnt.mapKey f) := by
  unfold lookup
  have e1 : (ents.map (KEnt.mapKey f)).map (·.key) = (ents.map (·.key)).map f := by
    simp [List.map_map, KEnt.mapKey, Function.comp_def]
  rw [e1, keyedIndex_nat hf _ k (by
    intro y hy
    rw [List.mem_map] at hy
    obtain ⟨e, he, rfl⟩ := hy
    exact hl e he) hk]
  cases keyedIndex (ents.map (·.key)) k with
  | none => rfl
  | some i => simp [List.getElem?_map]

/-! ### AddRemove -/

def lstep (d : List (κ × (Int × Int))) (xi : κ × Nat) : List (κ × (Int × Int)) := dset d xi.1 ((xi.2 : Int), -1)

theorem leftMap_eq_fold (l : List κ) : leftMap l = l.zipIdx.foldl lstep [] := rfl

def lbl (li ri : List κ) (x : κ) : Label × κ :=
  if li.contains x && ri.contains x then (.equal, x) else if li.contains x then (.delete, x) else (.add, x)

theorem addRemove_unfold (l r : List κ) : addRemove l r =
    (((r.zipIdx).foldl rightStep (leftMap l, (-1 : Int), [])).1.mergeSort (fun a b => leKey a.2 b.2)).map
      (fun p => lbl ((leftMap l).map (·.1)) ((r.zipIdx).foldl rightStep (leftMap l, (-1 : Int), [])).2.2 p.1) := rfl

theorem rightStep_unfold (st : List (κ × (Int × Int)) × Int × List κ) (x : κ) (i : Nat) :
    rightStep st (x, i) = (match dget st.1 x with
      | some v => (st.1, v.1, if st.2.2.contains x then st.2.2 else st.2.2 ++ [x])
      | none => (dset st.1 x (st.2.1, (i : Int)), st.2.1, if st.2.2.contains x then st.2.2 else st.2.2 ++ [x])) := by
  obtain ⟨d, lo, ri⟩ := st
  simp only [rightStep]
  cases dget d x <;> rfl

theorem lfold_nat {f : κ → κ'} {ks : List κ} (hf : InjOn f ks) :
    ∀ (xs : List (κ × Nat)) (d : List (κ × (Int × Int))), (∀ p ∈ d, p.1 ∈ ks) → (∀ y ∈ xs, y.1 ∈ ks) →
      (xs.map (Prod.map f id)).foldl lstep (d.map (F f)) = (xs.foldl lstep d).map (F f) ∧
      (∀ p ∈ xs.foldl lstep d, p.1 ∈ ks) := by
  intro xs
  induction xs with
  | nil => intro d hd _; exact ⟨rfl, hd⟩
  | cons y t ih =>
    intro d hd hy
    have hyk := hy y List.mem_cons_self
    simp only [List.map_cons, List.foldl_cons]
    have e : lstep (d.map (F f)) (Prod.map f id y) = (lstep d y).map (F f) := by
      unfold lstep
      exact dset_nat hf d y.1 _ hd hyk
    rw [e]
    exact ih (lstep d y) (dset_keys d y.1 _ hd hyk) (fun z hz => hy z (List.mem_cons_of_mem _ hz))

theorem zipIdx_keys (l : List κ) (n : Nat) {ks : List κ} (hl : ∀ x ∈ l, x ∈ ks) :
    ∀ y ∈ l.zipIdx n, y.1 ∈ ks := by
  intro y hy
  have := List.mem_zipIdx hy
  exact hl _ (by
    obtain ⟨_, _, h3⟩ := this
    rw [h3]; exact List.getElem_mem _)

theorem leftMap_nat {f : κ → κ'} {ks : List κ} (hf : InjOn f ks) (l : List κ) (hl : ∀ x ∈ l, x ∈ ks) :
    leftMap (l.map f) = (leftMap l).map (F f) ∧ (∀ p ∈ leftMap l, p.1 ∈ ks) := by
  rw [leftMap_eq_fold, leftMap_eq_fold, List.zipIdx_map]
  have := lfold_nat hf l.zipIdx [] (by simp) (zipIdx_keys l 0 hl)
  simpa using this

/-- the state of the loop over `right`, renamed -/
def Gm (f : κ → κ') (st : List (κ × (Int × Int)) × Int × List κ) : List (κ' × (Int × Int)) × Int × List κ' :=
  (st.1.map (F f), st.2.1, st.2.2.map f)

def StOk (ks : List κ) (st : List (κ × (Int × Int)) × Int × List κ) : Prop :=
  (∀ p ∈ st.1, p.1 ∈ ks) ∧ (∀ x ∈ st.2.2, x ∈ ks)

theorem rightStep_nat {f : κ → κ'} {ks : List κ} (hf : InjOn f ks)
    (st : List (κ × (Int × Int)) × Int × List κ) (x : κ) (i : Nat) (hst : StOk ks st) (hx : x ∈ ks) :
    rightStep (Gm f st) (f x, i) = Gm f (rightStep st (x, i)) ∧ StOk ks (rightStep st (x, i)) := by
  obtain ⟨d, lo, ri⟩ := st
  obtain ⟨hd, hri⟩ := hst
  simp only at hd hri
  rw [rightStep_unfold, rightStep_unfold]
  simp only [Gm]
  rw [dget_nat hf d x hd hx]
  simp only [contains_nat hf ri x hri hx]
  have hri' : ∀ y ∈ (if ri.contains x then ri else ri ++ [x]), y ∈ ks := by
    intro y hy
    split at hy
    · exact hri y hy
    · rw [List.mem_append] at hy
      rcases hy with hy | hy
      · exact hri y hy
      · simp at hy; subst hy; exact hx
  have hmap : (if ri.contains x then ri.map f else ri.map f ++ [f x]) = (if ri.contains x then ri else ri ++ [x]).map f := by
    split <;> simp
  cases hg : dget d x with
  | some v =>
    simp only [hmap]
    exact ⟨trivial, hd, hri'⟩
  | none =>
    simp only [hmap]
    rw [dset_nat hf d x _ hd hx]
    exact ⟨rfl, dset_keys d x _ hd hx, hri'⟩

theorem rfold_nat {f : κ → κ'} {ks : List κ} (hf : InjOn f ks) :
    ∀ (xs : List (κ × Nat)) (st : List (κ × (Int × Int)) × Int × List κ), StOk ks st → (∀ y ∈ xs, y.1 ∈ ks) →
      (xs.map (Prod.map f id)).foldl rightStep (Gm f st) = Gm f (xs.foldl rightStep st) ∧
      StOk ks (xs.foldl rightStep st) := by
  intro xs
  induction xs with
  | nil => intro st hst _; exact ⟨rfl, hst⟩
  | cons y t ih =>
    intro st hst hy
    obtain ⟨x, i⟩ := y
    have hxk : x ∈ ks := hy (x, i) List.mem_cons_self
    simp only [List.map_cons, List.foldl_cons, Prod.map, id]
    obtain ⟨e, hok⟩ := rightStep_nat hf st x i hst hxk
    rw [e]
    exact ih _ hok (fun z hz => hy z (List.mem_cons_of_mem _ hz))

theorem lbl_nat {f : κ → κ'} {ks : List κ} (hf : InjOn f ks) (li ri : List κ) (x : κ)
    (hli : ∀ y ∈ li, y ∈ ks) (hri : ∀ y ∈ ri, y ∈ ks) (hx : x ∈ ks) :
    lbl (li.map f) (ri.map f) (f x) = ((lbl li ri x).1, f (lbl li ri x).2) := by
  unfold lbl
  rw [contains_nat hf li x hli hx, contains_nat hf ri x hri hx]
  split
  · rfl
  · split <;> rfl

/-- `AddRemove.__iter__` commutes with a renaming that is injective on the keys of both sides -/
theorem addRemove_nat {f : κ → κ'} {ks : List κ} (hf : InjOn f ks) (l r : List κ)
    (hl : ∀ x ∈ l, x ∈ ks) (hr : ∀ x ∈ r, x ∈ ks) :
    addRemove (l.map f) (r.map f) = (addRemove l r).map (fun p => (p.1, f p.2)) ∧
      (∀ p ∈ addRemove l r, p.2 ∈ ks) := by
  obtain ⟨eL, hLk⟩ := leftMap_nat hf l hl
  have h0 : StOk ks (leftMap l, (-1 : Int), []) := ⟨hLk, by simp⟩
  obtain ⟨eR, hRok⟩ := rfold_nat hf r.zipIdx (leftMap l, (-1 : Int), []) h0 (zipIdx_keys r 0 hr)
  have eG : Gm f (leftMap l, (-1 : Int), ([] : List κ)) = (leftMap (l.map f), (-1 : Int), []) := by
    simp [Gm, eL]
  rw [addRemove_unfold, addRemove_unfold, List.zipIdx_map, ← eG, eR]
  generalize hst : (r.zipIdx.foldl rightStep (leftMap l, (-1 : Int), [])) = st at hRok ⊢
  obtain ⟨hdk, hrik⟩ := hRok
  have hsort : (Gm f st).1.mergeSort (fun a b => leKey a.2 b.2)
      = (st.1.mergeSort (fun a b => leKey a.2 b.2)).map (F f) := by
    simp only [Gm]
    exact (List.map_mergeSort (f := F f) (fun a _ b _ => rfl)).symm
  have hmem : ∀ p ∈ st.1.mergeSort (fun a b => leKey a.2 b.2), p.1 ∈ ks := by
    intro p hp
    exact hdk p (List.mem_mergeSort.mp hp)
  have hli : ∀ y ∈ (leftMap l).map (·.1), y ∈ ks := by
    intro y hy
    rw [List.mem_map] at hy
    obtain ⟨p, hp, rfl⟩ := hy
    exact hLk p hp
  constructor
  · have e1 : ((leftMap l).map (F f)).map (·.1) = ((leftMap l).map (·.1)).map f := by
      simp [List.map_map, F, Function.comp_def]
    rw [hsort, eL, e1]
    simp only [List.map_map]
    apply List.map_congr_left
    intro p hp
    simp only [Function.comp, Gm, F]
    have := lbl_nat hf _ _ p.1 hli hrik (hmem p hp)
    rw [List.map_map] at this
    exact this
  · intro p hp
    rw [List.mem_map] at hp
    obtain ⟨q, hq, rfl⟩ := hp
    have : (lbl ((leftMap l).map (·.1)) st.2.2 q.1).2 = q.1 := by
      unfold lbl
      split
      · rfl
      · split <;> rfl
    rw [this]
    exact hmem q hq

/-! ### the compare loop -/

def accMap (f : κ → κ') (a : Acc κ) : Acc κ' := (a.1.map (Msg.mapKey f), a.2)

theorem compareStep_nat {f : κ → κ'} {ks : List κ} (hf : InjOn f ks) (isKey : κ → Bool) (isKey' : κ' → Bool)
    (hkey : ∀ k ∈ ks, isKey' (f k) = isKey k) (lc : Nat → Nat × Nat) (ref l10n : List (KEnt κ))
    (href : ∀ e ∈ ref, e.key ∈ ks) (hl10n : ∀ e ∈ l10n, e.key ∈ ks) (acc : Acc κ) (lab : Label) (k : κ)
    (hk : k ∈ ks) :
    compareStep isKey' lc (ref.map (KEnt.mapKey f)) (l10n.map (KEnt.mapKey f)) (accMap f acc) (lab, f k)
      = (compareStep isKey lc ref l10n acc (lab, k)).map (accMap f) := by
  obtain ⟨msgs, st⟩ := acc
  unfold compareStep
  simp only [accMap, lookup_nat hf ref k href hk, lookup_nat hf l10n k hl10n hk, hkey k hk]
  cases lab
  · -- equal
    cases hr : lookup ref k with
    | none => cases hl : lookup l10n k <;> rfl
    | some r =>
      cases hl : lookup l10n k with
      | none => rfl
      | some l =>
        simp only [Option.map_some]
        have e1 : (KEnt.mapKey f r).junk = r.junk := rfl
        have e2 : (KEnt.mapKey f r).val = r.val := rfl
        have e3 : (KEnt.mapKey f l).val = l.val := rfl
        have e4 : (KEnt.mapKey f r).words = r.words := rfl
        have e5 : (KEnt.mapKey f l).moch = l.moch := rfl
        have e6 : (KEnt.mapKey f l).key = f l.key := rfl
        have e7 : (KEnt.mapKey f r).key = f r.key := rfl
        rw [e1, e2, e3, e4, e5, e6, e7]
        split
        · rfl
        · simp [accMap, Except.map, List.map_append, List.map_map, Msg.mapKey, Function.comp_def]
  · -- delete
    cases hr : lookup ref k with
    | none => rfl
    | some r =>
      simp only [Option.map_some]
      have e1 : (KEnt.mapKey f r).junk = r.junk := rfl
      have e4 : (KEnt.mapKey f r).words = r.words := rfl
      rw [e1, e4]
      split <;> simp [accMap, Except.map, List.map_append, Msg.mapKey]
  · -- add
    cases hl : lookup l10n k with
    | none => rfl
    | some l =>
      simp only [Option.map_some]
      have e1 : (KEnt.mapKey f l).junk = l.junk := rfl
      have e2 : (KEnt.mapKey f l).val = l.val := rfl
      have e3 : (KEnt.mapKey f l).s = l.s := rfl
      have e4 : (KEnt.mapKey f l).e = l.e := rfl
      rw [e1, e2, e3, e4]
      split <;> simp [accMap, Except.map, List.map_append, Msg.mapKey]

theorem foldlM_nat {f : κ → κ'} {ks : List κ} (hf : InjOn f ks) (isKey : κ → Bool) (isKey' : κ' → Bool)
    (hkey : ∀ k ∈ ks, isKey' (f k) = isKey k) (lc : Nat → Nat × Nat) (ref l10n : List (KEnt κ))
    (href : ∀ e ∈ ref, e.key ∈ ks) (hl10n : ∀ e ∈ l10n, e.key ∈ ks) :
    ∀ (xs : List (Label × κ)) (acc : Acc κ), (∀ p ∈ xs, p.2 ∈ ks) →
      (xs.map (fun p => (p.1, f p.2))).foldlM
          (compareStep isKey' lc (ref.map (KEnt.mapKey f)) (l10n.map (KEnt.mapKey f))) (accMap f acc)
        = (xs.foldlM (compareStep isKey lc ref l10n) acc).map (accMap f) := by
  intro xs
  induction xs with
  | nil => intro acc _; rfl
  | cons x t ih =>
    intro acc hx
    simp only [List.map_cons, List.foldlM_cons]
    rw [compareStep_nat hf isKey isKey' hkey lc ref l10n href hl10n acc x.1 x.2 (hx x List.mem_cons_self)]
    cases hs : compareStep isKey lc ref l10n acc (x.1, x.2) with
    | error e => rfl
    | ok a =>
      have := ih a (fun p hp => hx p (List.mem_cons_of_mem _ hp))
      simpa [Except.map, bind, Except.bind] using this

/-- `ContentComparer.compare` commutes with every renaming of keys that is injective on the keys of the
    two files and respects the `[kK]ey` test -/
theorem compareG_nat {f : κ → κ'} {ks : List κ} (hf : InjOn f ks) (isKey : κ → Bool) (isKey' : κ' → Bool)
    (hkey : ∀ k ∈ ks, isKey' (f k) = isKey k) (lc : Nat → Nat × Nat) (ref l10n : List (KEnt κ))
    (href : ∀ e ∈ ref, e.key ∈ ks) (hl10n : ∀ e ∈ l10n, e.key ∈ ks) :
    compareG isKey' lc (ref.map (KEnt.mapKey f)) (l10n.map (KEnt.mapKey f))
      = (compareG isKey lc ref l10n).map (accMap f) := by
  unfold compareG
  have e1 : (ref.map (KEnt.mapKey f)).map (·.key) = (ref.map (·.key)).map f := by
    simp [List.map_map, KEnt.mapKey, Function.comp_def]
  have e2 : (l10n.map (KEnt.mapKey f)).map (·.key) = (l10n.map (·.key)).map f := by
    simp [List.map_map, KEnt.mapKey, Function.comp_def]
  have hrk : ∀ x ∈ ref.map (·.key), x ∈ ks := by
    intro x hx; rw [List.mem_map] at hx; obtain ⟨e, he, rfl⟩ := hx; exact href e he
  have hlk : ∀ x ∈ l10n.map (·.key), x ∈ ks := by
    intro x hx; rw [List.mem_map] at hx; obtain ⟨e, he, rfl⟩ := hx; exact hl10n e he
  obtain ⟨eAR, hARk⟩ := addRemove_nat hf _ _ hrk hlk
  simp only [e1, e2]
  rw [eAR, findDuplicates_nat hf _ hrk, findDuplicates_nat hf _ hlk]
  have := foldlM_nat hf isKey isKey' hkey lc ref l10n href hl10n
    (addRemove (ref.map (·.key)) (l10n.map (·.key)))
    ((findDuplicates (ref.map (·.key))).map (fun p => Msg.dupRef p.1 p.2)
      ++ (findDuplicates (l10n.map (·.key))).map (fun p => Msg.dupL10n p.1 p.2), {}) hARk
  rw [← this]
  congr 1
  simp [accMap, List.map_append, List.map_map, Msg.mapKey, F, Function.comp_def]

end Hist

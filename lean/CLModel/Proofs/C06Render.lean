/- C06 helper definitions, part 10: values assembled from a token alphabet (the generator's view)
   and the token list they are expected to lex to. -/
import CLModel.Proofs.C06Specs
namespace PropCk

/-- generator-side token: text, `%%`, a lone `%`, or `%[n$]<fmt>c` -/
inductive RTok
  | text (t : Text)
  | pct
  | lone
  | arg (num : Option Nat) (fmt : Text) (spec : Nat)
  deriving DecidableEq, Repr

def renderTok : RTok → Text
  | .text t => t
  | .pct => [37, 37]
  | .lone => [37]
  | .arg none fmt c => [37] ++ fmt ++ [c]
  | .arg (some n) fmt c => [37] ++ decimal n ++ [36] ++ fmt ++ [c]

/-- the value: concatenation of the tokens -/
def render (ts : List RTok) : Text := ts.flatMap renderTok

/-- the token list (with offsets) the value is expected to lex to -/
def expectedFrom : Nat → List RTok → List (Nat × ATok)
  | _, [] => []
  | off, t :: ts =>
    let rest := expectedFrom (off + (renderTok t).length) ts
    match t with
    | .text _ => rest
    | .pct => (off, .pct) :: rest
    | .lone => (off, .lone) :: rest
    | .arg num _ c => (off, .arg num [c]) :: rest

/-- a lone `%` must be followed by a text token or by the end of the value -/
def wfR : List RTok → Bool
  | [] => true
  | .lone :: .text t :: rest => wfR (.text t :: rest)
  | [.lone] => true
  | .lone :: _ => false
  | _ :: rest => wfR rest

/-- "a ", "é", %%, %, %S, %d, %1$S, %2$d, %3$S, %5.2f, %12$*x -/
def alphaFull : List RTok :=
  [.text [97, 32], .text [233], .pct, .lone, .arg none [] 83, .arg none [] 100, .arg (some 1) [] 83,
   .arg (some 2) [] 100, .arg (some 3) [] 83, .arg none [53, 46, 50] 102, .arg (some 12) [42] 120]

/-- "a ", %%, %, %S, %1$S, %2$d, %5.2f -/
def alphaSmall : List RTok :=
  [.text [97, 32], .pct, .lone, .arg none [] 83, .arg (some 1) [] 83, .arg (some 2) [] 100,
   .arg none [53, 46, 50] 102]

def listsUpTo (a : List RTok) : Nat → List (List RTok)
  | 0 => [[]]
  | n + 1 => [[]] ++ (a.flatMap fun t => (listsUpTo a n).map (t :: ·))

/-- the bounded family: up to 2 tokens over the full alphabet, up to 3 over the small one -/
def boundedFamily : List (List RTok) :=
  (listsUpTo alphaFull 2 ++ listsUpTo alphaSmall 3).filter wfR

set_option maxRecDepth 100000 in
theorem boundedFamily_lexes :
    boundedFamily.all (fun ts => decide (atoks (render ts) = some (expectedFrom 0 ts))) = true := by
  decide +kernel

end PropCk

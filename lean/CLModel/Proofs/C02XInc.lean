/- C02 (extension), .inc (DefinesParser): a printed list of `#define KEY value` records walks to exactly the
   entities and the one-newline white-space entries. -/
import CLModel.Proofs.C02XRx
namespace C02X
open Rx P Gen.Pat

/-! ### `\w` on ASCII -/

/-- ASCII letters, digits, underscore -/
def asciiWord (c : Nat) : Bool := (48 ≤ c && c ≤ 57) || (65 ≤ c && c ≤ 90) || c == 95 || (97 ≤ c && c ≤ 122)

theorem wordRanges_head :
    Gen.Unicode.wordRanges = (48, 57) :: (65, 90) :: (95, 95) :: (97, 122) :: Gen.Unicode.wordRanges.drop 4 := by rfl

theorem isWord_of_ascii (c : Nat) (h : asciiWord c = true) : isWord c = true := by
  unfold isWord inRanges
  rw [wordRanges_head]
  simp only [List.any_cons]
  simp only [asciiWord, Bool.or_eq_true, Bool.and_eq_true, decide_eq_true_eq, beq_iff_eq] at h
  simp only [Bool.or_eq_true, Bool.and_eq_true, decide_eq_true_eq]
  rcases h with ((h | h) | h) | h
  · exact Or.inl h
  · exact Or.inr (Or.inl h)
  · exact Or.inr (Or.inr (Or.inl ⟨by omega, by omega⟩))
  · exact Or.inr (Or.inr (Or.inr (Or.inl h)))

set_option maxRecDepth 100000 in
theorem isWord_10 : isWord 10 = false := by decide
set_option maxRecDepth 100000 in
theorem isWord_32 : isWord 32 = false := by decide

theorem inC_word (c : Nat) : inC false [ClsItem.word] c = isWord c := by
  simp [inC, ClsItem.has]

theorem m_lit_charStep (s : Array Nat) (c : Nat) : m s (.lit c) = charStep s (fun d => d == c) := by
  funext st k
  rw [m_lit]
  simp only [charStep]
  cases h : s[st.pos]? with
  | none => simp
  | some d => by_cases hd : d = c <;> simp [hd]

/-! ### one record -/

/-- `#define ` -/
def defPrefix : List Nat := [35, 100, 101, 102, 105, 110, 101, 32]

abbrev IRec := List Nat × List Nat

/-- `#define KEY⏎` for an empty value, `#define KEY value⏎` otherwise -/
def printIncRec (r : IRec) : List Nat :=
  defPrefix ++ (r.1 ++ ((if r.2.isEmpty then [] else 32 :: r.2) ++ [10]))

def printInc (rs : List IRec) : List Nat := (rs.map printIncRec).flatten

/-- key: non-empty, ASCII letters / digits / underscore; value: no newline -/
structure SafeIncRec (r : IRec) : Prop where
  key_ne : r.1 ≠ []
  key : ∀ c ∈ r.1, asciiWord c = true
  val : ∀ c ∈ r.2, c ≠ 10

/-- the text at `off`: `#define `, key, then either a newline (`vlen = 0`) or a blank, the value, a newline -/
structure IncRecAt (s : Array Nat) (off klen vlen : Nat) : Prop where
  pre : ∀ i, (hi : i < 8) → s[off + i]? = some (defPrefix[i]'(by simpa [defPrefix] using hi))
  klen_pos : 0 < klen
  key : ∀ j, j < klen → ∃ c, s[off + 8 + j]? = some c ∧ asciiWord c = true
  nl0 : vlen = 0 → s[off + 8 + klen]? = some 10
  sp : 0 < vlen → s[off + 8 + klen]? = some 32
  val : ∀ j, j < vlen → ∃ c, s[off + 8 + klen + 1 + j]? = some c ∧ c ≠ 10
  nl : 0 < vlen → s[off + 8 + klen + 1 + vlen]? = some 10

/-- length of the printed record without its newline -/
def incLen (klen vlen : Nat) : Nat := 8 + klen + (if vlen = 0 then 0 else 1 + vlen)

/-- the entity `DefinesParser.getNext` must produce; an empty value means the `val` group did not take part in
    the match: its span is Python's `(-1, -1)` -/
def incEntity (off klen vlen : Nat) : Entry :=
  if vlen = 0 then
    { kind := .entity, full := off, s := off, e := off + 8 + klen, ks := (off + 8 : Nat), ke := (off + 8 + klen : Nat),
      vs := -1, ve := -1, pc := none }
  else
    { kind := .entity, full := off, s := off, e := off + 8 + klen + 1 + vlen, ks := (off + 8 : Nat), ke := (off + 8 + klen : Nat),
      vs := (off + 8 + klen + 1 : Nat), ve := (off + 8 + klen + 1 + vlen : Nat), pc := none }

theorem incEntity_e (off klen vlen : Nat) : (incEntity off klen vlen).e = off + incLen klen vlen := by
  unfold incEntity incLen
  split <;> simp <;> omega

theorem inc_comment_none (s : Array Nat) (off : Nat) (hoff : off ≤ s.size)
    (h : s[off]? ≠ some 35 ∨ (s[off]? = some 35 ∧ s[off + 1]? ≠ some 32)) :
    matchAt s DefinesParser_reComment off = none := by
  have hhead : ∀ (K1 : K), m s (Re.bol true) ⟨off, []⟩ (fun st' => m s (Re.lit 35) st' (fun st' => m s (Re.lit 32) st' K1)) = none := by
    intro K1
    rw [m_bol]
    split
    · rcases h with h | ⟨h1, h2⟩
      · exact lit_fail s off 35 [] h _
      · rw [lit_ok s off 35 [] h1]
        exact lit_fail s (off + 1) 32 [] h2 _
    · rfl
  simp only [matchAt, DefinesParser_reComment, m_seq, m_rep]
  obtain ⟨f, hf⟩ : ∃ f, s.size + 2 - off = f + 1 := ⟨s.size + 1 - off, by omega⟩
  simp only [hf]
  rw [loop_body_fail]
  · exact hhead _
  · intro k'
    simp only [m_seq]
    exact hhead _

theorem inc_ws_none (s : Array Nat) (off : Nat) (hoff : off ≤ s.size) (h : s[off]? ≠ some 10) :
    matchAt s DefinesParser_reWhitespace off = none := by
  simp only [matchAt, DefinesParser_reWhitespace, m_rep]
  obtain ⟨f, hf⟩ : ∃ f, s.size + 2 - off = f + 1 := ⟨s.size + 1 - off, by omega⟩
  rw [hf]
  apply loop_body_fail_min _ _ _ _ _ _ _ _ (by omega)
  intro k'
  exact lit_fail s off 10 [] h k'

theorem inc_ws_one (s : Array Nat) (nl : Nat) (h0 : s[nl]? = some 10) (h1 : s[nl + 1]? ≠ some 10) :
    matchAt s DefinesParser_reWhitespace nl = some ⟨nl + 1, []⟩ := by
  have hlt := getElem?_some_lt h0
  simp only [matchAt, DefinesParser_reWhitespace, m_rep, m_lit_charStep]
  apply charLoop_hit s _ [] some _ 1 _ nl 1 (by omega) (by omega)
  · intro j hj
    have : j = 0 := by omega
    subst this
    exact ⟨10, h0, by decide⟩
  · cases hc : s[nl + 1]? with
    | none => exact Or.inl rfl
    | some c =>
      right
      refine ⟨c, rfl, ?_⟩
      rw [hc] at h1
      simpa using h1
  · rfl

theorem inc_key_match (s : Array Nat) (off klen vlen : Nat) (h : IncRecAt s off klen vlen) :
    matchAt s DefinesParser_reKey off =
      some (if vlen = 0 then ⟨off + 8 + klen, [(1, off + 8, off + 8 + klen)]⟩
            else ⟨off + 8 + klen + 1 + vlen, [(2, off + 8 + klen + 1, off + 8 + klen + 1 + vlen), (1, off + 8, off + 8 + klen)]⟩) := by
  have hkp := h.klen_pos
  obtain ⟨ck, hck, hckw⟩ := h.key 0 hkp
  simp only [Nat.add_zero] at hck
  have p0 := h.pre 0 (by omega); have p1 := h.pre 1 (by omega); have p2 := h.pre 2 (by omega)
  have p3 := h.pre 3 (by omega); have p4 := h.pre 4 (by omega); have p5 := h.pre 5 (by omega)
  have p6 := h.pre 6 (by omega); have p7 := h.pre 7 (by omega)
  simp only [defPrefix, List.getElem_cons_zero, List.getElem_cons_succ, Nat.add_zero] at p0 p1 p2 p3 p4 p5 p6 p7
  have hend : ∃ ce, s[off + 8 + klen]? = some ce ∧ isWord ce = false ∧ (vlen = 0 → ce = 10) ∧ (0 < vlen → ce = 32) := by
    by_cases hv : vlen = 0
    · exact ⟨10, h.nl0 hv, isWord_10, fun _ => rfl, fun h' => by omega⟩
    · exact ⟨32, h.sp (by omega), isWord_32, fun h' => by omega, fun _ => rfl⟩
  obtain ⟨ce, hce, hcew, hce0, hce1⟩ := hend
  have hsz : off + 8 + klen < s.size := getElem?_some_lt hce
  simp only [matchAt, DefinesParser_reKey, m_seq, m_group, m_rep, m_alt, m_eps, m_cls_charStep, m_notLit_charStep]
  rw [lit_ok s off 35 [] p0, lit_ok s _ 100 [] p1, lit_ok s _ 101 [] p2, lit_ok s _ 102 [] p3, lit_ok s _ 105 [] p4,
    lit_ok s _ 110 [] p5, lit_ok s _ 101 [] p6]
  simp only [show off + 1 + 1 + 1 + 1 + 1 + 1 + 1 = off + 7 by omega]
  -- `[ \t]+` : exactly the one blank
  apply charLoop_hit s _ [] _ _ 1 _ (off + 7) 1 (by omega) (by omega)
  · intro j hj
    have : j = 0 := by omega
    subst this
    exact ⟨32, p7, by decide⟩
  · right
    refine ⟨ck, by rw [show off + 7 + 1 = off + 8 by omega]; exact hck, ?_⟩
    have hw := isWord_of_ascii ck hckw
    have : ck ≠ 32 ∧ ck ≠ 9 := by
      constructor <;> intro hh <;> subst hh <;> revert hckw <;> decide
    simp [inC, ClsItem.has, this]
  -- `\w+` : exactly the key
  simp only [show off + 7 + 1 = off + 8 by omega]
  apply charLoop_hit s _ [] _ _ klen _ (off + 8) 1 (by omega) (by omega)
  · intro j hj
    obtain ⟨c, hc, hw⟩ := h.key j hj
    exact ⟨c, hc, by rw [inC_word]; exact isWord_of_ascii c hw⟩
  · right
    exact ⟨ce, hce, by rw [inC_word]; exact hcew⟩
  -- the optional value
  by_cases hv : vlen = 0
  · have hce' : s[off + 8 + klen]? = some 10 := by rw [hce, hce0 hv]
    simp only [hv, if_true]
    rw [charStep_fail s _ (off + 8 + klen) _ (Or.inr ⟨10, hce', by decide⟩)]
    simp
  · have hce' : s[off + 8 + klen]? = some 32 := by rw [hce, hce1 (by omega)]
    have hnl := h.nl (by omega)
    have hnlt := getElem?_some_lt hnl
    simp only [hv, if_false]
    rw [charStep_ok s _ (off + 8 + klen) 32 _ hce' (by decide)]
    rw [charLoop_hit s _ _ _ ⟨off + 8 + klen + 1 + vlen, [(2, off + 8 + klen + 1, off + 8 + klen + 1 + vlen), (1, off + 8, off + 8 + klen)]⟩
      vlen _ (off + 8 + klen + 1) 0 (by simp; omega) (by omega)
      (fun j hj => by obtain ⟨c, hc, hne⟩ := h.val j hj; exact ⟨c, hc, by simp [hne]⟩)
      (Or.inr ⟨10, hnl, by decide⟩) (by simp)]
    simp

theorem inc_entity_at (s : Array Nat) (fel : Bool) (off klen vlen : Nat) (h : IncRecAt s off klen vlen) :
    definesGetNext s fel off = (incEntity off klen vlen, fel) := by
  have p0 := h.pre 0 (by omega); have p1 := h.pre 1 (by omega)
  simp only [defPrefix, List.getElem_cons_zero, List.getElem_cons_succ, Nat.add_zero] at p0 p1
  have hlt := getElem?_some_lt p0
  have hcm := inc_comment_none s off (by omega) (Or.inr ⟨p0, by rw [p1]; decide⟩)
  have hws := inc_ws_none s off (by omega) (by rw [p0]; decide)
  have hkm := inc_key_match s off klen vlen h
  unfold definesGetNext
  simp only [hcm, hws, hkm]
  unfold incEntity
  by_cases hv : vlen = 0
  · simp [hv, spanI, St.group, capOf, DefinesParser_reKey_g_key, DefinesParser_reKey_g_val]
  · simp [hv, spanI, St.group, capOf, DefinesParser_reKey_g_key, DefinesParser_reKey_g_val]

/-- the one-newline white-space entry between two records (not at offset 0) -/
theorem inc_ws_at (s : Array Nat) (fel : Bool) (nl : Nat) (hpos : nl ≠ 0) (h0 : s[nl]? = some 10) (h1 : s[nl + 1]? ≠ some 10) :
    definesGetNext s fel nl = (wsEntry nl, fel) := by
  have hlt := getElem?_some_lt h0
  have hcm := inc_comment_none s nl (by omega) (Or.inl (by rw [h0]; decide))
  have hws := inc_ws_one s nl h0 h1
  unfold definesGetNext
  simp only [hcm, hws]
  simp [wsEntry, hpos]

/-! ### a printed list of records -/

theorem printIncRec_length (r : IRec) : (printIncRec r).length = incLen r.1.length r.2.length + 1 := by
  unfold printIncRec incLen
  by_cases hv : r.2 = []
  · simp [hv, defPrefix]; omega
  · have : r.2.length ≠ 0 := by simpa using hv
    simp [hv, defPrefix, this]; omega

theorem incRecAt_of_drop (s : Array Nat) (off : Nat) (r : IRec) (rest : List Nat) (hs : SafeIncRec r)
    (h : s.toList.drop off = printIncRec r ++ rest) : IncRecAt s off r.1.length r.2.length := by
  have hkl : 0 < r.1.length := List.length_pos_iff.mpr hs.key_ne
  have h1 : s.toList.drop off = defPrefix ++ (r.1 ++ (((if r.2.isEmpty then [] else 32 :: r.2) ++ [10]) ++ rest)) := by
    simp [h, printIncRec]
  have h2 : s.toList.drop (off + 8) = r.1 ++ (((if r.2.isEmpty then [] else 32 :: r.2) ++ [10]) ++ rest) :=
    drop_app s off _ _ h1
  have h3 := drop_app s (off + 8) _ _ h2
  refine ⟨?_, hkl, ?_, ?_, ?_, ?_, ?_⟩
  · intro i hi
    exact get_app_left s off _ _ h1 i (by simpa [defPrefix] using hi)
  · intro j hj
    exact ⟨r.1[j], get_app_left s _ _ _ h2 j hj, hs.key _ (List.getElem_mem hj)⟩
  · intro hv
    have hv' : r.2 = [] := List.length_eq_zero_iff.mp hv
    have := get_of_drop s _ 0 _ h3
    simpa [hv'] using this
  · intro hv
    have hv' : r.2 ≠ [] := List.length_pos_iff.mp hv
    have := get_of_drop s _ 0 _ h3
    simpa [hv'] using this
  · intro j hj
    have hv' : r.2 ≠ [] := List.length_pos_iff.mp (by omega)
    have h4 : s.toList.drop (off + 8 + r.1.length) = [32] ++ (r.2 ++ (10 :: rest)) := by simp [h3, hv']
    have h5 := drop_app s _ _ _ h4
    exact ⟨r.2[j], get_app_left s _ _ _ h5 j hj, hs.val _ (List.getElem_mem hj)⟩
  · intro hv
    have hv' : r.2 ≠ [] := List.length_pos_iff.mp hv
    have h4 : s.toList.drop (off + 8 + r.1.length) = [32] ++ (r.2 ++ (10 :: rest)) := by simp [h3, hv']
    have h5 := drop_app s _ _ _ h4
    have := get_app_right s _ _ _ h5 0
    simpa using this

def incExpEntries : Nat → List IRec → List Entry
  | _, [] => []
  | off, r :: rs =>
    incEntity off r.1.length r.2.length :: wsEntry (off + incLen r.1.length r.2.length) ::
      incExpEntries (off + incLen r.1.length r.2.length + 1) rs

theorem printIncRec_head (r : IRec) (rest : List Nat) : (printIncRec r ++ rest)[0]? = some 35 := by
  simp [printIncRec, defPrefix]

theorem walk_inc_from (s : Array Nat) :
    ∀ (rs : List IRec) (off fuel : Nat), s.toList.drop off = printInc rs → (∀ r ∈ rs, SafeIncRec r) →
      2 * rs.length ≤ fuel →
      walkFrom (fun fel o => definesGetNext s fel o) s.size fuel false off = .done (incExpEntries off rs) := by
  intro rs
  induction rs with
  | nil =>
    intro off fuel h _ _
    exact walk_end _ _ _ _ _ (size_le_of_drop_nil s off (by simpa [printInc] using h))
  | cons r rs ih =>
    intro off fuel h hsafe hfuel
    have hpp : printInc (r :: rs) = printIncRec r ++ printInc rs := by simp [printInc]
    rw [hpp] at h
    have hrec := incRecAt_of_drop s off r _ (hsafe r (by simp)) h
    obtain ⟨f, rfl⟩ : ∃ f, fuel = f + 1 + 1 := ⟨fuel - 2, by simp at hfuel; omega⟩
    have hlen := printIncRec_length r
    have hdrop : s.toList.drop (off + incLen r.1.length r.2.length + 1) = printInc rs := by
      have := drop_app s off _ _ h
      rw [hlen] at this
      rw [← this]; congr 1
    have hnl : s[off + incLen r.1.length r.2.length]? = some 10 := by
      unfold incLen
      by_cases hv : r.2.length = 0
      · simp only [hv, if_true]
        rw [show off + (8 + r.1.length + 0) = off + 8 + r.1.length by omega]
        exact hrec.nl0 hv
      · simp only [hv, if_false]
        rw [show off + (8 + r.1.length + (1 + r.2.length)) = off + 8 + r.1.length + 1 + r.2.length by omega]
        exact hrec.nl (by omega)
    have hnlt := getElem?_some_lt hnl
    have hnext : s[off + incLen r.1.length r.2.length + 1]? ≠ some 10 := by
      have g := get_of_drop s (off + incLen r.1.length r.2.length + 1) 0 _ hdrop
      simp only [Nat.add_zero] at g
      rw [g]
      cases rs with
      | nil => simp [printInc]
      | cons r' rs' =>
        have : printInc (r' :: rs') = printIncRec r' ++ printInc rs' := by simp [printInc]
        rw [this, printIncRec_head]
        decide
    have e1 := inc_entity_at s false off _ _ hrec
    have e2 := inc_ws_at s false (off + incLen r.1.length r.2.length) (by unfold incLen; omega) hnl hnext
    rw [walk_step _ _ _ false false off (incEntity off r.1.length r.2.length) (by omega) e1, incEntity_e,
      walk_step _ _ _ false false _ (wsEntry (off + incLen r.1.length r.2.length)) (by omega) e2,
      show (wsEntry (off + incLen r.1.length r.2.length)).e = off + incLen r.1.length r.2.length + 1 from rfl,
      ih _ f hdrop (fun r' hr' => hsafe r' (by simp [hr'])) (by simp at hfuel; omega)]
    simp [WalkResult.cons, incExpEntries]

theorem printInc_length_ge (rs : List IRec) : 2 * rs.length ≤ (printInc rs).length := by
  induction rs with
  | nil => simp
  | cons r rs ih =>
    have : printInc (r :: rs) = printIncRec r ++ printInc rs := by simp [printInc]
    rw [this, List.length_append, printIncRec_length]
    unfold incLen
    simp; omega

theorem walk_inc_printed (rs : List IRec) (h : ∀ r ∈ rs, SafeIncRec r) :
    walk .inc (printInc rs).toArray = .done (incExpEntries 0 rs) := by
  unfold walk
  simp only []
  apply walk_inc_from
  · simp
  · exact h
  · have := printInc_length_ge rs
    simp; omega

/-! ### views -/

theorem slice_self (s : Array Nat) (a : Nat) : slice s a a = [] := by
  simp [slice]

theorem entView_incEntity (s : Array Nat) (off : Nat) (r : IRec) (rest : List Nat)
    (h : s.toList.drop off = printIncRec r ++ rest) :
    entView .inc s (incEntity off r.1.length r.2.length) = expectedView r := by
  have hlen : (printIncRec r ++ rest).length = s.size - off := by rw [← h]; simp
  rw [List.length_append, printIncRec_length] at hlen
  have h1 : s.toList.drop off = defPrefix ++ (r.1 ++ (((if r.2.isEmpty then [] else 32 :: r.2) ++ [10]) ++ rest)) := by
    simp [h, printIncRec]
  have h2 : s.toList.drop (off + 8) = r.1 ++ (((if r.2.isEmpty then [] else 32 :: r.2) ++ [10]) ++ rest) :=
    drop_app s off _ _ h1
  have h3 := drop_app s (off + 8) _ _ h2
  have hk : slice s (off + 8) (off + 8 + r.1.length) = r.1 := by
    rw [slice_take s (off + 8) r.1.length _ h2 (by simp)]
    simp
  unfold incEntity
  by_cases hv : r.2 = []
  · have hv0 : r.2.length = 0 := by simp [hv]
    have hinc : incLen r.1.length r.2.length = 8 + r.1.length := by simp [incLen, hv0]
    simp only [hv0, if_true, entView, expectedView]
    rw [pySlice_nat s (off + 8) (off + 8 + r.1.length) (by omega) (by omega), hk]
    have : pySlice s (-1) (-1) = [] := by
      unfold pySlice
      exact slice_self s _
    rw [this, hv]
    rfl
  · have hv0 : r.2.length ≠ 0 := by simpa using hv
    have hinc : incLen r.1.length r.2.length = 8 + r.1.length + (1 + r.2.length) := by simp [incLen, hv0]
    have h4 : s.toList.drop (off + 8 + r.1.length) = [32] ++ (r.2 ++ (10 :: rest)) := by simp [h3, hv]
    have h5 : s.toList.drop (off + 8 + r.1.length + 1) = r.2 ++ (10 :: rest) := drop_app s _ _ _ h4
    have hval : slice s (off + 8 + r.1.length + 1) (off + 8 + r.1.length + 1 + r.2.length) = r.2 := by
      rw [slice_take s _ r.2.length _ h5 (by simp)]
      simp
    simp only [hv0, if_false, entView, expectedView]
    rw [pySlice_nat s (off + 8) (off + 8 + r.1.length) (by omega) (by omega), hk,
      pySlice_nat s (off + 8 + r.1.length + 1) (off + 8 + r.1.length + 1 + r.2.length) (by omega) (by omega), hval]
    rfl

theorem entitiesOf_incExpEntries (s : Array Nat) :
    ∀ (rs : List IRec) (off : Nat), s.toList.drop off = printInc rs →
      entitiesOf .inc s (incExpEntries off rs) = rs.map expectedView ∧ junkOf s (incExpEntries off rs) = [] := by
  intro rs
  induction rs with
  | nil => intro off _; simp [entitiesOf, junkOf, incExpEntries]
  | cons r rs ih =>
    intro off h
    have hpp : printInc (r :: rs) = printIncRec r ++ printInc rs := by simp [printInc]
    rw [hpp] at h
    have hdrop : s.toList.drop (off + incLen r.1.length r.2.length + 1) = printInc rs := by
      have := drop_app s off _ _ h
      rw [printIncRec_length] at this
      rw [← this]; congr 1
    obtain ⟨ih1, ih2⟩ := ih _ hdrop
    have hv := entView_incEntity s off r _ h
    have hkind : (incEntity off r.1.length r.2.length).kind = .entity := by
      unfold incEntity; split <;> rfl
    constructor
    · simp only [entitiesOf] at ih1 ⊢
      simp only [incExpEntries, List.map_cons]
      rw [List.filter_cons_of_pos (by simp [hkind]), List.filter_cons_of_neg (by simp [wsEntry]),
        List.map_cons, hv, ih1]
    · simp only [junkOf] at ih2 ⊢
      simp only [incExpEntries]
      rw [List.filter_cons_of_neg (by simp [hkind]), List.filter_cons_of_neg (by simp [wsEntry]), ih2]

end C02X

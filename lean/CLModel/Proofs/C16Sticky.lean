/-
C16S: sticky entries (`StickyEntry`, Android `DocumentWrapper`): "always keep the one from the reference document".
`get_older_entity` takes the older entry unless it is missing OR A StickyEntry; then it takes `newer.get(key)`.
-/
import CLModel.Proofs.C16Cor
namespace C16S
open AR Ser C16L

/-- a sticky entry that `get_older_entity` returns comes from the NEWER dict -/
theorem getOlder_sticky {N O : Dict} {k : MKey} {e : Ent} (h : getOlder N O k = some e) (hs : e.isSticky = true) :
    (k, e) ∈ N := by
  unfold getOlder at h
  cases ho : dget O k with
  | none => rw [ho] at h; exact dget_some_mem' h
  | some e' =>
    rw [ho] at h
    simp only at h
    split at h
    · exact dget_some_mem' h
    · rename_i hns
      simp only [Option.some.injEq] at h
      subst h
      exact absurd hs hns

theorem mem_mergeTwo_sticky {N O : Dict} (hN : (dkeys N).Nodup) (hO : (dkeys O).Nodup) {p : MKey × Ent}
    (h : p ∈ mergeTwo N O false) (hs : p.2.isSticky = true) : p ∈ N :=
  getOlder_sticky (mem_olderPairs ((mergeTwo_sublist N O hN hO).subset h)) hs

theorem placeholder_sticky {r : Ent} (h : (placeholder r).isSticky = true) : placeholder r = r := by
  unfold placeholder at h ⊢
  split
  · rename_i he
    rw [if_pos he] at h
    simp [mkPlaceholder, Ent.isSticky] at h
  · rfl

/-- every sticky entry of the output is an entry of the REFERENCE: a sticky entry of the old localization never
    survives (`get_older_entity` replaces it by the reference's, or by `None` when the reference has none) -/
theorem sticky_from_reference (ref old : List Ent) (nd : NewData) :
    ∀ e ∈ serializeEnts ref old nd, e.isSticky = true → e ∈ ref := by
  intro e he hs
  obtain ⟨k, hk⟩ := mem_out he
  have h1 : (k, e) ∈ m1Of ref old nd := mem_mergeTwo_sticky (m1_nodup ref old nd) (d2_nodup ref nd) hk hs
  have h0 : (k, e) ∈ d0Of ref := mem_mergeTwo_sticky (d0_nodup ref) (d1_nodup ref old nd) h1 hs
  have hm := parseResource_mem h0
  simp only [plOf, List.mem_map, List.mem_filter] at hm
  obtain ⟨r, ⟨hr, _⟩, hre⟩ := hm
  have : placeholder r = r := placeholder_sticky (by rw [hre]; exact hs)
  rw [this] at hre
  subst hre
  exact hr

theorem sticky_not_ws {e : Ent} (h : e.isSticky = true) : e.isWs = false := by
  cases e with | mk kind key val all pre post => cases kind <;> simp_all [Ent.isSticky, Ent.isWs]

theorem sticky_not_ph {e : Ent} (h : e.isSticky = true) : e.isPlaceholder = false := by
  cases e with | mk kind key val all pre post => cases kind <;> simp_all [Ent.isSticky, Ent.isPlaceholder]

theorem sticky_not_entity {e : Ent} (h : e.isSticky = true) : e.isEntity = false := by
  cases e with | mk kind key val all pre post => cases kind <;> simp_all [Ent.isSticky, Ent.isEntity]

/-- what `sanitize_old` leaves under a `.key` key is keyed as before, and is sticky only if the old entry was -/
theorem d1_str_sticky (ref old : List Ent) (nd : NewData) (s : List Nat)
    (hold : ∀ e ∈ old, e.isJunk = false → strKeyed e = true → e.key = s → e.isSticky = true) :
    ∀ e', dget (d1Of ref old nd) (MKey.str s) = some e' → e'.isSticky = true := by
  intro e' h
  have hm := parseResource_mem (dget_some_mem' h)
  have hok := parseResource_keyOK _ _ _ (dget_some_mem' h)
  simp only [osOf_eq, List.mem_map, List.mem_filter] at hm
  obtain ⟨e0, ⟨h0, hj⟩, rfl⟩ := hm
  simp only [keyOK, Bool.and_eq_true, beq_iff_eq] at hok
  obtain ⟨hsk, hkey⟩ := hok
  rw [sanOf_strKeyed] at hsk
  rw [sanOf_key] at hkey
  have hst := hold e0 h0 (by simpa using hj) hsk hkey
  have hne := sticky_not_entity hst
  unfold sanOf shouldPlaceholder
  simp [hne, hst]

/-- "ALWAYS KEEP THE ONE FROM THE REFERENCE DOCUMENT".  If the template holds the sticky entry `r` under key `s`
    (`r` is the last non-junk reference entry keyed `s`), every non-junk entry of the old localization keyed `s` is
    sticky too (the old document's own wrapper / root attribute) and no reference Entity is keyed `s`, then `r` —
    the REFERENCE's entry — is in the output, whatever the old document's entry looks like. -/
theorem sticky_kept (ref old : List Ent) (nd : NewData) (s : List Nat) (r : Ent)
    (h0 : dget (d0Of ref) (MKey.str s) = some r) (hr : r.isSticky = true)
    (hold : ∀ e ∈ old, e.isJunk = false → strKeyed e = true → e.key = s → e.isSticky = true)
    (hkn : known ref s = false) :
    r ∈ serializeEnts ref old nd := by
  have hD0 := d0_nodup ref
  have hD1 := d1_nodup ref old nd
  have hD2 := d2_nodup ref nd
  have hM1 := m1_nodup ref old nd
  have hk0 : MKey.str s ∈ dkeys (d0Of ref) := by
    unfold dkeys
    rw [← dget_isSome_iff, h0]; rfl
  have hget : getOlder (d0Of ref) (d1Of ref old nd) (MKey.str s) = some r := by
    unfold getOlder
    cases ho : dget (d1Of ref old nd) (MKey.str s) with
    | none => exact h0
    | some e' =>
      simp only
      rw [if_pos (d1_str_sticky ref old nd s hold e' ho)]
      exact h0
  have hnw : nonwsP (MKey.str s, r) = true := by simp [nonwsP, sticky_not_ws hr]
  -- first merge
  have hks : MKey.str s ∈ (addRemove (dkeys (d0Of ref)) (dkeys (d1Of ref old nd))).map (·.2) := by
    rw [(addRemove_keys_perm _ _ hD0 hD1).mem_iff]
    exact List.mem_append_left _ hk0
  have hp : (MKey.str s, r) ∈ olderPairs (d0Of ref) (d1Of ref old nd) := by
    unfold olderPairs
    rw [List.mem_filterMap]
    exact ⟨MKey.str s, hks, by rw [hget]; rfl⟩
  have hm1 : (MKey.str s, r) ∈ m1Of ref old nd := by
    have : (MKey.str s, r) ∈ (m1Of ref old nd).filter nonwsP := by
      rw [m1Of, mergeTwo_nonws' _ _ hD0 hD1, List.mem_filter]
      exact ⟨hp, hnw⟩
    exact (List.mem_filter.1 this).1
  -- second merge: no new value under `s`
  have hd2 : dget (d2Of ref nd) (MKey.str s) = none := by
    cases hg : dget (d2Of ref nd) (MKey.str s) with
    | none => rfl
    | some l =>
      obtain ⟨_, hkk, hkl⟩ := d2_some hg
      simp only [MKey.str.injEq] at hkk
      rw [← hkk, hkn] at hkl
      exact absurd hkl (by simp)
  have hp2 : (MKey.str s, r) ∈ olderPairs (m1Of ref old nd) (d2Of ref nd) := by
    rw [olderPairs_of_subset _ _ hM1 hD2 (d2_sub_m1 ref old nd), List.mem_map]
    refine ⟨(MKey.str s, r), hm1, ?_⟩
    simp only [pick, hd2]
  have hm2 : (MKey.str s, r) ∈ m2Of ref old nd := by
    have : (MKey.str s, r) ∈ (m2Of ref old nd).filter nonwsP := by
      rw [m2Of, mergeTwo_nonws' _ _ hM1 hD2, List.mem_filter]
      exact ⟨hp2, hnw⟩
    exact (List.mem_filter.1 this).1
  -- prune_placeholders keeps every entry that is neither a placeholder nor whitespace
  have hmem : r ∈ (prunePlaceholders ((m2Of ref old nd).map (·.2))).filter (fun e => !e.isWs) := by
    rw [prunePlaceholders_nonws, List.mem_filter]
    exact ⟨List.mem_map.2 ⟨_, hm2, rfl⟩, by simp [sticky_not_ws hr, sticky_not_ph hr]⟩
  rw [serializeEnts_eq]
  exact (List.mem_filter.1 hmem).1

end C16S

/-
C18 helper lemmas: `"%d" % n` is injective, the junk key determines (id, start, end),
a junk key never matches `ContentComparer.keyRE`.
-/
import CLModel.History.State
namespace Hist
open Rx

theorem digitsF_digit : ∀ fuel n c, c ∈ digitsF fuel n → 48 ≤ c ∧ c ≤ 57 := by
  intro fuel
  induction fuel with
  | zero => intro n c h; simp [digitsF] at h
  | succ fuel ih =>
    intro n c h
    unfold digitsF at h
    split at h
    · simp at h; omega
    · rw [List.mem_append] at h
      rcases h with h | h
      · exact ih _ _ h
      · simp at h; omega

theorem digitsF_ne_nil (fuel n : Nat) : digitsF (fuel + 1) n ≠ [] := by
  unfold digitsF
  split <;> simp

theorem digitsF_fuel : ∀ f f' n, n < f → n < f' → digitsF f n = digitsF f' n := by
  intro f
  induction f with
  | zero => intro f' n h; omega
  | succ f ih =>
    intro f' n h h'
    cases f' with
    | zero => omega
    | succ f' =>
      unfold digitsF
      split
      · rfl
      · rw [ih f' (n / 10) (by omega) (by omega)]

theorem digits_eq (n : Nat) :
    digits n = if n < 10 then [48 + n] else digits (n / 10) ++ [48 + n % 10] := by
  unfold digits
  conv => lhs; unfold digitsF
  split
  · rfl
  · rw [digitsF_fuel n (n / 10 + 1) (n / 10) (by omega) (by omega)]

theorem digits_ne_nil (n : Nat) : digits n ≠ [] := digitsF_ne_nil n n

theorem digits_digit (n c : Nat) (h : c ∈ digits n) : 48 ≤ c ∧ c ≤ 57 := digitsF_digit _ _ _ h

theorem digits_inj : ∀ n m, digits n = digits m → n = m := by
  intro n
  induction n using Nat.strongRecOn with
  | _ n ih =>
    intro m h
    rw [digits_eq n, digits_eq m] at h
    by_cases hn : n < 10 <;> by_cases hm : m < 10 <;> simp only [hn, hm, if_true, if_false] at h
    · simp at h; omega
    · have := congrArg List.length h
      have h2 := digits_ne_nil (m / 10)
      cases hd : digits (m / 10) with
      | nil => exact absurd hd h2
      | cons a t => rw [hd] at this; simp at this
    · have := congrArg List.length h
      have h2 := digits_ne_nil (n / 10)
      cases hd : digits (n / 10) with
      | nil => exact absurd hd h2
      | cons a t => rw [hd] at this; simp at this
    · have := List.append_inj' h rfl
      have h1 := ih (n / 10) (by omega) (m / 10) this.1
      have h2 : n % 10 = m % 10 := by simpa using this.2
      omega

/-- split at a separator that occurs in neither prefix -/
theorem split_sep (x : Nat) : ∀ (a a' b b' : List Nat), x ∉ a → x ∉ a' →
    a ++ x :: b = a' ++ x :: b' → a = a' ∧ b = b' := by
  intro a
  induction a with
  | nil =>
    intro a' b b' _ h' h
    cases a' with
    | nil => simpa using h
    | cons y t => simp at h; simp at h'; omega
  | cons y t ih =>
    intro a' b b' h1 h' h
    cases a' with
    | nil => simp at h; simp at h1; omega
    | cons z t' =>
      simp at h h1 h'
      obtain ⟨r1, r2⟩ := ih t' b b' (by simp [h1]) (by simp [h']) h.2
      exact ⟨by rw [h.1, r1], r2⟩

theorem not_mem_digits (x n : Nat) (hx : x < 48 ∨ 57 < x) : x ∉ digits n := by
  intro h
  have := digits_digit n x h
  omega

/-- the key string of a Junk determines the counter value and the span -/
theorem junkKey_inj {i s e i' s' e' : Nat} (h : junkKey i s e = junkKey i' s' e') :
    i = i' ∧ s = s' ∧ e = e' := by
  unfold junkKey at h
  simp only [List.append_assoc] at h
  have h1 := List.append_cancel_left h
  simp only [List.singleton_append] at h1
  obtain ⟨hi, hr⟩ := split_sep 95 _ _ _ _ (not_mem_digits 95 i (by omega)) (not_mem_digits 95 i' (by omega)) h1
  obtain ⟨hs, he⟩ := split_sep 45 _ _ _ _ (not_mem_digits 45 s (by omega)) (not_mem_digits 45 s' (by omega)) hr
  exact ⟨digits_inj _ _ hi, digits_inj _ _ hs, digits_inj _ _ he⟩

theorem junkKey_no_e (i s e : Nat) : 101 ∉ junkKey i s e := by
  unfold junkKey junkPrefix
  simp only [List.mem_append, not_or]
  refine ⟨⟨⟨⟨⟨by decide, not_mem_digits _ _ (by omega)⟩, by decide⟩, not_mem_digits _ _ (by omega)⟩, by decide⟩,
    not_mem_digits _ _ (by omega)⟩

theorem keyRE_matchAt_none (k : Array Nat) (h : 101 ∉ k.toList) (pos : Nat) :
    matchAt k Gen.Pat.ContentComparer_keyRE pos = none := by
  have hne : ∀ p : Nat, k[p]? ≠ some 101 := by
    intro p hp
    apply h
    rw [Array.getElem?_eq_some_iff] at hp
    obtain ⟨hlt, he⟩ := hp
    rw [← he]
    exact Array.getElem_mem_toList hlt
  unfold matchAt Gen.Pat.ContentComparer_keyRE
  simp only [m]
  split
  · split
    · simp [hne]
    · rfl
  · rfl

theorem keyRE_searchFrom_none (k : Array Nat) (h : 101 ∉ k.toList) :
    ∀ fuel pos, searchFrom k Gen.Pat.ContentComparer_keyRE fuel pos = none := by
  intro fuel
  induction fuel with
  | zero => intro pos; rfl
  | succ fuel ih =>
    intro pos
    unfold searchFrom
    split
    · rfl
    · rw [keyRE_matchAt_none k h pos]
      exact ih _

/-- `keyRE.search(junk.key)` is `None` -/
theorem isKeyStr_junkKey (i s e : Nat) : isKeyStr (junkKey i s e) = false := by
  unfold isKeyStr search
  rw [keyRE_searchFrom_none _ (by simpa using junkKey_no_e i s e)]
  rfl

end Hist

/-
C13 helper lemmas for the parser sessions (Paths/TomlSession.lean), and the generic memo table used to say which caches on a
parser object would be safe (`Memo`): a cache is transparent iff its key determines the result.
-/
import CLModel.Paths.TomlSession
import CLModel.Proofs.C13TomlExample
namespace C13S
open TS TC PF

/-! ### one `TOMLParser`, many `parse` calls -/

theorem parse_fst (p : TParser) (a : ParseArgs) : (p.parse a).1 = p := rfl

theorem parse_snd (p : TParser) (a : ParseArgs) : (p.parse a).2 = TC.parse a.w (ctxEnv a.env) a.ignore a.path := rfl

theorem session_get (p : TParser) : ∀ (as : List ParseArgs) (n : Nat),
    (p.session as)[n]? = (as[n]?).map fun a => TC.parse a.w (ctxEnv a.env) a.ignore a.path
  | [], n => by simp [TParser.session]
  | a :: as, 0 => by simp [TParser.session, parse_snd]
  | a :: as, n + 1 => by
    simp only [TParser.session, List.getElem?_cons_succ, parse_fst]
    exact session_get p as n

/-! ### the session machine -/

theorem step_parse_out (s : State) (a : ParseArgs) :
    (step s (.parse a)).2 = .parsed (TC.parse a.w (ctxEnv a.env) a.ignore a.path) := by
  simp only [step, parse_snd]
  split <;> simp_all

theorem step_parse_live_ok (s : State) (a : ParseArgs) (pc : PC)
    (h : TC.parse a.w (ctxEnv a.env) a.ignore a.path = .ok pc) : (step s (.parse a)).1.live = s.live ++ [pc] := by
  simp only [step, parse_snd, h]

theorem step_parse_live_err (s : State) (a : ParseArgs) (e : TC.Err)
    (h : TC.parse a.w (ctxEnv a.env) a.ignore a.path = .error e) : (step s (.parse a)).1.live = s.live := by
  simp only [step, parse_snd, h]

/-- (a `TParser` has no field: any two are equal) -/
theorem step_parser (s : State) (op : Op) : (step s op).1.parser = s.parser := rfl

theorem step_files_state (s : State) (is : List Nat) (loc : Option Loc) (mb : Option Text) (cwd : Text) (fs : FS)
    (looks : List Path) : (step s (.files is loc mb cwd fs looks)).1 = s := by
  simp only [step]; split <;> rfl

theorem step_files_out (s : State) (is : List Nat) (loc : Option Loc) (mb : Option Text) (cwd : Text) (fs : FS)
    (looks : List Path) (pcs : List PC) (h : is.mapM (fun i => s.live[i]?) = some pcs) :
    (step s (.files is loc mb cwd fs looks)).2 = .listed (listOf cwd pcs loc mb fs looks) := by
  simp only [step, h]

theorem run_nil (s : State) : run s [] = (s, []) := rfl

theorem run_cons (s : State) (op : Op) (ops : List Op) :
    run s (op :: ops) = ((run (step s op).1 ops).1, (step s op).2 :: (run (step s op).1 ops).2) := rfl

theorem stateAt_zero (s : State) (ops : List Op) : stateAt s ops 0 = s := by
  simp [stateAt, run_nil]

theorem stateAt_succ (s : State) (op : Op) (ops : List Op) (n : Nat) :
    stateAt s (op :: ops) (n + 1) = stateAt (step s op).1 ops n := by
  simp [stateAt, run_cons]

theorem run_length (s : State) (ops : List Op) : (run s ops).2.length = ops.length := by
  induction ops generalizing s with
  | nil => rfl
  | cons op ops ih => simp [run_cons, ih]

/-- the result of call number `n` is the result of that call in the state the earlier calls left -/
theorem run_get (s : State) (ops : List Op) (n : Nat) :
    (run s ops).2[n]? = (ops[n]?).map fun op => (step (stateAt s ops n) op).2 := by
  induction ops generalizing s n with
  | nil => simp [run_nil]
  | cons op ops ih =>
    cases n with
    | zero => simp [run_cons, stateAt_zero]
    | succ n => simp only [run_cons, List.getElem?_cons_succ, stateAt_succ]; exact ih _ n

theorem run_parser (s : State) (ops : List Op) : (run s ops).1.parser = s.parser := rfl

/-- a call that is not `live[i].set_locales(...)` leaves `live[i]` as it is -/
theorem step_live_stable (s : State) (op : Op) (i : Nat) (hi : i < s.live.length) (hop : ∀ ls, op ≠ .deep i ls) :
    (step s op).1.live[i]? = s.live[i]? ∧ i < (step s op).1.live.length := by
  cases op with
  | parse a =>
    simp only [step, parse_snd]
    split
    · simp only [List.length_append, List.length_cons, List.length_nil]
      exact ⟨List.getElem?_append_left hi, by omega⟩
    · exact ⟨rfl, hi⟩
  | deep j ls =>
    simp only [step]
    split
    · exact ⟨rfl, hi⟩
    · have hne : j ≠ i := fun h => hop ls (by rw [h])
      simp only [List.length_set]
      exact ⟨List.getElem?_set_ne hne, hi⟩
  | files is loc mb cwd fs looks =>
    rw [step_files_state]; exact ⟨rfl, hi⟩

theorem run_live_stable (s : State) (ops : List Op) (i : Nat) (hi : i < s.live.length)
    (hops : ∀ op ∈ ops, ∀ ls, op ≠ .deep i ls) : (run s ops).1.live[i]? = s.live[i]? := by
  induction ops generalizing s with
  | nil => rfl
  | cons op ops ih =>
    rw [run_cons]
    obtain ⟨h1, h2⟩ := step_live_stable s op i hi (hops op List.mem_cons_self)
    simp only
    rw [ih _ h2 (fun o ho => hops o (List.mem_cons_of_mem _ ho)), h1]

/-! ### `ProjectFiles` on held graphs = `TC.projectFiles` on freshly parsed ones -/

theorem projectFiles_eq_filesOf (w : World) (env : Env) (ig : Bool) (configs : List Text) (locale : Option Loc)
    (mb : Option Text) :
    TC.projectFiles w env ig configs locale mb =
      match parseAll w env ig configs with
      | .error (i, e) => .error (.parse i e)
      | .ok pcs => filesOf w.cwd pcs locale mb := by
  unfold TC.projectFiles filesOf
  cases parseAll w env ig configs with
  | error x => rfl
  | ok pcs => rfl

theorem listOf_items {cwd : Text} {pcs : List PC} {locale : Option Loc} {mb : Option Text} {fs : FS} {looks : List Path}
    {r : List Item × List (Option Item)} (h : listOf cwd pcs locale mb fs looks = .ok r) :
    ∃ o, filesOf cwd pcs locale mb = .ok o ∧ o.iterM fs = .ok r.1 := by
  unfold listOf at h
  split at h
  · cases h
  · rename_i o ho
    split at h
    · cases h
    · rename_i its hits
      split at h
      · cases h
      · simp only [Except.ok.injEq] at h
        subst h
        exact ⟨o, ho, hits⟩

/-! ### the `EnumerateApp` object -/

theorem eapp_fst (app : EApp) (w : TI.IniWorld) : (app.asConfig w).1 = app := rfl

theorem eapp_session_get (app : EApp) : ∀ (ws : List TI.IniWorld) (n : Nat),
    (app.session ws)[n]? = (ws[n]?).map fun w => TI.asConfigAbs w app.l10nbase app.config
  | [], n => by simp [EApp.session]
  | w :: ws, 0 => by simp [EApp.session, EApp.asConfig]
  | w :: ws, n + 1 => by
    simp only [EApp.session, List.getElem?_cons_succ, eapp_fst]
    exact eapp_session_get app ws n

theorem eapp_new_ok {w : TI.IniWorld} {fl : TI.Flavour} {inipath l10nbase : Text} {app : EApp}
    (h : EApp.new w fl inipath l10nbase = .ok app) :
    TI.load w fl inipath = .ok app.config ∧ app.l10nbase = abspath w.cwd l10nbase := by
  unfold EApp.new at h
  split at h
  · cases h
  · rename_i cfg hcfg
    simp only [Except.ok.injEq] at h
    subst h
    exact ⟨hcfg, rfl⟩

/-! ### a memo table in front of a function -/

/-- a function `f` with a cache keyed by `key` in front of it -/
structure Memo (A K R : Type) where
  key : A → K
  f : A → R

/-- the calls `as` in turn, starting with the cache `c`: a hit returns the stored result, a miss computes and stores -/
def Memo.run {A K R : Type} [DecidableEq K] (m : Memo A K R) : List (K × R) → List A → List R
  | _, [] => []
  | c, a :: as =>
    match c.lookup (m.key a) with
    | some r => r :: m.run c as
    | none => m.f a :: m.run ((m.key a, m.f a) :: c) as

/-- every stored result is the result of every call with that key -/
def Memo.Sound {A K R : Type} [DecidableEq K] (m : Memo A K R) (c : List (K × R)) : Prop :=
  ∀ a r, c.lookup (m.key a) = some r → r = m.f a

theorem memo_run_eq {A K R : Type} [DecidableEq K] (m : Memo A K R) (hk : ∀ a b, m.key a = m.key b → m.f a = m.f b) :
    ∀ (as : List A) (c : List (K × R)), m.Sound c → m.run c as = as.map m.f
  | [], _, _ => rfl
  | a :: as, c, hc => by
    simp only [Memo.run, List.map_cons]
    split
    · rename_i r hr
      rw [hc a r hr, memo_run_eq m hk as c hc]
    · rw [memo_run_eq m hk as _ ?_]
      intro b r hb
      rw [List.lookup_cons] at hb
      split at hb
      · rename_i heq
        simp only [Option.some.injEq] at hb
        rw [← hb]
        have hkb : m.key b = m.key a := by simpa using heq
        exact hk a b hkb.symm
      · rename_i hr _
        exact hc b r hb

theorem memo_second_call_stale {A K R : Type} [DecidableEq K] (m : Memo A K R) (a b : A) (hkey : m.key a = m.key b) :
    m.run [] [a, b] = [m.f a, m.f a] := by
  simp [Memo.run, List.lookup, hkey]

/-! ### the regression in miniature: the includes cache keyed by (path, NAMES of the command-line variables) -/

/-- the key the regressed `_processChild` used: normalised path and the sorted variable names, not their values -/
def namesKey (a : ParseArgs) : Text × List Text := (normpath a.path, sortedSet ((ctxEnv a.env).map (·.1)))

/-- `self.parse(p, env=ctx.env, …)` of an included file, behind that cache -/
def namesMemo : Memo ParseArgs (Text × List Text) (Except TC.Err PC) :=
  { key := namesKey, f := fun a => TC.parse a.w (ctxEnv a.env) a.ignore a.path }

/-- the included file of the example world parsed for the checkout `/l` … -/
def exCallA : ParseArgs := { w := C13T.exWorld, env := some [(T "l10n_base", T "/l")], ignore := false, path := T "/r/cfg/a.toml" }
/-- … and for the checkout `/other`: same variable names, another value -/
def exCallB : ParseArgs := { w := C13T.exWorld, env := some [(T "l10n_base", T "/other")], ignore := false, path := T "/r/cfg/a.toml" }

end C13S

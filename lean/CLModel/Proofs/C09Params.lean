/- `get_params`' bookkeeping (dict of first conversions, implicit counter, conflict list) equals the
   independent numbering model of C09Spec (`uses`, `firstFmt`, `conflictsOf`). -/
import CLModel.Proofs.C09Lex
namespace Android
open Android.Spec

def implicitCount (ts : List Tok) : Nat := (ts.filter (fun t => t.order.isNone)).length

def posOfTok (n : Nat) (t : Tok) : Nat :=
  match t.order with
  | some o => o
  | none => n

theorem uses_append (pre : List Tok) (t : Tok) :
    ∀ n, uses n (pre ++ [t]) = uses n pre ++ [(posOfTok (n + implicitCount pre) t, t)] := by
  induction pre with
  | nil =>
    intro n
    simp only [List.nil_append, uses, implicitCount, List.filter_nil, List.length_nil, Nat.add_zero, posOfTok]
    cases t.order <;> rfl
  | cons x xs ih =>
    intro n
    simp only [List.cons_append, uses]
    cases hx : x.order with
    | some o =>
      simp only [ih n, List.cons_append]
      have : implicitCount (x :: xs) = implicitCount xs := by simp [implicitCount, hx]
      rw [this]
    | none =>
      simp only [ih (n + 1), List.cons_append]
      have : implicitCount (x :: xs) = implicitCount xs + 1 := by simp [implicitCount, hx]
      rw [this]
      have e : n + 1 + implicitCount xs = n + (implicitCount xs + 1) := by omega
      rw [e]

theorem firstFmt_append (us : List (Nat × Tok)) (u : Nat × Tok) (p : Nat) :
    firstFmt (us ++ [u]) p =
      match firstFmt us p with
      | some f => some f
      | none => if u.1 == p then some u.2.fmt else none := by
  simp only [firstFmt, List.find?_append]
  cases h : us.find? (fun u => u.1 == p) with
  | some x => simp
  | none =>
    simp only [Option.none_or, List.find?_cons, List.find?_nil]
    cases hu : (u.1 == p) <;> simp

theorem dget_append {β : Type} (d : List (Nat × β)) (k : Nat) (v : β) (p : Nat) :
    dget (d ++ [(k, v)]) p =
      match dget d p with
      | some f => some f
      | none => if k == p then some v else none := by
  simp only [dget, List.find?_append]
  cases h : d.find? (fun x => x.1 == p) with
  | some x => simp
  | none =>
    simp only [Option.none_or, List.find?_cons, List.find?_nil]
    cases hu : (k == p) <;> simp

theorem firstFmt_of_mem {us : List (Nat × Tok)} {x : Nat × Tok} (h : x ∈ us) :
    ∃ f, firstFmt us x.1 = some f := by
  unfold firstFmt
  cases hf : us.find? (fun u => u.1 == x.1) with
  | some y => exact ⟨_, rfl⟩
  | none =>
    have := List.find?_eq_none.mp hf x h
    simp at this

theorem filterMap_congr' {α β : Type} {f g : α → Option β} :
    ∀ {l : List α}, (∀ x ∈ l, f x = g x) → l.filterMap f = l.filterMap g := by
  intro l
  induction l with
  | nil => intro _; rfl
  | cons a t ih =>
    intro h
    simp only [List.filterMap_cons, h a (by simp)]
    rw [ih (fun x hx => h x (by simp [hx]))]

def nextOfTok (n : Nat) (t : Tok) : Nat :=
  match t.order with
  | some _ => n
  | none => n + 1

theorem stepTok_eq (st : PState) (t : Tok) :
    stepTok st t =
      match dget st.params (posOfTok st.next t) with
      | none => { params := st.params ++ [(posOfTok st.next t, t.fmt)], errors := st.errors,
                  count := st.count + 1, next := nextOfTok st.next t }
      | some f =>
        if f == t.fmt then { st with count := st.count + 1, next := nextOfTok st.next t }
        else { st with errors := st.errors ++ [(.conflict (posOfTok st.next t) t.fmt f, t.pos)],
                       count := st.count + 1, next := nextOfTok st.next t } := by
  unfold stepTok posOfTok nextOfTok
  cases t.order <;> rfl

def confl (all : List (Nat × Tok)) (u : Nat × Tok) : Option (Msg × Nat) :=
  match firstFmt all u.1 with
  | some f => if f == u.2.fmt then none else some (Msg.conflict u.1 u.2.fmt f, u.2.pos)
  | none => none

theorem conflictsOf_eq (us : List (Nat × Tok)) : conflictsOf us = us.filterMap (confl us) := rfl

theorem conflictsOf_append (us : List (Nat × Tok)) (u : Nat × Tok) :
    conflictsOf (us ++ [u]) = conflictsOf us ++ (confl (us ++ [u]) u).toList := by
  rw [conflictsOf_eq, conflictsOf_eq, List.filterMap_append]
  congr 1
  apply filterMap_congr'
  · intro x hx
    obtain ⟨f, hf⟩ := firstFmt_of_mem hx
    simp only [confl, firstFmt_append, hf]

/-- invariant of the `for m in finditer` loop after the tokens `pre` -/
structure FoldInv (pre : List Tok) (st : PState) : Prop where
  next : st.next = 1 + implicitCount pre
  count : st.count = pre.length
  params : ∀ p, dget st.params p = firstFmt (uses 1 pre) p
  errors : st.errors = conflictsOf (uses 1 pre)

theorem foldInv_init : FoldInv [] PState.init :=
  ⟨rfl, rfl, fun _ => rfl, rfl⟩

theorem foldInv_step {pre : List Tok} {st : PState} (h : FoldInv pre st) (t : Tok) :
    FoldInv (pre ++ [t]) (stepTok st t) := by
  have hnext : nextOfTok st.next t = 1 + implicitCount (pre ++ [t]) := by
    simp only [nextOfTok, h.next, implicitCount, List.filter_append, List.length_append]
    cases ht : t.order <;> simp [ht] <;> omega
  have hu := uses_append pre t 1
  rw [stepTok_eq, h.next]
  generalize posOfTok (1 + implicitCount pre) t = p at hu
  rw [← h.next, hnext]
  have hold := h.params p
  cases hd : dget st.params p with
  | none =>
    rw [hd] at hold
    refine ⟨rfl, by simp [h.count], ?_, ?_⟩
    · intro q
      rw [hu, firstFmt_append, dget_append, h.params q]
      cases firstFmt (uses 1 pre) q <;> rfl
    · simp only [hu, conflictsOf_append, h.errors]
      have : confl (uses 1 pre ++ [(p, t)]) (p, t) = none := by
        simp only [confl, firstFmt_append, ← hold]
        simp
      rw [this]; simp
  | some f =>
    rw [hd] at hold
    have hff : firstFmt (uses 1 pre ++ [(p, t)]) p = some f := by
      simp only [firstFmt_append, ← hold]
    have hsame : ∀ q, firstFmt (uses 1 pre ++ [(p, t)]) q = firstFmt (uses 1 pre) q := by
      intro q
      simp only [firstFmt_append]
      cases hq : firstFmt (uses 1 pre) q with
      | some g => rfl
      | none =>
        by_cases hpq : p = q
        · subst hpq; rw [← hold] at hq; cases hq
        · simp [hpq]
    by_cases hfe : (f == t.fmt) = true
    · simp only [hfe, if_true]
      refine ⟨rfl, by simp [h.count], ?_, ?_⟩
      · intro q; simp only [hu, hsame, h.params q]
      · simp only [hu, conflictsOf_append, h.errors]
        have : confl (uses 1 pre ++ [(p, t)]) (p, t) = none := by
          simp only [confl, hff, hfe, if_true]
        rw [this]; simp
    · simp only [hfe, Bool.false_eq_true, if_false]
      refine ⟨rfl, by simp [h.count], ?_, ?_⟩
      · intro q; simp only [hu, hsame, h.params q]
      · simp only [hu, conflictsOf_append, h.errors]
        have : confl (uses 1 pre ++ [(p, t)]) (p, t) = some (Msg.conflict p t.fmt f, t.pos) := by
          simp only [confl, hff, hfe]; rfl
        rw [this]; rfl

theorem foldInv_foldl (suf : List Tok) : ∀ (pre : List Tok) (st : PState), FoldInv pre st →
    FoldInv (pre ++ suf) (suf.foldl stepTok st) := by
  induction suf with
  | nil => intro pre st h; simpa using h
  | cons t ts ih =>
    intro pre st h
    have := ih (pre ++ [t]) (stepTok st t) (foldInv_step h t)
    simpa using this

theorem fold_spec (ts : List Tok) : FoldInv ts (ts.foldl stepTok PState.init) := by
  simpa using foldInv_foldl ts [] PState.init foldInv_init

/-- keys of the params dict are distinct (it is a dict) -/
theorem stepTok_keys_nodup {st : PState} (h : (st.params.map (·.1)).Nodup) (t : Tok) :
    ((stepTok st t).params.map (·.1)).Nodup := by
  rw [stepTok_eq]
  generalize posOfTok st.next t = p
  cases hd : dget st.params p with
  | none =>
    simp only [List.map_append, List.map_cons, List.map_nil]
    rw [List.nodup_append]
    refine ⟨h, by simp, ?_⟩
    intro a ha b hb
    simp at hb; subst hb
    intro hab; subst hab
    obtain ⟨x, hx, hxa⟩ := List.mem_map.mp ha
    simp only [dget] at hd
    cases hf : st.params.find? (fun y => y.1 == x.1) with
    | some y => rw [← hxa, hf] at hd; cases hd
    | none =>
      have := List.find?_eq_none.mp hf x hx
      simp at this
  | some f =>
    simp only []
    split <;> exact h

theorem foldl_keys_nodup (ts : List Tok) : ∀ st : PState, (st.params.map (·.1)).Nodup →
    ((ts.foldl stepTok st).params.map (·.1)).Nodup := by
  induction ts with
  | nil => intro st h; exact h
  | cons t ts ih => intro st h; exact ih _ (stepTok_keys_nodup h t)

theorem dget_eq_some_iff {β : Type} {d : List (Nat × β)} (hn : (d.map (·.1)).Nodup) (p : Nat) (f : β) :
    dget d p = some f ↔ (p, f) ∈ d := by
  induction d with
  | nil => simp [dget]
  | cons x xs ih =>
    simp only [List.map_cons, List.nodup_cons] at hn
    simp only [dget, List.find?_cons]
    by_cases hx : x.1 = p
    · simp only [hx, beq_self_eq_true, List.mem_cons]
      constructor
      · intro h; left; cases x; simp at h hx; simp [h, hx]
      · rintro (h | h)
        · cases x; simp at h; simp [h.2]
        · exfalso; apply hn.1; rw [hx]; exact List.mem_map.mpr ⟨(p, f), h, rfl⟩
    · have : (x.1 == p) = false := by simp [hx]
      simp only [this, List.mem_cons]
      have ih' := ih hn.2
      simp only [dget] at ih'
      rw [ih']
      constructor
      · intro h; exact Or.inr h
      · rintro (h | h)
        · cases x; simp at h; exact absurd h.1.symm hx
        · exact h

/-- `get_params([string])` = the numbering model on the lexed arguments -/
theorem getParams_str (v : List Nat) :
    ∃ st, getParams [.str v] = some st ∧ FoldInv (lex v) st ∧ (st.params.map (·.1)).Nodup := by
  refine ⟨(lex v).foldl stepTok PState.init, ?_, fold_spec _, foldl_keys_nodup _ _ (by simp [PState.init])⟩
  simp [getParams, RefArg.text, lexParams_eq]

theorem getParams_node (n : Node) :
    ∃ st, getParams [.node n] = some st ∧ FoldInv (lex (textContent n)) st ∧ (st.params.map (·.1)).Nodup := by
  refine ⟨(lex (textContent n)).foldl stepTok PState.init, ?_, fold_spec _,
    foldl_keys_nodup _ _ (by simp [PState.init])⟩
  simp [getParams, RefArg.text, lexParams_eq]

end Android

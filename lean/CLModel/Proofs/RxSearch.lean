/- Completeness of `search` and soundness of `finditer` (generic engine lemmas). -/
import CLModel.Rx.Basic
import CLModel.Proofs.RxLemmas
namespace Rx

theorem searchFrom_complete (s : Array Nat) (r : Re) :
    ∀ fuel pos q st, matchAt s r q = some st → pos ≤ q → q ≤ s.size → q - pos < fuel →
      ∃ q' st', searchFrom s r fuel pos = some (q', st') ∧ q' ≤ q := by
  intro fuel
  induction fuel with
  | zero => intro pos q st _ _ _ h; omega
  | succ fuel ih =>
    intro pos q st hm hle hq hf
    simp only [searchFrom]
    have : ¬ pos > s.size := by omega
    simp only [this, if_false]
    cases hp : matchAt s r pos with
    | some st0 => exact ⟨pos, st0, rfl, hle⟩
    | none =>
      simp only []
      have hne : pos ≠ q := by intro h; subst h; rw [hm] at hp; cases hp
      exact ih (pos + 1) q st hm (by omega) hq (by omega)

/-- `search` finds a match whenever there is one at or after `pos` -/
theorem search_complete {s : Array Nat} {r : Re} {pos q : Nat} {st : St}
    (hm : matchAt s r q = some st) (hle : pos ≤ q) (hq : q ≤ s.size) :
    ∃ q' st', search s r pos = some (q', st') ∧ q' ≤ q :=
  searchFrom_complete s r _ pos q st hm hle hq (by omega)

/-- every reported match is a real match (possibly the non-empty variant) at its start position -/
theorem finditerAux_sound (s : Array Nat) (r : Re) :
    ∀ fuel pos adv, ∀ p ∈ finditerAux s r fuel pos adv,
      pos ≤ p.1 ∧ p.1 ≤ s.size ∧ (matchAt s r p.1 = some p.2 ∨ matchAtNE s r p.1 = some p.2) := by
  intro fuel
  induction fuel with
  | zero => intro pos adv p h; simp [finditerAux] at h
  | succ fuel ih =>
    intro pos adv p h
    simp only [finditerAux] at h
    split at h
    · simp at h
    · rename_i hle
      split at h
      · rename_i st hhere
        simp only [List.mem_cons] at h
        rcases h with h | h
        · subst h
          refine ⟨Nat.le_refl _, by omega, ?_⟩
          by_cases ha : adv = true
          · simp [ha] at hhere; exact Or.inr hhere
          · simp [ha] at hhere; exact Or.inl hhere
        · have := ih _ _ p h
          have hst : pos ≤ st.pos := by
            by_cases ha : adv = true
            · simp only [ha, if_true] at hhere
              unfold matchAtNE at hhere
              obtain ⟨st', h1, _, h3⟩ := m_good s r ⟨pos, []⟩ _ st hhere
              split at h3
              · cases h3
              · cases h3; simp at h1; omega
            · simp only [ha] at hhere
              have := (m_good s r ⟨pos, []⟩ some st hhere)
              obtain ⟨st', h1, _, h3⟩ := this
              cases h3; simp at h1; omega
          exact ⟨by omega, this.2⟩
      · rename_i hnone
        split at h
        · rename_i q st hs
          obtain ⟨h1, h2, h3, _⟩ := search_spec hs
          simp only [List.mem_cons] at h
          rcases h with h | h
          · subst h; exact ⟨by simp; omega, h2, Or.inl h3⟩
          · have := ih _ _ p h
            have hst : q ≤ st.pos := by
              obtain ⟨st', h1', _, h3'⟩ := m_good s r ⟨q, []⟩ some st h3
              cases h3'; simp at h1'; omega
            exact ⟨by omega, this.2⟩
        · simp at h

theorem finditer_sound (s : Array Nat) (r : Re) :
    ∀ p ∈ finditer s r, p.1 ≤ s.size ∧ (matchAt s r p.1 = some p.2 ∨ matchAtNE s r p.1 = some p.2) := by
  intro p h
  have := finditerAux_sound s r _ _ _ p h
  exact this.2

/-- if the pattern matches somewhere, `finditer` reports at least one match -/
theorem finditer_nonempty {s : Array Nat} {r : Re} {q : Nat} {st : St}
    (hm : matchAt s r q = some st) (hq : q ≤ s.size) : finditer s r ≠ [] := by
  unfold finditer
  simp only [finditerAux]
  simp only [show ¬ (0 > s.size) by omega, if_false]
  cases h0 : matchAt s r 0 with
  | some st0 => simp
  | none =>
    have hne : q ≠ 0 := by intro h; subst h; rw [hm] at h0; cases h0
    obtain ⟨q', st', hs, _⟩ := search_complete (pos := 0 + 1) hm (by omega) hq
    simp [hs]

end Rx

/- Completeness and uniqueness of the backtracking engine on "filled" wildcard patterns.
   A token list is a pattern of the restricted class together with the values put into its wildcards
   (literal text, group that runs like a literal text = fully bound variable, `*` group, `**/` group, final `**`).  If the filling is
   well separated (`Sep`), the engine, run on the concatenated text, ends at the end of the subject with
   exactly the captures of the filling (`run_toks`): the greedy star first takes the longest run, every
   longer candidate is refuted by the literal that follows, the intended one succeeds. -/
import CLModel.Proofs.C12Bound
import CLModel.Proofs.C11Sound
namespace C11R
open Rx PM

/-! ### greedy repetition of a one-character body -/

/-- `b` consumes exactly one character satisfying `P` -/
def OneChar (s : Array Nat) (b : Re) (P : Nat → Bool) : Prop :=
  ∀ (st : St) (k : K), m s b st k =
    match s[st.pos]? with
    | some c => if P c then k { st with pos := st.pos + 1 } else none
    | none => none

theorem oneChar_notLit (s : Array Nat) (c : Nat) : OneChar s (.notLit c) (fun d => d != c) := by
  intro st k; simp only [m]; rfl

theorem oneChar_any (s : Array Nat) : OneChar s (.any false) (fun d => d != 10) := by
  intro st k; simp only [m, Bool.false_or]; rfl

/-- length of the maximal run of `P`-characters starting at `pos` (bounded by fuel) -/
def runP (s : Array Nat) (P : Nat → Bool) : Nat → Nat → Nat
  | 0, _ => 0
  | f + 1, pos =>
    match s[pos]? with
    | some c => if P c then 1 + runP s P f (pos + 1) else 0
    | none => 0

theorem runP_le (s : Array Nat) (P : Nat → Bool) : ∀ f pos, runP s P f pos ≤ s.size - pos := by
  intro f
  induction f with
  | zero => intro pos; simp [runP]
  | succ f ih =>
    intro pos
    simp only [runP]
    rcases hc : s[pos]? with _ | c
    · simp
    · have hlt := getElem?_some_lt hc
      simp only []
      split
      · have := ih (pos + 1); omega
      · omega

theorem runP_all (s : Array Nat) (P : Nat → Bool) : ∀ f pos q, q < runP s P f pos →
    ∃ c, s[pos + q]? = some c ∧ P c = true := by
  intro f
  induction f with
  | zero => intro pos q h; simp [runP] at h
  | succ f ih =>
    intro pos q h
    simp only [runP] at h
    rcases hc : s[pos]? with _ | c
    · simp [hc] at h
    · simp only [hc] at h
      by_cases hp : P c = true
      · simp only [hp, if_true] at h
        cases q with
        | zero => exact ⟨c, by simpa using hc, hp⟩
        | succ q =>
          obtain ⟨d, hd, hpd⟩ := ih (pos + 1) q (by omega)
          exact ⟨d, by rw [← hd]; congr 1; omega, hpd⟩
      · simp [hp] at h

theorem runP_ge (s : Array Nat) (P : Nat → Bool) : ∀ f pos n, n ≤ f →
    (∀ q, q < n → ∃ c, s[pos + q]? = some c ∧ P c = true) → n ≤ runP s P f pos := by
  intro f
  induction f with
  | zero => intro pos n h _; omega
  | succ f ih =>
    intro pos n hn hall
    cases n with
    | zero => omega
    | succ n =>
      obtain ⟨c, hc, hp⟩ := hall 0 (by omega)
      simp only [Nat.add_zero] at hc
      simp only [runP, hc, hp, if_true]
      have := ih (pos + 1) n (by omega) (by
        intro q hq
        obtain ⟨d, hd, hpd⟩ := hall (q + 1) (by omega)
        exact ⟨d, by rw [← hd]; congr 1; omega, hpd⟩)
      omega

/-- Exact behaviour of a greedy star of a one-character body: the continuation is tried at the end of the
    maximal run, then at each shorter prefix, in that order (generalises `Rx.star_greedy_cls`). -/
theorem star_greedy_one (s : Array Nat) (b : Re) (P : Nat → Bool) (hb : OneChar s b P) (caps) (k : K) :
    ∀ fuel pos, runP s P fuel pos < fuel →
      loop (m s b) true fuel 0 none ⟨pos, caps⟩ k
        = firstSome (fun j => k ⟨j, caps⟩) (downFrom pos (runP s P fuel pos)) := by
  intro fuel
  induction fuel with
  | zero => intro pos h; simp at h
  | succ f ih =>
    intro pos h
    rw [loop]
    have hb' : ∀ (st : St) (k : K), m s b st k =
        match s[st.pos]? with
        | some c => if P c then k { st with pos := st.pos + 1 } else none
        | none => none := hb
    simp only [hb', runP] at h ⊢
    rcases hc : s[pos]? with _ | c
    · simp [downFrom, firstSome]
    · simp only []
      by_cases hin : P c = true
      · simp only [hc, hin, ite_true] at h ⊢
        have hlt : runP s P f (pos + 1) < f := by omega
        have := ih (pos + 1) hlt
        have e : (1 + runP s P f (pos + 1)) = runP s P f (pos + 1) + 1 := by omega
        rw [e, downFrom_succ, firstSome_append]
        simp only [show ¬ (pos + 1 ≤ pos) by omega, ite_false, Nat.lt_irrefl, gt_iff_lt,
          Nat.zero_sub, Option.map_none, show ((none : Option Nat) == some 0) = false from rfl,
          Bool.false_eq_true]
        rw [this]
        simp [firstSome]
      · simp [hin, downFrom, firstSome]

/-! ### `firstSome` over `downFrom` -/

theorem mem_downFrom {pos n j : Nat} : j ∈ downFrom pos n ↔ pos ≤ j ∧ j ≤ pos + n := by
  induction n with
  | zero => simp [downFrom]; omega
  | succ n ih => simp only [downFrom, List.mem_cons, ih]; omega

theorem firstSome_none (k : Nat → Option St) : ∀ (l : List Nat), (∀ j ∈ l, k j = none) → firstSome k l = none
  | [], _ => rfl
  | j :: js, h => by
    simp only [firstSome, h j (by simp)]
    simpa using firstSome_none k js (fun j' hj' => h j' (by simp [hj']))

/-- the first success among `pos+n, …, pos` is at `pos+a` if every later candidate fails -/
theorem firstSome_downFrom_hit (k : Nat → Option St) (pos a : Nat) {r : St} (hk : k (pos + a) = some r) :
    ∀ n, a ≤ n → (∀ j, pos + a < j → j ≤ pos + n → k j = none) → firstSome k (downFrom pos n) = some r := by
  intro n
  induction n with
  | zero =>
    intro ha _
    have : a = 0 := by omega
    subst this
    simp only [downFrom, firstSome]
    simp only [Nat.add_zero] at hk
    simp [hk]
  | succ n ih =>
    intro ha hl
    by_cases heq : a = n + 1
    · subst heq
      simp only [downFrom, firstSome]
      have : pos + n + 1 = pos + (n + 1) := by omega
      rw [this, hk]; rfl
    · simp only [downFrom, firstSome]
      rw [hl (pos + n + 1) (by omega) (by omega)]
      simpa using ih (by omega) (fun j h1 h2 => hl j h1 (by omega))

/-! ### literal characters: exact behaviour -/

theorem TextAt.cons {s : Array Nat} {p c : Nat} {t : Text} (hc : s[p]? = some c) (ht : TextAt s (p + 1) t) :
    TextAt s p (c :: t) := by
  intro j hj
  cases j with
  | zero => simpa using hc
  | succ j =>
    have := ht j (by simpa using hj)
    simp only [List.getElem?_cons_succ]
    rw [← this]; congr 1; omega

theorem m_lits_ok (s : Array Nat) : ∀ (t : Text) (r : List Re) (st : St) (k : K), TextAt s st.pos t →
    m s (seqOf (t.map Re.lit ++ r)) st k = m s (seqOf r) { st with pos := st.pos + t.length } k
  | [], r, st, k, _ => by simp
  | c :: t, r, st, k, h => by
    obtain ⟨hc, htl⟩ := h.tail
    simp only [List.map_cons, List.cons_append]
    rw [m_seqOf_cons]
    simp only [m, hc, beq_self_eq_true, if_true]
    rw [m_lits_ok s t r _ k htl]
    simp only [List.length_cons]
    congr 2; omega

theorem m_lits_fail (s : Array Nat) : ∀ (t : Text) (r : List Re) (st : St) (k : K), ¬ TextAt s st.pos t →
    m s (seqOf (t.map Re.lit ++ r)) st k = none
  | [], r, st, k, h => by exfalso; apply h; intro j hj; simp at hj
  | c :: t, r, st, k, h => by
    simp only [List.map_cons, List.cons_append]
    rw [m_seqOf_cons]
    simp only [m]
    split
    · rename_i hc
      have hc' : s[st.pos]? = some c := by simpa using hc
      exact m_lits_fail s t r _ k (fun ht => h (TextAt.cons hc' ht))
    · rfl

/-! ### the two wildcard groups -/

theorem m_star_group (s : Array Nat) (i : Nat) (b : Re) (P : Nat → Bool) (hb : OneChar s b P)
    (pos : Nat) (hpos : pos ≤ s.size) (caps : List (Nat × Nat × Nat)) (k : K) :
    m s (Re.group i (Re.rep 0 none true b)) ⟨pos, caps⟩ k =
      firstSome (fun j => k ⟨j, (i, pos, j) :: caps⟩) (downFrom pos (runP s P (s.size + 2 - pos) pos)) := by
  simp only [m]
  have hle := runP_le s P (s.size + 2 - pos) pos
  rw [star_greedy_one s b P hb caps _ _ pos (by omega)]

theorem m_plus (s : Array Nat) (b : Re) (P : Nat → Bool) (hb : OneChar s b P)
    (pos : Nat) (hpos : pos ≤ s.size) (caps : List (Nat × Nat × Nat)) (k : K) :
    m s (Re.rep 1 none true b) ⟨pos, caps⟩ k =
      match s[pos]? with
      | some c => if P c then firstSome (fun j => k ⟨j, caps⟩)
          (downFrom (pos + 1) (runP s P (s.size + 1 - pos) (pos + 1))) else none
      | none => none := by
  simp only [m]
  have e : s.size + 2 - pos = (s.size + 1 - pos) + 1 := by omega
  rw [e, loop]
  have hb' : ∀ (st : St) (k : K), m s b st k =
      match s[st.pos]? with
      | some c => if P c then k { st with pos := st.pos + 1 } else none
      | none => none := hb
  simp only [hb', show ((none : Option Nat) == some 0) = false from rfl, Bool.false_eq_true, if_false,
    show (1 : Nat) > 0 from Nat.one_pos, if_true]
  rcases hc : s[pos]? with _ | c
  · rfl
  · simp only []
    split
    · have hlt := getElem?_some_lt hc
      simp only [show ¬ (pos + 1 ≤ pos) by omega, if_false, Nat.sub_self, Option.map_none]
      have hle := runP_le s P (s.size + 1 - pos) (pos + 1)
      rw [star_greedy_one s b P hb caps _ _ (pos + 1) (by omega)]
    · rfl

/-- exact behaviour of the `(?P<i>.+/)?` item -/
theorem m_sstar_item (s : Array Nat) (i pos : Nat) (hpos : pos ≤ s.size) (caps : List (Nat × Nat × Nat)) (k : K) :
    m s (Re.alt (Re.group i (Re.seq (Re.rep 1 none true (Re.any false)) (Re.lit 47))) Re.eps) ⟨pos, caps⟩ k =
      (match s[pos]? with
        | some c => if (c != 10) = true then
            firstSome (fun j => if s[j]? == some 47 then k ⟨j + 1, (i, pos, j + 1) :: caps⟩ else none)
              (downFrom (pos + 1) (runP s (fun d => d != 10) (s.size + 1 - pos) (pos + 1)))
          else none
        | none => none).orElse (fun _ => k ⟨pos, caps⟩) := by
  have h1 : ∀ (a b : Re) (st : St) (k : K), m s (.alt a b) st k = (m s a st k).orElse (fun _ => m s b st k) := by
    intro a b st k; simp only [m]
  have h2 : ∀ (i : Nat) (r : Re) (st : St) (k : K), m s (.group i r) st k =
      m s r st (fun st' => k { st' with caps := (i, st.pos, st'.pos) :: st'.caps }) := by
    intro i r st k; simp only [m]
  have h3 : ∀ (a b : Re) (st : St) (k : K), m s (.seq a b) st k = m s a st (fun st' => m s b st' k) := by
    intro a b st k; simp only [m]
  rw [h1, h2, h3, m_plus s _ _ (oneChar_any s) pos hpos]
  simp only [m]

/-- exact behaviour of the `(?P<i>.+)?` item -/
theorem m_send_item (s : Array Nat) (i pos : Nat) (hpos : pos ≤ s.size) (caps : List (Nat × Nat × Nat)) (k : K) :
    m s (Re.alt (Re.group i (Re.rep 1 none true (Re.any false))) Re.eps) ⟨pos, caps⟩ k =
      (match s[pos]? with
        | some c => if (c != 10) = true then
            firstSome (fun j => k ⟨j, (i, pos, j) :: caps⟩)
              (downFrom (pos + 1) (runP s (fun d => d != 10) (s.size + 1 - pos) (pos + 1)))
          else none
        | none => none).orElse (fun _ => k ⟨pos, caps⟩) := by
  have h1 : ∀ (a b : Re) (st : St) (k : K), m s (.alt a b) st k = (m s a st k).orElse (fun _ => m s b st k) := by
    intro a b st k; simp only [m]
  have h2 : ∀ (i : Nat) (r : Re) (st : St) (k : K), m s (.group i r) st k =
      m s r st (fun st' => k { st' with caps := (i, st.pos, st'.pos) :: st'.caps }) := by
    intro i r st k; simp only [m]
  rw [h1, h2, m_plus s _ _ (oneChar_any s) pos hpos]
  simp only [m]

/-! ### filled patterns -/

/-- a pattern item together with the text put in its place: literal text, a group `i` around items `body` that
    behave like the literal text `t` and record the captures `F pos` (a bound variable, possibly with nested
    variables inside: `GlRun`), a `*` group with its value, a `**/` group with its value (`[]` = no directory),
    a `**` at the end of the pattern with its value (`[]` = nothing) -/
inductive Tok where
  | lit (t : Text)
  | gl (i : Nat) (body : List Re) (t : Text) (F : Nat → List (Nat × Nat × Nat))
  | star (i : Nat) (v : Text)
  | sstar (i : Nat) (w : Text)
  | send (i : Nat) (w : Text)

def Tok.items : Tok → List Re
  | .lit t => t.map Re.lit
  | .gl i body _ _ => [Re.group i (seqOf body)]
  | .star i _ => [Re.group i Gen.Pat.matcher_frag_star]
  | .sstar i _ => [Re.alt (Re.group i (seqOf (Gen.Pat.matcher_frag_starstar :: [47].map Re.lit))) Re.eps]
  | .send i _ => [Re.alt (Re.group i (seqOf (Gen.Pat.matcher_frag_starstar :: ([] : Text).map Re.lit))) Re.eps]

def Tok.text : Tok → Text
  | .lit t => t
  | .gl _ _ t _ => t
  | .star _ v => v
  | .sstar _ w => w
  | .send _ w => w

def toksText (ts : List Tok) : Text := ts.flatMap Tok.text
def toksItems (ts : List Tok) : List Re := ts.flatMap Tok.items

/-- the literal text a token list begins with (`[]` if it begins with a wildcard or is empty) -/
def headText : List Tok → Text
  | .lit t :: _ => t
  | .gl _ _ t _ :: _ => t
  | _ => []

/-- `L` (the literal after a star) does not occur again at a later position of the `/`-free run that `R`
    (everything after the star's value) begins with -/
def NoLaterHit (L R : Text) : Prop :=
  ∀ j, 0 < j → j ≤ (R.takeWhile (fun c => c != 47)).length → ¬ L <+: R.drop j

/-- value of a `**/`: nothing, or a non-empty text without newline followed by `/` -/
def DirsOK (w : Text) : Prop := w = [] ∨ ∃ w', w = w' ++ [47] ∧ w' ≠ [] ∧ 10 ∉ w'

/-- the items `body` run like the literal text `t`: where `t` is found they consume it and record exactly the
    captures `F pos` on top of the old ones, elsewhere they fail (for every subject and continuation) -/
def GlRun (body : List Re) (t : Text) (F : Nat → List (Nat × Nat × Nat)) : Prop :=
  ∀ (s : Array Nat) (st : St) (k : K),
    (TextAt s st.pos t → m s (seqOf body) st k = k ⟨st.pos + t.length, F st.pos ++ st.caps⟩) ∧
    (¬ TextAt s st.pos t → m s (seqOf body) st k = none)

/-- the captures recorded inside belong to groups of `body` -/
def GlIdx (body : List Re) (F : Nat → List (Nat × Nat × Nat)) : Prop :=
  ∀ p, ∀ e ∈ F p, e.1 ∈ body.flatMap gidx

/-- no double star among the tokens -/
def Plain (ts : List Tok) : Prop := ∀ tok ∈ ts, (∀ i w, tok ≠ Tok.sstar i w) ∧ (∀ i w, tok ≠ Tok.send i w)

/-- the filling is well separated (and the literal-like groups are what they claim to be) -/
def Sep : List Tok → Prop
  | [] => True
  | .lit _ :: r => Sep r
  | .gl _ body t F :: r => GlRun body t F ∧ GlIdx body F ∧ Sep r
  | .star _ v :: r => 47 ∉ v ∧ NoLaterHit (headText r) (toksText r) ∧ Sep r
  | .sstar _ w :: r => DirsOK w ∧ Plain r ∧ Sep r
  | .send _ w :: r => 10 ∉ w ∧ (∀ t ∈ r, t = Tok.lit []) ∧ Sep r

/-- the captures the engine has recorded after running through the tokens from `pos` (most recent first) -/
def capsAfter : Nat → List Tok → List (Nat × Nat × Nat) → List (Nat × Nat × Nat)
  | _, [], acc => acc
  | pos, .lit t :: r, acc => capsAfter (pos + t.length) r acc
  | pos, .gl i _ t F :: r, acc => capsAfter (pos + t.length) r ((i, pos, pos + t.length) :: (F pos ++ acc))
  | pos, .star i v :: r, acc => capsAfter (pos + v.length) r ((i, pos, pos + v.length) :: acc)
  | pos, .sstar i w :: r, acc =>
    capsAfter (pos + w.length) r (if w = [] then acc else (i, pos, pos + w.length) :: acc)
  | pos, .send i w :: r, acc =>
    capsAfter (pos + w.length) r (if w = [] then acc else (i, pos, pos + w.length) :: acc)

theorem toksText_cons (t : Tok) (r : List Tok) : toksText (t :: r) = t.text ++ toksText r := by
  simp [toksText]

theorem toksItems_cons (t : Tok) (r : List Tok) : toksItems (t :: r) = t.items ++ toksItems r := by
  simp [toksItems]

theorem textAt_get {s : Array Nat} {p : Nat} {t : Text} (h : TextAt s p t) {q : Nat} (hq : q < t.length) :
    s[p + q]? = some t[q] := by
  rw [h q hq]; exact List.getElem?_eq_getElem hq

/-- a token list that begins with a literal text fails where that text is not found -/
theorem toks_fail_head (s : Array Nat) (r : List Tok) (tl : List Re) (st : St) (k : K) (hsep : Sep r)
    (h : ¬ TextAt s st.pos (headText r)) : m s (seqOf (toksItems r ++ tl)) st k = none := by
  cases r with
  | nil => exfalso; apply h; intro j hj; simp [headText] at hj
  | cons t r =>
    cases t with
    | lit t =>
      rw [toksItems_cons, List.append_assoc]
      exact m_lits_fail s t _ st k h
    | gl i body t F =>
      rw [toksItems_cons, List.append_assoc]
      simp only [Tok.items, List.cons_append, List.nil_append]
      rw [m_seqOf_cons]
      simp only [m]
      exact (hsep.1 s st _).2 h
    | star i v => exfalso; apply h; intro j hj; simp [headText] at hj
    | sstar i w => exfalso; apply h; intro j hj; simp [headText] at hj
    | send i w => exfalso; apply h; intro j hj; simp [headText] at hj

theorem le_takeWhile_length (P : Nat → Bool) : ∀ (R : Text) (n : Nat),
    (∀ q, q < n → ∃ c, R[q]? = some c ∧ P c = true) → n ≤ (R.takeWhile P).length
  | _, 0, _ => Nat.zero_le _
  | [], n + 1, h => by
    obtain ⟨c, hc, _⟩ := h 0 (by omega)
    simp at hc
  | c :: R, n + 1, h => by
    obtain ⟨d, hd, hp⟩ := h 0 (by omega)
    simp only [List.getElem?_cons_zero, Option.some.injEq] at hd
    subst hd
    simp only [List.takeWhile_cons, hp, if_true, List.length_cons]
    have := le_takeWhile_length P R n (by
      intro q hq
      obtain ⟨e, he, hpe⟩ := h (q + 1) (by omega)
      exact ⟨e, by simpa using he, hpe⟩)
    omega

/-- if the subject from `p` on is exactly `R`, a text found at `j ≥ p` is a prefix of `R.drop (j - p)` -/
theorem prefix_drop_of_textAt {s : Array Nat} {p j : Nat} {R L : Text} (hR : TextAt s p R)
    (hend : p + R.length = s.size) (hpj : p ≤ j) (hL : TextAt s j L) : L <+: R.drop (j - p) := by
  rw [List.prefix_iff_getElem?]
  intro q hq
  have h1 := textAt_get hL hq
  have hlt := getElem?_some_lt h1
  have h2 := hR ((j - p) + q) (by omega)
  rw [List.getElem?_drop, ← h2, ← h1]
  congr 1; omega

/-! ### counting separators: a double-star-free token list matches only texts with its own number of `/` -/

/-- number of `/` in the subject from position `p` on -/
def sl (s : Array Nat) (p : Nat) : Nat := (s.toList.drop p).count 47

theorem sl_step {s : Array Nat} {p c : Nat} (h : s[p]? = some c) :
    sl s p = (if c = 47 then 1 else 0) + sl s (p + 1) := by
  have hlt : p < s.toList.length := by simpa using getElem?_some_lt h
  have hc : s.toList[p] = c := by
    have : s.toList[p]? = some c := by simpa using h
    rw [List.getElem?_eq_getElem hlt] at this
    simpa using this
  unfold sl
  rw [List.drop_eq_getElem_cons hlt, hc, List.count_cons]
  by_cases h47 : c = 47
  · subst h47; simp; omega
  · simp [h47]

theorem sl_mono (s : Array Nat) {p q : Nat} (h : p ≤ q) : sl s q ≤ sl s p :=
  List.Sublist.count_le 47 (List.drop_sublist_drop_left s.toList h)

theorem sl_textAt {s : Array Nat} : ∀ {t : Text} {p : Nat}, TextAt s p t → sl s p = t.count 47 + sl s (p + t.length)
  | [], p, _ => by simp
  | c :: t, p, h => by
    obtain ⟨hc, htl⟩ := h.tail
    rw [sl_step hc, sl_textAt htl, List.count_cons, List.length_cons]
    have e : p + 1 + t.length = p + (t.length + 1) := by omega
    rw [e]
    by_cases h47 : c = 47
    · subst h47; simp; omega
    · simp [h47]

theorem sl_run {s : Array Nat} : ∀ (n p : Nat), (∀ q, q < n → ∃ c, s[p + q]? = some c ∧ (c != 47) = true) →
    sl s p = sl s (p + n)
  | 0, p, _ => rfl
  | n + 1, p, h => by
    obtain ⟨c, hc, hne⟩ := h 0 (by omega)
    simp only [Nat.add_zero] at hc
    have hne' : c ≠ 47 := by simpa using hne
    rw [sl_step hc, if_neg hne', Nat.zero_add, sl_run n (p + 1) (by
      intro q hq
      obtain ⟨d, hd, hdn⟩ := h (q + 1) (by omega)
      exact ⟨d, by rw [← hd]; congr 1; omega, hdn⟩)]
    congr 1; omega

theorem sl_end (s : Array Nat) : sl s s.size = 0 := by
  unfold sl
  rw [List.drop_eq_nil_of_le (by simp)]
  rfl

theorem sl_lt_of_slash {s : Array Nat} {p j : Nat} (hpj : p ≤ j) (hj : s[j]? = some 47) : sl s (j + 1) < sl s p := by
  have h1 := sl_step hj
  have h2 := sl_mono s hpj
  simp at h1
  omega

/-- a double-star-free token list fails wherever the rest of the subject does not have its number of `/` -/
theorem run_toks_slash_fail (s : Array Nat) : ∀ (r : List Tok) (st : St) (k : K), Plain r → Sep r → st.pos ≤ s.size →
    sl s st.pos ≠ (toksText r).count 47 → m s (seqOf (toksItems r ++ [Re.eos])) st k = none
  | [], st, k, _, _, hpos, hne => by
    simp only [toksItems, List.flatMap_nil, List.nil_append, seqOf, m]
    split
    · rename_i he
      have he' : st.pos = s.size := by simpa using he
      rw [he', sl_end] at hne
      exact absurd rfl hne
    · rfl
  | .lit t :: r, st, k, hpl, hsep, hpos, hne => by
    rw [toksItems_cons, List.append_assoc]
    simp only [Tok.items]
    by_cases ht : TextAt s st.pos t
    · rw [m_lits_ok s t _ st k ht]
      have hlen : st.pos + t.length ≤ s.size := by
        by_cases h0 : t.length = 0
        · omega
        · have := getElem?_some_lt (textAt_get ht (q := t.length - 1) (by omega))
          omega
      refine run_toks_slash_fail s r _ k (fun tok h => hpl tok (List.mem_cons_of_mem _ h)) hsep hlen ?_
      intro hc
      apply hne
      rw [toksText_cons, List.count_append, sl_textAt ht]
      simp only [Tok.text] at hc ⊢
      omega
    · exact m_lits_fail s t _ st k ht
  | .gl i body t F :: r, st, k, hpl, hsep, hpos, hne => by
    rw [toksItems_cons, List.append_assoc]
    simp only [Tok.items, List.cons_append, List.nil_append]
    rw [m_seqOf_cons]
    simp only [m]
    by_cases ht : TextAt s st.pos t
    · rw [(hsep.1 s st _).1 ht]
      have hlen : st.pos + t.length ≤ s.size := by
        by_cases h0 : t.length = 0
        · omega
        · have := getElem?_some_lt (textAt_get ht (q := t.length - 1) (by omega))
          omega
      refine run_toks_slash_fail s r _ k (fun tok h => hpl tok (List.mem_cons_of_mem _ h)) hsep.2.2 hlen ?_
      intro hc
      apply hne
      rw [toksText_cons, List.count_append, sl_textAt ht]
      simp only [Tok.text] at hc ⊢
      omega
    · exact (hsep.1 s st _).2 ht
  | .star i v :: r, ⟨pos, caps⟩, k, hpl, hsep, hpos, hne => by
    have hpos : pos ≤ s.size := hpos
    have hne : sl s pos ≠ (toksText (Tok.star i v :: r)).count 47 := hne
    rw [toksItems_cons, List.append_assoc]
    simp only [Tok.items, List.cons_append, List.nil_append, Gen.Pat.matcher_frag_star]
    rw [m_seqOf_cons, m_star_group s i _ _ (oneChar_notLit s 47) pos hpos]
    apply firstSome_none
    intro j hj
    obtain ⟨hj1, hj2⟩ := mem_downFrom.mp hj
    have hle := runP_le s (fun d => d != 47) (s.size + 2 - pos) pos
    have hrun : sl s pos = sl s (pos + (j - pos)) := sl_run (j - pos) pos (by
      intro q hq
      exact runP_all s (fun d => d != 47) (s.size + 2 - pos) pos q (by omega))
    have e : pos + (j - pos) = j := by omega
    rw [e] at hrun
    refine run_toks_slash_fail s r ⟨j, (i, pos, j) :: caps⟩ k (fun tok h => hpl tok (List.mem_cons_of_mem _ h)) hsep.2.2
      (by simp only; omega) ?_
    intro hc
    apply hne
    have hv : v.count 47 = 0 := List.count_eq_zero.mpr hsep.1
    rw [toksText_cons, List.count_append]
    simp only [Tok.text, hv, Nat.zero_add] at hc ⊢
    omega
  | .sstar i w :: r, st, k, hpl, _, _, _ => absurd rfl ((hpl _ (by simp)).1 i w)
  | .send i w :: r, st, k, hpl, _, _, _ => absurd rfl ((hpl _ (by simp)).2 i w)

/-- for a double-star-free, well separated token list the text it stands for has its own number of `/` -/
theorem sl_of_text {s : Array Nat} {p : Nat} {r : List Tok} (h : TextAt s p (toksText r))
    (hend : p + (toksText r).length = s.size) : sl s p = (toksText r).count 47 := by
  rw [sl_textAt h, hend, sl_end]; omega

theorem toks_all_empty : ∀ (r : List Tok), (∀ t ∈ r, t = Tok.lit []) → toksText r = [] ∧ toksItems r = []
  | [], _ => ⟨rfl, rfl⟩
  | t :: r, h => by
    obtain ⟨h1, h2⟩ := toks_all_empty r (fun t ht => h t (by simp [ht]))
    rw [toksText_cons, toksItems_cons, h1, h2, h t (by simp)]
    exact ⟨rfl, rfl⟩

/-- **Completeness and uniqueness of the engine on a well separated filling**: started at the position where
    the text of the tokens begins (and which ends the subject), the engine succeeds, at the end of the
    subject, with exactly the captures of the filling. -/
theorem run_toks (s : Array Nat) : ∀ (ts : List Tok) (st : St), Sep ts → TextAt s st.pos (toksText ts) →
    st.pos + (toksText ts).length = s.size →
    m s (seqOf (toksItems ts ++ [Re.eos])) st some = some ⟨s.size, capsAfter st.pos ts st.caps⟩
  | [], st, _, _, hend => by
    simp only [toksText, List.flatMap_nil, List.length_nil, Nat.add_zero] at hend
    simp only [toksItems, List.flatMap_nil, List.nil_append, seqOf, m, hend, beq_self_eq_true, if_true,
      capsAfter]
    cases st; simp only at hend; subst hend; rfl
  | .lit t :: r, st, hsep, htext, hend => by
    rw [toksText_cons] at htext hend
    obtain ⟨h1, h2⟩ := htext.split
    rw [toksItems_cons, List.append_assoc]
    simp only [Tok.items, Tok.text] at h1 h2 hend ⊢
    rw [m_lits_ok s t _ st some h1]
    have := run_toks s r { st with pos := st.pos + t.length } hsep h2
      (by simp only [List.length_append] at hend; simp only; omega)
    rw [this]; rfl
  | .gl i body t F :: r, st, hsep, htext, hend => by
    obtain ⟨hrun, _, hsep'⟩ := hsep
    rw [toksText_cons] at htext hend
    obtain ⟨h1, h2⟩ := htext.split
    rw [toksItems_cons, List.append_assoc]
    simp only [Tok.items, Tok.text, List.cons_append, List.nil_append] at h1 h2 hend ⊢
    rw [m_seqOf_cons]
    simp only [m]
    rw [(hrun s st _).1 h1]
    have := run_toks s r ⟨st.pos + t.length, (i, st.pos, st.pos + t.length) :: (F st.pos ++ st.caps)⟩ hsep' h2
      (by simp only [List.length_append] at hend; simp only; omega)
    rw [this]; rfl
  | .star i v :: r, ⟨pos, caps⟩, hsep, htext, hend => by
    obtain ⟨hv, hno, hsep'⟩ := hsep
    rw [toksText_cons] at htext hend
    obtain ⟨h1, h2⟩ := htext.split
    simp only [Tok.text, List.length_append] at h1 h2 hend
    rw [toksItems_cons, List.append_assoc]
    simp only [Tok.items, List.cons_append, List.nil_append, Gen.Pat.matcher_frag_star]
    rw [m_seqOf_cons, m_star_group s i _ _ (oneChar_notLit s 47) pos (by omega)]
    have ih := run_toks s r ⟨pos + v.length, (i, pos, pos + v.length) :: caps⟩ hsep' h2 (by simp only; omega)
    apply firstSome_downFrom_hit _ pos v.length (r := ⟨s.size, capsAfter pos (.star i v :: r) caps⟩)
    · simpa [capsAfter] using ih
    · apply runP_ge
      · omega
      · intro q hq
        refine ⟨v[q], textAt_get h1 hq, ?_⟩
        have : v[q] ∈ v := List.getElem_mem hq
        simp only [bne_iff_ne, ne_eq]
        intro he; rw [he] at this; exact hv this
    · intro j hj1 hj2
      apply toks_fail_head _ _ _ _ _ hsep'
      intro hL
      have hL' : TextAt s j (headText r) := hL
      have hpre := prefix_drop_of_textAt h2 (by omega) (by omega) hL'
      refine hno (j - (pos + v.length)) (by omega) ?_ hpre
      apply le_takeWhile_length
      intro q hq
      obtain ⟨c, hc, hpc⟩ := runP_all s (fun d => d != 47) (s.size + 2 - pos) pos (v.length + q) (by omega)
      have hlt := getElem?_some_lt hc
      have h3 := h2 q (by omega)
      refine ⟨c, ?_, hpc⟩
      rw [← h3, ← hc]; congr 1; omega
  | .sstar i w :: r, ⟨pos, caps⟩, hsep, htext, hend => by
    obtain ⟨hw, hno, hsep'⟩ := hsep
    rw [toksText_cons] at htext hend
    obtain ⟨h1, h2⟩ := htext.split
    simp only [Tok.text, List.length_append] at h1 h2 hend
    -- from the end of the value on, the rest of the pattern fails after every further '/'
    have hcnt : sl s (pos + w.length) = (toksText r).count 47 := sl_of_text h2 (by omega)
    rw [toksItems_cons, List.append_assoc]
    simp only [Tok.items, List.cons_append, List.nil_append, List.map_cons, List.map_nil, seqOf,
      Gen.Pat.matcher_frag_starstar]
    rw [m_seqOf_cons, m_sstar_item s i pos (by omega)]
    have hG : ∀ j, pos + w.length ≤ j →
        (fun j => if s[j]? == some 47 then
          m s (seqOf (toksItems r ++ [Re.eos])) ⟨j + 1, (i, pos, j + 1) :: caps⟩ some else none) j = none := by
      intro j hj
      simp only
      by_cases hc : s[j]? = some 47
      · rw [if_pos (by simpa using hc)]
        have hlt := getElem?_some_lt hc
        have := sl_lt_of_slash hj hc
        exact run_toks_slash_fail s r _ some hno hsep' (by simp only; omega) (by simp only; omega)
      · rw [if_neg (by simpa using hc)]
    rcases hw with rfl | ⟨w', rfl, hne, hnl⟩
    · -- no directory: the group alternative fails everywhere, the empty alternative goes on
      simp only [List.length_nil, Nat.add_zero] at h2 hend hG
      have ih := run_toks s r ⟨pos, caps⟩ hsep' h2 (by simp only; omega)
      have hfirst : (match s[pos]? with
          | some c => if (c != 10) = true then
              firstSome (fun j => if s[j]? == some 47 then
                m s (seqOf (toksItems r ++ [Re.eos])) ⟨j + 1, (i, pos, j + 1) :: caps⟩ some else none)
                (downFrom (pos + 1) (runP s (fun d => d != 10) (s.size + 1 - pos) (pos + 1)))
            else none
          | none => none) = none := by
        split
        · split
          · apply firstSome_none
            intro j hj
            exact hG j (by have := (mem_downFrom.mp hj).1; omega)
          · rfl
        · rfl
      rw [hfirst]
      simpa [capsAfter] using ih
    · -- directories `w' ++ "/"`
      obtain ⟨c0, w'', rfl⟩ : ∃ c0 w'', w' = c0 :: w'' := by
        cases w' with
        | nil => exact absurd rfl hne
        | cons c0 w'' => exact ⟨c0, w'', rfl⟩
      simp only [List.length_append, List.length_cons, List.length_nil] at h2 hend hG
      have hc0 : s[pos]? = some c0 := by
        have := textAt_get h1 (q := 0) (by simp)
        simpa using this
      have hc0n : (c0 != 10) = true := by
        simp only [bne_iff_ne, ne_eq]
        intro he; apply hnl; simp [he]
      simp only [hc0, hc0n, if_true]
      have ih := run_toks s r ⟨pos + (w''.length + 1 + 1), (i, pos, pos + (w''.length + 1 + 1)) :: caps⟩ hsep' h2
        (by simp only; omega)
      have hslash : s[pos + 1 + w''.length]? = some 47 := by
        have := textAt_get h1 (q := w''.length + 1) (by simp)
        rw [show pos + 1 + w''.length = pos + (w''.length + 1) by omega, this]
        simp
      have hhit := firstSome_downFrom_hit
        (fun j => if s[j]? == some 47 then
          m s (seqOf (toksItems r ++ [Re.eos])) ⟨j + 1, (i, pos, j + 1) :: caps⟩ some else none) (pos + 1) w''.length
        (r := ⟨s.size, capsAfter pos (.sstar i (c0 :: w'' ++ [47]) :: r) caps⟩)
        (by
          simp only [hslash, beq_self_eq_true, if_true]
          have e : pos + 1 + w''.length + 1 = pos + (w''.length + 1 + 1) := by omega
          rw [e, ih]
          simp [capsAfter])
        (runP s (fun d => d != 10) (s.size + 1 - pos) (pos + 1))
        (by
          apply runP_ge
          · omega
          · intro q hq
            have hq' : q + 1 < (c0 :: w'' ++ [47]).length := by simp; omega
            have hg := textAt_get h1 hq'
            refine ⟨(c0 :: w'' ++ [47])[q + 1], by rw [← hg]; congr 1; omega, ?_⟩
            have : (c0 :: w'' ++ [47])[q + 1] = w''[q] := by
              simp only [List.cons_append, List.getElem_cons_succ]
              exact List.getElem_append_left hq
            rw [this]
            simp only [bne_iff_ne, ne_eq]
            intro he; apply hnl
            have : w''[q] ∈ w'' := List.getElem_mem hq
            rw [he] at this; simp [this])
        (by
          intro j hj1 _
          exact hG j (by omega))
      rw [hhit]; rfl

  | .send i w :: r, ⟨pos, caps⟩, hsep, htext, hend => by
    obtain ⟨hnl, hr, hsep'⟩ := hsep
    obtain ⟨hrt, hri⟩ := toks_all_empty r hr
    rw [toksText_cons] at htext hend
    obtain ⟨h1, h2⟩ := htext.split
    simp only [Tok.text, List.length_append, hrt, List.length_nil, Nat.add_zero] at h1 h2 hend
    rw [toksItems_cons, List.append_assoc]
    simp only [Tok.items, List.cons_append, List.nil_append, List.map_nil, seqOf, Gen.Pat.matcher_frag_starstar]
    rw [m_seqOf_cons, m_send_item s i pos (by omega)]
    cases w with
    | nil =>
      simp only [List.length_nil, Nat.add_zero] at h2 hend
      have ih := run_toks s r ⟨pos, caps⟩ hsep' (by rw [hrt]; exact h2) (by rw [hrt]; simpa using hend)
      have hnone : s[pos]? = none := by
        rw [hend]; simp
      simp only [hnone]
      simpa [capsAfter] using ih
    | cons c0 w'' =>
      simp only [List.length_cons] at h2 hend
      have ih := run_toks s r ⟨pos + (w''.length + 1), (i, pos, pos + (w''.length + 1)) :: caps⟩ hsep'
        (by rw [hrt]; exact h2) (by rw [hrt]; simpa using hend)
      have hc0 : s[pos]? = some c0 := by
        have := textAt_get h1 (q := 0) (by simp)
        simpa using this
      have hc0n : (c0 != 10) = true := by
        simp only [bne_iff_ne, ne_eq]
        intro he; apply hnl; simp [he]
      simp only [hc0, hc0n, if_true]
      have hle := runP_le s (fun d => d != 10) (s.size + 1 - pos) (pos + 1)
      have hhit := firstSome_downFrom_hit
        (fun j => m s (seqOf (toksItems r ++ [Re.eos])) ⟨j, (i, pos, j) :: caps⟩ some) (pos + 1) w''.length
        (r := ⟨s.size, capsAfter pos (.send i (c0 :: w'') :: r) caps⟩)
        (by
          have e : pos + 1 + w''.length = pos + (w''.length + 1) := by omega
          simp only [e, ih]
          simp [capsAfter])
        (runP s (fun d => d != 10) (s.size + 1 - pos) (pos + 1))
        (by
          apply runP_ge
          · omega
          · intro q hq
            have hq' : q + 1 < (c0 :: w'').length := by simp; omega
            have hg := textAt_get h1 hq'
            refine ⟨(c0 :: w'')[q + 1], by rw [← hg]; congr 1; omega, ?_⟩
            simp only [List.getElem_cons_succ, bne_iff_ne, ne_eq]
            intro he; apply hnl
            have : w''[q] ∈ w'' := List.getElem_mem hq
            rw [he] at this; simp [this])
        (by intro j hj1 hj2; omega)
      rw [hhit]; rfl

/-! ### what the groups report afterwards -/

/-- index of the token's own group -/
def Tok.idx : Tok → List Nat
  | .lit _ => []
  | .gl i _ _ _ => [i]
  | .star i _ => [i]
  | .sstar i _ => [i]
  | .send i _ => [i]

/-- indices of the groups nested inside the token's group -/
def Tok.inner : Tok → List Nat
  | .gl _ body _ _ => body.flatMap gidx
  | _ => []

def Tok.all (t : Tok) : List Nat := t.idx ++ t.inner

/-- what `match.group(i)` is for the token's group (`None` for a `**` that took nothing) -/
def Tok.val : Tok → Option Text
  | .lit _ => none
  | .gl _ _ t _ => some t
  | .star _ v => some v
  | .sstar _ w => if w = [] then none else some w
  | .send _ w => if w = [] then none else some w

def toksIdx (ts : List Tok) : List Nat := ts.flatMap Tok.idx
def toksAll (ts : List Tok) : List Nat := ts.flatMap Tok.all

theorem toksIdx_cons (t : Tok) (r : List Tok) : toksIdx (t :: r) = t.idx ++ toksIdx r := by
  simp [toksIdx]

theorem toksAll_cons (t : Tok) (r : List Tok) : toksAll (t :: r) = t.all ++ toksAll r := by
  simp [toksAll]

theorem toksIdx_sub_all {ts : List Tok} {i : Nat} (h : i ∈ toksIdx ts) : i ∈ toksAll ts := by
  obtain ⟨t, ht, hi⟩ := List.mem_flatMap.mp h
  exact List.mem_flatMap.mpr ⟨t, ht, List.mem_append.mpr (Or.inl hi)⟩

theorem capOf_cons_ne {j i a b : Nat} {acc : List (Nat × Nat × Nat)} (h : j ≠ i) :
    capOf ((j, a, b) :: acc) i = capOf acc i := by
  unfold capOf
  rw [List.find?_cons_of_neg (by simpa using h)]

theorem capOf_cons_self {i a b : Nat} {acc : List (Nat × Nat × Nat)} :
    capOf ((i, a, b) :: acc) i = some (a, b) := by
  simp [capOf]

/-- what a token pushes on the capture list does not concern an index it does not contain -/
theorem capOf_push_frame {i : Nat} {hd : Tok} (hi : i ∉ hd.all) :
    (∀ {j a b body t F acc}, hd = Tok.gl j body t F → GlIdx body F → ∀ p,
      capOf ((j, a, b) :: (F p ++ acc)) i = capOf acc i) ∧
    (∀ {j a b acc}, j ∈ hd.idx → capOf ((j, a, b) :: acc) i = capOf acc i) := by
  refine ⟨?_, ?_⟩
  · intro j a b body t F acc he hidx p
    subst he
    simp only [Tok.all, Tok.idx, Tok.inner, List.cons_append, List.nil_append, List.mem_cons, not_or] at hi
    rw [capOf_cons_ne (Ne.symm hi.1)]
    exact capOf_append_of_not_mem (fun e he hc => hi.2 (hc ▸ hidx p e he))
  · intro j a b acc hj
    have : j ≠ i := fun hc => hi (List.mem_append.mpr (Or.inl (hc ▸ hj)))
    exact capOf_cons_ne this

theorem capOf_capsAfter_frame {i : Nat} : ∀ (r : List Tok) (pos : Nat) (acc : List (Nat × Nat × Nat)),
    Sep r → i ∉ toksAll r → capOf (capsAfter pos r acc) i = capOf acc i
  | [], _, _, _, _ => rfl
  | .lit t :: r, pos, acc, hs, h => by
    rw [toksAll_cons] at h
    simp only [capsAfter]
    exact capOf_capsAfter_frame r _ _ hs (fun hc => h (List.mem_append.mpr (Or.inr hc)))
  | .gl j body t F :: r, pos, acc, hs, h => by
    rw [toksAll_cons] at h
    have h1 : i ∉ (Tok.gl j body t F).all := fun hc => h (List.mem_append.mpr (Or.inl hc))
    simp only [capsAfter]
    rw [capOf_capsAfter_frame r _ _ hs.2.2 (fun hc => h (List.mem_append.mpr (Or.inr hc)))]
    exact (capOf_push_frame h1).1 rfl hs.2.1 pos
  | .star j v :: r, pos, acc, hs, h => by
    rw [toksAll_cons] at h
    have h1 : i ∉ (Tok.star j v).all := fun hc => h (List.mem_append.mpr (Or.inl hc))
    simp only [capsAfter]
    rw [capOf_capsAfter_frame r _ _ hs.2.2 (fun hc => h (List.mem_append.mpr (Or.inr hc)))]
    exact (capOf_push_frame h1).2 (by simp [Tok.idx])
  | .sstar j w :: r, pos, acc, hs, h => by
    rw [toksAll_cons] at h
    have h1 : i ∉ (Tok.sstar j w).all := fun hc => h (List.mem_append.mpr (Or.inl hc))
    simp only [capsAfter]
    rw [capOf_capsAfter_frame r _ _ hs.2.2 (fun hc => h (List.mem_append.mpr (Or.inr hc)))]
    split
    · rfl
    · exact (capOf_push_frame h1).2 (by simp [Tok.idx])
  | .send j w :: r, pos, acc, hs, h => by
    rw [toksAll_cons] at h
    have h1 : i ∉ (Tok.send j w).all := fun hc => h (List.mem_append.mpr (Or.inl hc))
    simp only [capsAfter]
    rw [capOf_capsAfter_frame r _ _ hs.2.2 (fun hc => h (List.mem_append.mpr (Or.inr hc)))]
    split
    · rfl
    · exact (capOf_push_frame h1).2 (by simp [Tok.idx])

theorem groupText_of_cap {s : Array Nat} {p : Nat} {C : List (Nat × Nat × Nat)} {i a : Nat} {t : Text}
    (hc : capOf C i = some (a, a + t.length)) (ht : TextAt s a t) : groupText s ⟨p, C⟩ i = some t := by
  simp only [groupText, St.group, hc, slice_textAt ht]

/-- after the run every (outer) group reports the value of its token (all group indices distinct) -/
theorem groupText_capsAfter (s : Array Nat) (p : Nat) : ∀ (ts : List Tok) (pos : Nat) (acc : List (Nat × Nat × Nat)),
    Sep ts → TextAt s pos (toksText ts) → (∀ i, (toksAll ts).count i ≤ 1) → (∀ i ∈ toksIdx ts, capOf acc i = none) →
    ∀ tok ∈ ts, ∀ i ∈ tok.idx, groupText s ⟨p, capsAfter pos ts acc⟩ i = tok.val
  | [], _, _, _, _, _, _, tok, hm, _, _ => by cases hm
  | hd :: r, pos, acc, hsep, htext, hcount, hnone, tok, hm, i, hi => by
    rw [toksText_cons] at htext
    obtain ⟨h1, h2⟩ := htext.split
    rw [toksAll_cons] at hcount
    rw [toksIdx_cons] at hnone
    have hcr : ∀ i, (toksAll r).count i ≤ 1 := fun i => by
      have := hcount i; rw [List.count_append] at this; omega
    have hdisj : ∀ j ∈ hd.all, j ∉ toksAll r := by
      intro j hj hjr
      have := hcount j
      rw [List.count_append] at this
      have a1 := List.count_pos_iff.mpr hj
      have a2 := List.count_pos_iff.mpr hjr
      omega
    have hsr : Sep r := by
      cases hd with
      | lit t => exact hsep
      | gl j body t F => exact hsep.2.2
      | star j v => exact hsep.2.2
      | sstar j w => exact hsep.2.2
      | send j w => exact hsep.2.2
    have hown : ∀ j ∈ hd.idx, j ∉ toksAll r := fun j hj => hdisj j (List.mem_append.mpr (Or.inl hj))
    rcases List.mem_cons.mp hm with rfl | hmr
    · -- the head token itself
      cases tok with
      | lit t => simp [Tok.idx] at hi
      | gl j body t F =>
        simp only [Tok.idx, List.mem_singleton] at hi; subst hi
        simp only [capsAfter, Tok.val]
        apply groupText_of_cap _ (by simpa [Tok.text] using h1)
        rw [capOf_capsAfter_frame r _ _ hsr (hown i (by simp [Tok.idx])), capOf_cons_self]
      | star j v =>
        simp only [Tok.idx, List.mem_singleton] at hi; subst hi
        simp only [capsAfter, Tok.val]
        apply groupText_of_cap _ (by simpa [Tok.text] using h1)
        rw [capOf_capsAfter_frame r _ _ hsr (hown i (by simp [Tok.idx])), capOf_cons_self]
      | sstar j w =>
        simp only [Tok.idx, List.mem_singleton] at hi; subst hi
        simp only [capsAfter, Tok.val]
        by_cases hw : w = []
        · subst hw
          simp only [if_true]
          have hn := hnone i (by simp [Tok.idx])
          simp only [groupText, St.group]
          rw [capOf_capsAfter_frame r _ _ hsr (hown i (by simp [Tok.idx])), hn]
        · simp only [hw, if_false]
          apply groupText_of_cap _ (by simpa [Tok.text] using h1)
          rw [capOf_capsAfter_frame r _ _ hsr (hown i (by simp [Tok.idx])), capOf_cons_self]
      | send j w =>
        simp only [Tok.idx, List.mem_singleton] at hi; subst hi
        simp only [capsAfter, Tok.val]
        by_cases hw : w = []
        · subst hw
          simp only [if_true]
          have hn := hnone i (by simp [Tok.idx])
          simp only [groupText, St.group]
          rw [capOf_capsAfter_frame r _ _ hsr (hown i (by simp [Tok.idx])), hn]
        · simp only [hw, if_false]
          apply groupText_of_cap _ (by simpa [Tok.text] using h1)
          rw [capOf_capsAfter_frame r _ _ hsr (hown i (by simp [Tok.idx])), capOf_cons_self]
    · -- a later token: what the head pushes does not concern the indices of the rest
      have hnone' : ∀ i' ∈ toksIdx r, capOf acc i' = none := fun i' hi' => hnone i' (List.mem_append.mpr (Or.inr hi'))
      have hfr : ∀ i' ∈ toksIdx r, i' ∉ hd.all := fun i' hi' hc => hdisj i' hc (toksIdx_sub_all hi')
      cases hd with
      | lit t =>
        simp only [capsAfter]
        exact groupText_capsAfter s p r _ acc hsr (by simpa [Tok.text] using h2) hcr hnone' tok hmr i hi
      | gl j body t F =>
        simp only [capsAfter]
        refine groupText_capsAfter s p r _ _ hsr (by simpa [Tok.text] using h2) hcr ?_ tok hmr i hi
        intro i' hi'
        rw [(capOf_push_frame (hfr i' hi')).1 rfl hsep.2.1 pos]
        exact hnone' i' hi'
      | star j v =>
        simp only [capsAfter]
        refine groupText_capsAfter s p r _ _ hsr (by simpa [Tok.text] using h2) hcr ?_ tok hmr i hi
        intro i' hi'
        rw [(capOf_push_frame (hfr i' hi')).2 (by simp [Tok.idx])]
        exact hnone' i' hi'
      | sstar j w =>
        simp only [capsAfter]
        refine groupText_capsAfter s p r _ _ hsr (by simpa [Tok.text] using h2) hcr ?_ tok hmr i hi
        intro i' hi'
        split
        · exact hnone' i' hi'
        · rw [(capOf_push_frame (hfr i' hi')).2 (by simp [Tok.idx])]
          exact hnone' i' hi'
      | send j w =>
        simp only [capsAfter]
        refine groupText_capsAfter s p r _ _ hsr (by simpa [Tok.text] using h2) hcr ?_ tok hmr i hi
        intro i' hi'
        split
        · exact hnone' i' hi'
        · rw [(capOf_push_frame (hfr i' hi')).2 (by simp [Tok.idx])]
          exact hnone' i' hi'

/-! ### a group around a plain literal text -/

theorem glRun_lits (t : Text) : GlRun (t.map Re.lit) t (fun _ => []) := by
  intro s st k
  refine ⟨fun h => ?_, fun h => ?_⟩
  · have := m_lits_ok s t [] st k h
    simp only [List.append_nil] at this
    rw [this]
    simp [seqOf, m]
  · have := m_lits_fail s t [] st k h
    simpa only [List.append_nil] using this

theorem glIdx_lits (t : Text) : GlIdx (t.map Re.lit) (fun _ => []) := by
  intro p e he; cases he

/-- a group around a plain literal text (a variable bound to a plain text) -/
def Tok.glit (i : Nat) (t : Text) : Tok := .gl i (t.map Re.lit) t (fun _ => [])

end C11R

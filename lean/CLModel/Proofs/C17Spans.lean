/-
C17 helper lemmas, part 6 (round 4): shape of the spans of parsed entries (regex formats of the composed pipeline).
`Entry.position(offset)` counts from `span[0]` (`Entry.s`), `Entry.all` (what `Checker.check` searches) starts at
`_span_start()` (`Entry.full`): they coincide exactly when there is no attached pre-comment.
-/
import CLModel.Parser.Formats
import CLModel.Proofs.RxLemmas
import CLModel.Proofs.WalkLoc
import CLModel.Proofs.ParserProgress
namespace C17P
open P Rx

/-- the text of the entry (`all`) starts at or before its span; a Junk and an Entity without pre-comment start
    exactly at their span; an attached pre-comment starts at `full` and ends at or before the span -/
def SpanShape (e : Entry) : Prop :=
  e.full ≤ e.s ∧ (e.kind = .junk → e.s = e.full) ∧ (e.kind = .entity → e.pc = none → e.s = e.full) ∧
  (∀ a b, e.pc = some (a, b) → a = e.full ∧ b ≤ e.s)

theorem shape_junk (s : Array Nat) (off : Nat) (exps : List Re) : SpanShape (getJunk s off exps) := by
  simp [SpanShape, getJunk]

theorem shape_plain (k : Kind) (a b : Nat) (ks ke vs ve : Int) :
    SpanShape { kind := k, full := a, s := a, e := b, ks := ks, ke := ke, vs := vs, ve := ve } := by
  simp [SpanShape]

theorem getNext_shape (c : BaseCfg) (s : Array Nat) (off : Nat) (hoff : off ≤ s.size) :
    SpanShape (getNext c s off) := by
  simp only [getNext]
  rcases hcm : matchAt s c.reComment off with _ | cst
  · simp only [Option.isSome_none, Option.isNone_none, Bool.false_and]
    rcases hws : matchAt s c.reWhitespace off with _ | w
    · simp only
      rcases hk : matchAt s c.reKey off with _ | km
      · simpa using shape_junk s off c.junkExps
      · simp only
        rcases hcr : c.create s off km with _ | ⟨e, k, v⟩
        · simpa using shape_junk s off c.junkExps
        · simp [SpanShape]
    · simp [SpanShape]
  · have hc := matchAt_span hcm hoff
    simp only [Option.isSome_some, Option.isNone_some]
    split
    · rename_i e he
      split at he
      · cases he; simp [SpanShape]
      · cases he
    · rcases hws : matchAt s c.reWhitespace cst.pos with _ | w
      · simp only
        rcases hk : matchAt s c.reKey cst.pos with _ | km
        · simp [SpanShape]
        · simp only
          rcases hcr : c.create s cst.pos km with _ | ⟨e, k, v⟩
          · simp [SpanShape]
          · simp only [Option.map_some, SpanShape]
            refine ⟨by omega, by simp, by simp, ?_⟩
            intro a b hab
            simp only [if_true, Option.some.injEq, Prod.mk.injEq] at hab
            omega
      · have hw := matchAt_span hws hc.2
        simp only
        split
        · rename_i e he
          split at he
          · cases he; simp [SpanShape]
          · simp at he
        · rcases hk : matchAt s c.reKey w.pos with _ | km
          · simp [SpanShape]
          · simp only
            rcases hcr : c.create s w.pos km with _ | ⟨e, k, v⟩
            · simp [SpanShape]
            · simp only [Option.map_some, SpanShape]
              refine ⟨by omega, by simp, by simp, ?_⟩
              intro a b hab
              simp only [if_true, Option.some.injEq, Prod.mk.injEq] at hab
              omega

theorem iniGetNext_shape (s : Array Nat) (off : Nat) (hoff : off ≤ s.size) : SpanShape (iniGetNext s off) := by
  unfold iniGetNext
  split
  · simp [SpanShape]
  · exact getNext_shape iniCfg s off hoff

theorem poGetNext_shape (s : Array Nat) (off : Nat) (hoff : off ≤ s.size) : SpanShape (poGetNext s off) :=
  getNext_shape poCfg s off hoff

theorem propsGetNext_shape (s : Array Nat) (off : Nat) (hoff : off ≤ s.size) : SpanShape (propsGetNext s off) := by
  simp only [propsGetNext]
  rcases hcm : matchAt s Gen.Pat.PropertiesParser_reComment off with _ | cst
  · simp only [Option.isSome_none, Option.isNone_none, Bool.false_and]
    rcases hws : matchAt s Gen.Pat.Parser_reWhitespace off with _ | w
    · simp only
      rcases hk : matchAt s Gen.Pat.PropertiesParser_reKey off with _ | km
      · simpa using shape_junk s off _
      · simp [SpanShape]
    · simp [SpanShape]
  · have hc := matchAt_span hcm hoff
    simp only [Option.isSome_some, Option.isNone_some]
    split
    · rename_i e he
      split at he
      · cases he; simp [SpanShape]
      · cases he
    · rcases hws : matchAt s Gen.Pat.Parser_reWhitespace cst.pos with _ | w
      · simp only
        rcases hk : matchAt s Gen.Pat.PropertiesParser_reKey cst.pos with _ | km
        · simp [SpanShape]
        · simp only [SpanShape]
          refine ⟨by omega, by simp, by simp, ?_⟩
          intro a b hab
          simp only [if_true, Option.some.injEq, Prod.mk.injEq] at hab
          omega
      · have hw := matchAt_span hws hc.2
        simp only
        split
        · rename_i e he
          split at he
          · cases he; simp [SpanShape]
          · simp at he
        · rcases hk : matchAt s Gen.Pat.PropertiesParser_reKey w.pos with _ | km
          · simp [SpanShape]
          · simp only [SpanShape]
            refine ⟨by omega, by simp, by simp, ?_⟩
            intro a b hab
            simp only [if_true, Option.some.injEq, Prod.mk.injEq] at hab
            omega

theorem definesGetNext_shape (s : Array Nat) (fel : Bool) (off : Nat) (hoff : off ≤ s.size) :
    SpanShape (definesGetNext s fel off).1 := by
  simp only [definesGetNext]
  rcases hcm : matchAt s Gen.Pat.DefinesParser_reComment off with _ | cst
  · simp only [Option.isSome_none, Option.isNone_none, Bool.false_and]
    rcases hws : matchAt s Gen.Pat.DefinesParser_reWhitespace off with _ | w
    · simp only
      rcases hk : matchAt s Gen.Pat.DefinesParser_reKey off with _ | km
      · simp only
        rcases hpi : matchAt s Gen.Pat.DefinesParser_rePI off with _ | st
        · simpa using shape_junk s off _
        · simp [SpanShape]
      · simp [SpanShape]
    · simp only
      split
      · rename_i e he
        split at he
        · cases he; simp [SpanShape]
        · simp at he
          cases he; simp [SpanShape]
      · rename_i hnone
        split at hnone
        · cases hnone
        · simp at hnone
  · have hc := matchAt_span hcm hoff
    simp only [Option.isSome_some, Option.isNone_some]
    rcases hws : matchAt s Gen.Pat.DefinesParser_reWhitespace cst.pos with _ | w
    · simp only
      rcases hk : matchAt s Gen.Pat.DefinesParser_reKey cst.pos with _ | km
      · simp [SpanShape]
      · simp only [SpanShape]
        refine ⟨by omega, by simp, by simp, ?_⟩
        intro a b hab
        simp only [if_true, Option.some.injEq, Prod.mk.injEq] at hab
        omega
    · have hw := matchAt_span hws hc.2
      simp only
      split
      · rename_i e he
        split at he
        · cases he; simp [SpanShape]
        · split at he
          · cases he; simp [SpanShape]
          · simp at he
      · rcases hk : matchAt s Gen.Pat.DefinesParser_reKey w.pos with _ | km
        · simp [SpanShape]
        · simp only [SpanShape]
          refine ⟨by omega, by simp, by simp, ?_⟩
          intro a b hab
          simp only [if_true, Option.some.injEq, Prod.mk.injEq] at hab
          omega

/-- every entry of a walk of ini / inc / po / properties has the span shape -/
theorem walk_shape (f : Fmt) (hf : f ≠ .dtd) (s : Array Nat) (es : List Entry) (h : walk f s = .done es) :
    ∀ e ∈ es, SpanShape e := by
  cases f <;> simp only [walk] at h
  · exact walkFrom_all _ _ SpanShape (fun _ off ho => propsGetNext_shape s off (by omega)) _ _ _ _ h
  · exact absurd rfl hf
  · exact walkFrom_all _ _ SpanShape (fun _ off ho => iniGetNext_shape s off (by omega)) _ _ _ _ h
  · exact walkFrom_all _ _ SpanShape (fun fel off ho => definesGetNext_shape s fel off (by omega)) _ _ _ _ h
  · exact walkFrom_all _ _ SpanShape (fun _ off ho => poGetNext_shape s off (by omega)) _ _ _ _ h

/-- entries of a tiling end inside the text and start (with their pre-comment) before their end -/
theorem tiles_bounds {size b : Nat} : ∀ {off : Nat} {es : List Entry}, Tiles size b off es →
    ∀ e ∈ es, e.full ≤ e.e ∧ e.e ≤ size := by
  intro off es h
  induction h with
  | nil _ => intro e he; simp at he
  | cons _ h2 _ h4 _ ih =>
    intro e he
    rcases List.mem_cons.mp he with rfl | he
    · exact ⟨h2, h4⟩
    · exact ih e he

end C17P

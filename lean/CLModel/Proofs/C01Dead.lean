/-
C01 round 4: dead branches of the three `getNext` functions.

`Parser.getNext` (base.py:416-417), `PropertiesParser.getNext` (properties.py:106-107) and
`DefinesParser.getNext` (defines.py:90-91) all end with

    if current_comment is not None: return current_comment
    if white_space is not None:     return white_space        # <- never executed
    return self.getJunk(...)

The models have the same branch.  Each `…D` function below is the model with the value of that
branch replaced by an ARBITRARY entry `d`; it is proved equal to the model for every `d`, text and
offset: the branch is never taken (white-space without a pending comment has already been
returned by the early `if current_comment is None: return white_space`).
-/
import CLModel.Parser.Formats
namespace C01P
open P Rx Gen.Pat

/-- `P.getNext` with the late `return white_space` replaced by `d` -/
def getNextD (d : Entry) (c : BaseCfg) (s : Array Nat) (off0 : Nat) : Entry :=
  let cm := matchAt s c.reComment off0
  match (match cm with
         | some st =>
            if off0 < 2 && isInfix licenseWord (commentVal c.commentStyle (slice s off0 st.pos))
            then some ({ kind := .comment, full := off0, s := off0, e := st.pos } : Entry) else none
         | none => none) with
  | some e => e
  | none =>
  let off1 := match cm with | some st => st.pos | none => off0
  let ws := matchAt s c.reWhitespace off1
  match (match ws with
         | some w =>
            if cm.isSome && countNl s off1 w.pos > 1 then
              some ({ kind := .comment, full := off0, s := off0, e := off1 } : Entry)
            else if cm.isNone then some ({ kind := .whitespace, full := off1, s := off1, e := w.pos, ks := off1, ke := w.pos, vs := off1, ve := w.pos } : Entry)
            else none
         | none => none) with
  | some e => e
  | none =>
  let off2 := match ws with | some w => w.pos | none => off1
  match (match matchAt s c.reKey off2 with
         | some km => (c.create s off2 km).map (fun (e, k, v) =>
              ({ kind := .entity, full := off0, s := off2, e := e, ks := k.1, ke := k.2, vs := v.1, ve := v.2,
                 pc := if cm.isSome then some (off0, off1) else none } : Entry))
         | none => none) with
  | some e => e
  | none =>
    if cm.isSome then { kind := .comment, full := off0, s := off0, e := off1 }
    else if ws.isSome then d
    else getJunk s off0 c.junkExps

/-- base.py:417 (`return white_space` at the end of `Parser.getNext`) is dead -/
theorem getNextD_eq (d : Entry) (c : BaseCfg) (s : Array Nat) (off0 : Nat) :
    getNextD d c s off0 = getNext c s off0 := by
  simp only [getNextD, getNext]
  rcases matchAt s c.reComment off0 with _ | cst
  · rcases matchAt s c.reWhitespace off0 with _ | w
    · rfl
    · rfl
  · rfl

/-- `P.propsGetNext` with the late `return white_space` replaced by `d` -/
def propsGetNextD (d : Entry) (s : Array Nat) (off0 : Nat) : Entry :=
  let cm := matchAt s PropertiesParser_reComment off0
  match (match cm with
         | some st =>
            if off0 == 0 && isInfix licenseWord (commentVal (.offset Gen.Tables.offsetCommentDefault) (slice s off0 st.pos))
            then some ({ kind := .comment, full := off0, s := off0, e := st.pos } : Entry) else none
         | none => none) with
  | some e => e
  | none =>
  let off1 := match cm with | some st => st.pos | none => off0
  let ws := matchAt s Parser_reWhitespace off1
  match (match ws with
         | some w =>
            if cm.isSome && countNl s off1 w.pos > 1 then
              some ({ kind := .comment, full := off0, s := off0, e := off1 } : Entry)
            else if cm.isNone then some ({ kind := .whitespace, full := off1, s := off1, e := w.pos, ks := off1, ke := w.pos, vs := off1, ve := w.pos } : Entry)
            else none
         | none => none) with
  | some e => e
  | none =>
  let off2 := match ws with | some w => w.pos | none => off1
  match matchAt s PropertiesParser_reKey off2 with
  | some km =>
    let (endval0, startline) := propsLines s (s.size + 1) km.pos km.pos
    let endval := match search s PropertiesParser__trailingWS startline with
      | some (q, _) => q
      | none => endval0
    let k := spanI km PropertiesParser_reKey_g_key
    { kind := .entity, full := off0, s := off2, e := endval, ks := k.1, ke := k.2, vs := km.pos, ve := endval,
      pc := if cm.isSome then some (off0, off1) else none }
  | none =>
    if cm.isSome then { kind := .comment, full := off0, s := off0, e := off1 }
    else if ws.isSome then d
    else getJunk s off0 [PropertiesParser_reKey, PropertiesParser_reComment]

/-- properties.py:107 is dead -/
theorem propsGetNextD_eq (d : Entry) (s : Array Nat) (off0 : Nat) :
    propsGetNextD d s off0 = propsGetNext s off0 := by
  simp only [propsGetNextD, propsGetNext]
  rcases matchAt s PropertiesParser_reComment off0 with _ | cst
  · rcases matchAt s Parser_reWhitespace off0 with _ | w
    · rfl
    · rfl
  · rfl

/-- `P.definesGetNext` with the late `return white_space` replaced by `d` -/
def definesGetNextD (d : Entry) (s : Array Nat) (fel : Bool) (off0 : Nat) : Entry × Bool :=
  let cm := matchAt s DefinesParser_reComment off0
  let off1 := match cm with | some st => st.pos | none => off0
  let cmE : Entry := { kind := .comment, full := off0, s := off0, e := off1 }
  let ws := matchAt s DefinesParser_reWhitespace off1
  match (match ws with
         | some w =>
            if off1 == 0 || !(w.pos - off1 == 1 || fel) then
              if cm.isSome then some cmE
              else some ({ kind := .junk, full := off1, s := off1, e := w.pos } : Entry)
            else if cm.isSome && countNl s off1 w.pos > 1 then some cmE
            else if cm.isNone then some ({ kind := .whitespace, full := off1, s := off1, e := w.pos, ks := off1, ke := w.pos, vs := off1, ve := w.pos } : Entry)
            else none
         | none => none) with
  | some e => (e, fel)
  | none =>
  let off2 := match ws with | some w => w.pos | none => off1
  match matchAt s DefinesParser_reKey off2 with
  | some km =>
    let k := spanI km DefinesParser_reKey_g_key
    let v := spanI km DefinesParser_reKey_g_val
    ({ kind := .entity, full := off0, s := off2, e := km.pos, ks := k.1, ke := k.2, vs := v.1, ve := v.2,
       pc := if cm.isSome then some (off0, off1) else none }, fel)
  | none =>
    if cm.isSome then (cmE, fel)
    else if ws.isSome then (d, fel)
    else
      match matchAt s DefinesParser_rePI off2 with
      | some st =>
        let v := spanI st DefinesParser_rePI_g_val
        let val := slice s v.1.toNat v.2.toNat
        let fel' := if val == filterEmptyLines then true else if val == unfilterEmptyLines then false else fel
        ({ kind := .instruction, full := off2, s := off2, e := st.pos, ks := v.1, ke := v.2, vs := v.1, ve := v.2 }, fel')
      | none => (getJunk s off0 [DefinesParser_reComment, DefinesParser_reKey, DefinesParser_rePI], fel)

/-- defines.py:91 is dead -/
theorem definesGetNextD_eq (d : Entry) (s : Array Nat) (fel : Bool) (off0 : Nat) :
    definesGetNextD d s fel off0 = definesGetNext s fel off0 := by
  simp only [definesGetNextD, definesGetNext]
  rcases matchAt s DefinesParser_reComment off0 with _ | cst
  · rcases matchAt s DefinesParser_reWhitespace off0 with _ | w
    · rfl
    · cases h : (off0 == 0 || !(w.pos - off0 == 1 || fel))
      · simp only [h]; rfl
      · simp only [h]; rfl
  · rfl

/-- the entity a DTD parameter entity `<!ENTITY % n SYSTEM "u"> %n;` is turned into is only
    looked for when the base `getNext` reported junk (dtd.py:107-111); the model agrees: when the
    base result is not junk, `rePE` is never consulted -/
theorem dtdGetNext_of_not_junk (s : Array Nat) (off0 : Nat)
    (h : (getNext dtdCfg s (if off0 == 0 && (matchAt s DTDParser_reHeader 0).isSome then off0 + 1 else off0)).kind ≠ .junk) :
    dtdGetNext s off0 =
      getNext dtdCfg s (if off0 == 0 && (matchAt s DTDParser_reHeader 0).isSome then off0 + 1 else off0) := by
  have hk : ((getNext dtdCfg s (if off0 == 0 && (matchAt s DTDParser_reHeader 0).isSome then off0 + 1 else off0)).kind == .junk) = false := by
    cases hx : (getNext dtdCfg s (if off0 == 0 && (matchAt s DTDParser_reHeader 0).isSome then off0 + 1 else off0)).kind <;>
      first | rfl | exact absurd hx h
  simp only [dtdGetNext, hk]
  rfl

end C01P

/-
C16: `Entity.wrap` replaces exactly the value span.  Core Lean only.
-/
import CLModel.Serialize.Serializer
import CLModel.Proofs.Walk
namespace C16L
open Ser

theorem pyIdx_nat (n a : Nat) (h : a ≤ n) : pyIdx n (a : Int) = a := by
  unfold pyIdx
  have : ¬ ((a : Int) < 0) := by omega
  simp only [this, if_false, Int.toNat_natCast]
  omega

theorem pySlice_nat (s : Array Nat) (a b : Nat) (ha : a ≤ s.size) (hb : b ≤ s.size) :
    pySlice s (a : Int) (b : Int) = P.slice s a b := by
  unfold pySlice
  rw [pyIdx_nat _ _ ha, pyIdx_nat _ _ hb]

theorem slice_append (s : Array Nat) (a b c : Nat) (h1 : a ≤ b) (h2 : b ≤ c) (h3 : c ≤ s.size) :
    P.slice s a b ++ P.slice s b c = P.slice s a c := by
  rw [P.slice_eq s a b (by omega), P.slice_eq s b c h3, P.slice_eq s a c h3]
  have e1 : c - a = (b - a) + (c - b) := by omega
  have e2 : s.toList.drop b = (s.toList.drop a).drop (b - a) := by
    rw [List.drop_drop]; congr 1; omega
  rw [e1, List.take_add, e2]

/-- `wrap` on an entity whose spans are nested the normal way: the text is prefix ++ value ++ suffix,
    and the wrapped entity is prefix ++ new value ++ suffix -/
theorem wrap_spec (f : P.Fmt) (s : Array Nat) (e : P.Entry) (v : List Nat) (a b : Nat)
    (hk : e.kind = .entity) (hvs : e.vs = (a : Int)) (hve : e.ve = (b : Int))
    (h1 : e.full ≤ a) (h2 : a ≤ b) (h3 : b ≤ e.e) (h4 : e.e ≤ s.size) :
    (ofEntry f s e).all = P.slice s e.full a ++ P.slice s a b ++ P.slice s b e.e ∧
    (ofEntry f s e).val = P.slice s a b ∧
    (wrap (ofEntry f s e) v).all = P.slice s e.full a ++ v ++ P.slice s b e.e ∧
    (wrap (ofEntry f s e) v).val = v ∧
    (wrap (ofEntry f s e) v).key = (ofEntry f s e).key ∧
    (wrap (ofEntry f s e) v).isReal = true := by
  have hall : (ofEntry f s e).all = P.slice s e.full e.e := by
    unfold ofEntry; rw [hk]; rfl
  have hval : (ofEntry f s e).val = P.slice s a b := by
    unfold ofEntry; rw [hk]; simp only; rw [hvs, hve, pySlice_nat s a b (by omega) (by omega)]
  have hpre : (ofEntry f s e).pre = P.slice s e.full a := by
    unfold ofEntry; rw [hk]; simp only; rw [hvs, pySlice_nat s e.full a (by omega) (by omega)]
  have hpost : (ofEntry f s e).post = P.slice s b e.e := by
    unfold ofEntry; rw [hk]; simp only; rw [hve, pySlice_nat s b e.e (by omega) (by omega)]
  refine ⟨?_, hval, ?_, rfl, rfl, rfl⟩
  · rw [hall, slice_append s e.full a b h1 h2 (by omega), slice_append s e.full b e.e (by omega) h3 h4]
  · unfold wrap
    simp only [hpre, hpost]

/-- wrapping an entity's own raw value reproduces its text -/
theorem wrap_unwrap (f : P.Fmt) (s : Array Nat) (e : P.Entry) (a b : Nat)
    (hk : e.kind = .entity) (hvs : e.vs = (a : Int)) (hve : e.ve = (b : Int))
    (h1 : e.full ≤ a) (h2 : a ≤ b) (h3 : b ≤ e.e) (h4 : e.e ≤ s.size) :
    (wrap (ofEntry f s e) (ofEntry f s e).val).all = (ofEntry f s e).all := by
  obtain ⟨ha, hv, hw, _⟩ := wrap_spec f s e (ofEntry f s e).val a b hk hvs hve h1 h2 h3 h4
  rw [hw, ha, hv]

end C16L

/-
C13 helper lemmas: the recursion bound of the model's `build` is never hit by `PF.new`
(the `.depth` error is a model artefact that cannot occur).
-/
import CLModel.Paths.ProjectFiles
import CLModel.Proofs.C13Build
namespace PF

theorem sizeL_append : ∀ (a b : List Config), sizeL (a ++ b) = sizeL a + sizeL b
  | [], b => by simp [sizeL]
  | x :: xs, b => by simp [sizeL, sizeL_append xs b]; omega

theorem sizeL_filter (p : Config → Bool) : ∀ (l : List Config), sizeL (l.filter p) ≤ sizeL l
  | [] => by simp [sizeL]
  | x :: xs => by
    have := sizeL_filter p xs
    simp only [List.filter_cons]
    split <;> simp only [sizeL] <;> omega

theorem sizeL_maybeExtend : ∀ (other self : List Config), sizeL (maybeExtend self other) ≤ sizeL self + sizeL other
  | [], self => by simp [maybeExtend, sizeL]
  | o :: os, self => by
    have ih := fun s => sizeL_maybeExtend os s
    simp only [maybeExtend, List.foldl_cons] at ih ⊢
    split
    · have := ih self
      simp only [sizeL]; omega
    · have := ih (self ++ [o])
      rw [sizeL_append] at this
      simp only [sizeL] at this ⊢; omega

/-- total size of the exclude lists of the projects -/
def exSum : List Config → Nat
  | [] => 0
  | p :: ps => sizeL p.excludes + exSum ps

theorem exSum_lt : ∀ (ps : List Config), exSum ps + ps.length ≤ sizeL ps
  | [] => by simp [exSum, sizeL]
  | p :: ps => by
    have := exSum_lt ps
    obtain ⟨a, b, c, d, e⟩ := p
    simp only [exSum, sizeL, Config.size, Config.excludes, List.length_cons]
    omega

theorem collect_excl_size {locale : Option Loc} : ∀ (ps : List Config) (acc : List Config × List Config),
    sizeL (ps.foldl (collectStep locale) acc).2 ≤ sizeL acc.2 + exSum ps
  | [], acc => by simp [exSum]
  | p :: ps, acc => by
    rw [List.foldl_cons]
    have ih := collect_excl_size (locale := locale) ps (collectStep locale acc p)
    have : sizeL (collectStep locale acc p).2 ≤ sizeL acc.2 + sizeL p.excludes := by
      unfold collectStep
      split
      · omega
      · exact sizeL_maybeExtend _ _
    simp only [exSum]
    omega

theorem sizeL_excludesOf {locale : Option Loc} {projects : List Config} (h : excludesOf locale projects ≠ []) :
    sizeL (excludesOf locale projects) < sizeL projects := by
  cases projects with
  | nil => exact absurd rfl h
  | cons p ps =>
    have h1 : sizeL (excludesOf locale (p :: ps)) ≤ sizeL (collect locale (p :: ps)).2 := sizeL_filter _ _
    have h2 := collect_excl_size (locale := locale) (p :: ps) ([], [])
    rw [← collect_eq] at h2
    have h3 := exSum_lt (p :: ps)
    have h2' : sizeL (collect locale (p :: ps)).2 ≤ exSum (p :: ps) := by
      have : sizeL (([], []) : List Config × List Config).2 = 0 := rfl
      omega
    simp only [List.length_cons] at h3
    omega

theorem mkRules_error {locale : Option Loc} {mb : Bool} : ∀ {ps : List PathRule} {e : Err},
    mkRules locale mb ps = .error e → e = .typeErrorLocale
  | [], e, h => by simp [mkRules] at h
  | p :: ps, e, h => by
    unfold mkRules at h
    cases hr : mkRule locale mb p with
    | error e' =>
      simp only [hr, Except.error.injEq] at h
      subst h
      unfold mkRule at hr
      split at hr
      · split at hr
        · simp only [Except.error.injEq] at hr; exact hr.symm
        · simp at hr
      · simp at hr
    | ok r =>
      simp only [hr] at h
      cases hrs : mkRules locale mb ps with
      | error e' =>
        simp only [hrs, Except.map, Except.error.injEq] at h
        subst h
        exact mkRules_error hrs
      | ok rs => simp [hrs, Except.map] at h

theorem scan_error {env : MEnv} : ∀ {rest : List (Rule × Bool)} {m : Rule} {e : Err},
    scan env m rest = .error e → e ≠ .depth
  | [], m, e, h => by simp [scan] at h
  | (m_, d) :: rest, m, e, h => by
    unfold scan at h
    split at h
    · cases hs : scan env m rest with
      | error e' =>
        simp only [hs, Except.map, Except.error.injEq] at h
        subst h; exact scan_error hs
      | ok v => simp [hs, Except.map] at h
    · split at h
      · cases hs : scan env m rest with
        | error e' =>
          simp only [hs, Except.map, Except.error.injEq] at h
          subst h; exact scan_error hs
        | ok v => simp [hs, Except.map] at h
      · simp only at h
        split at h
        · rename_i e' hc
          simp only [Except.error.injEq] at h
          subst h
          split at hc
          · simp at hc
          · split at hc
            · simp only [Except.error.injEq] at hc; subst hc; decide
            · split at hc
              · simp only [Except.error.injEq] at hc; subst hc; decide
              · simp at hc
        · cases hs : scan env { m with test := setUnion m.test m_.test } rest with
          | error e' =>
            simp only [hs, Except.map, Except.error.injEq] at h
            subst h; exact scan_error hs
          | ok v => simp [hs, Except.map] at h

theorem dedupGo_error {env : MEnv} : ∀ (n : Nat) (l : List (Rule × Bool)) (e : Err),
    dedupGo env n l = .error e → e ≠ .depth
  | _, [], e, h => by simp [dedupGo] at h
  | _, [(m, d)], e, h => by simp [dedupGo] at h
  | 0, _ :: _ :: _, e, h => by simp [dedupGo] at h
  | n + 1, (m, d) :: x2 :: rest, e, h => by
    simp only [dedupGo] at h
    split at h
    · exact dedupGo_error n _ e h
    · cases hs : scan env m (x2 :: rest) with
      | error e' =>
        simp only [hs, Except.error.injEq] at h
        subst h; exact scan_error hs
      | ok v =>
        obtain ⟨m', rest'⟩ := v
        simp only [hs] at h
        cases hg : dedupGo env n rest' with
        | error e' =>
          simp only [hg, Except.map, Except.error.injEq] at h
          subst h; exact dedupGo_error n rest' e' hg
        | ok out => simp [hg, Except.map] at h

/-- with enough fuel `build` never reports the model-only error -/
theorem build_no_depth {env : MEnv} : ∀ (fuel : Nat) (locale : Option Loc) (projects : List Config) (mb : Bool),
    sizeL projects < fuel → build env fuel locale projects mb ≠ .error .depth
  | 0, _, _, _, h => by omega
  | fuel + 1, locale, projects, mb, hf => by
    intro hb
    unfold build at hb
    split at hb
    · rename_i e hex
      simp only [Except.error.injEq] at hb
      subst hb
      split at hex
      · simp at hex
      · rename_i hne
        cases hbx : build env fuel locale (excludesOf locale projects) false with
        | error e' =>
          simp only [hbx, Except.map, Except.error.injEq] at hex
          subst hex
          have hlt := sizeL_excludesOf (locale := locale) (projects := projects) (by
            intro h0; rw [h0] at hne; simp at hne)
          exact build_no_depth fuel locale _ false (by omega) hbx
        | ok v => simp [hbx, Except.map] at hex
    · split at hb
      · rename_i e hm
        simp only [Except.error.injEq] at hb
        subst hb
        have := mkRules_error hm
        exact absurd this (by decide)
      · split at hb
        · rename_i e hd
          simp only [Except.error.injEq] at hb
          subst hb
          exact dedupGo_error _ _ _ hd rfl
        · simp at hb

end PF

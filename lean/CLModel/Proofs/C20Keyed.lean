/-
C20 (round 4) — `KeyedTuple`: the answers of the object with its `__map` equal the closed form on the
entity list alone.  Helper lemmas.  Core Lean only.
-/
import CLModel.Compare.KeyedTuple
import CLModel.Compare.AddRemoveObj
import CLModel.Proofs.C20Dup
namespace C20P
open AR C20M C20K

variable {κ : Type} [DecidableEq κ]

omit [DecidableEq κ] in
theorem zipIdx_map_key (es : List (Ent κ)) (n : Nat) :
    (es.map (·.key)).zipIdx n = (es.zipIdx n).map (fun p => (p.1.key, p.2)) := by
  induction es generalizing n with
  | nil => rfl
  | cons e es ih => simp [List.zipIdx_cons, ih]

/-- `__map` built over the entities = the dict built over their keys -/
theorem map_new_fold (es : List (Ent κ)) :
    (es.zipIdx).foldl (fun d (e, i) => dset d e.key i) ([] : List (κ × Nat))
      = ((es.map (·.key)).zipIdx).foldl (fun d (k, i) => dset d k (id i)) [] := by
  rw [zipIdx_map_key, List.foldl_map]
  rfl

/-- `self.__map.get(k)`: the index of the last entity with key `k` -/
theorem dget_map_new (es : List (Ent κ)) (k : κ) :
    dget (KT.new es).map k
      = if (es.map (·.key)).contains k then some (lastIdx (es.map (·.key)) k) else none := by
  cases es with
  | nil => simp [KT.new, dget]
  | cons e es =>
    have h := dget_fold_last (β := Nat) id ((e :: es).map (·.key)) 0 [] k
    rw [← map_new_fold] at h
    simp only [KT.new, List.isEmpty_cons, Bool.false_eq_true, if_false]
    rw [h]
    simp [dget]

/-- the entity at the last index of `k` is the last entity with key `k` -/
theorem getElem?_lastIdx_key (es : List (Ent κ)) (k : κ) (h : k ∈ es.map (·.key)) :
    es[lastIdx (es.map (·.key)) k]? = lastWithKey es k := by
  induction es with
  | nil => simp at h
  | cons e es ih =>
    simp only [lastWithKey, List.reverse_cons, List.find?_append, List.map_cons]
    by_cases hk : k ∈ es.map (·.key)
    · rw [lastIdx_cons_of_mem _ _ _ hk, List.getElem?_cons_succ, ih hk, lastWithKey]
      have : (es.reverse.find? (fun e => e.key == k)).isSome := by
        rw [List.find?_isSome]
        rw [List.mem_map] at hk
        obtain ⟨e', he', rfl⟩ := hk
        exact ⟨e', by simpa using he', by simp⟩
      cases hf : es.reverse.find? (fun e => e.key == k) with
      | none => rw [hf] at this; simp at this
      | some v => rfl
    · rw [lastIdx_cons_of_not_mem _ _ _ hk]
      have hnone : es.reverse.find? (fun e => e.key == k) = none := by
        rw [List.find?_eq_none]
        intro e' he' hke
        exact hk (List.mem_map.2 ⟨e', by simpa using he', eq_of_beq hke⟩)
      rw [hnone]
      rw [List.map_cons, List.mem_cons] at h
      rcases h with rfl | h
      · simp
      · exact absurd h hk

theorem lastWithKey_none (es : List (Ent κ)) (k : κ) (h : k ∉ es.map (·.key)) :
    lastWithKey es k = none := by
  rw [lastWithKey, List.find?_eq_none]
  intro e he hke
  exact h (List.mem_map.2 ⟨e, by simpa using he, eq_of_beq hke⟩)

theorem lastWithKey_some (es : List (Ent κ)) (k : κ) (h : k ∈ es.map (·.key)) :
    ∃ e, lastWithKey es k = some e := by
  have : (es.reverse.find? (fun e => e.key == k)).isSome := by
    rw [List.find?_isSome]
    rw [List.mem_map] at h
    obtain ⟨e', he', rfl⟩ := h
    exact ⟨e', by simpa using he', by simp⟩
  exact Option.isSome_iff_exists.1 this

theorem tupleIndex_nat {β : Type} (xs : List β) (i : Nat) : tupleIndex xs (i : Int) = xs[i]? := by
  have : ¬ ((i : Int) < 0) := by omega
  simp [tupleIndex, this]

theorem any_key_eq (es : List (Ent κ)) (k : κ) :
    es.any (fun e => e.key == k) = (es.map (·.key)).contains k := by
  rw [Bool.eq_iff_iff]
  simp [List.any_eq_true]

/-- `kt[k]` for a key -/
theorem getitem_key (es : List (Ent κ)) (k : κ) :
    (KT.new es).getitem (.key k) = match lastWithKey es k with
      | some e => .ent e
      | none => .err "TypeError" := by
  simp only [KT.getitem, KT.mapGet, dget_map_new]
  by_cases hk : k ∈ es.map (·.key)
  · have hc : (es.map (·.key)).contains k = true := by simpa using hk
    have hc' : (List.map (fun x => x.key) es).contains k = true := hc
    simp only [hc', if_true, tupleGetitem, tupleIndex_nat]
    have := getElem?_lastIdx_key es k hk
    simp only [KT.new]
    rw [this]
    obtain ⟨e, he⟩ := lastWithKey_some es k hk
    rw [he]
  · have hc : (List.map (fun x => x.key) es).contains k = false := by simpa using hk
    simp only [hc, Bool.false_eq_true, if_false, tupleGetitem, lastWithKey_none es k hk]

/-- `k in kt` for a key -/
theorem contains_key (es : List (Ent κ)) (k : κ) :
    (KT.new es).contains (.key k) = es.any (fun e => e.key == k) := by
  simp only [KT.contains, KT.mapContains, dget_map_new, any_key_eq]
  cases h : (List.map (fun x => x.key) es).contains k
  · simp [tupleContains]
  · simp

/-- every answer of the object equals the closed form over the entity list -/
theorem step_eq_spec (es : List (Ent κ)) (q : Q κ) :
    ((KT.new es).step q).2 = specAsk es q := by
  cases q with
  | getitem a =>
    cases a with
    | key k =>
      show (KT.new es).getitem (.key k) = _
      rw [getitem_key]
      rfl
    | int i => simp only [KT.step, KT.getitem, KT.mapGet, specAsk, KT.new]
    | slice lo hi => simp only [KT.step, KT.getitem, KT.mapGet, specAsk, KT.new]
    | ent e => simp only [KT.step, KT.getitem, KT.mapGet, specAsk, KT.new]
    | unhashable => simp only [KT.step, KT.getitem, KT.mapGet, specAsk, KT.new]
  | contains a =>
    cases a with
    | key k => simp only [KT.step, specAsk, contains_key]
    | int i => simp [KT.step, KT.contains, KT.mapContains, specAsk, KT.new]
    | slice lo hi => simp [KT.step, KT.contains, KT.mapContains, specAsk, KT.new]
    | ent e => simp [KT.step, KT.contains, KT.mapContains, specAsk, KT.new]
    | unhashable => simp [KT.step, KT.contains, KT.mapContains, specAsk, KT.new]
  | keys => rfl
  | values => rfl
  | items => rfl
  | iter => rfl
  | len => rfl
  | concat o => rfl

theorem step_state (t : KT κ) (q : Q κ) : (t.step q).1 = t := by
  cases q <;> rfl

theorem run_eq_map (t : KT κ) (qs : List (Q κ)) : t.run qs = qs.map (fun q => (t.step q).2) := by
  induction qs with
  | nil => rfl
  | cons q qs ih => rw [KT.run, step_state, ih, List.map_cons]

/-- `lastWithKey` by decomposition: the entity, with no later entity of the same key -/
theorem lastWithKey_eq_some_iff (es : List (Ent κ)) (k : κ) (e : Ent κ) :
    lastWithKey es k = some e ↔
      e.key = k ∧ ∃ pre post, es = pre ++ e :: post ∧ ∀ e' ∈ post, e'.key ≠ k := by
  rw [lastWithKey, List.find?_eq_some_iff_append]
  constructor
  · rintro ⟨h1, as, bs, h2, h3⟩
    refine ⟨eq_of_beq h1, bs.reverse, as.reverse, ?_, ?_⟩
    · have := congrArg List.reverse h2
      simpa using this
    · intro e' he'
      have := h3 e' (by simpa using he')
      simpa using this
  · rintro ⟨h1, pre, post, h2, h3⟩
    refine ⟨by simp [h1], post.reverse, pre.reverse, ?_, ?_⟩
    · rw [h2]; simp
    · intro a ha
      have := h3 a (by simpa using ha)
      simpa using this

end C20P

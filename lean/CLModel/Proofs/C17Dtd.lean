/-
C17 helper lemmas, part 11 (round 4): the positions `DTDChecker.check` yields (model `Dtd.check`, C07; expat's verdict on
each document is a parameter) and how an expat (line, column) is mapped back by the checker (`Dtd.errorPos`).
-/
import CLModel.Checks.Dtd
import CLModel.Proofs.C17Checkers
import CLModel.Proofs.C17Resolve
namespace C17P
open Rx Dtd

/-- what a position yielded by `DTDChecker.check` is:
    an `EntityPos` at a U+FFFD of `l10nEnt.all`; the pair `(0, 0)` of the warnings; the pair `errorPos` computes from
    what expat reported for one of the documents; a plain int that is 0 (number / CSS) or comes from the Android
    content checks (`extra_tests`) -/
def DtdPosKind (xmlParse : Bytes → ParseRes) (i : Inp) : Dtd.Pos → Prop
  | .entityPos q => i.l10n.all[q]? = some 0xFFFD
  | .lc l c => (l = 0 ∧ c = 0) ∨
      ∃ d line col msg, (xmlParse d).err = some (line, col, msg) ∧ errorPos i.l10n.val line col = some (l, c)
  | .num n => n = 0 ∨ i.android = true

theorem andThen_mem (a : Out) (f : Unit → Out) (r : Result) (h : r ∈ (a.andThen f).results) :
    r ∈ a.results ∨ r ∈ (f ()).results := by
  unfold Out.andThen at h
  split at h
  · exact Or.inl h
  · simp only [List.mem_append] at h
    exact h

theorem dtd_base_pos (xmlParse : Bytes → ParseRes) (i : Inp) : ∀ r ∈ Dtd.baseCheck i.l10n, DtdPosKind xmlParse i r.pos := by
  intro r hr
  simp only [Dtd.baseCheck, List.mem_map] at hr
  obtain ⟨p, hp, rfl⟩ := hr
  simpa [DtdPosKind] using mochibake_at _ p hp

theorem dtd_ref_pos (xmlParse : Bytes → ParseRes) (i : Inp) :
    ∀ r ∈ (refSection xmlParse i).results, DtdPosKind xmlParse i r.pos := by
  intro r hr
  unfold refSection at hr
  simp only at hr
  split at hr
  · simp at hr
  · split at hr
    · simp only [Out.ok, List.mem_singleton] at hr; subst hr; simp [DtdPosKind]
    · split at hr
      · simp at hr
      · split at hr
        · simp only [Out.ok, List.mem_singleton] at hr; subst hr; simp [DtdPosKind]
        · simp [Out.ok] at hr

theorem dtd_xmlError_pos (xmlParse : Bytes → ParseRes) (i : Inp) (d : Bytes) (e : Nat × Nat × Text)
    (he : (xmlParse d).err = some e) : ∀ r ∈ (xmlError i.l10n.val e).results, DtdPosKind xmlParse i r.pos := by
  intro r hr
  unfold xmlError at hr
  split at hr
  · rename_i l c hpos
    simp only [Out.ok, List.mem_singleton] at hr
    subst hr
    simp only [DtdPosKind]
    right
    exact ⟨d, e.1, e.2.1, e.2.2, he, hpos⟩
  · simp at hr

theorem dtd_l10n_pos (xmlParse : Bytes → ParseRes) (i : Inp) :
    ∀ r ∈ (l10nSection xmlParse i).1.results, DtdPosKind xmlParse i r.pos := by
  intro r hr
  unfold l10nSection at hr
  simp only at hr
  split at hr
  · simp at hr
  · rename_i d3 _
    split at hr
    · rename_i e he
      exact dtd_xmlError_pos xmlParse i d3 e he r hr
    · split at hr
      · simp at hr
      · rename_i d4 _
        split at hr
        · rename_i e he
          exact dtd_xmlError_pos xmlParse i d4 e he r hr
        · simp [Out.ok] at hr

theorem dtd_style_pos (refMap : List (Text × Text)) (lm : Option (List (Text × Text))) (errs : Option (List CssErr)) :
    ∀ r ∈ checkStyle refMap lm errs, r.pos = .num 0 := by
  intro r hr
  unfold checkStyle at hr
  split at hr
  · simp only [List.mem_singleton] at hr; subst hr; rfl
  · simp only [List.mem_singleton] at hr; subst hr; rfl
  · split at hr
    · simp only [List.mem_singleton] at hr; subst hr; rfl
    · simp only at hr
      split at hr
      · simp only [List.mem_singleton] at hr; subst hr; rfl
      · simp at hr

theorem dtd_maybeStyle_pos (a b : Text) : ∀ r ∈ maybeStyle a b, r.pos = .num 0 := by
  intro r hr
  unfold maybeStyle at hr
  split at hr
  · simp at hr
  · simp at hr
  · exact dtd_style_pos _ _ _ r hr

theorem dtd_android_pos (v : Text) : ∀ r ∈ (androidSection v).results, ∃ n, r.pos = .num n := by
  intro r hr
  unfold androidSection at hr
  rcases andThen_mem _ _ r hr with h | h
  · split at h
    · simp [Out.ok] at h
    · simp only [Out.ok, List.mem_singleton] at h; subst h; exact ⟨_, rfl⟩
    · simp at h
    · simp at h
  · simp only [Out.ok, List.mem_filterMap] at h
    obtain ⟨m, _, hm⟩ := h
    split at hm
    · split at hm
      · simp only [Option.some.injEq] at hm; subst hm; exact ⟨_, rfl⟩
      · cases hm
    · cases hm

/-- **every position `DTDChecker.check` yields**, whatever expat answers -/
theorem dtd_check_pos (xmlParse : Bytes → ParseRes) (i : Inp) :
    ∀ r ∈ (Dtd.check xmlParse i).results, DtdPosKind xmlParse i r.pos := by
  intro r hr
  unfold Dtd.check at hr
  rcases andThen_mem _ _ r hr with h | h
  · exact dtd_base_pos xmlParse i r (by simpa [Out.ok] using h)
  · rcases andThen_mem _ _ r h with h | h
    · exact dtd_ref_pos xmlParse i r h
    · simp only at h
      rcases andThen_mem _ _ r h with h | h
      · exact dtd_l10n_pos xmlParse i r h
      · rcases andThen_mem _ _ r h with h | h
        · simp only [Out.ok, List.mem_append] at h
          rcases h with (((h | h) | h) | h) | h
          · simp only [unknownSection, List.mem_map] at h
            obtain ⟨k, _, rfl⟩ := h
            simp [unknownWarning, DtdPosKind]
          · unfold mismatchSection at h
            simp only at h
            split at h
            · simp only [List.mem_map] at h
              obtain ⟨k, _, rfl⟩ := h
              simp [DtdPosKind]
            · simp at h
          · unfold numberSection at h
            split at h
            · simp only [List.mem_singleton] at h; subst h; simp [DtdPosKind]
            · simp at h
          · unfold lengthSection at h
            split at h
            · simp only [List.mem_singleton] at h; subst h; simp [DtdPosKind]
            · simp at h
          · rw [dtd_maybeStyle_pos _ _ r h]; simp [DtdPosKind]
        · split at h
          · rename_i ha
            obtain ⟨n, hn⟩ := dtd_android_pos _ r h
            rw [hn]
            exact Or.inr ha
          · simp [Out.ok] at h

/-! ### how an expat position is mapped back -/

/-- `errorPos` by cases on expat's line, for an error inside the documents' value part:
    expat line 2 is the `<elem>` line (first line of the value): `(1, col - 6)`;
    expat line `2 + j` (`j ≥ 1`) is line `1 + j` of the value: `(1 + j, col)` — expat's 0-based column unchanged;
    expat line 1 is the DOCTYPE line: `(0, col - 16)`. -/
theorem errorPos_inside (v : Text) (line col : Nat) (hline : (line : Int) - 1 ≤ (splitLines v).length) :
    errorPos v line col =
      some (if line = 2 then (1, (col : Int) - 6) else if (line : Int) - 1 = 0 then (0, (col : Int) - 16)
            else ((line : Int) - 1, (col : Int))) := by
  unfold errorPos
  simp only
  rw [if_neg (by omega)]
  by_cases h2 : line = 2
  · subst h2; simp
  · by_cases h1 : (line : Int) - 1 = 0
    · have hne : ¬ ((line : Int) - 1 == 1) = true := by simp; omega
      simp [hne, h1, h2]
    · have hne : ¬ ((line : Int) - 1 == 1) = true := by simp; omega
      have hne0 : ¬ ((line : Int) - 1 == 0) = true := by simpa using h1
      simp [hne, hne0, h1, h2]

/-! ### the start of the line of an offset, as `lineStartOfLine` sees it -/

open Pos in
theorem lso_take : ∀ (l : List Nat) (m n o : Nat), lineStartOfLine (l.take m) n = some o → lineStartOfLine l n = some o := by
  intro l
  induction l with
  | nil => intro m n o h; simpa using h
  | cons c t ih =>
    intro m n o h
    cases m with
    | zero =>
      simp only [List.take_zero] at h
      cases n with
      | zero => simpa [lineStartOfLine] using h
      | succ n => simp [lineStartOfLine] at h
    | succ m =>
      cases n with
      | zero => simpa [lineStartOfLine] using h
      | succ n =>
        simp only [List.take_succ_cons, lineStartOfLine, Option.map_eq_some_iff] at h ⊢
        obtain ⟨o', ho', rfl⟩ := h
        refine ⟨o', ?_, rfl⟩
        split at ho'
        · rename_i hc; simp only [hc, if_true]; exact ih m n o' ho'
        · rename_i hc; simp only [hc, if_false]; exact ih m (n + 1) o' ho'

open Pos in
/-- line `count of newlines before q` of `l` starts at `nlEndBefore l q` -/
theorem lso_of_offset (l : List Nat) (q : Nat) (hq : q ≤ l.length) :
    lineStartOfLine l ((l.take q).count 10) = some (nlEndBefore l q) := by
  have h := offsetOf_cursor l.toArray q
  rw [cursor_formula l.toArray q (by simpa using hq)] at h
  simp only [offsetOf, Nat.add_sub_cancel_left, Option.map_eq_some_iff] at h
  obtain ⟨o, ho, hoq⟩ := h
  have := nlEndBefore_le l q
  have : o = nlEndBefore l q := by omega
  rw [← this]; exact ho

end C17P

/-
C01 round 4 (complexity guard, part 3): for a regex all of whose repeats have `Single` bodies
(`Safe`), the number of backtracking outcomes and the size of the whole search tree of the engine
are bounded by explicit polynomials in the length of the text.

  `ends_len`   : Safe r → (ends s r st).length ≤ B s.size r
  `steps_le`   : Safe r → steps s r st ≤ C s.size r
  `B_le_cpow`, `C_le_cpow` : B n r ≤ cB r * (n+2)^(dB r),  C n r ≤ cC r * (n+2)^(dC r)   (constants and degrees depend on `r` only)

`steps` is the size of the exhaustive search tree (one unit per call of `m`/`loop`, every
continuation failing): the worst case for the caller.
-/
import CLModel.Proofs.C01Single
namespace C01P
open Rx

/-! ### the size of the search tree -/

def loopS (bodyE : St → List St) (bodyS : St → Nat) : Nat → Nat → Option Nat → St → Nat
  | 0, _, _, _ => 1
  | fuel + 1, mn, mx, st =>
    1 + (if mx == some 0 then 0 else
      bodyS st + ((bodyE st).map (fun st' =>
        if st'.pos ≤ st.pos then 1 else loopS bodyE bodyS fuel (mn - 1) (mx.map (· - 1)) st')).sum)

/-- number of calls of `m` / `loop` in the exhaustive search from `st` (all continuations fail) -/
def steps (s : Array Nat) : Re → St → Nat
  | .seq a b, st => 1 + steps s a st + ((ends s a st).map (fun st' => steps s b st')).sum
  | .alt a b, st => 1 + steps s a st + steps s b st
  | .group _ r, st => 1 + steps s r st
  | .look true _ r, st => 1 + steps s r st
  | .look false _ r, st => 1 + steps s r { st with pos := st.pos - 1 }
  | .rep mn mx _ r, st =>
      loopS (fun st' => ends s r st') (fun st' => steps s r st') (s.size + 2 - st.pos) mn mx st
  | _, _ => 1

/-- bound on the number of outcomes (`n` = length of the text) -/
def B (n : Nat) : Re → Nat
  | .seq a b => B n a * B n b
  | .alt a b => B n a + B n b
  | .group _ r => B n r
  | .rep _ _ _ _ => n + 2
  | _ => 1

/-- bound on the size of the search tree -/
def C (n : Nat) : Re → Nat
  | .seq a b => 1 + C n a + B n a * C n b
  | .alt a b => 1 + C n a + C n b
  | .group _ r => 1 + C n r
  | .look _ _ r => 1 + C n r
  | .rep _ _ _ r => (n + 2) * (2 + C n r) + 1
  | _ => 1

theorem loopE_len (bodyE : St → List St) (g : Bool) (h1 : ∀ st, (bodyE st).length ≤ 1) :
    ∀ fuel mn mx st, (loopE bodyE g fuel mn mx st).length ≤ fuel := by
  intro fuel
  induction fuel with
  | zero => intro mn mx st; simp [loopE]
  | succ fuel ih =>
    intro mn mx st
    have hmore : (if mx == some 0 then [] else
          (bodyE st).flatMap (fun st' =>
            if st'.pos ≤ st.pos then [] else loopE bodyE g fuel (mn - 1) (mx.map (· - 1)) st')).length ≤ fuel := by
      split
      · simp
      · have := flatMap_length_le (bodyE st) (fun st' =>
            if st'.pos ≤ st.pos then [] else loopE bodyE g fuel (mn - 1) (mx.map (· - 1)) st') fuel
          (fun x _ => by
            split
            · simp
            · exact ih _ _ _)
        have h := h1 st
        calc _ ≤ (bodyE st).length * fuel := this
          _ ≤ 1 * fuel := Nat.mul_le_mul_right _ h
          _ = fuel := Nat.one_mul _
    simp only [loopE]
    split
    · omega
    · split
      · simp only [List.length_append, List.length_cons, List.length_nil]; omega
      · simp only [List.length_cons]; omega

theorem look_len (s : Array Nat) (ahead neg : Bool) (r : Re) (st : St) :
    (ends s (.look ahead neg r) st).length ≤ 1 := by
  cases ahead <;> simp only [ends] <;> split <;> split <;> simp

/-- number of backtracking outcomes of a `Safe` regex -/
theorem ends_len (s : Array Nat) : ∀ r, Safe r = true → ∀ st, (ends s r st).length ≤ B s.size r := by
  intro r
  induction r with
  | eps => intro _ st; simp [ends, B]
  | lit c => intro _ st; exact atom_len_le_one s _ rfl st
  | notLit c => intro _ st; exact atom_len_le_one s _ rfl st
  | any d => intro _ st; exact atom_len_le_one s _ rfl st
  | cls n i => intro _ st; exact atom_len_le_one s _ rfl st
  | backref i => intro _ st; exact Single_sound s (.backref i) rfl st
  | bol ml => intro _ st; exact Single_sound s (.bol ml) rfl st
  | eol ml => intro _ st; exact Single_sound s (.eol ml) rfl st
  | eos => intro _ st; exact Single_sound s .eos rfl st
  | look a n r _ => intro _ st; exact look_len s a n r st
  | seq a b iha ihb =>
    intro h st
    simp only [Safe, Bool.and_eq_true] at h
    simp only [ends, B]
    calc _ ≤ (ends s a st).length * B s.size b := flatMap_length_le _ _ _ (fun x _ => ihb h.2 x)
      _ ≤ B s.size a * B s.size b := Nat.mul_le_mul_right _ (iha h.1 st)
  | alt a b iha ihb =>
    intro h st
    simp only [Safe, Bool.and_eq_true] at h
    simp only [ends, B, List.length_append]
    exact Nat.add_le_add (iha h.1 st) (ihb h.2 st)
  | group i r ih =>
    intro h st
    simp only [Safe] at h
    simpa [ends, B] using ih h st
  | rep mn mx g r _ =>
    intro h st
    simp only [Safe, Bool.and_eq_true] at h
    simp only [ends, B]
    have := loopE_len (fun st' => ends s r st') g (fun st' => Single_sound s r h.1 st')
      (s.size + 2 - st.pos) mn mx st
    omega

theorem loopS_le (bodyE : St → List St) (bodyS : St → Nat) (c : Nat)
    (h1 : ∀ st, (bodyE st).length ≤ 1) (hs : ∀ st, bodyS st ≤ c) :
    ∀ fuel mn mx st, loopS bodyE bodyS fuel mn mx st ≤ fuel * (2 + c) + 1 := by
  intro fuel
  induction fuel with
  | zero => intro mn mx st; simp [loopS]
  | succ fuel ih =>
    intro mn mx st
    simp only [loopS]
    split
    · simp only [Nat.succ_mul]; omega
    · have hsum := sum_map_le (bodyE st) (fun st' =>
          if st'.pos ≤ st.pos then 1 else loopS bodyE bodyS fuel (mn - 1) (mx.map (· - 1)) st')
        (fuel * (2 + c) + 1)
        (fun x _ => by
          split
          · omega
          · exact ih _ _ _)
      have hl := h1 st
      have hb := hs st
      have : (bodyE st).length * (fuel * (2 + c) + 1) ≤ 1 * (fuel * (2 + c) + 1) :=
        Nat.mul_le_mul_right _ hl
      simp only [Nat.succ_mul]
      omega

/-- size of the search tree of a `Safe` regex -/
theorem steps_le (s : Array Nat) : ∀ r, Safe r = true → ∀ st, steps s r st ≤ C s.size r := by
  intro r
  induction r with
  | eps | lit _ | notLit _ | any _ | cls _ _ | backref _ | bol _ | eol _ | eos =>
    intro _ st; simp [steps, C]
  | look a n r ih =>
    intro h st
    simp only [Safe] at h
    cases a <;> simp only [steps, C] <;> have := ih h <;> simp only [Nat.add_le_add_iff_left] <;> exact this _
  | seq a b iha ihb =>
    intro h st
    simp only [Safe, Bool.and_eq_true] at h
    simp only [steps, C]
    have h1 := iha h.1 st
    have h2 := sum_map_le (ends s a st) (fun st' => steps s b st') (C s.size b) (fun x _ => ihb h.2 x)
    have h3 : (ends s a st).length * C s.size b ≤ B s.size a * C s.size b :=
      Nat.mul_le_mul_right _ (ends_len s a h.1 st)
    omega
  | alt a b iha ihb =>
    intro h st
    simp only [Safe, Bool.and_eq_true] at h
    simp only [steps, C]
    have h1 := iha h.1 st
    have h2 := ihb h.2 st
    omega
  | group i r ih =>
    intro h st
    simp only [Safe] at h
    simp only [steps, C]
    have := ih h st
    omega
  | rep mn mx g r ih =>
    intro h st
    simp only [Safe, Bool.and_eq_true] at h
    simp only [steps, C]
    have := loopS_le (fun st' => ends s r st') (fun st' => steps s r st') (C s.size r)
      (fun st' => Single_sound s r h.1 st') (fun st' => ih h.2 st') (s.size + 2 - st.pos) mn mx st
    have hf : (s.size + 2 - st.pos) * (2 + C s.size r) ≤ (s.size + 2) * (2 + C s.size r) :=
      Nat.mul_le_mul_right _ (by omega)
    omega

/-! ### the bounds are polynomials: explicit degree and constant from the syntax -/

/-- degree / constant of the bound on the number of outcomes: `B n r ≤ cB r * (n+2)^(dB r)` -/
def dB : Re → Nat
  | .seq a b => dB a + dB b
  | .alt a b => max (dB a) (dB b)
  | .group _ r => dB r
  | .rep _ _ _ _ => 1
  | _ => 0

def cB : Re → Nat
  | .seq a b => cB a * cB b
  | .alt a b => cB a + cB b
  | .group _ r => cB r
  | _ => 1

/-- degree / constant of the bound on the search tree: `C n r ≤ cC r * (n+2)^(dC r)` -/
def dC : Re → Nat
  | .seq a b => max (dC a) (dB a + dC b)
  | .alt a b => max (dC a) (dC b)
  | .group _ r => dC r
  | .look _ _ r => dC r
  | .rep _ _ _ r => dC r + 1
  | _ => 0

def cC : Re → Nat
  | .seq a b => 1 + cC a + cB a * cC b
  | .alt a b => 1 + cC a + cC b
  | .group _ r => 1 + cC r
  | .look _ _ r => 1 + cC r
  | .rep _ _ _ r => cC r + 3
  | _ => 1

theorem le_cpow {b x c i j : Nat} (hb : 1 ≤ b) (hx : x ≤ c * b ^ i) (hij : i ≤ j) : x ≤ c * b ^ j :=
  Nat.le_trans hx (Nat.mul_le_mul_left _ (Nat.pow_le_pow_right hb hij))

theorem cpow_mul {b x y c1 c2 i j : Nat} (hx : x ≤ c1 * b ^ i) (hy : y ≤ c2 * b ^ j) :
    x * y ≤ (c1 * c2) * b ^ (i + j) := by
  have := Nat.mul_le_mul hx hy
  rw [Nat.pow_add]
  calc x * y ≤ c1 * b ^ i * (c2 * b ^ j) := this
    _ = c1 * c2 * (b ^ i * b ^ j) := by
      rw [Nat.mul_assoc, Nat.mul_assoc, Nat.mul_left_comm (b ^ i) c2]

theorem B_le_cpow (n : Nat) : ∀ r, B n r ≤ cB r * (n + 2) ^ dB r := by
  intro r
  have hb : 1 ≤ n + 2 := by omega
  induction r with
  | seq a b iha ihb => simp only [B, cB, dB]; exact cpow_mul iha ihb
  | alt a b iha ihb =>
    simp only [B, cB, dB]
    have h1 := le_cpow hb iha (Nat.le_max_left (dB a) (dB b))
    have h2 := le_cpow hb ihb (Nat.le_max_right (dB a) (dB b))
    rw [Nat.add_mul]
    omega
  | group i r ih => simpa [B, cB, dB] using ih
  | rep mn mx g r _ => simp [B, cB, dB]
  | _ => simp [B, cB, dB]

theorem C_le_cpow (n : Nat) : ∀ r, C n r ≤ cC r * (n + 2) ^ dC r := by
  intro r
  have hb : 1 ≤ n + 2 := by omega
  induction r with
  | seq a b iha ihb =>
    simp only [C, cC, dC]
    have h0 : 1 ≤ (n + 2) ^ max (dC a) (dB a + dC b) := Nat.one_le_pow _ _ (by omega)
    have h1 := le_cpow hb iha (Nat.le_max_left (dC a) (dB a + dC b))
    have h2 := le_cpow hb (cpow_mul (B_le_cpow n a) ihb) (Nat.le_max_right (dC a) (dB a + dC b))
    rw [Nat.add_mul, Nat.add_mul, Nat.one_mul]
    omega
  | alt a b iha ihb =>
    simp only [C, cC, dC]
    have h0 : 1 ≤ (n + 2) ^ max (dC a) (dC b) := Nat.one_le_pow _ _ (by omega)
    have h1 := le_cpow hb iha (Nat.le_max_left (dC a) (dC b))
    have h2 := le_cpow hb ihb (Nat.le_max_right (dC a) (dC b))
    rw [Nat.add_mul, Nat.add_mul, Nat.one_mul]
    omega
  | group i r ih =>
    simp only [C, cC, dC]
    have h0 : 1 ≤ (n + 2) ^ dC r := Nat.one_le_pow _ _ (by omega)
    rw [Nat.add_mul, Nat.one_mul]
    omega
  | look a ng r ih =>
    simp only [C, cC, dC]
    have h0 : 1 ≤ (n + 2) ^ dC r := Nat.one_le_pow _ _ (by omega)
    rw [Nat.add_mul, Nat.one_mul]
    omega
  | rep mn mx g r ih =>
    simp only [C, cC, dC]
    have h0 : 1 ≤ (n + 2) ^ dC r := Nat.one_le_pow _ _ (by omega)
    -- (n+2) * (2 + C) + 1 ≤ (n+2) * ((cC + 2) * p) + p*(n+2) = (cC + 3) * (p * (n+2))
    have h1 : 2 + C n r ≤ (cC r + 2) * (n + 2) ^ dC r := by
      rw [Nat.add_mul]; omega
    have h2 : (n + 2) * (2 + C n r) ≤ (n + 2) * ((cC r + 2) * (n + 2) ^ dC r) := Nat.mul_le_mul_left _ h1
    have h3 : 1 ≤ (n + 2) ^ dC r * (n + 2) := Nat.le_trans h0 (Nat.le_mul_of_pos_right _ (by omega))
    have e1 : (n + 2) * ((cC r + 2) * (n + 2) ^ dC r) = (cC r + 2) * ((n + 2) ^ dC r * (n + 2)) := by
      rw [Nat.mul_comm (n + 2), Nat.mul_assoc]
    rw [Nat.pow_succ]
    have e2 : (cC r + 3) * ((n + 2) ^ dC r * (n + 2)) =
        (cC r + 2) * ((n + 2) ^ dC r * (n + 2)) + (n + 2) ^ dC r * (n + 2) := by
      rw [show cC r + 3 = (cC r + 2) + 1 from rfl, Nat.add_mul, Nat.one_mul]
    omega
  | _ => simp [C, cC, dC]

/-- the complexity guard in one statement: for a `Safe` regex, one match attempt at any position of a
    text of length `n` explores a search tree of at most `cC r * (n+2)^(dC r)` nodes; constant and
    degree depend on the regex only -/
theorem steps_poly (s : Array Nat) (r : Re) (h : Safe r = true) (st : St) :
    steps s r st ≤ cC r * (s.size + 2) ^ dC r :=
  Nat.le_trans (steps_le s r h st) (C_le_cpow s.size r)

theorem ends_poly (s : Array Nat) (r : Re) (h : Safe r = true) (st : St) :
    (ends s r st).length ≤ cB r * (s.size + 2) ^ dB r :=
  Nat.le_trans (ends_len s r h st) (B_le_cpow s.size r)

end C01P

/- C02 (round 4), properties: the SPAN side for the full record grammar — multi-line `#` / `!` comment blocks, separators
   `=` / `:` with blanks, values with backslash escapes and continuation lines, blank lines between records,
   stand-alone comments. -/
import CLModel.Proofs.C02PCore
import CLModel.Proofs.C02XInc
import CLModel.Proofs.C02XComment
namespace C02P
open Rx P Gen.Pat C02X

/-! ### comment blocks -/

/-- `#` or `!` -/
def isMark (c : Nat) : Bool := c == 35 || c == 33

theorem inC_mark (c : Nat) : inC false [.ch 35, .ch 33] c = isMark c := by simp [inC, ClsItem.has, isMark]

/-- a comment line: its marker and its text -/
abbrev CLine := Nat × List Nat

/-- comment lines joined by newlines (no newline after the last one) -/
def printCLines : List CLine → List Nat
  | [] => []
  | [l] => l.1 :: l.2
  | l :: l' :: ls => l.1 :: (l.2 ++ 10 :: printCLines (l' :: ls))

def CLine.Good (l : CLine) : Prop := isMark l.1 = true ∧ ∀ x ∈ l.2, x ≠ 10

def pcBody : Re := Re.seq (Re.cls false [.ch 35, .ch 33]) (Re.seq (Re.rep 0 none true (Re.notLit 10)) (Re.lit 10))
def pcLast : Re := Re.seq (Re.cls false [.ch 35, .ch 33]) (Re.rep 0 none true (Re.notLit 10))

theorem propsComment_eq : PropertiesParser_reComment = Re.seq (Re.rep 0 none true pcBody) pcLast := rfl

theorem pcBody_line (s : Array Nat) (p mk : Nat) (t rest : List Nat) (caps) (h : At s p (mk :: (t ++ 10 :: rest)))
    (hm : isMark mk = true) (ht : ∀ x ∈ t, x ≠ 10) (k' : K) :
    m s pcBody ⟨p, caps⟩ k' = k' ⟨p + t.length + 2, caps⟩ := by
  have h1 := h.tail
  have hp : p + 1 < s.size := h1.pos_lt (by simp)
  unfold pcBody
  rw [m_seq, m_cls_charStep, step_at _ h (by rw [inC_mark]; exact hm), m_seq, m_rep, m_notLit_charStep]
  simp only []
  rw [greedy_at_exact _ caps _ h1 (fun x hx => by simp [ht x hx]) (by intro x hx; simp at hx; subst hx; decide)
    (fun j hj => lit_fail s _ 10 caps (by rw [h1.left j hj]; simp [ht _ (List.getElem_mem hj)]) _) (by omega)]
  rw [lit_at h1.app, show p + 1 + t.length + 1 = p + t.length + 2 by omega]

theorem pcBody_fail_head (s : Array Nat) (p : Nat) (l : List Nat) (caps) (h : At s p l)
    (hl : ∀ c, l.head? = some c → isMark c = false) (k' : K) : m s pcBody ⟨p, caps⟩ k' = none := by
  unfold pcBody
  rw [m_seq, m_cls_charStep, step_at_fail _ h (fun c hc => by rw [inC_mark]; exact hl c hc)]

/-- a comment line that is not followed by a newline (end of the text) is not a further FULL line -/
theorem pcBody_fail_eof (s : Array Nat) (p mk : Nat) (t : List Nat) (caps) (h : At s p (mk :: t))
    (hm : isMark mk = true) (ht : ∀ x ∈ t, x ≠ 10) (k' : K) : m s pcBody ⟨p, caps⟩ k' = none := by
  have h1 : At s (p + 1) (t ++ []) := by simpa using h.tail
  have hp : p < s.size := h.pos_lt (by simp)
  unfold pcBody
  rw [m_seq, m_cls_charStep, step_at _ h (by rw [inC_mark]; exact hm), m_seq, m_rep, m_notLit_charStep]
  simp only []
  rw [greedy_at_exact _ caps _ h1 (fun x hx => by simp [ht x hx]) (by intro x hx; simp at hx)
    (fun j hj => lit_fail s _ 10 caps (by rw [h1.left j hj]; simp [ht _ (List.getElem_mem hj)]) _) (by omega)]
  exact lit_at_fail h1.app (by simp) caps k'

theorem pcLast_line (s : Array Nat) (p mk : Nat) (t rest : List Nat) (h : At s p (mk :: (t ++ rest)))
    (hm : isMark mk = true) (ht : ∀ x ∈ t, x ≠ 10) (hr : ∀ c, rest.head? = some c → c = 10) :
    m s pcLast ⟨p, []⟩ some = some ⟨p + t.length + 1, []⟩ := by
  have h1 := h.tail
  have hp : p < s.size := h.pos_lt (by simp)
  unfold pcLast
  rw [m_seq, m_cls_charStep, step_at _ h (by rw [inC_mark]; exact hm), m_rep, m_notLit_charStep]
  simp only []
  rw [greedy_at _ [] some _ 0 h1 (fun x hx => by simp [ht x hx]) (by intro x hx; simp [hr x hx]) (by omega) (by omega) rfl]
  rw [show p + 1 + t.length = p + t.length + 1 by omega]

theorem pcLast_fail (s : Array Nat) (p : Nat) (l : List Nat) (caps) (h : At s p l)
    (hl : ∀ c, l.head? = some c → isMark c = false) (k' : K) : m s pcLast ⟨p, caps⟩ k' = none := by
  unfold pcLast
  rw [m_seq, m_cls_charStep, step_at_fail _ h (fun c hc => by rw [inC_mark]; exact hl c hc)]

/-- what follows a comment block: the end of the text, or a newline that is not followed by a further comment line -/
def AfterComment (rest : List Nat) : Prop :=
  rest = [] ∨ ∃ r', rest = 10 :: r' ∧ ∀ c, r'.head? = some c → isMark c = false

theorem printCLines_cons2 (l l' : CLine) (ls : List CLine) :
    printCLines (l :: l' :: ls) = l.1 :: (l.2 ++ 10 :: printCLines (l' :: ls)) := rfl

/-- the greedy star over full comment lines, then the last line: exactly the printed block -/
theorem pc_loop (s : Array Nat) : ∀ (ls : List CLine) (l : CLine) (p fuel : Nat) (rest : List Nat),
    At s p (printCLines (l :: ls) ++ rest) → (∀ x ∈ l :: ls, CLine.Good x) → AfterComment rest → ls.length + 1 < fuel →
    loop (m s pcBody) true fuel 0 none ⟨p, []⟩ (fun st => m s pcLast st some) =
      some ⟨p + (printCLines (l :: ls)).length, []⟩ := by
  intro ls
  induction ls with
  | nil =>
    intro l p fuel rest h hg hr hf
    obtain ⟨f, rfl⟩ : ∃ f, fuel = f + 1 := ⟨fuel - 1, by omega⟩
    obtain ⟨hm, ht⟩ := hg l (by simp)
    have h' : At s p (l.1 :: (l.2 ++ rest)) := by simpa [At, printCLines] using h
    have hlast := pcLast_line s p l.1 l.2 rest h' hm ht (by
      intro c hc
      rcases hr with rfl | ⟨r', rfl, _⟩
      · simp at hc
      · simpa using hc.symm)
    have hmore : m s pcBody ⟨p, []⟩ (fun st' => if st'.pos ≤ p then none else
        loop (m s pcBody) true f (0 - 1) ((none : Option Nat).map (· - 1)) st' (fun st => m s pcLast st some)) = none := by
      rcases hr with rfl | ⟨r', rfl, hr'⟩
      · exact pcBody_fail_eof s p l.1 l.2 [] (by simpa using h') hm ht _
      · rw [pcBody_line s p l.1 l.2 r' [] h' hm ht]
        simp only [show ¬ (p + l.2.length + 2 ≤ p) by omega, if_false]
        have h2 : At s (p + l.2.length + 2) r' := by
          have := h'.tail.app.tail
          rw [show p + 1 + l.2.length + 1 = p + l.2.length + 2 by omega] at this
          exact this
        cases f with
        | zero => rw [loop]
        | succ f' =>
          rw [loop_body_fail _ true f' _ _ _ (fun k' => pcBody_fail_head s _ r' [] h2 hr' k')]
          exact pcLast_fail s _ r' [] h2 hr' _
    rw [loop]
    simp only [show ((none : Option Nat) == some 0) = false from rfl, Bool.false_eq_true, if_false, hmore]
    simp only [Nat.lt_irrefl, if_false, if_true]
    simp [hlast, printCLines]
    omega
  | cons l' ls ih =>
    intro l p fuel rest h hg hr hf
    obtain ⟨f, rfl⟩ : ∃ f, fuel = f + 1 := ⟨fuel - 1, by omega⟩
    obtain ⟨hm, ht⟩ := hg l (by simp)
    have h' : At s p (l.1 :: (l.2 ++ 10 :: (printCLines (l' :: ls) ++ rest))) := by
      simpa [At, printCLines_cons2] using h
    have h2 : At s (p + l.2.length + 2) (printCLines (l' :: ls) ++ rest) := by
      have := h'.tail.app.tail
      rw [show p + 1 + l.2.length + 1 = p + l.2.length + 2 by omega] at this
      exact this
    have ihh := ih l' (p + l.2.length + 2) f rest h2 (fun x hx => hg x (by simp at hx ⊢; right; exact hx)) hr
      (by simp at hf; omega)
    rw [loop]
    simp only [show ((none : Option Nat) == some 0) = false from rfl, Bool.false_eq_true, if_false,
      pcBody_line s p l.1 l.2 _ [] h' hm ht, show ¬ (p + l.2.length + 2 ≤ p) by omega, Option.map_none, Nat.zero_sub, ihh]
    simp [printCLines_cons2]
    omega

theorem printCLines_len (ls : List CLine) : ls.length ≤ (printCLines ls).length := by
  induction ls with
  | nil => simp [printCLines]
  | cons l ls ih =>
    cases ls with
    | nil => simp [printCLines]
    | cons l' ls' => simp only [printCLines_cons2, List.length_cons, List.length_append] at ih ⊢; omega

theorem props_comment_at (s : Array Nat) (p : Nat) (ls : List CLine) (rest : List Nat) (hne : ls ≠ [])
    (hg : ∀ x ∈ ls, CLine.Good x) (hr : AfterComment rest) (h : At s p (printCLines ls ++ rest)) :
    matchAt s PropertiesParser_reComment p = some ⟨p + (printCLines ls).length, []⟩ := by
  cases ls with
  | nil => exact absurd rfl hne
  | cons l ls =>
    have hl := h.len
    have := printCLines_len (l :: ls)
    simp only [List.length_append, List.length_cons] at hl this
    rw [propsComment_eq]
    simp only [matchAt, m_seq, m_rep]
    exact pc_loop s ls l p _ rest h hg hr (by omega)

theorem props_comment_none_at (s : Array Nat) (p : Nat) (l : List Nat) (hl : ∀ c, l.head? = some c → isMark c = false)
    (h : At s p l) : matchAt s PropertiesParser_reComment p = none := by
  rw [propsComment_eq]
  simp only [matchAt, m_seq, m_rep]
  cases hf : s.size + 2 - p with
  | zero => rw [loop]
  | succ f =>
    rw [loop_body_fail _ true f _ _ _ (fun k' => pcBody_fail_head s p l [] h hl k')]
    exact pcLast_fail s p l [] h hl _

/-! ### the key regex -/

def isBlank (c : Nat) : Bool := c == 32 || c == 9

theorem inC_blank (c : Nat) : inC false [.ch 32, .ch 9] c = isBlank c := by simp [inC, ClsItem.has, isBlank]

/-- key and separator of a printed record: first key character, the other key characters, blanks, `=` or `:`, blanks -/
structure PKey where
  k0 : Nat
  kt : List Nat
  b1 : List Nat
  sep : Nat
  b2 : List Nat

def PKey.key (k : PKey) : List Nat := k.k0 :: k.kt
def PKey.print (k : PKey) : List Nat := k.k0 :: (k.kt ++ (k.b1 ++ k.sep :: k.b2))

structure PKey.Good (k : PKey) : Prop where
  k0 : propsKeyChar k.k0 = true
  kt : ∀ c ∈ k.kt, c ≠ 61 ∧ c ≠ 58 ∧ c ≠ 10 ∧ c ≠ 32 ∧ c ≠ 9
  b1 : ∀ c ∈ k.b1, isBlank c = true
  sep : k.sep = 61 ∨ k.sep = 58
  b2 : ∀ c ∈ k.b2, isBlank c = true

theorem PKey.print_length (k : PKey) : k.print.length = 1 + k.kt.length + k.b1.length + 1 + k.b2.length := by
  simp [PKey.print]; omega

theorem props_key_at (s : Array Nat) (p : Nat) (k : PKey) (rest : List Nat) (hg : k.Good)
    (hr : ∀ c, rest.head? = some c → isBlank c = false) (h : At s p (k.print ++ rest)) :
    matchAt s PropertiesParser_reKey p = some ⟨p + k.print.length, [(1, p, p + 1 + k.kt.length)]⟩ := by
  have h0 : At s p (k.k0 :: (k.kt ++ (k.b1 ++ k.sep :: (k.b2 ++ rest)))) := by simpa [At, PKey.print] using h
  have h1 := h0.tail
  have h2 := h1.app
  have h3 := h2.app
  have h4 := h3.tail
  have hp0 : p < s.size := h0.pos_lt (by simp)
  have hp3 : p + 1 + k.kt.length + k.b1.length < s.size := h3.pos_lt (by simp)
  have f0 := keyChar_facts hg.k0
  have hsepb : isBlank k.sep = false := by rcases hg.sep with h | h <;> rw [h] <;> decide
  simp only [matchAt, PropertiesParser_reKey, m_seq, m_group, m_rep, m_cls_charStep]
  rw [step_at _ h0 (by simp [inC, ClsItem.has, f0])]
  apply lazy_at _ [] _ _ h1 (fun c hc => by have := hg.kt c hc; simp [inC, ClsItem.has, this])
  · intro j hj
    -- inside the key: no blank, no separator
    have hc := hg.kt _ (List.getElem_mem hj)
    have hget : s[p + 1 + j]? = some k.kt[j] := h1.left j hj
    simp only []
    apply charLoop_none s _ _ _ 0 _ (p + 1 + j) (by intro j' hj'; omega)
      (Or.inr ⟨_, by simpa using hget, by rw [inC_blank]; simp [isBlank, hc]⟩)
    intro j' hj'
    have : j' = 0 := by omega
    subst this
    exact charStep_fail s _ _ _ (Or.inr ⟨_, by simpa using hget, by simp [inC, ClsItem.has, hc]⟩) _
  · omega
  · simp only []
    apply greedy_at _ _ _ _ 0 h2 (fun c hc => by rw [inC_blank]; exact hg.b1 c hc)
      (by intro c hc; simp at hc; subst hc; rw [inC_blank]; exact hsepb) (by omega) (by omega)
    rw [step_at _ h3 (by rcases hg.sep with h | h <;> rw [h] <;> decide)]
    apply greedy_at _ _ _ _ 0 h4 (fun c hc => by rw [inC_blank]; exact hg.b2 c hc)
      (by intro c hc; rw [inC_blank]; exact hr c hc) (by omega) (by omega)
    simp [PKey.print_length]
    omega

/-! ### value lines: the `_escapedEnd` test and the `while True` loop -/

/-- a physical line of a value: a text that does not end in a backslash, followed by `bs` backslashes -/
structure VLine where
  body : List Nat
  bs : Nat

def VLine.text (l : VLine) : List Nat := l.body ++ List.replicate l.bs 92

structure VLine.Good (l : VLine) : Prop where
  nonl : ∀ c ∈ l.body, c ≠ 10
  last : l.body.getLast? ≠ some 92

theorem VLine.text_nonl (l : VLine) (hg : l.Good) : ∀ c ∈ l.text, c ≠ 10 := by
  intro c hc
  simp only [VLine.text, List.mem_append, List.mem_replicate] at hc
  rcases hc with hc | ⟨_, rfl⟩
  · exact hg.nonl c hc
  · decide

theorem at_extract {s : Array Nat} {p : Nat} {a b : List Nat} (h : At s p (a ++ b)) :
    At (s.extract 0 (p + a.length)) p a := by
  unfold At at h ⊢
  rw [Array.toList_extract, List.extract_eq_drop_take]
  simp only [Nat.sub_zero, List.drop_zero, List.drop_take, Nat.add_sub_cancel_left, h, List.take_left]

theorem extract_size {s : Array Nat} {p : Nat} {a b : List Nat} (h : At s p (a ++ b)) (hb : b ≠ []) :
    (s.extract 0 (p + a.length)).size = p + a.length := by
  have := h.size_ge (by simp [hb])
  simp only [List.length_append] at this
  simp; omega

theorem span92 : ∀ l : List Nat, ∃ r tail, l = List.replicate r 92 ++ tail ∧ tail.head? ≠ some 92 := by
  intro l
  induction l with
  | nil => exact ⟨0, [], rfl, by simp⟩
  | cons c t ih =>
    by_cases hc : c = 92
    · obtain ⟨r, tail, e, ht⟩ := ih
      exact ⟨r + 1, tail, by rw [e, hc]; rfl, ht⟩
    · exact ⟨0, c :: t, rfl, by simp [hc]⟩

theorem loop_min1_none (body : St → K → Option St) (fuel : Nat) (mx : Option Nat) (st : St) (k : K)
    (h : loop body true fuel 0 mx st k = none) : loop body true fuel 1 mx st k = none := by
  have key : ∀ (a : Option St) (b : Unit → Option St), a.orElse b = none → a = none := by
    intro a b h; cases a <;> simp_all
  cases fuel with
  | zero => rw [loop]
  | succ f =>
    rw [loop] at h ⊢
    simp only [gt_iff_lt, Nat.lt_irrefl, if_false, if_true] at h
    simp only [gt_iff_lt, show (0 : Nat) < 1 by omega, if_true]
    exact key _ _ h

theorem m_eol_false (s : Array Nat) (st : St) (k : K) (h1 : st.pos ≠ s.size) (h2 : s[st.pos]? ≠ some 10) :
    m s (.eol false) st k = none := by
  rw [m]
  simp [h1, h2]

theorem m_eol_end (s : Array Nat) (st : St) (k : K) (h1 : st.pos = s.size) : m s (.eol false) st k = k st := by
  rw [m]
  simp [h1]

theorem escapedEnd_eq : PropertiesParser__escapedEnd = Re.seq (Re.rep 1 none true (Re.lit 92)) (Re.eol false) := rfl

/-- no match of `\\+$` inside the body of a line -/
theorem escapedEnd_none_in_body (s' : Array Nat) (p : Nat) (l : VLine) (hg : l.Good) (h : At s' p l.text)
    (hsz : s'.size = p + l.text.length) (j : Nat) (hj : j < l.body.length) :
    matchAt s' PropertiesParser__escapedEnd (p + j) = none := by
  obtain ⟨r, tail, e, ht⟩ := span92 (l.body.drop j)
  have htne : tail ≠ [] := by
    intro hh
    rw [hh, List.append_nil] at e
    have h1 : (l.body.drop j).getLast? = l.body.getLast? := by
      rw [List.getLast?_drop]; simp [show ¬ l.body.length ≤ j by omega]
    rw [e, List.getLast?_replicate] at h1
    by_cases hr : r = 0
    · have : (l.body.drop j).length = 0 := by rw [e, hr]; simp
      simp at this; omega
    · simp only [hr, if_false] at h1
      exact hg.last h1.symm
  obtain ⟨pre, hbody, hpl⟩ : ∃ pre, l.body = pre ++ (List.replicate r 92 ++ tail) ∧ pre.length = j :=
    ⟨l.body.take j, by rw [← e, List.take_append_drop], by simp [List.length_take]; omega⟩
  have hat : At s' (p + j) (List.replicate r 92 ++ (tail ++ List.replicate l.bs 92)) := by
    have h' : At s' p (pre ++ (List.replicate r 92 ++ (tail ++ List.replicate l.bs 92))) := by
      have : l.text = pre ++ (List.replicate r 92 ++ (tail ++ List.replicate l.bs 92)) := by
        unfold VLine.text
        rw [hbody]
        simp
      rw [← this]; exact h
    have := h'.app
    rw [hpl] at this
    exact this
  have hlen : j + r + tail.length = l.body.length := by
    have := congrArg List.length hbody
    simp at this
    omega
  have htpos : 0 < tail.length := List.length_pos_iff.mpr htne
  have hbl : l.body.length ≤ l.text.length := by simp [VLine.text]
  rw [escapedEnd_eq]
  simp only [matchAt, m_seq, m_rep, m_lit_charStep]
  apply loop_min1_none
  apply greedy_at_none _ _ _ _ hat (by intro c hc; simp at hc; simp [hc.2])
    (by
      intro c hc
      rw [head?_app_ne htne] at hc
      have : c ≠ 92 := by intro h92; rw [h92] at hc; exact ht hc
      simp [this])
  intro j' hj'
  simp only [List.length_replicate] at hj'
  apply m_eol_false
  · simp only []; omega
  · simp only []
    by_cases hj2 : j' < r
    · have := hat.left j' (by simpa using hj2)
      rw [this]; simp
    · have hj3 : j' = r := by omega
      subst hj3
      have hg2 := hat.app.head
      simp only [List.length_replicate] at hg2
      rw [hg2, head?_app_ne htne]
      cases hth : tail.head? with
      | none => simp
      | some c =>
        have hmem : c ∈ l.body := by
          rw [hbody]
          have : c ∈ tail := by
            cases tail with
            | nil => simp at hth
            | cons a t => simp at hth; subst hth; simp
          simp [this]
        simp [hg.nonl c hmem]

/-- `_escapedEnd.search(contents, offset, nextline)` on a printed line -/
theorem escapedEnd_line (s : Array Nat) (p : Nat) (l : VLine) (rest : List Nat) (hg : l.Good)
    (h : At s p (l.text ++ 10 :: rest)) :
    (l.bs = 0 → search (s.extract 0 (p + l.text.length)) PropertiesParser__escapedEnd p = none) ∧
    (0 < l.bs → search (s.extract 0 (p + l.text.length)) PropertiesParser__escapedEnd p =
      some (p + l.body.length, ⟨p + l.text.length, []⟩)) := by
  have hat := at_extract h
  have hsz := extract_size h (by simp)
  have hbl : l.text.length = l.body.length + l.bs := by simp [VLine.text]
  constructor
  · intro hb
    apply search_none_c02
    intro q hq1 hq2
    rw [hsz] at hq2
    by_cases hq : q < p + l.body.length
    · have := escapedEnd_none_in_body _ p l hg hat hsz (q - p) (by omega)
      rw [show p + (q - p) = q by omega] at this
      exact this
    · have hqe : q = p + l.text.length := by omega
      rw [escapedEnd_eq]
      simp only [matchAt, m_seq, m_rep, m_lit_charStep]
      have hat2 : At (s.extract 0 (p + l.text.length)) q [] := by
        rw [hqe]
        simpa using (show At (s.extract 0 (p + l.text.length)) p (l.text ++ []) by simpa using hat).app
      exact greedy_at_short _ _ _ _ 1 hat2 (by simp) (by omega)
  · intro hb
    have hat1 : At (s.extract 0 (p + l.text.length)) p (l.body ++ (List.replicate l.bs 92 ++ [])) := by
      simpa [VLine.text] using hat
    have hm : matchAt (s.extract 0 (p + l.text.length)) PropertiesParser__escapedEnd (p + l.body.length) =
        some ⟨p + l.text.length, []⟩ := by
      rw [escapedEnd_eq]
      simp only [matchAt, m_seq, m_rep, m_lit_charStep]
      apply greedy_at _ _ _ _ 1 hat1.app (by intro c hc; simp at hc; simp [hc.2]) (by simp) (by simp; omega)
        (by rw [hsz]; omega)
      rw [m_eol_end _ _ _ (by simp only [List.length_replicate]; rw [hsz]; omega)]
      simp only [List.length_replicate]
      rw [show p + l.body.length + l.bs = p + l.text.length by omega]
    exact search_first _ _ _ l.body.length p (by rw [hsz]; omega)
      (fun q hq1 hq2 => by
        have := escapedEnd_none_in_body _ p l hg hat hsz (q - p) (by omega)
        rw [show p + (q - p) = q by omega] at this
        exact this) hm

/-- the continued lines of a value, each with its newline -/
def linesText (ls : List VLine) : List Nat := (ls.map (fun l => l.text ++ [10])).flatten

@[simp] theorem linesText_nil : linesText [] = [] := rfl
@[simp] theorem linesText_cons (l : VLine) (ls : List VLine) : linesText (l :: ls) = l.text ++ 10 :: linesText ls := by
  simp [linesText]

/-- the raw value: continued lines (odd number of final backslashes) and the last line -/
def valueText (ls : List VLine) (ll : VLine) : List Nat := linesText ls ++ ll.text

theorem findNl_line (s : Array Nat) (p : Nat) (l : VLine) (rest : List Nat) (hg : l.Good)
    (h : At s p (l.text ++ 10 :: rest)) : findNl s p = some (p + l.text.length) := by
  apply findNl_at
  · intro j hj
    exact ⟨_, h.left j hj, l.text_nonl hg _ (List.getElem_mem hj)⟩
  · simpa using h.app.hd

/-- the `while True` loop of `getNext`: returns the end of the value and the start of its last physical line -/
theorem propsLines_at (s : Array Nat) : ∀ (ls : List VLine) (ll : VLine) (p fuel : Nat) (rest : List Nat),
    At s p (valueText ls ll ++ 10 :: rest) → (∀ l ∈ ls, l.Good ∧ l.bs % 2 = 1) → ll.Good → ll.bs % 2 = 0 →
    ls.length < fuel →
    propsLines s fuel p p = (p + (valueText ls ll).length, p + (linesText ls).length) := by
  intro ls
  induction ls with
  | nil =>
    intro ll p fuel rest h _ hgl hev hf
    obtain ⟨f, rfl⟩ : ∃ f, fuel = f + 1 := ⟨fuel - 1, by simp at hf; omega⟩
    have h' : At s p (ll.text ++ 10 :: rest) := by simpa [valueText] using h
    obtain ⟨e0, e1⟩ := escapedEnd_line s p ll rest hgl h'
    rw [propsLines, findNl_line s p ll rest hgl h']
    simp only []
    by_cases hb : ll.bs = 0
    · rw [e0 hb]; simp [valueText]
    · rw [e1 (by omega)]
      have hbl : ll.text.length = ll.body.length + ll.bs := by simp [VLine.text]
      have : (p + ll.text.length - (p + ll.body.length)) % 2 = 0 := by
        rw [show p + ll.text.length - (p + ll.body.length) = ll.bs by omega]; exact hev
      simp [this, valueText]
  | cons l ls ih =>
    intro ll p fuel rest h hg hgl hev hf
    obtain ⟨f, rfl⟩ : ∃ f, fuel = f + 1 := ⟨fuel - 1, by simp at hf; omega⟩
    obtain ⟨hgl1, hodd⟩ := hg l (by simp)
    have h' : At s p (l.text ++ 10 :: (valueText ls ll ++ 10 :: rest)) := by simpa [At, valueText] using h
    obtain ⟨_, e1⟩ := escapedEnd_line s p l _ hgl1 h'
    have hbl : l.text.length = l.body.length + l.bs := by simp [VLine.text]
    rw [propsLines, findNl_line s p l _ hgl1 h']
    simp only []
    rw [e1 (by omega)]
    have : ¬ ((p + l.text.length - (p + l.body.length)) % 2 == 0) = true := by
      rw [show p + l.text.length - (p + l.body.length) = l.bs by omega, hodd]; decide
    simp only [this, if_false]
    have h2 : At s (p + l.text.length + 1) (valueText ls ll ++ 10 :: rest) := h'.app.tail
    rw [ih ll (p + l.text.length + 1) f rest h2 (fun x hx => hg x (by simp [hx])) hgl hev (by simp at hf; omega)]
    simp [valueText]
    omega

/-! ### the value of a multi-line comment -/

/-- a line that ends in a newline, in front of more text -/
theorem splitLinesGo_line : ∀ (t cur R : List Nat), (∀ c ∈ t, isLineBreak c = false) →
    splitLinesGo cur (t ++ 10 :: R) = (cur.reverse ++ t ++ [10]) :: splitLinesGo [] R := by
  intro t
  induction t with
  | nil =>
    intro cur R _
    simp only [List.nil_append]
    conv => lhs; unfold splitLinesGo
    split
    · rename_i heq; cases heq
    · rename_i heq; injection heq with h1 _; cases h1
    · rename_i c' rest hne heq
      injection heq with h1 h2
      subst h1; subst h2
      simp [isLineBreak]
  | cons c t ih =>
    intro cur R hb
    have hc : isLineBreak c = false := hb c (by simp)
    have h13 : c ≠ 13 := by intro h; subst h; revert hc; decide
    have := ih (c :: cur) R (fun d hd => hb d (by simp [hd]))
    simp only [List.cons_append]
    conv => lhs; unfold splitLinesGo
    split
    · rename_i heq; cases heq
    · rename_i heq
      have : c = 13 := by injection heq
      exact absurd this h13
    · rename_i c' rest hne heq
      injection heq with h1 h2
      subst h1; subst h2
      simp only [hc, Bool.false_eq_true, if_false]
      rw [this]
      simp

/-- the comment lines without their markers -/
def cvalLines : List CLine → List Nat
  | [] => []
  | [l] => l.2
  | l :: l' :: ls => l.2 ++ 10 :: cvalLines (l' :: ls)

def CLine.NoBreak (l : CLine) : Prop := ∀ c ∈ l.2, isLineBreak c = false

theorem isMark_noBreak {c : Nat} (h : isMark c = true) : isLineBreak c = false := by
  simp [isMark] at h; rcases h with h | h <;> subst h <;> decide

/-- `OffsetComment.val` (offset 1) of a printed comment block: every line loses exactly its marker -/
theorem offsetVal_lines_gen : ∀ (ls : List CLine), (∀ l ∈ ls, isLineBreak l.1 = false ∧ CLine.NoBreak l) →
    offsetCommentVal 1 (printCLines ls) = cvalLines ls := by
  intro ls
  induction ls with
  | nil => intro _; simp [offsetCommentVal, splitLinesKeep, splitLinesGo, printCLines, cvalLines]
  | cons l ls ih =>
    intro hg
    obtain ⟨hm, hb⟩ := hg l (by simp)
    cases ls with
    | nil =>
      have hall : ∀ ch ∈ (l.1 :: l.2), isLineBreak ch = false := by
        intro ch hch
        simp only [List.mem_cons] at hch
        rcases hch with h | h
        · subst h; exact hm
        · exact hb ch h
      simp only [offsetCommentVal, splitLinesKeep, printCLines, cvalLines]
      rw [splitLinesGo_noBreak _ [] hall (Or.inr (by simp))]
      simp
    | cons l' ls' =>
      have ihh := ih (fun x hx => hg x (by simp at hx ⊢; right; exact hx))
      simp only [offsetCommentVal, splitLinesKeep] at ihh ⊢
      rw [printCLines_cons2]
      have : l.1 :: (l.2 ++ 10 :: printCLines (l' :: ls')) = (l.1 :: l.2) ++ 10 :: printCLines (l' :: ls') := by simp
      rw [this, splitLinesGo_line (l.1 :: l.2) [] _ (by
        intro c hc
        simp only [List.mem_cons] at hc
        rcases hc with h | h
        · subst h; exact hm
        · exact hb c h)]
      simp only [List.map_cons, List.flatten_cons, ihh]
      simp [cvalLines]

theorem offsetVal_lines (ls : List CLine) (h : ∀ l ∈ ls, isMark l.1 = true ∧ CLine.NoBreak l) :
    offsetCommentVal 1 (printCLines ls) = cvalLines ls :=
  offsetVal_lines_gen ls (fun l hl => ⟨isMark_noBreak (h l hl).1, (h l hl).2⟩)

/-! ### printed records -/

/-- a printed record -/
structure PRecord where
  /-- the attached comment block (`[]`: none) -/
  comment : List CLine
  /-- white-space between the comment block and the key (a newline and possibly indentation) -/
  cgap : List Nat
  key : PKey
  /-- continued lines of the value -/
  lines : List VLine
  /-- last line of the value -/
  last : VLine
  /-- white-space after the value (it starts with the newline that ends the value) -/
  gap : List Nat

def PRecord.value (r : PRecord) : List Nat := valueText r.lines r.last

def PRecord.print (r : PRecord) : List Nat :=
  printCLines r.comment ++ (r.cgap ++ (r.key.print ++ (r.value ++ r.gap)))

structure PRecord.Good (r : PRecord) : Prop where
  comment : ∀ l ∈ r.comment, CLine.Good l
  /-- no line boundary of `str.splitlines` inside a comment line (see the negation witness: one more character is lost) -/
  nobreak : ∀ l ∈ r.comment, CLine.NoBreak l
  cgap_nil : r.comment = [] → r.cgap = []
  cgap : r.comment ≠ [] → ∃ w, r.cgap = 10 :: w ∧ ∀ c ∈ w, isWs c = true ∧ c ≠ 10
  key : r.key.Good
  lines : ∀ l ∈ r.lines, l.Good ∧ l.bs % 2 = 1
  last : r.last.Good
  last_even : r.last.bs % 2 = 0
  /-- the value does not start with a blank (it would belong to the separator) -/
  val_head : ∀ c, r.value.head? = some c → isBlank c = false
  /-- the last line does not end in white-space (it would be stripped) -/
  val_last : ∀ c, r.last.text.getLast? = some c → isWs c = false
  gap : ∃ w, r.gap = 10 :: w ∧ ∀ c ∈ w, isWs c = true

/-- where the key starts -/
def PRecord.kstart (off : Nat) (r : PRecord) : Nat := off + (printCLines r.comment).length + r.cgap.length
/-- where the value starts -/
def PRecord.vstart (off : Nat) (r : PRecord) : Nat := r.kstart off + r.key.print.length

def PRecord.entity (off : Nat) (r : PRecord) : Entry :=
  { kind := .entity, full := off, s := r.kstart off, e := r.vstart off + r.value.length,
    ks := (r.kstart off : Nat), ke := (r.kstart off + 1 + r.key.kt.length : Nat),
    vs := (r.vstart off : Nat), ve := (r.vstart off + r.value.length : Nat),
    pc := if r.comment.isEmpty then none else some (off, off + (printCLines r.comment).length) }

/-- the License rule of `PropertiesParser.getNext` (offset 0 only) does not fire -/
def PRecord.NoLicense (off : Nat) (r : PRecord) : Prop :=
  off = 0 → isInfix licenseWord (offsetCommentVal 1 (printCLines r.comment)) = false

/-- what may follow a block: the end of the text, or something that is not white-space -/
def PFollow (rest : List Nat) : Prop := ∀ c, rest.head? = some c → isWs c = false

theorem isWs_of_blank {c : Nat} (h : isWs c = false) : isBlank c = false := by
  have := isWs_false h; simp [isBlank, this.1, this.2.1]

theorem isMark_ws {c : Nat} (h : isWs c = true) : isMark c = false := by
  simp [isWs] at h; rcases h with ((h | h) | h) | h <;> subst h <;> decide

theorem keyChar_notMark {c : Nat} (h : propsKeyChar c = true) : isMark c = false ∧ isWs c = false := by
  have f := keyChar_facts h
  simp [isMark, isWs, f]

theorem PKey.print_head (k : PKey) (l : List Nat) : (k.print ++ l).head? = some k.k0 := rfl

theorem value_head_blank (r : PRecord) (hg : r.Good) (l : List Nat) (hl : ∀ c, l.head? = some c → c = 10) :
    ∀ c, (r.value ++ l).head? = some c → isBlank c = false := by
  intro c hc
  cases hv : r.value with
  | nil => rw [hv] at hc; simp at hc; rw [hl c hc]; decide
  | cons a t => rw [hv] at hc; simp at hc; subst hc; exact hg.val_head a (by rw [hv]; rfl)

theorem props_entity_rec (s : Array Nat) (off : Nat) (r : PRecord) (rest : List Nat) (hg : r.Good)
    (hlic : r.NoLicense off) (h : At s off (r.print ++ rest)) : propsGetNext s off = r.entity off := by
  obtain ⟨gw, hgap, hgw⟩ := hg.gap
  have h1 : At s off (printCLines r.comment ++ (r.cgap ++ (r.key.print ++ (r.value ++ (r.gap ++ rest))))) := by
    simpa [At, PRecord.print] using h
  have h2 := h1.app
  have h3 : At s (r.kstart off) (r.key.print ++ (r.value ++ (r.gap ++ rest))) := h2.app
  have h4 : At s (r.vstart off) (r.value ++ (r.gap ++ rest)) := h3.app
  have h4' : At s (r.vstart off) (valueText r.lines r.last ++ 10 :: (gw ++ rest)) := by
    simpa [At, PRecord.value, hgap] using h4
  have hkey := props_key_at s _ r.key _ hg.key
    (value_head_blank r hg _ (by intro c hc; rw [hgap] at hc; simpa using hc.symm)) h3
  have hkw : ∀ c, (r.key.print ++ (r.value ++ (r.gap ++ rest))).head? = some c → isWs c = false := by
    intro c hc; rw [r.key.print_head] at hc; cases hc; exact (keyChar_notMark hg.key.k0).2
  -- the value
  have hlines := propsLines_at s r.lines r.last (r.vstart off) (s.size + 1) (gw ++ rest) h4' hg.lines hg.last hg.last_even
    (by
      have := h4'.len
      have hl : r.lines.length ≤ (linesText r.lines).length := by
        clear this h4' h4 hkey
        induction r.lines with
        | nil => simp
        | cons l ls ih => simp only [linesText_cons, List.length_cons, List.length_append]; omega
      simp only [valueText, List.length_append] at this
      omega)
  have h5 : At s (r.vstart off + (linesText r.lines).length) (r.last.text ++ 10 :: (gw ++ rest)) := by
    have : At s (r.vstart off) (linesText r.lines ++ (r.last.text ++ 10 :: (gw ++ rest))) := by
      simpa [At, valueText] using h4'
    exact this.app
  obtain ⟨stw, htw⟩ := trailingWS_at s (r.vstart off + (linesText r.lines).length) r.last.text.length
    (fun j hj => ⟨_, h5.left j hj, r.last.text_nonl hg.last _ (List.getElem_mem hj)⟩)
    (fun hpos => by
      have hne : r.last.text ≠ [] := List.length_pos_iff.mp hpos
      have hgl : r.last.text.getLast? = some (r.last.text[r.last.text.length - 1]) := by
        rw [List.getLast?_eq_getElem?]; simp [List.getElem?_eq_getElem, hpos]
      have := isWs_false (hg.val_last _ hgl)
      refine ⟨_, ?_, this⟩
      have := h5.left (r.last.text.length - 1) (by omega)
      rw [show r.vstart off + (linesText r.lines).length + r.last.text.length - 1 =
        r.vstart off + (linesText r.lines).length + (r.last.text.length - 1) by omega]
      exact this)
    (by simpa using h5.app.hd)
  have hend : r.vstart off + (linesText r.lines).length + r.last.text.length = r.vstart off + r.value.length := by
    simp [PRecord.value, valueText]; omega
  unfold propsGetNext
  by_cases hne : r.comment = []
  · have hcg := hg.cgap_nil hne
    have hcm := props_comment_none_at s off _ (by
      intro c hc; rw [hne, hcg] at hc; simp only [printCLines, List.nil_append, r.key.print_head] at hc
      cases hc; exact (keyChar_notMark hg.key.k0).1) h1
    have h3' : At s off (r.key.print ++ (r.value ++ (r.gap ++ rest))) := by
      have := h3; simp only [PRecord.kstart, hne, hcg, printCLines, List.length_nil, Nat.add_zero] at this; exact this
    have hws := ws_none_at h3' hkw
    have hk0 : r.kstart off = off := by simp [PRecord.kstart, hne, hcg, printCLines]
    rw [hk0] at hkey
    have hv0 : r.vstart off = off + r.key.print.length := by simp [PRecord.vstart, hk0]
    rw [hv0] at hlines htw hend
    simp only [hcm, hws, hkey, hlines, htw]
    simp [PRecord.entity, hne, hk0, hv0, spanI, St.group, capOf, PropertiesParser_reKey_g_key, hend]
  · obtain ⟨w, hcg, hw⟩ := hg.cgap hne
    have hac : AfterComment (r.cgap ++ (r.key.print ++ (r.value ++ (r.gap ++ rest)))) := by
      right
      refine ⟨w ++ (r.key.print ++ (r.value ++ (r.gap ++ rest))), by simp [hcg], ?_⟩
      intro c hc
      cases hw' : w with
      | nil => rw [hw'] at hc; simp only [List.nil_append, r.key.print_head] at hc; cases hc; exact (keyChar_notMark hg.key.k0).1
      | cons a t => rw [hw'] at hc; simp at hc; subst hc; exact isMark_ws (hw a (by simp [hw'])).1
    have hcm := props_comment_at s off r.comment _ hne hg.comment hac h1
    have hl : (off == 0 && isInfix licenseWord (commentVal (.offset Gen.Tables.offsetCommentDefault)
        (slice s off (off + (printCLines r.comment).length)))) = false := by
      rw [h1.slice]
      by_cases ho : off = 0
      · simp [commentVal, Gen.Tables.offsetCommentDefault, hlic ho]
      · simp [ho]
    have hcgws : ∀ c ∈ r.cgap, isWs c = true := by
      intro c hc; rw [hcg] at hc; simp at hc
      rcases hc with rfl | hc
      · decide
      · exact (hw c hc).1
    have hws := ws_at h2 (by rw [hcg]; simp) hcgws hkw
    have hcnt : ¬ (countNl s (off + (printCLines r.comment).length) (r.kstart off) > 1) := by
      rw [show r.kstart off = off + (printCLines r.comment).length + r.cgap.length from rfl, countNl_at h2, hcg]
      have : (w.filter (· == 10)) = [] := by
        rw [List.filter_eq_nil_iff]; intro c hc; simp [(hw c hc).2]
      simp [List.filter_cons, this]
    have hemp := isEmpty_false_of_ne hne
    have hk0 : off + (printCLines r.comment).length + r.cgap.length = r.kstart off := rfl
    rw [show r.vstart off = r.kstart off + r.key.print.length from rfl] at hlines htw hend
    simp only [hcm, hl, hws, hk0, hcnt, hkey, hlines, htw]
    simp [PRecord.entity, hemp, PRecord.vstart, spanI, St.group, capOf, PropertiesParser_reKey_g_key, hend]

/-- `getNext` on a white-space stretch: one white-space entry -/
theorem props_ws_at_n (s : Array Nat) (p : Nat) (w rest : List Nat) (hne : w ≠ []) (hw : ∀ c ∈ w, isWs c = true)
    (hfo : PFollow rest) (h : At s p (w ++ rest)) : propsGetNext s p = wsEntryN p w.length := by
  have hcm := props_comment_none_at s p _ (by
    intro c hc
    cases w with
    | nil => exact absurd rfl hne
    | cons a t => simp at hc; subst hc; exact isMark_ws (hw a (by simp))) h
  unfold propsGetNext
  simp only [hcm, ws_at h hne hw hfo]
  simp [wsEntryN]

/-- a comment block followed by white-space with more than one newline is a stand-alone comment -/
theorem props_free_comment (s : Array Nat) (off : Nat) (ls : List CLine) (gap rest : List Nat) (hne : ls ≠ [])
    (hg : ∀ l ∈ ls, CLine.Good l) (hw : ∀ c ∈ gap, isWs c = true) (hhead : gap.head? = some 10)
    (hnl : 2 ≤ (gap.filter (· == 10)).length) (hfo : PFollow rest) (h : At s off (printCLines ls ++ (gap ++ rest))) :
    propsGetNext s off = commentEntry off (off + (printCLines ls).length) := by
  obtain ⟨w, hgw⟩ : ∃ w, gap = 10 :: w := by
    cases gap with
    | nil => simp at hhead
    | cons a t => simp at hhead; subst hhead; exact ⟨t, rfl⟩
  have hwne : w ≠ [] := by intro hh; subst hh; rw [hgw] at hnl; simp at hnl
  have hac : AfterComment (gap ++ rest) := by
    right
    refine ⟨w ++ rest, by rw [hgw]; rfl, ?_⟩
    intro c hc
    cases w with
    | nil => exact absurd rfl hwne
    | cons a t => simp at hc; subst hc; exact isMark_ws (hw a (by simp [hgw]))
  have hgne : gap ≠ [] := by rw [hgw]; simp
  have hcm := props_comment_at s off ls _ hne hg hac h
  have hws := ws_at h.app hgne hw hfo
  have hcnt : countNl s (off + (printCLines ls).length) (off + (printCLines ls).length + gap.length) > 1 := by
    rw [countNl_at h.app]; omega
  unfold propsGetNext
  simp only [hcm, hws]
  by_cases hl : (off == 0 && isInfix licenseWord (commentVal (.offset Gen.Tables.offsetCommentDefault)
      (slice s off (off + (printCLines ls).length)))) = true
  · simp [hl, commentEntry]
  · simp [hl, hcnt, commentEntry]

/-! ### what a record evaluates to -/

/-- key, raw value = exactly the printed value text (escapes and continuation lines included), value = the documented
    unescape of it, attached comment = the comment lines without their markers -/
def PRecord.view (r : PRecord) : Option EntView :=
  some { key := r.key.key, raw := r.value, val := some (propsUnescapeSpec r.value),
         comment := if r.comment.isEmpty then none else some (cvalLines r.comment) }

theorem PRecord.print_length (r : PRecord) :
    r.print.length = (printCLines r.comment).length + r.cgap.length + r.key.print.length + r.value.length + r.gap.length := by
  simp [PRecord.print]; omega

theorem props_view_rec (s : Array Nat) (off : Nat) (r : PRecord) (rest : List Nat) (hg : r.Good)
    (h : At s off (r.print ++ rest)) : entView .properties s (r.entity off) = r.view := by
  have h1 : At s off (printCLines r.comment ++ (r.cgap ++ (r.key.print ++ (r.value ++ (r.gap ++ rest))))) := by
    simpa [At, PRecord.print] using h
  have h3 : At s (r.kstart off) (r.key.print ++ (r.value ++ (r.gap ++ rest))) := h1.app.app
  have h4 : At s (r.vstart off) (r.value ++ (r.gap ++ rest)) := h3.app
  have hk : At s (r.kstart off) (r.key.key ++ (r.key.kt.drop r.key.kt.length ++ (r.key.b1 ++ r.key.sep :: (r.key.b2 ++ (r.value ++ (r.gap ++ rest)))))) := by
    simpa [At, PKey.print, PKey.key] using h3
  obtain ⟨gw, hgap, _⟩ := hg.gap
  have hsz := h4.size_ge (by rw [hgap]; simp)
  simp only [List.length_append] at hsz
  have hkl : r.key.key.length = 1 + r.key.kt.length := by simp [PKey.key]; omega
  have hkpl := r.key.print_length
  have e1 : slice s (r.kstart off) (r.kstart off + 1 + r.key.kt.length) = r.key.key := by
    have := hk.slice
    rw [hkl, ← Nat.add_assoc] at this
    exact this
  have e2 : slice s (r.vstart off) (r.vstart off + r.value.length) = r.value := h4.slice
  have hcm : slice s off (off + (printCLines r.comment).length) = printCLines r.comment := h1.slice
  have hv : r.vstart off = r.kstart off + r.key.print.length := rfl
  simp only [entView, PRecord.entity]
  rw [pySlice_nat s _ _ (by omega) (by omega), pySlice_nat s _ _ (by omega) (by omega), e1, e2, propsVal_eq_spec]
  cases hce : r.comment.isEmpty with
  | true => simp [PRecord.view, hce]
  | false =>
    have hval := offsetVal_lines r.comment (fun l hl => ⟨(hg.comment l hl).1, hg.nobreak l hl⟩)
    simp [PRecord.view, hce, commentStyleOf, commentVal, hcm, Gen.Tables.offsetCommentDefault, hval]

/-! ### lists of blocks -/

/-- a printed block: a record (with its attached comment), or a stand-alone comment block with the white-space behind it -/
inductive PBlock
  | record (r : PRecord)
  | free (ls : List CLine) (gap : List Nat)

def PBlock.print : PBlock → List Nat
  | .record r => r.print
  | .free ls gap => printCLines ls ++ gap

def PRecord.entries (off : Nat) (r : PRecord) : List Entry :=
  [r.entity off, wsEntryN (r.vstart off + r.value.length) r.gap.length]

def PBlock.entries (off : Nat) : PBlock → List Entry
  | .record r => r.entries off
  | .free ls gap => [commentEntry off (off + (printCLines ls).length), wsEntryN (off + (printCLines ls).length) gap.length]

def PBlock.Good' : PBlock → Prop
  | .record r => r.Good
  | .free ls gap => ls ≠ [] ∧ (∀ l ∈ ls, CLine.Good l) ∧ (∀ c ∈ gap, isWs c = true) ∧ gap.head? = some 10 ∧
      2 ≤ (gap.filter (· == 10)).length

def PBlock.Good (off : Nat) : PBlock → Prop
  | .record r => r.Good ∧ r.NoLicense off
  | .free ls gap => PBlock.Good' (.free ls gap)

def PBlock.views : PBlock → List (Option EntView)
  | .record r => [r.view]
  | .free _ _ => []

def printPropsB (bs : List PBlock) : List Nat := printBlocks PBlock.print bs

def propsExpEntries (bs : List PBlock) : List Entry :=
  blockEntries PBlock.print (fun off (_ : Unit) b => PBlock.entries off b) (fun c _ => c) 0 () bs

def propsExpViews (bs : List PBlock) : List (Option EntView) := (bs.map PBlock.views).flatten

abbrev propsNext (s : Array Nat) : Unit → Nat → Entry × Unit := fun _ off => (propsGetNext s off, ())

theorem printCLines_head (l : CLine) (ls : List CLine) (x : List Nat) : (printCLines (l :: ls) ++ x).head? = some l.1 := by
  cases ls <;> rfl

theorem pfollow_block (b : PBlock) (off : Nat) (hg : b.Good off) (l : List Nat) : PFollow (b.print ++ l) := by
  intro c hc
  cases b with
  | record r =>
    simp only [PBlock.print, PRecord.print] at hc
    cases hcm : r.comment with
    | nil =>
      rw [hcm, hg.1.cgap_nil hcm] at hc
      simp only [printCLines, List.nil_append, List.append_assoc, r.key.print_head] at hc
      cases hc; exact (keyChar_notMark hg.1.key.k0).2
    | cons x xs =>
      rw [hcm, List.append_assoc, printCLines_head] at hc
      cases hc
      have := (hg.1.comment x (by simp [hcm])).1
      simp [isMark] at this; rcases this with h | h <;> rw [h] <;> decide
  | free ls gap =>
    simp only [PBlock.print] at hc
    cases hls : ls with
    | nil => exact absurd hls hg.1
    | cons x xs =>
      rw [hls, List.append_assoc, printCLines_head] at hc
      cases hc
      have := (hg.2.1 x (by simp [hls])).1
      simp [isMark] at this; rcases this with h | h <;> rw [h] <;> decide

theorem props_walks_block (s : Array Nat) (off : Nat) (b : PBlock) (rest : List Nat) (hg : b.Good off) (hfo : PFollow rest)
    (h : At s off (b.print ++ rest)) :
    Walks (propsNext s) s.size () off (b.entries off) () (off + b.print.length) := by
  cases b with
  | record r =>
    obtain ⟨gw, hgap, hgw⟩ := hg.1.gap
    have h' : At s off (r.print ++ rest) := h
    have h1 : At s off (printCLines r.comment ++ (r.cgap ++ (r.key.print ++ (r.value ++ (r.gap ++ rest))))) := by
      simpa [At, PRecord.print] using h'
    have h4 : At s (r.vstart off + r.value.length) (r.gap ++ rest) := h1.app.app.app.app
    have hkp := r.key.print_length
    have e1 := props_entity_rec s off r rest hg.1 hg.2 h'
    have e2 := props_ws_at_n s _ r.gap rest (by rw [hgap]; simp)
      (by intro c hc; rw [hgap] at hc; simp at hc; rcases hc with rfl | hc; decide; exact hgw c hc) hfo h4
    have hp2 := h4.pos_lt (by rw [hgap]; simp)
    have hvs : r.vstart off = off + (printCLines r.comment).length + r.cgap.length + r.key.print.length := rfl
    have w1 : Walks (propsNext s) s.size () off [r.entity off] () (r.entity off).e :=
      Walks.one (by omega) (by simp [PRecord.entity]; omega) (by simp [propsNext, e1])
    have w2 : Walks (propsNext s) s.size () (r.vstart off + r.value.length)
        [wsEntryN (r.vstart off + r.value.length) r.gap.length] () (r.vstart off + r.value.length + r.gap.length) :=
      Walks.one hp2 (by rw [hgap]; simp [wsEntryN]) (by simp [propsNext, e2, wsEntryN])
    have := w1.append w2
    simp only [PBlock.entries, PRecord.entries, PBlock.print, r.print_length]
    rw [show off + ((printCLines r.comment).length + r.cgap.length + r.key.print.length + r.value.length + r.gap.length) =
      r.vstart off + r.value.length + r.gap.length by omega]
    exact this
  | free ls gap =>
    obtain ⟨g1, g2, g3, g4, g5⟩ := hg
    have h' : At s off (printCLines ls ++ (gap ++ rest)) := by simpa [At, PBlock.print] using h
    have hgne : gap ≠ [] := by intro hh; rw [hh] at g5; simp at g5
    have hcpos : 0 < (printCLines ls).length := by
      have := printCLines_len ls
      have : 0 < ls.length := List.length_pos_iff.mpr g1
      omega
    have e1 := props_free_comment s off ls gap rest g1 g2 g3 g4 g5 hfo h'
    have e2 := props_ws_at_n s _ gap rest hgne g3 hfo h'.app
    have hp1 := h'.pos_lt (by simp [hgne])
    have hp2 := h'.app.pos_lt (by simp [hgne])
    have w1 : Walks (propsNext s) s.size () off [commentEntry off (off + (printCLines ls).length)] ()
        (off + (printCLines ls).length) :=
      Walks.one hp1 (by simp [commentEntry]; omega) (by simp [propsNext, e1, commentEntry])
    have w2 : Walks (propsNext s) s.size () (off + (printCLines ls).length)
        [wsEntryN (off + (printCLines ls).length) gap.length] () (off + (printCLines ls).length + gap.length) :=
      Walks.one hp2 (by have := List.length_pos_iff.mpr hgne; simp [wsEntryN]; omega) (by simp [propsNext, e2, wsEntryN])
    have := w1.append w2
    simpa [PBlock.entries, PBlock.print, Nat.add_assoc] using this

theorem PRecord.entity_kind (off : Nat) (r : PRecord) : (r.entity off).kind = .entity := rfl

theorem PBlock.print_len (b : PBlock) (off : Nat) (hg : b.Good off) : 1 ≤ b.print.length := by
  cases b with
  | record r => have := r.key.print_length; simp only [PBlock.print, r.print_length]; omega
  | free ls gap =>
    have := printCLines_len ls
    have : 0 < ls.length := List.length_pos_iff.mpr hg.1
    simp only [PBlock.print, List.length_append]; omega

/-- only the FIRST block is subject to the License rule (it exists at offset 0 only) -/
theorem propsGoodAll (bs : List PBlock) (hg : ∀ b ∈ bs, b.Good') :
    ∀ off, (∀ r, bs.head? = some (.record r) → r.NoLicense off) →
      GoodAll PBlock.print (fun (c : Unit) _ => c) (fun off _ b => PBlock.Good off b) off () bs := by
  induction bs with
  | nil => intro off _; trivial
  | cons b bs ih =>
    intro off hl
    have hb : b.Good off := by
      cases b with
      | record r => exact ⟨hg (.record r) (by simp), hl r rfl⟩
      | free ls gap => exact hg (.free ls gap) (by simp)
    refine ⟨hb, ih (fun b' hb' => hg b' (by simp [hb'])) _ ?_⟩
    intro r' _ h0
    have := b.print_len off hb
    omega

theorem walk_props_blocks (bs : List PBlock) (hg : ∀ b ∈ bs, b.Good')
    (hlic : ∀ r, bs.head? = some (.record r) → r.NoLicense 0) :
    walk .properties (printPropsB bs).toArray = .done (propsExpEntries bs) ∧
      entitiesOf .properties (printPropsB bs).toArray (propsExpEntries bs) = propsExpViews bs ∧
      junkOf (printPropsB bs).toArray (propsExpEntries bs) = [] := by
  have hall := propsGoodAll bs hg 0 hlic
  have hat : At (printPropsB bs).toArray 0 (printBlocks PBlock.print bs ++ []) := by simp [At, printPropsB]
  have hfo : PFollow [] := by intro c hc; cases hc
  constructor
  · have := (walks_blocks (propsNext (printPropsB bs).toArray) (printPropsB bs).toArray PBlock.print
      (fun off (_ : Unit) b => PBlock.entries off b) (fun c _ => c) (fun off _ b => PBlock.Good off b) PFollow
      (fun b _ off rest g h f => props_walks_block _ off b rest g f h)
      (fun b _ off rest g _ => pfollow_block b off g rest) bs () 0 [] hall hat hfo).1
    exact walk_blocks_done _ _ _ _ bs () this
  · have := (views_blocks .properties (printPropsB bs).toArray PBlock.print
      (fun off (_ : Unit) b => PBlock.entries off b) (fun c _ => c) (fun off _ b => PBlock.Good off b) PFollow
      PBlock.views (fun _ => [])
      (fun b _ off rest g h f => by
        cases b with
        | record r =>
          have hv := props_view_rec _ off r rest g.1 h
          have k1 := r.entity_kind off
          have k2 := wsEntryN_kind (r.vstart off + r.value.length) r.gap.length
          constructor
          · simp only [PBlock.entries, PBlock.views, PRecord.entries]
            rw [entitiesOf_cons_entity _ _ _ _ k1, hv, entitiesOf_cons_other _ _ _ _ (by rw [k2]; decide)]; rfl
          · simp only [PBlock.entries, PRecord.entries]
            rw [junkOf_cons_other _ _ _ (by rw [k1]; decide), junkOf_cons_other _ _ _ (by rw [k2]; decide)]; rfl
        | free ls gap =>
          constructor
          · simp only [PBlock.entries, PBlock.views]
            rw [entitiesOf_cons_other _ _ _ _ (by simp [commentEntry]), entitiesOf_cons_other _ _ _ _ (by simp [wsEntryN])]; rfl
          · simp only [PBlock.entries]
            rw [junkOf_cons_other _ _ _ (by simp [commentEntry]), junkOf_cons_other _ _ _ (by simp [wsEntryN])]; rfl)
      (fun b _ off rest g _ => pfollow_block b off g rest) bs () 0 [] hall hat hfo).1
    rw [flatten_map_nil] at this
    exact this

/-! ### a concrete member of the class (non-vacuity) -/

/-- `# a⏎! b⏎k : x\⏎  yA⏎⏎` : two comment lines, separator ` : `, a continuation line with indentation, an escape -/
def propsDemo : List PBlock :=
  [.record { comment := [(35, [32, 97]), (33, [32, 98])], cgap := [10], key := ⟨107, [], [32], 58, [32]⟩,
             lines := [⟨[120], 1⟩], last := ⟨[32, 32, 121, 92, 117, 48, 48, 52, 49], 0⟩, gap := [10, 10] }]

theorem propsDemo_good : ∀ b ∈ propsDemo, b.Good' := by
  intro b hb
  simp only [propsDemo, List.mem_cons, List.not_mem_nil, or_false] at hb
  subst hb
  refine { comment := ?_, nobreak := ?_, cgap_nil := by simp, cgap := ?_, key := ?_, lines := ?_, last := ⟨by decide, by decide⟩,
           last_even := by decide, val_head := by decide, val_last := by decide, gap := ⟨[10], rfl, by decide⟩ }
  · intro l hl
    simp only [List.mem_cons, List.not_mem_nil, or_false] at hl
    rcases hl with rfl | rfl <;> exact ⟨by decide, by decide⟩
  · intro l hl
    simp only [List.mem_cons, List.not_mem_nil, or_false] at hl
    rcases hl with rfl | rfl <;> (intro c hc; revert c; decide)
  · intro _; exact ⟨[], rfl, by simp⟩
  · exact { k0 := by decide, kt := by simp, b1 := by decide, sep := Or.inr rfl, b2 := by decide }
  · intro l hl
    simp only [List.mem_cons, List.not_mem_nil, or_false] at hl
    subst hl
    exact ⟨⟨by decide, by decide⟩, by decide⟩

theorem propsDemo_lic : ∀ r, propsDemo.head? = some (.record r) → r.NoLicense 0 := by
  intro r h _
  simp only [propsDemo, List.head?_cons, Option.some.injEq, PBlock.record.injEq] at h
  subst h
  decide

/-
C13 helper lemmas: `iter_locale` / `iter_reference` as "first claim wins" over the claims of the
matchers in list order; relation to `match`.
-/
import CLModel.Paths.ProjectFiles
import CLModel.Proofs.C13Known
import CLModel.Proofs.C13Path
namespace PF

/-! ### hypotheses used by the property theorems -/

/-- What enumeration needs to know about a matcher — all three are properties of `Matcher` (C12), none is about the
    tree: every matched path starts with the prefix string (`match_has_prefix`), the prefix is rooted (contains a
    `/`), and a wildcard-free pattern matches its prefix (the whole expanded pattern) only. -/
def PrefixOK (env : MEnv) (m : MId) : Prop :=
  (∀ p g, env.mtch m p = some g → env.pfx m <+: p) ∧ 47 ∈ env.pfx m ∧
  (env.literal m = true → ∀ p g, env.mtch m p = some g → p = env.pfx m)

/-- `Matcher.sub` round trip: the l10n path computed from a reference match is matched by the l10n matcher -/
def SubMatches (env : MEnv) (r : Rule) : Prop :=
  ∀ rm q g, r.reference = some rm → env.mtch rm q = some g → (env.mtch r.l10n (env.expand r.l10n g)).isSome = true

/-! ### `_files` -/

theorem mem_files {env : MEnv} {fs : FS} {ex : Path → Bool} {m : MId} {p : Path} {g : GId}
    (h : (p, g) ∈ files env fs ex m) : p ∈ fs.files ∧ ex p = false ∧ env.mtch m p = some g := by
  unfold files at h
  simp only at h
  split at h
  · rename_i hf
    simp only [Bool.and_eq_true] at hf
    split at h
    · simp at h
    · rename_i hex
      split at h
      · rename_i g' hm
        simp only [List.mem_singleton, Prod.mk.injEq] at h
        obtain ⟨rfl, rfl⟩ := h
        refine ⟨by simpa [FS.isfile] using hf.2, by simpa using hex, hm⟩
      · simp at h
  · simp only [List.mem_filterMap] at h
    obtain ⟨q, hq, hq2⟩ := h
    split at hq2
    · simp at hq2
    · rename_i hex
      simp only [Option.map_eq_some_iff, Prod.mk.injEq] at hq2
      obtain ⟨g', hm, rfl, rfl⟩ := hq2
      unfold FS.walk at hq
      split at hq
      · simp at hq
      · simp only [List.mem_filter] at hq
        exact ⟨hq.1, by simpa using hex, hm⟩

theorem mem_files_of {env : MEnv} {fs : FS} {ex : Path → Bool} {m : MId} {p : Path} {g : GId}
    (hok : PrefixOK env m) (hp : p ∈ fs.files) (hex : ex p = false) (hm : env.mtch m p = some g) :
    (p, g) ∈ files env fs ex m := by
  unfold files
  simp only
  split
  · rename_i hf
    simp only [Bool.and_eq_true] at hf
    have := hok.2.2 hf.1 p g hm
    subst this
    simp [hex, hm]
  · obtain ⟨hne, hu⟩ := isUnder_walkBase (hok.1 p g hm) hok.2.1
    simp only [List.mem_filterMap]
    refine ⟨p, ?_, by simp [hex, hm]⟩
    unfold FS.walk
    have : (walkBase (env.pfx m)).isEmpty = false := by
      cases hw : walkBase (env.pfx m) with
      | nil => exact absurd hw hne
      | cons _ _ => rfl
    simp [this, hp, hu]

theorem find_files_some {env : MEnv} {fs : FS} {ex : Path → Bool} {m : MId} {p : Path} {g : GId}
    (h : (p, g) ∈ files env fs ex m) : (files env fs ex m).find? (fun pg => pg.1 == p) = some (p, g) := by
  cases hf : (files env fs ex m).find? (fun pg => pg.1 == p) with
  | none =>
    rw [List.find?_eq_none] at hf
    exact absurd (by simp) (hf _ h)
  | some x =>
    have h1 := List.find?_some hf
    have h2 := mem_files (List.mem_of_find?_eq_some hf)
    simp only [beq_iff_eq] at h1
    obtain ⟨x1, x2⟩ := x
    simp only at h1
    subst h1
    have := (mem_files h).2.2
    rw [h2.2.2] at this
    simp only [Option.some.injEq] at this
    rw [this]

/-! ### claims -/

def entryL (env : MEnv) (r : Rule) (g : GId) : Entry :=
  { reference := r.reference.map (env.expand · g), merge := r.merge.map (env.expand · g), test := r.test }

def entryR (env : MEnv) (r : Rule) (q : Path) (g : GId) : Entry :=
  { reference := some q, merge := r.merge.map (env.expand · g), test := r.test }

def claimsL (env : MEnv) (fs : FS) (ex : Path → Bool) (r : Rule) : List (Path × Entry) :=
  (files env fs ex r.l10n).map fun pg => (pg.1, entryL env r pg.2)

def claimsR (env : MEnv) (fs : FS) (ex : Path → Bool) (r : Rule) : List (Path × Entry) :=
  match r.reference with
  | none => []
  | some rm => (files env fs ex rm).filterMap fun pg =>
      if ex (env.expand r.l10n pg.2) then none else some (env.expand r.l10n pg.2, entryR env r pg.1 pg.2)

def claims (env : MEnv) (fs : FS) (ex : Path → Bool) (r : Rule) : List (Path × Entry) :=
  claimsL env fs ex r ++ claimsR env fs ex r

theorem foldl_refclaims {env : MEnv} {ex : Path → Bool} {r : Rule} : ∀ (l : List (Path × GId)) (k : Known),
    l.foldl (fun k (pg : Path × GId) =>
      if ex (env.expand r.l10n pg.2) then k
      else kAdd k (env.expand r.l10n pg.2) { reference := some pg.1,
                                             merge := r.merge.map (env.expand · pg.2), test := r.test }) k
    = addAll (l.filterMap fun pg =>
        if ex (env.expand r.l10n pg.2) then none else some (env.expand r.l10n pg.2, entryR env r pg.1 pg.2)) k
  | [], k => by simp [addAll]
  | x :: xs, k => by
    rw [List.foldl_cons, List.filterMap_cons]
    by_cases hx : ex (env.expand r.l10n x.2) = true
    · simp only [hx, if_true]
      exact foldl_refclaims xs k
    · simp only [hx, Bool.false_eq_true, if_false]
      rw [foldl_refclaims xs]
      simp [addAll, entryR]

theorem stepLocale_eq {env : MEnv} {fs : FS} {ex : Path → Bool} {k : Known} {r : Rule} :
    stepLocale env fs ex k r = addAll (claims env fs ex r) k := by
  unfold stepLocale claims claimsL claimsR
  rw [addAll_append]
  cases hr : r.reference with
  | none => simp [addAll, List.foldl_map, entryL, hr]
  | some rm =>
    simp only
    rw [foldl_refclaims]
    simp [addAll, List.foldl_map, entryL, hr]

theorem foldl_stepLocale_eq {env : MEnv} {fs : FS} {ex : Path → Bool} : ∀ {ms : List Rule} {k : Known},
    ms.foldl (stepLocale env fs ex) k = addAll (ms.flatMap (claims env fs ex)) k
  | [], k => by simp [addAll]
  | r :: ms, k => by
    rw [List.foldl_cons, stepLocale_eq, foldl_stepLocale_eq, List.flatMap_cons, addAll_append]

def claimsRef (env : MEnv) (fs : FS) (r : Rule) : List (Path × Entry) :=
  match r.reference with
  | none => []
  | some rm => (files env fs (fun _ => false) rm).map fun pg =>
      (env.expand rm pg.2, { reference := some pg.1, merge := none, test := r.test })

theorem stepReference_eq {env : MEnv} {fs : FS} {k : Known} {r : Rule} :
    stepReference env fs k r = addAll (claimsRef env fs r) k := by
  unfold stepReference claimsRef
  cases hr : r.reference with
  | none => simp [addAll]
  | some rm => simp [addAll, List.foldl_map]

theorem foldl_stepReference_eq {env : MEnv} {fs : FS} : ∀ {ms : List Rule} {k : Known},
    ms.foldl (stepReference env fs) k = addAll (ms.flatMap (claimsRef env fs)) k
  | [], k => by simp [addAll]
  | r :: ms, k => by
    rw [List.foldl_cons, stepReference_eq, foldl_stepReference_eq, List.flatMap_cons, addAll_append]

theorem iterLocale_eq {env : MEnv} {fs : FS} {pf : PF} :
    pf.iterLocale env fs =
      (sortKnown (addAll (pf.matchers.flatMap (claims env fs (excludedBy env pf.exclude))) [])).map toItem := by
  unfold PF.iterLocale
  rw [foldl_stepLocale_eq]

theorem iterReference_eq {env : MEnv} {fs : FS} {pf : PF} :
    pf.iterReference env fs = (sortKnown (addAll (pf.matchers.flatMap (claimsRef env fs)) [])).map toItem := by
  unfold PF.iterReference
  rw [foldl_stepReference_eq]

/-! ### what one matcher claims for a given key -/

theorem claimsL_find_some {env : MEnv} {fs : FS} {ex : Path → Bool} {r : Rule} {p : Path} {g : GId}
    (h : (p, g) ∈ files env fs ex r.l10n) :
    (claimsL env fs ex r).find? (·.1 == p) = some (p, entryL env r g) := by
  unfold claimsL
  rw [List.find?_map]
  have : ((fun (x : Path × Entry) => x.1 == p) ∘ fun (pg : Path × GId) => (pg.1, entryL env r pg.2))
      = fun pg => pg.1 == p := by funext pg; rfl
  rw [this, find_files_some h]
  rfl

theorem claimsL_find_none {env : MEnv} {fs : FS} {ex : Path → Bool} {r : Rule} {p : Path}
    (h : ∀ g, (p, g) ∉ files env fs ex r.l10n) : (claimsL env fs ex r).find? (·.1 == p) = none := by
  unfold claimsL
  rw [List.find?_eq_none]
  intro x hx
  simp only [List.mem_map] at hx
  obtain ⟨⟨q, g⟩, hq, rfl⟩ := hx
  simp only [beq_iff_eq]
  rintro rfl
  exact h g hq

theorem mem_claimsR {env : MEnv} {fs : FS} {ex : Path → Bool} {r : Rule} {x : Path × Entry} :
    x ∈ claimsR env fs ex r ↔ ∃ rm q g, r.reference = some rm ∧ (q, g) ∈ files env fs ex rm ∧
      ex (env.expand r.l10n g) = false ∧ x = (env.expand r.l10n g, entryR env r q g) := by
  unfold claimsR
  cases hr : r.reference with
  | none => simp
  | some rm =>
    simp only [List.mem_filterMap, Option.some.injEq]
    constructor
    · rintro ⟨⟨q, g⟩, hq, h⟩
      split at h
      · simp at h
      · rename_i hex
        simp only [Option.some.injEq] at h
        exact ⟨rm, q, g, rfl, hq, by simpa using hex, h.symm⟩
    · rintro ⟨rm', q, g, h1, hq, hex, rfl⟩
      subst h1
      exact ⟨(q, g), hq, by simp [hex]⟩

theorem claimsR_find_none {env : MEnv} {fs : FS} {ex : Path → Bool} {r : Rule} {p : Path}
    (h : ∀ rm q g, r.reference = some rm → (q, g) ∈ files env fs ex rm → env.expand r.l10n g ≠ p) :
    (claimsR env fs ex r).find? (·.1 == p) = none := by
  rw [List.find?_eq_none]
  intro x hx
  obtain ⟨rm, q, g, hr, hq, _, rfl⟩ := mem_claimsR.1 hx
  simp only [beq_iff_eq]
  exact h rm q g hr hq

/-- a matcher whose l10n side does not match `p` claims nothing for `p` (needs the `sub` round trip) -/
theorem claims_find_none {env : MEnv} {fs : FS} {ex : Path → Bool} {r : Rule} {p : Path}
    (hm : env.mtch r.l10n p = none) (hrt : SubMatches env r) :
    (claims env fs ex r).find? (·.1 == p) = none := by
  unfold claims
  rw [List.find?_append, claimsL_find_none, claimsR_find_none]
  · rfl
  · intro rm q g hr hq e
    have := hrt rm q g hr (mem_files hq).2.2
    rw [e, hm] at this
    exact absurd this (by decide)
  · intro g hg
    have := (mem_files hg).2.2
    rw [hm] at this
    exact absurd this (by simp)

theorem claims_find_some {env : MEnv} {fs : FS} {ex : Path → Bool} {r : Rule} {p : Path} {g : GId}
    (h : (p, g) ∈ files env fs ex r.l10n) :
    (claims env fs ex r).find? (·.1 == p) = some (p, entryL env r g) := by
  unfold claims
  rw [List.find?_append, claimsL_find_some h]
  rfl

/-! ### soundness and completeness of the enumeration, per matcher list -/

theorem iterLocale_sound {env : MEnv} {fs : FS} {pf : PF} {it : Item} (h : it ∈ pf.iterLocale env fs) :
    ∃ r ∈ pf.matchers,
      (∃ g, (it.path, g) ∈ files env fs (excludedBy env pf.exclude) r.l10n ∧ it = toItem (it.path, entryL env r g)) ∨
      (∃ rm q g, r.reference = some rm ∧ (q, g) ∈ files env fs (excludedBy env pf.exclude) rm ∧
        excludedBy env pf.exclude (env.expand r.l10n g) = false ∧
        it = toItem (env.expand r.l10n g, entryR env r q g)) := by
  rw [iterLocale_eq, mem_sorted_items] at h
  obtain ⟨e, hf, hit⟩ := h
  have hmem := List.mem_of_find?_eq_some hf
  simp only [List.mem_flatMap] at hmem
  obtain ⟨r, hr, hc⟩ := hmem
  refine ⟨r, hr, ?_⟩
  unfold claims at hc
  rw [List.mem_append] at hc
  rcases hc with hc | hc
  · left
    unfold claimsL at hc
    simp only [List.mem_map, Prod.mk.injEq] at hc
    obtain ⟨⟨q, g⟩, hq, rfl, rfl⟩ := hc
    exact ⟨g, hq, hit⟩
  · right
    obtain ⟨rm, q, g, hrr, hq, hex, h1⟩ := mem_claimsR.1 hc
    refine ⟨rm, q, g, hrr, hq, hex, ?_⟩
    rw [hit, h1]

/-- nothing the excludes match is yielded -/
theorem iterLocale_not_excluded {env : MEnv} {fs : FS} {pf : PF} {it : Item} (h : it ∈ pf.iterLocale env fs) :
    excludedBy env pf.exclude it.path = false := by
  obtain ⟨r, _, hcl⟩ := iterLocale_sound h
  rcases hcl with ⟨g, hf, _⟩ | ⟨rm, q, g, _, _, hex, e⟩
  · exact (mem_files hf).2.1
  · rw [e]; exact hex

theorem key_claimed {cs : List (Path × Entry)} {p : Path} {e : Entry} (h : (p, e) ∈ cs) :
    ∃ it ∈ (sortKnown (addAll cs [])).map toItem, it.path = p := by
  cases hf : cs.find? (·.1 == p) with
  | none =>
    rw [List.find?_eq_none] at hf
    exact absurd (by simp) (hf _ h)
  | some x =>
    have h1 := List.find?_some hf
    simp only [beq_iff_eq] at h1
    refine ⟨toItem (p, x.2), mem_sorted_items.2 ⟨x.2, ?_, rfl⟩, rfl⟩
    show cs.find? (·.1 == p) = some (p, x.2)
    rw [hf, ← h1]

theorem iterLocale_complete_l10n {env : MEnv} {fs : FS} {pf : PF} {r : Rule} {p : Path} {g : GId}
    (hr : r ∈ pf.matchers) (hf : (p, g) ∈ files env fs (excludedBy env pf.exclude) r.l10n) :
    ∃ it ∈ pf.iterLocale env fs, it.path = p := by
  rw [iterLocale_eq]
  refine key_claimed (e := entryL env r g) ?_
  simp only [List.mem_flatMap]
  refine ⟨r, hr, ?_⟩
  unfold claims claimsL
  exact List.mem_append_left _ (List.mem_map.2 ⟨(p, g), hf, rfl⟩)

theorem iterLocale_complete_ref {env : MEnv} {fs : FS} {pf : PF} {r : Rule} {rm : MId} {q : Path} {g : GId}
    (hr : r ∈ pf.matchers) (hrr : r.reference = some rm)
    (hf : (q, g) ∈ files env fs (excludedBy env pf.exclude) rm)
    (hex : excludedBy env pf.exclude (env.expand r.l10n g) = false) :
    ∃ it ∈ pf.iterLocale env fs, it.path = env.expand r.l10n g := by
  rw [iterLocale_eq]
  refine key_claimed (e := entryR env r q g) ?_
  simp only [List.mem_flatMap]
  refine ⟨r, hr, ?_⟩
  unfold claims
  exact List.mem_append_right _ (mem_claimsR.2 ⟨rm, q, g, hrr, hf, hex, rfl⟩)

theorem iterReference_sound {env : MEnv} {fs : FS} {pf : PF} {it : Item} (h : it ∈ pf.iterReference env fs) :
    ∃ r ∈ pf.matchers, ∃ rm q g, r.reference = some rm ∧ q ∈ fs.files ∧ env.mtch rm q = some g ∧
      it = { path := env.expand rm g, reference := some q, merge := none, test := r.test } := by
  rw [iterReference_eq, mem_sorted_items] at h
  obtain ⟨e, hf, hit⟩ := h
  have hmem := List.mem_of_find?_eq_some hf
  simp only [List.mem_flatMap] at hmem
  obtain ⟨r, hr, hc⟩ := hmem
  refine ⟨r, hr, ?_⟩
  unfold claimsRef at hc
  cases hrr : r.reference with
  | none => simp [hrr] at hc
  | some rm =>
    simp only [hrr, List.mem_map, Prod.mk.injEq] at hc
    obtain ⟨⟨q, g⟩, hq, h1, rfl⟩ := hc
    have := mem_files hq
    refine ⟨rm, q, g, rfl, this.1, this.2.2, ?_⟩
    rw [hit, ← h1]
    rfl

theorem iterReference_complete {env : MEnv} {fs : FS} {pf : PF} {r : Rule} {rm : MId} {q : Path} {g : GId}
    (hr : r ∈ pf.matchers) (hrr : r.reference = some rm) (hq : q ∈ fs.files)
    (hm : env.mtch rm q = some g) (hd : PrefixOK env rm) :
    ∃ it ∈ pf.iterReference env fs, it.path = env.expand rm g := by
  rw [iterReference_eq]
  refine key_claimed (e := { reference := some q, merge := none, test := r.test }) ?_
  simp only [List.mem_flatMap]
  refine ⟨r, hr, ?_⟩
  unfold claimsRef
  rw [hrr]
  exact List.mem_map.2 ⟨(q, g), mem_files_of hd hq rfl hm, rfl⟩

/-! ### enumeration vs lookup -/

theorem matchPath_eq {env : MEnv} {locale : Option Loc} {ms : List Rule} {exclude : Option PF} {p : Path} :
    (PF.mk locale ms exclude).matchPath env p =
      if (locale.isSome && excludedBy env exclude p) = true then none
      else matchRules env locale.isSome (excludedBy env exclude) p ms := by
  unfold PF.matchPath excludedBy
  rfl

theorem matchRules_path {env : MEnv} {ex : Path → Bool} {p : Path} : ∀ {ms : List Rule} {it : Item},
    (∀ r ∈ ms, ∀ rm, r.reference = some rm → env.mtch rm p = none) →
    matchRules env true ex p ms = some it → it.path = p
  | [], _, _, h => by simp [matchRules] at h
  | r :: ms, it, hnr, h => by
    have ih := matchRules_path (ex := ex) (ms := ms) (it := it) (fun r' hr' => hnr r' (List.mem_cons_of_mem _ hr'))
    unfold matchRules at h
    simp only [if_true] at h
    split at h
    · simp only [Option.some.injEq] at h
      rw [← h]
    · split at h
      · exact ih h
      · rename_i rm hrm
        rw [hnr r List.mem_cons_self rm hrm] at h
        exact ih h

/-- for a path that is not excluded: the first claim for `p` over the matcher list is what the
    lookup loop computes -/
theorem find_claims_eq_matchRules {env : MEnv} {fs : FS} {ex : Path → Bool} {p : Path}
    (hp : p ∈ fs.files) (hex : ex p = false) : ∀ {ms : List Rule},
    (∀ r ∈ ms, PrefixOK env r.l10n) → (∀ r ∈ ms, SubMatches env r) →
    (∀ r ∈ ms, ∀ rm, r.reference = some rm → env.mtch rm p = none) →
    (ms.flatMap (claims env fs ex)).find? (·.1 == p) =
      (matchRules env true ex p ms).map fun it => (p, ({ reference := it.reference, merge := it.merge, test := it.test } : Entry))
  | [], _, _, _ => by simp [matchRules]
  | r :: ms, hdir, hrt, hnr => by
    have ih := find_claims_eq_matchRules hp hex (ms := ms)
      (fun r' hr' => hdir r' (List.mem_cons_of_mem _ hr')) (fun r' hr' => hrt r' (List.mem_cons_of_mem _ hr'))
      (fun r' hr' => hnr r' (List.mem_cons_of_mem _ hr'))
    rw [List.flatMap_cons, List.find?_append]
    unfold matchRules
    simp only [if_true]
    cases hm : env.mtch r.l10n p with
    | some g =>
      have hf : (p, g) ∈ files env fs ex r.l10n :=
        mem_files_of (hdir r List.mem_cons_self) hp hex hm
      rw [claims_find_some hf]
      simp [entryL]
    | none =>
      rw [claims_find_none hm (hrt r List.mem_cons_self)]
      simp only [Option.none_or]
      cases hrr : r.reference with
      | none => exact ih
      | some rm =>
        simp only
        rw [hnr r List.mem_cons_self rm hrr]
        exact ih

/-- an excluded path is claimed by nobody -/
theorem find_claims_excluded {env : MEnv} {fs : FS} {ex : Path → Bool} {p : Path} (hex : ex p = true)
    {ms : List Rule} : (ms.flatMap (claims env fs ex)).find? (·.1 == p) = none := by
  rw [List.find?_eq_none]
  intro x hx
  simp only [List.mem_flatMap] at hx
  obtain ⟨r, hr, hx⟩ := hx
  simp only [beq_iff_eq]
  unfold claims at hx
  rw [List.mem_append] at hx
  rcases hx with hx | hx
  · unfold claimsL at hx
    simp only [List.mem_map] at hx
    obtain ⟨⟨q, g⟩, hq, rfl⟩ := hx
    rintro rfl
    have := (mem_files hq).2.1
    rw [hex] at this
    exact absurd this (by decide)
  · obtain ⟨rm, q, g, _, _, hx2, rfl⟩ := mem_claimsR.1 hx
    intro e
    simp only at e
    rw [e, hex] at hx2
    exact absurd hx2 (by decide)

end PF

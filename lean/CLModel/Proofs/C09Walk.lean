import CLModel.Proofs.C09PSpec
namespace C09P
open AndroidP

theorem toxml?_some {n : DNode} {x : List Nat} (h : n.toxml? = some x) : n.printable = true ∧ x = n.toxml := by
  unfold DNode.toxml? at h
  split at h <;> simp_all

theorem handleElement_eq (name : List Nat) (attrs : List (List Nat × List Nat)) (cs : List DNode) (cc ws : Option Lit) :
    handleElement (.element name attrs cs) cc ws =
      if (DNode.element name attrs cs).printable then some (elemEntry cc ws (.element name attrs cs)) else none := by
  unfold handleElement DNode.toxml?
  by_cases hp : (DNode.element name attrs cs).printable = true
  · simp only [hp, if_true]
    unfold elemEntry isStringElem nameOf
    simp only
    split <;> rfl
  · simp [hp]

/-- what `commentLoop` consumes -/
structure CommentSpec (a : List Nat) (l : List DNode) (a' : List Nat) (rem : List DNode) : Prop where
  ex : ∃ pre ks, l = pre ++ rem ∧ a' = a ++ toxmlList ks ∧
    (∀ n ∈ pre, (∃ d, n = .text d ∧ shortC d) ∨ n.isComment = true) ∧
    (ks = pre ∨ (rem = [] ∧ ∃ d, shortC d ∧ pre = ks ++ [.text d]))
  noComment : ∀ c r, rem ≠ .comment c :: r
  noShortComment : ∀ d c r, rem = .text d :: .comment c :: r → ¬ shortC d

theorem toxmlList_append (a b : List DNode) : toxmlList (a ++ b) = toxmlList a ++ toxmlList b := by
  induction a with
  | nil => simp [toxmlList]
  | cons x xs ih => simp [toxmlList, ih]

theorem commentLoop_spec (a v : List Nat) (l : List DNode) :
    ∀ a' v' rem, commentLoop a v l = some (a', v', rem) → CommentSpec a l a' rem := by
  fun_induction commentLoop a v l <;> intro a' v' rem h
  all_goals (try (simp at h))
  · obtain ⟨rfl, rfl, rfl⟩ := h
    exact ⟨⟨[], [], by simp [toxmlList]⟩, by simp, by simp⟩
  · obtain ⟨rfl, rfl, rfl⟩ := h
    refine ⟨⟨[], [], by simp [toxmlList]⟩, by simp, by simp⟩
  · obtain ⟨rfl, rfl, rfl⟩ := h
    rename_i d hs
    refine ⟨⟨[.text d], [], by simp, by simp [toxmlList], ?_, Or.inr ⟨rfl, d, hs, by simp⟩⟩, by simp, by simp⟩
    intro n hn; simp at hn; subst hn; exact Or.inl ⟨d, rfl, hs⟩
  · obtain ⟨rfl, rfl, rfl⟩ := h
    rename_i d c rest hl
    refine ⟨⟨[], [], by simp [toxmlList]⟩, by simp, ?_⟩
    intro d' c' r' he; simp at he; obtain ⟨rfl, rfl, rfl⟩ := he; exact fun hs => hs hl
  · rename_i d c rest hs xml hx ih
    have hspec := ih a' v' rem (by simpa [List.append_assoc] using h)
    obtain ⟨⟨pre, ks, h1, h2, h3, h4⟩, h5, h6⟩ := hspec
    obtain ⟨_, rfl⟩ := toxml?_some hx
    refine ⟨⟨.text d :: .comment c :: pre, .text d :: .comment c :: ks, by simp [h1], ?_, ?_, ?_⟩, h5, h6⟩
    · simp [h2, toxmlList, List.append_assoc]
    · intro n hn
      simp at hn
      rcases hn with rfl | rfl | hn
      · exact Or.inl ⟨d, rfl, hs⟩
      · exact Or.inr rfl
      · exact h3 n hn
    · rcases h4 with rfl | ⟨rfl, d', hd', rfl⟩
      · exact Or.inl rfl
      · exact Or.inr ⟨rfl, d', hd', by simp⟩
  · obtain ⟨rfl, rfl, rfl⟩ := h
    rename_i d n rest hn
    refine ⟨⟨[], [], by simp [toxmlList]⟩, by simp, ?_⟩
    intro d' c' r' he; simp at he; obtain ⟨rfl, rfl, rfl⟩ := he; exact absurd rfl (hn c')
  · rename_i c rest xml hx ih
    obtain ⟨⟨pre, ks, h1, h2, h3, h4⟩, h5, h6⟩ := ih a' v' rem h
    obtain ⟨_, rfl⟩ := toxml?_some hx
    refine ⟨⟨.comment c :: pre, .comment c :: ks, by simp [h1], ?_, ?_, ?_⟩, h5, h6⟩
    · simp [h2, toxmlList, List.append_assoc]
    · intro n hn
      simp at hn
      rcases hn with rfl | hn
      · exact Or.inr rfl
      · exact h3 n hn
    · rcases h4 with rfl | ⟨rfl, d', hd', rfl⟩
      · exact Or.inl rfl
      · exact Or.inr ⟨rfl, d', hd', by simp⟩
  · obtain ⟨rfl, rfl, rfl⟩ := h
    rename_i n rest h1 h2 h3 h4
    refine ⟨⟨[], [], by simp [toxmlList]⟩, ?_, ?_⟩
    · intro c r he; simp at he; exact h4 c he.1
    · intro d c r he; simp at he; exact (h2 d c r he.1 he.2).elim


theorem handleComment_spec {c : List Nat} {r : List DNode} {cc : Lit} {rem : List DNode}
    (h : handleComment c r = some (cc, rem)) :
    (DNode.comment c).printable = true ∧ CommentSpec (DNode.comment c).toxml r cc.all rem := by
  unfold handleComment at h
  split at h
  · cases h
  · rename_i cx hx
    obtain ⟨hp, rfl⟩ := toxml?_some hx
    split at h
    · cases h
    · rename_i a' v' rem' hc
      simp at h
      obtain ⟨rfl, rfl⟩ := h
      exact ⟨hp, commentLoop_spec _ _ _ _ _ _ hc⟩

/-- `node.nodeValue` of a text or CDATA node -/
def dataOf : DNode → List Nat
  | .text d => d
  | .cdata d => d
  | _ => []

def whiteLit (n : DNode) : Lit := ⟨n.toxml, dataOf n⟩

/-- the outcomes of one iteration of the loop of `walk`, declaratively -/
inductive StepCase (ol : Bool) (n : DNode) (r : List DNode) : Step → Prop
  | elem : n.isElement = true → n.printable = true → StepCase ol n r (.cont [elemEntry none none n] r)
  | white : n.isTextLike = true → n.printable = true → StepCase ol n r (.cont (extras ol none (some (whiteLit n))) r)
  | other : n.isElement = false → n.isTextLike = false → n.isComment = false → StepCase ol n r (.cont (extras ol none none) r)
  | cEnd (c : List Nat) (cc : Lit) : n = .comment c → handleComment c r = some (cc, []) →
      StepCase ol n r (.stop (extras ol (some cc) none))
  | cLong (c : List Nat) (cc : Lit) (n1 : DNode) (r1 : List DNode) : n = .comment c →
      handleComment c r = some (cc, n1 :: r1) → n1.isTextLike = true → n1.printable = true → ¬ shortW (dataOf n1) →
      StepCase ol n r (.cont (extras ol (some cc) (some (whiteLit n1))) r1)
  | cShortEnd (c : List Nat) (cc : Lit) (n1 : DNode) : n = .comment c →
      handleComment c r = some (cc, [n1]) → n1.isTextLike = true → n1.printable = true → shortW (dataOf n1) →
      StepCase ol n r (.stop (extras ol (some cc) (some (whiteLit n1))))
  | cShortElem (c : List Nat) (cc : Lit) (n1 n2 : DNode) (r2 : List DNode) : n = .comment c →
      handleComment c r = some (cc, n1 :: n2 :: r2) → n1.isTextLike = true → n1.printable = true → shortW (dataOf n1) →
      n2.isElement = true → n2.printable = true →
      StepCase ol n r (.cont [elemEntry (some cc) (some (whiteLit n1)) n2] r2)
  | cShortOther (c : List Nat) (cc : Lit) (n1 n2 : DNode) (r2 : List DNode) : n = .comment c →
      handleComment c r = some (cc, n1 :: n2 :: r2) → n1.isTextLike = true → n1.printable = true → shortW (dataOf n1) →
      n2.isElement = false →
      StepCase ol n r (.cont (extras ol (some cc) (some (whiteLit n1))) r2)
  | cElem (c : List Nat) (cc : Lit) (n1 : DNode) (r1 : List DNode) : n = .comment c →
      handleComment c r = some (cc, n1 :: r1) → n1.isElement = true → n1.printable = true →
      StepCase ol n r (.cont [elemEntry (some cc) none n1] r1)
  | cOther (c : List Nat) (cc : Lit) (n1 : DNode) (r1 : List DNode) : n = .comment c →
      handleComment c r = some (cc, n1 :: r1) → n1.isElement = false → n1.isTextLike = false →
      StepCase ol n r (.cont (extras ol (some cc) none) r1)

theorem stepElem_cases {ol : Bool} {cc ws : Option Lit} {node : DNode} {rest : List DNode} {s : Step}
    (h : stepElem ol cc ws node rest = some s) :
    (node.isElement = true ∧ node.printable = true ∧ s = .cont [elemEntry cc ws node] rest) ∨
    (node.isElement = false ∧ s = .cont (extras ol cc ws) rest) := by
  unfold stepElem at h
  split at h
  · rename_i he
    left
    cases node <;> simp [DNode.isElement] at he
    rename_i name attrs cs
    rw [handleElement_eq] at h
    split at h
    · rename_i hp
      simp at h
      exact ⟨rfl, hp, h.symm⟩
    · simp at h
  · rename_i he
    right
    simp at h
    exact ⟨by simpa using he, h.symm⟩

theorem stepWhite_textlike {ol : Bool} {cc : Option Lit} {node : DNode} {rest : List DNode} {s : Step}
    (htl : node.isTextLike = true) (h : stepWhite ol cc node rest = some s) :
    node.printable = true ∧
      ((cc = none ∧ s = .cont (extras ol none (some (whiteLit node))) rest) ∨
       (∃ c, cc = some c ∧
         ((¬ shortW (dataOf node) ∧ s = .cont (extras ol (some c) (some (whiteLit node))) rest) ∨
          (shortW (dataOf node) ∧ rest = [] ∧ s = .stop (extras ol (some c) (some (whiteLit node)))) ∨
          (shortW (dataOf node) ∧ ∃ n2 r2, rest = n2 :: r2 ∧
             stepElem ol (some c) (some (whiteLit node)) n2 r2 = some s)))) := by
  have key : ∀ d, dataOf node = d → stepWhiteBody ol cc node d rest = some s → node.printable = true ∧
      ((cc = none ∧ s = .cont (extras ol none (some (whiteLit node))) rest) ∨
       (∃ c, cc = some c ∧
         ((¬ shortW (dataOf node) ∧ s = .cont (extras ol (some c) (some (whiteLit node))) rest) ∨
          (shortW (dataOf node) ∧ rest = [] ∧ s = .stop (extras ol (some c) (some (whiteLit node)))) ∨
          (shortW (dataOf node) ∧ ∃ n2 r2, rest = n2 :: r2 ∧
             stepElem ol (some c) (some (whiteLit node)) n2 r2 = some s)))) := by
    intro d hd h
    unfold stepWhiteBody at h
    split at h
    · cases h
    · rename_i wx hx
      obtain ⟨hp, rfl⟩ := toxml?_some hx
      have hw : (⟨node.toxml, d⟩ : Lit) = whiteLit node := by simp [whiteLit, hd]
      simp only [hw] at h
      refine ⟨hp, ?_⟩
      cases cc with
      | none => simp at h; exact Or.inl ⟨rfl, h.symm⟩
      | some c' =>
        right
        refine ⟨c', rfl, ?_⟩
        simp only at h
        split at h
        · rename_i hlong
          simp at h
          exact Or.inl ⟨by rw [hd]; exact fun hs => hs hlong, h.symm⟩
        · rename_i hshort
          have hs : shortW (dataOf node) := by rw [hd]; exact hshort
          split at h
          · simp at h; exact Or.inr (Or.inl ⟨hs, rfl, h.symm⟩)
          · exact Or.inr (Or.inr ⟨hs, _, _, rfl, h⟩)
  cases node <;> simp [DNode.isTextLike] at htl
  · exact key _ rfl (by simpa [stepWhite, dataOf] using h)
  · exact key _ rfl (by simpa [stepWhite, dataOf] using h)

theorem stepWhite_other {ol : Bool} {cc : Option Lit} {node : DNode} {rest : List DNode}
    (htl : node.isTextLike = false) : stepWhite ol cc node rest = stepElem ol cc none node rest := by
  cases node <;> simp [DNode.isTextLike] at htl <;> simp [stepWhite]

theorem walkStep_cases {ol : Bool} {n : DNode} {r : List DNode} {s : Step} (h : walkStep ol n r = some s) :
    StepCase ol n r s := by
  by_cases hcm : n.isComment = true
  · cases n <;> simp [DNode.isComment] at hcm
    rename_i c
    simp only [walkStep] at h
    split at h
    · cases h
    · rename_i cc hc
      simp at h; subst h
      exact .cEnd c cc rfl hc
    · rename_i cc n1 r1 hc
      by_cases htl : n1.isTextLike = true
      · obtain ⟨hp, hcases⟩ := stepWhite_textlike htl h
        rcases hcases with ⟨h1, _⟩ | ⟨c', hc', hcases⟩
        · cases h1
        · cases hc'
          rcases hcases with ⟨hl, rfl⟩ | ⟨hs, rfl, rfl⟩ | ⟨hs, n2, r2, rfl, he⟩
          · exact .cLong c cc n1 r1 rfl hc htl hp hl
          · exact .cShortEnd c cc n1 rfl hc htl hp hs
          · rcases stepElem_cases he with ⟨h1, h2, rfl⟩ | ⟨h1, rfl⟩
            · exact .cShortElem c cc n1 n2 r2 rfl hc htl hp hs h1 h2
            · exact .cShortOther c cc n1 n2 r2 rfl hc htl hp hs h1
      · have htl : n1.isTextLike = false := by simpa using htl
        rw [stepWhite_other htl] at h
        rcases stepElem_cases h with ⟨h1, h2, rfl⟩ | ⟨h1, rfl⟩
        · exact .cElem c cc n1 r1 rfl hc h1 h2
        · exact .cOther c cc n1 r1 rfl hc h1 htl
  · have hcm : n.isComment = false := by simpa using hcm
    have hw : walkStep ol n r = stepWhite ol none n r := by
      cases n <;> simp [DNode.isComment] at hcm <;> simp [walkStep]
    rw [hw] at h
    by_cases htl : n.isTextLike = true
    · obtain ⟨hp, hcases⟩ := stepWhite_textlike htl h
      rcases hcases with ⟨_, rfl⟩ | ⟨c', hc', _⟩
      · exact .white htl hp
      · cases hc'
    · have htl : n.isTextLike = false := by simpa using htl
      rw [stepWhite_other htl] at h
      rcases stepElem_cases h with ⟨h1, h2, rfl⟩ | ⟨h1, rfl⟩
      · exact .elem h1 h2
      · exact .other h1 htl hcm
end C09P

/- C06 helper lemmas, part 1: `__chain_b` builds, for every non-popular element, the ascending list
   of its positions in `b`. -/
import CLModel.Checks.Difflib
namespace Difflib
variable {α : Type} [DecidableEq α]

/-- positions (offset `i`) of `x` in a list -/
def idxFrom (x : α) : List α → Nat → List Nat
  | [], _ => []
  | y :: ys, i => if y = x then i :: idxFrom x ys (i + 1) else idxFrom x ys (i + 1)

theorem mem_idxFrom {x : α} {l : List α} {i j : Nat} :
    j ∈ idxFrom x l i ↔ i ≤ j ∧ l[j - i]? = some x := by
  induction l generalizing i with
  | nil => simp [idxFrom]
  | cons y ys ih =>
    simp only [idxFrom]
    split
    · rename_i h
      subst h
      simp only [List.mem_cons, ih]
      constructor
      · rintro (rfl | ⟨h1, h2⟩)
        · simp
        · refine ⟨by omega, ?_⟩
          have : j - i = (j - (i + 1)) + 1 := by omega
          rw [this]; simpa using h2
      · rintro ⟨h1, h2⟩
        by_cases hj : j = i
        · left; exact hj
        · right
          refine ⟨by omega, ?_⟩
          have : j - i = (j - (i + 1)) + 1 := by omega
          rw [this] at h2; simpa using h2
    · rename_i h
      rw [ih]
      constructor
      · rintro ⟨h1, h2⟩
        refine ⟨by omega, ?_⟩
        have : j - i = (j - (i + 1)) + 1 := by omega
        rw [this]; simpa using h2
      · rintro ⟨h1, h2⟩
        by_cases hj : j = i
        · subst hj; simp at h2; exact absurd h2 h
        · refine ⟨by omega, ?_⟩
          have : j - i = (j - (i + 1)) + 1 := by omega
          rw [this] at h2; simpa using h2

theorem idxFrom_lb {x : α} {l : List α} {i j : Nat} (h : j ∈ idxFrom x l i) : i ≤ j :=
  (mem_idxFrom.mp h).1

theorem idxFrom_sorted (x : α) (l : List α) (i : Nat) : (idxFrom x l i).Pairwise (· < ·) := by
  induction l generalizing i with
  | nil => simp [idxFrom]
  | cons y ys ih =>
    simp only [idxFrom]
    split
    · refine List.Pairwise.cons ?_ (ih _)
      intro j hj
      have := idxFrom_lb hj
      omega
    · exact ih _

theorem idxFrom_length_eq_count (x : α) (l : List α) (i : Nat) : (idxFrom x l i).length = l.count x := by
  induction l generalizing i with
  | nil => simp [idxFrom]
  | cons y ys ih =>
    simp only [idxFrom, List.count_cons]
    split
    · rename_i h; subst h; simp [ih]
    · rename_i h; simp [ih, h]

theorem b2jGet_add (d : List (α × List Nat)) (e x : α) (i : Nat) :
    b2jGet (b2jAdd d e i) x = if e = x then b2jGet d x ++ [i] else b2jGet d x := by
  induction d with
  | nil =>
    simp only [b2jAdd, b2jGet, List.find?]
    by_cases h : e = x <;> simp [h]
  | cons p rest ih =>
    obtain ⟨k, l⟩ := p
    simp only [b2jAdd]
    by_cases hk : k = e
    · subst hk
      simp only [if_true]
      by_cases hx : k = x
      · simp [b2jGet, List.find?, hx]
      · simp [b2jGet, List.find?, hx]
    · simp only [hk, if_false]
      by_cases hx : k = x
      · subst hx
        have : ¬ e = k := fun h => hk h.symm
        simp [b2jGet, List.find?, this]
      · simp only [b2jGet, List.find?, hx, decide_false] at ih ⊢
        exact ih

theorem keys_add (d : List (α × List Nat)) (e : α) (i : Nat) :
    (b2jAdd d e i).map (·.1) = if e ∈ d.map (·.1) then d.map (·.1) else d.map (·.1) ++ [e] := by
  induction d with
  | nil => simp [b2jAdd]
  | cons p rest ih =>
    obtain ⟨k, l⟩ := p
    simp only [b2jAdd]
    by_cases hk : k = e
    · subst hk; simp
    · have : ¬ e = k := fun h => hk h.symm
      simp only [hk, if_false, List.map_cons, ih, List.mem_cons, this, false_or]
      split <;> simp

theorem keys_add_nodup (d : List (α × List Nat)) (e : α) (i : Nat) (h : (d.map (·.1)).Nodup) :
    ((b2jAdd d e i).map (·.1)).Nodup := by
  rw [keys_add]
  split
  · exact h
  · rename_i hn
    rw [List.nodup_append]
    refine ⟨h, by simp, ?_⟩
    intro a ha b hb
    simp at hb; subst hb
    intro hab; subst hab; exact hn ha

theorem b2jBuild_get (b : List α) (i : Nat) (d : List (α × List Nat)) (x : α) :
    b2jGet (b2jBuild b i d) x = b2jGet d x ++ idxFrom x b i := by
  induction b generalizing i d with
  | nil => simp [b2jBuild, idxFrom]
  | cons y ys ih =>
    simp only [b2jBuild, idxFrom, ih, b2jGet_add]
    by_cases h : y = x <;> simp [h]

theorem b2jBuild_nodup (b : List α) (i : Nat) (d : List (α × List Nat)) (h : (d.map (·.1)).Nodup) :
    ((b2jBuild b i d).map (·.1)).Nodup := by
  induction b generalizing i d with
  | nil => simpa [b2jBuild]
  | cons y ys ih => exact ih _ _ (keys_add_nodup d y i h)

theorem b2jGet_filter (d : List (α × List Nat)) (p : α × List Nat → Bool) (x : α)
    (h : (d.map (·.1)).Nodup) :
    b2jGet (d.filter p) x =
      match d.find? (fun q => decide (q.1 = x)) with
      | some q => if p q then q.2 else []
      | none => [] := by
  induction d with
  | nil => simp [b2jGet]
  | cons q rest ih =>
    simp only [List.map_cons, List.nodup_cons] at h
    simp only [List.filter_cons]
    by_cases hq : q.1 = x
    · simp only [List.find?, hq, decide_true]
      by_cases hp : p q
      · simp [hp, b2jGet, List.find?, hq]
      · simp only [hp, Bool.false_eq_true, if_false]
        have : (rest.filter p).find? (fun q => decide (q.1 = x)) = none := by
          rw [List.find?_eq_none]
          intro r hr
          simp only [decide_eq_true_eq]
          intro hrx
          apply h.1
          rw [hq, ← hrx]
          exact List.mem_map_of_mem (List.mem_filter.mp hr).1
        simp [b2jGet, this]
    · have ih' := ih h.2
      simp only [List.find?, hq, decide_false]
      by_cases hp : p q
      · simp only [hp, if_true]
        simp only [b2jGet, List.find?, hq, decide_false] at ih' ⊢
        exact ih'
      · simp only [hp, Bool.false_eq_true, if_false]
        exact ih'

/-- an element is dropped from `b2j` ("popular") -/
def popular (b : List α) (x : α) : Prop := b.length ≥ 200 ∧ b.count x > b.length / 100 + 1

instance (b : List α) (x : α) : Decidable (popular b x) := by unfold popular; infer_instance

/-- `b2j` of `__chain_b`: the ascending positions of `x` in `b`, nothing for popular elements -/
theorem chainB_get (b : List α) (x : α) :
    b2jGet (chainB b) x = if popular b x then [] else idxFrom x b 0 := by
  have hnd : ((b2jBuild b 0 []).map (·.1)).Nodup := b2jBuild_nodup b 0 [] (by simp)
  have hget : b2jGet (b2jBuild b 0 []) x = idxFrom x b 0 := by
    rw [b2jBuild_get]; simp [b2jGet]
  unfold chainB
  simp only
  split
  · rename_i hn
    rw [b2jGet_filter _ _ _ hnd]
    unfold b2jGet at hget
    split
    · rename_i q hq
      rw [hq] at hget
      simp only at hget
      have hlen : q.2.length = b.count x := by rw [hget, idxFrom_length_eq_count]
      simp only [hlen, popular]
      by_cases hc : b.count x > b.length / 100 + 1
      · simp [hc, hn]
      · simp [hc, hget]
    · rename_i hq
      rw [hq] at hget
      simp only at hget
      rw [← hget]; simp
  · rename_i hn
    have : ¬ popular b x := fun h => hn h.1
    simp [this, hget]

end Difflib

/- C14 composed: from pattern TEXTS to verdicts.  The matcher `_filter` consults for a text (`boundMatcher`), literal
   and `dir*suffix` rule paths, the `{locale}` binding, and the link between a configuration given by texts and the
   abstract configuration `instantiate` builds for one query. -/
import CLModel.Proofs.C14MCompose
import CLModel.Proofs.C14MMatch
import CLModel.Proofs.C11Sub
import CLModel.Proofs.C11Sound
import CLModel.Proofs.C12Prefix
import CLModel.Proofs.C12PrefixFull
namespace C14M
open Rx PM Filt FiltM Filt.Spec

/-! ### the bound matcher of a pattern text -/

theorem realEnv_single_inv {k v : List Nat} {e : PM.Env} (h : realEnv [(k, v)] = .ok e) :
    ∃ p, parsePattern v = .ok p ∧ e = [(k, .pat p)] := by
  simp only [realEnv] at h
  obtain ⟨p, hp, h⟩ := bind_ok h
  simp only [pure, Except.pure, bind, Except.bind, Except.ok.injEq] at h
  exact ⟨p, hp, h.symm⟩

/-- what `Matcher(pat, env=environ, root=root).with_env({"locale": L})` is, when it returns: the parsed pattern
    with the root, and the parsed environment in which "locale" is (re)bound to the parsed `L` -/
theorem boundMatcher_inv {environ : Environ} {root : Option (List Nat)} {pat L : List Nat} {b : Matcher}
    (h : boundMatcher environ root pat L = .ok b) :
    ∃ e p pl, realEnv environ = .ok e ∧ parsePattern pat = .ok p ∧ parsePattern L = .ok pl ∧
      b = { pattern := { p with root := root }, env := dupdate e [(localeName, .pat pl)] } := by
  unfold boundMatcher at h
  obtain ⟨m, hm, h⟩ := bind_ok h
  unfold mkMatcher at hm
  obtain ⟨e, he, hm⟩ := bind_ok hm
  obtain ⟨p, hp, hm⟩ := bind_ok hm
  simp only [pure, Except.pure, Except.ok.injEq] at hm
  subst hm
  unfold Matcher.withEnv at h
  obtain ⟨e', he', h⟩ := bind_ok h
  obtain ⟨pl, hpl, rfl⟩ := realEnv_single_inv he'
  simp only [pure, Except.pure, Except.ok.injEq] at h
  exact ⟨e, p, pl, he, hp, hpl, h.symm⟩

theorem boundMatcher_ok {environ : Environ} {root : Option (List Nat)} {pat L : List Nat} {e : PM.Env}
    {p pl : Pattern} (he : realEnv environ = .ok e) (hp : parsePattern pat = .ok p) (hpl : parsePattern L = .ok pl) :
    boundMatcher environ root pat L =
      .ok { pattern := { p with root := root }, env := dupdate e [(localeName, .pat pl)] } := by
  simp only [boundMatcher, mkMatcher, Matcher.withEnv, localeEnv, realEnv, he, hp, hpl, bind, Except.bind, pure,
    Except.pure]

/-- an environment of texts without specials is parsed to literal patterns -/
theorem realEnv_plain : ∀ {environ : Environ}, (∀ kv ∈ environ, Plain kv.2) →
    realEnv environ = .ok (environ.map (fun kv => (kv.1, Val.pat ⟨[.lit kv.2], none, 1⟩)))
  | [], _ => rfl
  | (k, v) :: rest, h => by
    have h1 := parsePattern_plain (h (k, v) (by simp))
    have h2 := realEnv_plain (environ := rest) (fun kv hkv => h kv (by simp [hkv]))
    simp only [realEnv, h1, h2, bind, Except.bind, pure, Except.pure, List.map_cons]

/-- `patMatches` through the bound matcher -/
theorem patMatches_of_bound {environ : Environ} {root : Option (List Nat)} {pat L path : List Nat} {b : Matcher}
    {r : Option GroupDict} (hb : boundMatcher environ root pat L = .ok b) (hm : b.match path = .ok r) :
    patMatches environ root pat L path = .ok r.isSome := by
  simp only [patMatches, matchesS, hb, hm, bind, Except.bind, pure, Except.pure]

/-! ### a literal rule path, a `dir*suffix` rule path -/

theorem literal_bound_match {environ : Environ} {root : Option (List Nat)} {t L : List Nat} {b : Matcher}
    (ht : Plain t) (hb : boundMatcher environ root t L = .ok b) (path : List Nat) :
    b.match path = .ok (if path = effRoot root t ++ t then some [] else none) := by
  obtain ⟨e, p, pl, _, hp, _, rfl⟩ := boundMatcher_inv hb
  rw [parsePattern_plain ht] at hp
  cases hp
  exact match_lit (m := ⟨⟨[.lit t], root, 1⟩, _⟩) rfl path

theorem star_bound_match {environ : Environ} {root : Option (List Nat)} {pre post L : List Nat} {b : Matcher}
    (hpre : Plain pre) (hne : pre ≠ []) (hpost : Plain post)
    (hb : boundMatcher environ root (pre ++ 42 :: post) L = .ok b) (x : List Nat) :
    b.match (effRoot root pre ++ pre ++ x ++ post) =
      .ok (if 47 ∈ x then none else some [(sname 1, some x)]) := by
  obtain ⟨e, p, pl, _, hp, _, rfl⟩ := boundMatcher_inv hb
  rw [parsePattern_star hpre hne hpost] at hp
  cases hp
  exact match_star (mt := ⟨⟨[.lit pre, .star 1, .lit post], root, 1⟩, _⟩) rfl x

/-! ### `{locale}` -/

/-- in the bound matcher "locale" stands for the parsed locale of the queried file — whatever `environ` said -/
theorem bound_locale_lookup {environ : Environ} {root : Option (List Nat)} {pat L : List Nat} {b : Matcher}
    (hb : boundMatcher environ root pat L = .ok b) :
    ∃ pl, parsePattern L = .ok pl ∧ b.env.lookup localeName = some (.pat pl) := by
  obtain ⟨e, p, pl, _, _, hpl, rfl⟩ := boundMatcher_inv hb
  refine ⟨pl, hpl, ?_⟩
  simp only [lookup_dupdate, List.reverse_cons, List.reverse_nil, List.nil_append, List.lookup_cons,
    beq_self_eq_true]


/-- an environment of plain texts and a plain locale give the bound matcher the shapes the C11/C12 theorems ask for -/
theorem bound_env_plain {environ : Environ} {root : Option (List Nat)} {pat L : List Nat} {b : Matcher}
    (henv : ∀ kv ∈ environ, Plain kv.2) (hL : Plain L) (hb : boundMatcher environ root pat L = .ok b) :
    EnvOK b.env ∧ FlatEnv b.env ∧ b.env.lookup localeName = some (.pat ⟨[.lit L], none, 1⟩) := by
  obtain ⟨e, p, pl, he, _, hpl, rfl⟩ := boundMatcher_inv hb
  rw [realEnv_plain henv] at he
  rw [parsePattern_plain hL] at hpl
  cases he; cases hpl
  have hmem : ∀ k v, (k, v) ∈ dupdate (environ.map (fun kv => (kv.1, Val.pat ⟨[.lit kv.2], none, 1⟩)))
      [(localeName, Val.pat ⟨[.lit L], none, 1⟩)] → ∃ t, v = Val.pat ⟨[.lit t], none, 1⟩ := by
    intro k v hm
    simp only [dupdate, List.foldl_cons, List.foldl_nil] at hm
    rcases mem_dset hm with hm | hm
    · obtain ⟨kv, _, hkv⟩ := List.mem_map.mp hm
      simp only [Prod.mk.injEq] at hkv
      exact ⟨kv.2, hkv.2.symm⟩
    · simp only [Prod.mk.injEq] at hm
      exact ⟨L, hm.2⟩
  refine ⟨?_, ?_, ?_⟩
  · intro k v hm
    obtain ⟨t, rfl⟩ := hmem k v hm
    refine ⟨rfl, ?_⟩
    intro n hn
    simp only [List.mem_singleton] at hn
    subst hn; trivial
  · intro k v hm
    obtain ⟨t, rfl⟩ := hmem k v hm
    exact ⟨_, rfl, rfl, fun n hn => ⟨t, by simpa using hn⟩⟩
  · simp only [lookup_dupdate, List.reverse_cons, List.reverse_nil, List.nil_append, List.lookup_cons,
      beq_self_eq_true]

/-! ### configuration texts and the abstract configuration of one query -/

/-- the abstract rule `b` stands for the text rule `a` on the query (loc, fp) -/
def RuleRel (environ : Environ) (root : Option (List Nat)) (loc fp : List Nat) (a : RuleM) (b : Rule) : Prop :=
  patMatches environ root a.path loc fp = .ok (b.path.matchWith loc fp) ∧ a.key = b.key ∧ a.action = b.action

def PathRel (environ : Environ) (root : Option (List Nat)) (loc fp : List Nat) (a : PathEntryM) (b : PathEntry) : Prop :=
  patMatches environ root a.l10n loc fp = .ok (b.l10n.matchWith loc fp) ∧ a.locales = b.locales

theorem patMatches_of_eval {environ : Environ} {root : Option (List Nat)} {pat loc fp : List Nat} {m : Matcher}
    {pm : PathM} (hm : mkMatcher pat environ root = .ok m) (he : evalMatcher m loc fp = .ok pm) :
    patMatches environ root pat loc fp = .ok (pm.matchWith loc fp) := by
  obtain ⟨b, r, hb, hr, rfl⟩ := evalMatcher_inv he
  simp only [patMatches, boundMatcher, hm, hb, hr, bind, Except.bind]

theorem rules_rel {environ : Environ} {root : Option (List Nat)} {loc fp : List Nat} :
    ∀ {rules : List RuleM} {ss : List RuleS} {rs : List Rule},
    buildRules environ root rules = .ok ss → evalRules loc fp ss = .ok rs →
    ∃ l : List (RuleM × Rule), rules = l.map (·.1) ∧ rs = l.map (·.2) ∧
      ∀ p ∈ l, RuleRel environ root loc fp p.1 p.2
  | [], ss, rs, hb, he => by
    simp only [buildRules, pure, Except.pure, Except.ok.injEq] at hb
    subst hb
    simp only [evalRules, pure, Except.pure, Except.ok.injEq] at he
    subst he
    exact ⟨[], rfl, rfl, fun p hp => by cases hp⟩
  | r :: rest, ss, rs, hb, he => by
    simp only [buildRules] at hb
    obtain ⟨m, hm, hb⟩ := bind_ok hb
    obtain ⟨ss', hss', hb⟩ := bind_ok hb
    simp only [pure, Except.pure, Except.ok.injEq] at hb
    subst hb
    simp only [evalRules] at he
    obtain ⟨pm, hpm, he⟩ := bind_ok he
    obtain ⟨rs', hrs', he⟩ := bind_ok he
    simp only [pure, Except.pure, Except.ok.injEq] at he
    subst he
    obtain ⟨l, h1, h2, h3⟩ := rules_rel hss' hrs'
    refine ⟨(r, ⟨pm, r.key, r.action⟩) :: l, by simp [h1], by simp [h2], ?_⟩
    intro p hp
    rcases List.mem_cons.mp hp with rfl | hp
    · exact ⟨patMatches_of_eval hm hpm, rfl, rfl⟩
    · exact h3 p hp

theorem paths_rel {environ : Environ} {root : Option (List Nat)} {loc fp : List Nat} :
    ∀ {paths : List PathEntryM} {ss : List PathEntryS} {ps : List PathEntry},
    buildPaths environ root paths = .ok ss → evalPaths loc fp ss = .ok ps →
    ∃ l : List (PathEntryM × PathEntry), paths = l.map (·.1) ∧ ps = l.map (·.2) ∧
      ∀ p ∈ l, PathRel environ root loc fp p.1 p.2
  | [], ss, ps, hb, he => by
    simp only [buildPaths, pure, Except.pure, Except.ok.injEq] at hb
    subst hb
    simp only [evalPaths, pure, Except.pure, Except.ok.injEq] at he
    subst he
    exact ⟨[], rfl, rfl, fun p hp => by cases hp⟩
  | r :: rest, ss, ps, hb, he => by
    simp only [buildPaths] at hb
    obtain ⟨m, hm, hb⟩ := bind_ok hb
    obtain ⟨ss', hss', hb⟩ := bind_ok hb
    simp only [pure, Except.pure, Except.ok.injEq] at hb
    subst hb
    simp only [evalPaths] at he
    obtain ⟨pm, hpm, he⟩ := bind_ok he
    obtain ⟨ps', hps', he⟩ := bind_ok he
    simp only [pure, Except.pure, Except.ok.injEq] at he
    subst he
    obtain ⟨l, h1, h2, h3⟩ := paths_rel hss' hps'
    refine ⟨(r, ⟨pm, r.locales⟩) :: l, by simp [h1], by simp [h2], ?_⟩
    intro p hp
    rcases List.mem_cons.mp hp with rfl | hp
    · exact ⟨patMatches_of_eval hm hpm, rfl⟩
    · exact h3 p hp

theorem configs_rel {loc fp : List Nat} : ∀ {ms : List ConfigM} {ss : List ConfigS} {cs : List Config},
    buildList ms = .ok ss → evalListS ss loc fp = .ok cs →
    ∃ l : List (ConfigM × Config), ms = l.map (·.1) ∧ cs = l.map (·.2) ∧
      ∀ p ∈ l, instantiate p.1 loc fp = .ok p.2
  | [], ss, cs, hb, he => by
    simp only [buildList, pure, Except.pure, Except.ok.injEq] at hb
    subst hb
    rw [evalListS_nil_inv he]
    exact ⟨[], rfl, rfl, fun p hp => by cases hp⟩
  | m :: rest, ss, cs, hb, he => by
    simp only [buildList] at hb
    obtain ⟨s, hs, hb⟩ := bind_ok hb
    obtain ⟨ss', hss', hb⟩ := bind_ok hb
    simp only [pure, Except.pure, Except.ok.injEq] at hb
    subst hb
    obtain ⟨c, cs', hc, hcs', rfl⟩ := evalListS_cons_inv he
    obtain ⟨l, h1, h2, h3⟩ := configs_rel hss' hcs'
    refine ⟨(m, c) :: l, by simp [h1], by simp [h2], ?_⟩
    intro p hp
    rcases List.mem_cons.mp hp with rfl | hp
    · simp only [instantiate, hs, hc, bind, Except.bind]
    · exact h3 p hp

/-- what `instantiate` returns for a configuration given by texts: the same `locales`, one abstract path / rule
    per text whose predicate is the answer of `patMatches` for the query, the instantiated included and excluded
    configurations -/
theorem instantiate_inv {locales : Option (List (List Nat))} {environ : Environ} {root : Option (List Nat)}
    {paths : List PathEntryM} {rules : List RuleM} {children excludes : List ConfigM} {loc fp : List Nat} {c : Config}
    (h : instantiate (.mk locales environ root paths rules children excludes) loc fp = .ok c) :
    ∃ (lp : List (PathEntryM × PathEntry)) (lr : List (RuleM × Rule)) (lc le : List (ConfigM × Config)),
      c = .mk locales (lp.map (·.2)) (lr.map (·.2)) (lc.map (·.2)) (le.map (·.2)) ∧
      paths = lp.map (·.1) ∧ rules = lr.map (·.1) ∧ children = lc.map (·.1) ∧ excludes = le.map (·.1) ∧
      (∀ p ∈ lp, PathRel environ root loc fp p.1 p.2) ∧ (∀ p ∈ lr, RuleRel environ root loc fp p.1 p.2) ∧
      (∀ p ∈ lc, instantiate p.1 loc fp = .ok p.2) ∧ (∀ p ∈ le, instantiate p.1 loc fp = .ok p.2) := by
  unfold instantiate at h
  obtain ⟨s, hs, h⟩ := bind_ok h
  rw [build] at hs
  obtain ⟨ps, hps, hs⟩ := bind_ok hs
  obtain ⟨rs, hrs, hs⟩ := bind_ok hs
  obtain ⟨cs, hcs, hs⟩ := bind_ok hs
  obtain ⟨es, hes, hs⟩ := bind_ok hs
  simp only [pure, Except.pure, Except.ok.injEq] at hs
  subst hs
  obtain ⟨ps', rs', cs', es', hps', hrs', hcs', hes', rfl⟩ := evalS_inv h
  obtain ⟨lp, a1, a2, a3⟩ := paths_rel hps hps'
  obtain ⟨lr, b1, b2, b3⟩ := rules_rel hrs hrs'
  obtain ⟨lc, c1, c2, c3⟩ := configs_rel hcs hcs'
  obtain ⟨le, d1, d2, d3⟩ := configs_rel hes hes'
  exact ⟨lp, lr, lc, le, by rw [a2, b2, c2, d2], a1, b1, c1, d1, a3, b3, c3, d3⟩

end C14M

namespace C14M
open Rx PM Filt FiltM Filt.Spec

/-! ### what `environ` says about "locale" is overridden -/

theorem realEnv_append : ∀ {a b : Environ} {ea eb : PM.Env}, realEnv a = .ok ea → realEnv b = .ok eb →
    realEnv (a ++ b) = .ok (ea ++ eb)
  | [], b, ea, eb, ha, hb => by
    simp only [realEnv, pure, Except.pure, Except.ok.injEq] at ha
    subst ha; simpa using hb
  | (k, v) :: rest, b, ea, eb, ha, hb => by
    simp only [realEnv] at ha
    obtain ⟨p, hp, ha⟩ := bind_ok ha
    obtain ⟨e, he, ha⟩ := bind_ok ha
    simp only [pure, Except.pure, Except.ok.injEq] at ha
    subst ha
    simp only [List.cons_append, realEnv, hp, realEnv_append he hb, bind, Except.bind, pure, Except.pure]

theorem realEnv_keys : ∀ {a : Environ} {ea : PM.Env}, realEnv a = .ok ea → ea.map (·.1) = a.map (·.1)
  | [], ea, ha => by
    simp only [realEnv, pure, Except.pure, Except.ok.injEq] at ha
    subst ha; rfl
  | (k, v) :: rest, ea, ha => by
    simp only [realEnv] at ha
    obtain ⟨p, hp, ha⟩ := bind_ok ha
    obtain ⟨e, he, ha⟩ := bind_ok ha
    simp only [pure, Except.pure, Except.ok.injEq] at ha
    subst ha
    simp [realEnv_keys he]

theorem dset_snoc_same {β} (e : List (List Nat × β)) (k : List Nat) (v w : β)
    (hno : e.any (fun p => p.1 == k) = false) : dset (e ++ [(k, v)]) k w = dset e k w := by
  have hmap : e.map (fun p => if p.1 == k then (k, w) else p) = e := by
    have hid : ∀ p ∈ e, (if p.1 == k then (k, w) else p) = id p := by
      intro p hp
      have : (p.1 == k) = false := by
        cases hpk : (p.1 == k) with
        | false => rfl
        | true =>
          have : e.any (fun p => p.1 == k) = true := List.any_eq_true.mpr ⟨p, hp, hpk⟩
          rw [hno] at this; cases this
      simp [this]
    rw [List.map_congr_left hid, List.map_id]
  simp only [dset, List.any_append, hno, List.any_cons, beq_self_eq_true, List.any_nil, Bool.or_false,
    Bool.false_or, if_true, List.map_append, hmap, List.map_cons, List.map_nil, Bool.false_eq_true, if_false]

theorem realEnv_append_error : ∀ {a b : Environ} {err : PM.PyErr}, realEnv a = .error err →
    realEnv (a ++ b) = .error err
  | [], b, err, ha => by simp [realEnv, pure, Except.pure] at ha
  | (k, v) :: rest, b, err, ha => by
    simp only [realEnv, List.cons_append] at ha ⊢
    cases hp : parsePattern v with
    | error e' =>
      rw [hp] at ha
      simpa [bind, Except.bind] using ha
    | ok p =>
      rw [hp] at ha
      simp only [bind, Except.bind] at ha ⊢
      cases he : realEnv rest with
      | error e' =>
        rw [he] at ha
        simp only [realEnv_append_error he]
        exact ha
      | ok e => rw [he] at ha; simp [pure, Except.pure] at ha

/-- **what `environ` binds "locale" to never reaches a filter verdict**: `cache()` rebinds it with
    `with_env({"locale": l10n_file.locale})`, so the matcher consulted for a pattern is the same with and without an
    `environ` entry for "locale" (any value the pattern parser accepts) -/
theorem bound_ignores_environ_locale {environ : Environ} {root : Option (List Nat)} {pat L v : List Nat} {pv : Pattern}
    (hno : environ.any (fun p => p.1 == localeName) = false) (hv : parsePattern v = .ok pv) :
    boundMatcher (environ ++ [(localeName, v)]) root pat L = boundMatcher environ root pat L := by
  have hsingle : realEnv [(localeName, v)] = .ok [(localeName, .pat pv)] := by
    simp only [realEnv, hv, bind, Except.bind, pure, Except.pure]
  cases he : realEnv environ with
  | error err =>
    simp only [boundMatcher, mkMatcher, realEnv_append_error he, he, bind, Except.bind]
  | ok e =>
    have hno' : e.any (fun p => p.1 == localeName) = false := by
      have hk := realEnv_keys he
      have h1 : e.any (fun p => p.1 == localeName) = (e.map (·.1)).any (· == localeName) := by
        rw [List.any_map]; rfl
      have h2 : environ.any (fun p => p.1 == localeName) = (environ.map (·.1)).any (· == localeName) := by
        rw [List.any_map]; rfl
      rw [h1, hk, ← h2, hno]
    simp only [boundMatcher, mkMatcher, realEnv_append he hsingle, he, bind, Except.bind]
    cases parsePattern pat with
    | error err => rfl
    | ok p =>
      simp only [pure, Except.pure, Matcher.withEnv, localeEnv, bind, Except.bind]
      cases hl : realEnv [(localeName, L)] with
      | error err => rfl
      | ok el =>
        obtain ⟨pl, _, rfl⟩ := realEnv_single_inv hl
        simp only [dupdate, List.foldl_cons, List.foldl_nil, dset_snoc_same e localeName _ _ hno']

end C14M

/- C01 round 4: the Fluent walk that reads `entry.content`, under the decidable contract `contractB`. -/
import CLModel.Parser.C01Sess
import CLModel.Proofs.FluentWalk
namespace C01P
open P Rx Gen.Pat C01M

theorem all_isStripWs (l : List Nat) :
    l.all isStripWs = l.all (fun c => c == 32 || c == 9 || c == 13 || c == 10) := rfl

/-- when the junk content is the text of the junk span, reading `entry.content` is reading the slice -/
theorem fluentEntryC_eq (s : Array Nat) (l : Bool) (x : FBody)
    (h : x.b.kind = .junk → x.content = slice s x.b.s x.b.e) :
    fluentEntryC s l x = fluentEntry s l x.b := by
  unfold fluentEntryC fluentEntry
  cases hk : x.b.kind with
  | junk => simp only [h hk, all_isStripWs]; rfl
  | message => simp only
  | term => simp only
  | comment => simp only
  | other => simp only

theorem entryOKB_junk {s : Array Nat} {x : FBody} (h : entryOKB s x = true) (hk : x.b.kind = .junk) :
    x.content = slice s x.b.s x.b.e := by
  unfold entryOKB at h
  rw [hk] at h
  simpa using h

theorem entryOKB_other {s : Array Nat} {x : FBody} (h : entryOKB s x = true) (hk : x.b.kind = .other) :
    x.b.s = x.b.e := by
  unfold entryOKB at h
  rw [hk] at h
  simpa using h

/-- key and value of a message/term lie inside the entry (value: or absent, `(-1, -1)`) -/
def EntIn (e : Entry) : Prop :=
  e.kind = .entity →
    ((e.s : Int) ≤ e.ks ∧ e.ks ≤ e.ke ∧ e.ke ≤ (e.e : Int)) ∧
    ((e.vs = -1 ∧ e.ve = -1) ∨ ((e.s : Int) ≤ e.vs ∧ e.vs ≤ e.ve ∧ e.ve ≤ (e.e : Int)))

theorem entryOKB_ent {s : Array Nat} {x : FBody} (h : entryOKB s x = true)
    (hk : x.b.kind = .message ∨ x.b.kind = .term) :
    ((x.b.s : Int) ≤ x.b.ks ∧ x.b.ks ≤ x.b.ke ∧ x.b.ke ≤ (x.b.e : Int)) ∧
    ((x.b.vs = -1 ∧ x.b.ve = -1) ∨ ((x.b.s : Int) ≤ x.b.vs ∧ x.b.vs ≤ x.b.ve ∧ x.b.ve ≤ (x.b.e : Int))) := by
  unfold entryOKB at h
  rcases hk with hk | hk <;> rw [hk] at h <;>
    simp only [Bool.and_eq_true, Bool.or_eq_true, decide_eq_true_eq, beq_iff_eq] at h <;> exact ⟨⟨h.1.1.1, h.1.1.2, h.1.2⟩, h.2.elim Or.inl (fun h => Or.inr ⟨h.1.1, h.1.2, h.2⟩)⟩

theorem contractB_cons {s : Array Nat} {x : FBody} {rest : List FBody} {last : Nat}
    (h : contractB s (x :: rest) last = true) :
    last ≤ x.b.s ∧ x.b.s ≤ x.b.e ∧ x.b.e ≤ s.size ∧ entryOKB s x = true ∧ contractB s rest x.b.e = true := by
  simp only [contractB, Bool.and_eq_true, decide_eq_true_eq] at h
  exact ⟨h.1.1.1.1, h.1.1.1.2, h.1.1.2, h.1.2, h.2⟩

theorem contractB_bodyOK (s : Array Nat) : ∀ body last, contractB s body last = true →
    BodyOK s (body.map (·.b)) last := by
  intro body
  induction body with
  | nil => intro _ _; trivial
  | cons x rest ih =>
    intro last h
    obtain ⟨h1, h2, h3, _, h5⟩ := contractB_cons h
    exact ⟨h1, h2, h3, ih _ h5⟩

theorem contractB_mem (s : Array Nat) : ∀ body last, contractB s body last = true →
    ∀ x ∈ body, entryOKB s x = true ∧ x.b.s ≤ x.b.e ∧ x.b.e ≤ s.size := by
  intro body
  induction body with
  | nil => intro _ _ x hx; cases hx
  | cons y rest ih =>
    intro last h x hx
    obtain ⟨_, h2, h3, h4, h5⟩ := contractB_cons h
    rcases List.mem_cons.mp hx with rfl | hx
    · exact ⟨h4, h2, h3⟩
    · exact ih _ h5 x hx

/-- under the contract the walk that reads `entry.content` is the walk over the spans alone -/
theorem fluentWalkFromC_eq (s : Array Nat) (l : Bool) : ∀ body last, contractB s body last = true →
    fluentWalkFromC s l body last = fluentWalkFrom s l (body.map (·.b)) last := by
  intro body
  induction body with
  | nil => intro _ _; rfl
  | cons x rest ih =>
    intro last h
    obtain ⟨_, _, _, h4, h5⟩ := contractB_cons h
    simp only [fluentWalkFromC, List.map_cons, fluentWalkFrom, ih _ h5,
      fluentEntryC_eq s l x (fun hk => entryOKB_junk h4 hk)]

/-! ### the entries form a chain: each starts where the previous one ended -/

/-- `es` covers `[off, stop)` without gap or overlap, in order -/
inductive Chain : Nat → List Entry → Nat → Prop
  | nil {off} : Chain off [] off
  | cons {off e es stop} : e.full = off → e.full ≤ e.e → Chain e.e es stop → Chain off (e :: es) stop

theorem Chain.append {a b c : Nat} {l1 l2 : List Entry} (h1 : Chain a l1 b) (h2 : Chain b l2 c) :
    Chain a (l1 ++ l2) c := by
  induction h1 with
  | nil => exact h2
  | cons hf hle _ ih => exact .cons hf hle (ih h2)

theorem Chain.single (e : Entry) (h : e.full ≤ e.e) : Chain e.full [e] e.e := .cons rfl h .nil

/-- a chain reproduces the text it covers -/
theorem Chain.all (s : Array Nat) {a b : Nat} {es : List Entry} (h : Chain a es b) (hb : b ≤ s.size) :
    a ≤ b ∧ (es.map (Entry.all s)).flatten = slice s a b := by
  induction h with
  | nil => exact ⟨Nat.le_refl _, by simp [slice_self]⟩
  | cons hf hle _ ih =>
    obtain ⟨h1, h2⟩ := ih hb
    refine ⟨by omega, ?_⟩
    simp only [List.map_cons, List.flatten_cons, h2, Entry.all]
    rw [hf] at hle ⊢
    exact slice_append s _ _ _ hle h1

theorem gap_chain (a b : Nat) (h : a ≤ b) :
    Chain a (if !false && decide (b > a) then [({ kind := .whitespace, full := a, s := a, e := b, ks := a, ke := b, vs := a, ve := b } : Entry)] else []) b := by
  by_cases hlt : b > a
  · simp only [Bool.not_false, Bool.true_and, hlt, decide_true, if_true]
    exact .cons rfl (by simp only; omega) .nil
  · have : a = b := by omega
    subst this
    simp only [Nat.lt_irrefl, gt_iff_lt, decide_false, Bool.and_false, Bool.false_eq_true, if_false]
    exact .nil

theorem junk_chain (bs be lead trail : Nat) (h : lead + trail ≤ be - bs) (hle : bs ≤ be) :
    Chain bs
      ((if !false && bs < bs + lead then [({ kind := .whitespace, full := bs, s := bs, e := bs + lead, ks := bs, ke := (bs + lead : Nat), vs := bs, ve := (bs + lead : Nat) } : Entry)] else [])
      ++ [({ kind := .junk, full := bs + lead, s := bs + lead, e := be - trail } : Entry)]
      ++ (if !false && be - trail < be then [({ kind := .whitespace, full := be - trail, s := be - trail, e := be, ks := (be - trail : Nat), ke := be, vs := (be - trail : Nat), ve := be } : Entry)] else []))
      be := by
  have c2 : Chain (bs + lead) [({ kind := .junk, full := bs + lead, s := bs + lead, e := be - trail } : Entry)] (be - trail) :=
    .cons rfl (by simp only; omega) .nil
  by_cases hl : lead = 0 <;> by_cases ht : trail = 0
  · subst hl; subst ht
    simpa using c2
  · subst hl
    have h2 : be - trail < be := by omega
    have c3 : Chain (be - trail) [({ kind := .whitespace, full := be - trail, s := be - trail, e := be, ks := (be - trail : Nat), ke := be, vs := (be - trail : Nat), ve := be } : Entry)] be :=
      .cons rfl (by simp only; omega) .nil
    simpa [h2] using c2.append c3
  · subst ht
    have h1 : 0 < lead := by omega
    have c1 : Chain bs [({ kind := .whitespace, full := bs, s := bs, e := bs + lead, ks := bs, ke := (bs + lead : Nat), vs := bs, ve := (bs + lead : Nat) } : Entry)] (bs + lead) :=
      .cons rfl (by simp only; omega) .nil
    simpa [h1] using c1.append c2
  · have h1 : 0 < lead := by omega
    have h2 : be - trail < be := by omega
    have c1 : Chain bs [({ kind := .whitespace, full := bs, s := bs, e := bs + lead, ks := bs, ke := (bs + lead : Nat), vs := bs, ve := (bs + lead : Nat) } : Entry)] (bs + lead) :=
      .cons rfl (by simp only; omega) .nil
    have c3 : Chain (be - trail) [({ kind := .whitespace, full := be - trail, s := be - trail, e := be, ks := (be - trail : Nat), ke := be, vs := (be - trail : Nat), ve := be } : Entry)] be :=
      .cons rfl (by simp only; omega) .nil
    simpa [h1, h2] using (c1.append c2).append c3

theorem fluentEntry_chain (s : Array Nat) (b : FEntry) (h1 : b.s ≤ b.e) (h2 : b.e ≤ s.size)
    (hk : b.kind = .other → b.s = b.e) :
    Chain b.s (fluentEntry s false b) b.e := by
  unfold fluentEntry
  split
  · exact .cons rfl h1 .nil
  · exact .cons rfl h1 .nil
  · simp only
    split
    · exact .cons rfl h1 .nil
    · rename_i hws
      have ht := junk_trim (slice s b.s b.e) hws
      rw [slice_length s _ _ h2] at ht
      exact junk_chain b.s b.e _ _ ht h1
  · exact .cons rfl h1 .nil
  · rename_i ho
    rw [hk ho]
    exact .nil

theorem fluentWalkFrom_chain (s : Array Nat) :
    ∀ body last, BodyOK s body last → last ≤ s.size → (∀ b ∈ body, b.kind = .other → b.s = b.e) →
      Chain last (fluentWalkFrom s false body last) s.size := by
  intro body
  induction body with
  | nil =>
    intro last _ hl _
    simp only [fluentWalkFrom]
    exact gap_chain last s.size hl
  | cons b rest ih =>
    intro last hb hl hk
    obtain ⟨h1, h2, h3, h4⟩ := hb
    have hrest := ih b.e h4 h3 (fun b' hb' => hk b' (List.mem_cons_of_mem _ hb'))
    have hent := fluentEntry_chain s b h2 h3 (hk b (List.mem_cons_self ..))
    simp only [fluentWalkFrom]
    exact Chain.append (Chain.append (gap_chain last b.s h1) hent) hrest

/-! ### every entity of the walk has its key and value inside -/

theorem fluentEntry_entIn (s : Array Nat) (l : Bool) (b : FEntry)
    (h : b.kind = .message ∨ b.kind = .term →
      ((b.s : Int) ≤ b.ks ∧ b.ks ≤ b.ke ∧ b.ke ≤ (b.e : Int)) ∧
      ((b.vs = -1 ∧ b.ve = -1) ∨ ((b.s : Int) ≤ b.vs ∧ b.vs ≤ b.ve ∧ b.ve ≤ (b.e : Int)))) :
    ∀ e ∈ fluentEntry s l b, EntIn e := by
  intro e he
  unfold fluentEntry at he
  split at he
  · rename_i hk
    simp only [List.mem_singleton] at he
    subst he
    intro _
    exact h (Or.inl hk)
  · rename_i hk
    simp only [List.mem_singleton] at he
    subst he
    intro _
    exact h (Or.inr hk)
  · simp only at he
    split at he
    · simp only [List.mem_singleton] at he
      subst he
      intro hk; cases hk
    · simp only [List.append_assoc, List.mem_append, List.mem_ite_nil_right,
        List.mem_cons, List.not_mem_nil, or_false] at he
      rcases he with ⟨_, rfl⟩ | rfl | ⟨_, rfl⟩ <;> (intro hk; cases hk)
  · split at he
    · cases he
    · simp only [List.mem_singleton] at he
      subst he
      intro hk; cases hk
  · cases he

theorem fluentWalkFrom_entIn (s : Array Nat) (l : Bool) : ∀ body last,
    (∀ b ∈ body, b.kind = .message ∨ b.kind = .term →
      ((b.s : Int) ≤ b.ks ∧ b.ks ≤ b.ke ∧ b.ke ≤ (b.e : Int)) ∧
      ((b.vs = -1 ∧ b.ve = -1) ∨ ((b.s : Int) ≤ b.vs ∧ b.vs ≤ b.ve ∧ b.ve ≤ (b.e : Int)))) →
    ∀ e ∈ fluentWalkFrom s l body last, EntIn e := by
  intro body
  induction body with
  | nil =>
    intro last _ e he
    simp only [fluentWalkFrom] at he
    split at he
    · simp only [List.mem_singleton] at he
      subst he
      intro hk; cases hk
    · cases he
  | cons b rest ih =>
    intro last h e he
    simp only [fluentWalkFrom, List.mem_append] at he
    rcases he with (he | he) | he
    · split at he
      · simp only [List.mem_singleton] at he
        subst he
        intro hk; cases hk
      · cases he
    · exact fluentEntry_entIn s l b (h b (List.mem_cons_self ..)) e he
    · exact ih b.e (fun b' hb' => h b' (List.mem_cons_of_mem _ hb')) e he

end C01P

/- C08/C07 CSS (extension C), part 2: an independent grammar of CSS size specs and its soundness
   w.r.t. `parse_css_spec` (model `Dtd.parseCssSpec`: the two generated regexes run by the engine model).

   `CssSpec ds v`: `v` = optional leading `ws* (; ws*)?`, the declarations `ds` written as
   `prop ws* : ws* number unit` and separated by `ws* ; ws*`, optional trailing `ws* (; ws*)?`.
   `css_grammar_accepts`: such a `v` is parsed without errors into exactly the map of its declarations.
   The property names and the units are READ OFF the generated `_css_spec` regex (`langOf`). -/
import CLModel.Checks.Dtd
import CLModel.Proofs.C08CRx
namespace C08C
open Rx

/-! ### the generated regexes, named piece by piece -/

def wsCls : List ClsItem := [.ch 32, .ch 9, .ch 13, .ch 10]
def digCls : List ClsItem := [.range 48 57]
def wsStar : Re := .rep 0 none true (.cls false wsCls)
/-- `[0-9]+|[0-9]*\.[0-9]+` -/
def numRe : Re :=
  .alt (.rep 1 none true (.cls false digCls))
    (.seq (.rep 0 none true (.cls false digCls)) (.seq (.lit 46) (.rep 1 none true (.cls false digCls))))

/-- the body of `(?P<prop>…)`, taken from the generated regex -/
def propRe : Re :=
  match Gen.Pat.CSSCheckMixin__css_spec with
  | .alt (.seq (.group _ p) _) _ => p
  | _ => .eps

/-- the body of `(?P<unit>…)`, taken from the generated regex -/
def unitRe : Re :=
  match Gen.Pat.CSSCheckMixin__css_spec with
  | .alt (.seq _ (.seq _ (.seq _ (.seq _ (.seq _ (.group _ u)))))) _ => u
  | _ => .eps

/-- `(?:(?P<prop>P)[ws]*:[ws]*(?P<length>N)(?P<unit>U))|\Z` — if the source regex changes its structure this `rfl` breaks;
    if only the alternatives of P or U change, everything below follows -/
theorem spec_shape : Gen.Pat.CSSCheckMixin__css_spec =
    .alt (.seq (.group 1 propRe) (.seq wsStar (.seq (.lit 58) (.seq wsStar (.seq (.group 2 numRe) (.group 3 unitRe)))))) .eos := rfl

/-- `[ws]*(?P<semi>;)?[ws]*$` -/
theorem sep_shape : Gen.Pat.CSSCheckMixin__css_sep =
    .seq wsStar (.seq (.alt (.group 1 (.lit 59)) .eps) (.seq wsStar (.eol false))) := rfl

/-- the property names the regex accepts (in its priority order) -/
def cssProps : List Text := match langOf propRe with | some l => l | none => []
/-- the units the regex accepts (in its priority order) -/
def cssUnits : List Text := match langOf unitRe with | some l => l | none => []

theorem lang_prop : langOf propRe = some cssProps := by decide
theorem lang_unit : langOf unitRe = some cssUnits := by decide
theorem props_pf : prefixFree cssProps = true := by decide
theorem units_pf : prefixFree cssUnits = true := by decide

def isWs (c : Nat) : Bool := c == 32 || c == 9 || c == 13 || c == 10
def isDig (c : Nat) : Bool := 48 ≤ c && c ≤ 57

theorem inC_ws : inC false wsCls = isWs := by
  funext c; simp [inC, wsCls, ClsItem.has, isWs, Bool.or_assoc]

theorem inC_dig : inC false digCls = isDig := by
  funext c; simp [inC, digCls, ClsItem.has, isDig]

/-- every property name starts with a character that is neither white space nor `;` -/
theorem props_head : cssProps.all (fun t => match t with | h :: _ => !isWs h && h != 59 | [] => false) = true := by decide
/-- every unit starts with a character that is neither a digit nor `.` -/
theorem units_head : cssUnits.all (fun t => match t with | h :: _ => !isDig h && h != 46 | [] => false) = true := by decide

/-! ### the grammar -/

/-- `[0-9]+` or `[0-9]*.[0-9]+` -/
inductive IsNumber : Text → Prop
  | int (ds : Text) : ds ≠ [] → ds.all isDig = true → IsNumber ds
  | frac (ds fs : Text) : ds.all isDig = true → fs ≠ [] → fs.all isDig = true → IsNumber (ds ++ 46 :: fs)

/-- one declaration `prop ws* : ws* number unit` -/
structure Decl where
  prop : Text
  ws1 : Text
  ws2 : Text
  num : Text
  unit : Text
  deriving Repr, DecidableEq

def Decl.text (d : Decl) : Text := d.prop ++ (d.ws1 ++ 58 :: (d.ws2 ++ (d.num ++ d.unit)))

structure Decl.Ok (d : Decl) : Prop where
  prop : d.prop ∈ cssProps
  ws1 : d.ws1.all isWs = true
  ws2 : d.ws2.all isWs = true
  num : IsNumber d.num
  unit : d.unit ∈ cssUnits

/-- between two declarations: `ws* ; ws*` -/
def IsSep (t : Text) : Prop := ∃ a b, t = a ++ 59 :: b ∧ a.all isWs = true ∧ b.all isWs = true

/-- before the first and after the last declaration: `ws*` or `ws* ; ws*` -/
def IsEdge (t : Text) : Prop := t.all isWs = true ∨ IsSep t

/-- `d₁ sep d₂ sep … dₙ`, n ≥ 1 -/
inductive DeclsText : List Decl → Text → Prop
  | one (d : Decl) : d.Ok → DeclsText [d] d.text
  | cons (d : Decl) (sep : Text) (ds : List Decl) (t : Text) : d.Ok → IsSep sep → DeclsText ds t →
      DeclsText (d :: ds) (d.text ++ (sep ++ t))

/-- a CSS size spec with its declarations -/
inductive CssSpec : List Decl → Text → Prop
  | mk (lead t trail : Text) (ds : List Decl) : IsEdge lead → DeclsText ds t → IsEdge trail →
      CssSpec ds (lead ++ (t ++ trail))

/-- Python dict built by `ref_map[prop] = unit` in the order of the declarations -/
def declMap (ds : List Decl) : List (Text × Text) := ds.foldl (fun mp d => Dtd.dset mp d.prop d.unit) []

/-! ### small facts -/

theorem isNumber_ne_nil {n : Text} (h : IsNumber n) : n ≠ [] := by
  cases h with
  | int ds h1 _ => exact h1
  | frac ds fs _ _ _ => simp

theorem isNumber_cases {n : Text} (h : IsNumber n) :
    (n ≠ [] ∧ n.all isDig = true) ∨
    ∃ ds fs, n = ds ++ 46 :: fs ∧ ds.all isDig = true ∧ fs ≠ [] ∧ fs.all isDig = true := by
  cases h with
  | int _ h1 h2 => exact Or.inl ⟨h1, h2⟩
  | frac ds fs h1 h2 h3 => exact Or.inr ⟨ds, fs, rfl, h1, h2, h3⟩

theorem isNumber_head {n : Text} (h : IsNumber n) (rest : Text) :
    ∀ c, (n ++ rest).head? = some c → isWs c = false := by
  intro c hc
  have key : isDig c = true ∨ c = 46 := by
    rcases isNumber_cases h with ⟨h1, h2⟩ | ⟨ds, fs, rfl, h1, _, _⟩
    · cases n with
      | nil => exact absurd rfl h1
      | cons x xs =>
        simp only [List.cons_append, List.head?_cons, Option.some.injEq] at hc
        subst hc
        simp only [List.all_cons, Bool.and_eq_true] at h2
        exact Or.inl h2.1
    · cases ds with
      | nil =>
        simp only [List.nil_append, List.cons_append, List.head?_cons, Option.some.injEq] at hc
        exact Or.inr hc.symm
      | cons x xs =>
        simp only [List.cons_append, List.head?_cons, Option.some.injEq] at hc
        subst hc
        simp only [List.all_cons, Bool.and_eq_true] at h1
        exact Or.inl h1.1
  rcases key with h | rfl
  · simp only [isDig, Bool.and_eq_true, decide_eq_true_eq] at h
    simp [isWs]; omega
  · decide

theorem mem_props_cons {t : Text} (h : t ∈ cssProps) : ∃ hd tl, t = hd :: tl ∧ isWs hd = false ∧ hd ≠ 59 := by
  have := List.all_eq_true.mp props_head t h
  cases t with
  | nil => simp at this
  | cons hd tl =>
    simp only [Bool.and_eq_true, Bool.not_eq_true', bne_iff_ne, ne_eq] at this
    exact ⟨hd, tl, rfl, this.1, this.2⟩

theorem mem_units_cons {t : Text} (h : t ∈ cssUnits) : ∃ hd tl, t = hd :: tl ∧ isDig hd = false ∧ hd ≠ 46 := by
  have := List.all_eq_true.mp units_head t h
  cases t with
  | nil => simp at this
  | cons hd tl =>
    simp only [Bool.and_eq_true, Bool.not_eq_true', bne_iff_ne, ne_eq] at this
    exact ⟨hd, tl, rfl, this.1, this.2⟩

theorem le_size_of_drop {s : Array Nat} {p : Nat} {c : Nat} {t : List Nat} (h : s.toList.drop p = c :: t) : p < s.size := by
  have := get_of_drop_cons h
  exact getElem?_some_lt this

theorem head_of_drop {s : Array Nat} {p : Nat} {l : List Nat} (h : s.toList.drop p = l) : s[p]? = l.head? := by
  rw [← h]; simp [List.head?_drop]

/-! ### the pieces of `_css_spec`, exactly -/

theorem lit_exact (s : Array Nat) (p c : Nat) (caps) (k : K) (h : s[p]? = some c) :
    m s (.lit c) ⟨p, caps⟩ k = k ⟨p + 1, caps⟩ := by
  simp [m, h]

theorem prop_exact (s : Array Nat) (p : Nat) (caps) (k : K) (t rest : Text) (ht : t ∈ cssProps)
    (h : s.toList.drop p = t ++ rest) : m s propRe ⟨p, caps⟩ k = k ⟨p + t.length, caps⟩ :=
  m_lang_det s propRe cssProps lang_prop props_pf t ht ⟨p, caps⟩ (textAt_of_drop s t rest p h) k

theorem unit_exact (s : Array Nat) (p : Nat) (caps) (k : K) (t rest : Text) (ht : t ∈ cssUnits)
    (h : s.toList.drop p = t ++ rest) : m s unitRe ⟨p, caps⟩ k = k ⟨p + t.length, caps⟩ :=
  m_lang_det s unitRe cssUnits lang_unit units_pf t ht ⟨p, caps⟩ (textAt_of_drop s t rest p h) k

/-- no property name starts at white space, at `;` or at the end of the text -/
theorem prop_fail (s : Array Nat) (j : Nat) (caps) (k : K)
    (h : s[j]? = none ∨ ∃ c, s[j]? = some c ∧ (isWs c = true ∨ c = 59)) : m s propRe ⟨j, caps⟩ k = none := by
  apply m_lang_none s propRe cssProps lang_prop
  intro t ht
  obtain ⟨hd, tl, rfl, h1, h2⟩ := mem_props_cons ht
  rcases h with h | ⟨c, hc, hws⟩
  · exact textAt_none s j hd tl h
  · apply textAt_head_ne s j hd c tl hc
    rintro rfl
    rcases hws with hws | hws
    · rw [h1] at hws; cases hws
    · exact h2 hws

/-- no unit starts at a digit or at `.` -/
theorem unit_fail (s : Array Nat) (j c : Nat) (caps) (k : K) (hc : s[j]? = some c) (h : isDig c = true ∨ c = 46) :
    m s unitRe ⟨j, caps⟩ k = none := by
  apply m_lang_none s unitRe cssUnits lang_unit
  intro t ht
  obtain ⟨hd, tl, rfl, h1, h2⟩ := mem_units_cons ht
  apply textAt_head_ne s j hd c tl hc
  rintro rfl
  rcases h with h | h
  · rw [h1] at h; cases h
  · exact h2 h

theorem ws_exact (s : Array Nat) (p : Nat) (caps) (k : K) (ws rest : Text) (hp : p ≤ s.size)
    (h : s.toList.drop p = ws ++ rest) (hws : ws.all isWs = true) (hrest : ∀ c, rest.head? = some c → isWs c = false)
    (hk : ∀ j c, s[j]? = some c → isWs c = true → k ⟨j, caps⟩ = none) :
    m s wsStar ⟨p, caps⟩ k = k ⟨p + ws.length, caps⟩ := by
  simp only [wsStar, m_rep]
  rw [star_cls_then s false wsCls caps k p hp (by rw [inC_ws]; exact hk), inC_ws, h,
    takeWhile_length_app isWs ws rest hws hrest]

/-- the number group does not start at a character that is neither a digit nor `.` -/
theorem num_fail (s : Array Nat) (j c : Nat) (caps) (k : K) (hc : s[j]? = some c) (h1 : isDig c = false) (h2 : c ≠ 46) :
    m s (.group 2 numRe) ⟨j, caps⟩ k = none := by
  have hlt := getElem?_some_lt hc
  have hbody : ∀ k', m s (.cls false digCls) ⟨j, caps⟩ k' = none := by
    intro k'
    rw [m_cls_apply]
    simp [hc, inC_dig, h1]
  simp only [m_group, numRe, m_alt, m_seq, m_rep]
  rw [loop_fail_min _ _ _ 1 _ _ _ hbody (by omega)]
  have e : s.size + 2 - j = (s.size + 1 - j) + 1 := by omega
  rw [e, loop_fail_zero _ _ _ _ _ _ hbody]
  simp [m, hc, h2]

/-- the number group, exactly: it takes the whole number if what follows is neither a digit nor `.`
    and the continuation cannot start at a digit or `.` -/
theorem num_exact (s : Array Nat) (p : Nat) (caps) (k : K) (num rest : Text) (hn : IsNumber num)
    (h : s.toList.drop p = num ++ rest) (hrest : ∀ c, rest.head? = some c → isDig c = false ∧ c ≠ 46)
    (hk : ∀ j c caps', s[j]? = some c → (isDig c = true ∨ c = 46) → k ⟨j, caps'⟩ = none) :
    m s (.group 2 numRe) ⟨p, caps⟩ k = k ⟨p + num.length, (2, p, p + num.length) :: caps⟩ := by
  have hp : p ≤ s.size := by
    cases hnum : num with
    | nil => exact absurd hnum (isNumber_ne_nil hn)
    | cons x xs => rw [hnum] at h; exact Nat.le_of_lt (le_size_of_drop h)
  simp only [m_group, numRe, m_alt, m_seq, m_rep]
  -- the continuation of the group fails on digits and dots
  have hK : ∀ j c, s[j]? = some c → inC false digCls c = true →
      (fun st' : St => k { st' with caps := (2, p, st'.pos) :: st'.caps }) ⟨j, caps⟩ = none := by
    intro j c hc hin
    rw [inC_dig] at hin
    exact hk j c _ hc (Or.inl hin)
  have hdot : ∀ (K' : K) j c, s[j]? = some c → inC false digCls c = true →
      (fun st' : St => m s (.lit 46) st' K') ⟨j, caps⟩ = none := by
    intro K' j c hc hin
    rw [inC_dig] at hin
    have : c ≠ 46 := by rintro rfl; revert hin; decide
    simp [m, hc, this]
  rw [plus_cls_then s false digCls caps _ p hK]
  rw [star_cls_then s false digCls caps _ p hp (hdot _)]
  simp only [inC_dig, h]
  rcases isNumber_cases hn with ⟨hne, hds⟩ | ⟨ds, fs, rfl, hds, hne, hfs⟩
  · have hr : ∀ c, rest.head? = some c → isDig c = false := fun c hc => (hrest c hc).1
    rw [takeWhile_length_app isDig num rest hds hr]
    have hlen : num.length ≠ 0 := by
      cases num with
      | nil => exact absurd rfl hne
      | cons _ _ => simp
    rw [if_neg hlen]
    cases hkv : k ⟨p + num.length, (2, p, p + num.length) :: caps⟩ with
    | some r => rfl
    | none =>
      simp only [Option.orElse_none]
      have hd := drop_append_of_drop h
      have hh := head_of_drop hd
      simp only [m_lit]
      split
      · rename_i h46
        have h46' : s[p + num.length]? = some 46 := by simpa using h46
        rw [hh] at h46'
        exact absurd rfl (hrest 46 h46').2
      · rfl
  · have hr1 : ∀ c, (46 :: fs ++ rest).head? = some c → isDig c = false := by
      intro c hc
      simp only [List.cons_append, List.head?_cons, Option.some.injEq] at hc
      subst hc; decide
    have e1 : ds ++ 46 :: fs ++ rest = ds ++ (46 :: fs ++ rest) := by simp
    rw [e1, takeWhile_length_app isDig ds _ hds hr1]
    have hd1 : s.toList.drop (p + ds.length) = 46 :: (fs ++ rest) := by
      have := drop_append_of_drop (a := ds) (b := 46 :: fs ++ rest) (by rw [h]; simp)
      simpa using this
    have h46 : s[p + ds.length]? = some 46 := get_of_drop_cons hd1
    have hd2 : s.toList.drop (p + ds.length + 1) = fs ++ rest := drop_succ_of_cons hd1
    have hfirst : (if ds.length = 0 then none
        else k ⟨p + ds.length, (2, p, p + ds.length) :: caps⟩) = none := by
      split
      · rfl
      · exact hk _ 46 _ h46 (Or.inr rfl)
    rw [hfirst]
    simp only [Option.orElse_none, m_lit, h46, beq_self_eq_true, if_true]
    rw [plus_cls_then s false digCls caps _ (p + ds.length + 1) hK]
    simp only [inC_dig, hd2]
    have hr : ∀ c, rest.head? = some c → isDig c = false := fun c hc => (hrest c hc).1
    rw [takeWhile_length_app isDig fs rest hfs hr]
    have hlen : fs.length ≠ 0 := by
      cases fs with
      | nil => exact absurd rfl hne
      | cons _ _ => simp
    rw [if_neg hlen]
    simp only [List.length_append, List.length_cons]
    have e : p + ds.length + 1 + fs.length = p + (ds.length + (fs.length + 1)) := by omega
    rw [e]

/-! ### one declaration -/

/-- the state of a match of `_css_spec` on the declaration `d` standing at `q` -/
def declSt (q : Nat) (d : Decl) : St :=
  ⟨q + d.text.length,
   [(3, q + (d.prop.length + d.ws1.length + 1 + d.ws2.length + d.num.length), q + d.text.length),
    (2, q + (d.prop.length + d.ws1.length + 1 + d.ws2.length),
        q + (d.prop.length + d.ws1.length + 1 + d.ws2.length + d.num.length)),
    (1, q, q + d.prop.length)]⟩

theorem decl_text_length (d : Decl) :
    d.text.length = d.prop.length + d.ws1.length + 1 + d.ws2.length + d.num.length + d.unit.length := by
  simp [Decl.text]; omega

theorem decl_match (s : Array Nat) (q : Nat) (d : Decl) (hd : d.Ok) (rest : Text)
    (h : s.toList.drop q = d.text ++ rest) : matchAt s Gen.Pat.CSSCheckMixin__css_spec q = some (declSt q d) := by
  obtain ⟨ph, ptl, hpe, _, _⟩ := mem_props_cons hd.prop
  obtain ⟨uh, utl, hue, hu1, hu2⟩ := mem_units_cons hd.unit
  have h1 : s.toList.drop q = d.prop ++ (d.ws1 ++ 58 :: (d.ws2 ++ (d.num ++ (d.unit ++ rest)))) := by
    rw [h]; simp [Decl.text]
  have h2 := drop_append_of_drop h1
  have h3 : s.toList.drop (q + d.prop.length + d.ws1.length) = 58 :: (d.ws2 ++ (d.num ++ (d.unit ++ rest))) :=
    drop_append_of_drop h2
  have h58 := get_of_drop_cons h3
  have h4 := drop_succ_of_cons h3
  have h5 := drop_append_of_drop h4
  have h6 := drop_append_of_drop h5
  have hq : q ≤ s.size := by
    rw [hpe] at h1; exact Nat.le_of_lt (le_size_of_drop h1)
  have hp2 : q + d.prop.length ≤ s.size := by
    have : q + d.prop.length + d.ws1.length < s.size := le_size_of_drop h3
    omega
  have hp4 : q + d.prop.length + d.ws1.length + 1 ≤ s.size := by
    have : q + d.prop.length + d.ws1.length < s.size := le_size_of_drop h3
    omega
  rw [spec_shape]
  simp only [matchAt, m_alt]
  rw [m_seq, m_group, prop_exact s q [] _ d.prop _ hd.prop h1]
  try dsimp only
  rw [m_seq, ws_exact s (q + d.prop.length) _ _ d.ws1 _ hp2 h2 hd.ws1 (by
      intro c hc; simp only [List.head?_cons, Option.some.injEq] at hc; subst hc; decide) (by
      intro j c hc hws
      have : c ≠ 58 := by rintro rfl; revert hws; decide
      simp only [m_seq, m_lit, hc]
      simp [this])]
  try dsimp only
  rw [m_seq, lit_exact s _ 58 _ _ h58]
  try dsimp only
  rw [m_seq, ws_exact s (q + d.prop.length + d.ws1.length + 1) _ _ d.ws2 _ hp4 h4 hd.ws2 (isNumber_head hd.num _) (by
      intro j c hc hws
      have hdg : isDig c = false := by
        simp only [isWs, Bool.or_eq_true, beq_iff_eq] at hws
        simp [isDig]; omega
      have h46 : c ≠ 46 := by rintro rfl; revert hws; decide
      simp only [m_seq]
      exact num_fail s j c _ _ hc hdg h46)]
  try dsimp only
  rw [m_seq, num_exact s _ _ _ d.num _ hd.num h5 (by
      intro c hc
      rw [hue] at hc
      simp only [List.cons_append, List.head?_cons, Option.some.injEq] at hc
      subst hc; exact ⟨hu1, hu2⟩) (by
      intro j c caps' hc hdc
      simp only [m_group]
      exact unit_fail s j c _ _ hc hdc)]
  try dsimp only
  rw [m_group, unit_exact s _ _ _ d.unit rest hd.unit h6]
  simp only [Option.orElse_some, declSt, decl_text_length, Option.some.injEq, St.mk.injEq, List.cons.injEq,
    Prod.mk.injEq, and_true, true_and]
  omega

theorem decl_text_pos {d : Decl} (hd : d.Ok) : 0 < d.text.length := by
  obtain ⟨_, _, hpe, _, _⟩ := mem_props_cons hd.prop
  rw [decl_text_length, hpe]; simp; omega

/-! ### positions where `_css_spec` does not match, and the final empty match -/

theorem spec_none (s : Array Nat) (j c : Nat) (hc : s[j]? = some c) (h : isWs c = true ∨ c = 59) :
    matchAt s Gen.Pat.CSSCheckMixin__css_spec j = none := by
  have hlt := getElem?_some_lt hc
  rw [spec_shape]
  simp only [matchAt, m_alt]
  rw [m_seq, m_group, prop_fail s j [] _ (Or.inr ⟨c, hc, h⟩)]
  simp only [Option.orElse_none, m]
  rw [if_neg]
  simp; omega

theorem spec_end (s : Array Nat) : matchAt s Gen.Pat.CSSCheckMixin__css_spec s.size = some ⟨s.size, []⟩ := by
  rw [spec_shape]
  simp only [matchAt, m_alt]
  rw [m_seq, m_group, prop_fail s s.size [] _ (Or.inl (by simp))]
  simp [m]

theorem spec_end_ne (s : Array Nat) : matchAtNE s Gen.Pat.CSSCheckMixin__css_spec s.size = none := by
  rw [spec_shape]
  simp only [matchAtNE, m_alt]
  rw [m_seq, m_group, prop_fail s s.size [] _ (Or.inl (by simp))]
  simp [m]

/-! ### `_css_sep` on a separator -/

theorem orElse_of_some {α} {a : Option α} {f : Unit → Option α} {r : α} (h : a = some r) : a.orElse f = some r := by
  subst h; rfl

theorem m_eol' (s : Array Nat) (st : St) (k : K) :
    m s (.eol false) st k =
      if st.pos == s.size || (st.pos + 1 == s.size && s[st.pos]? == some 10) then k st else none := by
  simp [m]

theorem sep_semi (s' : Array Nat) (e : Nat) (a b : Text) (h : s'.toList.drop e = a ++ 59 :: b)
    (ha : a.all isWs = true) (hb : b.all isWs = true) :
    ∃ sp, matchAt s' Gen.Pat.CSSCheckMixin__css_sep e = some sp ∧ (sp.group Gen.Pat.CSSCheckMixin__css_sep_g_semi).isSome = true := by
  have h1 := drop_append_of_drop h
  have h59 := get_of_drop_cons h1
  have h2 := drop_succ_of_cons h1
  have hlt : e + a.length < s'.size := le_size_of_drop h1
  have hsz : e + a.length + 1 + b.length = s'.size := by
    have : (s'.toList.drop (e + a.length + 1)).length = s'.size - (e + a.length + 1) := by simp
    rw [h2] at this; omega
  have htw : (b.takeWhile isWs).length = b.length := by
    have := takeWhile_length_app isWs b [] hb (by simp)
    simpa using this
  refine ⟨⟨e + a.length + 1 + b.length, [(1, e + a.length, e + a.length + 1)]⟩, ?_, by
    simp [St.group, capOf, Gen.Pat.CSSCheckMixin__css_sep_g_semi]⟩
  rw [sep_shape]
  simp only [matchAt]
  rw [m_seq]
  simp only [wsStar, m_rep]
  apply star_cls_hit s' false wsCls [] _ e (by omega)
  rw [inC_ws, h, takeWhile_length_app isWs a _ ha (by
    intro c hc; simp only [List.head?_cons, Option.some.injEq] at hc; subst hc; decide)]
  try dsimp only
  rw [m_seq, m_alt]
  apply orElse_of_some
  rw [m_group, m_lit]
  simp only [h59, beq_self_eq_true, if_true]
  rw [m_seq, m_rep]
  apply star_cls_hit s' false wsCls _ _ (e + a.length + 1) (by omega)
  rw [inC_ws, h2, htw, m_eol']
  simp [hsz]

theorem sep_ws_exact (s' : Array Nat) (e : Nat) (a : Text) (he : e ≤ s'.size) (h : s'.toList.drop e = a)
    (ha : a.all isWs = true) : matchAt s' Gen.Pat.CSSCheckMixin__css_sep e = some ⟨e + a.length, []⟩ := by
  have hsz : e + a.length = s'.size := by
    have : (s'.toList.drop e).length = s'.size - e := by simp
    rw [h] at this; omega
  have hnone : s'[e + a.length]? = none := by rw [hsz]; simp
  have htw : (a.takeWhile isWs).length = a.length := by
    have := takeWhile_length_app isWs a [] ha (by simp)
    simpa using this
  rw [sep_shape]
  simp only [matchAt]
  rw [m_seq]
  simp only [wsStar, m_rep]
  apply star_cls_hit s' false wsCls [] _ e he
  rw [inC_ws, h, htw]
  try dsimp only
  rw [m_seq, m_alt, m_group, m_lit]
  simp only [hnone, show ((none : Option Nat) == some 59) = false from rfl, Bool.false_eq_true, if_false,
    Option.orElse_none]
  rw [m_eps]
  try dsimp only
  rw [m_seq, m_rep]
  have hbody : ∀ k', m s' (.cls false wsCls) ⟨e + a.length, []⟩ k' = none := by
    intro k'; rw [m_cls_apply]; simp [hnone]
  have e2 : s'.size + 2 - (e + a.length) = 1 + 1 := by omega
  try dsimp only
  rw [e2, loop_fail_zero _ _ _ _ _ _ hbody, m_eol']
  simp [hsz]

theorem sep_ws (s' : Array Nat) (e : Nat) (a : Text) (he : e ≤ s'.size) (h : s'.toList.drop e = a)
    (ha : a.all isWs = true) : ∃ sp, matchAt s' Gen.Pat.CSSCheckMixin__css_sep e = some sp :=
  ⟨_, sep_ws_exact s' e a he h ha⟩

/-! ### the loop of `parse_css_spec` -/

theorem slice_drop (s : Array Nat) (a n : Nat) : Dtd.slice s a (a + n) = (s.toList.drop a).take n := by
  simp [Dtd.slice, List.extract_eq_take_drop]

theorem extract_drop (s : Array Nat) (q e : Nat) (g rest : Text) (h : s.toList.drop e = g ++ rest)
    (hq : q = e + g.length) : (s.extract 0 q).toList.drop e = g := by
  have : (s.extract 0 q).toList = s.toList.take q := by simp [List.extract_eq_take_drop]
  rw [this, List.drop_take, h, hq]
  simp

def mapOr (m : Option (List (Text × Text))) : List (Text × Text) := match m with | some mp => mp | none => []

/-- what stands between the end of the previous declaration (`e`) and position `q` is acceptable -/
def GapOk (s : Array Nat) (e q : Nat) : Prop :=
  (q = e ∧ e = 0) ∨
  ∃ sp, matchAt (s.extract 0 q) Gen.Pat.CSSCheckMixin__css_sep e = some sp ∧ e < q ∧
    (e = 0 ∨ (sp.group Gen.Pat.CSSCheckMixin__css_sep_g_semi).isSome = true)

/-- the loop body on a declaration: the property is recorded, no error is added -/
theorem cssStep_decl (s : Array Nat) (stt : Dtd.CssState) (q : Nat) (d : Decl) (rest : Text)
    (h : s.toList.drop q = d.text ++ rest) (hd : d.Ok) (hgap : GapOk s stt.end_ q) :
    Dtd.cssStep s stt (q, declSt q d) =
      some ⟨some (Dtd.dset (mapOr stt.refMap) d.prop d.unit), stt.errors, q + d.text.length⟩ := by
  obtain ⟨ph, ptl, hpe, _, _⟩ := mem_props_cons hd.prop
  have hplen : 0 < d.prop.length := by rw [hpe]; simp
  have hg1 : (declSt q d).group Gen.Pat.CSSCheckMixin__css_spec_g_prop = some (q, q + d.prop.length) := by
    simp [declSt, St.group, capOf, Gen.Pat.CSSCheckMixin__css_spec_g_prop]
  have hg3 : (declSt q d).group Gen.Pat.CSSCheckMixin__css_spec_g_unit
      = some (q + (d.prop.length + d.ws1.length + 1 + d.ws2.length + d.num.length), q + d.text.length) := by
    simp [declSt, St.group, capOf, Gen.Pat.CSSCheckMixin__css_spec_g_unit]
  have hsl1 : Dtd.slice s q (q + d.prop.length) = d.prop := by
    rw [slice_drop, h]; simp [Decl.text]
  have hsl3 : Dtd.slice s (q + (d.prop.length + d.ws1.length + 1 + d.ws2.length + d.num.length)) (q + d.text.length) = d.unit := by
    have e : q + d.text.length = q + (d.prop.length + d.ws1.length + 1 + d.ws2.length + d.num.length) + d.unit.length := by
      rw [decl_text_length]; omega
    have h1 : s.toList.drop q = (d.prop ++ (d.ws1 ++ 58 :: (d.ws2 ++ d.num))) ++ (d.unit ++ rest) := by
      rw [h]; simp [Decl.text]
    have h2 := drop_append_of_drop h1
    have e2 : q + (d.prop ++ (d.ws1 ++ 58 :: (d.ws2 ++ d.num))).length
        = q + (d.prop.length + d.ws1.length + 1 + d.ws2.length + d.num.length) := by simp; omega
    rw [e2] at h2
    rw [e, slice_drop, h2]; simp
  have hpos : (declSt q d).pos = q + d.text.length := rfl
  have hlen : 0 < d.text.length := by rw [decl_text_length]; omega
  have hlt : q < q + d.prop.length := by omega
  unfold Dtd.cssStep
  simp only [hg1, hg3, hpos, hsl1, hsl3]
  have hne : (stt.end_ == 0 && q == q + d.text.length) = false := by
    have : (q == q + d.text.length) = false := by rw [beq_eq_false_iff_ne]; omega
    simp [this]
  simp only [hne, Bool.false_eq_true, if_false, hlt, if_true, decide_true, Bool.and_true, mapOr]
  rcases hgap with ⟨h1, h2⟩ | ⟨sp, hsp, hlt', hsemi⟩
  · have hc : (decide (q > stt.end_) || decide (stt.end_ > 0)) = false := by simp; omega
    simp only [hc, Bool.false_eq_true, if_false]
    cases stt.refMap <;> rfl
  · have hc : (decide (q > stt.end_) || decide (stt.end_ > 0)) = true := by simp; omega
    have hc2 : (decide (stt.end_ > 0) && (sp.group Gen.Pat.CSSCheckMixin__css_sep_g_semi).isNone) = false := by
      rcases hsemi with h0 | hs
      · simp; omega
      · cases hg : sp.group Gen.Pat.CSSCheckMixin__css_sep_g_semi with
        | none => rw [hg] at hs; cases hs
        | some x => simp
    simp only [hc, if_true, hsp, hc2, Bool.false_eq_true, if_false]
    cases stt.refMap <;> rfl

/-- the loop body on the final empty match -/
theorem cssStep_final (s : Array Nat) (stt : Dtd.CssState) (he : 0 < stt.end_)
    (hgap : stt.end_ = s.size ∨
      (stt.end_ < s.size ∧ ∃ sp, matchAt (s.extract 0 s.size) Gen.Pat.CSSCheckMixin__css_sep stt.end_ = some sp)) :
    Dtd.cssStep s stt (s.size, ⟨s.size, []⟩) = some ⟨stt.refMap, stt.errors, s.size⟩ := by
  unfold Dtd.cssStep
  have hne : (stt.end_ == 0) = false := by simp; omega
  simp only [hne, Bool.false_and, Bool.false_eq_true, if_false, St.group, capOf, List.find?_nil, Bool.and_false,
    Bool.or_false]
  rcases hgap with h | ⟨h, sp, hsp⟩
  · rw [if_neg (by simp; omega)]
  · rw [if_pos (by simp; omega), hsp]

/-- fold of the declarations into the dict -/
def foldDecls (mp : List (Text × Text)) (ds : List Decl) : List (Text × Text) :=
  ds.foldl (fun mp d => Dtd.dset mp d.prop d.unit) mp

theorem isEdge_no_match (s : Array Nat) (e : Nat) (g rest : Text) (h : s.toList.drop e = g ++ rest) (hg : IsEdge g) :
    ∀ q', e ≤ q' → q' < e + g.length → matchAt s Gen.Pat.CSSCheckMixin__css_spec q' = none := by
  intro q' h1 h2
  have hget : s[q']? = g[q' - e]? := by
    have : (s.toList.drop e)[q' - e]? = (g ++ rest)[q' - e]? := by rw [h]
    rw [List.getElem?_drop, List.getElem?_append_left (by omega)] at this
    have e' : e + (q' - e) = q' := by omega
    rw [e'] at this
    simpa using this
  have hc : g[q' - e]? = some (g[q' - e]'(by omega)) := List.getElem?_eq_getElem (by omega)
  have hmem : g[q' - e]'(by omega) ∈ g := List.getElem_mem _
  apply spec_none s q' _ (hget.trans hc)
  rcases hg with hg | ⟨a, b, rfl, ha, hb⟩
  · exact Or.inl (List.all_eq_true.mp hg _ hmem)
  · simp only [List.mem_append, List.mem_cons] at hmem
    rcases hmem with hm | hm | hm
    · exact Or.inl (List.all_eq_true.mp ha _ hm)
    · exact Or.inr hm
    · exact Or.inl (List.all_eq_true.mp hb _ hm)

theorem gap_of_sep (s : Array Nat) (e : Nat) (g rest : Text) (h : s.toList.drop e = g ++ rest) (hg : IsSep g) :
    GapOk s e (e + g.length) := by
  obtain ⟨a, b, rfl, ha, hb⟩ := hg
  right
  obtain ⟨sp, h1, h2⟩ := sep_semi (s.extract 0 (e + (a ++ 59 :: b).length)) e a b (extract_drop s _ e _ rest h rfl) ha hb
  exact ⟨sp, h1, by simp; omega, Or.inr h2⟩

theorem gap_of_edge0 (s : Array Nat) (g rest : Text) (h : s.toList.drop 0 = g ++ rest) (hg : IsEdge g) :
    GapOk s 0 (0 + g.length) := by
  by_cases hnil : g = []
  · subst hnil; left; simp
  · right
    have hpos : 0 < g.length := List.length_pos_iff.mpr hnil
    rcases hg with hg | hg
    · obtain ⟨sp, h1⟩ := sep_ws (s.extract 0 (0 + g.length)) 0 g (by omega) (extract_drop s _ 0 _ rest h rfl) hg
      exact ⟨sp, h1, by omega, Or.inl rfl⟩
    · obtain ⟨sp, h1, hlt, _⟩ := (gap_of_sep s 0 g rest h hg).resolve_left (by omega)
      exact ⟨sp, h1, hlt, Or.inl rfl⟩

/-- the tail of the loop: after the last declaration only the trailing edge and the end remain -/
theorem loop_tail (s : Array Nat) (fuel e : Nat) (stt : Dtd.CssState) (trail : Text) (he : stt.end_ = e) (hpos : 0 < e)
    (h : s.toList.drop e = trail) (hle : e ≤ s.size) (ht : IsEdge trail) :
    Dtd.cssLoop s (finditerAux s Gen.Pat.CSSCheckMixin__css_spec (fuel + 1) e false) stt
      = some ⟨stt.refMap, stt.errors, s.size⟩ := by
  have hsz : e + trail.length = s.size := by
    have : (s.toList.drop e).length = s.size - e := by simp
    rw [h] at this; omega
  rw [finditerAux_skip s _ fuel e s.size ⟨s.size, []⟩ hle (Nat.le_refl _)
    (by
      intro q' h1 h2
      exact isEdge_no_match s e trail [] (by simpa using h) ht q' h1 (by omega))
    (spec_end s)]
  simp only [beq_self_eq_true, finditerAux_end s _ fuel (spec_end_ne s), Dtd.cssLoop]
  have hgap : stt.end_ = s.size ∨
      (stt.end_ < s.size ∧ ∃ sp, matchAt (s.extract 0 s.size) Gen.Pat.CSSCheckMixin__css_sep stt.end_ = some sp) := by
    rw [he]
    by_cases hnil : trail = []
    · left; subst hnil; simpa using hsz
    · right
      have hl : 0 < trail.length := List.length_pos_iff.mpr hnil
      refine ⟨by omega, ?_⟩
      have hx : (s.extract 0 s.size).toList.drop e = trail := by
        have := extract_drop s s.size e trail [] (by simpa using h) (by omega)
        exact this
      rcases ht with ht | ⟨a, b, rfl, ha, hb⟩
      · exact sep_ws _ e trail (by simp; omega) hx ht
      · obtain ⟨sp, h1, _⟩ := sep_semi _ e a b hx ha hb
        exact ⟨sp, h1⟩
  rw [cssStep_final s stt (by omega) hgap]

/-- the loop over `d₁ sep d₂ … dₙ trail`, started at the end `e` of what came before (`gap` = what stands
    between `e` and the first declaration) -/
theorem loop_decls (s : Array Nat) : ∀ (ds : List Decl) (t : Text), DeclsText ds t →
    ∀ (fuel e : Nat) (stt : Dtd.CssState) (gap trail : Text), stt.end_ = e →
      s.toList.drop e = gap ++ (t ++ trail) → GapOk s e (e + gap.length) →
      (∀ q', e ≤ q' → q' < e + gap.length → matchAt s Gen.Pat.CSSCheckMixin__css_spec q' = none) →
      IsEdge trail → s.size + 2 ≤ fuel + e →
      Dtd.cssLoop s (finditerAux s Gen.Pat.CSSCheckMixin__css_spec fuel e false) stt
        = some ⟨some (foldDecls (mapOr stt.refMap) ds), stt.errors, s.size⟩ := by
  intro ds t hdt
  induction hdt with
  | one d hd =>
    intro fuel e stt gap trail he h hgap hnone htrail hfuel
    have hq : s.toList.drop (e + gap.length) = d.text ++ trail := drop_append_of_drop h
    have hlen : 0 < d.text.length := decl_text_pos hd
    have hqs : e + gap.length + d.text.length ≤ s.size := by
      have : (s.toList.drop (e + gap.length)).length = s.size - (e + gap.length) := by simp
      rw [hq] at this; simp at this; omega
    obtain ⟨f, rfl⟩ : ∃ f, fuel = f + 1 + 1 := ⟨fuel - 2, by omega⟩
    rw [finditerAux_skip s _ (f + 1) e (e + gap.length) (declSt (e + gap.length) d) (by omega) (by omega) hnone
      (decl_match s _ d hd trail hq)]
    have hb : ((declSt (e + gap.length) d).pos == e + gap.length) = false := by
      rw [beq_eq_false_iff_ne]; simp only [declSt]; omega
    rw [hb]
    simp only [Dtd.cssLoop]
    rw [cssStep_decl s stt _ d trail hq hd (by rw [he]; exact hgap)]
    simp only [declSt]
    rw [loop_tail s f (e + gap.length + d.text.length) _ trail rfl (by omega) (drop_append_of_drop hq) hqs htrail]
    simp [foldDecls, mapOr]
  | cons d sep ds t hd hsep _ ih =>
    intro fuel e stt gap trail he h hgap hnone htrail hfuel
    have hq : s.toList.drop (e + gap.length) = d.text ++ (sep ++ (t ++ trail)) := by
      have := drop_append_of_drop h
      simpa using this
    have hlen : 0 < d.text.length := decl_text_pos hd
    have hq2 : s.toList.drop (e + gap.length + d.text.length) = sep ++ (t ++ trail) := drop_append_of_drop hq
    have hseplen : 0 < sep.length := by obtain ⟨a, b, rfl, _, _⟩ := hsep; simp; omega
    have hqs : e + gap.length + d.text.length + sep.length ≤ s.size := by
      have : (s.toList.drop (e + gap.length + d.text.length)).length = s.size - (e + gap.length + d.text.length) := by simp
      rw [hq2] at this; simp at this; omega
    obtain ⟨f, rfl⟩ : ∃ f, fuel = f + 1 := ⟨fuel - 1, by omega⟩
    rw [finditerAux_skip s _ f e (e + gap.length) (declSt (e + gap.length) d) (by omega) (by omega) hnone
      (decl_match s _ d hd _ hq)]
    have hb : ((declSt (e + gap.length) d).pos == e + gap.length) = false := by
      rw [beq_eq_false_iff_ne]; simp only [declSt]; omega
    rw [hb]
    simp only [Dtd.cssLoop]
    rw [cssStep_decl s stt _ d _ hq hd (by rw [he]; exact hgap)]
    simp only [declSt]
    rw [ih f (e + gap.length + d.text.length) _ sep trail rfl hq2 (gap_of_sep s _ sep _ hq2 hsep)
      (isEdge_no_match s _ sep _ hq2 (Or.inr hsep)) htrail (by omega)]
    simp [foldDecls, mapOr]

/-- **css_grammar_accepts** (model of checks/dtd.py): every grammatical spec is parsed without errors, with exactly
    its properties and units (dict semantics, in the order of the declarations) -/
theorem css_grammar_accepts_dtd (ds : List Decl) (v : Text) (h : CssSpec ds v) :
    Dtd.parseCssSpec v = (some (declMap ds), none) := by
  cases h with
  | mk lead t trail ds hlead hdt htrail =>
    unfold Dtd.parseCssSpec finditer
    try dsimp only
    have hdrop : (lead ++ (t ++ trail)).toArray.toList.drop 0 = lead ++ (t ++ trail) := by simp
    have := loop_decls (lead ++ (t ++ trail)).toArray ds t hdt (2 * (lead ++ (t ++ trail)).toArray.size + 3) 0
      ⟨none, none, 0⟩ lead trail rfl hdrop (gap_of_edge0 _ lead _ hdrop hlead)
      (isEdge_no_match _ 0 lead _ hdrop hlead) htrail (by omega)
    rw [this]
    rfl

end C08C

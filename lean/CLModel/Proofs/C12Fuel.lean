/- The nesting bound of `expandVal` is only a bound: more of it never changes a result that is
   not `RecursionError`. -/
import CLModel.Paths.Matcher
namespace PM

/-- `recB` agrees with `recA` wherever `recA` does not run out of nesting depth -/
def AgreeE (recA recB : ExpRec) : Prop :=
  ∀ v env rm, recA v env rm ≠ .error .recursion → recB v env rm = recA v env rm

theorem getAndroidLocale_agree {recA recB : ExpRec} (h : AgreeE recA recB) (env : Env)
    (hne : getAndroidLocale recA env ≠ .error .recursion) :
    getAndroidLocale recB env = getAndroidLocale recA env := by
  unfold getAndroidLocale at hne ⊢
  split
  · rfl
  · rename_i v hv
    simp only [hv] at hne
    cases hA : recA v (derase env androidName) false with
    | error e =>
      have hne' : e ≠ .recursion := by
        intro he; subst he
        simp [hA, bind, Except.bind] at hne
      have := h v (derase env androidName) false (by rw [hA]; intro hc; cases hc; exact hne' rfl)
      simp [this, hA, bind, Except.bind]
    | ok b =>
      have := h v (derase env androidName) false (by rw [hA]; intro hc; cases hc)
      simp [this, hA, bind, Except.bind]

theorem expandNode_agree {recA recB : ExpRec} (h : AgreeE recA recB) (n : Node) (env : Env) (rm : Bool)
    (hne : expandNode recA n env rm ≠ .error .recursion) :
    expandNode recB n env rm = expandNode recA n env rm := by
  cases n with
  | lit s => rfl
  | var name rep =>
    simp only [expandNode] at hne ⊢
    split
    · rfl
    · rename_i v hv
      simp only [hv] at hne
      exact h _ _ _ hne
  | android rep =>
    simp only [expandNode, bind, Except.bind] at hne ⊢
    have hg : getAndroidLocale recA env ≠ .error .recursion := by
      intro hc
      simp [hc] at hne
    rw [getAndroidLocale_agree h env hg]
  | star n => rfl
  | starstar n sfx => rfl

theorem expandChildren_agree {recA recB : ExpRec} (h : AgreeE recA recB) (env : Env) (rm : Bool) :
    ∀ (ns : List Node), expandChildren recA ns env rm ≠ .error .recursion →
      expandChildren recB ns env rm = expandChildren recA ns env rm
  | [], _ => rfl
  | c :: cs, hne => by
    have hnode : expandNode recA c env true ≠ .error .recursion := by
      intro hc
      simp only [expandChildren, hc] at hne
      exact hne rfl
    have hn := expandNode_agree h c env true hnode
    simp only [expandChildren, hn] at hne ⊢
    cases hA : expandNode recA c env true with
    | error e =>
      simp only [hA] at hne ⊢
      cases e with
      | missingEnv => rfl
      | notStr =>
        simp only at hne ⊢
        have hcs : expandChildren recA cs env rm ≠ .error .recursion := by
          intro hc
          simp only [hc] at hne
          exact hne rfl
        rw [expandChildren_agree h env rm cs hcs]
      | _ => rfl
    | ok s =>
      simp only [hA, bind, Except.bind] at hne ⊢
      have hcs : expandChildren recA cs env rm ≠ .error .recursion := by
        intro hc
        simp [hc] at hne
      rw [expandChildren_agree h env rm cs hcs]

theorem rootOf_agree {recA recB : ExpRec} (h : AgreeE recA recB) (p : Pattern) (env : Env)
    (hne : rootOf recA p env ≠ .error .recursion) : rootOf recB p env = rootOf recA p env := by
  cases hroot : p.root with
  | none => simp only [rootOf, hroot]
  | some r =>
    cases hnodes : p.nodes with
    | nil => simp only [rootOf, hroot, hnodes]
    | cons n0 tl =>
      simp only [rootOf, hroot, hnodes] at hne ⊢
      have hnode : expandNode recA n0 env false ≠ .error .recursion := by
        intro hc
        simp only [hc] at hne
        exact hne rfl
      rw [expandNode_agree h n0 env false hnode]

theorem expandPat_agree {recA recB : ExpRec} (h : AgreeE recA recB) (p : Pattern) (env : Env) (rm : Bool)
    (hne : expandPat recA p env rm ≠ .error .recursion) :
    expandPat recB p env rm = expandPat recA p env rm := by
  unfold expandPat at hne ⊢
  simp only [bind, Except.bind] at hne ⊢
  have hr : rootOf recA p env ≠ .error .recursion := by
    intro hc
    simp [hc] at hne
  rw [rootOf_agree h p env hr]
  cases hA : rootOf recA p env with
  | error e => rfl
  | ok root =>
    simp only [hA] at hne ⊢
    have hc : expandChildren recA p.nodes env rm ≠ .error .recursion := by
      intro hc
      simp [hc] at hne
    rw [expandChildren_agree h env rm p.nodes hc]

theorem expandVal_step : ∀ f, AgreeE (expandVal f) (expandVal (f + 1))
  | 0 => by
    intro v env rm hne
    cases v with
    | str s => rfl
    | pat p => simp only [expandVal] at hne; exact absurd rfl hne
  | f + 1 => by
    intro v env rm hne
    cases v with
    | str s => rfl
    | pat p =>
      simp only [expandVal] at hne ⊢
      exact expandPat_agree (expandVal_step f) p env rm hne

theorem expandVal_mono {f f' : Nat} (hle : f ≤ f') {v : Val} {env : Env} {rm : Bool} {r : Except PyErr Text}
    (hr : expandVal f v env rm = r) (hne : r ≠ .error .recursion) : expandVal f' v env rm = r := by
  induction hle with
  | refl => exact hr
  | step _ ih =>
    rw [expandVal_step _ v env rm (by rw [ih]; exact hne)]
    exact ih

end PM

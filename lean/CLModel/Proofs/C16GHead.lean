/-
C16G, part 4: does the output start with a blank line?  (`.inc`: a leading blank line is Junk — finding
C16-inc-leading-blank; text-level idempotence: the second run must reproduce the first run's leading newline.)

`hw_out`: for ALL entry lists, the pruned entry list starts with a white-space entry iff the first pair of the key diff of
template and sanitized old localization that is not (still) a placeholder after the new values are filled in is white space.
The white-space folding reduces never change that (`hw_genFold`).
-/
import CLModel.Proofs.C16GFmt
namespace C16G
open AR Ser C16L C16R
open P (PRec)

section
variable {γ : Type}

theorem hw_append (w : γ → Bool) (A B : List γ) : hw w (A ++ B) = if A.isEmpty then hw w B else hw w A := by
  cases A <;> rfl

theorem hw_filter_append (w q : γ → Bool) (A B : List γ) :
    hw w ((A ++ B).filter q) = if (A.filter q).isEmpty then hw w (B.filter q) else hw w (A.filter q) := by
  rw [List.filter_append, hw_append]

/-- one step of the folding reduce does not change whether the first element that passes `q` is white space
    (`q` keeps every white-space element) -/
theorem hw_genStep (w q : γ → Bool) (len : γ → Nat) (hq : ∀ x, w x = true → q x = true) (racc : List γ) (x : γ)
    (T : List γ) :
    hw w (((genStep w len racc x).reverse ++ T).filter q) = hw w ((racc.reverse ++ x :: T).filter q) := by
  cases racc with
  | nil => rfl
  | cons prev rest =>
    by_cases hb : (w x && w prev) = true
    · have hb' := hb
      rw [Bool.and_eq_true] at hb'
      have hqx := hq x hb'.1
      have hqp := hq prev hb'.2
      by_cases hl : len x > len prev
      · have e : genStep w len (prev :: rest) x = x :: rest := by simp [genStep, hb'.1, hb'.2, hl]
        rw [e]
        simp only [List.reverse_cons, List.append_assoc, List.singleton_append]
        rw [hw_filter_append, hw_filter_append w q rest.reverse]
        split
        · simp [List.filter_cons, hqx, hqp, hw, hb'.1, hb'.2]
        · rfl
      · have e : genStep w len (prev :: rest) x = prev :: rest := by simp [genStep, hb'.1, hb'.2, hl]
        rw [e]
        simp only [List.reverse_cons, List.append_assoc, List.singleton_append]
        rw [hw_filter_append, hw_filter_append w q rest.reverse]
        split
        · simp [List.filter_cons, hqp, hw]
        · rfl
    · have e : genStep w len (prev :: rest) x = x :: prev :: rest := by
        simp only [genStep, hb, Bool.false_eq_true, if_false]
      rw [e]
      simp

theorem hw_genFold (w q : γ → Bool) (len : γ → Nat) (hq : ∀ x, w x = true → q x = true) :
    ∀ (S racc T : List γ),
      hw w (((S.foldl (genStep w len) racc).reverse ++ T).filter q) = hw w ((racc.reverse ++ (S ++ T)).filter q) := by
  intro S
  induction S with
  | nil => intro racc T; rfl
  | cons x xs ih =>
    intro racc T
    rw [List.foldl_cons, ih, hw_genStep w q len hq]
    simp

/-- … so the folded list starts with white space (among the elements passing `q`) iff the input does -/
theorem hw_genFold' (w q : γ → Bool) (len : γ → Nat) (hq : ∀ x, w x = true → q x = true) (S : List γ) :
    hw w (((S.foldl (genStep w len) []).reverse).filter q) = hw w (S.filter q) := by
  have := hw_genFold w q len hq S [] []
  simpa using this

theorem hw_map {δ : Type} (w : γ → Bool) (w' : δ → Bool) (f : γ → δ) (l : List γ) (h : ∀ x ∈ l, w' (f x) = w x) :
    hw w' (l.map f) = hw w l := by
  cases l with
  | nil => rfl
  | cons a t => exact h a (by simp)

/-- skipping a prefix of elements that are white space or do not pass `q`, followed by a white-space element -/
theorem hw_skip (w q : γ → Bool) (hq : ∀ x, w x = true → q x = true) (L : List γ) (x : γ) (T : List γ)
    (hL : ∀ p ∈ L, w p = true ∨ q p = false) (hx : w x = true) :
    hw w ((L ++ x :: T).filter q) = true := by
  induction L with
  | nil => simp [List.filter_cons, hq x hx, hw, hx]
  | cons a L ih =>
    have iha := ih (fun p hp => hL p (List.mem_cons_of_mem _ hp))
    rcases hL a (by simp) with ha | ha
    · simp [List.filter_cons, hq a ha, hw, ha]
    · simpa [List.filter_cons, ha] using iha

end

/-! ### the reduction -/

/-- a pair survives `prune_placeholders` (after the new values are filled in) -/
def q2 (D2 : Dict) (p : MKey × Ent) : Bool := !(pick D2 p.1 p.2).isPlaceholder

theorem isReal_not_placeholder {e : Ent} (h : e.isReal = true) : e.isPlaceholder = false := isReal_not_ph h

theorem q2_of_ws (ref : List Ent) (nd : NewData) (p : MKey × Ent) (h : pIsWs p = true) : q2 (d2Of ref nd) p = true := by
  unfold q2 pick
  cases hg : dget (d2Of ref nd) p.1 with
  | none => simp only; simp [isWs_not_ph (show p.2.isWs = true from h)]
  | some l =>
    simp only
    split
    · simp [isWs_not_ph (show p.2.isWs = true from h)]
    · simp [isReal_not_ph (d2_some hg).1]

/-- `pick` does not change whether a pair of the first merge is white space -/
theorem pick_isWs (ref old : List Ent) (nd : NewData) (p : MKey × Ent) (hp : p ∈ m1Of ref old nd) :
    (pick (d2Of ref nd) p.1 p.2).isWs = p.2.isWs := by
  unfold pick
  cases hg : dget (d2Of ref nd) p.1 with
  | none => rfl
  | some l =>
    simp only
    split
    · rfl
    · have hl := (d2_some hg).1
      have hk := (d2_some hg).2.1
      rw [isReal_not_ws hl]
      cases hw : p.2.isWs with
      | false => rfl
      | true =>
        have := keyOK_ws (m1_keyOK ref old nd p hp) hw
        rw [hk] at this
        simp [strOf] at this

/-- THE OUTPUT STARTS WITH A WHITE-SPACE ENTRY iff the first surviving pair of the key diff is white space — for ALL
    reference / old entry lists and new data -/
theorem hw_out (ref old : List Ent) (nd : NewData) :
    hw Ent.isWs (serializeEnts ref old nd)
      = hw pIsWs ((olderPairs (d0Of ref) (d1Of ref old nd)).filter (q2 (d2Of ref nd))) := by
  have hD0 := d0_nodup ref
  have hD1 := d1_nodup ref old nd
  have hD2 := d2_nodup ref nd
  have hM1 := m1_nodup ref old nd
  -- prune_whitespace
  have a1 : hw Ent.isWs (serializeEnts ref old nd)
      = hw Ent.isWs (((m2Of ref old nd).map (·.2)).filter (fun e => !e.isPlaceholder)) := by
    rw [serializeEnts_eq, prunePlaceholders_eq]
    have := hw_genFold' Ent.isWs (fun _ => true) (fun e : Ent => e.all.length) (fun _ _ => rfl)
      (((m2Of ref old nd).map (·.2)).filter (fun e => !e.isPlaceholder))
    have ft : ∀ l : List Ent, l.filter (fun _ => true) = l := fun l => by simp
    rw [ft, ft] at this
    exact this
  -- to pairs
  have a2 : hw Ent.isWs (((m2Of ref old nd).map (·.2)).filter (fun e => !e.isPlaceholder))
      = hw pIsWs ((m2Of ref old nd).filter (fun p => !p.2.isPlaceholder)) := by
    rw [List.filter_map]
    exact hw_map pIsWs Ent.isWs (·.2) _ (fun _ _ => rfl)
  -- the second merge's reduce
  have a3 : hw pIsWs ((m2Of ref old nd).filter (fun p => !p.2.isPlaceholder))
      = hw pIsWs ((olderPairs (m1Of ref old nd) (d2Of ref nd)).filter (fun p => !p.2.isPlaceholder)) := by
    rw [m2Of, mergeTwo_eq _ _ hM1 hD2]
    exact hw_genFold' pIsWs _ pLen (fun p hp => by simp [isWs_not_ph (show p.2.isWs = true from hp)]) _
  -- the second merge is a pointwise override
  have a4 : hw pIsWs ((olderPairs (m1Of ref old nd) (d2Of ref nd)).filter (fun p => !p.2.isPlaceholder))
      = hw pIsWs ((m1Of ref old nd).filter (q2 (d2Of ref nd))) := by
    rw [olderPairs_of_subset _ _ hM1 hD2 (d2_sub_m1 ref old nd), List.filter_map]
    apply hw_map
    intro p hp
    exact pick_isWs ref old nd p (List.mem_filter.1 hp).1
  -- the first merge's reduce
  have a5 : hw pIsWs ((m1Of ref old nd).filter (q2 (d2Of ref nd)))
      = hw pIsWs ((olderPairs (d0Of ref) (d1Of ref old nd)).filter (q2 (d2Of ref nd))) := by
    rw [m1Of, mergeTwo_eq _ _ hD0 hD1]
    exact hw_genFold' pIsWs _ pLen (q2_of_ws ref nd) _
  rw [a1, a2, a3, a4, a5]

/-! ### the key diff, explicitly -/

section keys
variable {α : Type} [BEq α] [LawfulBEq α]

theorem spec_keys' (l r : List α) :
    (spec l r).map (·.2) = addsOf l r none none ++ l.flatMap (fun k => k :: addsOf l r none (some k)) := by
  rw [spec_keys]; rfl

/-- right-only keys are not in the left list -/
theorem mem_anchors (l : List α) : ∀ (r : List α) (cur : Option α), ∀ p ∈ anchors l r cur,
    l.contains p.2 = false ∧ p.2 ∈ r := by
  intro r
  induction r with
  | nil => intro cur p hp; simp [anchors] at hp
  | cons x xs ih =>
    intro cur p hp
    unfold anchors at hp
    by_cases hx : l.contains x = true
    · rw [if_pos hx] at hp
      obtain ⟨h1, h2⟩ := ih _ p hp
      exact ⟨h1, List.mem_cons_of_mem _ h2⟩
    · rw [if_neg hx] at hp
      rcases List.mem_cons.1 hp with rfl | hp
      · exact ⟨by simpa using hx, by simp⟩
      · obtain ⟨h1, h2⟩ := ih _ p hp
        exact ⟨h1, List.mem_cons_of_mem _ h2⟩

theorem mem_addsOf (l r : List α) (cur a : Option α) (x : α) (h : x ∈ addsOf l r cur a) :
    l.contains x = false ∧ x ∈ r := by
  unfold addsOf at h
  rw [List.mem_map] at h
  obtain ⟨p, hp, rfl⟩ := h
  exact mem_anchors l r cur p (List.mem_filter.1 hp).1

/-- a right side that is empty or starts with a shared key: the diff is the left list with each key followed by the
    right-only keys anchored at it -/
theorem diff_keys_shared_head (l r : List α) (hl : l.Nodup) (hr : r.Nodup)
    (h : ∀ x, r.head? = some x → l.contains x = true) :
    (addRemove l r).map (·.2) = l.flatMap (fun k => k :: addsOf l r none (some k)) := by
  rw [addRemove_eq_spec l r hl hr, spec_keys', addsOf_none_head l r h, List.nil_append]

/-- a right side that starts with a right-only key: that key comes first -/
theorem diff_keys_add_head (l : List α) (x : α) (r : List α) (hl : l.Nodup) (hr : (x :: r).Nodup)
    (hx : l.contains x = false) :
    ∃ K, (addRemove l (x :: r)).map (·.2) = x :: K := by
  rw [addRemove_eq_spec l _ hl hr, spec_keys']
  unfold addsOf
  rw [anchors, if_neg (by rw [hx]; simp)]
  simp only [List.filter_cons, beq_self_eq_true, if_true, List.map_cons, List.cons_append]
  exact ⟨_, rfl⟩

/-- … and a second right-only key directly after it comes second -/
theorem diff_keys_add_head2 (l : List α) (x y : α) (r : List α) (hl : l.Nodup) (hr : (x :: y :: r).Nodup)
    (hx : l.contains x = false) (hy : l.contains y = false) :
    ∃ K, (addRemove l (x :: y :: r)).map (·.2) = x :: y :: K := by
  rw [addRemove_eq_spec l _ hl hr, spec_keys']
  unfold addsOf
  rw [anchors, if_neg (by rw [hx]; simp), anchors, if_neg (by rw [hy]; simp)]
  simp only [List.filter_cons, beq_self_eq_true, if_true, List.map_cons, List.cons_append]
  exact ⟨_, rfl⟩

end keys

end C16G

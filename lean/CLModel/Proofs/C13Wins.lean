/-
C13 helper lemmas: the first matcher in list order that covers an existing file claims it;
without duplicate keys the matcher list is the reversed rule list.
-/
import CLModel.Proofs.C13Iter
import CLModel.Proofs.C13Dedup
namespace PF

theorem flatMap_claims_find_none {env : MEnv} {fs : FS} {ex : Path → Bool} {p : Path} {pre : List Rule}
    (hpre : ∀ x ∈ pre, env.mtch x.l10n p = none) (hrt : ∀ x ∈ pre, SubMatches env x) :
    (pre.flatMap (claims env fs ex)).find? (·.1 == p) = none := by
  rw [List.find?_eq_none]
  intro y hy
  simp only [List.mem_flatMap] at hy
  obtain ⟨x, hx, hy⟩ := hy
  exact List.find?_eq_none.1 (claims_find_none (fs := fs) (ex := ex) (hpre x hx) (hrt x hx)) y hy

theorem first_rule_claims {env : MEnv} {fs : FS} {ex : Path → Bool} {pre post : List Rule} {r : Rule} {p : Path} {g : GId}
    (hpre : ∀ x ∈ pre, env.mtch x.l10n p = none) (hrt : ∀ x ∈ pre, SubMatches env x)
    (hf : (p, g) ∈ files env fs ex r.l10n) :
    ((pre ++ r :: post).flatMap (claims env fs ex)).find? (·.1 == p) = some (p, entryL env r g) := by
  rw [List.flatMap_append, List.find?_append, flatMap_claims_find_none hpre hrt, List.flatMap_cons,
    List.find?_append, claims_find_some hf]
  rfl

theorem first_rule_wins_pf {env : MEnv} {fs : FS} {pf : PF} {pre post : List Rule} {r : Rule} {p : Path} {g : GId}
    (hms : pf.matchers = pre ++ r :: post)
    (hpre : ∀ x ∈ pre, env.mtch x.l10n p = none) (hrt : ∀ x ∈ pre, SubMatches env x)
    (hf : (p, g) ∈ files env fs (excludedBy env pf.exclude) r.l10n) :
    toItem (p, entryL env r g) ∈ pf.iterLocale env fs := by
  rw [iterLocale_eq, mem_sorted_items, hms]
  exact ⟨entryL env r g, first_rule_claims hpre hrt hf, rfl⟩

theorem specGo_id {env : MEnv} : ∀ {ms : List Rule} {K : List (Path × Nat)},
    ((ms.map (keyOf env)).Nodup) → (∀ m ∈ ms, keyOf env m ∉ K) → specGo env K ms = ms
  | [], _, _, _ => rfl
  | m :: ms, K, hn, hK => by
    rw [List.map_cons, List.nodup_cons] at hn
    rw [specGo_cons_new (hK m List.mem_cons_self)]
    have hno : ∀ m_ ∈ ms, sameKey env m m_ = false := by
      intro m_ hm_
      cases hs : sameKey env m m_ with
      | false => rfl
      | true => exact absurd (List.mem_map.2 ⟨m_, hm_, (sameKey_iff.1 hs).symm⟩) hn.1
    have ht : mergedTests env m ms = m.test := mergedTests_of_no_dup hno
    rw [ht, specGo_id hn.2]
    · intro m_ hm_
      simp only [List.mem_cons, not_or]
      refine ⟨?_, hK m_ (List.mem_cons_of_mem _ hm_)⟩
      intro e
      exact hn.1 (List.mem_map.2 ⟨m_, hm_, e⟩)

theorem dedupSpec_id {env : MEnv} {ms : List Rule} (hn : (ms.map (keyOf env)).Nodup) : dedupSpec env ms = ms :=
  specGo_id hn (by simp)

end PF

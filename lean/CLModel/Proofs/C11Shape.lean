/- Shape of the regular expression `Matcher.regexOf` builds, and inversion lemmas for `Matcher.match`. -/
import CLModel.Paths.Matcher
import CLModel.Proofs.RxSem
namespace PM
open Rx

/-! ### sequences of regex items -/

inductive SemL (s : Array Nat) : List Re → St → St → Prop
  | nil {st} : SemL s [] st st
  | cons {r rs st st1 st2} : BSem s r st st1 → SemL s rs st1 st2 → SemL s (r :: rs) st st2

theorem sem_seqOf {s : Array Nat} : ∀ (l : List Re) {st st' : St}, BSem s (seqOf l) st st' → SemL s l st st'
  | [], st, st', h => by
    simp only [seqOf] at h
    cases h
    exact SemL.nil
  | [x], st, st', h => by
    simp only [seqOf] at h
    exact SemL.cons h SemL.nil
  | x :: y :: rest, st, st', h => by
    simp only [seqOf] at h
    cases h with
    | seq ha hb => exact SemL.cons ha (sem_seqOf (y :: rest) hb)

theorem SemL.append {s : Array Nat} : ∀ {a b : List Re} {st st' : St}, SemL s (a ++ b) st st' →
    ∃ mid, SemL s a st mid ∧ SemL s b mid st'
  | [], b, st, st', h => ⟨st, SemL.nil, h⟩
  | x :: a, b, st, st', h => by
    cases h with
    | cons hx hr =>
      obtain ⟨mid, h1, h2⟩ := SemL.append hr
      exact ⟨mid, SemL.cons hx h1, h2⟩

theorem SemL.pos_le {s : Array Nat} {l : List Re} {st st' : St} (h : SemL s l st st') : st.pos ≤ st'.pos := by
  induction h with
  | nil => exact Nat.le_refl _
  | cons hx _ ih => exact Nat.le_trans hx.pos_le ih

theorem groups_seqOf : ∀ (l : List Re), groups (seqOf l) = l.flatMap groups
  | [] => by simp [seqOf, groups]
  | [x] => by simp [seqOf]
  | x :: y :: rest => by
    have := groups_seqOf (y :: rest)
    simp only [seqOf, groups, this, List.flatMap_cons]

/-- `t` occurs in `s` at position `p` -/
def TextAt (s : Array Nat) (p : Nat) (t : Text) : Prop := ∀ j, j < t.length → s[p + j]? = t[j]?

theorem semL_lits {s : Array Nat} : ∀ (t : Text) {rest : List Re} {st st' : St},
    SemL s (t.map Re.lit ++ rest) st st' →
    TextAt s st.pos t ∧ SemL s rest { st with pos := st.pos + t.length } st'
  | [], rest, st, st', h => by
    refine ⟨fun j hj => by simp at hj, ?_⟩
    simpa using h
  | c :: t, rest, st, st', h => by
    simp only [List.map_cons, List.cons_append] at h
    cases h with
    | cons hx hr =>
      cases hx with
      | lit hc =>
        obtain ⟨h1, h2⟩ := semL_lits t hr
        refine ⟨?_, ?_⟩
        · intro j hj
          cases j with
          | zero => simpa using hc
          | succ j =>
            have := h1 j (by simpa using hj)
            simp only [List.getElem?_cons_succ]
            rw [← this]
            congr 1
            simp; omega
        · simp only [List.length_cons]
          have e : st.pos + 1 + t.length = st.pos + (t.length + 1) := by omega
          simpa [e] using h2

theorem TextAt.prefix {s : Array Nat} {t : Text} (h : TextAt s 0 t) : t <+: s.toList := by
  induction t generalizing s with
  | nil => exact List.nil_prefix
  | cons c t ih =>
    have h0 := h 0 (by simp)
    simp at h0
    obtain ⟨l⟩ := s
    cases l with
    | nil => simp at h0
    | cons d l =>
      simp at h0
      subst h0
      simp only [List.cons_prefix_cons, true_and]
      have : TextAt (l.toArray) 0 t := by
        intro j hj
        have := h (j + 1) (by simpa using hj)
        simpa using this
      exact ih this

theorem TextAt.append {s : Array Nat} {p : Nat} {a b : Text} (ha : TextAt s p a) (hb : TextAt s (p + a.length) b) :
    TextAt s p (a ++ b) := by
  intro j hj
  by_cases hlt : j < a.length
  · rw [List.getElem?_append_left hlt]; exact ha j hlt
  · have hge : a.length ≤ j := by omega
    rw [List.getElem?_append_right hge]
    have := hb (j - a.length) (by simp at hj; omega)
    rw [← this]; congr 1; omega

/-! ### inversion of `rxChildren` / `rxPat` / `regexOf` / `match` -/

theorem rxChildren_cons {rec : RxRec} {c : Node} {cs : List Node} {env : Env} {items names}
    (h : rxChildren rec (c :: cs) env = .ok (items, names)) :
    ∃ a na b nb, rxNode rec c env = .ok (a, na) ∧ rxChildren rec cs env = .ok (b, nb) ∧
      items = a ++ b ∧ names = na ++ nb := by
  simp only [rxChildren, bind, Except.bind] at h
  split at h
  · cases h
  · rename_i v hv
    obtain ⟨a, na⟩ := v
    simp only at h
    split at h
    · cases h
    · rename_i w hw
      obtain ⟨b, nb⟩ := w
      simp only [pure, Except.pure, Except.ok.injEq, Prod.mk.injEq] at h
      exact ⟨a, na, b, nb, hv, hw, h.1.symm, h.2.symm⟩

theorem rxChildren_append {rec : RxRec} {env : Env} : ∀ {xs ys : List Node} {items names},
    rxChildren rec (xs ++ ys) env = .ok (items, names) →
    ∃ a na b nb, rxChildren rec xs env = .ok (a, na) ∧ rxChildren rec ys env = .ok (b, nb) ∧
      items = a ++ b ∧ names = na ++ nb
  | [], ys, items, names, h => ⟨[], [], items, names, rfl, h, rfl, rfl⟩
  | c :: xs, ys, items, names, h => by
    obtain ⟨a, na, b, nb, h1, h2, rfl, rfl⟩ := rxChildren_cons (cs := xs ++ ys) h
    obtain ⟨a', na', b', nb', h3, h4, rfl, rfl⟩ := rxChildren_append h2
    refine ⟨a ++ a', na ++ na', b', nb', ?_, h4, by simp, by simp⟩
    simp [rxChildren, bind, Except.bind, h1, h3, pure, Except.pure]

theorem rxChildren_mem {rec : RxRec} {env : Env} {n : Node} : ∀ {ns : List Node} {items names},
    rxChildren rec ns env = .ok (items, names) → n ∈ ns →
    ∃ a na, rxNode rec n env = .ok (a, na) ∧ (∀ x ∈ a, x ∈ items) ∧ (∀ x ∈ na, x ∈ names)
  | [], _, _, _, hm => by cases hm
  | c :: cs, items, names, h, hm => by
    obtain ⟨a, na, b, nb, h1, h2, rfl, rfl⟩ := rxChildren_cons h
    simp only [List.mem_cons] at hm
    rcases hm with rfl | hm
    · exact ⟨a, na, h1, fun x hx => by simp [hx], fun x hx => by simp [hx]⟩
    · obtain ⟨a', na', h3, h4, h5⟩ := rxChildren_mem h2 hm
      exact ⟨a', na', h3, fun x hx => by simp [h4 x hx], fun x hx => by simp [h5 x hx]⟩

theorem rxPat_inv {rec : RxRec} {p : Pattern} {env : Env} {items names}
    (h : rxPat rec p env = .ok (items, names)) :
    ∃ root citems, rootOf (expandVal (fuelFor env)) p env = .ok root ∧
      rxChildren rec p.nodes env = .ok (citems, names) ∧ items = root.map Re.lit ++ citems := by
  simp only [rxPat, bind, Except.bind] at h
  split at h
  · cases h
  · rename_i root hroot
    split at h
    · cases h
    · rename_i w hw
      obtain ⟨b, nb⟩ := w
      simp only [pure, Except.pure, Except.ok.injEq, Prod.mk.injEq] at h
      obtain ⟨rfl, rfl⟩ := h
      exact ⟨root, b, hroot, hw, rfl⟩

theorem regexOf_inv {m : Matcher} {re names} (h : m.regexOf = .ok (re, names)) :
    ∃ items, rxPat (rxVal (fuelFor m.env)) m.pattern m.env = .ok (items, names) ∧
      re = seqOf (items ++ [Gen.Pat.matcher_frag_anchor]) ∧ (wfRe re ([], [])).isSome = true := by
  simp only [Matcher.regexOf, bind, Except.bind] at h
  split at h
  · cases h
  · rename_i w hw
    obtain ⟨items, nm⟩ := w
    simp only at h
    split at h
    · rename_i hc
      simp only [pure, Except.pure, Except.ok.injEq, Prod.mk.injEq] at h
      obtain ⟨rfl, rfl⟩ := h
      simp only [Bool.and_eq_true] at hc
      exact ⟨items, hw, rfl, hc.2⟩
    · cases h

/-- what a successful `match` consists of -/
theorem match_inv {m : Matcher} {path : Text} {d : GroupDict} (h : m.match path = .ok (some d)) :
    ∃ re names st, m.regexOf = .ok (re, names) ∧ matchAt path.toArray re 0 = some st ∧
      (d = groupDict path.toArray st names ∨
       ∃ l, d = groupDict path.toArray st names ++ [(localeName, some l)]) := by
  simp only [Matcher.match, bind, Except.bind] at h
  split at h
  · cases h
  · rename_i w hw
    obtain ⟨re, names⟩ := w
    simp only at h
    split at h
    · simp [pure, Except.pure] at h
    · rename_i st hst
      refine ⟨re, names, st, hw, hst, ?_⟩
      split at h
      · split at h
        · rename_i a _
          split at h
          · cases h
          · rename_i l hl
            simp only [pure, Except.pure, Except.ok.injEq, Option.some.injEq] at h
            exact Or.inr ⟨l, h.symm⟩
        · cases h
      · simp only [pure, Except.pure, Except.ok.injEq, Option.some.injEq] at h
        exact Or.inl h.symm

/-! ### group dictionary -/

theorem lookup_map_self {β} (f : Text → β) (k : Text) : ∀ (names : List Text) {v : β},
    (names.map (fun nm => (nm, f nm))).lookup k = some v → v = f k
  | [], _, h => by simp at h
  | n :: ns, v, h => by
    simp only [List.map_cons, List.lookup_cons] at h
    split at h
    · rename_i heq
      have : k = n := by simpa using heq
      subst this
      simpa using h.symm
    · exact lookup_map_self f k ns h

theorem lookup_append_of_ne {β} (k k' : Text) (v' : β) : ∀ (l : List (Text × β)) {v : β},
    (k == k') = false → (l ++ [(k', v')]).lookup k = some v → l.lookup k = some v
  | [], _, hne, h => by simp [List.lookup, hne] at h
  | (a, b) :: l, v, hne, h => by
    simp only [List.cons_append, List.lookup_cons] at h ⊢
    cases hk : (k == a) with
    | true => simpa [hk] using h
    | false => simp only [hk] at h ⊢; exact lookup_append_of_ne k k' v' l hne h

theorem sname_ne_locale (n : Nat) : (sname n == localeName) = false := by
  simp [sname, localeName]

/-- the value `match` reports for a wildcard group is the text of the group's capture -/
theorem dict_lookup_sname {m : Matcher} {path : Text} {d : GroupDict} {re names st} {n : Nat} {v : Option Text}
    (hd : d = groupDict path.toArray st names ∨ ∃ l, d = groupDict path.toArray st names ++ [(localeName, some l)])
    (_hre : m.regexOf = .ok (re, names))
    (hl : d.lookup (sname n) = some v) : v = groupText path.toArray st (encName (sname n)) := by
  rcases hd with rfl | ⟨l, rfl⟩
  · exact lookup_map_self _ _ names hl
  · exact lookup_map_self _ _ names (lookup_append_of_ne _ _ _ _ (sname_ne_locale n) hl)

end PM

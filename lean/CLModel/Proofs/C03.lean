/-
Helper lemmas for C03: the loop of `ContentComparer.compare` computes, key by key, the effect
prescribed by a classification of the key (`classOf`), summed over the key diff.
Core Lean only.
-/
import CLModel.Compare.Content
import CLModel.Proofs.AddRemove
import CLModel.Proofs.C03AddRemove
namespace Cmp
open AR

/-! ### specification vocabulary -/

/-- the last entity with key `k` (what `KeyedTuple.__getitem__` returns), `none` if there is none -/
def lastEnt (es : List Ent) (k : Key) : Option Ent := es.reverse.find? (fun e => e.key == k)

/-- the classes of a key of either file -/
inductive Cls | missing | refJunk | obsolete | l10nJunk | binding | unchanged | changed | absent
  deriving DecidableEq, Repr

/-- classification of a key by the last entities carrying it in the two files -/
def classOf (ref l10n : List Ent) (k : Key) : Cls :=
  match lastEnt ref k, lastEnt l10n k with
  | some a, none => if a.junk then .refJunk else .missing
  | none, some b => if b.junk then .l10nJunk else .obsolete
  | some a, some b =>
    if keyMatch k then .binding else if a.cls == b.cls then .unchanged else .changed
  | none, none => .absent

/-- `count_words()` of the last reference entity with key `k` -/
def wordsOf (ref : List Ent) (k : Key) : Nat :=
  match lastEnt ref k with
  | some a => a.words
  | none => 0

/-- `junk.error_message()` id of the last localized entity with key `k` -/
def msgOf (l10n : List Ent) (k : Key) : Nat :=
  match lastEnt l10n k with
  | some a => a.msg
  | none => 0

/-- nothing is filtered: every notification is answered "error" -/
def noFilter : Key → Verdict := fun _ => .error

def Report.missingKeys (r : Report) : List Key :=
  r.notes.filterMap (fun n => match n with | .missingEntity k => some k | _ => none)

def Report.obsoleteKeys (r : Report) : List Key :=
  r.notes.filterMap (fun n => match n with | .obsoleteEntity k => some k | _ => none)

/-! ### keyed lookup = last entity -/

theorem find_idxOf (xs : List Ent) (k : Key) (h : k ∈ xs.map (·.key)) :
    xs[(xs.map (·.key)).idxOf k]? = xs.find? (fun e => e.key == k) ∧
    (xs.map (·.key)).idxOf k < xs.length := by
  induction xs with
  | nil => simp at h
  | cons x xs ih =>
    rw [List.map_cons, List.idxOf_cons, List.find?_cons]
    cases hx : x.key == k
    · have hne : ¬ k = x.key := fun e => by simp [e] at hx
      have h' : k ∈ xs.map (·.key) := by
        rw [List.map_cons, List.mem_cons] at h
        rcases h with h | h
        · exact absurd h hne
        · exact h
      obtain ⟨h1, h2⟩ := ih h'
      simp only [cond_false, List.getElem?_cons_succ, List.length_cons]
      exact ⟨h1, by omega⟩
    · simp

theorem lastEnt_none (es : List Ent) (k : Key) : lastEnt es k = none ↔ k ∉ es.map (·.key) := by
  simp only [lastEnt, List.find?_eq_none, List.mem_reverse, beq_iff_eq, List.mem_map, not_exists, not_and]

theorem lastEnt_isSome (es : List Ent) (k : Key) :
    (lastEnt es k).isSome = (es.map (·.key)).contains k := by
  rw [Bool.eq_iff_iff, List.contains_iff_mem]
  have hn := lastEnt_none es k
  cases h : lastEnt es k with
  | none => rw [h] at hn; simpa using hn.1 rfl
  | some a =>
    rw [h] at hn
    simp only [Option.isSome_some, true_iff]
    apply Classical.byContradiction
    intro hk
    exact absurd (hn.2 hk) (by simp)

theorem lastEnt_key (es : List Ent) (k : Key) (a : Ent) (h : lastEnt es k = some a) :
    a.key = k ∧ a ∈ es := by
  have := List.find?_some h
  have h2 := List.mem_of_find?_eq_some h
  exact ⟨by simpa using this, by simpa using h2⟩

theorem lookup_eq (es : List Ent) (k : Key) :
    lookup es k = match lastEnt es k with
      | some e => .ok e
      | none => .error .keyError := by
  unfold lookup
  rw [AR.keyedIndex_eq]
  by_cases hk : k ∈ es.map (·.key)
  · have hc : (es.map (·.key)).contains k = true := by simpa using hk
    rw [hc]
    simp only [if_true]
    have hk' : k ∈ es.reverse.map (·.key) := by
      rw [List.map_reverse]; simpa using hk
    obtain ⟨h1, h2⟩ := find_idxOf es.reverse k hk'
    rw [List.length_reverse] at h2
    rw [List.map_reverse] at h1 h2
    rw [List.getElem?_reverse h2] at h1
    rw [List.length_map]
    rw [h1]
    unfold lastEnt
    cases hf : List.find? (fun e => e.key == k) es.reverse with
    | some e => rfl
    | none =>
      have := (lastEnt_none es k).1 hf
      exact absurd hk this
  · have hc : (es.map (·.key)).contains k = false := by simpa using hk
    rw [hc, (lastEnt_none es k).2 hk]
    rfl

/-! ### the effect of one key -/

def Stats.add (a b : Stats) : Stats :=
  { missing := a.missing + b.missing, missing_w := a.missing_w + b.missing_w, report := a.report + b.report,
    obsolete := a.obsolete + b.obsolete, changed := a.changed + b.changed, changed_w := a.changed_w + b.changed_w,
    unchanged := a.unchanged + b.unchanged, unchanged_w := a.unchanged_w + b.unchanged_w, keys := a.keys + b.keys }

def St.app (a b : St) : St := { stats := a.stats.add b.stats, notes := a.notes ++ b.notes }

def St.zero : St := { stats := {}, notes := [] }

/-- what the loop does for key `k`, as prescribed by its class -/
def effK (ref l10n : List Ent) (v : Key → Verdict) (k : Key) : St :=
  match classOf ref l10n k with
  | .missing =>
    match v k with
    | .ignore => St.zero
    | .error => { stats := { missing := 1, missing_w := wordsOf ref k }, notes := [.missingEntity k] }
    | .warning => { stats := { report := 1 }, notes := [.missingEntity k] }
  | .refJunk => { stats := {}, notes := [.warning .refJunk] }
  | .obsolete =>
    match v k with
    | .ignore => St.zero
    | _ => { stats := { obsolete := 1 }, notes := [.obsoleteEntity k] }
  | .l10nJunk => { stats := {}, notes := [.error (.junk (msgOf l10n k))] }
  | .binding => { stats := { keys := 1 }, notes := [] }
  | .unchanged => { stats := { unchanged := 1, unchanged_w := wordsOf ref k }, notes := [] }
  | .changed => { stats := { changed := 1, changed_w := wordsOf ref k }, notes := [] }
  | .absent => St.zero

theorem verdict_cases (x : Verdict) : x = .error ∨ x = .warning ∨ x = .ignore := by
  cases x <;> simp

theorem step_app (ref l10n : List Ent) (v : Key → Verdict) (st : St) (p : Label × Key) :
    step ref l10n v st p = (step ref l10n v St.zero p).map (fun d => st.app d) := by
  obtain ⟨a, k⟩ := p
  cases a
  · -- equal
    simp only [step, lookup_eq]
    cases lastEnt ref k <;> cases lastEnt l10n k <;> try rfl
    simp only [bind, Except.bind, pure, Except.pure]
    split
    · simp [Except.map, St.app, St.zero, Stats.add]
    · split <;> simp [Except.map, St.app, St.zero, Stats.add]
  · -- delete
    simp only [step, lookup_eq]
    cases lastEnt ref k <;> try rfl
    simp only [bind, Except.bind, pure, Except.pure]
    split
    · simp [Except.map, St.app, St.zero, notifyMsg, Stats.add]
    · simp only [notifyEntity]
      rcases verdict_cases (v k) with h | h | h <;> simp [h, Except.map, St.app, St.zero, Stats.add]
  · -- add
    simp only [step, lookup_eq]
    cases lastEnt l10n k <;> try rfl
    simp only [bind, Except.bind, pure, Except.pure]
    split
    · simp [Except.map, St.app, St.zero, notifyMsg, Stats.add]
    · simp only [notifyEntity]
      rcases verdict_cases (v k) with h | h | h <;> simp [h, Except.map, St.app, St.zero, Stats.add]

theorem step_zero (ref l10n : List Ent) (v : Key → Verdict) (k : Key)
    (hk : k ∈ ref.map (·.key) ∨ k ∈ l10n.map (·.key)) :
    step ref l10n v St.zero (lab (ref.map (·.key)) (l10n.map (·.key)) k, k)
      = .ok (effK ref l10n v k) := by
  have hR := lastEnt_isSome ref k
  have hL := lastEnt_isSome l10n k
  have hn1 := lastEnt_none ref k
  have hn2 := lastEnt_none l10n k
  unfold lab effK classOf wordsOf msgOf
  rw [← hR, ← hL]
  cases hA : lastEnt ref k <;> cases hB : lastEnt l10n k
  · rw [hA] at hn1; rw [hB] at hn2
    rcases hk with hk | hk
    · exact absurd hk (hn1.1 rfl)
    · exact absurd hk (hn2.1 rfl)
  · rename_i b
    simp only [Option.isSome_none, Option.isSome_some, Bool.false_eq_true, if_false, step, lookup_eq, hB,
      bind, Except.bind, pure, Except.pure, notifyEntity, notifyMsg, St.zero]
    cases b.junk
    · rcases verdict_cases (v k) with h | h | h <;> simp [h]
    · simp
  · rename_i a
    simp only [Option.isSome_none, Option.isSome_some, Bool.false_eq_true, if_false, if_true, step, lookup_eq, hA,
      bind, Except.bind, pure, Except.pure, notifyEntity, notifyMsg, St.zero]
    cases a.junk
    · rcases verdict_cases (v k) with h | h | h <;> simp [h]
    · simp
  · rename_i a b
    simp only [Option.isSome_some, if_true, step, lookup_eq, hA, hB,
      bind, Except.bind, pure, Except.pure, St.zero]
    cases keyMatch k
    · cases a.cls == b.cls <;> simp
    · simp

/-! ### summing the effects over the key diff -/

theorem Stats.add_zero (a : Stats) : a.add {} = a := by
  cases a; simp [Stats.add]

theorem Stats.zero_add (a : Stats) : Stats.add {} a = a := by
  cases a; simp [Stats.add]

theorem Stats.add_assoc (a b c : Stats) : (a.add b).add c = a.add (b.add c) := by
  simp [Stats.add, Nat.add_assoc]

theorem St.app_zero (a : St) : a.app St.zero = a := by
  cases a; simp [St.app, St.zero, Stats.add_zero]

theorem St.zero_app (a : St) : St.zero.app a = a := by
  cases a; simp [St.app, St.zero, Stats.zero_add]

theorem St.app_assoc (a b c : St) : (a.app b).app c = a.app (b.app c) := by
  simp [St.app, Stats.add_assoc, List.append_assoc]

/-- the effects of the keys `ks`, accumulated in order -/
def sumEff (ref l10n : List Ent) (v : Key → Verdict) (ks : List Key) : St :=
  ks.foldl (fun s k => s.app (effK ref l10n v k)) St.zero

theorem foldl_app (ref l10n : List Ent) (v : Key → Verdict) (ks : List Key) (st : St) :
    ks.foldl (fun s k => s.app (effK ref l10n v k)) st = st.app (sumEff ref l10n v ks) := by
  induction ks generalizing st with
  | nil => simp [sumEff, St.app_zero]
  | cons k ks ih =>
    have h1 : sumEff ref l10n v (k :: ks) = (effK ref l10n v k).app (sumEff ref l10n v ks) := by
      show List.foldl _ St.zero (k :: ks) = _
      rw [List.foldl_cons, ih, St.zero_app]
    rw [List.foldl_cons, ih, h1, St.app_assoc]

theorem sumEff_cons (ref l10n : List Ent) (v : Key → Verdict) (k : Key) (ks : List Key) :
    sumEff ref l10n v (k :: ks) = (effK ref l10n v k).app (sumEff ref l10n v ks) := by
  rw [sumEff, List.foldl_cons, foldl_app, St.zero_app]

theorem sumEff_nil (ref l10n : List Ent) (v : Key → Verdict) : sumEff ref l10n v [] = St.zero := rfl

theorem foldlM_step (ref l10n : List Ent) (v : Key → Verdict) (ks : List Key)
    (hks : ∀ k ∈ ks, k ∈ ref.map (·.key) ∨ k ∈ l10n.map (·.key)) (st : St) :
    (ks.map (fun k => (lab (ref.map (·.key)) (l10n.map (·.key)) k, k))).foldlM (step ref l10n v) st
      = .ok (st.app (sumEff ref l10n v ks)) := by
  induction ks generalizing st with
  | nil => simp [sumEff_nil, St.app_zero, pure, Except.pure]
  | cons k ks ih =>
    rw [List.map_cons, List.foldlM_cons, step_app, step_zero ref l10n v k (hks k List.mem_cons_self)]
    simp only [Except.map, bind, Except.bind]
    rw [ih (fun k' hk' => hks k' (List.mem_cons_of_mem _ hk')), sumEff_cons, St.app_assoc]

theorem sumEff_stat (ref l10n : List Ent) (v : Key → Verdict) (π : Stats → Nat)
    (hadd : ∀ a b, π (a.add b) = π a + π b) (h0 : π {} = 0) (ks : List Key) :
    π (sumEff ref l10n v ks).stats = (ks.map (fun k => π (effK ref l10n v k).stats)).sum := by
  induction ks with
  | nil => simp [sumEff_nil, St.zero, h0]
  | cons k ks ih => rw [sumEff_cons, St.app, hadd, ih, List.map_cons, List.sum_cons]

theorem sumEff_notes (ref l10n : List Ent) (v : Key → Verdict) (ks : List Key) :
    (sumEff ref l10n v ks).notes = ks.flatMap (fun k => (effK ref l10n v k).notes) := by
  induction ks with
  | nil => simp [sumEff_nil, St.zero]
  | cons k ks ih => rw [sumEff_cons, St.app, ih, List.flatMap_cons]

theorem sum_ite_one {α : Type} (p : α → Bool) (ks : List α) :
    (ks.map (fun k => if p k then 1 else 0)).sum = (ks.filter p).length := by
  induction ks with
  | nil => rfl
  | cons k ks ih =>
    rw [List.map_cons, List.sum_cons, ih, List.filter_cons]
    cases p k <;> simp <;> omega

theorem sum_ite_w {α : Type} (p : α → Bool) (w : α → Nat) (ks : List α) :
    (ks.map (fun k => if p k then w k else 0)).sum = ((ks.filter p).map w).sum := by
  induction ks with
  | nil => rfl
  | cons k ks ih =>
    rw [List.map_cons, List.sum_cons, ih, List.filter_cons]
    cases p k <;> simp

/-- the keys yielded by the diff of the two key lists, in the order of the loop -/
def diffKeys (ref l10n : List Ent) : List Key :=
  (addRemove (ref.map (·.key)) (l10n.map (·.key))).map (·.2)

/-- the notifications raised for duplicate keys before the loop starts -/
def dupNotes (ref l10n : List Ent) : List Note :=
  (findDuplicates ref).map Note.warning ++ (findDuplicates l10n).map Note.error

theorem foldl_notify (ms : List Msg) (f : Msg → Note) (st : St) :
    ms.foldl (fun st m => notifyMsg st (f m)) st = { stats := st.stats, notes := st.notes ++ ms.map f } := by
  induction ms generalizing st with
  | nil => simp
  | cons m ms ih => rw [List.foldl_cons, ih]; simp [notifyMsg]

/-- closed form of the whole comparison, for every filter: it never raises -/
theorem compare_eq (ref l10n : List Ent) (v : Key → Verdict) :
    compareEntities ref l10n v = .ok
      { updates := [(sumEff ref l10n v (diffKeys ref l10n)).stats.toDict],
        notes := dupNotes ref l10n ++ (sumEff ref l10n v (diffKeys ref l10n)).notes } := by
  unfold compareEntities
  simp only [foldl_notify]
  rw [addRemove_eq_map_lab, foldlM_step]
  · simp [St.app, Stats.zero_add, diffKeys, dupNotes, bind, Except.bind, pure, Except.pure]
  · intro k hk
    exact (addRemove_keys_mem_gen _ _ k).1 hk

theorem diffKeys_nodup (ref l10n : List Ent) : (diffKeys ref l10n).Nodup :=
  addRemove_keys_nodup_gen _ _

theorem mem_diffKeys (ref l10n : List Ent) (k : Key) :
    k ∈ diffKeys ref l10n ↔ k ∈ ref.map (·.key) ∨ k ∈ l10n.map (·.key) :=
  addRemove_keys_mem_gen _ _ k

/-! ### nothing filtered: counters and notifications per class -/

/-- `k` is of class `c` -/
def isCls (ref l10n : List Ent) (c : Cls) (k : Key) : Bool := decide (classOf ref l10n k = c)

/-- first occurrences of a key list (a duplicate-free list with the same members) -/
def distinct (ks : List Key) : List Key := ks.foldl AR.ins []

theorem distinct_nodup (ks : List Key) : (distinct ks).Nodup := AR.foldl_ins_nodup _ _ List.nodup_nil

theorem mem_distinct (ks : List Key) (k : Key) : k ∈ distinct ks ↔ k ∈ ks := by
  rw [distinct, AR.mem_foldl_ins]; simp

theorem distinct_of_nodup (ks : List Key) (h : ks.Nodup) : distinct ks = ks := by
  have key : ∀ (xs acc : List Key), (acc ++ xs).Nodup → xs.foldl AR.ins acc = acc ++ xs := by
    intro xs
    induction xs with
    | nil => intro acc _; simp
    | cons x xs ih =>
      intro acc hn
      have hx : acc.contains x = false := by
        rw [List.nodup_append] at hn
        have := hn.2.2
        simp only [List.contains_eq_mem, decide_eq_false_iff_not]
        intro hxa
        exact this x hxa x List.mem_cons_self rfl
      rw [List.foldl_cons, AR.ins, hx]
      simp only [Bool.false_eq_true, if_false]
      rw [ih (acc ++ [x]) (by simpa using hn)]
      simp
  have := key ks [] (by simpa using h)
  simpa [distinct] using this

theorem eff_noFilter (ref l10n : List Ent) (k : Key) :
    let e := effK ref l10n noFilter k
    e.stats.missing = (if isCls ref l10n .missing k then 1 else 0) ∧
    e.stats.missing_w = (if isCls ref l10n .missing k then wordsOf ref k else 0) ∧
    e.stats.report = 0 ∧
    e.stats.obsolete = (if isCls ref l10n .obsolete k then 1 else 0) ∧
    e.stats.changed = (if isCls ref l10n .changed k then 1 else 0) ∧
    e.stats.changed_w = (if isCls ref l10n .changed k then wordsOf ref k else 0) ∧
    e.stats.unchanged = (if isCls ref l10n .unchanged k then 1 else 0) ∧
    e.stats.unchanged_w = (if isCls ref l10n .unchanged k then wordsOf ref k else 0) ∧
    e.stats.keys = (if isCls ref l10n .binding k then 1 else 0) ∧
    e.notes.filterMap (fun n => match n with | .missingEntity k => some k | _ => none)
      = (if isCls ref l10n .missing k then [k] else []) ∧
    e.notes.filterMap (fun n => match n with | .obsoleteEntity k => some k | _ => none)
      = (if isCls ref l10n .obsolete k then [k] else []) := by
  obtain ⟨c, hc⟩ : ∃ c, classOf ref l10n k = c := ⟨_, rfl⟩
  simp only [effK, isCls, noFilter, hc]
  cases c <;> simp [St.zero]

theorem flatMap_ite_singleton {α : Type} (p : α → Bool) (ks : List α) :
    ks.flatMap (fun k => if p k then [k] else []) = ks.filter p := by
  induction ks with
  | nil => rfl
  | cons k ks ih =>
    rw [List.flatMap_cons, ih, List.filter_cons]
    cases p k <;> simp

theorem sum_zero {α : Type} (ks : List α) : (ks.map (fun _ => 0)).sum = 0 := by
  induction ks with
  | nil => rfl
  | cons k ks ih => simp [ih]

theorem dupNotes_missing (ref l10n : List Ent) :
    (dupNotes ref l10n).filterMap (fun n => match n with | .missingEntity k => some k | _ => none) = [] ∧
    (dupNotes ref l10n).filterMap (fun n => match n with | .obsoleteEntity k => some k | _ => none) = [] := by
  simp [dupNotes, List.filterMap_append, List.filterMap_map, Function.comp_def]

/-- all counters and both key lists of a comparison with nothing filtered, over the diff's key list -/
theorem compare_noFilter (ref l10n : List Ent) :
    ∃ s : Stats, ∃ notes : List Note,
      compareEntities ref l10n noFilter = .ok { updates := [s.toDict], notes := notes } ∧
      (Report.missingKeys { updates := [s.toDict], notes := notes }) = (diffKeys ref l10n).filter (isCls ref l10n .missing) ∧
      (Report.obsoleteKeys { updates := [s.toDict], notes := notes }) = (diffKeys ref l10n).filter (isCls ref l10n .obsolete) ∧
      s.missing = ((diffKeys ref l10n).filter (isCls ref l10n .missing)).length ∧
      s.missing_w = (((diffKeys ref l10n).filter (isCls ref l10n .missing)).map (wordsOf ref)).sum ∧
      s.report = 0 ∧
      s.obsolete = ((diffKeys ref l10n).filter (isCls ref l10n .obsolete)).length ∧
      s.changed = ((diffKeys ref l10n).filter (isCls ref l10n .changed)).length ∧
      s.changed_w = (((diffKeys ref l10n).filter (isCls ref l10n .changed)).map (wordsOf ref)).sum ∧
      s.unchanged = ((diffKeys ref l10n).filter (isCls ref l10n .unchanged)).length ∧
      s.unchanged_w = (((diffKeys ref l10n).filter (isCls ref l10n .unchanged)).map (wordsOf ref)).sum ∧
      s.keys = ((diffKeys ref l10n).filter (isCls ref l10n .binding)).length := by
  refine ⟨_, _, compare_eq ref l10n noFilter, ?_, ?_, ?_, ?_, ?_, ?_, ?_, ?_, ?_, ?_, ?_⟩
  · simp only [Report.missingKeys, List.filterMap_append, (dupNotes_missing ref l10n).1, List.nil_append,
      sumEff_notes, List.filterMap_flatMap]
    rw [← flatMap_ite_singleton]
    congr 1
    funext k
    exact (eff_noFilter ref l10n k).2.2.2.2.2.2.2.2.2.1
  · simp only [Report.obsoleteKeys, List.filterMap_append, (dupNotes_missing ref l10n).2, List.nil_append,
      sumEff_notes, List.filterMap_flatMap]
    rw [← flatMap_ite_singleton]
    congr 1
    funext k
    exact (eff_noFilter ref l10n k).2.2.2.2.2.2.2.2.2.2
  · rw [sumEff_stat ref l10n noFilter (·.missing) (fun _ _ => rfl) rfl, ← sum_ite_one]
    congr 1; apply List.map_congr_left; intro k _
    exact (eff_noFilter ref l10n k).1
  · rw [sumEff_stat ref l10n noFilter (·.missing_w) (fun _ _ => rfl) rfl, ← sum_ite_w]
    congr 1; apply List.map_congr_left; intro k _
    exact (eff_noFilter ref l10n k).2.1
  · rw [sumEff_stat ref l10n noFilter (·.report) (fun _ _ => rfl) rfl, ← sum_zero (diffKeys ref l10n)]
    congr 1; apply List.map_congr_left; intro k _
    exact (eff_noFilter ref l10n k).2.2.1
  · rw [sumEff_stat ref l10n noFilter (·.obsolete) (fun _ _ => rfl) rfl, ← sum_ite_one]
    congr 1; apply List.map_congr_left; intro k _
    exact (eff_noFilter ref l10n k).2.2.2.1
  · rw [sumEff_stat ref l10n noFilter (·.changed) (fun _ _ => rfl) rfl, ← sum_ite_one]
    congr 1; apply List.map_congr_left; intro k _
    exact (eff_noFilter ref l10n k).2.2.2.2.1
  · rw [sumEff_stat ref l10n noFilter (·.changed_w) (fun _ _ => rfl) rfl, ← sum_ite_w]
    congr 1; apply List.map_congr_left; intro k _
    exact (eff_noFilter ref l10n k).2.2.2.2.2.1
  · rw [sumEff_stat ref l10n noFilter (·.unchanged) (fun _ _ => rfl) rfl, ← sum_ite_one]
    congr 1; apply List.map_congr_left; intro k _
    exact (eff_noFilter ref l10n k).2.2.2.2.2.2.1
  · rw [sumEff_stat ref l10n noFilter (·.unchanged_w) (fun _ _ => rfl) rfl, ← sum_ite_w]
    congr 1; apply List.map_congr_left; intro k _
    exact (eff_noFilter ref l10n k).2.2.2.2.2.2.2.1
  · rw [sumEff_stat ref l10n noFilter (·.keys) (fun _ _ => rfl) rfl, ← sum_ite_one]
    congr 1; apply List.map_congr_left; intro k _
    exact (eff_noFilter ref l10n k).2.2.2.2.2.2.2.2.1

/-! ### the classes in terms of the two files -/

theorem classOf_missing (ref l10n : List Ent) (k : Key) :
    classOf ref l10n k = .missing ↔ ∃ a, lastEnt ref k = some a ∧ a.junk = false ∧ lastEnt l10n k = none := by
  unfold classOf
  cases lastEnt ref k <;> cases lastEnt l10n k <;> simp <;> (repeat' split) <;> simp_all

theorem classOf_refJunk (ref l10n : List Ent) (k : Key) :
    classOf ref l10n k = .refJunk ↔ ∃ a, lastEnt ref k = some a ∧ a.junk = true ∧ lastEnt l10n k = none := by
  unfold classOf
  cases lastEnt ref k <;> cases lastEnt l10n k <;> simp <;> (repeat' split) <;> simp_all

theorem classOf_obsolete (ref l10n : List Ent) (k : Key) :
    classOf ref l10n k = .obsolete ↔ ∃ b, lastEnt l10n k = some b ∧ b.junk = false ∧ lastEnt ref k = none := by
  unfold classOf
  cases lastEnt ref k <;> cases lastEnt l10n k <;> simp <;> (repeat' split) <;> simp_all

/-- a shared key falls in exactly one of the three shared classes, by the rule of the loop -/
theorem classOf_shared (ref l10n : List Ent) (k : Key) (a b : Ent)
    (ha : lastEnt ref k = some a) (hb : lastEnt l10n k = some b) :
    classOf ref l10n k =
      (if keyMatch k then .binding else if a.cls == b.cls then .unchanged else .changed) := by
  unfold classOf
  rw [ha, hb]

theorem classOf_of_ref (ref l10n : List Ent) (k : Key) (hk : k ∈ ref.map (·.key)) :
    classOf ref l10n k = .missing ∨ classOf ref l10n k = .refJunk ∨ classOf ref l10n k = .binding ∨
      classOf ref l10n k = .unchanged ∨ classOf ref l10n k = .changed := by
  have hn := lastEnt_none ref k
  unfold classOf
  cases hA : lastEnt ref k with
  | none => rw [hA] at hn; exact absurd hk (hn.1 rfl)
  | some a =>
    cases lastEnt l10n k with
    | none => simp only []; split <;> simp
    | some b => simp only []; (repeat' split) <;> simp

theorem mem_ref_of_class (ref l10n : List Ent) (k : Key) (c : Cls)
    (hc : c = .missing ∨ c = .refJunk ∨ c = .binding ∨ c = .unchanged ∨ c = .changed)
    (h : classOf ref l10n k = c) : k ∈ ref.map (·.key) := by
  have hn := lastEnt_none ref k
  apply Classical.byContradiction
  intro hk
  have hA := hn.2 hk
  unfold classOf at h
  rw [hA] at h
  cases hB : lastEnt l10n k with
  | none => rw [hB] at h; rcases hc with rfl | rfl | rfl | rfl | rfl <;> simp at h
  | some b =>
    rw [hB] at h
    simp only [] at h
    split at h <;> rcases hc with rfl | rfl | rfl | rfl | rfl <;> simp at h

theorem mem_l10n_of_class (ref l10n : List Ent) (k : Key) (c : Cls)
    (hc : c = .obsolete ∨ c = .l10nJunk ∨ c = .binding ∨ c = .unchanged ∨ c = .changed)
    (h : classOf ref l10n k = c) : k ∈ l10n.map (·.key) := by
  have hn := lastEnt_none l10n k
  apply Classical.byContradiction
  intro hk
  have hB := hn.2 hk
  unfold classOf at h
  rw [hB] at h
  cases hA : lastEnt ref k with
  | none => rw [hA] at h; rcases hc with rfl | rfl | rfl | rfl | rfl <;> simp at h
  | some a =>
    rw [hA] at h
    simp only [] at h
    split at h <;> rcases hc with rfl | rfl | rfl | rfl | rfl <;> simp at h

/-- two duplicate-free lists that agree on the members satisfying `p` have the same `p`-members -/
theorem filter_perm_of {α : Type} (p : α → Bool) (A B : List α) (hA : A.Nodup) (hB : B.Nodup)
    (h : ∀ k, p k = true → (k ∈ A ↔ k ∈ B)) : (A.filter p).Perm (B.filter p) := by
  rw [List.perm_ext_iff_of_nodup (hA.filter p) (hB.filter p)]
  intro k
  rw [List.mem_filter, List.mem_filter]
  constructor
  · rintro ⟨h1, h2⟩; exact ⟨(h k h2).1 h1, h2⟩
  · rintro ⟨h1, h2⟩; exact ⟨(h k h2).2 h1, h2⟩

/-- the diff's keys of a class found in the reference = the reference's distinct keys of that class -/
theorem diff_filter_ref (ref l10n : List Ent) (c : Cls)
    (hc : c = .missing ∨ c = .refJunk ∨ c = .binding ∨ c = .unchanged ∨ c = .changed)
    (DR : List Key) (hn : DR.Nodup) (hm : ∀ k, k ∈ DR ↔ k ∈ ref.map (·.key)) :
    ((diffKeys ref l10n).filter (isCls ref l10n c)).Perm (DR.filter (isCls ref l10n c)) := by
  apply filter_perm_of _ _ _ (diffKeys_nodup ref l10n) hn
  intro k hk
  have hk' : classOf ref l10n k = c := by simpa [isCls] using hk
  have := mem_ref_of_class ref l10n k c hc hk'
  rw [mem_diffKeys, hm]
  exact ⟨fun _ => this, fun h => .inl h⟩

theorem diff_filter_l10n (ref l10n : List Ent) (c : Cls)
    (hc : c = .obsolete ∨ c = .l10nJunk ∨ c = .binding ∨ c = .unchanged ∨ c = .changed)
    (DL : List Key) (hn : DL.Nodup) (hm : ∀ k, k ∈ DL ↔ k ∈ l10n.map (·.key)) :
    ((diffKeys ref l10n).filter (isCls ref l10n c)).Perm (DL.filter (isCls ref l10n c)) := by
  apply filter_perm_of _ _ _ (diffKeys_nodup ref l10n) hn
  intro k hk
  have hk' : classOf ref l10n k = c := by simpa [isCls] using hk
  have := mem_l10n_of_class ref l10n k c hc hk'
  rw [mem_diffKeys, hm]
  exact ⟨fun _ => this, fun h => .inr h⟩

/-- counting a five-valued classification -/
theorem part4 (X : List Key) (f : Key → Cls)
    (h : ∀ k ∈ X, f k = .missing ∨ f k = .refJunk ∨ f k = .binding ∨ f k = .unchanged ∨ f k = .changed) :
    (X.filter (fun k => decide (f k = .missing))).length + (X.filter (fun k => decide (f k = .changed))).length
      + (X.filter (fun k => decide (f k = .unchanged))).length + (X.filter (fun k => decide (f k = .binding))).length
      = (X.filter (fun k => !decide (f k = .refJunk))).length := by
  induction X with
  | nil => rfl
  | cons x X ih =>
    have ih' := ih (fun k hk => h k (List.mem_cons_of_mem _ hk))
    simp only [List.filter_cons]
    rcases h x List.mem_cons_self with hx | hx | hx | hx | hx <;> simp [hx] <;> omega

theorem part3w (X : List Key) (f : Key → Cls) (w : Key → Nat) :
    ((X.filter (fun k => decide (f k = .missing))).map w).sum + ((X.filter (fun k => decide (f k = .changed))).map w).sum
      + ((X.filter (fun k => decide (f k = .unchanged))).map w).sum
      = ((X.filter (fun k => decide (f k = .missing) || decide (f k = .changed) || decide (f k = .unchanged))).map w).sum := by
  induction X with
  | nil => rfl
  | cons x X ih =>
    simp only [List.filter_cons]
    cases hx : f x <;> simp <;> omega

/-! ### duplicate-free files -/

theorem nodup_map_inj {α β : Type} (f : α → β) (es : List α) (h : (es.map f).Nodup) (a b : α)
    (ha : a ∈ es) (hb : b ∈ es) (e : f a = f b) : a = b := by
  induction es with
  | nil => simp at ha
  | cons x xs ih =>
    rw [List.map_cons, List.nodup_cons] at h
    rw [List.mem_cons] at ha hb
    rcases ha with rfl | ha <;> rcases hb with rfl | hb
    · rfl
    · exact absurd (e ▸ List.mem_map_of_mem hb) h.1
    · exact absurd (e ▸ List.mem_map_of_mem ha) h.1
    · exact ih h.2 ha hb

theorem lastEnt_of_nodup (es : List Ent) (h : (es.map (·.key)).Nodup) (e : Ent) (he : e ∈ es) :
    lastEnt es e.key = some e := by
  cases hl : lastEnt es e.key with
  | none => exact absurd (List.mem_map_of_mem he) ((lastEnt_none es e.key).1 hl)
  | some a =>
    obtain ⟨h1, h2⟩ := lastEnt_key es e.key a hl
    congr 1
    exact nodup_map_inj (·.key) es h a e h2 he h1

theorem diffKeys_filter_ref (ref l10n : List Ent) (hr : (ref.map (·.key)).Nodup) (hl : (l10n.map (·.key)).Nodup) :
    (diffKeys ref l10n).filter (fun k => (ref.map (·.key)).contains k) = ref.map (·.key) := by
  have h := AR.addRemove_eq_spec (ref.map (·.key)) (l10n.map (·.key)) hr hl
  have h1 : ((addRemove (ref.map (·.key)) (l10n.map (·.key))).filter (fun p => p.1 != Label.add)).map (·.2)
      = ref.map (·.key) := by
    rw [h]; exact AR.spec_left_order _ _
  rw [diffKeys, List.filter_map]
  refine Eq.trans ?_ h1
  congr 1
  apply List.filter_congr
  intro p hp
  have := addRemove_labels_gen _ _ p hp
  simp only [Function.comp, this, lab]
  cases (ref.map (·.key)).contains p.2 <;> cases (l10n.map (·.key)).contains p.2 <;> rfl

theorem part3 (X : List Key) (f : Key → Cls)
    (h : ∀ k ∈ X, f k = .binding ∨ f k = .unchanged ∨ f k = .changed) :
    (X.filter (fun k => decide (f k = .binding))).length + (X.filter (fun k => decide (f k = .unchanged))).length
      + (X.filter (fun k => decide (f k = .changed))).length = X.length := by
  induction X with
  | nil => rfl
  | cons x X ih =>
    have ih' := ih (fun k hk => h k (List.mem_cons_of_mem _ hk))
    simp only [List.filter_cons, List.length_cons]
    rcases h x List.mem_cons_self with hx | hx | hx <;> simp [hx] <;> omega

theorem foldl_words (es : List Ent) (n : Nat) :
    es.foldl (fun w e => w + e.words) n = n + (es.map (·.words)).sum := by
  induction es generalizing n with
  | nil => simp
  | cons e es ih => rw [List.foldl_cons, ih, List.map_cons, List.sum_cons]; omega

/-- duplicate-free reference: the class of an entity's key, read off the entity -/
theorem isCls_missing_of_nodup (ref l10n : List Ent) (hr : (ref.map (·.key)).Nodup) (e : Ent) (he : e ∈ ref) :
    isCls ref l10n .missing e.key = (!e.junk && !(l10n.map (·.key)).contains e.key) := by
  have h1 := lastEnt_of_nodup ref hr e he
  have h2 := lastEnt_isSome l10n e.key
  rw [← h2, isCls, classOf, h1]
  cases hL : lastEnt l10n e.key <;> cases hj : e.junk <;> simp [hj] <;> (repeat' split) <;> simp_all

theorem isCls_refJunk_of_nodup (ref l10n : List Ent) (hr : (ref.map (·.key)).Nodup) (e : Ent) (he : e ∈ ref) :
    isCls ref l10n .refJunk e.key = (e.junk && !(l10n.map (·.key)).contains e.key) := by
  have h1 := lastEnt_of_nodup ref hr e he
  have h2 := lastEnt_isSome l10n e.key
  rw [← h2, isCls, classOf, h1]
  cases hL : lastEnt l10n e.key <;> cases hj : e.junk <;> simp [hj] <;> (repeat' split) <;> simp_all

theorem isCls_obsolete_of_nodup (ref l10n : List Ent) (hl : (l10n.map (·.key)).Nodup) (e : Ent) (he : e ∈ l10n) :
    isCls ref l10n .obsolete e.key = (!e.junk && !(ref.map (·.key)).contains e.key) := by
  have h1 := lastEnt_of_nodup l10n hl e he
  have h2 := lastEnt_isSome ref e.key
  rw [← h2, isCls, classOf, h1]
  cases hL : lastEnt ref e.key <;> cases hj : e.junk <;> simp [hj] <;> (repeat' split) <;> simp_all

end Cmp

/-
Helper lemmas for C07: the XmlContent automaton accepts every ValueGrammar value and is
driven into its dead state by the breaking edits at every content position.
-/
import CLModel.Checks.XmlGrammar
namespace XmlContent

theorem run_append (d : List Text) (s : St) (a b : Text) :
    run d s (a ++ b) = (run d s a).bind (fun s' => run d s' b) := by
  induction a generalizing s with
  | nil => simp [run]
  | cons c cs ih =>
    simp only [List.cons_append, run]
    cases step d s c with
    | none => simp
    | some s' => simpa using ih s'

theorem run_append_of {d : List Text} {s s' : St} {a : Text} (h : run d s a = some s') (b : Text) :
    run d s (a ++ b) = run d s' b := by
  rw [run_append, h]; rfl

theorem run_cons_of {d : List Text} {s s' : St} {c : Nat} (h : step d s c = some s') (b : Text) :
    run d s (c :: b) = run d s' b := by
  simp [run, h]

theorem run_none (d : List Text) (s : St) (a b : Text) (h : run d s a = none) : run d s (a ++ b) = none := by
  rw [run_append, h]; rfl

/-! ### character class facts -/

theorem nameChar_ne {c : Nat} (h : isNameChar c = true) :
    c ≠ 59 ∧ c ≠ 62 ∧ c ≠ 47 ∧ c ≠ 61 ∧ c ≠ 63 ∧ c ≠ 38 ∧ c ≠ 60 ∧ c ≠ 32 ∧ c ≠ 9 ∧ c ≠ 10 ∧ c ≠ 13 ∧ c ≠ 33 ∧ c ≠ 35 := by
  refine ⟨?_, ?_, ?_, ?_, ?_, ?_, ?_, ?_, ?_, ?_, ?_, ?_, ?_⟩ <;> (rintro rfl; revert h; decide)

theorem nameStart_nameChar {c : Nat} (h : isNameStart c = true) : isNameChar c = true := by
  simp [isNameChar, h]

theorem nameChar_notS {c : Nat} (h : isNameChar c = true) : isS c = false := by
  have := nameChar_ne h
  simp [isS]; omega

theorem isS_ne {c : Nat} (h : isS c = true) : c ≠ 62 ∧ c ≠ 47 ∧ c ≠ 61 ∧ c ≠ 34 ∧ c ≠ 39 ∧ c ≠ 63 ∧ isNameStart c = false ∧ isNameChar c = false := by
  simp [isS] at h
  rcases h with ((rfl | rfl) | rfl) | rfl <;> decide

/-- a loop state: every character of `cs` satisfying `p` keeps the automaton in mode `m` -/
theorem run_loop (d : List Text) (m : Mode) (stk : List Text) (p : Nat → Bool)
    (hstep : ∀ c, p c = true → step d ⟨m, stk⟩ c = some ⟨m, stk⟩) :
    ∀ cs : Text, cs.all p = true → run d ⟨m, stk⟩ cs = some ⟨m, stk⟩ := by
  intro cs
  induction cs with
  | nil => intro _; rfl
  | cons c cs ih =>
    intro h
    simp only [List.all_cons, Bool.and_eq_true] at h
    rw [run_cons_of (hstep c h.1), ih h.2]

/-- a name-accumulating state -/
theorem run_acc (d : List Text) (mk : Text → Mode) (stk : List Text)
    (hstep : ∀ c acc, isNameChar c = true → step d ⟨mk acc, stk⟩ c = some ⟨mk (c :: acc), stk⟩) :
    ∀ (cs acc : Text), cs.all isNameChar = true →
      run d ⟨mk acc, stk⟩ cs = some ⟨mk (cs.reverse ++ acc), stk⟩ := by
  intro cs
  induction cs with
  | nil => intro acc _; simp [run]
  | cons c cs ih =>
    intro acc h
    simp only [List.all_cons, Bool.and_eq_true] at h
    rw [run_cons_of (hstep c acc h.1), ih _ h.2]
    simp

theorem run_stagName (d stk) (cs acc : Text) (h : cs.all isNameChar = true) :
    run d ⟨.stagName acc, stk⟩ cs = some ⟨.stagName (cs.reverse ++ acc), stk⟩ :=
  run_acc d .stagName stk (fun c acc hc => by
    have := nameChar_ne hc
    simp [step, this.2.1, this.2.2.1, nameChar_notS hc, hc]) cs acc h

theorem run_etagName (d stk) (cs acc : Text) (h : cs.all isNameChar = true) :
    run d ⟨.etagName acc, stk⟩ cs = some ⟨.etagName (cs.reverse ++ acc), stk⟩ :=
  run_acc d .etagName stk (fun c acc hc => by
    have := nameChar_ne hc
    simp [step, this.2.1, nameChar_notS hc, hc]) cs acc h

theorem run_piTarget (d stk) (cs acc : Text) (h : cs.all isNameChar = true) :
    run d ⟨.piTarget acc, stk⟩ cs = some ⟨.piTarget (cs.reverse ++ acc), stk⟩ :=
  run_acc d .piTarget stk (fun c acc hc => by
    have := nameChar_ne hc
    simp [step, this.2.2.2.2.1, nameChar_notS hc, hc]) cs acc h

theorem run_attrName (d stk) (t : Tag) (cs acc : Text) (h : cs.all isNameChar = true) :
    run d ⟨.attrName t acc, stk⟩ cs = some ⟨.attrName t (cs.reverse ++ acc), stk⟩ :=
  run_acc d (.attrName t) stk (fun c acc hc => by
    have := nameChar_ne hc
    simp [step, this.2.2.2.1, nameChar_notS hc, hc]) cs acc h

theorem run_ws_stagWs (d stk) (t : Tag) (ws : Text) (h : ws.all isS = true) :
    run d ⟨.stagWs t, stk⟩ ws = some ⟨.stagWs t, stk⟩ :=
  run_loop d _ stk isS (fun c hc => by have := isS_ne hc; simp [step, this.1, this.2.1, hc]) ws h

theorem run_ws_attrAfterName (d stk) (t : Tag) (a : Text) (ws : Text) (h : ws.all isS = true) :
    run d ⟨.attrAfterName t a, stk⟩ ws = some ⟨.attrAfterName t a, stk⟩ :=
  run_loop d _ stk isS (fun c hc => by have := isS_ne hc; simp [step, this.2.2.1, hc]) ws h

theorem run_ws_attrEq (d stk) (t : Tag) (ws : Text) (h : ws.all isS = true) :
    run d ⟨.attrEq t, stk⟩ ws = some ⟨.attrEq t, stk⟩ :=
  run_loop d _ stk isS (fun c hc => by have := isS_ne hc; simp [step, this.2.2.2.1, this.2.2.2.2.1, hc]) ws h

theorem run_ws_etagWs (d stk) (n : Text) (ws : Text) (h : ws.all isS = true) :
    run d ⟨.etagWs n, stk⟩ ws = some ⟨.etagWs n, stk⟩ :=
  run_loop d _ stk isS (fun c hc => by have := isS_ne hc; simp [step, this.1, hc]) ws h

theorem run_entName (d : List Text) (r : Ret) (stk : List Text) :
    ∀ (cs acc : Text), cs.all isNameChar = true →
      run d ⟨.entName r acc, stk⟩ cs = some ⟨.entName r (cs.reverse ++ acc), stk⟩ := by
  intro cs
  induction cs with
  | nil => intro acc _; simp [run]
  | cons c cs ih =>
    intro acc h
    simp only [List.all_cons, Bool.and_eq_true] at h
    have hc := nameChar_ne h.1
    have : step d ⟨.entName r acc, stk⟩ c = some ⟨.entName r (c :: acc), stk⟩ := by
      simp [step, hc.1, h.1]
    rw [run_cons_of this, ih _ h.2]
    simp

theorem run_ref_name (d : List Text) (r : Ret) (stk : List Text) (n : Text)
    (hn : isName n = true) (hd : (d.contains n || predefined.contains n) = true) :
    run d ⟨.amp r, stk⟩ (n ++ [59]) = some (back r stk) := by
  cases n with
  | nil => simp [isName] at hn
  | cons c cs =>
    simp only [isName, Bool.and_eq_true] at hn
    have hc := nameChar_ne (nameStart_nameChar hn.1)
    have h1 : step d ⟨.amp r, stk⟩ c = some ⟨.entName r [c], stk⟩ := by
      simp [step, hc.2.2.2.2.2.2.2.2.2.2.2.2, hn.1]
    rw [List.cons_append, run_cons_of h1, run_append_of (run_entName d r stk cs [c] hn.2)]
    have h2 : step d ⟨.entName r (cs.reverse ++ [c]), stk⟩ 59 = some (back r stk) := by
      have : (cs.reverse ++ [c]).reverse = c :: cs := by simp
      simp only [step, this]
      rw [if_pos (by decide), if_pos hd]
    rw [run_cons_of h2]; rfl

theorem digit_ne {c : Nat} (h : isDigit c = true) : c ≠ 59 ∧ c ≠ 120 := by
  constructor <;> (rintro rfl; revert h; decide)

theorem hex_ne {c : Nat} (h : (hexVal c).isSome = true) : c ≠ 59 := by
  rintro rfl; revert h; decide

theorem run_crDec (d : List Text) (r : Ret) (stk : List Text) :
    ∀ (ds : Text) (n : Nat), ds.all isDigit = true →
      run d ⟨.crDec r n, stk⟩ ds = some ⟨.crDec r (decAcc n ds), stk⟩ := by
  intro ds
  induction ds with
  | nil => intro n _; simp [run, decAcc]
  | cons c cs ih =>
    intro n h
    simp only [List.all_cons, Bool.and_eq_true] at h
    have : step d ⟨.crDec r n, stk⟩ c = some ⟨.crDec r (min (n * 10 + (c - 48)) 0x110000), stk⟩ := by
      simp [step, (digit_ne h.1).1, h.1]
    rw [run_cons_of this, ih _ h.2]
    simp [decAcc]

theorem run_crHex (d : List Text) (r : Ret) (stk : List Text) :
    ∀ (hs : Text) (n : Nat), hs.all (fun c => (hexVal c).isSome) = true →
      run d ⟨.crHex r n, stk⟩ hs = some ⟨.crHex r (hexAcc n hs), stk⟩ := by
  intro hs
  induction hs with
  | nil => intro n _; simp [run, hexAcc]
  | cons c cs ih =>
    intro n h
    simp only [List.all_cons, Bool.and_eq_true] at h
    obtain ⟨x, hx⟩ := Option.isSome_iff_exists.mp h.1
    have : step d ⟨.crHex r n, stk⟩ c = some ⟨.crHex r (min (n * 16 + x) 0x110000), stk⟩ := by
      simp [step, hex_ne h.1, hx]
    rw [run_cons_of this, ih _ h.2]
    simp [hexAcc, hx]

/-- every reference is consumed from the state after `&`, returning to where it started -/
theorem run_ref (d : List Text) (r : Ret) (stk : List Text) {t : Text} (h : RefText d t) :
    ∃ t', t = 38 :: t' ∧ run d ⟨.amp r, stk⟩ t' = some (back r stk) := by
  cases h with
  | ent n hn hd => exact ⟨n ++ [59], rfl, run_ref_name d r stk n hn hd⟩
  | dec d0 ds h0 hds hok =>
    refine ⟨35 :: d0 :: ds ++ [59], rfl, ?_⟩
    have h1 : step d ⟨.amp r, stk⟩ 35 = some ⟨.crStart r, stk⟩ := by simp [step]
    have h2 : step d ⟨.crStart r, stk⟩ d0 = some ⟨.crDec r (d0 - 48), stk⟩ := by
      simp [step, (digit_ne h0).2, h0]
    have h3 : step d ⟨.crDec r (decAcc (d0 - 48) ds), stk⟩ 59 = some (back r stk) := by
      simp [step, hok]
    rw [List.cons_append, run_cons_of h1, List.cons_append, run_cons_of h2,
      run_append_of (run_crDec d r stk ds _ hds), run_cons_of h3]; rfl
  | hex h0 x0 hs hh0 hhs hok =>
    refine ⟨35 :: 120 :: h0 :: hs ++ [59], rfl, ?_⟩
    have h1 : step d ⟨.amp r, stk⟩ 35 = some ⟨.crStart r, stk⟩ := by simp [step]
    have h2 : step d ⟨.crStart r, stk⟩ 120 = some ⟨.crHexStart r, stk⟩ := by simp [step]
    have h3 : step d ⟨.crHexStart r, stk⟩ h0 = some ⟨.crHex r x0, stk⟩ := by simp [step, hh0]
    have h4 : step d ⟨.crHex r (hexAcc x0 hs), stk⟩ 59 = some (back r stk) := by
      simp [step, hok]
    rw [List.cons_append, run_cons_of h1, List.cons_append, run_cons_of h2, List.cons_append, run_cons_of h3,
      run_append_of (run_crHex d r stk hs _ hhs), run_cons_of h4]; rfl

theorem run_attrVal (d : List Text) (t : Tag) (q : Nat) (hq : q = 34 ∨ q = 39) (stk : List Text) {val : Text}
    (h : AttrValText d q val) : run d ⟨.attrVal t q, stk⟩ val = some ⟨.attrVal t q, stk⟩ := by
  induction h with
  | nil => rfl
  | char c v hc h60 h38 hcq _ ih =>
    have : step d ⟨.attrVal t q, stk⟩ c = some ⟨.attrVal t q, stk⟩ := by
      simp [step, hcq, h60, h38, hc]
    rw [run_cons_of this, ih]
  | ref r v hr _ ih =>
    obtain ⟨t', rfl, hrun⟩ := run_ref d (.attr t q) stk hr
    have h1 : step d ⟨.attrVal t q, stk⟩ 38 = some ⟨.amp (.attr t q), stk⟩ := by
      have : (38 : Nat) ≠ q := by rcases hq with rfl | rfl <;> decide
      simp [step, this]
    rw [List.cons_append, run_cons_of h1, run_append_of hrun]
    exact ih

/-- one attribute specification, read from the state after white space in a start tag -/
theorem run_attr (d : List Text) (stk : List Text) (t : Tag) (a ws1 ws2 ws3 val : Text) (q : Nat)
    (h1 : ws1.all isS = true) (h2 : ws2.all isS = true) (h3 : ws3.all isS = true)
    (ha : isName a = true) (hnew : t.attrs.contains a = false) (hq : q = 34 ∨ q = 39)
    (hval : AttrValText d q val) :
    run d ⟨.stagWs t, stk⟩ (ws1 ++ a ++ ws2 ++ [61] ++ ws3 ++ [q] ++ val ++ [q])
      = some ⟨.stagAfterAttr { t with attrs := a :: t.attrs }, stk⟩ := by
  cases a with
  | nil => simp [isName] at ha
  | cons c cs =>
    simp only [isName, Bool.and_eq_true] at ha
    have hc := nameChar_ne (nameStart_nameChar ha.1)
    have hadd : addAttr t (c :: cs) = some { t with attrs := (c :: cs) :: t.attrs } := by
      unfold addAttr; rw [if_neg (by rw [hnew]; decide)]
    have s1 : step d ⟨.stagWs t, stk⟩ c = some ⟨.attrName t [c], stk⟩ := by
      simp [step, hc.2.1, hc.2.2.1, nameChar_notS (nameStart_nameChar ha.1), ha.1]
    have hrev : (cs.reverse ++ [c]).reverse = c :: cs := by simp
    -- from the end of the name to the state after `=`
    have s2 : run d ⟨.attrName t (cs.reverse ++ [c]), stk⟩ (ws2 ++ [61])
        = some ⟨.attrEq { t with attrs := (c :: cs) :: t.attrs }, stk⟩ := by
      cases ws2 with
      | nil =>
        have : step d ⟨.attrName t (cs.reverse ++ [c]), stk⟩ 61
            = some ⟨.attrEq { t with attrs := (c :: cs) :: t.attrs }, stk⟩ := by
          simp only [step, hrev, hadd]; simp
        simp [run, this]
      | cons s ws2' =>
        simp only [List.all_cons, Bool.and_eq_true] at h2
        have hs := isS_ne h2.1
        have e1 : step d ⟨.attrName t (cs.reverse ++ [c]), stk⟩ s = some ⟨.attrAfterName t (c :: cs), stk⟩ := by
          simp only [step, hrev]; simp [hs.2.2.1, h2.1]
        have e2 : step d ⟨.attrAfterName t (c :: cs), stk⟩ 61
            = some ⟨.attrEq { t with attrs := (c :: cs) :: t.attrs }, stk⟩ := by
          simp only [step, hadd]; simp
        rw [List.cons_append, run_cons_of e1, run_append_of (run_ws_attrAfterName d stk t _ ws2' h2.2), run_cons_of e2]; rfl
    have s3 : step d ⟨.attrEq { t with attrs := (c :: cs) :: t.attrs }, stk⟩ q
        = some ⟨.attrVal { t with attrs := (c :: cs) :: t.attrs } q, stk⟩ := by
      rcases hq with rfl | rfl <;> simp [step]
    have s4 : step d ⟨.attrVal { t with attrs := (c :: cs) :: t.attrs } q, stk⟩ q
        = some ⟨.stagAfterAttr { t with attrs := (c :: cs) :: t.attrs }, stk⟩ := by
      simp [step]
    have : ws1 ++ (c :: cs) ++ ws2 ++ [61] ++ ws3 ++ [q] ++ val ++ [q]
        = ws1 ++ (c :: (cs ++ ((ws2 ++ [61]) ++ (ws3 ++ (q :: (val ++ [q])))))) := by simp
    rw [this, run_append_of (run_ws_stagWs d stk t ws1 h1), run_cons_of s1,
      run_append_of (run_attrName d stk t cs [c] ha.2), run_append_of s2,
      run_append_of (run_ws_attrEq d stk _ ws3 h3), run_cons_of s3,
      run_append_of (run_attrVal d _ q hq stk hval), run_cons_of s4]
    rfl

/-- all attribute specifications, read from the state after an attribute value -/
theorem run_attrs (d : List Text) (stk : List Text) (n : Text) {seen seen' : List Text} {attrs : Text}
    (h : AttrsText d seen attrs seen') :
    run d ⟨.stagAfterAttr ⟨n, seen⟩, stk⟩ attrs = some ⟨.stagAfterAttr ⟨n, seen'⟩, stk⟩ := by
  induction h with
  | nil seen => rfl
  | cons seen a s0 ws1 ws2 ws3 q val rest seen' hs0 h1 h2 h3 ha hnew hq hval _ ih =>
    have hs := isS_ne hs0
    have e0 : step d ⟨.stagAfterAttr ⟨n, seen⟩, stk⟩ s0 = some ⟨.stagWs ⟨n, seen⟩, stk⟩ := by
      simp [step, hs.1, hs.2.1, hs0]
    have := run_attr d stk ⟨n, seen⟩ a ws1 ws2 ws3 val q h1 h2 h3 ha hnew hq hval
    have e : s0 :: ws1 ++ a ++ ws2 ++ [61] ++ ws3 ++ [q] ++ val ++ [q] ++ rest
        = s0 :: ((ws1 ++ a ++ ws2 ++ [61] ++ ws3 ++ [q] ++ val ++ [q]) ++ rest) := by simp
    rw [e, run_cons_of e0, run_append_of this]
    exact ih

/-- the two states in which a start tag may end: right after the name, or after an attribute value -/
def TagEnd (t : Tag) (m : Mode) : Prop :=
  m = .stagAfterAttr t ∨ (∃ acc, m = .stagName acc ∧ t = ⟨acc.reverse, []⟩)

theorem tagEnd_ws (d stk) {t : Tag} {m : Mode} (h : TagEnd t m) (s : Nat) (hs : isS s = true) :
    step d ⟨m, stk⟩ s = some ⟨.stagWs t, stk⟩ := by
  have := isS_ne hs
  rcases h with rfl | ⟨acc, rfl, rfl⟩ <;> simp [step, this.1, this.2.1, hs]

theorem tagEnd_gt (d stk) {t : Tag} {m : Mode} (h : TagEnd t m) :
    step d ⟨m, stk⟩ 62 = some ⟨.content 0, t.name :: stk⟩ := by
  rcases h with rfl | ⟨acc, rfl, rfl⟩ <;> simp [step]

theorem tagEnd_slash (d stk) {t : Tag} {m : Mode} (h : TagEnd t m) :
    step d ⟨m, stk⟩ 47 = some ⟨.stagSlash t, stk⟩ := by
  rcases h with rfl | ⟨acc, rfl, rfl⟩ <;> simp [step]

theorem run_tag_gt (d stk) {t : Tag} {m : Mode} (h : TagEnd t m) (ws : Text) (hws : ws.all isS = true) :
    run d ⟨m, stk⟩ (ws ++ [62]) = some ⟨.content 0, t.name :: stk⟩ := by
  cases ws with
  | nil => simp [run, tagEnd_gt d stk h]
  | cons s ws' =>
    simp only [List.all_cons, Bool.and_eq_true] at hws
    have e : step d ⟨.stagWs t, stk⟩ 62 = some ⟨.content 0, t.name :: stk⟩ := by simp [step]
    rw [List.cons_append, run_cons_of (tagEnd_ws d stk h s hws.1), run_append_of (run_ws_stagWs d stk t ws' hws.2),
      run_cons_of e]; rfl

theorem run_tag_slash_gt (d stk) {t : Tag} {m : Mode} (h : TagEnd t m) (ws : Text) (hws : ws.all isS = true) :
    run d ⟨m, stk⟩ (ws ++ [47, 62]) = some ⟨.content 0, stk⟩ := by
  have e2 : step d ⟨.stagSlash t, stk⟩ 62 = some ⟨.content 0, stk⟩ := by simp [step]
  cases ws with
  | nil => simp [run, tagEnd_slash d stk h, e2]
  | cons s ws' =>
    simp only [List.all_cons, Bool.and_eq_true] at hws
    have e : step d ⟨.stagWs t, stk⟩ 47 = some ⟨.stagSlash t, stk⟩ := by simp [step]
    rw [List.cons_append, run_cons_of (tagEnd_ws d stk h s hws.1), run_append_of (run_ws_stagWs d stk t ws' hws.2),
      run_cons_of e, run_cons_of e2]; rfl

/-- the attribute specifications, read right after the element name -/
theorem run_attrs_from_name (d stk) (acc : Text) {attrs : Text} {seen' : List Text}
    (h : AttrsText d [] attrs seen') :
    ∃ m, run d ⟨.stagName acc, stk⟩ attrs = some ⟨m, stk⟩ ∧ TagEnd ⟨acc.reverse, seen'⟩ m := by
  cases h with
  | nil => exact ⟨.stagName acc, rfl, Or.inr ⟨acc, rfl, rfl⟩⟩
  | @cons _ a s0 ws1 ws2 ws3 q val rest _ hs0 h1 h2 h3 ha hnew hq hval hrest =>
    refine ⟨.stagAfterAttr ⟨acc.reverse, seen'⟩, ?_, Or.inl rfl⟩
    have full := run_attrs d stk acc.reverse (AttrsText.cons [] a s0 ws1 ws2 ws3 q val rest seen' hs0 h1 h2 h3 ha hnew hq hval hrest)
    have hs := isS_ne hs0
    have e0 : step d ⟨.stagAfterAttr ⟨acc.reverse, []⟩, stk⟩ s0 = some ⟨.stagWs ⟨acc.reverse, []⟩, stk⟩ := by
      simp [step, hs.1, hs.2.1, hs0]
    have e1 : step d ⟨.stagName acc, stk⟩ s0 = some ⟨.stagWs ⟨acc.reverse, []⟩, stk⟩ := by
      simp [step, hs.1, hs.2.1, hs0]
    simp only [List.cons_append] at full ⊢
    rw [run_cons_of e0] at full
    rw [run_cons_of e1]
    exact full

/-- `<name attrs ws` up to a state in which the tag may end -/
theorem run_stag_head (d stk) (br : Nat) (n : Text) (hn : isName n = true) {attrs : Text} {seen' : List Text}
    (h : AttrsText d [] attrs seen') :
    ∃ m, run d ⟨.content br, stk⟩ (60 :: n ++ attrs) = some ⟨m, stk⟩ ∧ TagEnd ⟨n, seen'⟩ m := by
  cases n with
  | nil => simp [isName] at hn
  | cons c cs =>
    simp only [isName, Bool.and_eq_true] at hn
    have hc := nameChar_ne (nameStart_nameChar hn.1)
    have e0 : step d ⟨.content br, stk⟩ 60 = some ⟨.lt, stk⟩ := by simp [step]
    have e1 : step d ⟨.lt, stk⟩ c = some ⟨.stagName [c], stk⟩ := by
      simp [step, hc.2.2.1, hc.2.2.2.2.1, hc.2.2.2.2.2.2.2.2.2.2.2.1, hn.1]
    obtain ⟨m, hm, ht⟩ := run_attrs_from_name d stk (cs.reverse ++ [c]) h
    refine ⟨m, ?_, by simpa using ht⟩
    rw [List.cons_append, run_cons_of e0, List.cons_append, run_cons_of e1,
      run_append_of (run_stagName d stk cs [c] hn.2)]
    exact hm

/-- end tag `</name ws>` matching the innermost open element -/
theorem run_etag (d stk) (br : Nat) (n ws : Text) (hn : isName n = true) (hws : ws.all isS = true) :
    run d ⟨.content br, n :: stk⟩ ([60, 47] ++ n ++ ws ++ [62]) = some ⟨.content 0, stk⟩ := by
  cases n with
  | nil => simp [isName] at hn
  | cons c cs =>
    simp only [isName, Bool.and_eq_true] at hn
    have e0 : step d ⟨.content br, (c :: cs) :: stk⟩ 60 = some ⟨.lt, (c :: cs) :: stk⟩ := by simp [step]
    have e1 : step d ⟨.lt, (c :: cs) :: stk⟩ 47 = some ⟨.etagStart, (c :: cs) :: stk⟩ := by simp [step]
    have e2 : step d ⟨.etagStart, (c :: cs) :: stk⟩ c = some ⟨.etagName [c], (c :: cs) :: stk⟩ := by simp [step, hn.1]
    have hrev : (cs.reverse ++ [c]).reverse = c :: cs := by simp
    have e3 : run d ⟨.etagName (cs.reverse ++ [c]), (c :: cs) :: stk⟩ (ws ++ [62]) = some ⟨.content 0, stk⟩ := by
      cases ws with
      | nil =>
        have : step d ⟨.etagName (cs.reverse ++ [c]), (c :: cs) :: stk⟩ 62 = some ⟨.content 0, stk⟩ := by
          simp only [step, hrev]; simp
        simp [run, this]
      | cons s ws' =>
        simp only [List.all_cons, Bool.and_eq_true] at hws
        have hs := isS_ne hws.1
        have a1 : step d ⟨.etagName (cs.reverse ++ [c]), (c :: cs) :: stk⟩ s = some ⟨.etagWs (c :: cs), (c :: cs) :: stk⟩ := by
          simp only [step, hrev]; simp [hs.1, hws.1]
        have a2 : step d ⟨.etagWs (c :: cs), (c :: cs) :: stk⟩ 62 = some ⟨.content 0, stk⟩ := by simp [step]
        rw [List.cons_append, run_cons_of a1, run_append_of (run_ws_etagWs d _ _ ws' hws.2), run_cons_of a2]; rfl
    have : [60, 47] ++ (c :: cs) ++ ws ++ [62] = 60 :: 47 :: c :: (cs ++ (ws ++ [62])) := by simp
    rw [this, run_cons_of e0, run_cons_of e1, run_cons_of e2, run_append_of (run_etagName d _ cs [c] hn.2)]
    exact e3

theorem run_comment_body (d stk) : ∀ (body : Text) (dash : Bool), commentOk dash body = true →
    run d ⟨if dash then .commentDash else .comment, stk⟩ (body ++ [45, 45, 62]) = some ⟨.content 0, stk⟩ := by
  intro body
  induction body with
  | nil =>
    intro dash h
    cases dash with
    | true => simp [commentOk] at h
    | false => simp [run, step]
  | cons c cs ih =>
    intro dash h
    simp only [commentOk] at h
    by_cases hc : c = 45
    · subst hc
      simp only [beq_self_eq_true, if_true, Bool.and_eq_true, Bool.not_eq_true'] at h
      obtain ⟨hd, hrest⟩ := h
      subst hd
      have e : step d ⟨.comment, stk⟩ 45 = some ⟨.commentDash, stk⟩ := by simp [step]
      have := ih true hrest
      simp only [if_true] at this
      simp only [Bool.false_eq_true, if_false, List.cons_append]
      rw [run_cons_of e]; exact this
    · have hb : (c == 45) = false := by simp [hc]
      simp only [hb, Bool.false_eq_true, if_false, Bool.and_eq_true] at h
      have e : step d ⟨if dash then .commentDash else .comment, stk⟩ c = some ⟨.comment, stk⟩ := by
        cases dash <;> simp [step, hc, h.1]
      have := ih false h.2
      simp only [Bool.false_eq_true, if_false] at this
      rw [List.cons_append, run_cons_of e]; exact this

def cdataMode : Nat → Mode
  | 0 => .cdata
  | 1 => .cdataBr1
  | _ => .cdataBr2

theorem run_cdata_body (d stk) : ∀ (body : Text) (br : Nat), cdataOk br body = true →
    run d ⟨cdataMode br, stk⟩ (body ++ [93, 93, 62]) = some ⟨.content 0, stk⟩ := by
  intro body
  induction body with
  | nil =>
    intro br _
    match br with
    | 0 => simp [run, step, cdataMode]
    | 1 => simp [run, step, cdataMode]
    | n + 2 => simp [run, step, cdataMode]
  | cons c cs ih =>
    intro br h
    simp only [cdataOk] at h
    by_cases hc : c = 93
    · subst hc
      simp only [beq_self_eq_true, if_true] at h
      have e : step d ⟨cdataMode br, stk⟩ 93 = some ⟨cdataMode (if br ≥ 1 then 2 else 1), stk⟩ := by
        match br with
        | 0 => simp [step, cdataMode]
        | 1 => simp [step, cdataMode]
        | n + 2 => simp [step, cdataMode]
      rw [List.cons_append, run_cons_of e]; exact ih _ h
    · have hb : (c == 93) = false := by simp [hc]
      simp only [hb, Bool.false_eq_true, if_false, Bool.and_eq_true, Bool.not_eq_true', Bool.and_eq_false_iff] at h
      obtain ⟨⟨hx, hgt⟩, hrest⟩ := h
      have e : step d ⟨cdataMode br, stk⟩ c = some ⟨cdataMode 0, stk⟩ := by
        match br with
        | 0 => simp [step, cdataMode, hc, hx]
        | 1 => simp [step, cdataMode, hc, hx]
        | n + 2 =>
          have : c ≠ 62 := by
            rcases hgt with h | h
            · simpa using h
            · simp at h
          simp [step, cdataMode, hc, hx, this]
      rw [List.cons_append, run_cons_of e]; exact ih 0 hrest

theorem run_pi_body (d stk) : ∀ (body : Text) (q : Bool), piOk q body = true →
    run d ⟨if q then .piQ else .piBody, stk⟩ (body ++ [63, 62]) = some ⟨.content 0, stk⟩ := by
  intro body
  induction body with
  | nil => intro q _; cases q <;> simp [run, step]
  | cons c cs ih =>
    intro q h
    simp only [piOk] at h
    by_cases hc : c = 63
    · subst hc
      simp only [beq_self_eq_true, if_true] at h
      have e : step d ⟨if q then .piQ else .piBody, stk⟩ 63 = some ⟨.piQ, stk⟩ := by cases q <;> simp [step]
      have := ih true h
      simp only [if_true] at this
      rw [List.cons_append, run_cons_of e]; exact this
    · have hb : (c == 63) = false := by simp [hc]
      simp only [hb, Bool.false_eq_true, if_false, Bool.and_eq_true, Bool.not_eq_true', Bool.and_eq_false_iff] at h
      obtain ⟨⟨hx, hgt⟩, hrest⟩ := h
      have e : step d ⟨if q then .piQ else .piBody, stk⟩ c = some ⟨.piBody, stk⟩ := by
        cases q with
        | false => simp [step, hc, hx]
        | true =>
          have : c ≠ 62 := by
            rcases hgt with h | h
            · simpa using h
            · simp at h
          simp [step, hc, hx, this]
      have := ih false hrest
      simp only [Bool.false_eq_true, if_false] at this
      rw [List.cons_append, run_cons_of e]; exact this

theorem run_pi_head (d stk) (br : Nat) (t : Text) (ht : isName t = true) :
    run d ⟨.content br, stk⟩ ([60, 63] ++ t) = some ⟨.piTarget t.reverse, stk⟩ := by
  cases t with
  | nil => simp [isName] at ht
  | cons c cs =>
    simp only [isName, Bool.and_eq_true] at ht
    have e0 : step d ⟨.content br, stk⟩ 60 = some ⟨.lt, stk⟩ := by simp [step]
    have e1 : step d ⟨.lt, stk⟩ 63 = some ⟨.piStart, stk⟩ := by simp [step]
    have e2 : step d ⟨.piStart, stk⟩ c = some ⟨.piTarget [c], stk⟩ := by simp [step, ht.1]
    have : [60, 63] ++ (c :: cs) = 60 :: 63 :: c :: cs := rfl
    rw [this, run_cons_of e0, run_cons_of e1, run_cons_of e2, run_piTarget d stk cs [c] ht.2]
    simp

theorem textChar_step (d stk) {c : Nat} (h : isTextChar c = true) :
    step d ⟨.content 0, stk⟩ c = some ⟨.content 0, stk⟩ := by
  simp only [isTextChar, Bool.and_eq_true, bne_iff_ne, ne_eq] at h
  obtain ⟨⟨⟨hx, h38⟩, h60⟩, h93⟩ := h
  simp [step, h38, h60, h93, hx]

/-- every grammar value takes the automaton from a content position back to it, stack unchanged -/
theorem grammar_run (d : List Text) {v : Text} (h : ValueGrammar d v) :
    ∀ stk, run d ⟨.content 0, stk⟩ v = some ⟨.content 0, stk⟩ := by
  induction h with
  | nil => intro stk; rfl
  | text c v hc _ ih =>
    intro stk
    rw [run_cons_of (textChar_step d stk hc)]; exact ih stk
  | ref r v hr _ ih =>
    intro stk
    obtain ⟨t', rfl, hrun⟩ := run_ref d .content stk hr
    have e : step d ⟨.content 0, stk⟩ 38 = some ⟨.amp .content, stk⟩ := by simp [step]
    rw [List.cons_append, run_cons_of e, run_append_of hrun]
    exact ih stk
  | elem n attrs ws ws' body v seen' hn hattrs hws hws' _ _ ihb ihv =>
    intro stk
    obtain ⟨m, hm, hend⟩ := run_stag_head d stk 0 n hn hattrs
    have h1 := run_tag_gt d stk hend ws hws
    have h2 := run_etag d stk 0 n ws' hn hws'
    have e : 60 :: n ++ attrs ++ ws ++ [62] ++ body ++ [60, 47] ++ n ++ ws' ++ [62] ++ v
        = (60 :: n ++ attrs) ++ ((ws ++ [62]) ++ (body ++ (([60, 47] ++ n ++ ws' ++ [62]) ++ v))) := by simp
    rw [e, run_append_of hm, run_append_of h1, run_append_of (ihb (n :: stk)), run_append_of h2]
    exact ihv stk
  | empty n attrs ws v seen' hn hattrs hws _ ihv =>
    intro stk
    obtain ⟨m, hm, hend⟩ := run_stag_head d stk 0 n hn hattrs
    have h1 := run_tag_slash_gt d stk hend ws hws
    have e : 60 :: n ++ attrs ++ ws ++ [47, 62] ++ v = (60 :: n ++ attrs) ++ ((ws ++ [47, 62]) ++ v) := by simp
    rw [e, run_append_of hm, run_append_of h1]
    exact ihv stk
  | comment body v hb _ ihv =>
    intro stk
    have e0 : run d ⟨.content 0, stk⟩ [60, 33, 45, 45] = some ⟨.comment, stk⟩ := by simp [run, step]
    have h1 := run_comment_body d stk body false hb
    simp only [Bool.false_eq_true, if_false] at h1
    have e : [60, 33, 45, 45] ++ body ++ [45, 45, 62] ++ v = [60, 33, 45, 45] ++ ((body ++ [45, 45, 62]) ++ v) := by simp
    rw [e, run_append_of e0, run_append_of h1]
    exact ihv stk
  | cdata body v hb _ ihv =>
    intro stk
    have e0 : run d ⟨.content 0, stk⟩ [60, 33, 91, 67, 68, 65, 84, 65, 91] = some ⟨.cdata, stk⟩ := by
      simp [run, step, cdataKw]
    have h1 : run d ⟨.cdata, stk⟩ (body ++ [93, 93, 62]) = some ⟨.content 0, stk⟩ := run_cdata_body d stk body 0 hb
    have e : [60, 33, 91, 67, 68, 65, 84, 65, 91] ++ body ++ [93, 93, 62] ++ v
        = [60, 33, 91, 67, 68, 65, 84, 65, 91] ++ ((body ++ [93, 93, 62]) ++ v) := by simp
    rw [e, run_append_of e0, run_append_of h1]
    exact ihv stk
  | pi target v ht hx _ ihv =>
    intro stk
    have h0 := run_pi_head d stk 0 target ht
    have e1 : step d ⟨.piTarget target.reverse, stk⟩ 63 = some ⟨.piTargetQ, stk⟩ := by
      simp [step, hx]
    have e2 : step d ⟨.piTargetQ, stk⟩ 62 = some ⟨.content 0, stk⟩ := by simp [step]
    have e : [60, 63] ++ target ++ [63, 62] ++ v = ([60, 63] ++ target) ++ (63 :: 62 :: v) := by simp
    rw [e, run_append_of h0, run_cons_of e1, run_cons_of e2]
    exact ihv stk
  | piData target s body v ht hx hs hb _ ihv =>
    intro stk
    have h0 := run_pi_head d stk 0 target ht
    have hs' := isS_ne hs
    have e1 : step d ⟨.piTarget target.reverse, stk⟩ s = some ⟨.piBody, stk⟩ := by
      simp [step, hx, hs'.2.2.2.2.2.1, hs]
    have h1 := run_pi_body d stk body false hb
    simp only [Bool.false_eq_true, if_false] at h1
    have e : [60, 63] ++ target ++ s :: body ++ [63, 62] ++ v = ([60, 63] ++ target) ++ (s :: ((body ++ [63, 62]) ++ v)) := by simp
    rw [e, run_append_of h0, run_cons_of e1, run_append_of h1]
    exact ihv stk

/-- grammar_accepts -/
theorem grammar_wf (d : List Text) {v : Text} (h : ValueGrammar d v) : wf d v = true := by
  simp [wf, init, grammar_run d h [], accepting]

theorem run_stray_close (d stk) (br : Nat) (n ws : Text) (hn : isName n = true) (hws : ws.all isS = true)
    (hne : stk.head? ≠ some n) :
    run d ⟨.content br, stk⟩ ([60, 47] ++ n ++ ws ++ [62]) = none := by
  cases n with
  | nil => simp [isName] at hn
  | cons c cs =>
    simp only [isName, Bool.and_eq_true] at hn
    have e0 : step d ⟨.content br, stk⟩ 60 = some ⟨.lt, stk⟩ := by simp [step]
    have e1 : step d ⟨.lt, stk⟩ 47 = some ⟨.etagStart, stk⟩ := by simp [step]
    have e2 : step d ⟨.etagStart, stk⟩ c = some ⟨.etagName [c], stk⟩ := by simp [step, hn.1]
    have hrev : (cs.reverse ++ [c]).reverse = c :: cs := by simp
    have hpop62 : ∀ m, (m = .etagName (cs.reverse ++ [c]) ∨ m = .etagWs (c :: cs)) → step d ⟨m, stk⟩ 62 = none := by
      intro m hm
      cases stk with
      | nil => rcases hm with rfl | rfl <;> simp [step]
      | cons top rest =>
        have : top ≠ c :: cs := by intro h; apply hne; simp [h]
        rcases hm with rfl | rfl
        · simp only [step, hrev]; simp [this]
        · simp [step, this]
    have e3 : run d ⟨.etagName (cs.reverse ++ [c]), stk⟩ (ws ++ [62]) = none := by
      cases ws with
      | nil => simp [run, hpop62 _ (Or.inl rfl)]
      | cons s ws' =>
        simp only [List.all_cons, Bool.and_eq_true] at hws
        have hs := isS_ne hws.1
        have a1 : step d ⟨.etagName (cs.reverse ++ [c]), stk⟩ s = some ⟨.etagWs (c :: cs), stk⟩ := by
          simp only [step, hrev]; simp [hs.1, hws.1]
        rw [List.cons_append, run_cons_of a1, run_append_of (run_ws_etagWs d _ _ ws' hws.2)]
        simp [run, hpop62 _ (Or.inr rfl)]
    have : [60, 47] ++ (c :: cs) ++ ws ++ [62] = 60 :: 47 :: c :: (cs ++ (ws ++ [62])) := by simp
    rw [this, run_cons_of e0, run_cons_of e1, run_cons_of e2, run_append_of (run_etagName d _ cs [c] hn.2)]
    exact e3

/-- every breaking edit drives the automaton into its dead state from any content position -/
theorem run_edit_none (d : List Text) (br : Nat) (stk : List Text) {e : Text} (h : BreakingEdit stk e) :
    run d ⟨.content br, stk⟩ e = none := by
  have eamp : step d ⟨.content br, stk⟩ 38 = some ⟨.amp .content, stk⟩ := by simp [step]
  have elt : step d ⟨.content br, stk⟩ 60 = some ⟨.lt, stk⟩ := by simp [step]
  cases h with
  | bareAmp c h35 hns =>
    have : step d ⟨.amp .content, stk⟩ c = none := by simp [step, h35, hns]
    simp [run, eamp, this]
  | bareLt c h47 h33 h63 hns =>
    have : step d ⟨.lt, stk⟩ c = none := by simp [step, h47, h33, h63, hns]
    simp [run, elt, this]
  | unterminatedRef n c hn hc h59 =>
    cases n with
    | nil => simp [isName] at hn
    | cons a as =>
      simp only [isName, Bool.and_eq_true] at hn
      have ha := nameChar_ne (nameStart_nameChar hn.1)
      have e1 : step d ⟨.amp .content, stk⟩ a = some ⟨.entName .content [a], stk⟩ := by
        simp [step, ha.2.2.2.2.2.2.2.2.2.2.2.2, hn.1]
      have e2 : step d ⟨.entName .content (as.reverse ++ [a]), stk⟩ c = none := by
        simp [step, h59, hc]
      simp only [List.cons_append]
      rw [run_cons_of eamp, run_cons_of e1, run_append_of (run_entName d .content stk as [a] hn.2)]
      simp [run, e2]
  | unterminatedCharRef d0 ds c h0 hds hc h59 =>
    have e1 : step d ⟨.amp .content, stk⟩ 35 = some ⟨.crStart .content, stk⟩ := by simp [step]
    have e2 : step d ⟨.crStart .content, stk⟩ d0 = some ⟨.crDec .content (d0 - 48), stk⟩ := by
      simp [step, (digit_ne h0).2, h0]
    have e3 : step d ⟨.crDec .content (decAcc (d0 - 48) ds), stk⟩ c = none := by
      simp [step, h59, hc]
    simp only [List.cons_append]
    rw [run_cons_of eamp, run_cons_of e1, run_cons_of e2,
      run_append_of (run_crDec d .content stk ds _ hds)]
    simp [run, e3]
  | strayClose n ws hn hws hne => exact run_stray_close d stk br n ws hn hws hne
  | misnested a b ha hb hab =>
    obtain ⟨m1, hm1, hend1⟩ := run_stag_head d stk br a ha (AttrsText.nil [])
    have h1 := run_tag_gt d stk hend1 [] rfl
    obtain ⟨m2, hm2, hend2⟩ := run_stag_head d (a :: stk) 0 b hb (AttrsText.nil [])
    have h2 := run_tag_gt d (a :: stk) hend2 [] rfl
    have h3 := run_stray_close d (b :: a :: stk) 0 a [] ha rfl (by simpa using Ne.symm hab)
    simp only [List.append_nil, List.nil_append] at hm1 hm2 h1 h2 h3
    have e : (60 :: a ++ [62]) ++ (60 :: b ++ [62]) ++ ([60, 47] ++ a ++ [62])
        = (60 :: a) ++ ([62] ++ ((60 :: b) ++ ([62] ++ ([60, 47] ++ a ++ [62])))) := by simp
    rw [e, run_append_of hm1, run_append_of h1, run_append_of hm2, run_append_of h2]
    exact h3

/-- edits_reject: at a content position reached by any prefix, a breaking edit makes the whole value
    ill-formed whatever follows -/
theorem edit_not_wf (d : List Text) (p e s : Text) (br : Nat) (stk : List Text)
    (hp : run d init p = some ⟨.content br, stk⟩) (he : BreakingEdit stk e) :
    wf d (p ++ e ++ s) = false := by
  have : run d init (p ++ e ++ s) = none := by
    rw [List.append_assoc, run_append_of hp]
    exact run_none d _ e s (run_edit_none d br stk he)
  unfold wf; rw [this]

/-- a value that ends inside markup, inside a reference, or with open elements is ill-formed -/
theorem ends_inside_not_wf (d : List Text) (v : Text) (s : St) (hv : run d init v = some s)
    (hs : accepting s = false) : wf d v = false := by
  simp [wf, hv, hs]

/-- an unclosed start tag at the end of a value -/
theorem unclosed_at_end_not_wf (d : List Text) (p : Text) (br : Nat) (stk : List Text) (n : Text)
    (hp : run d init p = some ⟨.content br, stk⟩) (hn : isName n = true) :
    wf d (p ++ (60 :: n ++ [62])) = false := by
  obtain ⟨m1, hm1, hend1⟩ := run_stag_head d stk br n hn (AttrsText.nil [])
  have h1 := run_tag_gt d stk hend1 [] rfl
  simp only [List.append_nil, List.nil_append] at hm1 h1
  have : run d init (p ++ (60 :: n ++ [62])) = some ⟨.content 0, n :: stk⟩ := by
    rw [run_append_of hp]
    have e : 60 :: n ++ [62] = (60 :: n) ++ [62] := by simp
    rw [e, run_append_of hm1]; exact h1
  unfold wf; rw [this]; rfl

/-- every item boundary of a grammar value, at any nesting depth, is a content position -/
theorem contentPrefix_run (d : List Text) {p : Text} {stk : List Text} (h : ContentPrefix d p stk) :
    run d init p = some ⟨.content 0, stk⟩ := by
  induction h with
  | nil => rfl
  | items p a stk _ ha ih => rw [run_append_of ih]; exact grammar_run d ha stk
  | enter p n attrs ws stk seen' _ hn hattrs hws ih =>
    obtain ⟨m, hm, hend⟩ := run_stag_head d stk 0 n hn hattrs
    have h1 := run_tag_gt d stk hend ws hws
    have e : 60 :: n ++ attrs ++ ws ++ [62] = (60 :: n ++ attrs) ++ (ws ++ [62]) := by simp
    rw [run_append_of ih, e, run_append_of hm]; exact h1

/-- enlarging the set of declared names keeps references, attribute values, attributes and values in the grammar -/
theorem RefText.mono {d d' : List Text} (hd : ∀ n, d.contains n = true → (d'.contains n || predefined.contains n) = true)
    {t : Text} (h : RefText d t) : RefText d' t := by
  cases h with
  | ent n hn hdn =>
    refine RefText.ent n hn ?_
    rcases Bool.or_eq_true _ _ |>.mp hdn with h | h
    · exact hd n h
    · rw [h, Bool.or_true]
  | dec d0 ds h0 hds hok => exact RefText.dec d0 ds h0 hds hok
  | hex h0 x0 hs hh0 hhs hok => exact RefText.hex h0 x0 hs hh0 hhs hok

theorem AttrValText.mono {d d' : List Text} (hd : ∀ n, d.contains n = true → (d'.contains n || predefined.contains n) = true)
    {q : Nat} {t : Text} (h : AttrValText d q t) : AttrValText d' q t := by
  induction h with
  | nil => exact AttrValText.nil
  | char c v hc h60 h38 hq _ ih => exact AttrValText.char c v hc h60 h38 hq ih
  | ref r v hr _ ih => exact AttrValText.ref r v (hr.mono hd) ih

theorem AttrsText.mono {d d' : List Text} (hd : ∀ n, d.contains n = true → (d'.contains n || predefined.contains n) = true)
    {seen seen' : List Text} {t : Text} (h : AttrsText d seen t seen') : AttrsText d' seen t seen' := by
  induction h with
  | nil seen => exact AttrsText.nil seen
  | cons seen a s0 ws1 ws2 ws3 q val rest seen' hs0 h1 h2 h3 ha hnew hq hval _ ih =>
    exact AttrsText.cons seen a s0 ws1 ws2 ws3 q val rest seen' hs0 h1 h2 h3 ha hnew hq (hval.mono hd) ih

theorem ValueGrammar.mono {d d' : List Text} (hd : ∀ n, d.contains n = true → (d'.contains n || predefined.contains n) = true)
    {v : Text} (h : ValueGrammar d v) : ValueGrammar d' v := by
  induction h with
  | nil => exact ValueGrammar.nil
  | text c v hc _ ih => exact ValueGrammar.text c v hc ih
  | ref r v hr _ ih => exact ValueGrammar.ref r v (hr.mono hd) ih
  | elem n attrs ws ws' body v seen' hn hattrs hws hws' _ _ ihb ihv =>
    exact ValueGrammar.elem n attrs ws ws' body v seen' hn (hattrs.mono hd) hws hws' ihb ihv
  | empty n attrs ws v seen' hn hattrs hws _ ihv => exact ValueGrammar.empty n attrs ws v seen' hn (hattrs.mono hd) hws ihv
  | comment body v hb _ ihv => exact ValueGrammar.comment body v hb ihv
  | cdata body v hb _ ihv => exact ValueGrammar.cdata body v hb ihv
  | pi target v ht hx _ ihv => exact ValueGrammar.pi target v ht hx ihv
  | piData target s body v ht hx hs hb _ ihv => exact ValueGrammar.piData target s body v ht hx hs hb ihv

def Mode.pops : Mode → Bool
  | .etagName _ => true
  | .etagWs _ => true
  | _ => false

theorem back_parametric (r : Ret) (σ : List Text) :
    back r σ = ⟨(back r []).mode, (back r []).stack ++ σ⟩ := by
  cases r <;> simp [back]

/-- outside the two end-tag states a step does not look at the stack: it keeps it or pushes onto it -/
theorem step_parametric (d : List Text) (m : Mode) (hm : m.pops = false) (σ : List Text) (c : Nat) :
    step d ⟨m, σ⟩ c = (step d ⟨m, []⟩ c).map (fun s => ⟨s.mode, s.stack ++ σ⟩) := by
  cases m <;> simp only [Mode.pops] at hm <;> simp only [step] <;> (repeat' split) <;>
    first | (simp_all; done) | (simp only [Option.map_some]; rw [back_parametric]) | skip

/-- `l₂` is `l₁` with one extra element inserted somewhere -/
inductive Ins : List Text → List Text → Prop
  | here (x : Text) (l : List Text) : Ins l (x :: l)
  | there (a : Text) (l₁ l₂ : List Text) : Ins l₁ l₂ → Ins (a :: l₁) (a :: l₂)

theorem Ins.ne_nil {l₁ l₂ : List Text} (h : Ins l₁ l₂) : l₂ ≠ [] := by
  cases h <;> simp

theorem Ins.append_left (pre : List Text) {l₁ l₂ : List Text} (h : Ins l₁ l₂) : Ins (pre ++ l₁) (pre ++ l₂) := by
  induction pre with
  | nil => exact h
  | cons a as ih => exact Ins.there a _ _ ih

/-- popping with an extra element in the stack: dead, or popped with the extra element still there -/
theorem pop_ins (n : Text) (m' : Mode) (σ₁ σ₁' σ₂ : List Text)
    (h : (match σ₁ with
          | top :: rest => if top == n then some (⟨.content 0, rest⟩ : St) else none
          | [] => none) = some ⟨m', σ₁'⟩) (hi : Ins σ₁ σ₂) :
    (match σ₂ with
      | top :: rest => if top == n then some (⟨.content 0, rest⟩ : St) else none
      | [] => none) = none ∨
    ∃ σ₂', (match σ₂ with
      | top :: rest => if top == n then some (⟨.content 0, rest⟩ : St) else none
      | [] => none) = some ⟨m', σ₂'⟩ ∧ Ins σ₁' σ₂' := by
  cases σ₁ with
  | nil => simp at h
  | cons top rest =>
    simp only at h
    split at h
    · rename_i htop
      simp only [Option.some.injEq, St.mk.injEq] at h
      obtain ⟨rfl, rfl⟩ := h
      cases hi with
      | here x l =>
        by_cases hx : x = n
        · right
          refine ⟨top :: rest, by simp [hx], ?_⟩
          have : top = n := by simpa using htop
          rw [this, ← hx]
          exact Ins.here _ _
        · left; simp [hx]
      | there a l₁ l₂ hi' => right; exact ⟨l₂, by simp [htop], hi'⟩
    · simp at h


/-- one step with an extra open element somewhere in the stack: dead, or the same mode with the extra element still there -/
theorem step_ins (d : List Text) (m m' : Mode) (σ₁ σ₁' σ₂ : List Text) (c : Nat)
    (h : step d ⟨m, σ₁⟩ c = some ⟨m', σ₁'⟩) (hi : Ins σ₁ σ₂) :
    step d ⟨m, σ₂⟩ c = none ∨ ∃ σ₂', step d ⟨m, σ₂⟩ c = some ⟨m', σ₂'⟩ ∧ Ins σ₁' σ₂' := by
  by_cases hm : m.pops = false
  · rw [step_parametric d m hm] at h ⊢
    cases hs : step d ⟨m, []⟩ c with
    | none => simp [hs] at h
    | some s =>
      simp only [hs, Option.map_some, Option.some.injEq, St.mk.injEq] at h
      obtain ⟨rfl, rfl⟩ := h
      right
      exact ⟨s.stack ++ σ₂, rfl, hi.append_left _⟩
  · cases m <;> simp only [Mode.pops] at hm <;> try (exact absurd trivial hm)
    case etagName acc =>
      simp only [step] at h ⊢
      split
      · rename_i hc; rw [if_pos hc] at h; exact pop_ins _ _ _ _ _ h hi
      · rename_i hc; rw [if_neg hc] at h
        split
        · rename_i hs; rw [if_pos hs] at h
          simp only [Option.some.injEq, St.mk.injEq] at h
          obtain ⟨rfl, rfl⟩ := h
          right; exact ⟨σ₂, rfl, hi⟩
        · rename_i hs; rw [if_neg hs] at h
          split
          · rename_i hn; rw [if_pos hn] at h
            simp only [Option.some.injEq, St.mk.injEq] at h
            obtain ⟨rfl, rfl⟩ := h
            right; exact ⟨σ₂, rfl, hi⟩
          · left; rfl
    case etagWs n =>
      simp only [step] at h ⊢
      split
      · rename_i hc; rw [if_pos hc] at h; exact pop_ins _ _ _ _ _ h hi
      · rename_i hc; rw [if_neg hc] at h
        split
        · rename_i hs; rw [if_pos hs] at h
          simp only [Option.some.injEq, St.mk.injEq] at h
          obtain ⟨rfl, rfl⟩ := h
          right; exact ⟨σ₂, rfl, hi⟩
        · left; rfl

theorem run_ins (d : List Text) (s : Text) : ∀ (m m' : Mode) (σ₁ σ₁' σ₂ : List Text),
    run d ⟨m, σ₁⟩ s = some ⟨m', σ₁'⟩ → Ins σ₁ σ₂ →
    run d ⟨m, σ₂⟩ s = none ∨ ∃ σ₂', run d ⟨m, σ₂⟩ s = some ⟨m', σ₂'⟩ ∧ Ins σ₁' σ₂' := by
  induction s with
  | nil =>
    intro m m' σ₁ σ₁' σ₂ h hi
    simp only [run, Option.some.injEq, St.mk.injEq] at h
    obtain ⟨rfl, rfl⟩ := h
    right; exact ⟨σ₂, rfl, hi⟩
  | cons c cs ih =>
    intro m m' σ₁ σ₁' σ₂ h hi
    simp only [run] at h
    cases hs : step d ⟨m, σ₁⟩ c with
    | none => simp [hs] at h
    | some s1 =>
      simp only [hs] at h
      rcases step_ins d m s1.mode σ₁ s1.stack σ₂ c hs hi with h2 | ⟨σm, h2, him⟩
      · left; simp [run, h2]
      · rcases ih s1.mode m' s1.stack σ₁' σm h him with h3 | ⟨σf, h3, hif⟩
        · left; simp [run, h2, h3]
        · right; exact ⟨σf, by simp [run, h2, h3], hif⟩

/-- inserting an unclosed start tag at a content position of a well-formed value makes it ill-formed -/
theorem unclosed_insert_not_wf (d : List Text) (p s n : Text) (stk : List Text)
    (hp : run d init p = some ⟨.content 0, stk⟩) (hwf : wf d (p ++ s) = true) (hn : isName n = true) :
    wf d (p ++ (60 :: n ++ [62]) ++ s) = false := by
  obtain ⟨m1, hm1, hend1⟩ := run_stag_head d stk 0 n hn (AttrsText.nil [])
  have h1 := run_tag_gt d stk hend1 [] rfl
  simp only [List.append_nil, List.nil_append] at hm1 h1
  have hopen : run d init (p ++ (60 :: n ++ [62])) = some ⟨.content 0, n :: stk⟩ := by
    rw [run_append_of hp]
    have e : 60 :: n ++ [62] = (60 :: n) ++ [62] := by simp
    rw [e, run_append_of hm1]; exact h1
  unfold wf at hwf ⊢
  rw [run_append_of hp] at hwf
  rw [run_append_of hopen]
  cases hr : run d ⟨.content 0, stk⟩ s with
  | none => simp [hr] at hwf
  | some f =>
    simp only [hr] at hwf
    have hstack : f.stack = [] := by
      unfold accepting at hwf
      split at hwf
      · assumption
      · simp at hwf
    rcases run_ins d s (.content 0) f.mode stk f.stack (n :: stk) hr (Ins.here n stk) with h2 | ⟨σf, h2, hif⟩
    · rw [h2]
    · rw [h2]
      show accepting ⟨f.mode, σf⟩ = false
      cases σf with
      | nil => exact absurd rfl hif.ne_nil
      | cons a as => unfold accepting; cases f.mode <;> rfl

end XmlContent

/- Helpers to state concrete witnesses (negation witnesses of hypotheses, non-vacuity examples). -/
import CLModel.Paths.Matcher
namespace PM

/-- text of a string literal (proof files only) -/
def T (s : String) : Text := s.toList.map Char.toNat

def matcherOf (pat : String) (env : List (String × String)) (root : Option String) : Except PyErr Matcher :=
  mkMatcher (T pat) (env.map (fun p => (T p.1, T p.2))) (root.map T)

/-- the outcome of `Matcher(pat, env, root).match(path)`, coarse -/
inductive Outcome where
  | groups (d : GroupDict)
  | noMatch
  | raised (e : PyErr)
  deriving DecidableEq

def matchOutcome (pat : String) (env : List (String × String)) (root : Option String) (path : String) : Outcome :=
  match (do let m ← matcherOf pat env root; m.match (T path)) with
  | .ok (some d) => .groups d
  | .ok none => .noMatch
  | .error e => .raised e

inductive TOutcome where
  | text (t : Text)
  | none
  | raised (e : PyErr)
  deriving DecidableEq

def subOutcome (pa : String) (enva : List (String × String)) (pb : String) (envb : List (String × String))
    (path : Text) : TOutcome :=
  match (do let a ← matcherOf pa enva none; let b ← matcherOf pb envb none; a.sub b path) with
  | .ok (some t) => .text t
  | .ok none => .none
  | .error e => .raised e

def strOutcome (pat : String) (env : List (String × String)) (root : Option String) : TOutcome :=
  match (do let m ← matcherOf pat env root; m.str) with
  | .ok t => .text t
  | .error e => .raised e

def prefixOutcome (pat : String) (env : List (String × String)) (root : Option String) : TOutcome :=
  match (do let m ← matcherOf pat env root; m.prefix) with
  | .ok t => .text t
  | .error e => .raised e

def matchIs (m : Matcher) (path : Text) (d : GroupDict) : Bool :=
  match m.match path with
  | .ok (some d') => d' == d
  | _ => false

theorem matchIs_spec {m : Matcher} {path : Text} {d : GroupDict} (h : matchIs m path d = true) :
    m.match path = .ok (some d) := by
  unfold matchIs at h
  split at h
  · rename_i d' hd
    have : d' = d := by simpa using h
    subst this; exact hd
  · cases h

/-- `Matcher("l/{locale}/*.ftl", {"locale": "de"})` written out (what `mkMatcher` returns) -/
def exampleMatcher : Matcher :=
  { pattern := { nodes := [.lit (T "l/"), .var localeName false, .lit (T "/"), .star 1, .lit (T ".ftl")],
                 root := none, prefixLen := 3 },
    env := [(localeName, .pat { nodes := [.lit (T "de")], root := none, prefixLen := 1 })] }

theorem exampleMatcher_is : matcherOf "l/{locale}/*.ftl" [("locale", "de")] none = .ok exampleMatcher := by
  have h : (match matcherOf "l/{locale}/*.ftl" [("locale", "de")] none with
      | .ok m => m.pattern == exampleMatcher.pattern && m.env == exampleMatcher.env
      | .error _ => false) = true := by decide +kernel
  split at h
  · rename_i m hm
    simp only [Bool.and_eq_true, beq_iff_eq] at h
    rw [hm]
    cases m
    simp only at h
    obtain ⟨h1, h2⟩ := h
    subst h1; subst h2; rfl
  · cases h

end PM

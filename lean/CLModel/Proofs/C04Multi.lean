/- C04, several cuts: the l10n text as a sequence of kept and cut pieces; `skips` may arrive in ANY order
   (`skips.sort(key=lambda s: s.span[0])` puts them in file order), the chunk loop then writes exactly the kept pieces. -/
import CLModel.Compare.Merge
namespace C04M
open Merge

inductive Pc
  | keep (t : List Nat)
  | cut (x : List Nat) (junk : Bool) (refAll : List Nat)

/-- the text of the l10n file -/
def pcText : List Pc → List Nat
  | [] => []
  | .keep t :: r => t ++ pcText r
  | .cut x _ _ :: r => x ++ pcText r

/-- what must remain of it -/
def pcKept : List Pc → List Nat
  | [] => []
  | .keep t :: r => t ++ pcKept r
  | .cut _ _ _ :: r => pcKept r

/-- the skips in file order, the first piece starting at `off` -/
def pcSkips (off : Nat) : List Pc → List Skip
  | [] => []
  | .keep t :: r => pcSkips (off + t.length) r
  | .cut x j ra :: r => { span := some (off, off + x.length), junk := j, refAll := ra } :: pcSkips (off + x.length) r

def CutsNonempty (pcs : List Pc) : Prop := ∀ x j ra, Pc.cut x j ra ∈ pcs → x ≠ []

theorem pcText_append (a b : List Pc) : pcText (a ++ b) = pcText a ++ pcText b := by
  induction a with
  | nil => rfl
  | cons p a ih => cases p <;> simp [pcText, ih]

theorem pcKept_append (a b : List Pc) : pcKept (a ++ b) = pcKept a ++ pcKept b := by
  induction a with
  | nil => rfl
  | cons p a ih => cases p <;> simp [pcKept, ih]

theorem pcSkips_append (a b : List Pc) : ∀ off, pcSkips off (a ++ b) = pcSkips off a ++ pcSkips (off + (pcText a).length) b := by
  induction a with
  | nil => intro off; simp [pcSkips, pcText]
  | cons p a ih =>
    intro off
    cases p with
    | keep t => simp [pcSkips, pcText, ih, Nat.add_assoc]
    | cut x j ra => simp [pcSkips, pcText, ih, Nat.add_assoc]

/-! ### the chunk loop over file-ordered skips -/

theorem chunks_pcs : ∀ (pcs : List Pc) (pre mid : List Nat),
    chunks (pre ++ (mid ++ pcText pcs)) (pcSkips (pre.length + mid.length) pcs) (some pre.length) = mid ++ pcKept pcs
  | [], pre, mid => by simp [chunks, pcSkips, pcText, pcKept]
  | .keep t :: r, pre, mid => by
    have ih := chunks_pcs r pre (mid ++ t)
    simp only [pcSkips, pcText, pcKept]
    rw [show pre.length + mid.length + t.length = pre.length + (mid ++ t).length by simp; omega]
    rw [show pre ++ (mid ++ (t ++ pcText r)) = pre ++ ((mid ++ t) ++ pcText r) by simp, ih]
    simp
  | .cut x j ra :: r, pre, mid => by
    have ih := chunks_pcs r (pre ++ (mid ++ x)) []
    simp only [pcSkips, pcText, pcKept, chunks]
    rw [List.drop_left' rfl, show pre.length + mid.length - pre.length = mid.length by omega, List.take_left' rfl]
    have e1 : pre ++ (mid ++ (x ++ pcText r)) = (pre ++ (mid ++ x)) ++ ([] ++ pcText r) := by simp
    have e2 : pre.length + mid.length + x.length = (pre ++ (mid ++ x)).length + ([] : List Nat).length := by
      simp; omega
    rw [e1, e2]
    rw [show (pre ++ (mid ++ x)).length + ([] : List Nat).length = (pre ++ (mid ++ x)).length by simp] at ih ⊢
    rw [show chunks (pre ++ (mid ++ x) ++ ([] ++ pcText r)) (pcSkips (pre ++ (mid ++ x)).length r)
        (some (pre ++ (mid ++ x)).length) = [] ++ pcKept r from by simpa using ih]
    simp

theorem chunks_none_eq (contents : List Nat) (skips : List Skip) :
    chunks contents skips none = chunks contents skips (some 0) := by
  cases skips <;> simp [chunks]

/-- cutting the file-ordered skips of a piece list out of its text leaves the kept pieces -/
theorem chunks_pieces (pcs : List Pc) : chunks (pcText pcs) (pcSkips 0 pcs) none = pcKept pcs := by
  rw [chunks_none_eq]
  simpa using chunks_pcs pcs [] []

/-! ### the file-ordered skips are strictly sorted by start -/

/-- the sort key `s.span[0]` -/
def skey (s : Skip) : Nat := match s.span with | some (a, _) => a | none => 0

theorem pcSkips_lb : ∀ (pcs : List Pc) (off : Nat) (sk : Skip), sk ∈ pcSkips off pcs → off ≤ skey sk ∧ sk.span.isSome = true
  | [], _, _, h => by simp [pcSkips] at h
  | .keep t :: r, off, sk, h => by
    have := pcSkips_lb r (off + t.length) sk (by simpa [pcSkips] using h)
    exact ⟨by omega, this.2⟩
  | .cut x j ra :: r, off, sk, h => by
    simp only [pcSkips, List.mem_cons] at h
    rcases h with e | e
    · subst e; simp [skey]
    · have := pcSkips_lb r (off + x.length) sk e
      exact ⟨by omega, this.2⟩

theorem pcSkips_sorted : ∀ (pcs : List Pc) (off : Nat), CutsNonempty pcs →
    (pcSkips off pcs).Pairwise (fun a b => skey a < skey b)
  | [], _, _ => by simp [pcSkips]
  | .keep t :: r, off, h => by
    simp only [pcSkips]
    exact pcSkips_sorted r _ (fun x j ra hm => h x j ra (by simp [hm]))
  | .cut x j ra :: r, off, h => by
    simp only [pcSkips, List.pairwise_cons]
    have hx : 0 < x.length := List.length_pos_iff.mpr (h x j ra (by simp))
    refine ⟨?_, pcSkips_sorted r _ (fun x j ra hm => h x j ra (by simp [hm]))⟩
    intro sk hsk
    have := (pcSkips_lb r _ sk hsk).1
    have e : skey ({ span := some (off, off + x.length), junk := j, refAll := ra } : Skip) = off := rfl
    rw [e]
    omega

/-! ### `skips.sort(key=…)` of any permutation -/

theorem mem_insertSorted (x : Skip) (k : Nat) : ∀ (acc : List (Skip × Nat)) (p : Skip × Nat),
    p ∈ insertSorted x k acc ↔ p = (x, k) ∨ p ∈ acc
  | [], p => by simp [insertSorted]
  | (y, ky) :: rest, p => by
    unfold insertSorted
    split
    · simp
    · simp only [List.mem_cons, mem_insertSorted x k rest p]
      constructor
      · rintro (h | h | h)
        · exact Or.inr (Or.inl h)
        · exact Or.inl h
        · exact Or.inr (Or.inr h)
      · rintro (h | h | h)
        · exact Or.inr (Or.inl h)
        · exact Or.inl h
        · exact Or.inr (Or.inr h)

theorem insertSorted_sorted (x : Skip) (k : Nat) : ∀ (acc : List (Skip × Nat)),
    acc.Pairwise (fun p q => p.2 ≤ q.2) → (insertSorted x k acc).Pairwise (fun p q => p.2 ≤ q.2)
  | [], _ => by simp [insertSorted]
  | (y, ky) :: rest, h => by
    unfold insertSorted
    rw [List.pairwise_cons] at h
    split
    · rename_i hlt
      rw [List.pairwise_cons]
      refine ⟨?_, List.pairwise_cons.mpr h⟩
      intro q hq
      rcases List.mem_cons.mp hq with e | e
      · subst e; simp only; omega
      · have := h.1 q e; simp only at this ⊢; omega
    · rename_i hge
      rw [List.pairwise_cons]
      refine ⟨?_, insertSorted_sorted x k rest h.2⟩
      intro q hq
      rcases (mem_insertSorted x k rest q).mp hq with e | e
      · subst e; simp only; omega
      · exact h.1 q e

theorem insertSorted_perm (x : Skip) (k : Nat) : ∀ (acc : List (Skip × Nat)),
    ((insertSorted x k acc).map (·.1)).Perm (x :: acc.map (·.1))
  | [] => by simp [insertSorted]
  | (y, ky) :: rest => by
    unfold insertSorted
    split
    · simp
    · simp only [List.map_cons]
      exact ((insertSorted_perm x k rest).cons y).trans (List.Perm.swap x y _)

theorem foldl_insert (l : List Skip) : ∀ (acc : List (Skip × Nat)),
    (∀ p ∈ acc, p.2 = skey p.1) → acc.Pairwise (fun p q => p.2 ≤ q.2) →
    let r := l.foldl (fun acc s => insertSorted s (match s.span with | some (a, _) => a | none => 0) acc) acc
    (∀ p ∈ r, p.2 = skey p.1) ∧ r.Pairwise (fun p q => p.2 ≤ q.2) ∧ (r.map (·.1)).Perm (l ++ acc.map (·.1)) := by
  induction l with
  | nil => intro acc h1 h2; exact ⟨h1, h2, by simp⟩
  | cons s l ih =>
    intro acc h1 h2
    simp only [List.foldl_cons]
    have a1 : ∀ p ∈ insertSorted s (skey s) acc, p.2 = skey p.1 := by
      intro p hp
      rcases (mem_insertSorted s (skey s) acc p).mp hp with e | e
      · subst e; rfl
      · exact h1 p e
    have a2 := insertSorted_sorted s (skey s) acc h2
    obtain ⟨b1, b2, b3⟩ := ih (insertSorted s (skey s) acc) a1 a2
    refine ⟨b1, b2, ?_⟩
    refine b3.trans ?_
    refine (List.Perm.append_left l (insertSorted_perm s (skey s) acc)).trans ?_
    simp only [List.cons_append]
    exact List.perm_middle

theorem eq_of_skey_eq : ∀ (l : List Skip), l.Pairwise (fun a b => skey a < skey b) →
    ∀ a b, a ∈ l → b ∈ l → skey a = skey b → a = b
  | [], _, _, _, h, _, _ => by simp at h
  | x :: l, hp, a, b, ha, hb, he => by
    rw [List.pairwise_cons] at hp
    rcases List.mem_cons.mp ha with e1 | e1 <;> rcases List.mem_cons.mp hb with e2 | e2
    · rw [e1, e2]
    · subst e1; have := hp.1 b e2; omega
    · subst e2; have := hp.1 a e1; omega
    · exact eq_of_skey_eq l hp.2 a b e1 e2 he

/-- sorting ANY permutation of a list that is strictly sorted by span start (all spans present) returns that list -/
theorem sortSkips_perm (sorted perm : List Skip) (hs : sorted.Pairwise (fun a b => skey a < skey b))
    (hall : ∀ s ∈ sorted, s.span.isSome = true) (hp : perm.Perm sorted) : sortSkips perm = some sorted := by
  match perm, hp with
  | [], hp => rw [← List.Perm.nil_eq hp]; rfl
  | [x], hp =>
    have e : sorted = [x] := List.perm_singleton.mp hp.symm
    rw [e]; rfl
  | x :: y :: r, hp =>
    have hall' : (x :: y :: r).all (fun s => s.span.isSome) = true := by
      rw [List.all_eq_true]
      intro s hsm
      exact hall s (hp.subset hsm)
    unfold sortSkips
    simp only [hall', if_true, Option.some.injEq]
    obtain ⟨b1, b2, b3⟩ := foldl_insert (x :: y :: r) [] (by simp) (by simp)
    simp only [List.map_nil, List.append_nil] at b3
    have hR : (((x :: y :: r).foldl (fun acc s => insertSorted s (match s.span with | some (a, _) => a | none => 0) acc) []).map
        (·.1)).Pairwise (fun a b => skey a ≤ skey b) := by
      rw [List.pairwise_map]
      refine b2.imp_of_mem ?_
      intro p q hp' hq' hle
      rw [← b1 p hp', ← b1 q hq']
      exact hle
    have hS : sorted.Pairwise (fun a b => skey a ≤ skey b) := hs.imp (fun h => Nat.le_of_lt h)
    have hperm := b3.trans hp
    exact List.Perm.eq_of_pairwise
      (fun a b ha hb h1 h2 => eq_of_skey_eq sorted hs a b (hperm.subset ha) hb (by omega))
      hR hS hperm

/-! ### the merge of several cuts given in any order -/

theorem pcSkips_nil_kept : ∀ (pcs : List Pc) (off : Nat), pcSkips off pcs = [] → pcKept pcs = pcText pcs
  | [], _, _ => rfl
  | .keep t :: r, off, h => by
    simp only [pcSkips] at h
    simp [pcKept, pcText, pcSkips_nil_kept r _ h]
  | .cut x j ra :: r, off, h => by simp [pcSkips] at h

theorem sortSkips_pieces (pcs : List Pc) (perm : List Skip) (hc : CutsNonempty pcs) (hp : perm.Perm (pcSkips 0 pcs)) :
    sortSkips perm = some (pcSkips 0 pcs) :=
  sortSkips_perm _ _ (pcSkips_sorted pcs 0 hc) (fun s h => (pcSkips_lb pcs 0 s h).2) hp

/-- skips whose spans are all `(0, 0)` (Android junk) cut nothing -/
theorem chunks_zero_spans (contents : List Nat) : ∀ (sorted : List Skip), (∀ s ∈ sorted, s.span = some (0, 0)) →
    chunks contents sorted (some 0) = contents
  | [], _ => by simp [chunks]
  | s :: rest, h => by
    have hs := h s (by simp)
    simp only [chunks, hs]
    simpa using chunks_zero_spans contents rest (fun s hs => h s (by simp [hs]))

end C04M

/-
C17 helper lemmas, part 5 (round 4): what positions the CHECKER models yield.

  Checks.baseCheck (checks/base.py)          offsets of U+FFFD inside `l10nEnt.all`
  PropCk.check (checks/properties.py, C06)   EntityPos of U+FFFD; 0; start of a backslash escape in `raw_val`;
                                             start of a `%` in the unescaped value
  the unescaped value is never longer than the raw value, and equal to it when there is no backslash.
-/
import CLModel.Proofs.C17Formula
import CLModel.Proofs.C05Props
import CLModel.Proofs.C02Roundtrip
namespace C17P
open Rx

/-! ### regexes that start with a literal character -/

theorem seq_lit_head {s : Array Nat} {c : Nat} {r : Re} {q : Nat} {st : St}
    (h : matchAt s (.seq (.lit c) r) q = some st ∨ matchAtNE s (.seq (.lit c) r) q = some st) :
    s[q]? = some c := by
  rcases h with h | h
  · unfold matchAt at h
    rw [C06R.m_seq, C06R.m_lit] at h
    split at h
    · rename_i hc; simpa using hc
    · cases h
  · unfold matchAtNE at h
    rw [C06R.m_seq, C06R.m_lit] at h
    split at h
    · rename_i hc; simpa using hc
    · cases h

theorem lit_head {s : Array Nat} {c : Nat} {q : Nat} {st : St}
    (h : matchAt s (.lit c) q = some st ∨ matchAtNE s (.lit c) q = some st) : s[q]? = some c := by
  rcases h with h | h
  · unfold matchAt at h
    rw [C06R.m_lit] at h
    split at h
    · rename_i hc; simpa using hc
    · cases h
  · unfold matchAtNE at h
    rw [C06R.m_lit] at h
    split at h
    · rename_i hc; simpa using hc
    · cases h

/-- every match `mochibake.finditer` reports starts at a U+FFFD -/
theorem mochibake_at (all : Array Nat) : ∀ p ∈ finditer all Gen.Pat.checks_base_mochibake, all[p.1]? = some 0xFFFD := by
  intro p hp
  exact lit_head (finditer_sound all _ p hp).2

/-- every match of `PropertiesEntity.escape` starts at a backslash -/
theorem escape_at (s : Array Nat) : ∀ p ∈ finditer s Gen.Pat.PropertiesEntityMixin_escape, s[p.1]? = some 92 := by
  intro p hp
  exact seq_lit_head (finditer_sound s _ p hp).2

/-- every match of `PropertiesChecker.printf` starts at a `%` -/
theorem printf_at (s : Array Nat) : ∀ p ∈ finditer s Gen.Pat.PropertiesChecker_printf, s[p.1]? = some 37 := by
  intro p hp
  exact seq_lit_head (finditer_sound s _ p hp).2

/-! ### base checker -/

/-- `Checker.check`: every position is the offset of a U+FFFD in `l10nEnt.all` -/
theorem baseCheck_pos (all : Array Nat) : ∀ r ∈ Checks.baseCheck all, all[r.pos]? = some 0xFFFD := by
  intro r hr
  simp only [Checks.baseCheck, List.mem_map] at hr
  obtain ⟨p, hp, rfl⟩ := hr
  exact mochibake_at all p hp

/-! ### the unescaped value of a .properties entity -/

theorem spec_length_aux : ∀ (n : Nat) (l : List Nat), l.length ≤ n → (P.propsUnescapeSpec l).length ≤ l.length := by
  intro n
  induction n with
  | zero =>
    intro l h
    have : l = [] := List.eq_nil_of_length_eq_zero (by omega)
    subst this
    simp [P.spec_nil]
  | succ n ih =>
    intro l h
    cases l with
    | nil => simp [P.spec_nil]
    | cons c rest =>
      have hr : rest.length ≤ n := by simpa using h
      by_cases hc : c = 92
      · subst hc
        cases rest with
        | nil => simp [P.spec_lone]
        | cons d rest' =>
          have hr' : rest'.length ≤ n := by simp at hr; omega
          rw [P.spec_esc]
          split
          · split
            · have := ih rest' hr'
              simp only [List.length_cons]; omega
            · have hd : (rest'.drop (P.takeHex 4 rest').length).length ≤ rest'.length := by simp
              have := ih (rest'.drop (P.takeHex 4 rest').length) (by omega)
              simp only [List.length_cons]; omega
          · split
            · have hd := P.dropBlank_length rest'
              have := ih (P.dropBlank rest') (by omega)
              simp only [List.length_cons]; omega
            · have := ih rest' hr'
              simp only [List.length_cons]; omega
      · rw [P.spec_cons_ne _ _ hc]
        have := ih rest hr
        simp only [List.length_cons]; omega

theorem spec_length_le (l : List Nat) : (P.propsUnescapeSpec l).length ≤ l.length :=
  spec_length_aux l.length l (Nat.le_refl _)

/-- `PropertiesEntity.val` is never longer than `raw_val` -/
theorem unescape_length_le (raw v : List Nat) (h : PropCk.unescape raw = some v) : v.length ≤ raw.length := by
  rw [Pipe.unescape_eq_propsVal, P.propsVal_eq_spec] at h
  cases h
  exact spec_length_le raw

/-- without a backslash the value IS the raw value (offsets into one are offsets into the other) -/
theorem unescape_id (raw v : List Nat) (h : PropCk.unescape raw = some v) (hb : ∀ c ∈ raw, c ≠ 92) : v = raw := by
  rw [Pipe.unescape_eq_propsVal, P.propsVal_eq_spec] at h
  cases h
  exact P.spec_id raw hb

/-! ### properties checker -/

/-- what a position yielded by `PropertiesChecker.check` points at:
    an `EntityPos` at a U+FFFD of `l10nEnt.all`; a plain int that is 0, or (escape warning) the offset of a backslash
    in `raw_val`, or (printf error) the offset of a `%` in the unescaped value `val` -/
def PropsPosOK (e : PropCk.Ents) (l10nValue : List Nat) (f : PropCk.Finding) : Prop :=
  match f.pos with
  | .ent n => e.l10nAll[n]? = some 0xFFFD
  | .val n => n = 0 ∨ (f.cat = .escape ∧ e.l10nRaw[n]? = some 92) ∨ (f.cat = .printf ∧ l10nValue[n]? = some 37)

theorem props_base_pos (e : PropCk.Ents) (v : List Nat) : ∀ f ∈ PropCk.baseCheck e, PropsPosOK e v f := by
  intro f hf
  simp only [PropCk.baseCheck, List.mem_map] at hf
  obtain ⟨p, hp, rfl⟩ := hf
  simpa [PropsPosOK] using mochibake_at _ p hp

theorem props_esc_pos (e : PropCk.Ents) (v : List Nat) : ∀ f ∈ PropCk.escapeWarnings e.l10nRaw, PropsPosOK e v f := by
  intro f hf
  simp only [PropCk.escapeWarnings, List.mem_filterMap] at hf
  obtain ⟨p, hp, hf⟩ := hf
  have hat := escape_at _ p hp
  split at hf
  · split at hf
    · cases hf
      simp only [PropsPosOK]
      right; left
      exact ⟨by first | rfl | trivial, by simpa using hat⟩
    · cases hf
  · cases hf

theorem printfStep_err (s : Array Nat) (st : PropCk.PState) (m : Nat × St) (msg : List Nat) (pos : Nat)
    (h : PropCk.printfStep s st m = .error (.printf msg pos)) : pos = m.1 := by
  unfold PropCk.printfStep at h
  simp only at h
  split at h
  · cases h; rfl
  · split at h
    · cases h
    · split at h
      · cases h; rfl
      · split at h
        · split at h
          · cases h
          · split at h <;> cases h
        · cases h

theorem printfFold_err (s : Array Nat) : ∀ (ms : List (Nat × St)) (st : PropCk.PState) (msg : List Nat) (pos : Nat),
    PropCk.printfFold s ms st = .error (.printf msg pos) → ∃ m ∈ ms, pos = m.1 := by
  intro ms
  induction ms with
  | nil => intro st msg pos h; cases h
  | cons m ms ih =>
    intro st msg pos h
    simp only [PropCk.printfFold] at h
    split at h
    · rename_i e he
      cases h
      exact ⟨m, by simp, printfStep_err s st m msg pos he⟩
    · obtain ⟨m', hm', hp⟩ := ih _ msg pos h
      exact ⟨m', by simp [hm'], hp⟩

/-- a `PrintfException` of `getPrintfSpecs(val)` is positioned at 0 or at a `%` of `val` -/
theorem getPrintfSpecs_err (val : List Nat) (msg : List Nat) (pos : Nat)
    (h : PropCk.getPrintfSpecs val = .error (.printf msg pos)) : pos = 0 ∨ val[pos]? = some 37 := by
  unfold PropCk.getPrintfSpecs at h
  simp only at h
  split at h
  · rename_i e he
    cases h
    obtain ⟨m, hm, rfl⟩ := printfFold_err _ _ _ _ _ he
    right
    simpa using printf_at _ m hm
  · split at h
    · cases h; left; rfl
    · cases h

theorem props_printf_pos (e : PropCk.Ents) (R : List (Option (List Nat))) (v : List Nat) (pf : List PropCk.Finding)
    (h : PropCk.checkPrintf R v = some pf) : ∀ f ∈ pf, PropsPosOK e v f := by
  intro f hf
  unfold PropCk.checkPrintf at h
  split at h
  · rename_i msg pos he
    cases h
    simp only [List.mem_singleton] at hf
    subst hf
    rcases getPrintfSpecs_err v msg pos he with h0 | h37
    · simp [PropsPosOK, h0]
    · simp only [PropsPosOK]; right; right; exact ⟨by first | rfl | trivial, h37⟩
  · cases h
  · split at h
    · split at h
      · cases h
      · split at h
        · cases h
        · cases h
          simp only [List.mem_append] at hf
          rcases hf with hf | hf
          · split at hf
            · simp only [List.mem_singleton] at hf; subst hf; simp [PropsPosOK]
            · simp at hf
          · split at hf
            · simp only [List.mem_singleton] at hf; subst hf; simp [PropsPosOK]
            · simp at hf
    · cases h; simp at hf

theorem forms_pos (known : Option (List (List Nat))) (n : Nat) : ∀ f ∈ PropCk.formsVerdict known n, f.pos = .val 0 := by
  intro f hf
  unfold PropCk.formsVerdict at hf
  split at hf
  · split at hf
    · simp only [List.mem_singleton] at hf; subst hf; rfl
    · simp at hf
  · simp at hf

theorem vars_pos (pats lpats : List Nat) : ∀ f ∈ PropCk.varsVerdict pats lpats, f.pos = .val 0 := by
  intro f hf
  unfold PropCk.varsVerdict at hf
  split at hf
  · simp at hf
  · split at hf
    · simp only [List.mem_singleton] at hf; subst hf; rfl
    · split at hf
      · simp only [List.mem_singleton] at hf; subst hf; rfl
      · simp at hf

/-- **every position `PropertiesChecker.check` yields** (model `PropCk.check`, C06) is one of the four kinds of
    `PropsPosOK`, for ALL entity pairs -/
theorem props_check_pos (e : PropCk.Ents) (fs : List PropCk.Finding) (v : List Nat)
    (hc : PropCk.check e = some fs) (hv : PropCk.unescape e.l10nRaw = some v) :
    ∀ f ∈ fs, PropsPosOK e v f := by
  obtain ⟨refValue, hr⟩ := Pipe.unescape_total e.refRaw
  cases hg : PropCk.pluralGate e.refComment e.refKey refValue with
  | true =>
    obtain ⟨known, pats, lpats, _, _, _, h⟩ := C06.plural_verdict e refValue v hr hv hg
    rw [h] at hc; cases hc
    intro f hf
    simp only [List.mem_append] at hf
    rcases hf with hf | hf | hf
    · exact props_base_pos e v f hf
    · simp [PropsPosOK, forms_pos _ _ f hf]
    · simp [PropsPosOK, vars_pos _ _ f hf]
  | false =>
    have hnoargs : (PropCk.getPrintfSpecs refValue = .ok [] ∨ ∃ err, PropCk.getPrintfSpecs refValue = .error err) →
        ∀ f ∈ fs, PropsPosOK e v f := by
      intro hR
      have h := C06.check_no_reference_args e refValue v hr hv hg hR
      rw [h] at hc; cases hc
      intro f hf
      simp only [List.mem_append] at hf
      rcases hf with hf | hf
      · exact props_base_pos e v f hf
      · exact props_esc_pos e v f hf
    cases hR : PropCk.getPrintfSpecs refValue with
    | error err => exact hnoargs (Or.inr ⟨err, hR⟩)
    | ok R =>
      cases R with
      | nil => exact hnoargs (Or.inl hR)
      | cons x xs =>
        obtain ⟨pf, hpf, h, _⟩ := C06.check_printf e refValue v (x :: xs) hr hv hg hR (by simp)
        rw [h] at hc; cases hc
        intro f hf
        simp only [List.mem_append] at hf
        rcases hf with (hf | hf) | hf
        · exact props_base_pos e v f hf
        · exact props_esc_pos e v f hf
        · exact props_printf_pos e _ v pf hpf f hf

theorem lt_of_getElem?_some {l : List Nat} {n c : Nat} (h : l[n]? = some c) : n < l.length := by
  rcases Nat.lt_or_ge n l.length with h1 | h1
  · exact h1
  · rw [List.getElem?_eq_none h1] at h; cases h

/-- the bound that matters for the reported position: an int position never exceeds the length of `raw_val`,
    an `EntityPos` is inside `all` -/
theorem props_check_pos_bound (e : PropCk.Ents) (fs : List PropCk.Finding)
    (hc : PropCk.check e = some fs) :
    ∀ f ∈ fs, match f.pos with
      | .ent n => n < e.l10nAll.length
      | .val n => n ≤ e.l10nRaw.length := by
  obtain ⟨v, hv⟩ := Pipe.unescape_total e.l10nRaw
  have hlen := unescape_length_le _ _ hv
  intro f hf
  have := props_check_pos e fs v hc hv f hf
  unfold PropsPosOK at this
  split at this
  · rename_i n hn
    first | simp only [hn] | skip
    exact lt_of_getElem?_some this
  · rename_i n hn
    first | simp only [hn] | skip
    rcases this with h0 | ⟨_, h92⟩ | ⟨_, h37⟩
    · omega
    · exact Nat.le_of_lt (lt_of_getElem?_some h92)
    · have := lt_of_getElem?_some h37; omega

end C17P

import CLModel.Proofs.C09Check
namespace C09P
open Android Android.Spec

theorem firstCdata_append_cdata (pre post : List Child) (d : List Nat) (h : ∀ c ∈ pre, c.isCdata = false) :
    firstCdata (pre ++ .cdata d :: post) = some d := by
  induction pre with
  | nil => rfl
  | cons c cs ih =>
    have hc := h c (by simp)
    cases c <;> simp [Child.isCdata] at hc <;> simp [firstCdata] <;> exact ih (fun c hc' => h c (by simp [hc']))

theorem firstCdata_none {cs : List Child} (h : ∀ c ∈ cs, c.isCdata = false) : firstCdata cs = none := by
  induction cs with
  | nil => rfl
  | cons c cs ih =>
    have hc := h c (by simp)
    cases c <;> simp [Child.isCdata] at hc <;> simp [firstCdata] <;> exact ih (fun c hc' => h c (by simp [hc']))

/-- `textContent` finds the CDATA section wherever it is among the children -/
theorem textContent_cdata_anywhere (n : Node) (pre post : List Child) (d : List Nat)
    (hc : n.children = pre ++ .cdata d :: post) (h : ∀ c ∈ pre, c.isCdata = false) : textContent n = d := by
  unfold textContent
  rw [hc, firstCdata_append_cdata pre post d h]
  simp

/-- without a CDATA child: "" / the data of the only text child / `toxml()` as a fallback -/
theorem textContent_no_cdata (n : Node) (h : ∀ c ∈ n.children, c.isCdata = false) :
    textContent n = match n.children with
      | [] => []
      | [.text d] => d
      | _ => n.xml := by
  unfold textContent
  rw [firstCdata_none h]
  cases hc : n.children with
  | nil => simp
  | cons c cs =>
    cases cs with
    | nil => cases c <;> simp
    | cons c2 cs2 => simp

theorem whiteText_not_cdata {c : Child} (h : WhiteText c) : c.isCdata = false := by
  obtain ⟨d, rfl, _⟩ := h; rfl

/-- on the shapes the checker accepts, `textContent` is the text of the node -/
theorem textContent_simple (n : Node) (h : SimpleData n) :
    (n.children = [] ∧ textContent n = []) ∨ (∃ d, n.children = [.text d] ∧ textContent n = d) ∨
    (∃ pre d post, n.children = pre ++ .cdata d :: post ∧ (∀ c ∈ pre ++ post, WhiteText c) ∧ textContent n = d) := by
  rcases h with h | ⟨d, h⟩ | ⟨hlen, hall⟩
  · exact Or.inl ⟨h, by simp [textContent, h]⟩
  · exact Or.inr (Or.inl ⟨d, h, by simp [textContent, h, firstCdata]⟩)
  · right; right
    have hex : ∃ c ∈ n.children, c.isCdata = true := by
      cases hf : n.children.filter (·.isCdata) with
      | nil => simp [hf] at hlen
      | cons c cs =>
        have : c ∈ n.children.filter (·.isCdata) := by rw [hf]; simp
        rw [List.mem_filter] at this
        exact ⟨c, this.1, this.2⟩
    obtain ⟨c, hmem, hcd⟩ := hex
    obtain ⟨s, t, hst⟩ := List.append_of_mem hmem
    cases c <;> simp [Child.isCdata] at hcd
    rename_i d
    rw [hst, List.filter_append, List.filter_cons] at hlen
    simp only [show (Child.cdata d).isCdata = true from rfl, if_true, List.length_append, List.length_cons] at hlen
    have hs : ∀ x ∈ s, x.isCdata = false := by
      intro x hx
      have := (List.filter_eq_nil_iff.mp (List.eq_nil_of_length_eq_zero (by omega : (s.filter (·.isCdata)).length = 0))) x hx
      simpa using this
    have ht : ∀ x ∈ t, x.isCdata = false := by
      intro x hx
      have := (List.filter_eq_nil_iff.mp (List.eq_nil_of_length_eq_zero (by omega : (t.filter (·.isCdata)).length = 0))) x hx
      simpa using this
    refine ⟨s, d, t, hst, ?_, textContent_cdata_anywhere n s t d hst hs⟩
    intro x hx
    rcases List.mem_append.mp hx with hx | hx
    · rcases hall x (by rw [hst]; simp [hx]) with h1 | h1
      · rw [hs x hx] at h1; cases h1
      · exact h1
    · rcases hall x (by rw [hst]; simp [hx]) with h1 | h1
      · rw [ht x hx] at h1; cases h1
      · exact h1

end C09P

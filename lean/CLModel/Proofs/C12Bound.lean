/- A fully bound, wildcard-free pattern: the matcher accepts its own expansion (deterministic run of the
   engine on literal-like items) and reports the expansions of its variables. -/
import CLModel.Proofs.C12Prefix
import CLModel.Proofs.C12Star
namespace PM
open Rx

/-- regex items consisting of literal characters and groups of such, and the text they spell -/
inductive LitLike : List Re → Text → Prop
  | nil : LitLike [] []
  | lit {c rest t} : LitLike rest t → LitLike (Re.lit c :: rest) (c :: t)
  | group {i body tb rest t} : LitLike body tb → LitLike rest t →
      LitLike (Re.group i (seqOf body) :: rest) (tb ++ t)

theorem LitLike.append {a b : List Re} {ta tb : Text} (ha : LitLike a ta) (hb : LitLike b tb) :
    LitLike (a ++ b) (ta ++ tb) := by
  induction ha with
  | nil => simpa using hb
  | lit _ ih => simpa using LitLike.lit ih
  | group hbody _ _ ih => simpa [List.append_assoc] using LitLike.group hbody ih

theorem litlike_lits : ∀ (t : Text), LitLike (t.map Re.lit) t
  | [] => LitLike.nil
  | _ :: t => LitLike.lit (litlike_lits t)

theorem litlike_group {i : Nat} {body : List Re} {t : Text} (h : LitLike body t) :
    LitLike [Re.group i (seqOf body)] t := by
  simpa using LitLike.group (i := i) h LitLike.nil

theorem m_seqOf_cons (s : Array Nat) (x : Re) (rest : List Re) (st : St) (k : K) :
    m s (seqOf (x :: rest)) st k = m s x st (fun st' => m s (seqOf rest) st' k) := by
  cases rest with
  | nil => simp [seqOf, m]
  | cons y r => simp [seqOf, m]

theorem m_seqOf_append (s : Array Nat) : ∀ (a b : List Re) (st : St) (k : K),
    m s (seqOf (a ++ b)) st k = m s (seqOf a) st (fun st' => m s (seqOf b) st' k)
  | [], b, st, k => by simp [seqOf, m]
  | x :: a, b, st, k => by
    rw [List.cons_append, m_seqOf_cons, m_seqOf_cons]
    congr 1
    funext st'
    exact m_seqOf_append s a b st' k

theorem TextAt.tail {s : Array Nat} {p : Nat} {c : Nat} {t : Text} (h : TextAt s p (c :: t)) :
    s[p]? = some c ∧ TextAt s (p + 1) t := by
  refine ⟨by simpa using h 0 (by simp), ?_⟩
  intro j hj
  have := h (j + 1) (by simpa using hj)
  simp only [List.getElem?_cons_succ] at this
  rw [← this]; congr 1; omega

theorem TextAt.split {s : Array Nat} {p : Nat} {a b : Text} (h : TextAt s p (a ++ b)) :
    TextAt s p a ∧ TextAt s (p + a.length) b := by
  refine ⟨?_, ?_⟩
  · intro j hj
    have := h j (by simp; omega)
    rwa [List.getElem?_append_left hj] at this
  · intro j hj
    have := h (a.length + j) (by simp; omega)
    rw [List.getElem?_append_right (by omega)] at this
    rw [Nat.add_assoc]
    simpa using this

/-- the engine runs through literal-like items without any choice -/
theorem litlike_run {s : Array Nat} {items : List Re} {t : Text} (h : LitLike items t) :
    ∀ (st : St) (k : K), TextAt s st.pos t → ∃ caps', m s (seqOf items) st k = k ⟨st.pos + t.length, caps'⟩ := by
  induction h with
  | nil => intro st k _; exact ⟨st.caps, by simp [seqOf, m]⟩
  | @lit c rest t _ ih =>
    intro st k ht
    obtain ⟨hc, htl⟩ := ht.tail
    obtain ⟨caps', h'⟩ := ih { st with pos := st.pos + 1 } k htl
    refine ⟨caps', ?_⟩
    rw [m_seqOf_cons]
    simp only [m, hc, beq_self_eq_true, if_true]
    rw [h']
    simp only [List.length_cons]
    congr 2; omega
  | @group i body tb rest t _ _ ihb ihr =>
    intro st k ht
    obtain ⟨h1, h2⟩ := ht.split
    rw [m_seqOf_cons]
    simp only [m]
    obtain ⟨c1, hb⟩ := ihb st (fun st' => m s (seqOf rest) { st' with caps := (i, st.pos, st'.pos) :: st'.caps } k) h1
    rw [hb]
    obtain ⟨c2, hr⟩ := ihr ⟨st.pos + tb.length, (i, st.pos, st.pos + tb.length) :: c1⟩ k h2
    refine ⟨c2, ?_⟩
    simp only at hr ⊢
    rw [hr]
    simp only [List.length_append]
    congr 2; omega

def HL (fE fR : Nat) : Prop :=
  ∀ v env t items names, ValOK v → EnvOK env → expandVal fE v env true = .ok t →
    rxVal fR v env = .ok (items, names) → LitLike items t

theorem litlike_node {fE fR : Nat} (ih : HL fE fR) {c : Node} (hc : NodeNoRep c) {env : Env} (henv : EnvOK env)
    {t : Text} {items names} (he : expandNode (expandVal fE) c env true = .ok t)
    (hr : rxNode (rxVal fR) c env = .ok (items, names)) : LitLike items t := by
  cases c with
  | lit s =>
    simp only [expandNode, rxNode, pure, Except.pure, Except.ok.injEq, Prod.mk.injEq] at he hr
    obtain ⟨rfl, _⟩ := hr
    subst he
    exact litlike_lits _
  | var name rep =>
    have hrep : rep = false := hc
    subst hrep
    simp only [expandNode, rxNode] at he hr
    cases hl : env.lookup name with
    | none => simp [hl] at he
    | some v =>
      simp only [hl, Bool.false_eq_true, if_false, bind, Except.bind] at he hr
      split at hr
      · cases hr
      · rename_i w hw
        obtain ⟨body, ns⟩ := w
        simp only [pure, Except.pure, Except.ok.injEq, Prod.mk.injEq] at hr
        obtain ⟨rfl, _⟩ := hr
        exact litlike_group (ih v _ t body ns (henv.lookup hl) (henv.derase name) he hw)
  | android rep =>
    have hrep : rep = false := hc
    subst hrep
    simp only [expandNode, rxNode, bind, Except.bind] at he hr
    cases hg : getAndroidLocale (expandVal fE) env with
    | error e => simp [hg] at he
    | ok oa =>
      cases oa with
      | none => simp [hg] at he
      | some a =>
        simp only [hg, pure, Except.pure, Except.ok.injEq] at he
        subst he
        have hne : getAndroidLocale (expandVal (fuelFor env)) env ≠ .error .recursion := by
          intro hcn
          simp [hcn] at hr
        have := android_same hg rfl hne
        simp only [this, Bool.false_eq_true, if_false, pure, Except.pure, Except.ok.injEq, Prod.mk.injEq] at hr
        obtain ⟨rfl, _⟩ := hr
        exact litlike_group (litlike_lits _)
  | star n =>
    simp only [expandNode] at he
    split at he
    · cases he
    · rename_i s hs
      exact absurd (henv.lookup hs) (by simp [ValOK])
    · cases he
  | starstar n sfx =>
    simp only [expandNode] at he
    split at he
    · cases he
    · rename_i s hs
      exact absurd (henv.lookup hs) (by simp [ValOK])
    · cases he

theorem litlike_children {fE fR : Nat} (ih : HL fE fR) {env : Env} (henv : EnvOK env) :
    ∀ {ns : List Node} {t : Text} {items names}, NoRep ns →
      expandChildren (expandVal fE) ns env true = .ok t →
      rxChildren (rxVal fR) ns env = .ok (items, names) → LitLike items t
  | [], t, items, names, _, he, hr => by
    simp only [expandChildren, rxChildren, pure, Except.pure, Except.ok.injEq, Prod.mk.injEq] at he hr
    obtain ⟨rfl, _⟩ := hr
    subst he
    exact LitLike.nil
  | c :: cs, t, items, names, hnr, he, hr => by
    obtain ⟨a, na, b, nb, h1, h2, rfl, rfl⟩ := rxChildren_cons hr
    rcases expandChildren_cons_ok he with ⟨_, hrm, _⟩ | ⟨ta, tb, h3, h4, rfl⟩
    · cases hrm
    · exact (litlike_node ih (hnr c (by simp)) henv h3 h1).append
        (litlike_children ih henv (fun n hn => hnr n (by simp [hn])) h4 h2)

theorem litlike_val : ∀ fR fE, HL fE fR
  | 0, _ => by
    intro v env t items names hv _ _ hr
    cases v with
    | str s => exact absurd hv (by simp [ValOK])
    | pat p => simp [rxVal] at hr
  | fR + 1, 0 => by
    intro v env t items names hv _ he _
    cases v with
    | str s => exact absurd hv (by simp [ValOK])
    | pat p => simp [expandVal] at he
  | fR + 1, fE + 1 => by
    intro v env t items names hv henv he hr
    cases v with
    | str s => exact absurd hv (by simp [ValOK])
    | pat p =>
      obtain ⟨hroot, hnr⟩ := hv
      simp only [expandVal, rxVal] at he hr
      obtain ⟨root, citems, h1, h2, rfl⟩ := rxPat_inv hr
      rw [rootOf_none hroot] at h1
      simp only [Except.ok.injEq] at h1
      subst h1
      simp only [expandPat, rootOf_none hroot, bind, Except.bind] at he
      split at he
      · cases he
      · rename_i body hb
        simp only [pure, Except.pure, Except.ok.injEq, List.nil_append] at he
        subst he
        simpa using litlike_children (litlike_val fR fE) henv hnr hb h2

end PM

namespace PM
open Rx

/-! ### captures only accumulate; a group that is part of a sequence leaves a capture -/

theorem _root_.Rx.BSem.caps_ext {s : Array Nat} {r : Re} {st st' : St} (h : BSem s r st st') :
    ∃ new, st'.caps = new ++ st.caps := by
  induction h with
  | seq _ _ iha ihb =>
    obtain ⟨n1, h1⟩ := iha
    obtain ⟨n2, h2⟩ := ihb
    exact ⟨n2 ++ n1, by rw [h2, h1, List.append_assoc]⟩
  | repCons _ _ iha ihb =>
    obtain ⟨n1, h1⟩ := iha
    obtain ⟨n2, h2⟩ := ihb
    exact ⟨n2 ++ n1, by rw [h2, h1, List.append_assoc]⟩
  | altL _ ih => exact ih
  | altR _ ih => exact ih
  | @group i r st st' _ ih =>
    obtain ⟨n1, h1⟩ := ih
    exact ⟨(i, st.pos, st'.pos) :: n1, by simp [h1]⟩
  | lookPos _ ih => exact ih
  | _ => exact ⟨[], rfl⟩

theorem SemL.caps_ext {s : Array Nat} {l : List Re} {st st' : St} (h : SemL s l st st') :
    ∃ new, st'.caps = new ++ st.caps := by
  induction h with
  | nil => exact ⟨[], rfl⟩
  | cons hx _ ih =>
    obtain ⟨n1, h1⟩ := hx.caps_ext
    obtain ⟨n2, h2⟩ := ih
    exact ⟨n2 ++ n1, by rw [h2, h1, List.append_assoc]⟩

theorem SemL.group_cap {s : Array Nat} {l : List Re} {st st' : St} (h : SemL s l st st') {i : Nat} {b : Re}
    (hm : Re.group i b ∈ l) : ∃ a' b', (i, a', b') ∈ st'.caps := by
  induction h with
  | nil => cases hm
  | @cons r rs st st1 st2 hx hr ih =>
    simp only [List.mem_cons] at hm
    rcases hm with rfl | hm
    · cases hx with
      | @group _ _ _ stg hg =>
        obtain ⟨n, hn⟩ := hr.caps_ext
        exact ⟨st.pos, stg.pos, by rw [hn]; simp⟩
    · exact ih hm

theorem capOf_of_mem {caps : List (Nat × Nat × Nat)} {i a b : Nat} (h : (i, a, b) ∈ caps) :
    ∃ a' b', capOf caps i = some (a', b') := by
  unfold capOf
  cases hf : caps.find? (·.1 == i) with
  | some e => obtain ⟨j, a', b'⟩ := e; exact ⟨a', b', rfl⟩
  | none =>
    have := List.find?_eq_none.mp hf (i, a, b) h
    simp at this

theorem slice_textAt {s : Array Nat} {p : Nat} {t : Text} (h : TextAt s p t) : slice s p (p + t.length) = t := by
  apply List.ext_getElem?
  intro j
  simp only [slice, Array.getElem?_toList, Array.getElem?_extract]
  by_cases hj : j < t.length
  · have hs := h j hj
    have hlt : p + j < s.size := by
      have : t[j]? = some t[j] := List.getElem?_eq_getElem hj
      rw [this] at hs
      exact getElem?_some_lt hs
    rw [if_pos (by omega)]
    exact hs
  · have : t[j]? = none := List.getElem?_eq_none (by omega)
    rw [this]
    split
    · omega
    · rfl

theorem lookup_map_mem {β} (f : Text → β) (k : Text) : ∀ (names : List Text), k ∈ names →
    (names.map (fun nm => (nm, f nm))).lookup k = some (f k)
  | [], h => by cases h
  | n :: ns, h => by
    simp only [List.map_cons, List.lookup_cons]
    cases hk : (k == n) with
    | true =>
      have : k = n := by simpa using hk
      subst this; rfl
    | false =>
      simp only [List.mem_cons] at h
      rcases h with rfl | h
      · simp at hk
      · exact lookup_map_mem f k ns h

theorem lookup_append_left {β} (k : Text) {v : β} : ∀ (l r : List (Text × β)),
    l.lookup k = some v → (l ++ r).lookup k = some v
  | [], _, h => by simp at h
  | (a, b) :: l, r, h => by
    simp only [List.cons_append, List.lookup_cons] at h ⊢
    cases hk : (k == a) with
    | true => simpa [hk] using h
    | false => simp only [hk] at h ⊢; exact lookup_append_left k l r h

end PM

/- sub between two matchers of the class (nested, fully bound variable values): `a.sub(b, ·)` sends the path
   filled into `a` to the path filled into `b`. -/
import CLModel.Proofs.C12RNest
namespace C11R
open Rx PM

/-- number of a wildcard node -/
def wildNum : Node → Option Nat
  | .star n => some n
  | .starstar n _ => some n
  | _ => none

theorem nameOfN_wild {n : Node} {k : Nat} (h : wildNum n = some k) : nameOfN n = [sname k] := by
  cases n with
  | star j => simp only [wildNum, Option.some.injEq] at h; subst h; rfl
  | starstar j sfx => simp only [wildNum, Option.some.injEq] at h; subst h; rfl
  | lit t => simp [wildNum] at h
  | var name rep => simp [wildNum] at h
  | android r => simp [wildNum] at h

theorem capsVal_wildN {vs : Nat → Text} {env : Env} {n : Node} {k : Nat} (h : wildNum n = some k) :
    capsVal (valOf vs env n) = .str (vs k) := by
  cases n with
  | star j => simp only [wildNum, Option.some.injEq] at h; subst h; rfl
  | starstar j sfx =>
    simp only [wildNum, Option.some.injEq] at h; subst h
    by_cases hv : vs j = [] <;> simp [hv, valOf, capsVal]
  | lit t => simp [wildNum] at h
  | var name rep => simp [wildNum] at h
  | android r => simp [wildNum] at h

theorem pieceText_wild {vs : Nat → Text} {env : Env} {n : Node} {k : Nat} (h : wildNum n = some k) :
    (pieceOf vs env n).text = vs k := by
  cases n with
  | star j => simp only [wildNum, Option.some.injEq] at h; subst h; rfl
  | starstar j sfx =>
    simp only [wildNum, Option.some.injEq] at h; subst h
    simp only [pieceOf]; split <;> rfl
  | lit t => simp [wildNum] at h
  | var name rep => simp [wildNum] at h
  | android r => simp [wildNum] at h

theorem fillN_eq (vs : Nat → Text) (env : Env) (ns : List Node) :
    fillN vs env ns = ns.flatMap (fun n => (pieceOf vs env n).text) := by
  induction ns with
  | nil => rfl
  | cons c cs ih =>
    simp only [fillN, piecesText, List.map_cons, List.flatMap_cons] at ih ⊢
    rw [ih]

theorem keysOnce_derase_len (env : Env) (k : Text) : 2 * (derase env k).length + 2 ≤ fuelFor env := by
  have := derase_length_le env k
  simp only [fuelFor]; omega

/-- a fully bound variable of `b` expands, below the captures, to the same text as in `b`'s own environment -/
theorem var_expand_ext {env env' : Env} (hext : Ext env env') (hgood : GoodEnv env) (hsafe : AndroidSafe env')
    {name : Text} {rep : Bool} {t : Text}
    (ht : expandNode (expandVal (fuelFor env)) (.var name rep) env true = .ok t) (rm' : Bool) :
    expandNode (expandVal (fuelFor env')) (.var name rep) env' rm' = .ok t := by
  simp only [expandNode] at ht ⊢
  cases hl : env.lookup name with
  | none => simp [hl] at ht
  | some v =>
    simp only [hl] at ht
    simp only [hext name v hl]
    have h0 := expandVal_ext _ v _ _ t rm' (hext.derase name) (hgood.derase name) (hgood.lookup hl) ht
    exact expandVal_fuel h0 ((expandVal_norec (fuelFor env')).1 v _ rm' (hsafe.derase name) (keysOnce_derase_len env' name))

/-- **`a.sub(b, ·)` on a filled path** -/
theorem sub_fillN {a b : Matcher} {vs : Nat → Text} {rea : Re} {namesa : List Text} {rta rtb : Text}
    (henva : EnvOK a.env) (hca : ∀ n ∈ a.pattern.nodes, InClassN a.env n)
    (hrea : a.regexOf = .ok (rea, namesa)) (hnaa : androidName ∉ namesa)
    (hroota : rootOf (expandVal (fuelFor a.env)) a.pattern a.env = .ok rta)
    (hsepa : WellSepN vs a.env a.pattern.nodes)
    (hcb : ∀ n ∈ b.pattern.nodes, InClassN b.env n) (hgb : GoodEnv b.env)
    (hrootb : rootOf (expandVal (fuelFor b.env)) b.pattern b.env = .ok rtb)
    (hkb : KeysOnce b.env) (hwb : ∀ k, b.env.lookup (sname k) = none)
    (hsame : ∀ k, k ∈ b.pattern.nodes.filterMap wildNum → k ∈ a.pattern.nodes.filterMap wildNum) :
    a.sub b (rta ++ fillN vs a.env a.pattern.nodes) = .ok (some (rtb ++ fillN vs b.env b.pattern.nodes)) := by
  obtain ⟨g, hmatch, hg⟩ := match_fillN henva hca hrea hnaa hroota hsepa
  rw [PM.sub_of_match hmatch]
  have hlk := fun k => subEnv_lookup' (d := namesa.map (fun nm => (nm, g nm))) (env := b.env) hkb k
  have hext : Ext b.env (subEnv (namesa.map (fun nm => (nm, g nm))) b.env) := by
    intro k v hl; rw [hlk k, hl]
  have hsafe : AndroidSafe (subEnv (namesa.map (fun nm => (nm, g nm))) b.env) := by
    intro p hp
    rw [hlk localeName] at hp
    cases hl : b.env.lookup localeName with
    | some v =>
      simp only [hl, Option.some.injEq] at hp
      subst hp
      exact (hgb.lookup hl).2
    | none =>
      simp only [hl] at hp
      cases hd : (namesa.map (fun nm => (nm, g nm))).reverse.lookup localeName with
      | none => simp [hd] at hp
      | some x => simp [hd, capsVal] at hp
  have hwild : ∀ n ∈ b.pattern.nodes, ∀ k, wildNum n = some k →
      (subEnv (namesa.map (fun nm => (nm, g nm))) b.env).lookup (sname k) = some (.str (vs k)) := by
    intro n hn k hk
    have hkb' : k ∈ b.pattern.nodes.filterMap wildNum := List.mem_filterMap.mpr ⟨n, hn, hk⟩
    obtain ⟨n', hn', hk'⟩ := List.mem_filterMap.mp (hsame k hkb')
    obtain ⟨hmem, hval⟩ := hg n' hn' (sname k) (by rw [nameOfN_wild hk']; simp)
    rw [hlk (sname k), hwb k]
    simp only
    rw [← List.map_reverse, lookup_map_mem (fun nm => g nm) (sname k) namesa.reverse (by simpa using hmem)]
    simp only [Option.map_some, hval, capsVal_wildN hk']
  have hnode : ∀ n ∈ b.pattern.nodes,
      expandNode (expandVal (fuelFor (subEnv (namesa.map (fun nm => (nm, g nm))) b.env))) n
        (subEnv (namesa.map (fun nm => (nm, g nm))) b.env) true = .ok ((pieceOf vs b.env n).text) := by
    intro n hn
    have hc := hcb n hn
    cases n with
    | lit t => rfl
    | star k =>
      simp only [expandNode, hwild _ hn k rfl, pure, Except.pure]
      rw [pieceText_wild (n := .star k) rfl]
    | starstar k sfx =>
      simp only [expandNode, hwild _ hn k rfl, pure, Except.pure]
      rw [pieceText_wild (n := .starstar k sfx) rfl]
    | var name rep =>
      obtain ⟨_, t, ht⟩ := hc
      rw [var_expand_ext hext hgb hsafe ht true]
      simp only [pieceOf, Piece.text, varText, ht]
    | android r => exact absurd hc (by simp [InClassN])
  have hroot' : rootOf (expandVal (fuelFor (subEnv (namesa.map (fun nm => (nm, g nm))) b.env))) b.pattern
      (subEnv (namesa.map (fun nm => (nm, g nm))) b.env) = .ok rtb := by
    cases hrt : b.pattern.root with
    | none =>
      rw [rootOf_none hrt] at hrootb ⊢
      exact hrootb
    | some r =>
      cases hns : b.pattern.nodes with
      | nil => simp [rootOf, hrt, hns] at hrootb
      | cons n0 tl =>
        have hc := hcb n0 (by simp [hns])
        simp only [rootOf, hrt, hns] at hrootb ⊢
        cases n0 with
        | lit t => exact hrootb
        | star k => simp [expandNode, hwb k] at hrootb
        | starstar k sfx => simp [expandNode, hwb k] at hrootb
        | var name rep =>
          obtain ⟨_, t, ht⟩ := hc
          have hsafeb : AndroidSafe b.env := fun p hp => (hgb.lookup hp).2
          rw [var_expand_ext (fun _ _ h => h) hgb hsafeb ht false] at hrootb
          rw [var_expand_ext hext hgb hsafe ht false]
          exact hrootb
        | android r => exact absurd hc (by simp [InClassN])
  simp only [expandTop, expandPat, hroot', bind, Except.bind,
    expandChildren_of_nodes (pc := fun n => (pieceOf vs b.env n).text) b.pattern.nodes hnode,
    pure, Except.pure, Except.map, fillN_eq]

end C11R

/- Helper lemmas for C14: rule compilation (`_compile_rule`), literal keys, the memoised cache. -/
import CLModel.Proofs.C14Filter
namespace Filt
open Filt.Spec

/-! ### literal keys: `re.escape(key) + "$"` matched with `Pattern.match` -/

theorem getElem?_toArray_append (pre suf : List Nat) :
    (pre ++ suf).toArray[pre.length]? = suf.head? := by
  rw [List.getElem?_toArray, List.getElem?_append_right (Nat.le_refl _)]
  simp [List.head?_eq_getElem?]

theorem escapedDollar_m (s : Text) : ∀ (pre suf : List Nat) (caps : List (Nat × Nat × Nat)),
    (Rx.m (pre ++ suf).toArray (escapedDollar s) ⟨pre.length, caps⟩ some).isSome
      = (suf == s || suf == s ++ [10]) := by
  induction s with
  | nil =>
    intro pre suf caps
    simp only [escapedDollar, List.foldr_nil, Rx.m, getElem?_toArray_append]
    rcases suf with _ | ⟨a, _ | ⟨b, t⟩⟩ <;> simp <;> (split <;> simp_all)
  | cons c s ih =>
    intro pre suf caps
    simp only [escapedDollar, List.foldr_cons, Rx.m, getElem?_toArray_append]
    rcases suf with _ | ⟨a, t⟩
    · simp
    · have := ih (pre ++ [a]) t caps
      simp only [List.append_assoc, List.singleton_append, List.length_append, List.length_singleton] at this
      simp only [List.head?_cons]
      by_cases hac : a = c
      · subst hac
        simp [escapedDollar] at this ⊢
        exact this
      · simp [hac]

theorem literal_matches (s ent : Text) :
    (KeyPred.literal s).matches ent = (ent == s || ent == s ++ [10]) := by
  have := escapedDollar_m s [] ent []
  simpa [KeyPred.matches, KeyPred.toRe, Rx.matchAt] using this

/-! ### `_compile_rule` -/

theorem addRules_eq (rules : List Rule) (raws : List RawRule) :
    addRules rules raws = rules ++ raws.flatMap compileRule := by
  unfold addRules
  induction raws generalizing rules with
  | nil => simp
  | cons r rest ih => simp [ih]

theorem compileKeys_action (p : PathM) (a : Action) (k : Option (OneOrMany RawKey)) :
    ∀ r ∈ compileKeys p a k, r.action = a := by
  intro r hr
  rcases k with _ | (k | ks) <;> simp [compileKeys] at hr
  · simp [hr]
  · simp [hr]
  · obtain ⟨_, _, rfl⟩ := hr; rfl

theorem compileRule_action (raw : RawRule) : ∀ r ∈ compileRule raw, r.action = raw.action := by
  intro r hr
  unfold compileRule at hr
  split at hr
  · simp only [List.mem_flatMap] at hr
    obtain ⟨p, _, hp⟩ := hr
    exact compileKeys_action _ _ _ r hp
  · exact compileKeys_action _ _ _ r hr


theorem any_and_const_left {α} (l : List α) (b : Bool) (f : α → Bool) :
    l.any (fun x => b && f x) = (b && l.any f) := by
  induction l with
  | nil => simp
  | cons a l ih => simp [ih]; cases b <;> simp

theorem any_and_const_right {α} (l : List α) (b : Bool) (f : α → Bool) :
    l.any (fun x => f x && b) = (l.any f && b) := by
  induction l with
  | nil => simp
  | cons a l ih => simp [ih]; cases b <;> simp

theorem compileKeys_any (p : PathM) (a : Action) (k : Option (OneOrMany RawKey)) (file : File) (ent : Option Text) :
    (compileKeys p a k).any (fun r => applies r file ent) =
      (p.matchWith file.locale file.fullpath && rawKeyApplies k ent) := by
  rcases k with _ | (k | ks) <;> rcases ent with _ | e <;>
    simp [compileKeys, applies, rawKeyApplies, OneOrMany.toList, List.any_map, Function.comp_def]
  exact any_and_const_left _ _ _

theorem compileRule_any (raw : RawRule) (file : File) (ent : Option Text) :
    (compileRule raw).any (fun r => applies r file ent) = rawApplies raw file ent := by
  unfold compileRule rawApplies
  rcases raw.path with p | ps
  · simp [compileKeys_any, OneOrMany.toList]
  · simp only [List.any_flatMap, compileKeys_any, OneOrMany.toList]
    exact any_and_const_right _ _ _

/-- last element of a concatenation of blocks, seen through a block-constant label -/
theorem getLast?_flatMap_label {α β γ : Type} (g : α → List β) (lb : β → γ) (la : α → γ)
    (h : ∀ a, ∀ b ∈ g a, lb b = la a) (l : List α) :
    (l.flatMap g).getLast?.map lb = (l.filter (fun a => !(g a).isEmpty)).getLast?.map la := by
  induction l with
  | nil => simp
  | cons a l ih =>
    rw [List.flatMap_cons, List.getLast?_append, List.filter_cons]
    by_cases he : (g a).isEmpty = true
    · have : g a = [] := List.isEmpty_iff.mp he
      simp [this, ih]
    · simp only [he, Bool.not_false, if_true]
      rw [List.getLast?_cons]
      cases hx : (List.flatMap g l).getLast? with
      | some x =>
        rw [hx] at ih
        cases hy : (List.filter (fun a => !(g a).isEmpty) l).getLast? with
        | some y => rw [hy] at ih; simpa using ih
        | none => rw [hy] at ih; simp at ih
      | none =>
        rw [hx] at ih
        cases hy : (List.filter (fun a => !(g a).isEmpty) l).getLast? with
        | some y => rw [hy] at ih; simp at ih
        | none =>
          simp only [Option.none_or, Option.getD_none, Option.map_some]
          cases hz : (g a).getLast? with
          | none => exact absurd (List.getLast?_eq_none_iff.mp hz ▸ rfl) he
          | some z => simp [h a z (List.mem_of_getLast? hz)]

theorem not_isEmpty_filter {α} (l : List α) (p : α → Bool) : (!(l.filter p).isEmpty) = l.any p := by
  induction l with
  | nil => simp
  | cons a l ih =>
    rw [List.filter_cons]
    cases hp : p a <;> simp [hp, ih]

theorem own_compiled (paths : List PathEntry) (raws : List RawRule) (file : File) (ent : Option Text) :
    own paths (raws.flatMap compileRule) file ent = ownRaw paths raws file ent := by
  unfold own ownRaw
  have key := getLast?_flatMap_label (fun r => (compileRule r).filter (fun r => applies r file ent))
    Rule.action RawRule.action
    (by intro a b hb; exact compileRule_action a b (List.mem_filter.mp hb).1) raws
  simp only [not_isEmpty_filter, compileRule_any] at key
  rw [← List.filter_flatMap] at key
  split
  · cases h1 : (List.filter (fun r => applies r file ent) (List.flatMap compileRule raws)).getLast? <;>
      cases h2 : (List.filter (fun r => rawApplies r file ent) raws).getLast? <;>
      rw [h1, h2] at key <;> simp_all
  · rfl

/-! ### the memo in `ProjectConfig.cache` -/

theorem cacheStep_valid (paths : List PathEntry) (rules : List Rule) (memo : Option FilterCache) (locale : Text)
    (h : ∀ c, memo = some c → c = buildCache paths rules c.locale) :
    cacheStep memo paths rules locale = buildCache paths rules locale := by
  unfold cacheStep
  cases memo with
  | none => rfl
  | some c =>
    have hc := h c rfl
    by_cases hl : (c.locale == locale) = true
    · simp only [hl, if_true]
      have : c.locale = locale := by simpa using hl
      rw [← this]; exact hc
    · simp [hl]

end Filt

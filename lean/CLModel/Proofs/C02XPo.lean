/- C02 (extension), PO: one record `msgid "K"⏎msgstr "V"⏎` is recovered exactly. -/
import CLModel.Proofs.C02XRx
import CLModel.Proofs.C02Po
namespace C02X
open Rx P Gen.Pat

theorem none_orElse' {α} (f : Unit → Option α) : (none : Option α).orElse f = f () := rfl

/-! ### the string-list item regex -/

/-- body of `(?:\\[\\trn"]|[^"\n\\])*` -/
def poItemBody : Re :=
  Re.alt (Re.seq (Re.lit 92) (Re.cls false [.ch 92, .ch 116, .ch 114, .ch 110, .ch 34])) (Re.cls true [.ch 34, .ch 10, .ch 92])

theorem poItemBody_step (s : Array Nat) (p c : Nat) (caps) (h : s[p]? = some c) (h1 : c ≠ 34) (h2 : c ≠ 10) (h3 : c ≠ 92) (k' : K) :
    m s poItemBody ⟨p, caps⟩ k' = k' ⟨p + 1, caps⟩ := by
  unfold poItemBody
  rw [m_alt, m_seq, lit_fail s p 92 caps (by rw [h]; simp [h3])]
  simp only [none_orElse']
  rw [m_cls_charStep, charStep_ok s _ p c caps h (by simp [inC, ClsItem.has, h1, h2, h3])]

theorem poItemBody_fail (s : Array Nat) (p : Nat) (caps) (h : s[p]? = some 34) (k' : K) :
    m s poItemBody ⟨p, caps⟩ k' = none := by
  unfold poItemBody
  rw [m_alt, m_seq, lit_fail s p 92 caps (by rw [h]; decide)]
  simp only [none_orElse']
  rw [m_cls_charStep, charStep_fail s _ p caps (Or.inr ⟨34, h, by decide⟩)]

/-- ` "text"` at `p` (one blank, quote, `n` plain characters, quote) is one list item -/
theorem po_item_match (s : Array Nat) (p n : Nat) (h0 : s[p]? = some 32) (h1 : s[p + 1]? = some 34)
    (htxt : ∀ j, j < n → ∃ c, s[p + 2 + j]? = some c ∧ c ≠ 34 ∧ c ≠ 10 ∧ c ≠ 92)
    (h2 : s[p + 2 + n]? = some 34) :
    matchAt s PoParser_reListItem p = some ⟨p + 2 + n + 1, [(1, p + 2, p + 2 + n)]⟩ := by
  have hsz := getElem?_some_lt h2
  simp only [matchAt, PoParser_reListItem, m_seq, m_group, m_rep, m_cls_charStep]
  apply charLoop_hit s _ [] _ _ 1 _ p 0 (by omega) (by omega)
  · intro j hj
    have : j = 0 := by omega
    subst this
    exact ⟨32, h0, by decide⟩
  · right
    exact ⟨34, h1, by decide⟩
  rw [lit_ok s _ 34 [] h1]
  apply loop_greedy_hit (m s poItemBody) [] _ _ n _ (p + 1 + 1) 0 (by simp only []; omega) (by omega)
  · intro j hj k'
    obtain ⟨c, hc, a1, a2, a3⟩ := htxt j hj
    exact poItemBody_step s _ c [] (by rw [show p + 1 + 1 + j = p + 2 + j by omega]; exact hc) a1 a2 a3 k'
  · intro k'
    exact poItemBody_fail s _ [] (by rw [show p + 1 + 1 + n = p + 2 + n by omega]; exact h2) k'
  rw [lit_ok s _ 34 _ (by rw [show p + 1 + 1 + n = p + 2 + n by omega]; exact h2)]

/-- a newline that is followed by the end of the text or by something that is neither white-space nor a quote is
    not the start of a further list item -/
theorem po_item_none (s : Array Nat) (p : Nat) (h0 : s[p]? = some 10)
    (h1 : s[p + 1]? = none ∨ ∃ c, s[p + 1]? = some c ∧ c ≠ 32 ∧ c ≠ 9 ∧ c ≠ 13 ∧ c ≠ 10 ∧ c ≠ 34) :
    matchAt s PoParser_reListItem p = none := by
  simp only [matchAt, PoParser_reListItem, m_seq, m_group, m_rep, m_cls_charStep]
  apply charLoop_none s _ [] _ 1 _ p
  · intro j hj
    have : j = 0 := by omega
    subst this
    exact ⟨10, h0, by decide⟩
  · rcases h1 with h1 | ⟨c, hc, a1, a2, a3, a4, _⟩
    · exact Or.inl h1
    · exact Or.inr ⟨c, hc, by simp [inC, ClsItem.has, a1, a2, a3, a4]⟩
  · intro j hj
    by_cases hj0 : j = 0
    · subst hj0
      exact lit_fail s _ 34 [] (by rw [Nat.add_zero, h0]; decide) _
    · have : j = 1 := by omega
      subst this
      apply lit_fail
      rcases h1 with h1 | ⟨c, hc, _, _, _, _, a5⟩
      · rw [h1]; simp
      · rw [hc]; simp [a5]

/-! ### one record -/

/-- `msgid "K"⏎msgstr "V"⏎` -/
def printPoRec (K V : List Nat) : List Nat :=
  kwMsgid ++ (32 :: 34 :: (K ++ (34 :: 10 :: (kwMsgstr ++ (32 :: 34 :: (V ++ [34, 10]))))))

def poEntity (off klen vlen : Nat) : Entry :=
  { kind := .entity, full := off, s := off, e := off + klen + vlen + 18, ks := (off : Nat), ke := (off + klen + 8 : Nat),
    vs := (off + klen + 9 : Nat), ve := (off + klen + vlen + 18 : Nat), pc := none }

def poPartsOf (off klen vlen : Nat) : PoParts :=
  { e := off + klen + vlen + 18, idS := off, idE := off + klen + 8, valS := off + klen + 9, msgctxt := none,
    msgid := [(off + 7, off + 7 + klen)], msgstr := [(off + klen + 17, off + klen + 17 + vlen)] }

/-- the facts about the text at `off` that the proof uses -/
structure PoRecAt (s : Array Nat) (off : Nat) (K V : List Nat) : Prop where
  id : slice s off (off + 5) = kwMsgid
  notctxt : slice s off (off + 7) ≠ kwMsgctxt
  m0 : s[off]? = some 109
  m1 : s[off + 1]? = some 115
  m2 : s[off + 2]? = some 103
  m3 : s[off + 3]? = some 105
  m4 : s[off + 4]? = some 100
  b1 : s[off + 5]? = some 32
  q1 : s[off + 6]? = some 34
  ktxt : ∀ j, j < K.length → ∃ c, s[off + 7 + j]? = some c ∧ c ≠ 34 ∧ c ≠ 10 ∧ c ≠ 92
  q2 : s[off + 7 + K.length]? = some 34
  nl1 : s[off + 8 + K.length]? = some 10
  str : slice s (off + 9 + K.length) (off + 9 + K.length + 6) = kwMsgstr
  s0 : s[off + 9 + K.length]? = some 109
  b2 : s[off + 15 + K.length]? = some 32
  q3 : s[off + 16 + K.length]? = some 34
  vtxt : ∀ j, j < V.length → ∃ c, s[off + 17 + K.length + j]? = some c ∧ c ≠ 34 ∧ c ≠ 10 ∧ c ≠ 92
  q4 : s[off + 17 + K.length + V.length]? = some 34
  nl2 : s[off + 18 + K.length + V.length]? = some 10
  after : s[off + 19 + K.length + V.length]? = none ∨
    ∃ c, s[off + 19 + K.length + V.length]? = some c ∧ c ≠ 32 ∧ c ≠ 9 ∧ c ≠ 13 ∧ c ≠ 10 ∧ c ≠ 34
  kslice : slice s (off + 7) (off + 7 + K.length) = K
  vslice : slice s (off + K.length + 17) (off + K.length + 17 + V.length) = V
  rawslice : slice s (off + K.length + 9) (off + K.length + V.length + 18) = kwMsgstr ++ (32 :: 34 :: (V ++ [34]))
  size_ge : off + K.length + V.length + 19 ≤ s.size

theorem poFrags_one (s : Array Nat) (p n : Nat) (h0 : s[p]? = some 32) (h1 : s[p + 1]? = some 34)
    (htxt : ∀ j, j < n → ∃ c, s[p + 2 + j]? = some c ∧ c ≠ 34 ∧ c ≠ 10 ∧ c ≠ 92)
    (h2 : s[p + 2 + n]? = some 34) (h3 : s[p + 2 + n + 1]? = some 10)
    (h4 : s[p + 2 + n + 1 + 1]? = none ∨ ∃ c, s[p + 2 + n + 1 + 1]? = some c ∧ c ≠ 32 ∧ c ≠ 9 ∧ c ≠ 13 ∧ c ≠ 10 ∧ c ≠ 34) :
    poFrags s (s.size + 1) p = ([(p + 2, p + 2 + n)], p + 2 + n + 1) := by
  have hsz := getElem?_some_lt h3
  obtain ⟨f, hf⟩ : ∃ f, s.size + 1 = f + 1 + 1 := ⟨s.size - 1, by omega⟩
  rw [hf, poFrags]
  simp only [po_item_match s p n h0 h1 htxt h2, show ¬ (p + 2 + n + 1 ≤ p) by omega, if_false]
  rw [poFrags]
  simp only [po_item_none s _ h3 h4]
  simp [St.group, capOf]

theorem po_create (s : Array Nat) (off : Nat) (K V : List Nat) (h : PoRecAt s off K V) :
    poCreate s off = some (poPartsOf off K.length V.length) := by
  have hctxt : poStringList s off kwMsgctxt = none := by
    unfold poStringList startsWithAt
    have : (slice s off (off + kwMsgctxt.length) == kwMsgctxt) = false := by
      rw [show kwMsgctxt.length = 7 from rfl]
      simpa using h.notctxt
    simp [this]
  have hid : poStringList s off kwMsgid = some ([(off + 7, off + 7 + K.length)], off + 8 + K.length) := by
    unfold poStringList startsWithAt
    rw [show kwMsgid.length = 5 from rfl, h.id]
    simp only [beq_self_eq_true, Bool.not_true, Bool.false_eq_true, if_false]
    rw [poFrags_one s (off + 5) K.length h.b1 h.q1
      (fun j hj => by obtain ⟨c, hc, a⟩ := h.ktxt j hj; exact ⟨c, by rw [show off + 5 + 2 + j = off + 7 + j by omega]; exact hc, a⟩)
      (by rw [show off + 5 + 2 + K.length = off + 7 + K.length by omega]; exact h.q2)
      (by rw [show off + 5 + 2 + K.length + 1 = off + 8 + K.length by omega]; exact h.nl1)
      (Or.inr ⟨109, by rw [show off + 5 + 2 + K.length + 1 + 1 = off + 9 + K.length by omega]; exact h.s0,
        by decide, by decide, by decide, by decide, by decide⟩)]
    simp; omega
  have hws : matchAt s Parser_reWhitespace (off + 8 + K.length) = some ⟨off + 8 + K.length + 1, []⟩ :=
    ws_match_one s _ h.nl1 (Or.inr ⟨109, by rw [show off + 8 + K.length + 1 = off + 9 + K.length by omega]; exact h.s0,
      by decide, by decide, by decide, by decide⟩)
  have hstr : poStringList s (off + 8 + K.length + 1) kwMsgstr =
      some ([(off + K.length + 17, off + K.length + 17 + V.length)], off + K.length + V.length + 18) := by
    unfold poStringList startsWithAt
    rw [show kwMsgstr.length = 6 from rfl, show off + 8 + K.length + 1 = off + 9 + K.length by omega, h.str]
    simp only [beq_self_eq_true, Bool.not_true, Bool.false_eq_true, if_false]
    rw [poFrags_one s (off + 9 + K.length + 6) V.length
      (by rw [show off + 9 + K.length + 6 = off + 15 + K.length by omega]; exact h.b2)
      (by rw [show off + 9 + K.length + 6 + 1 = off + 16 + K.length by omega]; exact h.q3)
      (fun j hj => by
        obtain ⟨c, hc, a⟩ := h.vtxt j hj
        exact ⟨c, by rw [show off + 9 + K.length + 6 + 2 + j = off + 17 + K.length + j by omega]; exact hc, a⟩)
      (by rw [show off + 9 + K.length + 6 + 2 + V.length = off + 17 + K.length + V.length by omega]; exact h.q4)
      (by rw [show off + 9 + K.length + 6 + 2 + V.length + 1 = off + 18 + K.length + V.length by omega]; exact h.nl2)
      (by rw [show off + 9 + K.length + 6 + 2 + V.length + 1 + 1 = off + 19 + K.length + V.length by omega]; exact h.after)]
    simp; omega
  unfold poCreate
  simp only [hctxt, hid, hws, hstr]
  simp [poPartsOf]; omega

theorem po_comment_none (s : Array Nat) (off c : Nat) (h0 : s[off]? = some c) (h1 : c ≠ 35) :
    matchAt s PoParser_reComment off = none := by
  have hlt := getElem?_some_lt h0
  simp only [matchAt, PoParser_reComment, m_rep]
  obtain ⟨f, hf⟩ : ∃ f, s.size + 2 - off = f + 1 := ⟨s.size + 1 - off, by omega⟩
  rw [hf]
  apply loop_body_fail_min _ _ _ _ _ _ _ _ (by omega)
  intro k'
  rw [m_seq]
  exact lit_fail s off 35 [] (by rw [h0]; simp [h1]) _

theorem po_key_match (s : Array Nat) (off : Nat) (K V : List Nat) (h : PoRecAt s off K V) :
    matchAt s PoParser_reKey off = some ⟨off + 5, []⟩ := by
  simp only [matchAt, PoParser_reKey, m_seq, m_alt]
  rw [lit_ok s off 109 [] h.m0, lit_ok s _ 115 [] h.m1, lit_ok s _ 103 [] (by rw [show off + 1 + 1 = off + 2 by omega]; exact h.m2)]
  rw [lit_fail s _ 99 [] (by rw [show off + 1 + 1 + 1 = off + 3 by omega, h.m3]; decide)]
  simp only [none_orElse']
  rw [lit_ok s _ 105 [] (by rw [show off + 1 + 1 + 1 = off + 3 by omega]; exact h.m3),
    lit_ok s _ 100 [] (by rw [show off + 1 + 1 + 1 + 1 = off + 4 by omega]; exact h.m4)]

theorem po_entity_at (s : Array Nat) (off : Nat) (K V : List Nat) (h : PoRecAt s off K V) :
    poGetNext s off = poEntity off K.length V.length := by
  have hcm := po_comment_none s off 109 h.m0 (by decide)
  have hws := ws_none s off 109 h.m0 (by decide) (by decide) (by decide) (by decide)
  have hkm := po_key_match s off K V h
  have hcr := po_create s off K V h
  unfold poGetNext getNext
  simp only [poCfg, hcm, hws, hkm, hcr]
  simp [poEntity, poPartsOf]

/-! ### what it evaluates to -/

theorem poOnePassText_plain : ∀ (l : List Nat), (∀ c ∈ l, c ≠ 92) → poOnePassText l = l := by
  intro l
  induction l with
  | nil => intro _; rw [poOnePassText]
  | cons c t ih =>
    intro h
    rw [poOnePassText_copy c t (Or.inl (h c (by simp))), ih (fun d hd => h d (by simp [hd]))]

theorem poEval_one (s : Array Nat) (a b : Nat) (h : ∀ c ∈ slice s a b, c ≠ 92) : poEval s [(a, b)] = some (slice s a b) := by
  unfold poEval
  simp only [List.mapM_cons, List.mapM_nil]
  rw [poUnescape_eq_spec, poOnePassText_plain _ h]
  simp

def expectedPoView (K V : List Nat) : Option EntView :=
  some { key := K, ctxt := some none, raw := kwMsgstr ++ (32 :: 34 :: (V ++ [34])),
         val := some (if V.isEmpty then K else V), comment := none }

theorem entView_poEntity (s : Array Nat) (off : Nat) (K V : List Nat) (h : PoRecAt s off K V)
    (hK : ∀ c ∈ K, c ≠ 92) (hV : ∀ c ∈ V, c ≠ 92) :
    entView .po s (poEntity off K.length V.length) = expectedPoView K V := by
  have hcr := po_create s off K V h
  have e1 : poEval s [(off + 7, off + 7 + K.length)] = some K := by
    rw [poEval_one s _ _ (by rw [h.kslice]; exact hK), h.kslice]
  have e2 : poEval s [(off + K.length + 17, off + K.length + 17 + V.length)] = some V := by
    rw [poEval_one s _ _ (by rw [h.vslice]; exact hV), h.vslice]
  have hsz := h.size_ge
  simp only [entView, poEntity, hcr, poPartsOf, e1, e2, expectedPoView]
  rw [pySlice_nat s _ _ (by omega) (by omega), h.rawslice]
  simp

/-! ### from the printed text -/

theorem poRecAt_of_drop (s : Array Nat) (off : Nat) (K V rest : List Nat)
    (hK : ∀ c ∈ K, c ≠ 34 ∧ c ≠ 10 ∧ c ≠ 92) (hV : ∀ c ∈ V, c ≠ 34 ∧ c ≠ 10 ∧ c ≠ 92)
    (hrest : ∀ c, rest.head? = some c → c ≠ 32 ∧ c ≠ 9 ∧ c ≠ 13 ∧ c ≠ 10 ∧ c ≠ 34)
    (h : s.toList.drop off = printPoRec K V ++ rest) : PoRecAt s off K V := by
  have hA : s.toList.drop off = [109, 115, 103, 105, 100, 32, 34] ++ (K ++ (34 :: 10 :: (kwMsgstr ++ (32 :: 34 :: (V ++ (34 :: 10 :: rest)))))) := by
    simp [h, printPoRec, kwMsgid]
  have hB : s.toList.drop (off + 7) = K ++ (34 :: 10 :: (kwMsgstr ++ (32 :: 34 :: (V ++ (34 :: 10 :: rest))))) := drop_app s off _ _ hA
  have hC : s.toList.drop (off + 7 + K.length) = [34, 10] ++ (kwMsgstr ++ (32 :: 34 :: (V ++ (34 :: 10 :: rest)))) := drop_app s _ _ _ hB
  have hD : s.toList.drop (off + 7 + K.length + 2) = [109, 115, 103, 115, 116, 114, 32, 34] ++ (V ++ (34 :: 10 :: rest)) := by
    have := drop_app s _ _ _ hC
    simpa [kwMsgstr] using this
  have hE : s.toList.drop (off + 7 + K.length + 2 + 8) = V ++ (34 :: 10 :: rest) := drop_app s _ _ _ hD
  have hF : s.toList.drop (off + 7 + K.length + 2 + 8 + V.length) = [34, 10] ++ rest := drop_app s _ _ _ hE
  have hG : s.toList.drop (off + 7 + K.length + 2 + 8 + V.length + 2) = rest := drop_app s _ _ _ hF
  have gA := fun i hi => get_app_left s off _ _ hA i hi
  have gC := fun i hi => get_app_left s _ _ _ hC i hi
  have gD := fun i hi => get_app_left s _ _ _ hD i hi
  have gF := fun i hi => get_app_left s _ _ _ hF i hi
  have hsize : off + K.length + V.length + 19 ≤ s.size := by
    have h1 : (printPoRec K V ++ rest).length = s.size - off := by rw [← h]; simp
    simp [printPoRec, kwMsgid, kwMsgstr] at h1
    omega
  refine { id := ?_, notctxt := ?_, m0 := ?_, m1 := ?_, m2 := ?_, m3 := ?_, m4 := ?_, b1 := ?_, q1 := ?_, ktxt := ?_,
           q2 := ?_, nl1 := ?_, str := ?_, s0 := ?_, b2 := ?_, q3 := ?_, vtxt := ?_, q4 := ?_, nl2 := ?_, after := ?_,
           kslice := ?_, vslice := ?_, rawslice := ?_, size_ge := hsize }
  · rw [slice_take s off 5 _ hA (by simp)]; rfl
  · rw [slice_take s off 7 _ hA (by simp)]; simp [kwMsgctxt]
  · simpa using gA 0 (by simp)
  · simpa using gA 1 (by simp)
  · simpa using gA 2 (by simp)
  · simpa using gA 3 (by simp)
  · simpa using gA 4 (by simp)
  · simpa using gA 5 (by simp)
  · simpa using gA 6 (by simp)
  · intro j hj
    exact ⟨K[j], get_app_left s _ _ _ hB j hj, hK _ (List.getElem_mem hj)⟩
  · simpa using gC 0 (by simp)
  · have := gC 1 (by simp)
    rw [show off + 8 + K.length = off + 7 + K.length + 1 by omega]
    simpa using this
  · rw [show off + 9 + K.length = off + 7 + K.length + 2 by omega, slice_take s _ 6 _ hD (by simp)]; rfl
  · have := gD 0 (by simp)
    rw [show off + 9 + K.length = off + 7 + K.length + 2 + 0 by omega]
    simpa using this
  · have := gD 6 (by simp)
    rw [show off + 15 + K.length = off + 7 + K.length + 2 + 6 by omega]
    simpa using this
  · have := gD 7 (by simp)
    rw [show off + 16 + K.length = off + 7 + K.length + 2 + 7 by omega]
    simpa using this
  · intro j hj
    refine ⟨V[j], ?_, hV _ (List.getElem_mem hj)⟩
    rw [show off + 17 + K.length + j = off + 7 + K.length + 2 + 8 + j by omega]
    exact get_app_left s _ _ _ hE j hj
  · have := gF 0 (by simp)
    rw [show off + 17 + K.length + V.length = off + 7 + K.length + 2 + 8 + V.length + 0 by omega]
    simpa using this
  · have := gF 1 (by simp)
    rw [show off + 18 + K.length + V.length = off + 7 + K.length + 2 + 8 + V.length + 1 by omega]
    simpa using this
  · have g := get_of_drop s _ 0 _ hG
    rw [show off + 19 + K.length + V.length = off + 7 + K.length + 2 + 8 + V.length + 2 + 0 by omega, g]
    cases rest with
    | nil => left; rfl
    | cons c t => right; exact ⟨c, rfl, hrest c rfl⟩
  · rw [slice_take s _ K.length _ hB (by simp)]; simp
  · rw [show off + K.length + 17 = off + 7 + K.length + 2 + 8 by omega, slice_take s _ V.length _ hE (by simp)]; simp
  · have hD' : s.toList.drop (off + K.length + 9) = (kwMsgstr ++ (32 :: 34 :: (V ++ [34]))) ++ (10 :: rest) := by
      rw [show off + K.length + 9 = off + 7 + K.length + 2 by omega, hD]
      simp [kwMsgstr]
    have := slice_take s _ (kwMsgstr ++ (32 :: 34 :: (V ++ [34]))).length _ hD' (by simp)
    rw [List.take_left] at this
    rw [← this]
    congr 1
    simp [kwMsgstr]; omega

theorem po_eval_parts (s : Array Nat) (off : Nat) (K V : List Nat) (h : PoRecAt s off K V)
    (hK : ∀ c ∈ K, c ≠ 92) (hV : ∀ c ∈ V, c ≠ 92) :
    poEval s (poPartsOf off K.length V.length).msgid = some K ∧ poEval s (poPartsOf off K.length V.length).msgstr = some V := by
  constructor
  · show poEval s [(off + 7, off + 7 + K.length)] = some K
    rw [poEval_one s _ _ (by rw [h.kslice]; exact hK), h.kslice]
  · show poEval s [(off + K.length + 17, off + K.length + 17 + V.length)] = some V
    rw [poEval_one s _ _ (by rw [h.vslice]; exact hV), h.vslice]

end C02X

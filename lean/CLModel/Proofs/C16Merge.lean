/-
Helper lemmas for C16: `merge_two` with `keep_newer=False` over dicts with duplicate-free keys,
whitespace folding, and the two shapes of `AddRemove` the serializer meets.  Core Lean only.
-/
import CLModel.Serialize.Serializer
import CLModel.Proofs.C16Dict
namespace C16L
open AR Ser

/-! ### two shapes of the key diff -/

section AR
variable {α : Type} [BEq α] [LawfulBEq α]

omit [LawfulBEq α] in
theorem anchors_of_subset (l r : List α) (cur : Option α) (h : ∀ x ∈ r, l.contains x = true) :
    anchors l r cur = [] := by
  induction r generalizing cur with
  | nil => rfl
  | cons x xs ih =>
    simp only [anchors, h x List.mem_cons_self, if_true]
    exact ih _ (fun y hy => h y (List.mem_cons_of_mem _ hy))

/-- when every key of the older dict is in the newer one, the diff is the newer key order -/
theorem addRemove_keys_of_subset (l r : List α) (hl : l.Nodup) (hr : r.Nodup) (h : ∀ x ∈ r, x ∈ l) :
    (addRemove l r).map (·.2) = l := by
  rw [addRemove_eq_spec l r hl hr, spec_keys, anchors_of_subset l r none (fun x hx => by simpa using h x hx)]
  simp

/-- the keys of the newer dict keep their order -/
theorem addRemove_keys_filter_left (l r : List α) (hl : l.Nodup) (hr : r.Nodup) :
    ((addRemove l r).map (·.2)).filter (fun k => l.contains k) = l := by
  have h1 : ((addRemove l r).filter (fun p => p.1 != Label.add)).map (·.2) = l := by
    rw [addRemove_eq_spec l r hl hr]; exact spec_left_order l r
  have h2 : (addRemove l r).filter (fun p => p.1 != Label.add)
      = (addRemove l r).filter (fun p => l.contains p.2) := by
    apply List.filter_congr
    intro p hp
    rw [addRemove_labels l r hl hr p hp, lab]
    cases l.contains p.2 <;> cases r.contains p.2 <;> rfl
  rw [h2] at h1
  rw [List.filter_map]
  exact h1

end AR

/-! ### the two prune steps are the generic folding step -/

/-- pairs of `contents` whose entity is not `None` -/
def strip (cs : List (MKey × Option Ent)) : List (MKey × Ent) :=
  cs.filterMap (fun c => c.2.map (fun e => (c.1, e)))

def pIsWs (p : MKey × Ent) : Bool := p.2.isWs
def pLen (p : MKey × Ent) : Nat := p.2.all.length

theorem pruneStep_some (racc : List (MKey × Ent)) (k : MKey) (e : Ent) :
    pruneStep racc (k, some e) = genStep pIsWs pLen racc (k, e) := by
  cases racc with
  | nil => rfl
  | cons p rest => cases p; rfl

theorem pruneFold_eq (cs : List (MKey × Option Ent)) (racc : List (MKey × Ent)) :
    cs.foldl pruneStep racc = (strip cs).foldl (genStep pIsWs pLen) racc := by
  induction cs generalizing racc with
  | nil => rfl
  | cons c cs ih =>
    obtain ⟨k, oe⟩ := c
    cases oe with
    | none =>
      have : pruneStep racc (k, none) = racc := rfl
      rw [List.foldl_cons, this, ih]
      rfl
    | some e =>
      rw [List.foldl_cons, pruneStep_some, ih]
      rfl

theorem pruneWsStep_eq (racc : List Ent) (e : Ent) :
    pruneWsStep racc e = genStep Ent.isWs (fun e => e.all.length) racc e := by
  cases racc with
  | nil => rfl
  | cons p rest => rfl

theorem prunePlaceholders_eq (es : List Ent) :
    prunePlaceholders es
      = ((es.filter (fun e => !e.isPlaceholder)).foldl (genStep Ent.isWs (fun e => e.all.length)) []).reverse := by
  unfold prunePlaceholders
  congr 1
  have : pruneWsStep = genStep Ent.isWs (fun e => e.all.length) := by
    funext racc e; exact pruneWsStep_eq racc e
  rw [this]

/-- `prune_placeholders` selects entries of its input, in order -/
theorem prunePlaceholders_sublist (es : List Ent) : (prunePlaceholders es).Sublist es := by
  rw [prunePlaceholders_eq]
  have := genFold_sublist Ent.isWs (fun e => e.all.length) (es.filter (fun e => !e.isPlaceholder)) []
  simp only [List.reverse_nil, List.nil_append] at this
  exact this.trans List.filter_sublist

/-- ... and keeps every entry that is neither a placeholder nor whitespace -/
theorem prunePlaceholders_nonws (es : List Ent) :
    (prunePlaceholders es).filter (fun e => !e.isWs) = es.filter (fun e => !e.isPlaceholder && !e.isWs) := by
  rw [prunePlaceholders_eq]
  have := genFold_nonws Ent.isWs (fun e => e.all.length) (es.filter (fun e => !e.isPlaceholder)) []
  simp only [List.reverse_nil, List.filter_nil, List.nil_append] at this
  rw [this, List.filter_filter]
  apply List.filter_congr
  intro e _
  rw [Bool.and_comm]

/-! ### merge_two, older values win -/

def dkeys (d : Dict) : List MKey := d.map (·.1)

/-- the pairs `(key, get_older_entity(newer, older, key))` that are not `None`, in diff order -/
def olderPairs (N O : Dict) : List (MKey × Ent) :=
  ((addRemove (dkeys N) (dkeys O)).map (·.2)).filterMap (fun k => (getOlder N O k).map (fun e => (k, e)))

theorem strip_contents (N O : Dict) :
    strip ((addRemove (dkeys N) (dkeys O)).map (fun p => (p.2, getOlder N O p.2))) = olderPairs N O := by
  unfold strip olderPairs
  rw [List.filterMap_map, List.filterMap_map]
  rfl

theorem filterMap_pair_keys {γ : Type} (ks : List γ) (f : γ → Option Ent) :
    (ks.filterMap (fun k => (f k).map (fun e => (k, e)))).map (·.1) = ks.filter (fun k => (f k).isSome) := by
  induction ks with
  | nil => rfl
  | cons k ks ih =>
    rw [List.filterMap_cons, List.filter_cons]
    cases h : f k with
    | none => simpa using ih
    | some e => simp [ih]

theorem olderPairs_keys_nodup (N O : Dict) (hN : (dkeys N).Nodup) (hO : (dkeys O).Nodup) :
    ((olderPairs N O).map (·.1)).Nodup := by
  unfold olderPairs
  rw [filterMap_pair_keys]
  exact (addRemove_keys_nodup _ _ hN hO).filter _

theorem mergeTwo_eq (N O : Dict) (hN : (dkeys N).Nodup) (hO : (dkeys O).Nodup) :
    mergeTwo N O false = ((olderPairs N O).foldl (genStep pIsWs pLen) []).reverse := by
  unfold mergeTwo
  simp only [Bool.false_eq_true, if_false]
  rw [pruneFold_eq]
  have := strip_contents N O
  unfold dkeys at this
  rw [this]
  apply mkDict_of_nodup
  have hs := genFold_sublist pIsWs pLen (olderPairs N O) []
  simp only [List.reverse_nil, List.nil_append] at hs
  exact (olderPairs_keys_nodup N O hN hO).sublist (hs.map _)

theorem mergeTwo_sublist (N O : Dict) (hN : (dkeys N).Nodup) (hO : (dkeys O).Nodup) :
    (mergeTwo N O false).Sublist (olderPairs N O) := by
  rw [mergeTwo_eq N O hN hO]
  have hs := genFold_sublist pIsWs pLen (olderPairs N O) []
  simpa using hs

theorem mergeTwo_keys_nodup (N O : Dict) (kn : Bool) : (dkeys (mergeTwo N O kn)).Nodup := by
  unfold mergeTwo dkeys
  exact mkDict_keys_nodup _

theorem mergeTwo_nonws (N O : Dict) (hN : (dkeys N).Nodup) (hO : (dkeys O).Nodup) :
    (mergeTwo N O false).filter (fun p => !p.2.isWs) = (olderPairs N O).filter (fun p => !p.2.isWs) := by
  rw [mergeTwo_eq N O hN hO]
  have := genFold_nonws pIsWs pLen (olderPairs N O) []
  simpa [pIsWs] using this

theorem mem_olderPairs {N O : Dict} {p : MKey × Ent} (h : p ∈ olderPairs N O) : getOlder N O p.1 = some p.2 := by
  unfold olderPairs at h
  rw [List.mem_filterMap] at h
  obtain ⟨k, _, hk⟩ := h
  cases hg : getOlder N O k with
  | none => rw [hg] at hk; simp at hk
  | some e =>
    rw [hg] at hk
    simp only [Option.map_some, Option.some.injEq] at hk
    subst hk
    exact hg

theorem getOlder_mem {N O : Dict} {k : MKey} {e : Ent} (h : getOlder N O k = some e) :
    (k, e) ∈ N ∨ (k, e) ∈ O := by
  unfold getOlder at h
  cases ho : dget O k with
  | none => rw [ho] at h; exact .inl (dget_some_mem' h)
  | some e' =>
    rw [ho] at h
    simp only at h
    split at h
    · exact .inl (dget_some_mem' h)
    · simp only [Option.some.injEq] at h
      subst h
      exact .inr (dget_some_mem' ho)

theorem mem_mergeTwo {N O : Dict} (hN : (dkeys N).Nodup) (hO : (dkeys O).Nodup) {p : MKey × Ent}
    (h : p ∈ mergeTwo N O false) : p ∈ N ∨ p ∈ O := by
  have := (mergeTwo_sublist N O hN hO).subset h
  exact getOlder_mem (mem_olderPairs this)

end C16L

/- C06 helper lemmas, part 2: `find_longest_match`. -/
import CLModel.Checks.Difflib
import CLModel.Proofs.C06B2j
namespace Difflib
variable {α : Type} [DecidableEq α]

/-- value stored under key `j` in a `j2len` dict (0 if absent) -/
def getK (d : List (Nat × Nat)) (j : Nat) : Nat :=
  match d.find? (fun p => p.1 == j) with
  | some p => p.2
  | none => 0

theorem j2lenGet_eq (d : List (Nat × Nat)) (j : Nat) :
    j2lenGet d j = if j = 0 then 0 else getK d (j - 1) := rfl

theorem getK_cons (d : List (Nat × Nat)) (j k j' : Nat) :
    getK ((j, k) :: d) j' = if j = j' then k else getK d j' := by
  by_cases h : j = j'
  · subst h; simp [getK]
  · have : (j == j') = false := by simp [h]
    simp [getK, this, h]

theorem foldl_congr_mem {β γ : Type} (f g : β → γ → β) (l : List γ) (b : β)
    (h : ∀ c x, x ∈ l → f c x = g c x) : l.foldl f b = l.foldl g b := by
  induction l generalizing b with
  | nil => rfl
  | cons x xs ih =>
    simp only [List.foldl_cons]
    rw [h b x (by simp)]
    exact ih _ (fun c y hy => h c y (by simp [hy]))

/-- one step of the inner loop on `best` -/
def bestStep (i : Nat) (j2len : List (Nat × Nat)) (c : Block) (j : Nat) : Block :=
  if j2lenGet j2len j + 1 > c.k then ⟨i + 1 - (j2lenGet j2len j + 1), j + 1 - (j2lenGet j2len j + 1), j2lenGet j2len j + 1⟩ else c

theorem innerLoop_spec (i blo bhi : Nat) (j2len : List (Nat × Nat)) (js : List Nat)
    (hasc : js.Pairwise (· < ·)) (nj : List (Nat × Nat)) (best : Block) :
    (innerLoop i blo bhi j2len js (nj, best)).2 =
        (js.filter (fun j => decide (blo ≤ j ∧ j < bhi))).foldl (bestStep i j2len) best ∧
    ∀ j', getK (innerLoop i blo bhi j2len js (nj, best)).1 j' =
        if j' ∈ js ∧ blo ≤ j' ∧ j' < bhi then j2lenGet j2len j' + 1 else getK nj j' := by
  induction js generalizing nj best with
  | nil => simp [innerLoop]
  | cons j js ih =>
    have hasc' := (List.pairwise_cons.mp hasc).2
    have hgt := (List.pairwise_cons.mp hasc).1
    simp only [innerLoop]
    by_cases h1 : j < blo
    · simp only [h1, if_true]
      obtain ⟨ih1, ih2⟩ := ih hasc' nj best
      refine ⟨?_, ?_⟩
      · rw [ih1]
        have : ¬ (blo ≤ j ∧ j < bhi) := by omega
        simp [List.filter_cons, this]
      · intro j'
        rw [ih2]
        by_cases hj : j' = j
        · subst hj
          have : ¬ (blo ≤ j' ∧ j' < bhi) := by omega
          simp [this]
        · simp [hj]
    · simp only [h1, if_false]
      by_cases h2 : j ≥ bhi
      · simp only [h2, if_true]
        have hall : ∀ x ∈ j :: js, ¬ (blo ≤ x ∧ x < bhi) := by
          intro x hx
          rcases List.mem_cons.mp hx with rfl | hx
          · omega
          · have := hgt x hx; omega
        refine ⟨?_, ?_⟩
        · have : (j :: js).filter (fun j => decide (blo ≤ j ∧ j < bhi)) = [] := by
            rw [List.filter_eq_nil_iff]
            intro x hx
            simpa using hall x hx
          rw [this]; rfl
        · intro j'
          split
          · rename_i hc
            exact absurd hc.2 (hall j' hc.1)
          · rfl
      · simp only [h2, if_false]
        obtain ⟨ih1, ih2⟩ := ih hasc' ((j, j2lenGet j2len j + 1) :: nj)
          (if j2lenGet j2len j + 1 > best.k then ⟨i + 1 - (j2lenGet j2len j + 1), j + 1 - (j2lenGet j2len j + 1), j2lenGet j2len j + 1⟩ else best)
        refine ⟨?_, ?_⟩
        · rw [ih1]
          have : (blo ≤ j ∧ j < bhi) := by omega
          simp [List.filter_cons, this, bestStep]
        · intro j'
          rw [ih2, getK_cons]
          by_cases hj : j = j'
          · subst hj
            have : (blo ≤ j ∧ j < bhi) := by omega
            simp [this]
          · have hj' : ¬ j' = j := fun h => hj h.symm
            simp [hj, hj']

/-! ### the dynamic-programming row -/

/-- `rowv M blo bhi alo n j` = value stored under key `j` after `n` iterations of the outer loop
    started at `alo`, where `M i j` says that `j` is listed in `b2j[a[i]]`. -/
def rowv (M : Nat → Nat → Bool) (blo bhi alo : Nat) : Nat → Nat → Nat
  | 0, _ => 0
  | n + 1, j =>
    if M (alo + n) j ∧ blo ≤ j ∧ j < bhi then (if j = 0 then 0 else rowv M blo bhi alo n (j - 1)) + 1 else 0

/-- `j` is listed in `b2j[a[i]]` -/
def Mrel (a : List α) (b2j : List (α × List Nat)) (i j : Nat) : Bool :=
  match a[i]? with
  | some x => decide (j ∈ b2jGet b2j x)
  | none => false

/-- generic invariant rule for the outer loop -/
theorem outerLoop_inv (a : List α) (b2j : List (α × List Nat)) (blo bhi alo : Nat)
    (hsorted : ∀ x, (b2jGet b2j x).Pairwise (· < ·))
    (Inv : Nat → Block → Prop)
    (hstep : ∀ n best x, a[alo + n]? = some x → Inv n best →
      Inv (n + 1) ((((b2jGet b2j x).filter (fun j => decide (blo ≤ j ∧ j < bhi))).foldl
        (fun c j => if rowv (Mrel a b2j) blo bhi alo (n + 1) j > c.k then
            ⟨alo + n + 1 - rowv (Mrel a b2j) blo bhi alo (n + 1) j, j + 1 - rowv (Mrel a b2j) blo bhi alo (n + 1) j,
              rowv (Mrel a b2j) blo bhi alo (n + 1) j⟩ else c) best))) :
    ∀ (m n : Nat) (j2len : List (Nat × Nat)) (best : Block),
      alo + n + m ≤ a.length →
      (∀ j, getK j2len j = rowv (Mrel a b2j) blo bhi alo n j) → Inv n best →
      ∃ best', outerLoop a b2j blo bhi m (alo + n) j2len best = some best' ∧ Inv (n + m) best' := by
  intro m
  induction m with
  | zero => intro n j2len best _ _ hi; exact ⟨best, rfl, hi⟩
  | succ m ih =>
    intro n j2len best hlen hrow hinv
    have hlt : alo + n < a.length := by omega
    simp only [outerLoop]
    have hx : a[alo + n]? = some a[alo + n] := List.getElem?_eq_getElem hlt
    rw [hx]
    simp only
    obtain ⟨s1, s2⟩ := innerLoop_spec (alo + n) blo bhi j2len (b2jGet b2j a[alo + n])
      (hsorted _) [] best
    -- value of a processed key
    have hval : ∀ j, j ∈ b2jGet b2j a[alo + n] → blo ≤ j ∧ j < bhi →
        j2lenGet j2len j + 1 = rowv (Mrel a b2j) blo bhi alo (n + 1) j := by
      intro j hj hb
      have hM : Mrel a b2j (alo + n) j = true := by simp [Mrel, hx, hj]
      simp only [rowv, hM, hb, and_self, if_true, true_and, j2lenGet_eq]
      by_cases h0 : j = 0
      · simp [h0]
      · simp [h0, hrow]
    have hrow' : ∀ j, getK (innerLoop (alo + n) blo bhi j2len (b2jGet b2j a[alo + n]) ([], best)).1 j
        = rowv (Mrel a b2j) blo bhi alo (n + 1) j := by
      intro j
      rw [s2]
      split
      · rename_i hc
        exact hval j hc.1 hc.2
      · rename_i hc
        have : ¬ (Mrel a b2j (alo + n) j = true ∧ blo ≤ j ∧ j < bhi) := by
          intro h
          apply hc
          refine ⟨?_, h.2⟩
          simpa [Mrel, hx] using h.1
        simp only [rowv]
        rw [if_neg this]
        simp [getK]
    have hbest : (innerLoop (alo + n) blo bhi j2len (b2jGet b2j a[alo + n]) ([], best)).2 =
        (((b2jGet b2j a[alo + n]).filter (fun j => decide (blo ≤ j ∧ j < bhi))).foldl
        (fun c j => if rowv (Mrel a b2j) blo bhi alo (n + 1) j > c.k then
            ⟨alo + n + 1 - rowv (Mrel a b2j) blo bhi alo (n + 1) j, j + 1 - rowv (Mrel a b2j) blo bhi alo (n + 1) j,
              rowv (Mrel a b2j) blo bhi alo (n + 1) j⟩ else c) best) := by
      rw [s1]
      apply foldl_congr_mem
      intro c j hj
      have hj' := List.mem_filter.mp hj
      have hb : blo ≤ j ∧ j < bhi := by simpa using hj'.2
      simp only [bestStep, hval j hj'.1 hb]
    have hinv' : Inv (n + 1) (innerLoop (alo + n) blo bhi j2len (b2jGet b2j a[alo + n]) ([], best)).2 := by
      rw [hbest]; exact hstep n best _ hx hinv
    obtain ⟨b', h1, h2⟩ := ih (n + 1) _ _ (by omega) hrow' hinv'
    refine ⟨b', ?_, ?_⟩
    · rw [← h1]; congr 1
    · have : n + 1 + m = n + (m + 1) := by omega
      rw [← this]; exact h2

end Difflib

namespace Difflib
variable {α : Type} [DecidableEq α]

theorem foldl_inv {β γ : Type} (P : β → Prop) (f : β → γ → β) (l : List γ) (b : β)
    (h : ∀ c x, x ∈ l → P c → P (f c x)) (hb : P b) : P (l.foldl f b) := by
  induction l generalizing b with
  | nil => exact hb
  | cons x xs ih =>
    simp only [List.foldl_cons]
    exact ih _ (fun c y hy => h c y (by simp [hy])) (h b x (by simp) hb)

theorem rowv_spec (M : Nat → Nat → Bool) (blo bhi alo : Nat) :
    ∀ n j, rowv M blo bhi alo n j ≤ n ∧
      (rowv M blo bhi alo n j > 0 → rowv M blo bhi alo n j ≤ j + 1 - blo ∧ j < bhi) ∧
      ∀ t, t < rowv M blo bhi alo n j → M (alo + n - 1 - t) (j - t) = true := by
  intro n
  induction n with
  | zero => intro j; simp [rowv]
  | succ n ih =>
    intro j
    simp only [rowv]
    split
    · rename_i hc
      obtain ⟨hM, hlo, hhi⟩ := hc
      by_cases h0 : j = 0
      · subst h0
        simp only [if_true, Nat.zero_add]
        refine ⟨by omega, fun _ => ⟨by omega, hhi⟩, ?_⟩
        intro t ht
        have : t = 0 := by omega
        subst this
        simpa using hM
      · simp only [h0, if_false]
        obtain ⟨i1, i2, i3⟩ := ih (j - 1)
        refine ⟨by omega, fun _ => ⟨?_, hhi⟩, ?_⟩
        · by_cases hp : rowv M blo bhi alo n (j - 1) > 0
          · have := (i2 hp).1; omega
          · omega
        · intro t ht
          cases t with
          | zero => simpa using hM
          | succ t =>
            have := i3 t (by omega)
            have e1 : alo + (n + 1) - 1 - (t + 1) = alo + n - 1 - t := by omega
            have e2 : j - (t + 1) = j - 1 - t := by omega
            rw [e1, e2]; exact this
    · simp

/-- the block lies inside the box -/
structure InBox (alo ahi blo bhi : Nat) (x : Block) : Prop where
  h1 : alo ≤ x.i
  h2 : x.i + x.k ≤ ahi
  h3 : blo ≤ x.j
  h4 : x.j + x.k ≤ bhi

/-- `a[i:i+k] == b[j:j+k]` (and both slices exist) -/
def IsMatch (a b : List α) (x : Block) : Prop :=
  ∀ t, t < x.k → ∃ v, a[x.i + t]? = some v ∧ b[x.j + t]? = some v

/-- `b2j` only lists positions of the element itself -/
def B2jSound (b : List α) (b2j : List (α × List Nat)) : Prop :=
  ∀ x j, j ∈ b2jGet b2j x → b[j]? = some x

def B2jSorted (b2j : List (α × List Nat)) : Prop :=
  ∀ x : α, (b2jGet b2j x).Pairwise (· < ·)

theorem Mrel_sound {a b : List α} {b2j : List (α × List Nat)} (hs : B2jSound b b2j) {i j : Nat}
    (h : Mrel a b2j i j = true) : ∃ v, a[i]? = some v ∧ b[j]? = some v := by
  unfold Mrel at h
  split at h
  · rename_i x hx
    exact ⟨x, hx, hs x j (by simpa using h)⟩
  · cases h

/-- one row of the outer loop keeps `best` a really matching block of the rows seen so far -/
theorem step_valid (a b : List α) (b2j : List (α × List Nat)) (hsound : B2jSound b b2j)
    (alo blo bhi : Nat) (n : Nat) (best : Block) (js : List Nat)
    (hinv : InBox alo (alo + n) blo bhi best ∧ IsMatch a b best) :
    (fun best => InBox alo (alo + (n + 1)) blo bhi best ∧ IsMatch a b best)
      (js.foldl
        (fun c j => if rowv (Mrel a b2j) blo bhi alo (n + 1) j > c.k then
            ⟨alo + n + 1 - rowv (Mrel a b2j) blo bhi alo (n + 1) j, j + 1 - rowv (Mrel a b2j) blo bhi alo (n + 1) j,
              rowv (Mrel a b2j) blo bhi alo (n + 1) j⟩ else c) best) := by
  apply foldl_inv (fun best => InBox alo (alo + (n + 1)) blo bhi best ∧ IsMatch a b best)
  · intro c j hj hc
    split
    · rename_i hgt
      obtain ⟨r1, r2, r3⟩ := rowv_spec (Mrel a b2j) blo bhi alo (n + 1) j
      have hpos : rowv (Mrel a b2j) blo bhi alo (n + 1) j > 0 := by omega
      obtain ⟨r4, r5⟩ := r2 hpos
      refine ⟨⟨?_, ?_, ?_, ?_⟩, ?_⟩
      · simp only; omega
      · simp only; omega
      · simp only; omega
      · simp only; omega
      · intro t ht
        simp only at ht ⊢
        have := r3 (rowv (Mrel a b2j) blo bhi alo (n + 1) j - 1 - t) (by omega)
        obtain ⟨v, hv1, hv2⟩ := Mrel_sound hsound this
        refine ⟨v, ?_, ?_⟩
        · rw [← hv1]; congr 1; omega
        · rw [← hv2]; congr 1; omega
    · exact hc
  · exact ⟨⟨hinv.1.h1, by have := hinv.1.h2; omega, hinv.1.h3, hinv.1.h4⟩, hinv.2⟩

theorem outerLoop_valid (a b : List α) (b2j : List (α × List Nat)) (hsorted : B2jSorted b2j)
    (hsound : B2jSound b b2j) (alo ahi blo bhi : Nat) (h1 : alo ≤ ahi) (h2 : ahi ≤ a.length)
    (h3 : blo ≤ bhi) :
    ∃ x, outerLoop a b2j blo bhi (ahi - alo) alo [] ⟨alo, blo, 0⟩ = some x ∧
      InBox alo ahi blo bhi x ∧ IsMatch a b x := by
  have := outerLoop_inv a b2j blo bhi alo hsorted
    (fun n best => InBox alo (alo + n) blo bhi best ∧ IsMatch a b best)
    (by
      intro n best x hx hinv
      exact step_valid a b b2j hsound alo blo bhi n best _ hinv)
    (ahi - alo) 0 [] ⟨alo, blo, 0⟩ (by omega) (by intro j; simp [getK, rowv])
    ⟨⟨by simp, by simp, by simp, by simpa using h3⟩, by intro t ht; simp at ht⟩
  obtain ⟨x, hx1, hx2⟩ := this
  refine ⟨x, by simpa using hx1, ?_, hx2.2⟩
  have e : alo + (0 + (ahi - alo)) = ahi := by omega
  rw [e] at hx2
  exact hx2.1

theorem extendBack_valid (a b : List α) (alo ahi blo bhi : Nat) (h2 : ahi ≤ a.length) (h4 : bhi ≤ b.length) :
    ∀ bi bj k, InBox alo ahi blo bhi ⟨bi, bj, k⟩ → IsMatch a b ⟨bi, bj, k⟩ →
      ∃ x, extendBack a b alo blo bi bj k = some x ∧ InBox alo ahi blo bhi x ∧ IsMatch a b x := by
  intro bi
  induction bi with
  | zero => intro bj k hb hm; exact ⟨_, rfl, hb, hm⟩
  | succ bi ih =>
    intro bj k hb hm
    simp only [extendBack]
    split
    · rename_i hc
      have hbj : bj - 1 < b.length := by have := hb.h4; simp only at this; omega
      have hbi : bi < a.length := by have := hb.h2; simp only at this; omega
      rw [List.getElem?_eq_getElem hbj, List.getElem?_eq_getElem hbi]
      simp only
      split
      · rename_i heq
        apply ih
        · have := hb.h2; have := hb.h4
          exact ⟨by simp only; omega, by simp only at *; omega, by simp only; omega, by simp only at *; omega⟩
        · intro t ht
          simp only at ht ⊢
          cases t with
          | zero =>
            refine ⟨a[bi], by simp [List.getElem?_eq_getElem hbi], ?_⟩
            simp [List.getElem?_eq_getElem hbj, heq]
          | succ t =>
            obtain ⟨v, hv1, hv2⟩ := hm t (by simp only; omega)
            simp only at hv1 hv2
            refine ⟨v, ?_, ?_⟩
            · rw [← hv1]; congr 1; omega
            · rw [← hv2]; congr 1; omega
      · exact ⟨_, rfl, hb, hm⟩
    · exact ⟨_, rfl, hb, hm⟩

theorem extendFwd_valid (a b : List α) (alo ahi blo bhi : Nat) (h2 : ahi ≤ a.length) (h4 : bhi ≤ b.length)
    (bi bj : Nat) :
    ∀ fuel k, InBox alo ahi blo bhi ⟨bi, bj, k⟩ → IsMatch a b ⟨bi, bj, k⟩ →
      ∃ x, extendFwd a b ahi bhi bi bj fuel k = some x ∧ InBox alo ahi blo bhi x ∧ IsMatch a b x := by
  intro fuel
  induction fuel with
  | zero => intro k hb hm; exact ⟨_, rfl, hb, hm⟩
  | succ fuel ih =>
    intro k hb hm
    simp only [extendFwd]
    split
    · rename_i hc
      have hbj : bj + k < b.length := by omega
      have hbi : bi + k < a.length := by omega
      rw [List.getElem?_eq_getElem hbj, List.getElem?_eq_getElem hbi]
      simp only
      split
      · rename_i heq
        apply ih
        · exact ⟨hb.h1, by simp only; omega, hb.h3, by simp only; omega⟩
        · intro t ht
          simp only at ht ⊢
          by_cases htk : t < k
          · exact hm t htk
          · have : t = k := by omega
            subst this
            exact ⟨a[bi + t], by simp [List.getElem?_eq_getElem hbi], by simp [List.getElem?_eq_getElem hbj, heq]⟩
      · exact ⟨_, rfl, hb, hm⟩
    · exact ⟨_, rfl, hb, hm⟩

/-- `find_longest_match` returns a block of the box that really matches -/
theorem flm_valid (a b : List α) (b2j : List (α × List Nat)) (hsorted : B2jSorted b2j)
    (hsound : B2jSound b b2j) (alo ahi blo bhi : Nat) (h1 : alo ≤ ahi) (h2 : ahi ≤ a.length)
    (h3 : blo ≤ bhi) (h4 : bhi ≤ b.length) :
    ∃ x, findLongestMatch a b b2j alo ahi blo bhi = some x ∧
      InBox alo ahi blo bhi x ∧ IsMatch a b x := by
  obtain ⟨x0, e0, b0, m0⟩ := outerLoop_valid a b b2j hsorted hsound alo ahi blo bhi h1 h2 h3
  obtain ⟨x1, e1, b1, m1⟩ := extendBack_valid a b alo ahi blo bhi h2 h4 x0.i x0.j x0.k b0 m0
  obtain ⟨x2, e2, b2, m2⟩ := extendFwd_valid a b alo ahi blo bhi h2 h4 x1.i x1.j (ahi - (x1.i + x1.k)) x1.k b1 m1
  exact ⟨x2, by simp [findLongestMatch, e0, e1, e2], b2, m2⟩

end Difflib

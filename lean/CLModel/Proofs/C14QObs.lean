/-
Helper lemmas for C14 (round 4): the filter → Observer → ContentComparer composition at every quiet level
(`Compare/FilterObserver.lean`).  Reuses the C10 lemmas about `Observer` / `ObserverList` (`Proofs/C10Obs.lean`).
-/
import CLModel.Compare.FilterObserver
import CLModel.Compare.MissingFilter
import CLModel.Proofs.C10Obs
import CLModel.Proofs.C14Compare
namespace C14Q
open ObsM FiltObs

/-! ### closed form of the key loop: a pure function of the filters -/

/-- what `ObserverList.notify` returns for the notification of an iteration: the most severe answer of the
    project observers' filters ("error" for an observer without filter), "ignore" iff all of them ignore -/
def listRv (flts : List (Option Filter)) (file : File) (e : KeyEv) : Ret :=
  listRet (flts.map (fun flt => rvOf flt e.cat file e.data))

/-- the counters after one iteration, as a function of the filters' answers only -/
def accStep (flts : List (Option Filter)) (file : File) (acc : CmpAcc) (e : KeyEv) : CmpAcc :=
  let rv := listRv flts file e
  let acc := { acc with rvs := acc.rvs ++ [rv] }
  match e with
  | .missing key words =>
    if rv == .ignore then acc
    else if rv == .error then
      { acc with missings := acc.missings ++ [key], missing := acc.missing + 1, missingW := acc.missingW + words }
    else { acc with report := acc.report + 1 }
  | .obsolete _ => if rv != .ignore then { acc with obsolete := acc.obsolete + 1 } else acc
  | _ => acc

def accSpec (flts : List (Option Filter)) (file : File) (evs : List KeyEv) (acc : CmpAcc) : CmpAcc :=
  evs.foldl (accStep flts file) acc

/-- the history of the `ObserverList` that `compare` produces -/
def historyOf (flts : List (Option Filter)) (file : File) (evs : List KeyEv) (b : BothCounts) : List Ev :=
  evs.map (KeyEv.toEv file) ++ [.stats file (statsOf (accSpec flts file evs CmpAcc.zero) b)]

theorem step_filters {l l' : ObsList} {ev : Ev} (h : l.step ev = .ok l') : l'.filters = l.filters := by
  obtain ⟨_, s2⟩ := list_step_spec h
  unfold ObsList.filters
  exact (All₂.map_eq (·.filter) (·.filter) (fun a b hab => ((Obs.step_core hab).2.1).symm) s2).symm

theorem listRv_eq (l : ObsList) (file : File) (e : KeyEv) :
    listRet (l.observers.map (fun o => rvOf o.filter e.cat file e.data)) = listRv l.filters file e := by
  simp [listRv, ObsList.filters, List.map_map, Function.comp_def]

/-- one iteration: the list makes the step of the iteration's notification, the counters follow the filters -/
theorem cmpStep_spec {l l' : ObsList} {file : File} {acc acc' : CmpAcc} {e : KeyEv}
    (h : cmpStep l file acc e = .ok (l', acc')) :
    l.step (e.toEv file) = .ok l' ∧ acc' = accStep l.filters file acc e := by
  have key : ∀ {cat d} {r : ObsList × Ret}, l.notify cat file d = .ok r →
      l.step (.notify cat file d) = .ok r.1 := by
    intro cat d r hn
    simp [ObsList.step, hn, bind, Except.bind, pure, Except.pure]
  cases e with
  | missing k w =>
    simp only [cmpStep, bind, Except.bind] at h
    cases hn : l.notify .missingEntity file (.str k) with
    | error e => rw [hn] at h; cases h
    | ok r =>
      obtain ⟨l1, rv⟩ := r
      rw [hn] at h
      have hrv := (list_notify_spec hn).1
      have hrv' : rv = listRv l.filters file (.missing k w) := by rw [hrv]; exact listRv_eq l file (.missing k w)
      refine ⟨?_, ?_⟩
      · have := key hn
        simp only [KeyEv.toEv, KeyEv.cat, KeyEv.data]
        by_cases h1 : (rv == Ret.ignore) = true
        · simp only [h1, ↓reduceIte, pure, Except.pure, Except.ok.injEq, Prod.mk.injEq] at h
          rw [← h.1]; exact this
        · by_cases h2 : (rv == Ret.error) = true
          · simp only [h1, h2, Bool.false_eq_true, ↓reduceIte, pure, Except.pure, Except.ok.injEq, Prod.mk.injEq] at h
            rw [← h.1]; exact this
          · simp only [h1, h2, Bool.false_eq_true, ↓reduceIte, pure, Except.pure, Except.ok.injEq, Prod.mk.injEq] at h
            rw [← h.1]; exact this
      · simp only [accStep, ← hrv']
        by_cases h1 : (rv == Ret.ignore) = true
        · simp only [h1, ↓reduceIte, pure, Except.pure, Except.ok.injEq, Prod.mk.injEq] at h ⊢
          exact h.2.symm
        · by_cases h2 : (rv == Ret.error) = true
          · simp only [h1, h2, Bool.false_eq_true, ↓reduceIte, pure, Except.pure, Except.ok.injEq, Prod.mk.injEq] at h ⊢
            exact h.2.symm
          · simp only [h1, h2, Bool.false_eq_true, ↓reduceIte, pure, Except.pure, Except.ok.injEq, Prod.mk.injEq] at h ⊢
            exact h.2.symm
  | obsolete k =>
    simp only [cmpStep, bind, Except.bind] at h
    cases hn : l.notify .obsoleteEntity file (.str k) with
    | error e => rw [hn] at h; cases h
    | ok r =>
      obtain ⟨l1, rv⟩ := r
      rw [hn] at h
      have hrv := (list_notify_spec hn).1
      have hrv' : rv = listRv l.filters file (.obsolete k) := by rw [hrv]; exact listRv_eq l file (.obsolete k)
      have := key hn
      simp only [KeyEv.toEv, KeyEv.cat, KeyEv.data, accStep, ← hrv']
      by_cases h1 : (rv != Ret.ignore) = true
      · simp only [h1, ↓reduceIte, pure, Except.pure, Except.ok.injEq, Prod.mk.injEq] at h ⊢
        exact ⟨by rw [← h.1]; exact this, h.2.symm⟩
      · simp only [h1, Bool.false_eq_true, ↓reduceIte, pure, Except.pure, Except.ok.injEq, Prod.mk.injEq] at h ⊢
        exact ⟨by rw [← h.1]; exact this, h.2.symm⟩
  | refJunk m =>
    simp only [cmpStep, bind, Except.bind] at h
    cases hn : l.notify .warning file (.str m) with
    | error e => rw [hn] at h; cases h
    | ok r =>
      obtain ⟨l1, rv⟩ := r
      rw [hn] at h
      have hrv := (list_notify_spec hn).1
      have hrv' : rv = listRv l.filters file (.refJunk m) := by rw [hrv]; exact listRv_eq l file (.refJunk m)
      have := key hn
      simp only [pure, Except.pure, Except.ok.injEq, Prod.mk.injEq] at h
      simp only [KeyEv.toEv, KeyEv.cat, KeyEv.data, accStep, ← hrv']
      exact ⟨by rw [← h.1]; exact this, h.2.symm⟩
  | l10nJunk m =>
    simp only [cmpStep, bind, Except.bind] at h
    cases hn : l.notify .error file (.str m) with
    | error e => rw [hn] at h; cases h
    | ok r =>
      obtain ⟨l1, rv⟩ := r
      rw [hn] at h
      have hrv := (list_notify_spec hn).1
      have hrv' : rv = listRv l.filters file (.l10nJunk m) := by rw [hrv]; exact listRv_eq l file (.l10nJunk m)
      have := key hn
      simp only [pure, Except.pure, Except.ok.injEq, Prod.mk.injEq] at h
      simp only [KeyEv.toEv, KeyEv.cat, KeyEv.data, accStep, ← hrv']
      exact ⟨by rw [← h.1]; exact this, h.2.symm⟩
  | note c m =>
    simp only [cmpStep, bind, Except.bind] at h
    cases hn : l.notify c file (.str m) with
    | error e => rw [hn] at h; cases h
    | ok r =>
      obtain ⟨l1, rv⟩ := r
      rw [hn] at h
      have hrv := (list_notify_spec hn).1
      have hrv' : rv = listRv l.filters file (.note c m) := by rw [hrv]; exact listRv_eq l file (.note c m)
      have := key hn
      simp only [pure, Except.pure, Except.ok.injEq, Prod.mk.injEq] at h
      simp only [KeyEv.toEv, KeyEv.cat, KeyEv.data, accStep, ← hrv']
      exact ⟨by rw [← h.1]; exact this, h.2.symm⟩

/-- conversely: if the list makes the step, the iteration returns -/
theorem cmpStep_of_step {l l' : ObsList} {file : File} {acc : CmpAcc} {e : KeyEv}
    (h : l.step (e.toEv file) = .ok l') : ∃ acc', cmpStep l file acc e = .ok (l', acc') := by
  simp only [KeyEv.toEv, ObsList.step, bind, Except.bind] at h
  cases hn : l.notify e.cat file e.data with
  | error err => rw [hn] at h; cases h
  | ok r =>
    obtain ⟨l1, rv⟩ := r
    rw [hn] at h
    simp only [pure, Except.pure, Except.ok.injEq] at h
    subst h
    cases e with
    | missing k w =>
      simp only [KeyEv.cat, KeyEv.data] at hn
      simp only [cmpStep, bind, Except.bind, hn]
      by_cases h1 : (rv == Ret.ignore) = true
      · simp [h1, pure, Except.pure]
      · by_cases h2 : (rv == Ret.error) = true
        · simp [h1, h2, pure, Except.pure]
        · simp [h1, h2, pure, Except.pure]
    | obsolete k =>
      simp only [KeyEv.cat, KeyEv.data] at hn
      simp only [cmpStep, bind, Except.bind, hn]
      by_cases h1 : (rv != Ret.ignore) = true
      · simp [h1, pure, Except.pure]
      · simp [h1, pure, Except.pure]
    | refJunk m =>
      simp only [KeyEv.cat, KeyEv.data] at hn
      simp [cmpStep, bind, Except.bind, hn, pure, Except.pure]
    | l10nJunk m =>
      simp only [KeyEv.cat, KeyEv.data] at hn
      simp [cmpStep, bind, Except.bind, hn, pure, Except.pure]
    | note c m =>
      simp only [KeyEv.cat, KeyEv.data] at hn
      simp [cmpStep, bind, Except.bind, hn, pure, Except.pure]

theorem cmpLoop_spec {file : File} : ∀ {evs : List KeyEv} {l l' : ObsList} {acc acc' : CmpAcc},
    cmpLoop file evs l acc = .ok (l', acc') →
      l.run (evs.map (KeyEv.toEv file)) = .ok l' ∧ acc' = accSpec l.filters file evs acc ∧ l'.filters = l.filters
  | [], l, l', acc, acc', h => by
    simp only [cmpLoop, pure, Except.pure, Except.ok.injEq, Prod.mk.injEq] at h
    obtain ⟨h1, h2⟩ := h
    subst h1; subst h2
    exact ⟨rfl, rfl, rfl⟩
  | e :: rest, l, l', acc, acc', h => by
    simp only [cmpLoop, bind, Except.bind] at h
    cases hs : cmpStep l file acc e with
    | error err => rw [hs] at h; cases h
    | ok r =>
      obtain ⟨l1, acc1⟩ := r
      rw [hs] at h
      simp only at h
      obtain ⟨s1, s2⟩ := cmpStep_spec hs
      obtain ⟨r1, r2, r3⟩ := cmpLoop_spec h
      have hf := step_filters s1
      refine ⟨?_, ?_, by rw [r3, hf]⟩
      · simp [ObsList.run, s1, bind, Except.bind, r1]
      · rw [r2, hf, s2]; rfl

theorem cmpLoop_of_run {file : File} : ∀ {evs : List KeyEv} {l l' : ObsList} (acc : CmpAcc),
    l.run (evs.map (KeyEv.toEv file)) = .ok l' → ∃ acc', cmpLoop file evs l acc = .ok (l', acc')
  | [], l, l', acc, h => by
    simp only [List.map_nil, ObsList.run, pure, Except.pure, Except.ok.injEq] at h
    subst h
    exact ⟨acc, rfl⟩
  | e :: rest, l, l', acc, h => by
    simp only [List.map_cons, ObsList.run, bind, Except.bind] at h
    cases hs : l.step (e.toEv file) with
    | error err => rw [hs] at h; cases h
    | ok l1 =>
      rw [hs] at h
      simp only at h
      obtain ⟨acc1, h1⟩ := cmpStep_of_step (acc := acc) hs
      obtain ⟨acc2, h2⟩ := cmpLoop_of_run acc1 h
      exact ⟨acc2, by simp [cmpLoop, bind, Except.bind, h1, h2]⟩

theorem run_append : ∀ (h1 h2 : List Ev) (l : ObsList),
    l.run (h1 ++ h2) = (l.run h1 >>= fun l1 => l1.run h2)
  | [], h2, l => by simp [ObsList.run, bind, Except.bind, pure, Except.pure]
  | e :: rest, h2, l => by
    simp only [List.cons_append, ObsList.run, bind, Except.bind]
    cases hs : l.step e with
    | error err => rfl
    | ok l1 => simpa [bind, Except.bind] using run_append rest h2 l1

theorem fresh_filters (q : Nat) (flts : List (Option Filter)) : (fresh q flts).filters = flts := by
  have hmap : ∀ fl : List (Option Filter), fl.map ((fun x => x.filter) ∘ Obs.init q) = fl := by
    intro fl
    induction fl with
    | nil => rfl
    | cons a as ih => simp [Obs.init, ih]
  simp only [fresh, ObsList.filters, ObsList.init, List.map_map]
  exact hmap flts

/-- `compare` = a run of the list over the history, the counters being those of the closed form -/
theorem compareQ_spec {l l' : ObsList} {file : File} {evs : List KeyEv} {b : BothCounts} {acc : CmpAcc}
    (h : compareQ l file evs b = .ok (l', acc)) :
    acc = accSpec l.filters file evs CmpAcc.zero ∧ l.run (historyOf l.filters file evs b) = .ok l' := by
  simp only [compareQ, bind, Except.bind] at h
  cases hl : cmpLoop file evs l CmpAcc.zero with
  | error err => rw [hl] at h; cases h
  | ok r =>
    obtain ⟨l1, acc1⟩ := r
    rw [hl] at h
    simp only [pure, Except.pure, Except.ok.injEq, Prod.mk.injEq] at h
    obtain ⟨h1, h2⟩ := h
    subst h2
    obtain ⟨r1, r2, _⟩ := cmpLoop_spec hl
    refine ⟨r2, ?_⟩
    rw [historyOf, run_append, r1]
    simp only [bind, Except.bind, ObsList.run, ObsList.step, pure, Except.pure]
    rw [← r2, h1]

theorem compareQ_of_run {l l' : ObsList} {file : File} {evs : List KeyEv} {b : BothCounts}
    (h : l.run (historyOf l.filters file evs b) = .ok l') :
    compareQ l file evs b = .ok (l', accSpec l.filters file evs CmpAcc.zero) := by
  rw [historyOf, run_append] at h
  simp only [bind, Except.bind] at h
  cases h1 : l.run (evs.map (KeyEv.toEv file)) with
  | error err => rw [h1] at h; cases h
  | ok l1 =>
    rw [h1] at h
    simp only [ObsList.run, ObsList.step, bind, Except.bind, pure, Except.pure, Except.ok.injEq] at h
    obtain ⟨acc1, hc⟩ := cmpLoop_of_run CmpAcc.zero h1
    obtain ⟨_, r2, _⟩ := cmpLoop_spec hc
    simp only [compareQ, bind, Except.bind, hc, pure, Except.pure]
    rw [r2, h]


/-! ### the counters in closed form -/

/-- the list's answer for a missing key / an obsolete key -/
def missRv (flts : List (Option Filter)) (file : File) (k : List Nat) : Ret :=
  listRet (flts.map (fun flt => rvOf flt .missingEntity file (.str k)))
def obsRv (flts : List (Option Filter)) (file : File) (k : List Nat) : Ret :=
  listRet (flts.map (fun flt => rvOf flt .obsoleteEntity file (.str k)))

/-- the missing keys (with the word count of the reference entity) / the obsolete keys of a comparison, in order -/
def missKeys (evs : List KeyEv) : List (List Nat × Nat) :=
  evs.filterMap (fun e => match e with | .missing k w => some (k, w) | _ => none)
def obsKeys (evs : List KeyEv) : List (List Nat) :=
  evs.filterMap (fun e => match e with | .obsolete k => some k | _ => none)

structure Counts (flts : List (Option Filter)) (file : File) (evs : List KeyEv) (acc r : CmpAcc) : Prop where
  missing : r.missing = acc.missing + ((missKeys evs).filter (fun kw => missRv flts file kw.1 == .error)).length
  missings : r.missings = acc.missings ++ ((missKeys evs).filter (fun kw => missRv flts file kw.1 == .error)).map (·.1)
  missingW : r.missingW = acc.missingW + (((missKeys evs).filter (fun kw => missRv flts file kw.1 == .error)).map (·.2)).sum
  report : r.report = acc.report + ((missKeys evs).filter (fun kw => missRv flts file kw.1 == .warning)).length
  obsolete : r.obsolete = acc.obsolete + ((obsKeys evs).filter (fun k => obsRv flts file k != .ignore)).length
  rvs : r.rvs = acc.rvs ++ evs.map (listRv flts file)

theorem accSpec_counts (flts : List (Option Filter)) (file : File) : ∀ (evs : List KeyEv) (acc : CmpAcc),
    Counts flts file evs acc (accSpec flts file evs acc)
  | [], acc => by
    constructor <;> simp [accSpec, missKeys, obsKeys]
  | e :: rest, acc => by
    have ih := accSpec_counts flts file rest (accStep flts file acc e)
    have hfold : accSpec flts file (e :: rest) acc = accSpec flts file rest (accStep flts file acc e) := rfl
    rw [hfold]
    cases e with
    | missing k w =>
      have hk : missKeys (KeyEv.missing k w :: rest) = (k, w) :: missKeys rest := rfl
      have ho : obsKeys (KeyEv.missing k w :: rest) = obsKeys rest := rfl
      have hrv : listRv flts file (KeyEv.missing k w) = missRv flts file k := rfl
      cases hv : missRv flts file k <;>
        (simp [accStep, hrv, hv] at ih
         constructor <;>
          simp [ih.missing, ih.missings, ih.missingW, ih.report, ih.obsolete, ih.rvs, hk, ho, accStep, hrv, hv,
            List.filter_cons, Nat.add_assoc, Nat.add_comm 1, Nat.add_left_comm])
    | obsolete k =>
      have hk : missKeys (KeyEv.obsolete k :: rest) = missKeys rest := rfl
      have ho : obsKeys (KeyEv.obsolete k :: rest) = k :: obsKeys rest := rfl
      have hrv : listRv flts file (KeyEv.obsolete k) = obsRv flts file k := rfl
      cases hv : obsRv flts file k <;>
        (simp [accStep, hrv, hv] at ih
         constructor <;>
          simp [ih.missing, ih.missings, ih.missingW, ih.report, ih.obsolete, ih.rvs, hk, ho, accStep, hrv, hv,
            List.filter_cons, Nat.add_assoc, Nat.add_comm 1])
    | refJunk m =>
      have hk : missKeys (KeyEv.refJunk m :: rest) = missKeys rest := rfl
      have ho : obsKeys (KeyEv.refJunk m :: rest) = obsKeys rest := rfl
      simp [accStep] at ih
      constructor <;>
        simp [ih.missing, ih.missings, ih.missingW, ih.report, ih.obsolete, ih.rvs, hk, ho, accStep]
    | l10nJunk m =>
      have hk : missKeys (KeyEv.l10nJunk m :: rest) = missKeys rest := rfl
      have ho : obsKeys (KeyEv.l10nJunk m :: rest) = obsKeys rest := rfl
      simp [accStep] at ih
      constructor <;>
        simp [ih.missing, ih.missings, ih.missingW, ih.report, ih.obsolete, ih.rvs, hk, ho, accStep]
    | note c m =>
      have hk : missKeys (KeyEv.note c m :: rest) = missKeys rest := rfl
      have ho : obsKeys (KeyEv.note c m :: rest) = obsKeys rest := rfl
      simp [accStep] at ih
      constructor <;>
        simp [ih.missing, ih.missings, ih.missingW, ih.report, ih.obsolete, ih.rvs, hk, ho, accStep]

theorem missKeys_map : ∀ (keys : List (List Nat)),
    missKeys (keys.map (fun k => KeyEv.missing k 0)) = keys.map (fun k => (k, 0))
  | [] => rfl
  | k :: ks => by
    have ih := missKeys_map ks
    simp only [missKeys, List.map_cons, List.filterMap_cons] at ih ⊢
    rw [ih]

theorem listRet_single (r : Ret) : listRet [r] = r := by cases r <;> rfl

/-- one observer with a project configuration: the list's answer is the configuration's verdict -/
theorem missRv_project (cfg : Filt.Config) (fp : File → List Nat) (file : File) (loc : List Nat)
    (hl : file.locale = some loc) (k : List Nat) :
    missRv [some (projectFilter cfg fp)] file k = toRet (Filt.filter cfg ⟨fp file, loc⟩ (some k)) := by
  simp [missRv, listRet_single, rvOf, Cat.isFile, projectFilter, hl]

theorem obsRv_project (cfg : Filt.Config) (fp : File → List Nat) (file : File) (loc : List Nat)
    (hl : file.locale = some loc) (k : List Nat) :
    obsRv [some (projectFilter cfg fp)] file k = toRet (Filt.filter cfg ⟨fp file, loc⟩ (some k)) := by
  simp [obsRv, listRet_single, rvOf, Cat.isFile, projectFilter, hl]

theorem toRet_eq_iff (a : Filt.Action) (r : Filt.Action) : (toRet a == toRet r) = (a == r) := by
  cases a <;> cases r <;> rfl

/-! ### two quiet levels -/

theorem fresh_own_core (q : Nat) (flts : List (Option Filter)) : (fresh q flts).own.core = ([], false) := rfl

theorem fresh_own_filter (q : Nat) (flts : List (Option Filter)) : (fresh q flts).own.filter = none := rfl

/-- summary and error flag of every project observer after a run of fresh observers: a function of the filters
    and the history only -/
theorem fresh_observers_core {q : Nat} {flts : List (Option Filter)} {h : List Ev} {l' : ObsList}
    (hr : (fresh q flts).run h = .ok l') :
    l'.observers.map Obs.core = flts.map (fun flt => coreRun (ignObs flt) ([], false) h) := by
  obtain ⟨_, b, _⟩ := list_run_spec h (fresh q flts) l' hr rfl
  have := All₂.map_eq (fun o => coreRun (ignObs o.filter) o.core h) Obs.core
    (fun o o' hoo => ((Obs.run_core h o o' hoo).1).symm) b
  rw [← this]
  simp [fresh, ObsList.init, List.map_map, Function.comp_def, Obs.init, Obs.core]

theorem fresh_own_core_run {q : Nat} {flts : List (Option Filter)} {h : List Ev} {l' : ObsList}
    (hr : (fresh q flts).run h = .ok l') :
    l'.own.core = coreRun (ignList flts) ([], false) h := by
  have := list_run_core hr rfl
  rw [fresh_filters, fresh_own_core] at this
  exact this


theorem All₂.getElem? {α β : Type} {R : α → β → Prop} : ∀ {l : List α} {l' : List β}, All₂ R l l' →
    ∀ (i : Nat) (b : β), l'[i]? = some b → ∃ a, l[i]? = some a ∧ R a b
  | _, _, .nil, i, b, h => by simp at h
  | _, _, .cons hd tl, 0, b, h => by
    simp only [List.getElem?_cons_zero, Option.some.injEq] at h
    subst h
    exact ⟨_, rfl, hd⟩
  | _, _, .cons _ tl, i + 1, b, h => by
    simp only [List.getElem?_cons_succ] at h ⊢
    exact All₂.getElem? tl i b h

/-- the i-th project observer of a comparison with fresh observers is `Observer(q, flts[i])` run over the history -/
theorem fresh_observer_run {q : Nat} {flts : List (Option Filter)} {h : List Ev} {l' : ObsList}
    (hr : (fresh q flts).run h = .ok l') (i : Nat) (o' : Obs) (hi : l'.observers[i]? = some o') :
    ∃ flt, flts[i]? = some flt ∧ (Obs.init q flt).run h = .ok o' := by
  obtain ⟨_, b, _⟩ := list_run_spec h (fresh q flts) l' hr rfl
  obtain ⟨o, ho, hrun⟩ := All₂.getElem? b i o' hi
  simp only [fresh, ObsList.init, List.getElem?_map, Option.map_eq_some_iff] at ho
  obtain ⟨flt, hflt, rfl⟩ := ho
  exact ⟨flt, hflt, hrun⟩

/-- the list's own observer: `Observer(q)` run over the notifications not ignored by every project observer -/
theorem fresh_own_run {q : Nat} {flts : List (Option Filter)} {h : List Ev} {l' : ObsList}
    (hr : (fresh q flts).run h = .ok l') :
    (Obs.init q none).run (h.filter (fun ev => !ignList flts ev)) = .ok l'.own := by
  obtain ⟨a, _, _⟩ := list_run_spec h (fresh q flts) l' hr rfl
  rw [fresh_filters] at a
  exact a


/-! ### whole files -/

/-- the list's answer for a file notification: the most severe of the filters' FILE verdicts -/
def fileRv (flts : List (Option Filter)) (cat : Cat) (file : File) : Ret :=
  listRet (flts.map (fun flt => rvOf flt cat file .none))

def addFileHistory (flts : List (Option Filter)) (file : File) (n w : Nat) : List Ev :=
  .notify .missingFile file .none ::
    (if fileRv flts .missingFile file == .ignore then []
     else [.stats file [(.missing, n)], .stats file [(.missing_w, w)]])

theorem addFileQ_spec {l l' : ObsList} {file : File} {n w : Nat} {rv : Ret}
    (h : addFileQ l file n w = .ok (l', rv)) :
    rv = fileRv l.filters .missingFile file ∧ l.run (addFileHistory l.filters file n w) = .ok l' := by
  simp only [addFileQ, bind, Except.bind] at h
  cases hn : l.notify .missingFile file .none with
  | error e => rw [hn] at h; cases h
  | ok r =>
    obtain ⟨l1, rv1⟩ := r
    rw [hn] at h
    have hrv : rv1 = fileRv l.filters .missingFile file := by
      rw [(list_notify_spec hn).1]
      simp [fileRv, ObsList.filters, List.map_map, Function.comp_def]
    have hstep : l.step (.notify .missingFile file .none) = .ok l1 := by
      simp [ObsList.step, hn, bind, Except.bind, pure, Except.pure]
    by_cases hi : (rv1 == Ret.ignore) = true
    · simp only [hi, ↓reduceIte, pure, Except.pure, Except.ok.injEq, Prod.mk.injEq] at h
      obtain ⟨h1, h2⟩ := h
      subst h1; subst h2
      refine ⟨hrv, ?_⟩
      rw [addFileHistory, ← hrv, hi]
      simp [ObsList.run, hstep, bind, Except.bind, pure, Except.pure]
    · simp only [hi, Bool.false_eq_true, ↓reduceIte, pure, Except.pure, Except.ok.injEq, Prod.mk.injEq] at h
      obtain ⟨h1, h2⟩ := h
      subst h1; subst h2
      refine ⟨hrv, ?_⟩
      rw [addFileHistory, ← hrv]
      simp [hi, ObsList.run, ObsList.step, hn, bind, Except.bind, pure, Except.pure]

theorem removeFileQ_spec {l l' : ObsList} {file : File} {rv : Ret} (h : removeFileQ l file = .ok (l', rv)) :
    rv = fileRv l.filters .obsoleteFile file ∧ l.run [.notify .obsoleteFile file .none] = .ok l' := by
  simp only [removeFileQ] at h
  refine ⟨?_, ?_⟩
  · rw [(list_notify_spec h).1]
    simp [fileRv, ObsList.filters, List.map_map, Function.comp_def]
  · simp [ObsList.run, ObsList.step, h, bind, Except.bind, pure, Except.pure]

/-! ### the old quiet-0 / missing-only model is an instance -/

def toAction : Ret → Filt.Action
  | .error => .error
  | .warning => .warning
  | .ignore => .ignore

theorem toRet_toAction (a : Filt.Action) : toAction (toRet a) = a := by cases a <;> rfl

/-- an observer of `MissingFilter.lean` (its filter restricted to one file) as an `ObsM` filter -/
def liftObs (file : File) : Filt.Obs → Option Filter
  | none => none
  | some v => some (fun f d => match d with
      | .str k => if f = file then toRet (v k) else .ignore
      | _ => .ignore)

theorem rvOf_liftObs (file : File) (o : Filt.Obs) (k : List Nat) :
    rvOf (liftObs file o) .missingEntity file (.str k) = toRet (Filt.obsVerdict o k) := by
  cases o with
  | none => rfl
  | some v => simp [liftObs, rvOf, Cat.isFile, Filt.obsVerdict]

theorem contains_map_toRet : ∀ (as : List Filt.Action),
    (as.map toRet).contains Ret.error = as.contains .error
  | [] => rfl
  | a :: t => by
    rw [List.map_cons, List.contains_cons, List.contains_cons, contains_map_toRet t]
    cases a <;> rfl

theorem all_map_toRet : ∀ (as : List Filt.Action),
    (as.map toRet).all (· == Ret.ignore) = as.all (· == Filt.Action.ignore)
  | [] => rfl
  | a :: t => by
    rw [List.map_cons, List.all_cons, List.all_cons, all_map_toRet t]
    cases a <;> rfl

theorem listRet_map_toRet (as : List Filt.Action) :
    listRet (as.map toRet) =
      toRet (if as.contains .error then .error else if as.contains .warning then .warning else .ignore) := by
  have hE := contains_map_toRet as
  have hI := all_map_toRet as
  unfold listRet
  rw [hE, hI]
  by_cases h1 : as.all (· == Filt.Action.ignore) = true
  · have hall : ∀ x ∈ as, x = Filt.Action.ignore := by simpa using h1
    have he : as.contains Filt.Action.error = false := by
      rw [List.contains_eq_mem, decide_eq_false_iff_not]
      intro h; have := hall _ h; cases this
    have hw : as.contains Filt.Action.warning = false := by
      rw [List.contains_eq_mem, decide_eq_false_iff_not]
      intro h; have := hall _ h; cases this
    simp only [h1, he, hw, ↓reduceIte, Bool.false_eq_true]
    rfl
  · simp only [h1, Bool.false_eq_true, ↓reduceIte]
    by_cases h2 : as.contains Filt.Action.error = true
    · rw [if_pos h2, if_pos h2]; rfl
    · have hw : as.contains Filt.Action.warning = true := by
        have : ∃ y, y ∈ as ∧ y ≠ Filt.Action.ignore := by simpa using h1
        obtain ⟨y, hy, hyn⟩ := this
        cases y with
        | ignore => exact absurd rfl hyn
        | error => exact absurd (by simpa using hy) h2
        | warning => simpa using hy
      rw [if_neg h2, if_neg h2, if_pos hw]; rfl

end C14Q

/-
Helper lemmas for C19, round 4: lint/util.py (Lint/Util.lean) and the result side of lint/cli.py main (Lint/Cli.lean).
Core Lean only.
-/
import CLModel.Lint.Util
import CLModel.Lint.Cli
import CLModel.Lint.Keyed
import CLModel.Proofs.AddRemove
import CLModel.Proofs.C19Run
namespace C19Util
open LintUtil PM

/-- an entry the mirror callable passes over for `path`: it has no reference, or its reference matcher does not match -/
def Skipped (path : Text) (r : Rule) : Prop :=
  r.reference = none ∨ ∃ m, r.reference = some m ∧ m.match path = .ok none

theorem mirrorGo_skip (root path : Text) (r : Rule) (rest : List Rule) (h : Skipped path r) :
    mirrorGo root path (r :: rest) = mirrorGo root path rest := by
  rcases h with h | ⟨m, hm, hn⟩
  · simp [mirrorGo, h]
  · simp [mirrorGo, hm, hn]

/-- entries that are passed over do not influence the answer, wherever they stand -/
theorem mirrorGo_skip_prefix (root path : Text) (pre rest : List Rule) (h : ∀ x ∈ pre, Skipped path x) :
    mirrorGo root path (pre ++ rest) = mirrorGo root path rest := by
  induction pre with
  | nil => rfl
  | cons x pre ih =>
    rw [List.cons_append, mirrorGo_skip _ _ _ _ (h x List.mem_cons_self)]
    exact ih (fun y hy => h y (List.mem_cons_of_mem _ hy))

/-- the answer only depends on the entries that are not passed over before the first hit -/
theorem mirrorGo_insert (root path : Text) (pre post : List Rule) (r : Rule) (h : r.reference = none) :
    mirrorGo root path (pre ++ r :: post) = mirrorGo root path (pre ++ post) := by
  induction pre with
  | nil => exact mirrorGo_skip _ _ _ _ (Or.inl h)
  | cons x pre ih =>
    simp only [List.cons_append, mirrorGo]
    cases hx : x.reference with
    | none => exact ih
    | some m =>
      simp only
      cases m.match path with
      | error e => rfl
      | ok d =>
        cases d with
        | none => exact ih
        | some _ => rfl

theorem mirrorGo_filter (root path : Text) (ms : List Rule) :
    mirrorGo root path ms = mirrorGo root path (ms.filter (fun r => r.reference.isSome)) := by
  induction ms with
  | nil => rfl
  | cons x ms ih =>
    cases hx : x.reference with
    | none =>
      rw [mirrorGo_skip _ _ _ _ (Or.inl hx), List.filter_cons]
      simp [hx, ih]
    | some m =>
      rw [List.filter_cons]
      simp only [hx, Option.isSome_some, if_true, mirrorGo]
      cases m.match path with
      | error e => rfl
      | ok d =>
        cases d with
        | none => exact ih
        | some _ => rfl

theorem mirrorGo_hit (root path : Text) (r : Rule) (rest : List Rule) (m : Matcher) (d : GroupDict)
    (hr : r.reference = some m) (hm : m.match path = .ok (some d)) :
    mirrorGo root path (r :: rest) =
      (match m.sub (reroot m root) path with
       | .error e => .error e
       | .ok ref => .ok (ref, r.test)) := by
  simp only [mirrorGo, hr, hm]
  cases m.sub (reroot m root) path <;> rfl

theorem mirrorGo_none (root path : Text) (ms : List Rule) (h : ∀ x ∈ ms, Skipped path x) :
    mirrorGo root path ms = .ok (none, none) := by
  have := mirrorGo_skip_prefix root path ms [] h
  rw [List.append_nil] at this
  rw [this]
  rfl

/-! ### re-rooting -/

theorem reroot_env (m : Matcher) (root : Text) : (reroot m root).env = m.env := rfl

theorem reroot_nodes (m : Matcher) (root : Text) : (reroot m root).pattern.nodes = m.pattern.nodes := rfl

theorem reroot_root (m : Matcher) (root : Text) : (reroot m root).pattern.root = some root := rfl

/-- `Pattern.expand` of a rooted pattern = the root (unless the first segment is absolute) followed by the expansion
    of the same pattern without a root -/
theorem expandTop_rooted (p : Pattern) (root : Text) (env : Env) (t : Text)
    (h : expandTop { p with root := some root } env = .ok t) :
    ∃ body, expandTop { p with root := none } env = .ok body ∧ (t = root ++ body ∨ t = body) := by
  unfold expandTop expandPat at h ⊢
  simp only [rootOf] at h ⊢
  cases hn : p.nodes with
  | nil => simp [hn, bind, Except.bind] at h
  | cons n0 rest =>
    simp only [hn] at h ⊢
    cases h0 : expandNode (expandVal (fuelFor env)) n0 env false with
    | error e =>
      rw [h0] at h
      cases e <;> simp [bind, Except.bind, throw, throwThe, MonadExceptOf.throw] at h
    | ok seg =>
      rw [h0] at h
      simp only [bind, Except.bind, pure, Except.pure] at h ⊢
      cases hb : expandChildren (expandVal (fuelFor env)) (n0 :: rest) env false with
      | error e => rw [hb] at h; cases h
      | ok body =>
        rw [hb] at h
        simp only at h
        cases h
        refine ⟨body, rfl, ?_⟩
        by_cases ha : isabs seg = true
        · right; simp [ha]
        · left; simp [ha]

/-! ### exit status -/

open Lint LintCli Gen.Tables

theorem exitCode_nil (w : Bool) : exitCode [] w = 0 := rfl

theorem exitCode_le_one (rs : List PResult) (w : Bool) : exitCode rs w ≤ 1 := by
  unfold exitCode
  split
  · omega
  · split <;> omega

theorem exitCode_zero_iff (rs : List PResult) (w : Bool) :
    exitCode rs w = 0 ↔ rs = [] ∨ (w = false ∧ ∀ r ∈ rs, r.2.level = lintCliWarningLevel) := by
  unfold exitCode
  cases rs with
  | nil => simp
  | cons r rs =>
    simp only [List.isEmpty_cons, Bool.false_eq_true, if_false, reduceCtorEq, false_or]
    cases w with
    | true => simp
    | false =>
      simp only [Bool.not_false, Bool.and_true, true_and]
      by_cases h : (r :: rs).all (fun r => r.2.level == lintCliWarningLevel) = true
      · simp only [h, if_true, true_iff]
        intro x hx
        have := List.all_eq_true.1 h x hx
        simpa using this
      · simp only [h, Bool.false_eq_true, if_false]
        constructor
        · intro h1; cases h1
        · intro hall
          exfalso
          apply h
          rw [List.all_eq_true]
          intro x hx
          simpa using hall x hx

theorem exitCode_one_iff (rs : List PResult) (w : Bool) :
    exitCode rs w = 1 ↔ rs ≠ [] ∧ (w = true ∨ ∃ r ∈ rs, r.2.level ≠ lintCliWarningLevel) := by
  have h0 := exitCode_zero_iff rs w
  have hle := exitCode_le_one rs w
  constructor
  · intro h1
    have hne : ¬ exitCode rs w = 0 := by omega
    rw [h0] at hne
    refine ⟨fun e => hne (Or.inl e), ?_⟩
    cases w with
    | true => exact Or.inl rfl
    | false =>
      right
      apply Classical.byContradiction
      intro hc
      apply hne
      right
      refine ⟨rfl, ?_⟩
      intro r hr
      apply Classical.byContradiction
      intro hl
      exact hc ⟨r, hr, hl⟩
  · rintro ⟨hne, hw⟩
    have : ¬ exitCode rs w = 0 := by
      rw [h0]
      rintro (e | ⟨hwf, hall⟩)
      · exact hne e
      · rcases hw with hw | ⟨r, hr, hl⟩
        · rw [hw] at hwf; cases hwf
        · exact hl (hall r hr)
    omega

/-! ### the run inside main -/

/-- the results of the run `main` performs are the results of `lint` over the files with the references the chosen
    callable resolved -/
theorem runFiles_eq_lint (inp : MainIn) (ls : List Linted) (rs : List PResult)
    (tr : List (Lint.Text × LintUtil.RefTests)) (h : runFiles inp ls = .ok (rs, tr)) :
    ∃ fis, resolve inp ls = .ok (fis, tr) ∧ lint fis = .ok rs := by
  induction ls generalizing rs tr with
  | nil =>
    simp only [runFiles] at h
    cases h
    exact ⟨[], rfl, rfl⟩
  | cons f ls ih =>
    simp only [runFiles] at h
    simp only [resolve]
    by_cases hp : hasParser f.path = true
    · simp only [hp, Bool.not_true, Bool.false_eq_true, if_false] at h ⊢
      cases hg : LintUtil.getRefTests (modeOf inp) (duringIteration inp.files) inp.refRoot f.path with
      | error e => rw [hg] at h; cases h
      | ok rt =>
        rw [hg] at h
        simp only at h ⊢
        cases hl : lintFile { path := f.path, contents := f.contents, cur := f.cur, ref := referenceOf inp.fs rt.1 } with
        | error e => rw [hl] at h; cases h
        | ok a =>
          rw [hl] at h
          simp only at h
          cases hr : runFiles inp ls with
          | error e => rw [hr] at h; cases h
          | ok bt =>
            rw [hr] at h
            obtain ⟨b, t⟩ := bt
            simp only at h
            cases h
            obtain ⟨fis, hres, hlint⟩ := ih b t hr
            rw [hres]
            refine ⟨_, rfl, ?_⟩
            rw [C19Run.lint_cons]
            simp only [fileResults, hp, Bool.not_true, Bool.false_eq_true, if_false, hl, hlint]
    · have hp' : hasParser f.path = false := by simpa using hp
      simp only [hp', Bool.not_false, if_true] at h ⊢
      exact ih rs tr h

/-- the files `resolve` hands to the linter are the listed files that have a parser, in order, with path, contents and
    parsed entities unchanged -/
theorem resolve_files (inp : MainIn) (ls : List Linted) (fis : List FileIn)
    (tr : List (Lint.Text × LintUtil.RefTests)) (h : resolve inp ls = .ok (fis, tr)) :
    fis.map (fun f => (f.path, f.contents, f.cur)) =
      (ls.filter (fun f => hasParser f.path)).map (fun f => (f.path, f.contents, f.cur)) := by
  induction ls generalizing fis tr with
  | nil => simp only [resolve] at h; cases h; rfl
  | cons f ls ih =>
    simp only [resolve] at h
    by_cases hp : hasParser f.path = true
    · simp only [hp, Bool.not_true, Bool.false_eq_true, if_false] at h
      cases hg : LintUtil.getRefTests (modeOf inp) (duringIteration inp.files) inp.refRoot f.path with
      | error e => rw [hg] at h; cases h
      | ok rt =>
        rw [hg] at h
        simp only at h
        cases hr : resolve inp ls with
        | error e => rw [hr] at h; cases h
        | ok bt =>
          rw [hr] at h
          obtain ⟨b, t⟩ := bt
          simp only at h
          cases h
          simp [hp, ih b t hr]
    · have hp' : hasParser f.path = false := by simpa using hp
      simp only [hp', Bool.not_false, if_true] at h
      simp [hp', ih fis tr h]

/-- every listed file that has a parser is among the resolved files, unchanged but for its reference -/
theorem exists_resolved (inp : MainIn) (ls : List Linted) (fis : List FileIn)
    (tr : List (Lint.Text × LintUtil.RefTests)) (h : resolve inp ls = .ok (fis, tr))
    (f : Linted) (hf : f ∈ ls) (hp : hasParser f.path = true) :
    ∃ fi ∈ fis, fi.path = f.path ∧ fi.contents = f.contents ∧ fi.cur = f.cur := by
  have hm := resolve_files inp ls fis tr h
  have : (f.path, f.contents, f.cur) ∈ (ls.filter (fun f => hasParser f.path)).map (fun f => (f.path, f.contents, f.cur)) :=
    List.mem_map.2 ⟨f, List.mem_filter.2 ⟨hf, hp⟩, rfl⟩
  rw [← hm] at this
  obtain ⟨fi, hfi, he⟩ := List.mem_map.1 this
  simp only [Prod.mk.injEq] at he
  exact ⟨fi, hfi, he.1, he.2.1, he.2.2⟩

/-- `Matcher.sub` spelled out -/
theorem sub_eq (self other : Matcher) (path : PM.Text) :
    self.sub other path =
      (match self.match path with
       | .error e => .error e
       | .ok none => .ok none
       | .ok (some d) =>
         match expandTop other.pattern (subEnv d other.env) with
         | .error e => .error e
         | .ok r => .ok (some r)) := by
  unfold Matcher.sub
  cases self.match path with
  | error e => rfl
  | ok od =>
    cases od with
    | none => rfl
    | some d =>
      simp only [bind, Except.bind]
      cases expandTop other.pattern (subEnv d other.env) <;> rfl

/-- `ProjectFiles.match`: an entry without a reference whose l10n matcher does not apply (validation mode, or no match)
    is passed over — removing it, wherever it stands, changes no answer -/
theorem matchRules_insert (b : Bool) (excl : PM.Text → Except PyErr Bool) (path : PM.Text) (pre post : List Rule) (r : Rule)
    (h : r.reference = none) (hl : b = false ∨ r.l10n.match path = .ok none) :
    matchRules b excl path (pre ++ r :: post) = matchRules b excl path (pre ++ post) := by
  induction pre with
  | nil =>
    simp only [List.nil_append, matchRules]
    rcases hl with hb | hm
    · simp [hb, h]
    · cases b <;> simp [hm, h]
  | cons x pre ih =>
    simp only [List.cons_append, matchRules]
    rw [ih]

end C19Util

namespace C19Keyed
open LintKeyed

theorem tupleIndex_nat (items : Items) (i : Nat) (h : i < items.length) :
    tupleIndex items (i : Int) = (match items[i]? with | some x => .ok x | none => .error "IndexError") := by
  unfold tupleIndex
  have h1 : ¬ ((i : Int) < 0) := by omega
  have h3 : ¬ ((i : Int) ≥ (items.length : Int)) := by omega
  simp only [h1, if_false, false_or, h3, Int.toNat_natCast]
  cases items[i]? <;> rfl

/-- `kt[key]` is the LAST item with the key; a key no item has ends in `TypeError` (the swallowed KeyError, then
    `tuple.__getitem__` with a string) -/
theorem getItem_key (items : Items) (k : Nat) :
    getItem items (.key k) =
      (match items.reverse.find? (fun it => it.1 == k) with
       | some x => .ok x
       | none => .error "TypeError") := by
  simp only [getItem, AR.keyedIndex_eq]
  by_cases hc : (items.map (·.1)).contains k = true
  · simp only [hc, if_true]
    have hm : k ∈ (items.map (·.1)).reverse := by simpa using hc
    have hlt := List.idxOf_lt_length_of_mem hm
    simp only [List.length_reverse, List.length_map] at hlt
    have hidx : (items.map (·.1)).length - 1 - (items.map (·.1)).reverse.idxOf k < items.length := by
      simp only [List.length_map]; omega
    rw [tupleIndex_nat items _ hidx]
    rw [Lint.find?_eq_getElem?_idxOf (fun it : Nat × Nat => it.1) k items.reverse, List.map_reverse]
    rw [List.getElem?_reverse hlt]
    simp only [List.length_map]
    have hidx' : items.length - 1 - (List.map (fun it : Nat × Nat => it.1) items).reverse.idxOf k < items.length := by omega
    rw [List.getElem?_eq_getElem hidx']
  · have hc' : (items.map (·.1)).contains k = false := by simpa using hc
    simp only [hc', Bool.false_eq_true, if_false]
    have : items.reverse.find? (fun it => it.1 == k) = none := by
      rw [List.find?_eq_none]
      intro x hx hk
      apply hc
      simp only [List.contains_eq_mem, List.mem_map, decide_eq_true_eq]
      exact ⟨x, by simpa using hx, by simpa using hk⟩
    rw [this]

end C19Keyed

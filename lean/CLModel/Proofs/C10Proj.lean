/-
Helper lemmas for the orchestration layer of C10 (CLModel/Compare/Projects.lean): every `ContentComparer` call of
`compareProjects` is a run of events through the `ObserverList`; the loops; `sorted(set(…))`.  Core Lean only.
-/
import CLModel.Compare.Projects
import CLModel.Proofs.C10Obs
import CLModel.Proofs.C10TOrder
namespace C10P
open TreeM ObsM ProjM

/-! ### runs -/

theorem run_append : ∀ (a b : List Ev) (l l1 l2 : ObsList), l.run a = .ok l1 → l1.run b = .ok l2 →
    l.run (a ++ b) = .ok l2
  | [], b, l, l1, l2, h1, h2 => by
    simp only [ObsList.run, pure, Except.pure, Except.ok.injEq] at h1
    subst h1; simpa using h2
  | ev :: rest, b, l, l1, l2, h1, h2 => by
    simp only [ObsList.run, bind, Except.bind] at h1
    cases hs : l.step ev with
    | error e => rw [hs] at h1; cases h1
    | ok lm =>
      rw [hs] at h1
      simp only at h1
      have := run_append rest b lm l1 l2 h1 h2
      simp [ObsList.run, hs, bind, Except.bind, this]

theorem run_nil (l : ObsList) : l.run [] = .ok l := rfl

theorem notify_run {l l' : ObsList} {cat f d rv} (h : l.notify cat f d = .ok (l', rv)) :
    l.run [.notify cat f d] = .ok l' := by
  simp [ObsList.run, ObsList.step, h, bind, Except.bind, pure, Except.pure]

theorem stats_run (l : ObsList) (f : File) (s : List (StatKey × Nat)) :
    l.run [.stats f s] = .ok (l.updateStats f s) := by
  simp [ObsList.run, ObsList.step, bind, Except.bind, pure, Except.pure]

/-- the filters of the project observers never change -/
theorem run_filters : ∀ (h : List Ev) (l l' : ObsList), l.run h = .ok l' → l'.filters = l.filters
  | [], l, l', hr => by
    simp only [ObsList.run, pure, Except.pure, Except.ok.injEq] at hr
    subst hr; rfl
  | ev :: rest, l, l', hr => by
    simp only [ObsList.run, bind, Except.bind] at hr
    cases hs : l.step ev with
    | error e => rw [hs] at hr; cases hr
    | ok l1 =>
      rw [hs] at hr
      simp only at hr
      obtain ⟨_, s2⟩ := list_step_spec hs
      have hfil : l1.filters = l.filters := by
        unfold ObsList.filters
        exact (All₂.map_eq (·.filter) (·.filter) (fun a b hab => ((Obs.step_core hab).2.1).symm) s2).symm
      rw [run_filters rest l1 l' hr, hfil]

/-- `ObserverList.notify` returns "ignore" exactly when every project observer ignores -/
theorem list_rv_ignore {l l' : ObsList} {cat f d rv} (h : l.notify cat f d = .ok (l', rv)) :
    (rv == .ignore) = ignList l.filters (.notify cat f d) := by
  obtain ⟨h1, _, _⟩ := list_notify_spec h
  rw [← ignList_notify, h1]
  simp only [listRet]
  cases hall : (l.observers.map (fun o => rvOf o.filter cat f d)).all (· == .ignore)
  · simp only [Bool.false_eq_true, ↓reduceIte]
    split <;> rfl
  · rfl

/-! ### the events of one `ContentComparer` call -/

/-- a `missingFile` / `obsoleteFile` notification -/
def isFileEv : Ev → Bool
  | .notify c _ _ => c.isFile
  | .stats _ _ => false

/-- the events `ContentComparer.add` raises, given the filters of the project observers and the junk id -/
def addEvents (w : World) (flts : List (Option Filter)) (c : Call) (junk : Nat) : List Ev :=
  .notify .missingFile c.l10n .none ::
    (if ignList flts (.notify .missingFile c.l10n .none) then []
     else
       match w.parserCaps c.ref.file with
       | none => []
       | some _ =>
         match (w.parseRef c.refFull c.ref.file junk).1 with
         | .error msg => [.notify .error c.ref (.str msg)]
         | .ok nw => [.stats c.l10n [(.missing, nw.1)], .stats c.l10n [(.missing_w, nw.2)]])

/-- the contract of the INPUT `World.compareBody` (`ContentComparer.compare` behind its `getParser` gate): whatever it
    does to the observers is a sequence of notifications / stats for the two files of the call, none of them a
    `missingFile`/`obsoleteFile`, the stats without an `errors` entry -/
def CompareRuns (w : World) : Prop :=
  ∀ c junk l r, w.compareBody c junk l = .ok r →
    ∃ evs, l.run evs = .ok r.1 ∧ (∀ ev ∈ evs, (ev.file = c.l10n ∨ ev.file = c.ref) ∧ isFileEv ev = false) ∧
      NoErrStats evs

/-- what the events of one call look like -/
def CallSpec (w : World) (flts : List (Option Filter)) (c : Call) (es : List Ev) : Prop :=
  match c.kind with
  | .remove => es = [.notify .obsoleteFile c.l10n .none]
  | .add => ∃ junk, es = addEvents w flts c junk
  | .compare => (∀ ev ∈ es, (ev.file = c.l10n ∨ ev.file = c.ref) ∧ isFileEv ev = false) ∧ NoErrStats es

theorem mergeCopy_obs {w : World} {m : Option Path} {miss : List (List Nat)} {st st' : St}
    (h : mergeCopy w m miss st = .ok st') : st'.obs = st.obs ∧ st'.calls = st.calls ∧ st'.junk = st.junk := by
  unfold mergeCopy at h
  split at h
  · injection h with h; subst h; exact ⟨rfl, rfl, rfl⟩
  · split at h
    · injection h with h; subst h; exact ⟨rfl, rfl, rfl⟩
    · split at h
      · simp [fail] at h
      · injection h with h; subst h; exact ⟨rfl, rfl, rfl⟩

theorem stNotify_ok {st st' : St} {cat f d rv} (h : stNotify st cat f d = .ok (st', rv)) :
    st.obs.notify cat f d = .ok (st'.obs, rv) ∧ st'.calls = st.calls ∧ st'.junk = st.junk ∧ st'.out = st.out := by
  unfold stNotify at h
  split at h
  · cases h
  · rename_i l rv' hn
    injection h with h
    injection h with h1 h2
    subst h1; subst h2
    exact ⟨hn, rfl, rfl, rfl⟩

theorem ccRemove_run {w : World} {c : Call} {st st' : St} (h : ccRemove w c st = .ok st') :
    st.obs.run [.notify .obsoleteFile c.l10n .none] = .ok st'.obs ∧ st'.calls = st.calls := by
  unfold ccRemove at h
  split at h
  · cases h
  · rename_i st1 rv hn
    obtain ⟨h1, h2, _, _⟩ := stNotify_ok hn
    obtain ⟨m1, m2, _⟩ := mergeCopy_obs h
    rw [m1, m2]
    exact ⟨notify_run h1, h2⟩

theorem ccAdd_run {w : World} {c : Call} {st st' : St} (h : ccAdd w c st = .ok st') :
    ∃ junk, st.obs.run (addEvents w st.obs.filters c junk) = .ok st'.obs ∧ st'.calls = st.calls := by
  unfold ccAdd at h
  split at h
  · cases h
  · rename_i st1 hm
    have hobs1 : st1.obs = st.obs ∧ st1.calls = st.calls ∧ st1.junk = st.junk := by
      unfold addMerge at hm
      simp only at hm
      split at hm
      all_goals
        split at hm
        · exact mergeCopy_obs hm
        · injection hm with hm; subst hm; exact ⟨rfl, rfl, rfl⟩
    obtain ⟨ho, hc, hj⟩ := hobs1
    split at h
    · cases h
    · rename_i st2 rv hn
      obtain ⟨n1, n2, n3, _⟩ := stNotify_ok hn
      have hign := list_rv_ignore n1
      have hrun1 := notify_run n1
      rw [ho] at hrun1 hign
      refine ⟨st.junk, ?_⟩
      unfold addEvents
      split at h
      · -- ignored
        rename_i hrv
        injection h with h; subst h
        rw [← hign, hrv]
        simp only [↓reduceIte]
        exact ⟨hrun1, by rw [n2, hc]⟩
      · rename_i hrv
        have hrv' : (rv == Ret.ignore) = false := by simpa using hrv
        rw [← hign, hrv']
        simp only [Bool.false_eq_true, ↓reduceIte]
        split at h
        · -- no parser
          rename_i hp
          injection h with h; subst h
          rw [hp]
          exact ⟨hrun1, by rw [n2, hc]⟩
        · rename_i caps hp
          rw [hp]
          simp only
          rw [n3, hj] at h
          split at h
          · -- read error
            rename_i msg junk' hpr
            rw [hpr]
            simp only
            split at h
            · cases h
            · rename_i st3 rv3 hn3
              injection h with h; subst h
              obtain ⟨e1, e2, _, _⟩ := stNotify_ok hn3
              have hrun2 := notify_run e1
              refine ⟨?_, by rw [e2, n2, hc]⟩
              exact run_append [_] [_] _ _ _ hrun1 hrun2
          · rename_i n words junk' hpr
            rw [hpr]
            simp only
            injection h with h; subst h
            refine ⟨?_, by rw [n2, hc]⟩
            have h2 := stats_run st2.obs c.l10n [(.missing, n)]
            have h3 := stats_run (st2.obs.updateStats c.l10n [(.missing, n)]) c.l10n [(.missing_w, words)]
            exact run_append [_] [_, _] _ _ _ hrun1 (run_append [_] [_] _ _ _ h2 h3)

theorem ccCompare_run {w : World} (hw : CompareRuns w) {c : Call} {st st' : St} (h : ccCompare w c st = .ok st') :
    ∃ evs, st.obs.run evs = .ok st'.obs ∧
      ((∀ ev ∈ evs, (ev.file = c.l10n ∨ ev.file = c.ref) ∧ isFileEv ev = false) ∧ NoErrStats evs) ∧
      st'.calls = st.calls := by
  unfold ccCompare at h
  split at h
  · obtain ⟨m1, m2, _⟩ := mergeCopy_obs h
    refine ⟨[], ?_, ⟨by simp, by intro ev hev; cases hev⟩, m2⟩
    rw [m1]; rfl
  · split at h
    · simp [fail] at h
    · rename_i obs printed junk hb
      injection h with h; subst h
      obtain ⟨evs, e1, e2, e3⟩ := hw c st.junk st.obs _ hb
      exact ⟨evs, e1, ⟨e2, e3⟩, rfl⟩

/-- one call: the trace grows by the call, the observers make a run whose events have the shape of the call -/
theorem runCall_run {w : World} (hw : CompareRuns w) {c : Call} {st st' : St} (h : runCall w c st = .ok st') :
    ∃ es, st'.calls = st.calls ++ [c] ∧ st.obs.run es = .ok st'.obs ∧ CallSpec w st.obs.filters c es := by
  unfold runCall at h
  simp only at h
  unfold CallSpec
  split at h
  · rename_i hk
    obtain ⟨junk, r, hc⟩ := ccAdd_run h
    exact ⟨_, hc, r, by rw [hk]; exact ⟨junk, rfl⟩⟩
  · rename_i hk
    obtain ⟨r, hc⟩ := ccRemove_run h
    exact ⟨_, hc, r, by rw [hk]⟩
  · rename_i hk
    obtain ⟨evs, r, sp, hc⟩ := ccCompare_run hw h
    exact ⟨evs, hc, r, by rw [hk]; exact sp⟩

/-! ### the loops -/

/-- the item a call was made for -/
def Call.item (c : Call) : Item := { l10n := c.l10nFull, ref := c.refFull, merge := c.merge, tests := c.tests }

theorem mkCall_item {w : World} {base : Path} {files : Files} {locale : Text} {it : Item} {c : Call}
    (h : mkCall w base files locale it = .ok c) :
    Call.item c = it ∧ decide3 w it = some c.kind ∧ c.l10n.locale = some locale ∧ c.ref.locale = none := by
  unfold mkCall at h
  split at h
  · cases h
  · split at h
    · cases h
    · split at h
      · split at h
        · cases h
        · rename_i kind hk
          injection h with h; subst h
          exact ⟨rfl, hk, rfl, rfl⟩
      · cases h

/-- a trace: the calls with their events -/
abbrev Trace := List (Call × List Ev)

theorem itemLoop_run {w : World} (hw : CompareRuns w) (base : Path) (files : Files) :
    ∀ (items : List Item) (locale : Option Text) (st : St) (locale' : Option Text) (st' : St),
      itemLoop w base files items (locale, st) = .ok (locale', st') →
      ∃ tr : Trace, st'.calls = st.calls ++ tr.map (·.1) ∧ st.obs.run (tr.flatMap (·.2)) = .ok st'.obs ∧
        (∀ p ∈ tr, CallSpec w st.obs.filters p.1 p.2) ∧
        tr.map (fun p => Call.item p.1) = items ∧
        (∀ p ∈ tr, decide3 w (Call.item p.1) = some p.1.kind ∧ p.1.l10n.locale = some (localeAfter locale) ∧
          p.1.ref.locale = none)
  | [], locale, st, locale', st', h => by
    simp only [itemLoop, Except.ok.injEq, Prod.mk.injEq] at h
    obtain ⟨_, h2⟩ := h
    subst h2
    exact ⟨[], by simp, rfl, by simp, rfl, by simp⟩
  | it :: rest, locale, st, locale', st', h => by
    simp only [itemLoop] at h
    split at h
    · cases h
    · rename_i c hmk
      split at h
      · cases h
      · rename_i st1 hrc
        obtain ⟨i1, i2, i3, i4⟩ := mkCall_item hmk
        obtain ⟨es, c1, c2, c3⟩ := runCall_run hw hrc
        obtain ⟨tr, t1, t2, t3, t4, t5⟩ := itemLoop_run hw base files rest _ st1 locale' st' h
        have hfil : st1.obs.filters = st.obs.filters := run_filters es _ _ c2
        refine ⟨(c, es) :: tr, ?_, ?_, ?_, ?_, ?_⟩
        · rw [t1, c1]; simp
        · simp only [List.flatMap_cons]
          exact run_append es _ _ _ _ c2 t2
        · intro p hp
          rcases List.mem_cons.1 hp with rfl | hp
          · exact c3
          · rw [← hfil]; exact t3 p hp
        · simp [i1, t4]
        · intro p hp
          rcases List.mem_cons.1 hp with rfl | hp
          · exact ⟨by rw [i1]; exact i2, i3, i4⟩
          · have := t5 p hp
            have hla : localeAfter (some (localeAfter locale)) = localeAfter locale := rfl
            rw [hla] at this
            exact this

theorem clobber_ok {a : Args} {files : Files} {st st' : St} (h : clobber a files st = .ok st') : st' = st := by
  unfold clobber at h
  split at h
  · split at h
    · simp [fail] at h
    · injection h with h; exact h.symm
  · injection h with h; exact h.symm

/-- `list(files)` of the `ProjectFiles` object of a locale (nothing if the constructor raised) -/
def itemsOf (w : World) (locale : Option Text) : List Item :=
  match w.projectFiles locale with
  | .ok f => f.items
  | .error _ => []

theorem localeLoop_run {w : World} (hw : CompareRuns w) (a : Args) :
    ∀ (locales : List (Option Text)) (st st' : St), localeLoop w a locales st = .ok st' →
      ∃ tr : Trace, st'.calls = st.calls ++ tr.map (·.1) ∧ st.obs.run (tr.flatMap (·.2)) = .ok st'.obs ∧
        (∀ p ∈ tr, CallSpec w st.obs.filters p.1 p.2) ∧
        tr.map (fun p => Call.item p.1) = locales.flatMap (itemsOf w) ∧
        (∀ p ∈ tr, decide3 w (Call.item p.1) = some p.1.kind ∧
          (∃ loc ∈ locales, p.1.l10n.locale = some (localeAfter loc)) ∧ p.1.ref.locale = none)
  | [], st, st', h => by
    simp only [localeLoop, Except.ok.injEq] at h
    subst h
    exact ⟨[], by simp, rfl, by simp, rfl, by simp⟩
  | locale :: rest, st, st', h => by
    simp only [localeLoop] at h
    split at h
    · simp [fail] at h
    · rename_i files hpf
      split at h
      · cases h
      · rename_i st0 hcl
        have := clobber_ok hcl
        subst this
        split at h
        · cases h
        · rename_i locale1 st1 hil
          obtain ⟨tr1, a1, a2, a3, a4, a5⟩ := itemLoop_run hw a.l10nBaseDir files files.items locale st0 locale1 st1 hil
          obtain ⟨tr2, b1, b2, b3, b4, b5⟩ := localeLoop_run hw a rest st1 st' h
          have hfil : st1.obs.filters = st0.obs.filters := run_filters _ _ _ a2
          refine ⟨tr1 ++ tr2, ?_, ?_, ?_, ?_, ?_⟩
          · rw [b1, a1]; simp
          · rw [List.flatMap_append]
            exact run_append _ _ _ _ _ a2 b2
          · intro p hp
            rcases List.mem_append.1 hp with hp | hp
            · exact a3 p hp
            · rw [← hfil]; exact b3 p hp
          · simp [a4, b4, itemsOf, hpf]
          · intro p hp
            rcases List.mem_append.1 hp with hp | hp
            · obtain ⟨x, y, z⟩ := a5 p hp
              exact ⟨x, ⟨locale, by simp, y⟩, z⟩
            · obtain ⟨x, ⟨loc, hl, y⟩, z⟩ := b5 p hp
              exact ⟨x, ⟨loc, by simp [hl], y⟩, z⟩



/-! ### the observers `compareProjects` creates -/

/-- the filters of the project observers: disabled in validation mode -/
def filtersOf (projects : List Project) (a : Args) : List (Option Filter) :=
  projects.map (fun p => if a.locales.contains none then none else some p.filter)

theorem mkObservers_eq (projects : List Project) (a : Args) :
    mkObservers projects a = (filtersOf projects a).map (Obs.init a.quiet) := by
  simp [mkObservers, filtersOf, List.map_map, Function.comp_def]

theorem mkObservers_filters (projects : List Project) (a : Args) :
    (mkObservers projects a).map (·.filter) = filtersOf projects a := by
  rw [mkObservers_eq, List.map_map]
  have : ∀ fl : List (Option Filter), fl.map ((fun x => x.filter) ∘ Obs.init a.quiet) = fl := by
    intro fl
    induction fl with
    | nil => rfl
    | cons x xs ih => simp [Obs.init, ih]
  exact this _

theorem All₂.of_map_left {α β γ : Type} {R : β → γ → Prop} (f : α → β) :
    ∀ {l : List α} {l' : List γ}, All₂ R (l.map f) l' → All₂ (fun a c => R (f a) c) l l'
  | [], _, h => by cases h; exact All₂.nil
  | a :: as, _, h => by
    cases h with
    | cons h1 h2 => exact All₂.cons h1 (All₂.of_map_left f h2)

/-! ### the calls alone (no assumption on `compareBody`) -/

theorem ccCompare_calls {w : World} {c : Call} {st st' : St} (h : ccCompare w c st = .ok st') :
    st'.calls = st.calls := by
  unfold ccCompare at h
  split at h
  · exact (mergeCopy_obs h).2.1
  · split at h
    · simp [fail] at h
    · injection h with h; subst h; rfl

theorem runCall_calls {w : World} {c : Call} {st st' : St} (h : runCall w c st = .ok st') :
    st'.calls = st.calls ++ [c] := by
  unfold runCall at h
  simp only at h
  split at h
  · obtain ⟨_, _, hc⟩ := ccAdd_run h; exact hc
  · exact (ccRemove_run h).2
  · exact ccCompare_calls h

/-- what is true of every call of a locale: it was made for an enumerated tuple, the method follows from the two
    `os.path.exists` answers, the localized `File` carries the (substituted) locale, the reference `File` none -/
def CallOK (w : World) (locale : Option Text) (c : Call) : Prop :=
  decide3 w (Call.item c) = some c.kind ∧ c.l10n.locale = some (localeAfter locale) ∧ c.ref.locale = none ∧
    c.ref.module = c.l10n.module

theorem mkCall_module {w : World} {base : Path} {files : Files} {locale : Text} {it : Item} {c : Call}
    (h : mkCall w base files locale it = .ok c) : c.ref.module = c.l10n.module := by
  unfold mkCall at h
  split at h
  · cases h
  · split at h
    · cases h
    · split at h
      · split at h
        · cases h
        · injection h with h; subst h; rfl
      · cases h

theorem itemLoop_calls {w : World} (base : Path) (files : Files) :
    ∀ (items : List Item) (locale : Option Text) (st : St) (locale' : Option Text) (st' : St),
      itemLoop w base files items (locale, st) = .ok (locale', st') →
      ∃ cs : List Call, st'.calls = st.calls ++ cs ∧ cs.map Call.item = items ∧
        ∀ c ∈ cs, CallOK w locale c ∧ mkCall w base files (localeAfter locale) (Call.item c) = .ok c
  | [], locale, st, locale', st', h => by
    simp only [itemLoop, Except.ok.injEq, Prod.mk.injEq] at h
    obtain ⟨_, h2⟩ := h
    subst h2
    exact ⟨[], by simp, rfl, by simp⟩
  | it :: rest, locale, st, locale', st', h => by
    simp only [itemLoop] at h
    split at h
    · cases h
    · rename_i c hmk
      split at h
      · cases h
      · rename_i st1 hrc
        obtain ⟨i1, i2, i3, i4⟩ := mkCall_item hmk
        have i5 := mkCall_module hmk
        have c1 := runCall_calls hrc
        obtain ⟨cs, t1, t2, t3⟩ := itemLoop_calls base files rest _ st1 locale' st' h
        refine ⟨c :: cs, by rw [t1, c1]; simp, by simp [i1, t2], ?_⟩
        intro x hx
        rcases List.mem_cons.1 hx with rfl | hx
        · exact ⟨⟨by rw [i1]; exact i2, i3, i4, i5⟩, by rw [i1]; exact hmk⟩
        · exact t3 x hx

theorem localeLoop_calls {w : World} (a : Args) :
    ∀ (locales : List (Option Text)) (st st' : St), localeLoop w a locales st = .ok st' →
      ∃ cs : List Call, st'.calls = st.calls ++ cs ∧ cs.map Call.item = locales.flatMap (itemsOf w) ∧
        ∀ c ∈ cs, ∃ loc ∈ locales, CallOK w loc c ∧
          ∃ files, w.projectFiles loc = .ok files ∧ mkCall w a.l10nBaseDir files (localeAfter loc) (Call.item c) = .ok c
  | [], st, st', h => by
    simp only [localeLoop, Except.ok.injEq] at h
    subst h
    exact ⟨[], by simp, rfl, by simp⟩
  | locale :: rest, st, st', h => by
    simp only [localeLoop] at h
    split at h
    · simp [fail] at h
    · rename_i files hpf
      split at h
      · cases h
      · rename_i st0 hcl
        have := clobber_ok hcl
        subst this
        split at h
        · cases h
        · rename_i locale1 st1 hil
          obtain ⟨cs1, a1, a2, a3⟩ := itemLoop_calls a.l10nBaseDir files files.items locale st0 locale1 st1 hil
          obtain ⟨cs2, b1, b2, b3⟩ := localeLoop_calls a rest st1 st' h
          refine ⟨cs1 ++ cs2, by rw [b1, a1]; simp, by simp [a2, b2, itemsOf, hpf], ?_⟩
          intro c hc
          rcases List.mem_append.1 hc with hc | hc
          · exact ⟨locale, by simp, (a3 c hc).1, files, hpf, (a3 c hc).2⟩
          · obtain ⟨loc, hl, ok⟩ := b3 c hc
            exact ⟨loc, by simp [hl], ok⟩

/-! ### the history of a trace -/

/-- the file notifications of a call, by its kind -/
def fileEvOf (c : Call) : Option Ev :=
  match c.kind with
  | .add => some (.notify .missingFile c.l10n .none)
  | .remove => some (.notify .obsoleteFile c.l10n .none)
  | .compare => none

theorem filter_false {α : Type} (p : α → Bool) (l : List α) (h : ∀ x ∈ l, p x = false) : l.filter p = [] := by
  apply List.filter_eq_nil_iff.2
  intro x hx
  simp [h x hx]

theorem callSpec_fileEvents {w : World} {flts : List (Option Filter)} {c : Call} {es : List Ev}
    (h : CallSpec w flts c es) : es.filter isFileEv = (fileEvOf c).toList := by
  unfold CallSpec at h
  unfold fileEvOf
  split at h
  · subst h; rename_i hk; rw [hk]; rfl
  · rename_i hk
    obtain ⟨junk, rfl⟩ := h
    rw [hk]
    unfold addEvents
    simp only [List.filter_cons, isFileEv, Cat.isFile, ↓reduceIte, Option.toList]
    congr 1
    split
    · rfl
    · split
      · rfl
      · split <;> rfl
  · rename_i hk
    rw [hk]
    exact filter_false _ _ (fun ev hev => (h.1 ev hev).2)

theorem trace_fileEvents {w : World} {flts : List (Option Filter)} :
    ∀ (tr : Trace), (∀ p ∈ tr, CallSpec w flts p.1 p.2) →
      (tr.flatMap (·.2)).filter isFileEv = tr.filterMap (fun p => fileEvOf p.1)
  | [], _ => rfl
  | p :: rest, h => by
    simp only [List.flatMap_cons, List.filter_append, List.filterMap_cons]
    rw [callSpec_fileEvents (h p (by simp)), trace_fileEvents rest (fun q hq => h q (by simp [hq]))]
    cases fileEvOf p.1 <;> rfl

theorem callSpec_noErrStats {w : World} {flts : List (Option Filter)} {c : Call} {es : List Ev}
    (h : CallSpec w flts c es) : NoErrStats es := by
  unfold CallSpec at h
  split at h
  · subst h
    intro ev hev
    simp only [List.mem_singleton] at hev
    subst hev; trivial
  · obtain ⟨junk, rfl⟩ := h
    intro ev hev
    unfold addEvents at hev
    rcases List.mem_cons.1 hev with rfl | hev
    · trivial
    · split at hev
      · cases hev
      · split at hev
        · cases hev
        · split at hev
          · simp only [List.mem_singleton] at hev
            subst hev; trivial
          · simp only [List.mem_cons, List.not_mem_nil, or_false] at hev
            rcases hev with rfl | rfl <;> (intro kv hkv; simp only [List.mem_singleton] at hkv; subst hkv; simp)
  · exact h.2

theorem trace_noErrStats {w : World} {flts : List (Option Filter)} (tr : Trace)
    (h : ∀ p ∈ tr, CallSpec w flts p.1 p.2) : NoErrStats (tr.flatMap (·.2)) := by
  intro ev hev
  obtain ⟨p, hp, hev⟩ := List.mem_flatMap.1 hev
  exact callSpec_noErrStats (h p hp) ev hev

/-- every event of a call is about one of its two files -/
theorem callSpec_files {w : World} {flts : List (Option Filter)} {c : Call} {es : List Ev}
    (h : CallSpec w flts c es) : ∀ ev ∈ es, ev.file = c.l10n ∨ ev.file = c.ref := by
  unfold CallSpec at h
  split at h
  · subst h
    intro ev hev
    simp only [List.mem_singleton] at hev
    subst hev; exact Or.inl rfl
  · obtain ⟨junk, rfl⟩ := h
    intro ev hev
    unfold addEvents at hev
    rcases List.mem_cons.1 hev with rfl | hev
    · exact Or.inl rfl
    · split at hev
      · cases hev
      · split at hev
        · cases hev
        · split at hev
          · simp only [List.mem_singleton] at hev
            subst hev; exact Or.inr rfl
          · simp only [List.mem_cons, List.not_mem_nil, or_false] at hev
            rcases hev with rfl | rfl <;> exact Or.inl rfl
  · exact fun ev hev => (h.1 ev hev).1


/-! ### `handle` -/

theorem report_stdout_json {h : HArgs} {cfgs : List Text} {n : Nat} {st : St} {r : HResult}
    (hj : h.json = some Gen.Cmd.jsonStdout) :
    report h cfgs n st r = { r with outcome := .returned (exitStatus h.returnZero st.obs), stdout := st.out ++ [],
                                    json := jsonData h st.obs, final := some st } := by
  unfold report
  simp [hj]

theorem report_ok {h : HArgs} {cfgs : List Text} {n : Nat} {st : St} {r : HResult} {details summaries : Text}
    (hj : h.json ≠ some Gen.Cmd.jsonStdout) (hd : serializeDetails st.obs.own = .ok details)
    (hs : serializeSummaries st.obs = .ok summaries) :
    report h cfgs n st r = { r with outcome := .returned (exitStatus h.returnZero st.obs),
                                    stdout := st.out ++ (headBlocks cfgs n details ++ [summaries]),
                                    json := jsonData h st.obs, final := some st } := by
  have hj' : (h.json == some Gen.Cmd.jsonStdout) = false := by simpa using hj
  unfold report
  simp [hj', hd, hs]

theorem report_returned {h : HArgs} {cfgs : List Text} {n : Nat} {st : St} {r : HResult} {rv : Nat}
    (hret : (report h cfgs n st r).outcome = .returned rv) :
    rv = exitStatus h.returnZero st.obs ∧ (report h cfgs n st r).final = some st ∧
      (report h cfgs n st r).json = jsonData h st.obs ∧
      ((h.json = some Gen.Cmd.jsonStdout ∧ (report h cfgs n st r).stdout = st.out) ∨
       (h.json ≠ some Gen.Cmd.jsonStdout ∧ ∃ details summaries, serializeDetails st.obs.own = .ok details ∧
          serializeSummaries st.obs = .ok summaries ∧
          (report h cfgs n st r).stdout = st.out ++ headBlocks cfgs n details ++ [summaries])) := by
  by_cases hj : h.json = some Gen.Cmd.jsonStdout
  · rw [report_stdout_json hj] at hret ⊢
    injection hret with hret
    exact ⟨hret.symm, rfl, rfl, Or.inl ⟨hj, by simp⟩⟩
  · cases hd : serializeDetails st.obs.own with
    | error e =>
      have hj' : (h.json == some Gen.Cmd.jsonStdout) = false := by simpa using hj
      unfold report at hret
      simp [hj', hd] at hret
    | ok details =>
      cases hs : serializeSummaries st.obs with
      | error e =>
        have hj' : (h.json == some Gen.Cmd.jsonStdout) = false := by simpa using hj
        unfold report at hret
        simp [hj', hd, hs] at hret
      | ok summaries =>
        rw [report_ok hj hd hs] at hret ⊢
        injection hret with hret
        exact ⟨hret.symm, rfl, rfl, Or.inr ⟨hj, details, summaries, rfl, rfl, by simp [List.append_assoc]⟩⟩

theorem handle_returned {hw : HWorld} {h : HArgs} {rv : Nat} (hret : (handle hw h).outcome = .returned rv) :
    ∃ cfgs base locales projects w st,
      extractPositionals hw.fs hw.cwd h.validate h.configPaths h.l10nBaseDir h.locales = .ok (cfgs, base, locales) ∧
      hw.loadConfigs cfgs (configEnv base h.defines) h.full locales = .ok (projects, w) ∧
      compareProjects w projects { locales := locales, l10nBaseDir := base, mergeStage := h.merge,
                                   clobberMerge := h.clobber, quiet := h.quiet } hw.junk = .ok st ∧
      handle hw h = report h cfgs projects.length st
        { outcome := .returned 0, positionals := some (cfgs, base, locales), env := configEnv base h.defines } := by
  unfold handle at hret ⊢
  split at hret
  · simp at hret
  · rename_i cfgs base locales hpos
    simp only at hret
    split at hret
    · simp at hret
    · rename_i projects w hload
      split at hret
      · simp at hret
      · simp at hret
      · rename_i st hcp
        refine ⟨cfgs, base, locales, projects, w, st, hpos, hload, hcp, ?_⟩
        simp only [hload, hcp]


/-! ### `extract_positionals` -/

theorem takeWhile_all {α : Type} (p : α → Bool) : ∀ (l : List α) (x : α), x ∈ l.takeWhile p → p x = true
  | [], _, h => by cases h
  | y :: ys, x, h => by
    simp only [List.takeWhile_cons] at h
    split at h
    · rename_i hy
      rcases List.mem_cons.1 h with rfl | h
      · exact hy
      · exact takeWhile_all p ys x h
    · cases h

theorem dropWhile_head {α : Type} (p : α → Bool) : ∀ (l : List α) (b : α) (more : List α),
    l.dropWhile p = b :: more → p b = false
  | [], _, _, h => by cases h
  | y :: ys, b, more, h => by
    simp only [List.dropWhile_cons] at h
    split at h
    · exact dropWhile_head p ys b more h
    · rename_i hy
      injection h with h1 _
      subst h1
      simpa using hy

theorem dropWhile_nil {α : Type} (p : α → Bool) : ∀ (l : List α), l.dropWhile p = [] → ∀ x ∈ l, p x = true
  | [], _, _, hx => by cases hx
  | y :: ys, h, x, hx => by
    simp only [List.dropWhile_cons] at h
    split at h
    · rename_i hy
      rcases List.mem_cons.1 hx with rfl | hx
      · exact hy
      · exact dropWhile_nil p ys h x hx
    · cases h

theorem takeWhile_nil {α : Type} (p : α → Bool) : ∀ (l : List α), l.takeWhile p = [] → l ≠ [] →
    ∃ x xs, l = x :: xs ∧ p x = false
  | [], _, h => absurd rfl h
  | y :: ys, h, _ => by
    simp only [List.takeWhile_cons] at h
    split at h
    · cases h
    · rename_i hy
      exact ⟨y, ys, rfl, by simpa using hy⟩

theorem extract_ok {fs : ArgFs} {cwd : Path} {validate : Bool} {configPaths : List Text} {l10nBaseDir : Text}
    {locales cfgs : List Text} {base : Path} {locs : List (Option Text)}
    (h : extractPositionals fs cwd validate configPaths l10nBaseDir locales = .ok (cfgs, base, locs)) :
    ∃ dir rest, configPaths ++ [l10nBaseDir] ++ locales = cfgs ++ dir :: rest ∧ cfgs ≠ [] ∧
      (∀ c ∈ cfgs, fs.isdir c = false ∧ fs.isfile c = true) ∧
      fs.isdir dir = true ∧ base = abspath cwd dir ∧ locs = (if validate then [none] else rest.map some) := by
  unfold extractPositionals at h
  simp only at h
  generalize configPaths ++ [l10nBaseDir] ++ locales = all at h ⊢
  have hsplit := List.takeWhile_append_dropWhile (p := fun x => !fs.isdir x) (l := all)
  split at h
  · cases h
  · rename_i hne
    split at h
    · cases h
    · rename_i hfiles
      split at h
      · cases h
      · rename_i b more hrest
        injection h with h
        simp only [Prod.mk.injEq] at h
        obtain ⟨h1, h2, h3⟩ := h
        subst h1; subst h2; subst h3
        refine ⟨b, more, ?_, ?_, ?_, ?_, rfl, rfl⟩
        · rw [← hrest]; exact hsplit.symm
        · intro e; apply hne; simp [e]
        · intro c hc
          have hnd := takeWhile_all _ _ c hc
          have hf := List.find?_eq_none.1 hfiles c hc
          exact ⟨by simpa using hnd, by simpa using hf⟩
        · have := dropWhile_head _ _ _ _ hrest
          simpa using this

theorem extract_err {fs : ArgFs} {cwd : Path} {validate : Bool} {configPaths : List Text} {l10nBaseDir : Text}
    {locales : List Text} {msg : Text}
    (h : extractPositionals fs cwd validate configPaths l10nBaseDir locales = .error msg) :
    (msg = fill Gen.Cmd.errNoConfig [] ∧ ∃ x xs, configPaths ++ [l10nBaseDir] ++ locales = x :: xs ∧ fs.isdir x = true) ∨
    (∃ cf ∈ (configPaths ++ [l10nBaseDir] ++ locales).takeWhile (fun x => !fs.isdir x),
      fs.isfile cf = false ∧ msg = fill Gen.Cmd.errConfigNotFound cf) ∨
    (msg = fill Gen.Cmd.errNoBase [] ∧ ∀ x ∈ configPaths ++ [l10nBaseDir] ++ locales, fs.isdir x = false) := by
  unfold extractPositionals at h
  simp only at h
  have hall : configPaths ++ [l10nBaseDir] ++ locales ≠ [] := by simp
  generalize configPaths ++ [l10nBaseDir] ++ locales = all at h hall ⊢
  split at h
  · rename_i he
    injection h with h
    left
    refine ⟨h.symm, ?_⟩
    obtain ⟨x, xs, e, hx⟩ := takeWhile_nil _ all (by simpa using he) hall
    exact ⟨x, xs, e, by simpa using hx⟩
  · split at h
    · rename_i cf hfind
      injection h with h
      right; left
      have hmem := List.mem_of_find?_eq_some hfind
      have hp := List.find?_some hfind
      exact ⟨cf, hmem, by simpa using hp, h.symm⟩
    · split at h
      · rename_i hrest
        injection h with h
        right; right
        refine ⟨h.symm, ?_⟩
        intro x hx
        have := dropWhile_nil _ all hrest x hx
        simpa using this
      · cases h

/-! ### `sorted(set(…))` -/

theorem mem_insertText (x : Text) : ∀ (l : List Text) (y : Text), y ∈ insertText x l ↔ y = x ∨ y ∈ l
  | [], y => by simp [insertText]
  | z :: zs, y => by
    simp only [insertText]
    split
    · rename_i h
      have : x = z := by simpa using h
      subst this
      simp
    · split
      · simp
      · simp only [List.mem_cons, mem_insertText x zs y]
        constructor
        · rintro (h | h | h)
          · exact Or.inr (Or.inl h)
          · exact Or.inl h
          · exact Or.inr (Or.inr h)
        · rintro (h | h | h)
          · exact Or.inr (Or.inl h)
          · exact Or.inl h
          · exact Or.inr (Or.inr h)

theorem mem_sortedSet (l : List Text) (y : Text) : y ∈ sortedSet l ↔ y ∈ l := by
  induction l with
  | nil => simp [sortedSet]
  | cons x xs ih =>
    simp only [sortedSet, List.foldr_cons] at ih ⊢
    rw [mem_insertText, ih]
    simp

/-- strictly increasing in Python's order on `str` -/
def StrictSorted (l : List Text) : Prop := l.Pairwise (fun a b => textLe a b = true ∧ a ≠ b)

theorem insertText_sorted (x : Text) : ∀ (l : List Text), StrictSorted l → StrictSorted (insertText x l)
  | [], _ => by simp [insertText, StrictSorted]
  | z :: zs, h => by
    simp only [insertText]
    split
    · exact h
    · rename_i hne
      have hne' : x ≠ z := by simpa using hne
      split
      · rename_i hle
        unfold StrictSorted at h ⊢
        rw [List.pairwise_cons] at h ⊢
        refine ⟨?_, List.pairwise_cons.2 h⟩
        intro b hb
        rcases List.mem_cons.1 hb with rfl | hb
        · exact ⟨hle, hne'⟩
        · obtain ⟨h1, h2⟩ := h.1 b hb
          refine ⟨C10T.textLe_trans x z b hle h1, ?_⟩
          intro e
          subst e
          exact h2 (C10T.textLe_antisymm z x h1 hle)
      · rename_i hle
        have hzx : textLe z x = true := by
          rcases C10T.textLe_total x z with h' | h'
          · exact absurd h' hle
          · exact h'
        unfold StrictSorted at h ⊢
        rw [List.pairwise_cons] at h ⊢
        refine ⟨?_, insertText_sorted x zs h.2⟩
        intro b hb
        rcases (mem_insertText x zs b).1 hb with rfl | hb
        · exact ⟨hzx, fun e => hne' e.symm⟩
        · exact h.1 b hb

theorem sortedSet_sorted (l : List Text) : StrictSorted (sortedSet l) := by
  induction l with
  | nil => simp [sortedSet, StrictSorted]
  | cons x xs ih =>
    simp only [sortedSet, List.foldr_cons] at ih ⊢
    exact insertText_sorted x _ ih

/-- a strictly sorted list is determined by its members -/
theorem strictSorted_ext : ∀ (l l' : List Text), StrictSorted l → StrictSorted l' → (∀ x, x ∈ l ↔ x ∈ l') → l = l'
  | [], [], _, _, _ => rfl
  | [], y :: ys, _, _, h => by have := (h y).2 (by simp); cases this
  | x :: xs, [], _, _, h => by have := (h x).1 (by simp); cases this
  | x :: xs, y :: ys, h1, h2, h => by
    unfold StrictSorted at h1 h2
    rw [List.pairwise_cons] at h1 h2
    have hxy : x = y := by
      have hx := (h x).1 (by simp)
      have hy := (h y).2 (by simp)
      rcases List.mem_cons.1 hx with e | hx
      · exact e
      · rcases List.mem_cons.1 hy with e | hy
        · exact e.symm
        · exact C10T.textLe_antisymm x y (h1.1 y hy).1 (h2.1 x hx).1
    subst hxy
    have htl : ∀ z, z ∈ xs ↔ z ∈ ys := by
      intro z
      constructor
      · intro hz
        rcases List.mem_cons.1 ((h z).1 (by simp [hz])) with e | hz'
        · subst e; exact absurd rfl (h1.1 z hz).2
        · exact hz'
      · intro hz
        rcases List.mem_cons.1 ((h z).2 (by simp [hz])) with e | hz'
        · subst e; exact absurd rfl (h2.1 z hz).2
        · exact hz'
    rw [strictSorted_ext xs ys h1.2 h2.2 htl]

theorem sortedSet_congr (l l' : List Text) (h : ∀ x, x ∈ l ↔ x ∈ l') : sortedSet l = sortedSet l' :=
  strictSorted_ext _ _ (sortedSet_sorted l) (sortedSet_sorted l') (fun x => by rw [mem_sortedSet, mem_sortedSet, h])

theorem sortedLocales_congr (l l' : List (Option Text)) (h : ∀ x, x ∈ l ↔ x ∈ l') : sortedLocales l = sortedLocales l' := by
  have hany : l.any (·.isNone) = l'.any (·.isNone) := by
    rw [Bool.eq_iff_iff]
    simp only [List.any_eq_true]
    constructor
    · rintro ⟨x, hx, hn⟩; exact ⟨x, (h x).1 hx, hn⟩
    · rintro ⟨x, hx, hn⟩; exact ⟨x, (h x).2 hx, hn⟩
  have hfm : ∀ x, x ∈ l.filterMap id ↔ x ∈ l'.filterMap id := by
    intro x
    simp only [List.mem_filterMap, id]
    constructor
    · rintro ⟨a, ha, e⟩; exact ⟨a, (h a).1 ha, e⟩
    · rintro ⟨a, ha, e⟩; exact ⟨a, (h a).2 ha, e⟩
  have hemp : (l.filterMap id).isEmpty = (l'.filterMap id).isEmpty := by
    rw [Bool.eq_iff_iff]
    simp only [List.isEmpty_iff]
    constructor
    · intro e
      apply List.eq_nil_iff_forall_not_mem.2
      intro x hx
      have := (hfm x).2 hx
      rw [e] at this; cases this
    · intro e
      apply List.eq_nil_iff_forall_not_mem.2
      intro x hx
      have := (hfm x).1 hx
      rw [e] at this; cases this
  unfold sortedLocales
  rw [hany, hemp, sortedSet_congr _ _ hfm]

/-- what `sorted(all_locales)` returns: all the `str` locales sorted without repetition, or `[None]` -/
theorem sortedLocales_ok {l sorted : List (Option Text)} (h : sortedLocales l = .ok sorted) :
    (none ∉ l ∧ sorted = (sortedSet (l.filterMap id)).map some) ∨ (none ∈ l ∧ (∀ x ∈ l, x = none) ∧ sorted = [none]) := by
  unfold sortedLocales at h
  split at h
  · rename_i hn
    injection h with h
    left
    refine ⟨?_, h.symm⟩
    intro hmem
    have hany : l.any (·.isNone) = true := by
      simp only [List.any_eq_true]
      exact ⟨none, hmem, rfl⟩
    rw [hany] at hn
    cases hn
  · rename_i hn
    have hmem : none ∈ l := by
      have : l.any (·.isNone) = true := by simpa using hn
      simp only [List.any_eq_true] at this
      obtain ⟨x, hx, hxn⟩ := this
      cases x with
      | none => exact hx
      | some _ => cases hxn
    split at h
    · rename_i he
      injection h with h
      right
      refine ⟨hmem, ?_, h.symm⟩
      intro x hx
      cases x with
      | none => rfl
      | some t =>
        have : t ∈ l.filterMap id := by simp only [List.mem_filterMap, id]; exact ⟨some t, hx, rfl⟩
        rw [List.isEmpty_iff.1 he] at this
        cases this
    · cases h

end C10P

/- Generic facts about `walkFrom`: the localizable-only walk is the filtered full walk, and
   every entry of a finished walk was produced by `next` at an offset inside the text. -/
import CLModel.Parser.Base
namespace P

def WalkResult.filterLoc : WalkResult → WalkResult
  | .done es => .done (es.filter Entry.localizable)
  | .stuck o es => .stuck o (es.filter Entry.localizable)

theorem WalkResult.filterLoc_cons (e : Entry) (r : WalkResult) :
    (r.cons e).filterLoc = if e.localizable then r.filterLoc.cons e else r.filterLoc := by
  cases r <;> by_cases h : e.localizable <;> simp [WalkResult.cons, WalkResult.filterLoc, h]

theorem walkFromLoc_eq {σ : Type} (next : σ → Nat → Entry × σ) (size : Nat) :
    ∀ fuel c off, walkFromLoc next size fuel c off = (walkFrom next size fuel c off).filterLoc := by
  intro fuel
  induction fuel with
  | zero => intro c off; simp only [walkFromLoc, walkFrom]; split <;> rfl
  | succ fuel ih =>
    intro c off
    simp only [walkFromLoc, walkFrom]
    split
    · rfl
    · rw [WalkResult.filterLoc_cons, ih]

theorem walkFrom_all {σ : Type} (next : σ → Nat → Entry × σ) (size : Nat) (Q : Entry → Prop)
    (hq : ∀ c off, off < size → Q (next c off).1) :
    ∀ fuel c off es, walkFrom next size fuel c off = .done es → ∀ e ∈ es, Q e := by
  intro fuel
  induction fuel with
  | zero =>
    intro c off es h
    simp only [walkFrom] at h
    split at h
    · cases h; simp
    · cases h
  | succ fuel ih =>
    intro c off es h
    simp only [walkFrom] at h
    split at h
    · cases h; simp
    · rename_i hlt
      cases hr : walkFrom next size fuel (next c off).2 (next c off).1.e with
      | stuck o es' => rw [hr] at h; cases h
      | done es' =>
        rw [hr] at h
        simp only [WalkResult.cons, WalkResult.done.injEq] at h
        subst h
        intro e he
        rcases List.mem_cons.mp he with rfl | he
        · exact hq c off (by omega)
        · exact ih _ _ _ hr e he

end P

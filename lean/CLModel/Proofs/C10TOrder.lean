/-
Helper lemmas for the text renderings of C10 (core Lean only):
the orders `textLe` (Python `<=` on `str`) and `keyLe` (Python `<=` on tuples of `str`) are total orders,
the insertion sorts of the models (`sortByKey`, `insertLoc`) return a sorted permutation,
and two strictly sorted association lists are in the sublist relation as soon as they are pointwise.
-/
import CLModel.Compare.Tree
import CLModel.Compare.Observer
namespace C10T
open TreeM ObsM

/-! ### `textLe` -/

theorem textLe_refl : ∀ a : Text, textLe a a = true
  | [] => rfl
  | x :: xs => by simp [textLe, textLe_refl xs]

theorem textLe_total : ∀ a b : Text, textLe a b = true ∨ textLe b a = true
  | [], _ => Or.inl (by simp [textLe])
  | _ :: _, [] => Or.inr (by simp [textLe])
  | x :: xs, y :: ys => by
    simp only [textLe, Bool.or_eq_true, decide_eq_true_eq, Bool.and_eq_true, beq_iff_eq]
    rcases Nat.lt_trichotomy x y with h | h | h
    · exact Or.inl (Or.inl h)
    · subst h
      rcases textLe_total xs ys with h | h
      · exact Or.inl (Or.inr ⟨rfl, h⟩)
      · exact Or.inr (Or.inr ⟨rfl, h⟩)
    · exact Or.inr (Or.inl h)

theorem textLe_antisymm : ∀ a b : Text, textLe a b = true → textLe b a = true → a = b
  | [], [], _, _ => rfl
  | [], _ :: _, _, h => by simp [textLe] at h
  | _ :: _, [], h, _ => by simp [textLe] at h
  | x :: xs, y :: ys, h1, h2 => by
    simp only [textLe, Bool.or_eq_true, decide_eq_true_eq, Bool.and_eq_true, beq_iff_eq] at h1 h2
    rcases h1 with h1 | ⟨e1, h1⟩
    · rcases h2 with h2 | ⟨e2, _⟩
      · omega
      · omega
    · subst e1
      rcases h2 with h2 | ⟨_, h2⟩
      · omega
      · rw [textLe_antisymm xs ys h1 h2]

theorem textLe_trans : ∀ a b c : Text, textLe a b = true → textLe b c = true → textLe a c = true
  | [], _, _, _, _ => by simp [textLe]
  | _ :: _, [], _, h, _ => by simp [textLe] at h
  | _ :: _, _ :: _, [], _, h => by simp [textLe] at h
  | x :: xs, y :: ys, z :: zs, h1, h2 => by
    simp only [textLe, Bool.or_eq_true, decide_eq_true_eq, Bool.and_eq_true, beq_iff_eq] at h1 h2 ⊢
    rcases h1 with h1 | ⟨e1, h1⟩
    · rcases h2 with h2 | ⟨e2, _⟩
      · exact Or.inl (by omega)
      · exact Or.inl (by omega)
    · subst e1
      rcases h2 with h2 | ⟨e2, h2⟩
      · exact Or.inl h2
      · exact Or.inr ⟨e2, textLe_trans xs ys zs h1 h2⟩

/-! ### `keyLe` -/

theorem keyLe_refl : ∀ a : Key, keyLe a a = true
  | [] => rfl
  | x :: xs => by simp [keyLe, keyLe_refl xs]

theorem keyLe_total : ∀ a b : Key, keyLe a b = true ∨ keyLe b a = true
  | [], _ => Or.inl (by simp [keyLe])
  | _ :: _, [] => Or.inr (by simp [keyLe])
  | x :: xs, y :: ys => by
    simp only [keyLe]
    by_cases h : x = y
    · subst h
      simpa using keyLe_total xs ys
    · have h' : ¬ y = x := fun e => h e.symm
      simpa [h, h'] using textLe_total x y

theorem keyLe_antisymm : ∀ a b : Key, keyLe a b = true → keyLe b a = true → a = b
  | [], [], _, _ => rfl
  | [], _ :: _, _, h => by simp [keyLe] at h
  | _ :: _, [], h, _ => by simp [keyLe] at h
  | x :: xs, y :: ys, h1, h2 => by
    simp only [keyLe] at h1 h2
    by_cases h : x = y
    · subst h
      simp only [beq_self_eq_true, ↓reduceIte] at h1 h2
      rw [keyLe_antisymm xs ys h1 h2]
    · have h' : ¬ y = x := fun e => h e.symm
      simp only [beq_iff_eq, h, h', ↓reduceIte] at h1 h2
      exact absurd (textLe_antisymm x y h1 h2) h

theorem keyLe_trans : ∀ a b c : Key, keyLe a b = true → keyLe b c = true → keyLe a c = true
  | [], _, _, _, _ => by simp [keyLe]
  | _ :: _, [], _, h, _ => by simp [keyLe] at h
  | _ :: _, _ :: _, [], _, h => by simp [keyLe] at h
  | x :: xs, y :: ys, z :: zs, h1, h2 => by
    simp only [keyLe] at h1 h2 ⊢
    by_cases hxy : x = y
    · subst hxy
      simp only [beq_self_eq_true, ↓reduceIte] at h1
      by_cases hxz : x = z
      · subst hxz
        simp only [beq_self_eq_true, ↓reduceIte] at h2 ⊢
        exact keyLe_trans xs ys zs h1 h2
      · simp only [beq_iff_eq, hxz, ↓reduceIte] at h2 ⊢
        exact h2
    · simp only [beq_iff_eq, hxy, ↓reduceIte] at h1
      by_cases hyz : y = z
      · subst hyz
        simp only [beq_iff_eq, hxy, ↓reduceIte]
        exact h1
      · simp only [beq_iff_eq, hyz, ↓reduceIte] at h2
        by_cases hxz : x = z
        · subst hxz
          exact absurd (textLe_antisymm x y h1 h2) hxy
        · simp only [beq_iff_eq, hxz, ↓reduceIte]
          exact textLe_trans x y z h1 h2

/-- a common prefix does not matter -/
theorem keyLe_append_left : ∀ (k a b : Key), keyLe (k ++ a) (k ++ b) = keyLe a b
  | [], _, _ => rfl
  | x :: xs, a, b => by simp [keyLe, keyLe_append_left xs a b]

/-- keys that start with different segments are ordered by these segments, whatever follows -/
theorem keyLe_of_head_ne {x y : Part} (h : x ≠ y) (xs ys : Key) : keyLe (x :: xs) (y :: ys) = textLe x y := by
  simp [keyLe, h]

/-- Python's `<` on tuples of `str` -/
def pathLt (a b : List Part) : Prop := keyLe a b = true ∧ a ≠ b

instance : DecidableRel pathLt := fun a b => by unfold pathLt; exact inferInstance

theorem pathLt_irrefl (a : List Part) : ¬ pathLt a a := fun h => h.2 rfl

theorem pathLt_asymm {a b : List Part} (h1 : pathLt a b) (h2 : pathLt b a) : False :=
  h1.2 (keyLe_antisymm a b h1.1 h2.1)

theorem pathLt_append_left (k : Key) {a b : List Part} (h : pathLt a b) : pathLt (k ++ a) (k ++ b) :=
  ⟨by rw [keyLe_append_left]; exact h.1, fun e => h.2 (List.append_cancel_left e)⟩

/-! ### insertion sort -/

/-- insertion into a list sorted by `le` (the shape of `insertByKey` and `insertLoc`) -/
def insBy {α : Type} (le : α → α → Bool) (x : α) : List α → List α
  | [] => [x]
  | y :: ys => if le x y then x :: y :: ys else y :: insBy le x ys

theorem insBy_perm {α : Type} (le : α → α → Bool) (x : α) : ∀ l : List α, (insBy le x l).Perm (x :: l)
  | [] => List.Perm.refl _
  | y :: ys => by
    simp only [insBy]
    split
    · exact List.Perm.refl _
    · exact ((List.perm_cons y).2 (insBy_perm le x ys)).trans (List.Perm.swap x y ys)

theorem insBy_sorted {α : Type} (le : α → α → Bool) (htot : ∀ a b, le a b = true ∨ le b a = true)
    (htr : ∀ a b c, le a b = true → le b c = true → le a c = true) (x : α) :
    ∀ l : List α, l.Pairwise (fun a b => le a b = true) → (insBy le x l).Pairwise (fun a b => le a b = true)
  | [], _ => by simp [insBy]
  | y :: ys, h => by
    simp only [insBy]
    rw [List.pairwise_cons] at h
    by_cases hxy : le x y = true
    · simp only [hxy, ↓reduceIte]
      rw [List.pairwise_cons]
      refine ⟨?_, List.pairwise_cons.2 h⟩
      intro z hz
      simp only [List.mem_cons] at hz
      rcases hz with rfl | hz
      · exact hxy
      · exact htr _ _ _ hxy (h.1 z hz)
    · simp only [hxy, Bool.false_eq_true, ↓reduceIte]
      rw [List.pairwise_cons]
      refine ⟨?_, insBy_sorted le htot htr x ys h.2⟩
      intro z hz
      have := (insBy_perm le x ys).mem_iff.1 hz
      simp only [List.mem_cons] at this
      rcases this with rfl | hz
      · rcases htot z y with h' | h'
        · exact absurd h' hxy
        · exact h'
      · exact h.1 z hz

theorem foldr_insBy_perm {α : Type} (le : α → α → Bool) : ∀ l : List α, (l.foldr (insBy le) []).Perm l
  | [] => List.Perm.refl _
  | x :: xs => by
    simp only [List.foldr_cons]
    exact (insBy_perm le x _).trans ((List.perm_cons x).2 (foldr_insBy_perm le xs))

theorem foldr_insBy_sorted {α : Type} (le : α → α → Bool) (htot : ∀ a b, le a b = true ∨ le b a = true)
    (htr : ∀ a b c, le a b = true → le b c = true → le a c = true) :
    ∀ l : List α, (l.foldr (insBy le) []).Pairwise (fun a b => le a b = true)
  | [] => List.Pairwise.nil
  | x :: xs => by
    simp only [List.foldr_cons]
    exact insBy_sorted le htot htr x _ (foldr_insBy_sorted le htot htr xs)

theorem insertByKey_eq {β : Type} (x : Key × β) :
    ∀ l : List (Key × β), insertByKey x l = insBy (fun a b => keyLe a.1 b.1) x l
  | [] => rfl
  | y :: ys => by simp [insertByKey, insBy, insertByKey_eq x ys]

theorem sortByKey_eq {β : Type} (l : List (Key × β)) :
    sortByKey l = l.foldr (insBy (fun a b => keyLe a.1 b.1)) [] := by
  unfold sortByKey
  induction l with
  | nil => rfl
  | cons x xs ih => simp only [List.foldr_cons, ih, insertByKey_eq]

/-- `sorted(keys)`: a permutation -/
theorem sortByKey_perm {β : Type} (l : List (Key × β)) : (sortByKey l).Perm l := by
  rw [sortByKey_eq]; exact foldr_insBy_perm _ l

/-- `sorted(keys)`: in the order of Python's `<=` on tuples -/
theorem sortByKey_sorted {β : Type} (l : List (Key × β)) :
    (sortByKey l).Pairwise (fun a b => keyLe a.1 b.1 = true) := by
  rw [sortByKey_eq]
  exact foldr_insBy_sorted _ (fun a b => keyLe_total a.1 b.1) (fun a b c => keyLe_trans a.1 b.1 c.1) l

/-- sorting only looks at the keys -/
theorem insertByKey_map {β γ : Type} (f : β → γ) (x : Key × β) : ∀ l : List (Key × β),
    insertByKey (x.1, f x.2) (l.map (fun kv => (kv.1, f kv.2))) = (insertByKey x l).map (fun kv => (kv.1, f kv.2))
  | [] => rfl
  | y :: ys => by
    simp only [List.map_cons, insertByKey]
    split
    · simp
    · simp [insertByKey_map f x ys]

theorem sortByKey_map {β γ : Type} (f : β → γ) (l : List (Key × β)) :
    sortByKey (l.map (fun kv => (kv.1, f kv.2))) = (sortByKey l).map (fun kv => (kv.1, f kv.2)) := by
  unfold sortByKey
  induction l with
  | nil => rfl
  | cons x xs ih =>
    simp only [List.map_cons, List.foldr_cons, ih]
    exact insertByKey_map f x _

theorem insertLoc_eq {β : Type} (x : Text × β) :
    ∀ l : List (Text × β), insertLoc x l = insBy (fun a b => textLe a.1 b.1) x l
  | [] => rfl
  | y :: ys => by simp [insertLoc, insBy, insertLoc_eq x ys]

theorem foldr_insertLoc_eq {β : Type} (l : List (Text × β)) :
    l.foldr insertLoc [] = l.foldr (insBy (fun a b => textLe a.1 b.1)) [] := by
  induction l with
  | nil => rfl
  | cons x xs ih => simp only [List.foldr_cons, ih, insertLoc_eq]

theorem sortLoc_perm {β : Type} (l : List (Text × β)) : (l.foldr insertLoc []).Perm l := by
  rw [foldr_insertLoc_eq]; exact foldr_insBy_perm _ l

theorem sortLoc_sorted {β : Type} (l : List (Text × β)) :
    (l.foldr insertLoc []).Pairwise (fun a b => textLe a.1 b.1 = true) := by
  rw [foldr_insertLoc_eq]
  exact foldr_insBy_sorted _ (fun a b => textLe_total a.1 b.1) (fun a b c => textLe_trans a.1 b.1 c.1) l

/-! ### strictly sorted association lists -/

/-- the `(key, item)` pairs of an association list of lists, in order -/
def expand {κ δ : Type} (l : List (κ × List δ)) : List (κ × δ) :=
  l.flatMap (fun r => r.2.map (fun it => (r.1, it)))

/-- two association lists with strictly sorted keys: if every entry of `B` has a counterpart in `A`
    whose list contains it as a sublist, then the expanded `B` is a sublist of the expanded `A` -/
theorem expand_sublist {κ δ : Type} (lt : κ → κ → Prop) (hirr : ∀ a, ¬ lt a a)
    (hasym : ∀ a b, lt a b → lt b a → False) :
    ∀ (A B : List (κ × List δ)), (A.map (·.1)).Pairwise lt → (B.map (·.1)).Pairwise lt →
      (∀ b ∈ B, ∃ a ∈ A, a.1 = b.1 ∧ b.2.Sublist a.2) → (expand B).Sublist (expand A)
  | [], B, _, _, h => by
    cases B with
    | nil => exact List.Sublist.slnil
    | cons b _ => obtain ⟨a, ha, _⟩ := h b (by simp); cases ha
  | a :: A', [], _, _, _ => by simp [expand]
  | a :: A', b :: B', hA, hB, h => by
    simp only [List.map_cons, List.pairwise_cons, List.mem_map] at hA hB
    by_cases hab : a.1 = b.1
    · -- `b` is matched by `a`, the rest of `B` by the rest of `A`
      obtain ⟨a0, ha0, e0, s0⟩ := h b (by simp)
      have ha0' : a0 = a := by
        simp only [List.mem_cons] at ha0
        rcases ha0 with rfl | hm
        · rfl
        · have hl : lt a.1 a0.1 := hA.1 a0.1 ⟨a0, hm, rfl⟩
          rw [e0, ← hab] at hl
          exact absurd hl (hirr a.1)
      subst ha0'
      have hrest : ∀ b' ∈ B', ∃ a' ∈ A', a'.1 = b'.1 ∧ b'.2.Sublist a'.2 := by
        intro b' hb'
        obtain ⟨a', ha', e', s'⟩ := h b' (by simp [hb'])
        simp only [List.mem_cons] at ha'
        rcases ha' with rfl | hm
        · have hl : lt b.1 b'.1 := hB.1 b'.1 ⟨b', hb', rfl⟩
          rw [← hab, e'] at hl
          exact absurd hl (hirr b'.1)
        · exact ⟨a', hm, e', s'⟩
      have ih := expand_sublist lt hirr hasym A' B' hA.2 hB.2 hrest
      simp only [expand, List.flatMap_cons] at ih ⊢
      rw [← hab]
      exact List.Sublist.append (List.Sublist.map _ s0) ih
    · -- `a` matches nothing of `B`
      have hall : ∀ b' ∈ b :: B', ∃ a' ∈ A', a'.1 = b'.1 ∧ b'.2.Sublist a'.2 := by
        obtain ⟨a0, ha0, e0, _⟩ := h b (by simp)
        have ha0' : a0 ∈ A' := by
          simp only [List.mem_cons] at ha0
          rcases ha0 with rfl | hm
          · exact absurd e0 hab
          · exact hm
        have hlt : lt a.1 b.1 := by rw [← e0]; exact hA.1 a0.1 ⟨a0, ha0', rfl⟩
        intro b' hb'
        obtain ⟨a', ha', e', s'⟩ := h b' hb'
        simp only [List.mem_cons] at ha' hb'
        rcases ha' with rfl | hm
        · rcases hb' with rfl | hb'
          · exact absurd e' hab
          · exact absurd (by rw [e']; exact hB.1 b'.1 ⟨b', hb', rfl⟩) (fun hl => hasym _ _ hlt hl)
        · exact ⟨a', hm, e', s'⟩
      have ih := expand_sublist lt hirr hasym A' (b :: B') hA.2
        (by simp only [List.map_cons, List.pairwise_cons, List.mem_map]; exact hB) hall
      simp only [expand, List.flatMap_cons] at ih ⊢
      exact ih.trans (List.sublist_append_right _ _)

end C10T

/- Helper lemmas for C14: the missing-entity branch of ContentComparer.compare under observers with filters. -/
import CLModel.Compare.MissingFilter
namespace Filt

/-- what an observer answers for a missing key -/
def obsVerdict : Obs → Text → Action
  | some f, k => f k
  | none, _ => .error

/-- most severe answer of all observers, `ignore` when there is none -/
def combined (observers : List Obs) (k : Text) : Action :=
  if observers.any (fun o => obsVerdict o k == .error) then .error
  else if observers.any (fun o => obsVerdict o k == .warning) then .warning
  else .ignore

theorem observerNotifyMissing_eq (o : Obs) (k : Text) :
    observerNotifyMissing o k = (obsVerdict o k, obsVerdict o k != .ignore) := by
  cases o with
  | none => simp [observerNotifyMissing, obsVerdict]
  | some f =>
    simp only [observerNotifyMissing, obsVerdict]
    cases f k <;> simp

/-- the set logic of `ObserverList.notify` on the list of return values -/
theorem notify_sets (rvs : List Action) :
    notifyRvs rvs =
    .ok (if rvs.contains .error then .error else if rvs.contains .warning then .warning else .ignore,
         !(rvs.all (· == .ignore))) := by
  unfold notifyRvs
  by_cases h1 : rvs.all (· == Action.ignore) = true
  · have hall : ∀ x ∈ rvs, x = Action.ignore := by simpa using h1
    have he : Action.error ∉ rvs := fun h => by have := hall _ h; cases this
    have hw : Action.warning ∉ rvs := fun h => by have := hall _ h; cases this
    simp [h1, he, hw]
  · rw [if_neg h1]
    have hF : ∀ x, x ∈ rvs.filter (· != Action.ignore) ↔ x ∈ rvs ∧ x ≠ Action.ignore := by
      intro x; simp [List.mem_filter]
    by_cases h2 : (rvs.filter (· != Action.ignore)).contains Action.error = true
    · have he : Action.error ∈ rvs := ((hF Action.error).mp (by simpa using h2)).1
      rw [if_pos h2]
      simp [he, h1]
    · rw [if_neg h2]
      have he : Action.error ∉ rvs := fun h =>
        h2 (by simpa using (hF Action.error).mpr ⟨h, by decide⟩)
      have hw : ∀ x ∈ rvs.filter (· != Action.ignore), x = Action.warning := by
        intro x hx
        have hx' := (hF x).mp hx
        cases x with
        | warning => rfl
        | ignore => exact absurd rfl hx'.2
        | error => exact absurd hx'.1 he
      obtain ⟨y, hy1, hy2⟩ : ∃ y, y ∈ rvs ∧ y ≠ Action.ignore := by
        simpa using h1
      have hyF := (hF y).mpr ⟨hy1, hy2⟩
      cases hFl : rvs.filter (· != Action.ignore) with
      | nil => rw [hFl] at hyF; cases hyF
      | cons a rest =>
        rw [hFl] at hw
        have ha : a = Action.warning := hw a (by simp)
        have hrest : ∀ x ∈ rest, x = Action.warning := fun x hx => hw x (by simp [hx])
        have hcw : Action.warning ∈ rvs := by
          have : a ∈ rvs.filter (· != Action.ignore) := by rw [hFl]; simp
          have := ((hF a).mp this).1
          rw [ha] at this; exact this
        simp [he, hcw, ha, h1]
        exact hrest

theorem contains_map_eq_any (l : List Obs) (k : Text) (a : Action) :
    (l.map (fun o => obsVerdict o k)).contains a = l.any (fun o => obsVerdict o k == a) := by
  rw [Bool.eq_iff_iff]
  simp [List.mem_map]

theorem listNotifyMissing_eq (observers : List Obs) (k : Text) :
    listNotifyMissing observers k = .ok (combined observers k, combined observers k != .ignore) := by
  unfold listNotifyMissing
  have hmap : observers.map (fun o => (observerNotifyMissing o k).1) = observers.map (fun o => obsVerdict o k) := by
    apply List.map_congr_left; intro o _; rw [observerNotifyMissing_eq]
  simp only [hmap]
  rw [notify_sets]
  have hc : (if (observers.map (fun o => obsVerdict o k)).contains Action.error then Action.error
      else if (observers.map (fun o => obsVerdict o k)).contains Action.warning then Action.warning
      else Action.ignore) = combined observers k := by
    unfold combined
    rw [contains_map_eq_any, contains_map_eq_any]
  rw [hc]
  congr 2
  -- not all ignore  ↔  combined ≠ ignore
  unfold combined
  by_cases he : observers.any (fun o => obsVerdict o k == Action.error) = true
  · rw [if_pos he]
    obtain ⟨o, ho, hoe⟩ := List.any_eq_true.mp he
    have : (observers.map (fun o => obsVerdict o k)).all (· == Action.ignore) = false := by
      rw [Bool.eq_false_iff]; intro h
      have := (List.all_eq_true.mp h) (obsVerdict o k) (List.mem_map.mpr ⟨o, ho, rfl⟩)
      have e1 : obsVerdict o k = Action.error := by simpa using hoe
      rw [e1] at this; cases this
    rw [this]; rfl
  · rw [if_neg he]
    by_cases hw : observers.any (fun o => obsVerdict o k == Action.warning) = true
    · rw [if_pos hw]
      obtain ⟨o, ho, hoe⟩ := List.any_eq_true.mp hw
      have : (observers.map (fun o => obsVerdict o k)).all (· == Action.ignore) = false := by
        rw [Bool.eq_false_iff]; intro h
        have := (List.all_eq_true.mp h) (obsVerdict o k) (List.mem_map.mpr ⟨o, ho, rfl⟩)
        have e1 : obsVerdict o k = Action.warning := by simpa using hoe
        rw [e1] at this; cases this
      rw [this]; rfl
    · rw [if_neg hw]
      have : (observers.map (fun o => obsVerdict o k)).all (· == Action.ignore) = true := by
        rw [List.all_eq_true]; intro x hx
        obtain ⟨o, ho, rfl⟩ := List.mem_map.mp hx
        cases hv : obsVerdict o k with
        | ignore => rfl
        | error => exact absurd (List.any_eq_true.mpr ⟨o, ho, by simp [hv]⟩) he
        | warning => exact absurd (List.any_eq_true.mpr ⟨o, ho, by simp [hv]⟩) hw
      rw [this]; rfl

/-- closed form of the missing-entity loop -/
def missingSpec (v : Text → Action) (keys : List Text) (acc : MissAcc) : MissAcc :=
  { missing := acc.missing + (keys.filter (fun k => v k == .error)).length
    report := acc.report + (keys.filter (fun k => v k == .warning)).length
    missings := acc.missings ++ keys.filter (fun k => v k == .error)
    shown := acc.shown ++ keys.filter (fun k => v k != .ignore) }

theorem missingLoop_eq (observers : List Obs) (keys : List Text) (acc : MissAcc) :
    missingLoop observers keys acc = .ok (missingSpec (combined observers) keys acc) := by
  induction keys generalizing acc with
  | nil => simp [missingLoop, missingSpec]
  | cons k rest ih =>
    rw [missingLoop, listNotifyMissing_eq]
    simp only [bind, Except.bind]
    cases hv : combined observers k <;>
      simp [ih, missingSpec, hv, Nat.add_assoc, Nat.add_comm 1]

theorem compareMissing_eq (observers : List Obs) (keys : List Text) :
    compareMissing observers keys = .ok
      ⟨missingSpec (combined observers) keys MissAcc.zero,
       observers.map (fun o => observerUpdateStats o (missingSpec (combined observers) keys MissAcc.zero))⟩ := by
  simp [compareMissing, missingLoop_eq, bind, Except.bind, pure, Except.pure]

theorem combined_single (v : Text → Action) (k : Text) : combined [some v] k = v k := by
  simp only [combined, obsVerdict, List.any_cons, List.any_nil, Bool.or_false]
  cases v k <;> simp

end Filt

/-
C16G, part 6: printed files — when the output starts with a blank line, and TEXT-LEVEL IDEMPOTENCE:
serializing the re-parsed output once more with no new data returns the same text.
-/
import CLModel.Proofs.C16GLead
namespace C16G
open AR Ser C16L C16R
open P (PRec)

/-! ### the dicts of a printed reference -/

theorem d0F_eq (F : RFmt) (rs : List PRec) (hn : (rs.map (·.1)).Nodup) :
    d0Of (entsF F rs) = pk 0 (fun r => placeholder (entF F r)) 0 rs := by
  unfold d0Of plOf
  rw [map_entsF F placeholder rfl]
  apply parseResource_mkList _ _ _ rs hn
  intro r
  exact ⟨rfl, rfl, rfl⟩

theorem d1F_eq (F : RFmt) (ref : List Ent) (nd : NewData) (rs : List PRec) (hn : (rs.map (·.1)).Nodup) :
    d1Of ref (entsF F rs) nd = pk 1 (fun r => sanOf ref nd (entF F r)) 0 rs := by
  unfold d1Of
  rw [osOf_eq, map_entsF F (sanOf ref nd) (sanOf_entW ref nd)]
  apply parseResource_mkList _ _ _ rs hn
  intro r
  rcases sanOf_entF F ref nd r with h | h <;> rw [h] <;> exact ⟨rfl, rfl, rfl⟩

theorem tri_entW : Tri entW := .inl rfl

theorem tri_d0F (F : RFmt) (rs : List PRec) : ∀ p ∈ d0Of (entsF F rs), Tri p.2 := by
  intro p hp
  have hm := parseResource_mem hp
  simp only [plOf, List.mem_map, List.mem_filter] at hm
  obtain ⟨e, ⟨he, _⟩, hpe⟩ := hm
  rw [← hpe]
  rcases mem_entsF he with rfl | ⟨r, _, rfl⟩
  · exact .inl rfl
  · exact .inr (.inr rfl)

theorem tri_d1F (F : RFmt) (ref : List Ent) (nd : NewData) (oldE : List Ent) (oldRecs : List PRec)
    (hmem : ∀ e ∈ oldE, e = entW ∨ ∃ r ∈ oldRecs, e = entF F r) : ∀ p ∈ d1Of ref oldE nd, Tri p.2 := by
  intro p hp
  have hm := parseResource_mem hp
  simp only [osOf_eq, List.mem_map, List.mem_filter] at hm
  obtain ⟨e, ⟨he, _⟩, hpe⟩ := hm
  rw [← hpe]
  rcases hmem e he with rfl | ⟨r, _, rfl⟩
  · rw [sanOf_entW]; exact .inl rfl
  · rcases sanOf_entF F ref nd r with h | h <;> rw [h]
    · exact .inr (.inl rfl)
    · exact .inr (.inr rfl)

theorem str_mem_d0F (F : RFmt) (rs : List PRec) (hn : (rs.map (·.1)).Nodup) (r : PRec) (hr : r ∈ rs) :
    MKey.str r.1 ∈ dkeys (d0Of (entsF F rs)) := by
  apply known_mem_d0
  rw [known_iff, refMapping_entsF F rs hn r hr]
  rfl

/-- the two merges leave the chosen entity -/
theorem gOf_entsF (F : RFmt) (refRecs : List PRec) (nd : NewData) (oldE : List Ent)
    (hrk : (refRecs.map (·.1)).Nodup) (hnd : (nd.map (·.1)).Nodup) (r : PRec) (hr : r ∈ refRecs) :
    gOf (entsF F refRecs) oldE nd (MKey.str r.1) = chosen (entsF F refRecs) oldE nd r.1 :=
  gOf_str _ _ _ hnd _ (str_mem_d0F F refRecs hrk r hr)

/-! ### when does the output start with a blank line? -/

/-- NO LEADING BLANK LINE: the first reference record has an expected record, and the old file is empty or starts with
    a record whose key is a reference key -/
theorem no_lead_printed (F : RFmt) (r0 : PRec) (rs : List PRec) (nd : NewData) (oldRecs : List PRec)
    (hrk : ((r0 :: rs).map (·.1)).Nodup) (hok : (oldRecs.map (·.1)).Nodup) (hnd : (nd.map (·.1)).Nodup)
    (hfirst : (expectedRec oldRecs nd r0).isSome = true)
    (hohead : ∀ o, oldRecs.head? = some o → o.1 ∈ (r0 :: rs).map (·.1)) :
    hw Ent.isWs (serializeEnts (entsF F (r0 :: rs)) (entsF F oldRecs) nd) = false := by
  have ho := oldOK_entsF F (entsF F (r0 :: rs)) nd oldRecs hok
  have hch := chosen_entsF F (r0 :: rs) nd _ oldRecs hrk ho r0 (by simp)
  cases hc : chosen (entsF F (r0 :: rs)) (entsF F oldRecs) nd r0.1 with
  | none => rw [hc] at hch; rw [← hch] at hfirst; simp at hfirst
  | some E =>
    have h0 := d0F_eq F (r0 :: rs) hrk
    rw [pk] at h0
    apply no_lead_of_head _ _ _ r0.1 _ _ E h0
    · intro x hx
      rw [d1F_eq F _ nd oldRecs hok] at hx
      cases oldRecs with
      | nil => simp [pk, dkeys] at hx
      | cons o os =>
        simp only [pk, dkeys, List.map_cons, List.head?_cons, Option.some.injEq] at hx
        subst hx
        have := hohead o rfl
        rw [List.mem_map] at this
        obtain ⟨r, hr, hk⟩ := this
        rw [← hk]
        exact str_mem_d0F F (r0 :: rs) hrk r hr
    · rw [gOf_entsF F (r0 :: rs) nd _ hrk hnd r0 (by simp), hc]

/-- LEADING BLANK LINE: the first reference record has NO expected record (old file: printed records, possibly after
    one leading newline) -/
theorem lead_printed (F : RFmt) (r0 : PRec) (rs : List PRec) (nd : NewData) (oldE : List Ent) (oldRecs : List PRec)
    (ho : OldOKF F (entsF F (r0 :: rs)) nd oldE oldRecs)
    (hrk : ((r0 :: rs).map (·.1)).Nodup) (hnd : (nd.map (·.1)).Nodup)
    (hfirst : expectedRec oldRecs nd r0 = none) :
    hw Ent.isWs (serializeEnts (entsF F (r0 :: rs)) oldE nd) = true := by
  have hch := chosen_entsF F (r0 :: rs) nd oldE oldRecs hrk ho r0 (by simp)
  rw [hfirst] at hch
  have hc : chosen (entsF F (r0 :: rs)) oldE nd r0.1 = none := by
    cases h : chosen (entsF F (r0 :: rs)) oldE nd r0.1 with
    | none => rfl
    | some E => rw [h] at hch; simp at hch
  have h0 := d0F_eq F (r0 :: rs) hrk
  rw [pk] at h0
  apply lead_of_not_chosen _ _ _ r0.1 _ _ h0 (alt_d0F F (r0 :: rs) hrk) ho.alt (tri_d0F F (r0 :: rs))
    (tri_d1F F _ nd oldE oldRecs ho.mem)
  rw [gOf_entsF F (r0 :: rs) nd _ hrk hnd r0 (by simp), hc]

/-! ### the expected records, once more -/

theorem expectedRec_key {oldRecs : List PRec} {nd : NewData} {r x : PRec} (h : expectedRec oldRecs nd r = some x) :
    x.1 = r.1 := by
  unfold expectedRec at h
  cases hd : dget nd r.1 with
  | none =>
    rw [hd] at h
    simp only at h
    have := List.find?_some h
    simpa using this
  | some ov =>
    rw [hd] at h
    cases ov with
    | none => simp at h
    | some v => simp only [Option.some.injEq] at h; rw [← h]

theorem expectedRecs_keys_sublist (refRecs oldRecs : List PRec) (nd : NewData) :
    ((expectedRecs refRecs oldRecs nd).map (·.1)).Sublist (refRecs.map (·.1)) := by
  unfold expectedRecs
  induction refRecs with
  | nil => simp
  | cons r rs ih =>
    rw [List.filterMap_cons]
    cases h : expectedRec oldRecs nd r with
    | none => simp only [List.map_cons]; exact ih.cons _
    | some x =>
      simp only [List.map_cons]
      rw [expectedRec_key h]
      exact ih.cons₂ _

theorem expectedRecs_nodup (refRecs oldRecs : List PRec) (nd : NewData) (hrk : (refRecs.map (·.1)).Nodup) :
    ((expectedRecs refRecs oldRecs nd).map (·.1)).Nodup :=
  hrk.sublist (expectedRecs_keys_sublist refRecs oldRecs nd)

theorem mem_expectedRecs_key {refRecs oldRecs : List PRec} {nd : NewData} {x : PRec}
    (h : x ∈ expectedRecs refRecs oldRecs nd) : x.1 ∈ refRecs.map (·.1) :=
  (expectedRecs_keys_sublist refRecs oldRecs nd).subset (List.mem_map.2 ⟨x, h, rfl⟩)

/-- looking a reference key up in the expected records gives back the record expected for it -/
theorem find_expected (oldRecs : List PRec) (nd : NewData) :
    ∀ (refRecs : List PRec), (refRecs.map (·.1)).Nodup → ∀ r ∈ refRecs,
      (expectedRecs refRecs oldRecs nd).find? (fun o => o.1 == r.1) = expectedRec oldRecs nd r := by
  intro refRecs
  induction refRecs with
  | nil => intro _ r hr; simp at hr
  | cons a rs ih =>
    intro hn r hr
    rw [List.map_cons, List.nodup_cons] at hn
    unfold expectedRecs at ih ⊢
    rw [List.filterMap_cons]
    rcases List.mem_cons.1 hr with rfl | hr'
    · -- `r` is the first record: nothing later has its key
      have hrest : (rs.filterMap (expectedRec oldRecs nd)).find? (fun o => o.1 == r.1) = none := by
        rw [List.find?_eq_none]
        intro x hx hk
        have hk' : x.1 = r.1 := by simpa using hk
        have := mem_expectedRecs_key (refRecs := rs) (oldRecs := oldRecs) (nd := nd) (x := x) hx
        rw [hk'] at this
        exact hn.1 this
      cases h : expectedRec oldRecs nd r with
      | none => simpa using hrest
      | some x =>
        simp only
        rw [List.find?_cons_of_pos (by simp [expectedRec_key h])]
    · have hne : a.1 ≠ r.1 := by
        intro h
        exact hn.1 (by rw [h]; exact List.mem_map.2 ⟨r, hr', rfl⟩)
      cases h : expectedRec oldRecs nd a with
      | none => simp only; exact ih hn.2 r hr'
      | some x =>
        simp only
        rw [List.find?_cons_of_neg (by simp [expectedRec_key h, hne])]
        exact ih hn.2 r hr'

/-- the expected records of a second run (old file = the expected records, no new data) are the same records -/
theorem expectedRecs_again (refRecs oldRecs : List PRec) (nd : NewData) (hrk : (refRecs.map (·.1)).Nodup) :
    expectedRecs refRecs (expectedRecs refRecs oldRecs nd) [] = expectedRecs refRecs oldRecs nd := by
  have h1 : ∀ X : List PRec, expectedRecs refRecs X [] = refRecs.filterMap (expectedRec X []) := fun _ => rfl
  have h2 : expectedRecs refRecs oldRecs nd = refRecs.filterMap (expectedRec oldRecs nd) := rfl
  rw [h1]
  conv => rhs; rw [h2]
  apply filterMap_congr'
  intro r hr
  have : expectedRec (expectedRecs refRecs oldRecs nd) [] r
      = (expectedRecs refRecs oldRecs nd).find? (fun o => o.1 == r.1) := by
    unfold expectedRec
    simp [dget]
  rw [this, find_expected oldRecs nd refRecs hrk r hr]

/-! ### text-level idempotence -/

/-- the entries a re-parse of the output yields: the printed expected records, after one white-space entry if the output
    starts with a blank line -/
def reparsed (F : RFmt) (lead : Bool) (recs : List PRec) : List Ent := (if lead then [entW] else []) ++ entsF F recs

theorem hw_empty_ref (old : List Ent) (hold : ∀ e ∈ old, e.isJunk = false → False) :
    hw Ent.isWs (serializeEnts [] old []) = false := by
  rw [hw_out]
  have h0 : d0Of [] = [] := rfl
  have h1 : d1Of [] old [] = [] := by
    unfold d1Of
    rw [osOf_eq]
    have : old.filter (fun e => !e.isJunk) = [] := by
      rw [List.filter_eq_nil_iff]
      intro e he hj
      exact hold e he (by simpa using hj)
    rw [this]
    rfl
  rw [h0, h1]
  unfold olderPairs
  have : addRemove (dkeys ([] : Dict)) (dkeys ([] : Dict)) = [] := by
    show addRemove ([] : List MKey) [] = []
    rw [addRemove_eq_spec [] [] (by simp) (by simp)]
    rfl
  rw [this]
  rfl

theorem reparsed_true (F : RFmt) (recs : List PRec) : reparsed F true recs = entW :: entsF F recs := rfl
theorem reparsed_false (F : RFmt) (recs : List PRec) : reparsed F false recs = entsF F recs := rfl

theorem oldOK_reparsed (F : RFmt) (ref : List Ent) (lead : Bool) (recs : List PRec) (hrn : (recs.map (·.1)).Nodup) :
    OldOKF F ref [] (reparsed F lead recs) recs := by
  cases lead with
  | false => rw [reparsed_false]; exact oldOK_entsF F _ [] _ hrn
  | true => rw [reparsed_true]; exact oldOK_lead F _ [] _ hrn

/-- the second run reproduces the leading newline of the first -/
theorem lead_again (F : RFmt) (refRecs oldRecs : List PRec) (nd : NewData)
    (hrk : (refRecs.map (·.1)).Nodup) (hok : (oldRecs.map (·.1)).Nodup) (hnd : (nd.map (·.1)).Nodup)
    (lead : Bool) (hlead : hw Ent.isWs (serializeEnts (entsF F refRecs) (entsF F oldRecs) nd) = lead) :
    hw Ent.isWs (serializeEnts (entsF F refRecs) (reparsed F lead (expectedRecs refRecs oldRecs nd)) []) = lead := by
  have hrn : ((expectedRecs refRecs oldRecs nd).map (·.1)).Nodup := expectedRecs_nodup refRecs oldRecs nd hrk
  have hnil : (([] : NewData).map (·.1)).Nodup := by simp
  cases lead with
  | true =>
    have hd1 := d1_lead F (entsF F refRecs) [] (expectedRecs refRecs oldRecs nd) hrn
    rw [reparsed_true]
    exact lead_of_old_ws (entsF F refRecs) (entW :: entsF F (expectedRecs refRecs oldRecs nd)) [] 0 entW _ hd1 rfl
  | false =>
    rw [reparsed_false]
    cases refRecs with
    | nil =>
      have h1 : expectedRecs [] oldRecs nd = [] := rfl
      have h2 : entsF F ([] : List PRec) = [] := rfl
      rw [h1, h2]
      exact hw_empty_ref [] (by intro e he; simp at he)
    | cons r0 rs =>
      -- the first run has no leading blank line: the first reference record is expected
      have hexp : (expectedRec oldRecs nd r0).isSome = true := by
        cases he : expectedRec oldRecs nd r0 with
        | some x => rfl
        | none =>
          have := lead_printed F r0 rs nd (entsF F oldRecs) oldRecs (oldOK_entsF F _ nd oldRecs hok) hrk hnd he
          rw [hlead] at this
          exact absurd this (by simp)
      obtain ⟨x, hx⟩ := Option.isSome_iff_exists.1 hexp
      have hrecs : expectedRecs (r0 :: rs) oldRecs nd = x :: expectedRecs rs oldRecs nd := by
        unfold expectedRecs
        rw [List.filterMap_cons, hx]
      apply no_lead_printed F r0 rs [] _ hrk hrn hnil
      · have := find_expected oldRecs nd (r0 :: rs) hrk r0 (by simp)
        have e2 : expectedRec (expectedRecs (r0 :: rs) oldRecs nd) [] r0
            = (expectedRecs (r0 :: rs) oldRecs nd).find? (fun o => o.1 == r0.1) := by
          unfold expectedRec
          simp [dget]
        rw [e2, this, hx]
        rfl
      · intro o ho
        rw [hrecs] at ho
        simp only [List.head?_cons, Option.some.injEq] at ho
        subst ho
        rw [expectedRec_key hx]
        simp

/-- TEXT-LEVEL IDEMPOTENCE (entry lists): run `serialize` on two printed files; re-parse its output (`reparsed`);
    run `serialize` again with that as the old localization and no new data: the SAME TEXT comes out. -/
theorem text_idempotent (F : RFmt) (Sf : PRec → Prop) (refRecs oldRecs : List PRec) (nd : NewData)
    (hold : ∀ r ∈ oldRecs, Sf r)
    (hrk : (refRecs.map (·.1)).Nodup) (hok : (oldRecs.map (·.1)).Nodup) (hnd : (nd.map (·.1)).Nodup)
    (hv : ∀ r ∈ refRecs, ∀ v, (r.1, some v) ∈ nd → Sf (r.1, v))
    (lead : Bool) (hlead : hw Ent.isWs (serializeEnts (entsF F refRecs) (entsF F oldRecs) nd) = lead) :
    serializeOut (entsF F refRecs) (entsF F oldRecs) nd
      = (if lead then [10] else []) ++ printF F (expectedRecs refRecs oldRecs nd) ∧
    (∀ r ∈ expectedRecs refRecs oldRecs nd, Sf r) ∧
    serializeOut (entsF F refRecs) (reparsed F lead (expectedRecs refRecs oldRecs nd)) []
      = serializeOut (entsF F refRecs) (entsF F oldRecs) nd := by
  obtain ⟨ht1, hsafe⟩ := out_text F Sf refRecs oldRecs nd hold hrk hok hnd hv
  rw [hlead] at ht1
  refine ⟨ht1, hsafe, ?_⟩
  have hrn : ((expectedRecs refRecs oldRecs nd).map (·.1)).Nodup := expectedRecs_nodup refRecs oldRecs nd hrk
  have hnil : (([] : NewData).map (·.1)).Nodup := by simp
  have hv2 : ∀ r ∈ refRecs, ∀ v, (r.1, some v) ∈ ([] : NewData) → Sf (r.1, v) := by intro _ _ _ h; simp at h
  have ho2 := oldOK_reparsed F (entsF F refRecs) lead (expectedRecs refRecs oldRecs nd) hrn
  obtain ⟨ht2, _⟩ := out_textG F Sf refRecs [] _ _ ho2 hsafe hrk hnil hv2
  rw [ht2, ht1, expectedRecs_again refRecs oldRecs nd hrk, lead_again F refRecs oldRecs nd hrk hok hnd lead hlead]

end C16G

/-
Helper lemmas for C15, part 8: the text serialised for a string is the one of the newest
version having it (lookup in the version dicts).  Core Lean only.
-/
import CLModel.Proofs.C15Text
namespace Merge
open AR

theorem pairs_mem_ent (es : List Ent) (c : List (List Nat × Nat)) (e : Ent) (he : e ∈ es)
    (hk : e.keyed = true) : (Key.ent e.ekey, e) ∈ pairs es c := by
  induction es generalizing c with
  | nil => simp at he
  | cons x es ih =>
    rw [List.mem_cons] at he
    rcases he with rfl | he
    · have h1 : e.kind ≠ .comment := by
        intro h; simp [Ent.keyed, h] at hk
      have h2 : e.kind ≠ .whitespace := by
        intro h; simp [Ent.keyed, h] at hk
      simp [pairs, getKeyValue_ent e c h1 h2]
    · simp only [pairs, List.mem_cons]
      exact .inr (ih _ he)

theorem stamp_mem (v : Nat) (es : List Ent) (e : Ent) (he : e ∈ es) :
    ∃ e' ∈ stamp v es, SameBut e' e := by
  simp only [stamp, List.mem_map]
  obtain ⟨j, hj, hget⟩ := List.mem_iff_getElem.1 he
  refine ⟨{ e with oid := (v, j) }, ⟨(e, j), ?_, rfl⟩, ⟨rfl, rfl, rfl, rfl⟩⟩
  rw [List.mem_zipIdx_iff_getElem?, List.getElem?_eq_getElem hj, hget]

theorem stamp_mem_inv (v : Nat) (es : List Ent) (e' : Ent) (he : e' ∈ stamp v es) :
    ∃ e ∈ es, SameBut e' e := by
  simp only [stamp, List.mem_map] at he
  obtain ⟨p, hp, rfl⟩ := he
  have hp1 : p.1 ∈ es := by
    have := List.mem_map_of_mem (f := Prod.fst) hp
    rwa [List.zipIdx_map_fst] at this
  exact ⟨p.1, hp1, ⟨rfl, rfl, rfl, rfl⟩⟩

/-- in a version without a repeated key, the dict holds the entry itself under its key -/
theorem versionDict_dget_ent (i : Nat) (es : List Ent) (hk : NodupKeys es) (e : Ent) (he : e ∈ es)
    (hkeyed : e.keyed = true) : (dget (versionDict i es) (Key.ent e.ekey)).map (·.all) = some e.all := by
  obtain ⟨e', he', hs⟩ := stamp_mem i es e he
  have hkeyed' : e'.keyed = true := by rw [sameBut_keyed _ _ hs]; exact hkeyed
  have hm := pairs_mem_ent (stamp i es) [] e' he' hkeyed'
  rw [← versionDict_eq i es hk] at hm
  have := (dget_eq_some_iff _ (versionDict_wf i es).nodup _ _).2 hm
  rw [← hs.2.1, this]
  simp [hs.2.2.2]

/-- a version none of whose entries has the key does not have it in its dict -/
theorem versionDict_dget_none (j : Nat) (es : List Ent) (ek : EKey)
    (h : ∀ e ∈ es, e.keyed = true → e.ekey ≠ ek) : dget (versionDict j es) (Key.ent ek) = none := by
  apply dget_eq_none
  intro hm
  have := (versionDict_mem_keys j es _).1 hm
  obtain ⟨e', he', hkeyed', hek⟩ := (pairs_ent_mem _ _ _).1 this
  obtain ⟨e, he, hs⟩ := stamp_mem_inv j es e' he'
  exact h e he (by rw [← sameBut_keyed _ _ hs]; exact hkeyed') (by rw [← hs.2.1]; exact hek)

theorem findSome_first (k : Key) (rs : List (List Ent)) (n i : Nat) (es : List Ent) (v : Ent)
    (hi : rs[i]? = some es)
    (hnone : ∀ j < i, ∀ es', rs[j]? = some es' → dget (versionDict (n + j) es') k = none)
    (hsome : dget (versionDict (n + i) es) k = some v) :
    ((rs.zipIdx n).map (fun p => versionDict p.2 p.1)).findSome? (fun dv => dget dv k) = some v := by
  induction rs generalizing n i with
  | nil => simp at hi
  | cons r rs ih =>
    rw [List.zipIdx_cons, List.map_cons, List.findSome?_cons]
    cases i with
    | zero =>
      simp only [List.getElem?_cons_zero, Option.some.injEq] at hi
      subst hi
      simp only [Nat.add_zero] at hsome
      rw [hsome]
    | succ i =>
      have h0 := hnone 0 (by omega) r (by simp)
      simp only [Nat.add_zero] at h0
      rw [h0]
      simp only [List.getElem?_cons_succ] at hi
      apply ih (n + 1) i hi
      · intro j hj es' hes'
        have := hnone (j + 1) (by omega) es' (by simpa using hes')
        rwa [show n + (j + 1) = n + 1 + j by omega] at this
      · rwa [show n + 1 + i = n + (i + 1) by omega]

end Merge

/-
C07, round 4 — `parse_css_spec` on ARBITRARY texts.

C08C* proved: every text of the grammar `CssSpec` is parsed without errors into its declarations, and texts with
gaps of certain classes give certain errors.  Here the converse direction and totality:

* `spec_match_inv`   whenever the generated `_css_spec` matches (non-empty), a grammatical declaration stands there
* `sep_match_edge`   whenever `_css_sep` matches a gap, the gap is `ws* ;? ws*`
* `SpecT`            EVERY text is either free of declarations or a chain gap₀ d₁ gap₁ … dₙ trail (leftmost
                     declarations), and `parse_css_spec` returns exactly the dict of the dᵢ and one error per gap that
                     is not a correct separator
* `css_complete`     no errors ⇒ the text is in the grammar
-/
import CLModel.Proofs.C08CReject
namespace C07G
open Rx C08C

abbrev Text := List Nat

/-! ### class loops, soundly: wherever a `[C]{mn,}` loop hands over, at least `mn` characters of the class were read -/

theorem loop_cls_sound (s : Array Nat) (items : List ClsItem) (g : Bool) (caps) (k : K) :
    ∀ (fuel mn pos : Nat) (res : St), loop (m s (.cls false items)) g fuel mn none ⟨pos, caps⟩ k = some res →
      ∃ j, pos + mn ≤ j ∧ (∀ i, pos ≤ i → i < j → ∃ c, s[i]? = some c ∧ inC false items c = true) ∧
        k ⟨j, caps⟩ = some res := by
  intro fuel
  induction fuel with
  | zero => intro mn pos res h; simp [loop] at h
  | succ fuel ih =>
    intro mn pos res h
    rw [loop] at h
    simp only [show ((none : Option Nat) == some 0) = false from rfl, Bool.false_eq_true, if_false,
      Option.map_none] at h
    -- the "one more iteration" branch
    have hmore : ∀ r, m s (.cls false items) ⟨pos, caps⟩ (fun st' =>
          if st'.pos ≤ pos then none else loop (m s (.cls false items)) g fuel (mn - 1) none st' k) = some r →
        ∃ j, pos + mn ≤ j ∧ (∀ i, pos ≤ i → i < j → ∃ c, s[i]? = some c ∧ inC false items c = true) ∧
          k ⟨j, caps⟩ = some r := by
      intro r hr
      rw [m_cls_apply] at hr
      cases hc : s[pos]? with
      | none => simp [hc] at hr
      | some c =>
        simp only [hc] at hr
        by_cases hin : inC false items c = true
        · simp only [hin, if_true, show ¬ (pos + 1 ≤ pos) by omega, if_false] at hr
          obtain ⟨j, h1, h2, h3⟩ := ih (mn - 1) (pos + 1) r hr
          refine ⟨j, by omega, ?_, h3⟩
          intro i hi1 hi2
          by_cases hip : i = pos
          · subst hip; exact ⟨c, hc, hin⟩
          · exact h2 i (by omega) hi2
        · simp [hin] at hr
    by_cases hmn : mn > 0
    · simp only [hmn, if_true] at h
      exact hmore res h
    · simp only [hmn, if_false] at h
      have hmn0 : mn = 0 := by omega
      subst hmn0
      cases g with
      | true =>
        simp only [if_true] at h
        cases hm : m s (.cls false items) ⟨pos, caps⟩ (fun st' =>
            if st'.pos ≤ pos then none else loop (m s (.cls false items)) true fuel (0 - 1) none st' k) with
        | some r =>
          rw [hm] at h
          simp only [Option.orElse_some, Option.some.injEq] at h
          subst h
          exact hmore r hm
        | none =>
          rw [hm] at h
          simp only [Option.orElse_none] at h
          exact ⟨pos, by omega, by intro i h1 h2; omega, h⟩
      | false =>
        simp only [Bool.false_eq_true, if_false] at h
        cases hk : k ⟨pos, caps⟩ with
        | some r =>
          rw [hk] at h
          simp only [Option.orElse_some, Option.some.injEq] at h
          subst h
          exact ⟨pos, by omega, by intro i h1 h2; omega, hk⟩
        | none =>
          rw [hk] at h
          simp only [Option.orElse_none] at h
          exact hmore res h

/-- a span of positions whose characters satisfy `P`, as a list -/
theorem span_list (s : Array Nat) (P : Nat → Bool) : ∀ (n a : Nat), a ≤ s.size →
    (∀ i, a ≤ i → i < a + n → ∃ c, s[i]? = some c ∧ P c = true) →
    a + n ≤ s.size ∧ ∃ l : Text, l.length = n ∧ l.all P = true ∧ s.toList.drop a = l ++ s.toList.drop (a + n) := by
  intro n
  induction n with
  | zero => intro a ha _; exact ⟨ha, [], rfl, rfl, by simp⟩
  | succ n ih =>
    intro a ha h
    obtain ⟨c, hc, hp⟩ := h a (Nat.le_refl _) (by omega)
    have hlt := getElem?_some_lt hc
    obtain ⟨hb, l, hl1, hl2, hl3⟩ := ih (a + 1) (by omega) (fun i h1 h2 => h i (by omega) (by omega))
    refine ⟨by omega, c :: l, by simp [hl1], by simp [hp, hl2], ?_⟩
    have hd : s.toList.drop a = s[a] :: s.toList.drop (a + 1) := by
      rw [← Array.getElem_toList (h := by simpa using hlt)]
      exact (List.drop_eq_getElem_cons (by simpa using hlt))
    have hca : s[a] = c := by
      have : s[a]? = some s[a] := by simp [hlt]
      rw [this] at hc; simpa using hc
    rw [hd, hca, hl3]
    simp only [List.cons_append, List.cons.injEq, true_and]
    congr 2; omega

/-! ### literal languages, soundly -/

theorem firstSomeT_some {f : Text → Option St} : ∀ {l : List Text} {r : St}, firstSomeT f l = some r → ∃ t ∈ l, f t = some r
  | [], _, h => by simp [firstSomeT] at h
  | x :: xs, r, h => by
    simp only [firstSomeT] at h
    cases hx : f x with
    | some v =>
      rw [hx] at h
      simp only [Option.orElse_some, Option.some.injEq] at h
      subst h
      exact ⟨x, by simp, hx⟩
    | none =>
      rw [hx] at h
      simp only [Option.orElse_none] at h
      obtain ⟨t, ht, hft⟩ := firstSomeT_some h
      exact ⟨t, by simp [ht], hft⟩

theorem lang_sound (s : Array Nat) (r : Re) (l : List Text) (hl : langOf r = some l) (st : St) (k : K) (res : St)
    (h : m s r st k = some res) : ∃ t ∈ l, textAt s st.pos t = true ∧ k (after st t) = some res := by
  rw [m_lang s r l hl] at h
  obtain ⟨t, ht, hf⟩ := firstSomeT_some h
  by_cases hx : textAt s st.pos t = true
  · simp only [hx, if_true] at hf
    exact ⟨t, ht, hx, hf⟩
  · simp [hx] at hf

theorem drop_of_textAt (s : Array Nat) : ∀ (t : Text) (p : Nat), textAt s p t = true →
    s.toList.drop p = t ++ s.toList.drop (p + t.length)
  | [], p, _ => by simp
  | c :: t, p, h => by
    simp only [textAt, Bool.and_eq_true, beq_iff_eq] at h
    have hlt := getElem?_some_lt h.1
    have hd : s.toList.drop p = s[p] :: s.toList.drop (p + 1) := by
      rw [← Array.getElem_toList (h := by simpa using hlt)]
      exact (List.drop_eq_getElem_cons (by simpa using hlt))
    have hca : s[p] = c := by
      have : s[p]? = some s[p] := by simp [hlt]
      rw [this] at h; simpa using h.1
    rw [hd, hca, drop_of_textAt s t (p + 1) h.2]
    simp only [List.cons_append, List.length_cons, List.cons.injEq, true_and]
    congr 2; omega

theorem orElse_some_cases {α} {a : Option α} {f : Unit → Option α} {r : α} (h : a.orElse f = some r) :
    a = some r ∨ (a = none ∧ f () = some r) := by
  cases a with
  | some v => left; simpa using h
  | none => right; exact ⟨rfl, by simpa using h⟩

/-! ### a non-empty match of `_css_spec` is a grammatical declaration -/

theorem spec_match_inv (s : Array Nat) (q : Nat) (st : St) (hq : q < s.size)
    (h : matchAt s Gen.Pat.CSSCheckMixin__css_spec q = some st) :
    ∃ (d : Decl) (rest : Text), d.Ok ∧ s.toList.drop q = d.text ++ rest := by
  rw [spec_shape] at h
  simp only [matchAt, m_alt] at h
  have heos : m s .eos ⟨q, []⟩ some = none := by
    simp only [m]
    rw [if_neg]; simp; omega
  have hA : m s (.seq (.group 1 propRe) (.seq wsStar (.seq (.lit 58) (.seq wsStar (.seq (.group 2 numRe) (.group 3 unitRe))))))
      ⟨q, []⟩ some = some st := by
    rcases orElse_some_cases h with hA | ⟨_, hB⟩
    · exact hA
    · rw [heos] at hB; cases hB
  clear h heos
  simp only [m_seq, m_group] at hA
  -- property name
  obtain ⟨t, ht, htx, hA⟩ := lang_sound s propRe cssProps lang_prop _ _ _ hA
  simp only [after] at hA htx
  have hdrop0 := drop_of_textAt s t q htx
  -- white space, colon, white space
  simp only [wsStar, m_rep] at hA
  obtain ⟨j1, hj1, hspan1, hA⟩ := loop_cls_sound s wsCls true _ _ _ 0 _ _ hA
  rw [m_lit] at hA
  have h58 : s[j1]? = some 58 := by
    by_cases h58 : s[j1]? = some 58
    · exact h58
    · simp [h58] at hA
  simp only [h58, beq_self_eq_true, if_true] at hA
  obtain ⟨j2, hj2, hspan2, hA⟩ := loop_cls_sound s wsCls true _ _ _ 0 _ _ hA
  -- number
  simp only [numRe, m_alt, m_seq, m_rep] at hA
  -- positions are inside the text
  have hj1s : j1 < s.size := getElem?_some_lt h58
  have hqt : q + t.length ≤ s.size := by
    have : (s.toList.drop q).length = s.size - q := by simp
    rw [hdrop0] at this; simp at this; omega
  obtain ⟨hj1', ws1, hws1l, hws1, hdrop1⟩ := span_list s isWs (j1 - (q + t.length)) (q + t.length) hqt
    (by intro i h1 h2; obtain ⟨c, hc, hin⟩ := hspan1 i h1 (by omega); exact ⟨c, hc, by rw [← inC_ws]; exact hin⟩)
  have e1 : q + t.length + (j1 - (q + t.length)) = j1 := by omega
  rw [e1] at hdrop1
  obtain ⟨hj2s, ws2, hws2l, hws2, hdrop2⟩ := span_list s isWs (j2 - (j1 + 1)) (j1 + 1) (by omega)
    (by intro i h1 h2; obtain ⟨c, hc, hin⟩ := hspan2 i h1 (by omega); exact ⟨c, hc, by rw [← inC_ws]; exact hin⟩)
  have e2 : j1 + 1 + (j2 - (j1 + 1)) = j2 := by omega
  rw [e2] at hdrop2 hj2s
  have hdrop58 : s.toList.drop j1 = 58 :: s.toList.drop (j1 + 1) := by
    have hd : s.toList.drop j1 = s[j1] :: s.toList.drop (j1 + 1) := by
      rw [← Array.getElem_toList (h := by simpa using hj1s)]
      exact (List.drop_eq_getElem_cons (by simpa using hj1s))
    have : s[j1] = 58 := by
      have h' : s[j1]? = some s[j1] := by simp [hj1s]
      rw [h'] at h58; simpa using h58
    rw [hd, this]
  -- the number and what follows it
  have hnum : ∃ j3 num, IsNumber num ∧ s.toList.drop j2 = num ++ s.toList.drop j3 ∧ j3 ≤ s.size ∧
      m s unitRe ⟨j3, (2, j2, j3) :: (1, q, q + t.length) :: []⟩
        (fun st' => some { st' with caps := (3, j3, st'.pos) :: st'.caps }) = some st := by
    rcases orElse_some_cases hA with h1 | ⟨_, h2⟩
    · obtain ⟨j3, hj3, hsp, hu⟩ := loop_cls_sound s digCls true _ _ _ 1 _ _ h1
      obtain ⟨hj3s, ds, hdl, hds, hdd⟩ := span_list s isDig (j3 - j2) j2 hj2s
        (by intro i h1 h2; obtain ⟨c, hc, hin⟩ := hsp i h1 (by omega); exact ⟨c, hc, by rw [← inC_dig]; exact hin⟩)
      have e3 : j2 + (j3 - j2) = j3 := by omega
      rw [e3] at hdd hj3s
      refine ⟨j3, ds, IsNumber.int ds ?_ hds, hdd, hj3s, hu⟩
      intro hnil; rw [hnil] at hdl; simp at hdl; omega
    · obtain ⟨ja, hja, hspa, h2⟩ := loop_cls_sound s digCls true _ _ _ 0 _ _ h2
      rw [m_lit] at h2
      have h46 : s[ja]? = some 46 := by
        by_cases h46 : s[ja]? = some 46
        · exact h46
        · simp [h46] at h2
      simp only [h46, beq_self_eq_true, if_true] at h2
      obtain ⟨j3, hj3, hspb, hu⟩ := loop_cls_sound s digCls true _ _ _ 1 _ _ h2
      have hjas : ja < s.size := getElem?_some_lt h46
      obtain ⟨_, ds, hdl, hds, hdd⟩ := span_list s isDig (ja - j2) j2 hj2s
        (by intro i h1 h2; obtain ⟨c, hc, hin⟩ := hspa i h1 (by omega); exact ⟨c, hc, by rw [← inC_dig]; exact hin⟩)
      have e3 : j2 + (ja - j2) = ja := by omega
      rw [e3] at hdd
      obtain ⟨hj3s, fs, hfl, hfs, hfd⟩ := span_list s isDig (j3 - (ja + 1)) (ja + 1) (by omega)
        (by intro i h1 h2; obtain ⟨c, hc, hin⟩ := hspb i h1 (by omega); exact ⟨c, hc, by rw [← inC_dig]; exact hin⟩)
      have e4 : ja + 1 + (j3 - (ja + 1)) = j3 := by omega
      rw [e4] at hfd hj3s
      have hdrop46 : s.toList.drop ja = 46 :: s.toList.drop (ja + 1) := by
        have hd : s.toList.drop ja = s[ja] :: s.toList.drop (ja + 1) := by
          rw [← Array.getElem_toList (h := by simpa using hjas)]
          exact (List.drop_eq_getElem_cons (by simpa using hjas))
        have : s[ja] = 46 := by
          have h' : s[ja]? = some s[ja] := by simp [hjas]
          rw [h'] at h46; simpa using h46
        rw [hd, this]
      refine ⟨j3, ds ++ 46 :: fs, IsNumber.frac ds fs hds ?_ hfs, ?_, hj3s, hu⟩
      · intro hnil; rw [hnil] at hfl; simp at hfl; omega
      · rw [hdd, hdrop46, hfd]; simp
  obtain ⟨j3, num, hnumOk, hdrop3, hj3s, hu⟩ := hnum
  obtain ⟨u, hu1, hu2, _⟩ := lang_sound s unitRe cssUnits lang_unit _ _ _ hu
  have hdrop4 := drop_of_textAt s u j3 hu2
  refine ⟨⟨t, ws1, ws2, num, u⟩, s.toList.drop (j3 + u.length), ⟨ht, hws1, hws2, hnumOk, hu1⟩, ?_⟩
  rw [hdrop0, hdrop1, hdrop58, hdrop2, hdrop3, hdrop4]
  simp [Decl.text]

/-! ### a match of `_css_sep` is `ws* ;? ws*` up to the end -/

theorem drop_at_end (s : Array Nat) (j : Nat)
    (h : (j == s.size || (j + 1 == s.size && s[j]? == some 10)) = true) :
    (s.toList.drop j).all isWs = true := by
  simp only [Bool.or_eq_true, Bool.and_eq_true, beq_iff_eq] at h
  rcases h with h | ⟨h1, h2⟩
  · have : s.toList.drop j = [] := by rw [h]; simp
    rw [this]; rfl
  · have hlt : j < s.size := by omega
    have hd : s.toList.drop j = s[j] :: s.toList.drop (j + 1) := by
      rw [← Array.getElem_toList (h := by simpa using hlt)]
      exact (List.drop_eq_getElem_cons (by simpa using hlt))
    have : s[j] = 10 := by
      have h' : s[j]? = some s[j] := by simp [hlt]
      rw [h'] at h2; simpa using h2
    have hnil : s.toList.drop (j + 1) = [] := by rw [h1]; simp
    rw [hd, this, hnil]
    rfl

theorem sep_match_edge (s : Array Nat) (e : Nat) (sp : St) (he : e ≤ s.size)
    (h : matchAt s Gen.Pat.CSSCheckMixin__css_sep e = some sp) : IsEdge (s.toList.drop e) := by
  rw [sep_shape] at h
  simp only [matchAt, m_seq, wsStar, m_rep] at h
  obtain ⟨j1, hj1, hsp1, h⟩ := loop_cls_sound s wsCls true _ _ _ 0 _ _ h
  obtain ⟨hj1s, wsa, hal, ha, hda⟩ := span_list s isWs (j1 - e) e he
    (by intro i h1 h2; obtain ⟨c, hc, hin⟩ := hsp1 i h1 (by omega); exact ⟨c, hc, by rw [← inC_ws]; exact hin⟩)
  have e1 : e + (j1 - e) = j1 := by omega
  rw [e1] at hda hj1s
  rw [m_alt] at h
  rcases orElse_some_cases h with h | ⟨_, h⟩
  · -- with the semicolon
    rw [m_group, m_lit] at h
    have h59 : s[j1]? = some 59 := by
      by_cases h59 : s[j1]? = some 59
      · exact h59
      · simp [h59] at h
    simp only [h59, beq_self_eq_true, if_true, m_rep] at h
    obtain ⟨j2, hj2, hsp2, h⟩ := loop_cls_sound s wsCls true _ _ _ 0 _ _ h
    have hlt : j1 < s.size := getElem?_some_lt h59
    obtain ⟨hj2s, wsb, hbl, hb, hdb⟩ := span_list s isWs (j2 - (j1 + 1)) (j1 + 1) (by omega)
      (by intro i h1 h2; obtain ⟨c, hc, hin⟩ := hsp2 i h1 (by omega); exact ⟨c, hc, by rw [← inC_ws]; exact hin⟩)
    have e2 : j1 + 1 + (j2 - (j1 + 1)) = j2 := by omega
    rw [e2] at hdb
    rw [m_eol'] at h
    have hend : (j2 == s.size || (j2 + 1 == s.size && s[j2]? == some 10)) = true := by
      by_cases hc : (j2 == s.size || (j2 + 1 == s.size && s[j2]? == some 10)) = true
      · exact hc
      · simp only [hc] at h; cases h
    have htail := drop_at_end s j2 hend
    have hd59 : s.toList.drop j1 = 59 :: s.toList.drop (j1 + 1) := by
      have hd : s.toList.drop j1 = s[j1] :: s.toList.drop (j1 + 1) := by
        rw [← Array.getElem_toList (h := by simpa using hlt)]
        exact (List.drop_eq_getElem_cons (by simpa using hlt))
      have : s[j1] = 59 := by
        have h' : s[j1]? = some s[j1] := by simp [hlt]
        rw [h'] at h59; simpa using h59
      rw [hd, this]
    right
    refine ⟨wsa, wsb ++ s.toList.drop j2, ?_, ha, ?_⟩
    · rw [hda, hd59, hdb]
    · simp [hb, htail]
  · -- without
    simp only [m_eps, m_rep] at h
    obtain ⟨j2, hj2, hsp2, h⟩ := loop_cls_sound s wsCls true _ _ _ 0 _ _ h
    obtain ⟨hj2s, wsb, hbl, hb, hdb⟩ := span_list s isWs (j2 - j1) j1 hj1s
      (by intro i h1 h2; obtain ⟨c, hc, hin⟩ := hsp2 i h1 (by omega); exact ⟨c, hc, by rw [← inC_ws]; exact hin⟩)
    have e2 : j1 + (j2 - j1) = j2 := by omega
    rw [e2] at hdb
    rw [m_eol'] at h
    have hend : (j2 == s.size || (j2 + 1 == s.size && s[j2]? == some 10)) = true := by
      by_cases hc : (j2 == s.size || (j2 + 1 == s.size && s[j2]? == some 10)) = true
      · exact hc
      · simp only [hc] at h; cases h
    have htail := drop_at_end s j2 hend
    left
    rw [hda, hdb]
    simp [ha, hb, htail]

/-! ### every text as a chain of leftmost declarations and gaps -/

/-- a grammatical declaration stands at the beginning of `l` -/
def DeclHere (l : Text) : Prop := ∃ (d : Decl) (rest : Text), d.Ok ∧ l = d.text ++ rest

/-- no declaration starts at one of the first `n` positions of `l` -/
def NoDeclIn (n : Nat) (l : Text) : Prop := ∀ i, i < n → ¬ DeclHere (l.drop i)

open Classical in
/-- the verdict of `parse_css_spec` on what stands before a declaration (`first`: before the first one) -/
noncomputable def gapCode (first : Bool) (g : Text) : Option Dtd.CssCode :=
  if first then (if IsEdge g then none else some .badContent)
  else if IsSep g then none else if g.all isWs = true then some .missingSemicolon else some .badContent

open Classical in
/-- … and on what stands after the last one -/
noncomputable def trailCode (g : Text) : Option Dtd.CssCode := if IsEdge g then none else some .badContent

/-- `SpecT first off ds t errs`: `t` (standing at offset `off`) is gap₁ d₁ gap₂ d₂ … dₙ trail where every dᵢ is the
    LEFTMOST declaration after dᵢ₋₁ (no declaration starts inside a gap or inside the trail); `errs` = one error per
    gap / trail that is not a correct separator / edge, at the end of the preceding declaration -/
inductive SpecT : Bool → Nat → List Decl → Text → List Dtd.CssErr → Prop
  | last (f : Bool) (off : Nat) (gap : Text) (d : Decl) (trail : Text) :
      d.Ok → NoDeclIn gap.length (gap ++ (d.text ++ trail)) → NoDeclIn trail.length trail →
      SpecT f off [d] (gap ++ (d.text ++ trail))
        (errAt off (gapCode f gap) ++ errAt (off + gap.length + d.text.length) (trailCode trail))
  | cons (f : Bool) (off : Nat) (gap : Text) (d : Decl) (ds : List Decl) (t : Text) (errs : List Dtd.CssErr) :
      d.Ok → NoDeclIn gap.length (gap ++ (d.text ++ t)) →
      SpecT false (off + gap.length + d.text.length) ds t errs →
      SpecT f off (d :: ds) (gap ++ (d.text ++ t)) (errAt off (gapCode f gap) ++ errs)

/-! ### from the text level to the positions of the array -/

theorem noMatch_of_noDecl (s : Array Nat) (e : Nat) (g rest : Text) (h : s.toList.drop e = g ++ rest)
    (hnd : NoDeclIn g.length (g ++ rest)) :
    ∀ q', e ≤ q' → q' < e + g.length → matchAt s Gen.Pat.CSSCheckMixin__css_spec q' = none := by
  intro q' h1 h2
  have hsz : e + g.length ≤ s.size := by
    have : (s.toList.drop e).length = s.size - e := by simp
    rw [h] at this; simp at this; omega
  cases hm : matchAt s Gen.Pat.CSSCheckMixin__css_spec q' with
  | none => rfl
  | some st =>
    exfalso
    obtain ⟨d, r, hd, hdr⟩ := spec_match_inv s q' st (by omega) hm
    apply hnd (q' - e) (by omega)
    refine ⟨d, r, hd, ?_⟩
    rw [← h, List.drop_drop, ← hdr]
    congr 1; omega

theorem extract_drop' (s : Array Nat) (q e : Nat) (g rest : Text) (h : s.toList.drop e = g ++ rest)
    (hq : q = e + g.length) : (s.extract 0 q).toList.drop e = g :=
  extract_drop s q e g rest h hq

theorem not_isEdge_ne_nil {g : Text} (h : ¬ IsEdge g) : g ≠ [] := by
  intro hn; subst hn; exact h (Or.inl rfl)

theorem gapRes_of_code (s : Array Nat) (f : Bool) (e : Nat) (g rest : Text) (h : s.toList.drop e = g ++ rest)
    (hf : (f = true ∧ e = 0) ∨ (f = false ∧ 0 < e)) (hle : e ≤ s.size) :
    GapRes s e (e + g.length) (gapCode f g) := by
  have hx := extract_drop s (e + g.length) e g rest h rfl
  have hsz : e ≤ (s.extract 0 (e + g.length)).size := by
    have : (s.toList.drop e).length = s.size - e := by simp
    rw [h] at this; simp at this
    simp; omega
  have hbad : ¬ IsEdge g → GapRes s e (e + g.length) (some .badContent) := by
    intro hne
    have hpos : 0 < g.length := List.length_pos_iff.mpr (not_isEdge_ne_nil hne)
    refine ⟨by omega, ?_⟩
    cases hm : matchAt (s.extract 0 (e + g.length)) Gen.Pat.CSSCheckMixin__css_sep e with
    | none => rfl
    | some sp =>
      exfalso
      have := sep_match_edge _ e sp hsz hm
      rw [hx] at this
      exact hne this
  unfold gapCode
  cases f with
  | true =>
    simp only [if_true]
    by_cases hedge : IsEdge g
    · rw [if_pos hedge]; exact gapRes_of_gapIs s true e g rest none h (.lead g hedge) hf hle
    · rw [if_neg hedge]; exact hbad hedge
  | false =>
    simp only [Bool.false_eq_true, if_false]
    by_cases hsep : IsSep g
    · rw [if_pos hsep]; exact gapRes_of_gapIs s false e g rest none h (.sep g hsep) hf hle
    · rw [if_neg hsep]
      by_cases hws : g.all isWs = true
      · rw [if_pos hws]; exact gapRes_of_gapIs s false e g rest _ h (.missing g hws) hf hle
      · rw [if_neg hws]
        exact hbad (by rintro (h1 | h1); exact hws h1; exact hsep h1)

theorem trailRes_of_code (s : Array Nat) (e : Nat) (trail : Text) (h : s.toList.drop e = trail) (hle : e ≤ s.size) :
    TrailRes s e (trailCode trail) ∧ (trailCode trail = none ∨ trailCode trail = some .badContent) := by
  unfold trailCode
  by_cases hedge : IsEdge trail
  · rw [if_pos hedge]
    exact ⟨trailRes_of_trailIs s e trail none h hle (.edge trail hedge), Or.inl rfl⟩
  · rw [if_neg hedge]
    refine ⟨?_, Or.inr rfl⟩
    have hsz : e + trail.length = s.size := by
      have : (s.toList.drop e).length = s.size - e := by simp
      rw [h] at this; omega
    have hpos : 0 < trail.length := List.length_pos_iff.mpr (not_isEdge_ne_nil hedge)
    have hx : (s.extract 0 s.size).toList.drop e = trail :=
      extract_drop s s.size e trail [] (by simpa using h) (by omega)
    refine ⟨by omega, ?_⟩
    cases hm : matchAt (s.extract 0 s.size) Gen.Pat.CSSCheckMixin__css_sep e with
    | none => rfl
    | some sp =>
      exfalso
      have := sep_match_edge _ e sp (by simp; omega) hm
      rw [hx] at this
      exact hedge this

/-! ### the loop on a chain -/

theorem loop_tail_T (s : Array Nat) (fuel e : Nat) (stt : Dtd.CssState) (trail : Text)
    (he : stt.end_ = e) (hpos : 0 < e) (h : s.toList.drop e = trail) (hle : e ≤ s.size)
    (hnd : NoDeclIn trail.length trail) (herr : stt.errors ≠ some []) :
    Dtd.cssLoop s (finditerAux s Gen.Pat.CSSCheckMixin__css_spec (fuel + 1) e false) stt
      = some ⟨stt.refMap, optOf (errList stt.errors ++ errAt e (trailCode trail)), s.size⟩ := by
  have hsz : e + trail.length = s.size := by
    have : (s.toList.drop e).length = s.size - e := by simp
    rw [h] at this; omega
  obtain ⟨htr, hc⟩ := trailRes_of_code s e trail h hle
  rw [finditerAux_skip s _ fuel e s.size ⟨s.size, []⟩ hle (Nat.le_refl _)
    (by
      intro q' h1 h2
      exact noMatch_of_noDecl s e trail [] (by simpa using h) (by simpa using hnd) q' h1 (by omega))
    (spec_end s)]
  simp only [beq_self_eq_true, finditerAux_end s _ fuel (spec_end_ne s), Dtd.cssLoop]
  rw [cssStep_final_gen s stt (by omega) _ hc (by rw [he]; exact htr) herr, he]

theorem loop_specT (s : Array Nat) : ∀ (f : Bool) (off : Nat) (ds : List Decl) (t : Text) (errs : List Dtd.CssErr),
    SpecT f off ds t errs → ∀ (fuel : Nat) (stt : Dtd.CssState), stt.end_ = off →
      ((f = true ∧ off = 0) ∨ (f = false ∧ 0 < off)) → s.toList.drop off = t → off ≤ s.size →
      stt.errors ≠ some [] → s.size + 2 ≤ fuel + off →
      Dtd.cssLoop s (finditerAux s Gen.Pat.CSSCheckMixin__css_spec fuel off false) stt
        = some ⟨some (foldDecls (mapOr stt.refMap) ds), optOf (errList stt.errors ++ errs), s.size⟩ := by
  intro f off ds t errs hsp
  induction hsp with
  | last f off gap d trail hd hng hnt =>
    intro fuel stt he hf h hle herr hfuel
    have hq : s.toList.drop (off + gap.length) = d.text ++ trail := drop_append_of_drop h
    have hlen : 0 < d.text.length := decl_text_pos hd
    have hqs : off + gap.length + d.text.length ≤ s.size := by
      have : (s.toList.drop (off + gap.length)).length = s.size - (off + gap.length) := by simp
      rw [hq] at this; simp at this; omega
    obtain ⟨fu, rfl⟩ : ∃ fu, fuel = fu + 1 + 1 := ⟨fuel - 2, by omega⟩
    rw [finditerAux_skip s _ (fu + 1) off (off + gap.length) (declSt (off + gap.length) d) (by omega) (by omega)
      (noMatch_of_noDecl s off gap _ h hng) (decl_match s _ d hd trail hq)]
    have hb : ((declSt (off + gap.length) d).pos == off + gap.length) = false := by
      rw [beq_eq_false_iff_ne]; simp only [declSt]; omega
    rw [hb]
    simp only [Dtd.cssLoop]
    rw [cssStep_decl_gen s stt _ d trail hq hd _ (by rw [he]; exact gapRes_of_code s f off gap _ h hf hle) herr]
    simp only [declSt]
    rw [loop_tail_T s fu (off + gap.length + d.text.length) _ trail rfl (by omega) (drop_append_of_drop hq) hqs hnt
      (optOf_ne _)]
    simp [foldDecls, mapOr, errList_optOf, he, List.append_assoc]
  | cons f off gap d ds t errs hd hng _ ih =>
    intro fuel stt he hf h hle herr hfuel
    have hq : s.toList.drop (off + gap.length) = d.text ++ t := drop_append_of_drop h
    have hlen : 0 < d.text.length := decl_text_pos hd
    have hq2 : s.toList.drop (off + gap.length + d.text.length) = t := drop_append_of_drop hq
    have hqs : off + gap.length + d.text.length ≤ s.size := by
      have : (s.toList.drop (off + gap.length)).length = s.size - (off + gap.length) := by simp
      rw [hq] at this; simp at this; omega
    obtain ⟨fu, rfl⟩ : ∃ fu, fuel = fu + 1 := ⟨fuel - 1, by omega⟩
    rw [finditerAux_skip s _ fu off (off + gap.length) (declSt (off + gap.length) d) (by omega) (by omega)
      (noMatch_of_noDecl s off gap _ h hng) (decl_match s _ d hd t hq)]
    have hb : ((declSt (off + gap.length) d).pos == off + gap.length) = false := by
      rw [beq_eq_false_iff_ne]; simp only [declSt]; omega
    rw [hb]
    simp only [Dtd.cssLoop]
    rw [cssStep_decl_gen s stt _ d t hq hd _ (by rw [he]; exact gapRes_of_code s f off gap _ h hf hle) herr]
    simp only [declSt]
    rw [ih fu _ rfl (Or.inr ⟨rfl, by omega⟩) hq2 hqs (optOf_ne _) (by omega)]
    simp [foldDecls, mapOr, errList_optOf, he, List.append_assoc]

/-- `parse_css_spec` on a chain: exactly the dict of its declarations and exactly the errors of its gaps -/
theorem parse_of_specT (ds : List Decl) (v : Text) (errs : List Dtd.CssErr) (h : SpecT true 0 ds v errs) :
    Dtd.parseCssSpec v = (some (declMap ds), optOf errs) := by
  unfold Dtd.parseCssSpec finditer
  simp only []
  have := loop_specT v.toArray true 0 ds v errs h (2 * v.toArray.size + 3) ⟨none, none, 0⟩ rfl (Or.inl ⟨rfl, rfl⟩)
    (by simp) (by omega) (by simp) (by omega)
  rw [this]
  rfl

/-! ### no declaration anywhere -/

theorem parse_none (v : Text) (h : NoDeclIn v.length v) : Dtd.parseCssSpec v = (none, none) := by
  unfold Dtd.parseCssSpec finditer
  simp only []
  have hsz : v.toArray.size = v.length := by simp
  have e : 2 * v.toArray.size + 3 = (2 * v.toArray.size + 2) + 1 := by omega
  rw [e, finditerAux_skip v.toArray _ _ 0 v.toArray.size ⟨v.toArray.size, []⟩ (by omega) (Nat.le_refl _)
    (by
      intro q' h1 h2
      exact noMatch_of_noDecl v.toArray 0 v [] (by simp) (by simpa using h) q' h1 (by rw [hsz] at h2; omega))
    (spec_end _)]
  simp only [beq_self_eq_true, finditerAux_end _ _ _ (spec_end_ne _), Dtd.cssLoop, Dtd.cssStep, Bool.and_self, if_true]

/-! ### totality: every text with a declaration somewhere is a chain -/

theorem exists_least (P : Nat → Prop) : ∀ n, P n → ∃ i, P i ∧ ∀ j, j < i → ¬ P j := by
  intro n
  induction n using Nat.strongRecOn with
  | ind n ih =>
    intro hn
    by_cases h : ∃ j, j < n ∧ P j
    · obtain ⟨j, hj, hp⟩ := h
      exact ih j hj hp
    · exact ⟨n, hn, fun j hj hp => h ⟨j, hj, hp⟩⟩

theorem specT_total : ∀ (n : Nat) (t : Text) (f : Bool) (off : Nat), t.length ≤ n →
    (∃ i, i < t.length ∧ DeclHere (t.drop i)) → ∃ ds errs, SpecT f off ds t errs := by
  intro n
  induction n with
  | zero =>
    intro t f off hn ⟨i, hi, _⟩
    omega
  | succ n ih =>
    intro t f off hn ⟨i0, hi0, hd0⟩
    obtain ⟨i, ⟨hi, d, rest, hd, hdr⟩, hmin⟩ :=
      exists_least (fun i => i < t.length ∧ DeclHere (t.drop i)) i0 ⟨hi0, hd0⟩
    have ht : t = t.take i ++ (d.text ++ rest) := by rw [← hdr]; simp
    have hgl : (t.take i).length = i := by simp; omega
    have hng : NoDeclIn (t.take i).length (t.take i ++ (d.text ++ rest)) := by
      rw [← ht, hgl]
      intro j hj hdj
      exact hmin j hj ⟨by omega, hdj⟩
    have hlen : 0 < d.text.length := decl_text_pos hd
    have hrl : rest.length < t.length := by
      have := congrArg List.length ht
      simp only [List.length_append] at this
      omega
    by_cases hmore : ∃ j, j < rest.length ∧ DeclHere (rest.drop j)
    · obtain ⟨ds, errs, hs⟩ := ih rest false (off + (t.take i).length + d.text.length) (by omega) hmore
      have key := SpecT.cons f off (t.take i) d ds rest errs hd hng hs
      rw [← ht] at key
      exact ⟨_, _, key⟩
    · have key := SpecT.last f off (t.take i) d rest hd hng (fun j hj hdj => hmore ⟨j, hj, hdj⟩)
      rw [← ht] at key
      exact ⟨_, _, key⟩

/-! ### a chain without errors is a text of the grammar -/

theorem errAt_nil {pos : Nat} {c : Option Dtd.CssCode} (h : errAt pos c = []) : c = none := by
  cases c with
  | none => rfl
  | some x => simp [errAt] at h

theorem gapCode_none {f : Bool} {g : Text} (h : gapCode f g = none) : (f = true → IsEdge g) ∧ (f = false → IsSep g) := by
  unfold gapCode at h
  cases f with
  | true =>
    simp only [if_true] at h
    refine ⟨fun _ => ?_, fun hf => by cases hf⟩
    by_cases he : IsEdge g
    · exact he
    · rw [if_neg he] at h; cases h
  | false =>
    simp only [Bool.false_eq_true, if_false] at h
    refine ⟨fun hf => (by cases hf), fun _ => ?_⟩
    by_cases hs : IsSep g
    · exact hs
    · rw [if_neg hs] at h
      split at h <;> cases h

theorem trailCode_none {g : Text} (h : trailCode g = none) : IsEdge g := by
  unfold trailCode at h
  by_cases he : IsEdge g
  · exact he
  · rw [if_neg he] at h; cases h

theorem specT_clean : ∀ {f : Bool} {off : Nat} {ds : List Decl} {t : Text} {errs : List Dtd.CssErr},
    SpecT f off ds t errs → errs = [] →
    ∃ gap body trail, t = gap ++ (body ++ trail) ∧ gapCode f gap = none ∧ DeclsText ds body ∧ IsEdge trail := by
  intro f off ds t errs h
  induction h with
  | last f off gap d trail hd _ _ =>
    intro he
    obtain ⟨h1, h2⟩ := List.append_eq_nil_iff.mp he
    exact ⟨gap, d.text, trail, rfl, errAt_nil h1, DeclsText.one d hd, trailCode_none (errAt_nil h2)⟩
  | cons f off gap d ds t errs hd _ _ ih =>
    intro he
    obtain ⟨h1, h2⟩ := List.append_eq_nil_iff.mp he
    obtain ⟨gap', body', trail', rfl, hg', hb', ht'⟩ := ih h2
    refine ⟨gap, d.text ++ (gap' ++ body'), trail', by simp, errAt_nil h1, ?_, ht'⟩
    exact DeclsText.cons d gap' ds body' hd ((gapCode_none hg').2 rfl) hb'

theorem optOf_none {l : List Dtd.CssErr} (h : optOf l = none) : l = [] := by
  cases l with
  | nil => rfl
  | cons x xs => simp [optOf] at h

/-! ### the theorems -/

/-- **totality**: what `parse_css_spec` returns for EVERY text -/
theorem parse_total (v : Text) :
    (NoDeclIn v.length v ∧ Dtd.parseCssSpec v = (none, none)) ∨
    ∃ ds errs, SpecT true 0 ds v errs ∧ Dtd.parseCssSpec v = (some (declMap ds), optOf errs) := by
  by_cases h : ∃ i, i < v.length ∧ DeclHere (v.drop i)
  · right
    obtain ⟨ds, errs, hs⟩ := specT_total v.length v true 0 (Nat.le_refl _) h
    exact ⟨ds, errs, hs, parse_of_specT ds v errs hs⟩
  · left
    have hn : NoDeclIn v.length v := fun i hi hd => h ⟨i, hi, hd⟩
    exact ⟨hn, parse_none v hn⟩

/-- **completeness**: a text that `parse_css_spec` turns into a map without errors is a text of the grammar, and the
    map is the dict of its declarations -/
theorem css_complete (v : Text) (mp : List (Text × Text)) (h : Dtd.parseCssSpec v = (some mp, none)) :
    ∃ ds, CssSpec ds v ∧ mp = declMap ds := by
  rcases parse_total v with ⟨_, hn⟩ | ⟨ds, errs, hs, hp⟩
  · rw [hn] at h; cases h
  · rw [hp] at h
    simp only [Prod.mk.injEq, Option.some.injEq] at h
    obtain ⟨hm, he⟩ := h
    obtain ⟨gap, body, trail, rfl, hg, hb, ht⟩ := specT_clean hs (optOf_none he)
    exact ⟨ds, CssSpec.mk gap body trail ds ((gapCode_none hg).1 rfl) hb ht, hm.symm⟩

/-- the language of `parse_css_spec`: map and no errors ⟺ in the grammar -/
theorem css_language (v : Text) : (∃ mp, Dtd.parseCssSpec v = (some mp, none)) ↔ ∃ ds, CssSpec ds v := by
  constructor
  · rintro ⟨mp, h⟩
    obtain ⟨ds, hc, _⟩ := css_complete v mp h
    exact ⟨ds, hc⟩
  · rintro ⟨ds, hc⟩
    exact ⟨declMap ds, css_grammar_accepts_dtd ds v hc⟩

/-! ### the alphabet of the grammar: only ` `, TAB, CR, LF are white space, only `0-9` are digits -/

/-- the characters that can occur in a text of the grammar -/
def cssChar (c : Nat) : Bool :=
  isWs c || c == 59 || c == 58 || isDig c || c == 46 || cssProps.any (·.contains c) || cssUnits.any (·.contains c)

theorem isEdge_chars {g : Text} (h : IsEdge g) : ∀ c ∈ g, cssChar c = true := by
  intro c hc
  rcases h with h | ⟨a, b, rfl, ha, hb⟩
  · have := List.all_eq_true.mp h c hc
    simp [cssChar, this]
  · simp only [List.mem_append, List.mem_cons] at hc
    rcases hc with hc | rfl | hc
    · have := List.all_eq_true.mp ha c hc; simp [cssChar, this]
    · simp [cssChar]
    · have := List.all_eq_true.mp hb c hc; simp [cssChar, this]

theorem isNumber_chars {n : Text} (h : IsNumber n) : ∀ c ∈ n, cssChar c = true := by
  intro c hc
  cases h with
  | int ds _ hd => have := List.all_eq_true.mp hd c hc; simp [cssChar, this]
  | frac ds fs hd _ hf =>
    simp only [List.mem_append, List.mem_cons] at hc
    rcases hc with hc | rfl | hc
    · have := List.all_eq_true.mp hd c hc; simp [cssChar, this]
    · simp [cssChar]
    · have := List.all_eq_true.mp hf c hc; simp [cssChar, this]

theorem decl_chars {d : Decl} (hd : d.Ok) : ∀ c ∈ d.text, cssChar c = true := by
  intro c hc
  simp only [Decl.text, List.mem_append, List.mem_cons] at hc
  rcases hc with hc | hc | rfl | hc | hc | hc
  · have : cssProps.any (·.contains c) = true := List.any_eq_true.mpr ⟨d.prop, hd.prop, by simpa using hc⟩
    unfold cssChar; rw [this]; simp
  · have := List.all_eq_true.mp hd.ws1 c hc; simp [cssChar, this]
  · simp [cssChar]
  · have := List.all_eq_true.mp hd.ws2 c hc; simp [cssChar, this]
  · exact isNumber_chars hd.num c hc
  · have : cssUnits.any (·.contains c) = true := List.any_eq_true.mpr ⟨d.unit, hd.unit, by simpa using hc⟩
    unfold cssChar; rw [this]; simp

theorem declsText_chars {ds : List Decl} {t : Text} (h : DeclsText ds t) : ∀ c ∈ t, cssChar c = true := by
  induction h with
  | one d hd => exact decl_chars hd
  | cons d sep ds t hd hsep _ ih =>
    intro c hc
    simp only [List.mem_append] at hc
    rcases hc with hc | hc | hc
    · exact decl_chars hd c hc
    · exact isEdge_chars (Or.inr hsep) c hc
    · exact ih c hc

theorem cssSpec_chars {ds : List Decl} {v : Text} (h : CssSpec ds v) : ∀ c ∈ v, cssChar c = true := by
  cases h with
  | mk lead t trail ds hl ht htr =>
    intro c hc
    simp only [List.mem_append] at hc
    rcases hc with hc | hc | hc
    · exact isEdge_chars hl c hc
    · exact declsText_chars ht c hc
    · exact isEdge_chars htr c hc

/-- Unicode white space and Unicode digits are outside the alphabet -/
theorem foreign_chars : cssChar 160 = false ∧ cssChar 0x3000 = false ∧ cssChar 0x2003 = false ∧ cssChar 0x2028 = false ∧
    cssChar 0x85 = false ∧ cssChar 11 = false ∧ cssChar 12 = false ∧ cssChar 0x1f = false ∧ cssChar 0x663 = false ∧
    cssChar 0xFF13 = false := by decide

/-- errors are never the empty list -/
theorem parse_errors_ne_nil (v : Text) : (Dtd.parseCssSpec v).2 ≠ some [] := by
  rcases parse_total v with ⟨_, hn⟩ | ⟨ds, errs, _, hp⟩
  · rw [hn]; simp
  · rw [hp]; exact optOf_ne errs

end C07G

/- C04, properties: a garbage line between printed records is ONE junk entry that spans exactly the line and its
   newline (so that cutting its span out restores the printed records). -/
import CLModel.Proofs.C04Reparse
namespace C04R
open P Rx Gen.Pat

/-- a repeat of a one-character step fails if the continuation fails at every position up to a position `B`
    at which the step cannot be taken -/
theorem loop_charStep_fail (s : Array Nat) (P : Nat → Bool) (caps) (k : K) (B : Nat)
    (hB : ∀ c, s[B]? = some c → P c = false) :
    ∀ fuel g mn mx pos, pos ≤ B → (∀ j, pos ≤ j → j ≤ B → k ⟨j, caps⟩ = none) →
      loop (charStep s P) g fuel mn mx ⟨pos, caps⟩ k = none := by
  intro fuel
  induction fuel with
  | zero => intro g mn mx pos _ _; rfl
  | succ f ih =>
    intro g mn mx pos hle hk
    have hk0 : k ⟨pos, caps⟩ = none := hk pos (Nat.le_refl _) hle
    rw [loop]
    simp only [charStep]
    have hmore : (match s[pos]? with
        | some c => if P c = true then
            (if pos + 1 ≤ pos then none else loop (charStep s P) g f (mn - 1) (mx.map (· - 1)) ⟨pos + 1, caps⟩ k)
          else none
        | none => none) = none := by
      cases hc : s[pos]? with
      | none => rfl
      | some c =>
        simp only []
        by_cases hP : P c = true
        · have hne : pos ≠ B := by
            intro e; subst e
            have := hB c hc
            rw [hP] at this; cases this
          simp only [hP, if_true, show ¬ (pos + 1 ≤ pos) by omega, if_false]
          exact ih g (mn - 1) _ (pos + 1) (by omega) (fun j h1 h2 => hk j (by omega) h2)
        · simp [hP]
    simp only [hk0]
    cases g <;> simp <;> (intros; exact hmore)

/-- the key regex does not match at `p` when the line of `p` (which ends at `B`) has no `=`/`:` after `p` -/
theorem key_nomatch (s : Array Nat) (p B : Nat) (hp : p ≤ B)
    (hB : s[B]? = some 10 ∨ s[B]? = none)
    (hline : ∀ j, p < j → j < B → ∃ c, s[j]? = some c ∧ c ≠ 61 ∧ c ≠ 58) :
    matchAt s PropertiesParser_reKey p = none := by
  simp only [matchAt, PropertiesParser_reKey, m_seq, m_group, m_rep]
  rw [m_cls_apply]
  cases hc : s[p]? with
  | none => rfl
  | some c =>
    simp only []
    by_cases hin : inC true [ClsItem.ch 35, ClsItem.ch 33, ClsItem.ch 32, ClsItem.ch 9, ClsItem.ch 13, ClsItem.ch 10] c = true
    · have hne : p ≠ B := by
        intro e; subst e
        rcases hB with h | h
        · rw [h] at hc; cases hc; revert hin; decide
        · rw [h] at hc; cases hc
      simp only [hin, if_true]
      rw [m_cls_charStep]
      apply loop_charStep_fail s _ [] _ B
      · intro c' hc'
        rcases hB with h | h
        · rw [h] at hc'; cases hc'; decide
        · rw [h] at hc'; cases hc'
      · show p + 1 ≤ B
        omega
      · intro j h1 h2
        simp only [m_cls_charStep]
        apply loop_charStep_fail s _ _ _ B
        · intro c' hc'
          rcases hB with h | h
          · rw [h] at hc'; cases hc'; decide
          · rw [h] at hc'; cases hc'
        · exact h2
        · intro i h3 h4
          simp only [charStep]
          by_cases hi : i = B
          · subst hi
            rcases hB with h | h
            · simp only [h]; rfl
            · simp only [h]
          · obtain ⟨ci, hci, n1, n2⟩ := hline i (by omega) (by omega)
            simp only [hci]
            have : inC false [ClsItem.ch 58, ClsItem.ch 61] ci = false := by simp [inC, ClsItem.has, n1, n2]
            simp [this]
    · simp [hin]

/-- the comment regex needs `#` or `!` -/
theorem comment_nomatch (s : Array Nat) (off : Nat) (hle : off ≤ s.size)
    (h : ∀ c, s[off]? = some c → c ≠ 35 ∧ c ≠ 33) :
    matchAt s PropertiesParser_reComment off = none := by
  simp only [matchAt, PropertiesParser_reComment, m_seq, m_rep]
  obtain ⟨f, hf⟩ : ∃ f, s.size + 2 - off = f + 1 := ⟨s.size + 1 - off, by omega⟩
  simp only [hf]
  have hcls : ∀ k', m s (Re.cls false [ClsItem.ch 35, ClsItem.ch 33]) ⟨off, []⟩ k' = none := by
    intro k'
    rw [m_cls_apply]
    cases hc : s[off]? with
    | none => rfl
    | some c =>
      obtain ⟨h1, h2⟩ := h c hc
      simp [inC, ClsItem.has, h1, h2]
  rw [loop_body_fail]
  · exact hcls _
  · intro k'
    rw [m_seq]
    exact hcls _

def junkEntry (a b : Nat) : Entry := { kind := .junk, full := a, s := a, e := b }

/-- `getJunk` when neither the key nor the comment regex matches strictly between `a` and `b`, and `b` is the end
    of the text or the start of a key -/
theorem getJunk_upto (s : Array Nat) (a b : Nat) (hab : a < b) (hb : b ≤ s.size)
    (hkey : ∀ p, a < p → p < b → matchAt s PropertiesParser_reKey p = none)
    (hcm : ∀ p, a < p → p < b → matchAt s PropertiesParser_reComment p = none)
    (hend : b = s.size ∨ ∃ st, matchAt s PropertiesParser_reKey b = some st) :
    getJunk s a [PropertiesParser_reKey, PropertiesParser_reComment] = junkEntry a b := by
  have hcm_ge : ∀ x st, search s PropertiesParser_reComment (a + 1) = some (x, st) → b ≤ x := by
    intro x st hx
    obtain ⟨h1, _, h3, _⟩ := search_spec hx
    apply Nat.le_of_not_lt
    intro hlt
    rw [hcm x (by omega) hlt] at h3
    cases h3
  unfold getJunk
  simp only [List.foldl_cons, List.foldl_nil]
  rcases hend with he | ⟨st, hst⟩
  · -- nothing matches up to the end of the text
    have hk : search s PropertiesParser_reKey (a + 1) = none := by
      apply search_none_c02
      intro p h1 h2
      by_cases hp : p < b
      · exact hkey p (by omega) hp
      · have : p = s.size := by omega
        subst this
        exact key_nomatch s s.size s.size (Nat.le_refl _) (Or.inr (by simp)) (fun j h1 h2 => by omega)
    have hc : search s PropertiesParser_reComment (a + 1) = none := by
      apply search_none_c02
      intro p h1 h2
      by_cases hp : p < b
      · exact hcm p (by omega) hp
      · have : p = s.size := by omega
        subst this
        exact comment_nomatch s s.size (Nat.le_refl _) (fun c hc => by simp at hc)
    simp only [hk, hc, junkEntry, he]
  · have hk : search s PropertiesParser_reKey (a + 1) = some (b, st) := by
      have := search_first s PropertiesParser_reKey st (b - (a + 1)) (a + 1) (by omega)
        (fun p h1 h2 => hkey p (by omega) (by omega)) (by rw [show a + 1 + (b - (a + 1)) = b by omega]; exact hst)
      rw [show a + 1 + (b - (a + 1)) = b by omega] at this
      exact this
    simp only [hk]
    have hb0 : (b != 0) = true := by simp; omega
    cases hc : search s PropertiesParser_reComment (a + 1) with
    | none => simp [junkEntry, hb0]
    | some r =>
      obtain ⟨x, st'⟩ := r
      have := hcm_ge x st' hc
      simp only [hb0, if_true, Nat.min_eq_left this, junkEntry]

/-- a garbage line: non-empty, without `= : # !` and newline, not starting with a blank -/
structure GarbageLine (G : List Nat) : Prop where
  ne : G ≠ []
  chars : ∀ c ∈ G, c ≠ 61 ∧ c ≠ 58 ∧ c ≠ 10 ∧ c ≠ 35 ∧ c ≠ 33
  head : ∀ c, G.head? = some c → c ≠ 32 ∧ c ≠ 9 ∧ c ≠ 13

theorem noWsHead_garbage (G rest : List Nat) (hG : GarbageLine G) : NoWsHead (G ++ rest) := by
  intro c hc
  cases G with
  | nil => exact absurd rfl hG.ne
  | cons g t =>
    simp at hc; subst hc
    have := hG.head g (by simp)
    have h2 := hG.chars g (by simp)
    exact ⟨this.1, this.2.1, this.2.2, h2.2.2.1⟩

/-- at a garbage line that is followed by the end of the text or by a safe record, `getNext` returns the junk entry
    that spans exactly the line and its newline -/
theorem props_junk_at (s : Array Nat) (a : Nat) (G rest : List Nat) (hG : GarbageLine G)
    (h : s.toList.drop a = G ++ 10 :: rest)
    (hrest : rest = [] ∨ ∃ r rest', SafeRec r ∧ rest = printRec r ++ rest') :
    propsGetNext s a = junkEntry a (a + G.length + 1) := by
  have g := fun i => get_of_drop s a i _ h
  have hlen : G.length + 1 + rest.length = s.size - a := by
    have := congrArg List.length h
    simp at this; omega
  have hGl : 0 < G.length := List.length_pos_iff.mpr hG.ne
  have hG_at : ∀ i, i < G.length → s[a + i]? = some G[i]! ∧ G[i]! ∈ G := by
    intro i hi
    rw [g i, List.getElem?_append_left hi]
    simp [hi]
  have hnl : s[a + G.length]? = some 10 := by
    rw [g G.length, List.getElem?_append_right (Nat.le_refl _)]
    simp
  -- the dispatch at `a`
  obtain ⟨h0, hm0⟩ := hG_at 0 hGl
  simp only [Nat.add_zero] at h0
  have c0 := hG.chars _ hm0
  have hh0 := hG.head G[0]! (by rw [List.head?_eq_getElem?]; simp [hGl])
  have hcm := comment_none s a _ h0 c0.2.2.2.1 c0.2.2.2.2
  have hws := ws_none s a _ h0 hh0.1 hh0.2.1 hh0.2.2 c0.2.2.1
  have hline : ∀ p j, a ≤ p → p < j → j < a + G.length → ∃ c, s[j]? = some c ∧ c ≠ 61 ∧ c ≠ 58 := by
    intro p j _ h2 h3
    obtain ⟨e, hm⟩ := hG_at (j - a) (by omega)
    rw [show a + (j - a) = j by omega] at e
    have := hG.chars _ hm
    exact ⟨_, e, this.1, this.2.1⟩
  have hkey : ∀ p, a ≤ p → p < a + G.length + 1 → matchAt s PropertiesParser_reKey p = none := by
    intro p h1 h2
    exact key_nomatch s p (a + G.length) (by omega) (Or.inl hnl) (fun j h3 h4 => hline p j h1 h3 h4)
  have hcms : ∀ p, a < p → p < a + G.length + 1 → matchAt s PropertiesParser_reComment p = none := by
    intro p h1 h2
    apply comment_nomatch s p (by omega)
    intro c hc
    by_cases hp : p = a + G.length
    · subst hp; rw [hnl] at hc; cases hc; decide
    · obtain ⟨e, hm⟩ := hG_at (p - a) (by omega)
      rw [show a + (p - a) = p by omega, hc] at e
      cases e
      have := hG.chars _ hm
      exact ⟨this.2.2.2.1, this.2.2.2.2⟩
  have hend : a + G.length + 1 = s.size ∨ ∃ st, matchAt s PropertiesParser_reKey (a + G.length + 1) = some st := by
    rcases hrest with hr | ⟨r, rest', hs, hr⟩
    · left; subst hr; simp at hlen; omega
    · right
      have hd : s.toList.drop (a + G.length + 1) = printRec r ++ rest' := by
        have := congrArg (List.drop (G.length + 1)) h
        rw [List.drop_drop] at this
        rw [show a + G.length + 1 = a + (G.length + 1) by omega, this, ← hr]
        rw [show G ++ 10 :: rest = (G ++ [10]) ++ rest by simp, List.drop_left' (by simp)]
      exact ⟨_, key_match s _ _ _ (recAt_of_drop s _ r rest' hs hd)⟩
  have hj := getJunk_upto s a (a + G.length + 1) (by omega) (by omega)
    (fun p h1 h2 => hkey p (by omega) h2) hcms hend
  unfold propsGetNext
  simp only [hcm, hws, hkey a (Nat.le_refl _) (by omega)]
  simpa using hj

/-! ### a prefix of printed records, then anything that does not start with white-space -/

theorem noWsHead_printProps_append (rs : List PRec) (tail : List Nat) (h : ∀ r ∈ rs, SafeRec r) (ht : NoWsHead tail) :
    NoWsHead (printProps rs ++ tail) := by
  cases rs with
  | nil => simpa [printProps] using ht
  | cons r rs' =>
    have hs := h r (by simp)
    have hkl : 0 < r.1.length := List.length_pos_iff.mpr hs.key_ne
    have f0 := keyChar_facts (hs.key r.1[0] (List.getElem_mem _))
    intro c hc
    have e : (printProps (r :: rs') ++ tail).head? = some r.1[0] := by
      rw [List.head?_eq_getElem?]
      simp [printProps, printRec, List.getElem?_append_left hkl]
    rw [e] at hc; cases hc
    exact ⟨f0.2.2.1, f0.2.2.2.1, f0.2.2.2.2.1, f0.2.2.2.2.2.1⟩

theorem printProps_length_ge (rs : List PRec) : 2 * rs.length ≤ (printProps rs).length := by
  induction rs with
  | nil => simp
  | cons r rs ih =>
    have : printProps (r :: rs) = printRec r ++ printProps rs := by simp [printProps]
    rw [this, List.length_append, printRec_length]
    simp; omega

theorem walk_prefix (s : Array Nat) :
    ∀ (rs : List PRec) (off fuel : Nat) (tail : List Nat) (es2 : List Entry),
      s.toList.drop off = printProps rs ++ tail → (∀ r ∈ rs, SafeRec r) → NoWsHead tail →
      walkFrom (fun (_ : Unit) o => (propsGetNext s o, ())) s.size fuel () (off + (printProps rs).length) = .done es2 →
      ∃ es1, walkFrom (fun (_ : Unit) o => (propsGetNext s o, ())) s.size (fuel + 2 * rs.length) () off = .done (es1 ++ es2) ∧
        entitiesOf .properties s es1 = rs.map expectedView ∧ junkOf s es1 = [] := by
  intro rs
  induction rs with
  | nil =>
    intro off fuel tail es2 _ _ _ hw
    exact ⟨[], by simpa [printProps] using hw, by simp [entitiesOf], by simp [junkOf]⟩
  | cons r rs ih =>
    intro off fuel tail es2 h hsafe ht hw
    have hs : SafeRec r := hsafe r (by simp)
    have hpp : printProps (r :: rs) = printRec r ++ printProps rs := by simp [printProps]
    rw [hpp, List.append_assoc] at h
    have hrec := recAt_of_drop s off r _ hs h
    have hnlt := getElem?_some_lt hrec.nl
    have hsafe' : ∀ r' ∈ rs, SafeRec r' := fun r' hr' => hsafe r' (by simp [hr'])
    have hd1 : s.toList.drop (off + r.1.length + 1 + r.2.length) = nls 1 ++ (printProps rs ++ tail) := by
      have := congrArg (List.drop (r.1.length + 1 + r.2.length)) h
      rw [List.drop_drop] at this
      rw [show off + r.1.length + 1 + r.2.length = off + (r.1.length + 1 + r.2.length) by omega, this]
      have e : printRec r = (r.1 ++ 61 :: r.2) ++ [10] := by simp [printRec]
      rw [e, List.append_assoc, List.drop_left' (by simp; omega)]
      simp [nls]
    have hd2 : s.toList.drop (off + r.1.length + 1 + r.2.length + 1) = printProps rs ++ tail := by
      have := congrArg (List.drop 1) hd1
      rw [List.drop_drop] at this
      simpa [nls] using this
    have e1 : propsGetNext s off = propsEntity_c02 off r.1.length r.2.length := props_entity_at s off _ _ hrec
    have e2 := props_ws_run s (off + r.1.length + 1 + r.2.length) 1 _ (by omega) hd1
      (noWsHead_printProps_append rs tail hsafe' ht)
    have hw' : walkFrom (fun (_ : Unit) o => (propsGetNext s o, ())) s.size fuel ()
        (off + r.1.length + 1 + r.2.length + 1 + (printProps rs).length) = .done es2 := by
      rw [← hw, hpp, List.length_append, printRec_length]
      congr 1; omega
    obtain ⟨es1, hw1, hen, hj⟩ := ih (off + r.1.length + 1 + r.2.length + 1) fuel tail es2 hd2 hsafe' ht hw'
    refine ⟨propsEntity_c02 off r.1.length r.2.length :: wsRun (off + r.1.length + 1 + r.2.length) 1 :: es1, ?_, ?_, ?_⟩
    · rw [show fuel + 2 * (r :: rs).length = (fuel + 2 * rs.length) + 1 + 1 by simp; omega]
      rw [walk_step s _ off _ (by omega) e1]
      rw [show (propsEntity_c02 off r.1.length r.2.length).e = off + r.1.length + 1 + r.2.length from rfl,
        walk_step s _ _ _ (by omega) e2]
      rw [show (wsRun (off + r.1.length + 1 + r.2.length) 1).e = off + r.1.length + 1 + r.2.length + 1 from rfl, hw1]
      rfl
    · have hv := entView_propsEntity s off r _ hs h
      simp only [entitiesOf] at hen ⊢
      rw [List.filter_cons_of_pos (by simp [propsEntity_c02]), List.filter_cons_of_neg (by simp [wsRun]),
        List.map_cons, hv, hen]
      rfl
    · simp only [junkOf] at hj ⊢
      rw [List.filter_cons_of_neg (by simp [propsEntity_c02]), List.filter_cons_of_neg (by simp [wsRun]), hj]

/-- the text `records, garbage line, records` -/
def withGarbage (rs1 : List PRec) (G : List Nat) (rs2 : List PRec) : List Nat :=
  printProps rs1 ++ (G ++ 10 :: printProps rs2)

/-- garbage locality for properties: the walk of `records ++ G⏎ ++ records` is the entries of the first records, ONE junk
    entry spanning exactly `G⏎`, the entries of the other records -/
theorem walk_garbage (rs1 rs2 : List PRec) (G : List Nat) (h1 : ∀ r ∈ rs1, SafeRec r) (h2 : ∀ r ∈ rs2, SafeRec r)
    (hG : GarbageLine G) :
    ∃ es1 es2, walk .properties (withGarbage rs1 G rs2).toArray =
        .done (es1 ++ junkEntry (printProps rs1).length ((printProps rs1).length + G.length + 1) :: es2) ∧
      entitiesOf .properties (withGarbage rs1 G rs2).toArray es1 = rs1.map expectedView ∧
      junkOf (withGarbage rs1 G rs2).toArray es1 = [] ∧
      entitiesOf .properties (withGarbage rs1 G rs2).toArray es2 = rs2.map expectedView ∧
      junkOf (withGarbage rs1 G rs2).toArray es2 = [] := by
  have hl1 := printProps_length_ge rs1
  have hl2 := printProps_length_ge rs2
  have hsz : (withGarbage rs1 G rs2).toArray.size = (printProps rs1).length + G.length + 1 + (printProps rs2).length := by
    simp [withGarbage]; omega
  have hda : (withGarbage rs1 G rs2).toArray.toList.drop (printProps rs1).length = G ++ 10 :: printProps rs2 := by
    simp [withGarbage]
  have hdb : (withGarbage rs1 G rs2).toArray.toList.drop ((printProps rs1).length + G.length + 1) = printProps rs2 := by
    have := congrArg (List.drop (G.length + 1)) hda
    rw [List.drop_drop] at this
    rw [show (printProps rs1).length + G.length + 1 = (printProps rs1).length + (G.length + 1) by omega, this]
    rw [show G ++ 10 :: printProps rs2 = (G ++ [10]) ++ printProps rs2 by simp, List.drop_left' (by simp)]
  -- the junk entry
  have hj := props_junk_at (withGarbage rs1 G rs2).toArray (printProps rs1).length G (printProps rs2) hG hda
    (by
      cases rs2 with
      | nil => left; simp [printProps]
      | cons r rs2' => right; exact ⟨r, printProps rs2', h2 r (by simp), by simp [printProps]⟩)
  -- the records after it
  obtain ⟨f, hf, hf2⟩ : ∃ f, (withGarbage rs1 G rs2).toArray.size = f + 2 * rs1.length ∧ 2 * rs2.length ≤ f :=
    ⟨(withGarbage rs1 G rs2).toArray.size - 2 * rs1.length, by omega, by omega⟩
  have hw2 := walk_props_from (withGarbage rs1 G rs2).toArray rs2 ((printProps rs1).length + G.length + 1) f hdb h2 hf2
  obtain ⟨hen2, hj2⟩ := entitiesOf_expEntries (withGarbage rs1 G rs2).toArray rs2 _ hdb h2
  have hw : walkFrom (fun (_ : Unit) o => (propsGetNext (withGarbage rs1 G rs2).toArray o, ()))
      (withGarbage rs1 G rs2).toArray.size (f + 1) ()
      (0 + (printProps rs1).length) =
      .done (junkEntry (printProps rs1).length ((printProps rs1).length + G.length + 1) ::
        expEntries ((printProps rs1).length + G.length + 1) rs2) := by
    rw [Nat.zero_add, walk_step _ _ _ _ (by omega) hj]
    rw [show (junkEntry (printProps rs1).length ((printProps rs1).length + G.length + 1)).e =
      (printProps rs1).length + G.length + 1 from rfl, hw2]
    rfl
  obtain ⟨es1, hw1, hen1, hj1⟩ := walk_prefix (withGarbage rs1 G rs2).toArray rs1 0 _ (G ++ 10 :: printProps rs2) _
    (by simp [withGarbage]) h1 (noWsHead_garbage G _ hG) hw
  refine ⟨es1, expEntries ((printProps rs1).length + G.length + 1) rs2, ?_, hen1, hj1, hen2, hj2⟩
  unfold walk
  simp only []
  rw [show (withGarbage rs1 G rs2).toArray.size + 1 = f + 1 + 2 * rs1.length by omega]
  exact hw1

end C04R

/- Concrete matchers with wildcards used as non-vacuity examples of the C11/C12 wildcard theorems. -/
import CLModel.Proofs.C12RSep
import CLModel.Proofs.C12Android
import CLModel.Proofs.C11Witness
namespace C11R
open Rx PM

/-- `Matcher("{l}browser/**/*.ftl", {"l": "{l10n_base}/{locale}/", "l10n_base": "/l10n", "locale": "de"})` written
    out: the l10n side of a project configuration (`{l}` is defined through two other variables) -/
def wildMatcher : Matcher :=
  { pattern := { nodes := [.var (T "l") false, .lit (T "browser/"), .starstar 1 (T "/"), .star 2, .lit (T ".ftl")],
                 root := none, prefixLen := 2 },
    env := [(T "l", .pat { nodes := [.var (T "l10n_base") false, .lit (T "/"), .var localeName false, .lit (T "/")],
                           root := none, prefixLen := 4 }),
            (T "l10n_base", .pat { nodes := [.lit (T "/l10n")], root := none, prefixLen := 1 }),
            (localeName, .pat { nodes := [.lit (T "de")], root := none, prefixLen := 1 })] }

/-- `Matcher("browser/locales/en-US/**/*.ftl")` written out (the reference side) -/
def refMatcher : Matcher :=
  { pattern := { nodes := [.lit (T "browser/locales/en-US/"), .starstar 1 (T "/"), .star 2, .lit (T ".ftl")],
                 root := none, prefixLen := 1 },
    env := [] }

/-- wildcard values: `**/` = "a/b/", `*` = "c.d" (a dot inside the star value: the engine has to backtrack) -/
def wildVals : Nat → Text
  | 1 => T "a/b/"
  | 2 => T "c.d"
  | _ => []

theorem matcherOf_is {pat : String} {env : List (String × String)} {m : Matcher}
    (h : (match matcherOf pat env none with
      | .ok m' => m'.pattern == m.pattern && m'.env == m.env
      | .error _ => false) = true) : matcherOf pat env none = .ok m := by
  split at h
  · rename_i m' hm
    simp only [Bool.and_eq_true, beq_iff_eq] at h
    rw [hm]
    cases m'; cases m
    simp only at h
    obtain ⟨h1, h2⟩ := h
    subst h1; subst h2; rfl
  · cases h

theorem wildMatcher_is : matcherOf "{l}browser/**/*.ftl"
    [("l", "{l10n_base}/{locale}/"), ("l10n_base", "/l10n"), ("locale", "de")] none = .ok wildMatcher :=
  matcherOf_is (by decide +kernel)

theorem refMatcher_is : matcherOf "browser/locales/en-US/**/*.ftl" [] none = .ok refMatcher :=
  matcherOf_is (by decide +kernel)

/-- `re.compile` accepts the pattern and it does not use `{android_locale}` -/
theorem regexOf_ok_of {m : Matcher}
    (h : (match m.regexOf with | .ok x => !x.2.contains androidName | .error _ => false) = true) :
    ∃ re names, m.regexOf = .ok (re, names) ∧ androidName ∉ names := by
  split at h
  · rename_i x hx
    refine ⟨x.1, x.2, hx, ?_⟩
    intro hc
    have : x.2.contains androidName = true := by simpa using hc
    rw [this] at h
    cases h
  · cases h

theorem wildPSep_tail : PSep [Piece.sstar (T "a/b/"), Piece.star (T "c.d"), Piece.lit (T ".ftl")] := by
  refine ⟨?_, ?_, ?_, ?_, trivial⟩
  · exact Or.inr ⟨T "a/b", by decide, by decide, by decide⟩
  · intro p hp
    simp only [List.mem_cons, List.not_mem_nil, or_false] at hp
    rcases hp with rfl | rfl <;> exact ⟨fun _ h => (by cases h), fun _ h => (by cases h)⟩
  · decide
  · exact noLaterHit_of_first (by decide) (by decide)

theorem wildMatcher_l : expandNode (expandVal (fuelFor wildMatcher.env)) (.var (T "l") false) wildMatcher.env true =
    .ok (T "/l10n/de/") := okEq_spec (by decide +kernel)

theorem wild_varText : varText wildMatcher.env (.var (T "l") false) = T "/l10n/de/" := by
  unfold varText; rw [wildMatcher_l]

theorem wild_nodes : wildMatcher.pattern.nodes =
    [.var (T "l") false, .lit (T "browser/"), .starstar 1 (T "/"), .star 2, .lit (T ".ftl")] := rfl

theorem wild_pieces : wildMatcher.pattern.nodes.map (pieceOf wildVals wildMatcher.env) =
    [Piece.grp (T "/l10n/de/"), Piece.lit (T "browser/"), Piece.sstar (T "a/b/"), Piece.star (T "c.d"),
      Piece.lit (T ".ftl")] := by
  rw [wild_nodes]
  simp only [List.map_cons, List.map_nil, pieceOf, wild_varText]
  rfl

theorem noAndroid_mem {names : List Text} (h : names.contains androidName = false) : androidName ∉ names := by
  intro hc
  have : names.contains androidName = true := by simpa using hc
  rw [this] at h; cases h

/-- `wildMatcher` with `wildVals` satisfies every hypothesis of the wildcard theorems -/
theorem wildMatcher_ok : (∃ names, Fillable wildVals wildMatcher names []) ∧ Expandable wildMatcher := by
  obtain ⟨re, names, hre, hna⟩ := regexOf_ok_of (m := wildMatcher) (by decide +kernel)
  refine ⟨⟨names, ?_, ?_, ⟨re, hre⟩, hna, rfl, ?_⟩, ?_, keysOnce_of_nodup (by decide), ?_⟩
  · intro k v hm
    simp only [wildMatcher, List.mem_cons, List.not_mem_nil, or_false, Prod.mk.injEq] at hm
    rcases hm with ⟨_, rfl⟩ | ⟨_, rfl⟩ | ⟨_, rfl⟩
    · refine ⟨rfl, fun n hn => ?_⟩
      simp only [List.mem_cons, List.not_mem_nil, or_false] at hn
      rcases hn with rfl | rfl | rfl | rfl <;> simp [NodeNoRep]
    · exact ⟨rfl, fun n hn => by simp only [List.mem_singleton] at hn; subst hn; trivial⟩
    · exact ⟨rfl, fun n hn => by simp only [List.mem_singleton] at hn; subst hn; trivial⟩
  · intro n hn
    simp only [wildMatcher, List.mem_cons, List.not_mem_nil, or_false] at hn
    rcases hn with rfl | rfl | rfl | rfl | rfl
    · exact ⟨rfl, _, wildMatcher_l⟩
    · trivial
    · exact Or.inl rfl
    · trivial
    · trivial
  · show PSep _
    rw [wild_pieces]
    exact wildPSep_tail
  · intro k p hm n hn r
    simp only [wildMatcher, List.mem_cons, List.not_mem_nil, or_false, Prod.mk.injEq, Val.pat.injEq] at hm
    rcases hm with ⟨_, rfl⟩ | ⟨_, rfl⟩ | ⟨_, rfl⟩ <;>
      (simp only [List.mem_cons, List.not_mem_nil, or_false] at hn; rcases hn with rfl | rfl | rfl | rfl <;> simp) <;>
      skip
  · intro k
    simp [wildMatcher, List.lookup, sname, localeName, T]

theorem refMatcher_ok : (∃ names, Fillable wildVals refMatcher names []) ∧ Expandable refMatcher := by
  obtain ⟨re, names, hre, hna⟩ := regexOf_ok_of (m := refMatcher) (by decide +kernel)
  refine ⟨⟨names, ?_, ?_, ⟨re, hre⟩, hna, rfl, ?_⟩, ?_, ?_, ?_⟩
  · intro k v hm; simp [refMatcher] at hm
  · intro n hn
    simp only [refMatcher, List.mem_cons, List.not_mem_nil, or_false] at hn
    rcases hn with rfl | rfl | rfl | rfl
    · trivial
    · exact Or.inl rfl
    · trivial
    · trivial
  · show PSep _
    simp only [refMatcher, List.map_cons, List.map_nil, pieceOf]
    exact wildPSep_tail
  · intro k p hm; simp [refMatcher] at hm
  · intro k; simp [refMatcher]
  · intro k; simp [refMatcher]

theorem wild_same : ∀ k, k ∈ refMatcher.pattern.nodes.filterMap wildNum ↔ k ∈ wildMatcher.pattern.nodes.filterMap wildNum := by
  intro k; simp [refMatcher, wildMatcher, wildNum, List.filterMap]

theorem wild_fill : [] ++ fillN wildVals wildMatcher.env wildMatcher.pattern.nodes = T "/l10n/de/browser/a/b/c.d.ftl" := by
  unfold fillN
  rw [wild_pieces]
  decide +kernel

theorem ref_fill : [] ++ fillN wildVals refMatcher.env refMatcher.pattern.nodes = T "browser/locales/en-US/a/b/c.d.ftl" := by
  decide +kernel

end C11R

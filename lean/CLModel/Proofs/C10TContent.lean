/-
Helper lemmas for the text renderings of C10 (core Lean only): `Tree.getContent`.

* `getContent_node`    — the generator, read through `List` operations
* `outline`            — reading the yielded tuples back as an outline: every ("value", v) row together with
                         the chain of ("key", k) rows it stands under
* `rows`               — what the outline is: the stored lists in depth-first order over sorted keys
* `outline_getContent` — `outline (getContent t 0) = rows t`
* `rows_perm`, `rows_sorted`, `rows_keys_ne_nil`
-/
import CLModel.Compare.Tree
import CLModel.Proofs.C10Tree
import CLModel.Proofs.C10TOrder
namespace C10T
open TreeM

variable {V : Type}

/-! ### the generator -/

theorem getContentBr_eq (br : List (Key × Tree V)) (d : Nat) :
    getContentBr br d = br.map (fun kv => (kv.1, getContent kv.2 d)) := by
  induction br with
  | nil => simp [getContentBr]
  | cons kv rest ih => obtain ⟨k, v⟩ := kv; simp [getContentBr, ih]

/-- `Tree.getContent(depth)`: the value of the node first (if it has one), then for every branch, in the order
    of the sorted keys, the key at this depth followed by the content of the sub-tree one level deeper -/
theorem getContent_node (br : List (Key × Tree V)) (val : Option (List V)) (d : Nat) :
    getContent (.node br val) d =
      (match val with | some v => [Content.value d v] | none => []) ++
        (sortByKey br).flatMap (fun kv => Content.key d kv.1 :: getContent kv.2 (d + 1)) := by
  simp only [getContent, getContentBr_eq]
  rw [sortByKey_map (fun v => getContent v (d + 1)) br, List.flatMap_map]
  rfl

/-! ### reading the rows as an outline -/

/-- the chain of keys a reader has in mind after the rows: a ("key", k) row at depth `d` replaces
    everything from level `d` on -/
def stackAfter : List Key → List (Content V) → List Key
  | st, [] => st
  | st, .key d k :: rest => stackAfter (st.take d ++ [k]) rest
  | st, .value _ _ :: rest => stackAfter st rest

/-- every ("value", v) row at depth `d` together with the `d` keys it stands under -/
def outlineAux : List Key → List (Content V) → List (List Key × List V)
  | _, [] => []
  | st, .key d k :: rest => outlineAux (st.take d ++ [k]) rest
  | st, .value d v :: rest => (st.take d, v) :: outlineAux st rest

/-- the rows of `getContent()` read as an outline: `(chain of keys from the root, value)` per value row -/
def outline (c : List (Content V)) : List (List Key × List V) := outlineAux [] c

theorem stackAfter_append : ∀ (a b : List (Content V)) (st : List Key),
    stackAfter st (a ++ b) = stackAfter (stackAfter st a) b
  | [], _, _ => rfl
  | .key d k :: a, b, st => by simp [stackAfter, stackAfter_append a b]
  | .value d v :: a, b, st => by simp [stackAfter, stackAfter_append a b]

theorem outlineAux_append : ∀ (a b : List (Content V)) (st : List Key),
    outlineAux st (a ++ b) = outlineAux st a ++ outlineAux (stackAfter st a) b
  | [], _, _ => rfl
  | .key d k :: a, b, st => by simp [outlineAux, stackAfter, outlineAux_append a b]
  | .value d v :: a, b, st => by simp [outlineAux, stackAfter, outlineAux_append a b]

/-! ### what the outline is -/

mutual
/-- `(chain of keys, value)` of every stored list, depth-first, the branches of every node in the order of
    their sorted keys, the value of a node before its branches -/
def rows : Tree V → List (List Key × List V)
  | .node br val =>
    (match val with | some v => [([], v)] | none => []) ++
      (sortByKey (rowsBr br)).flatMap (fun kr => kr.2.map (fun r => (kr.1 :: r.1, r.2)))
def rowsBr : List (Key × Tree V) → List (Key × List (List Key × List V))
  | [] => []
  | (k, v) :: rest => (k, rows v) :: rowsBr rest
end

theorem rowsBr_eq (br : List (Key × Tree V)) : rowsBr br = br.map (fun kv => (kv.1, rows kv.2)) := by
  induction br with
  | nil => simp [rowsBr]
  | cons kv rest ih => obtain ⟨k, v⟩ := kv; simp [rowsBr, ih]

theorem rows_node (br : List (Key × Tree V)) (val : Option (List V)) :
    rows (.node br val) = (match val with | some v => [([], v)] | none => []) ++
      (sortByKey br).flatMap (fun kv => (rows kv.2).map (fun r => (kv.1 :: r.1, r.2))) := by
  simp only [rows, rowsBr_eq]
  rw [sortByKey_map (fun v => rows v) br, List.flatMap_map]

/-- the step of `outline_getContent` over the branches of one node -/
theorem outline_branches (d : Nat) : ∀ (l : List (Key × Tree V)),
    (∀ kv ∈ l, ∀ (st : List Key), d + 1 ≤ st.length →
      outlineAux st (getContent kv.2 (d + 1)) = (rows kv.2).map (fun r => (st.take (d + 1) ++ r.1, r.2)) ∧
      (stackAfter st (getContent kv.2 (d + 1))).take (d + 1) = st.take (d + 1) ∧
      d + 1 ≤ (stackAfter st (getContent kv.2 (d + 1))).length) →
    ∀ (st : List Key), d ≤ st.length →
      outlineAux st (l.flatMap (fun kv => Content.key d kv.1 :: getContent kv.2 (d + 1)))
        = l.flatMap (fun kv => (rows kv.2).map (fun r => (st.take d ++ kv.1 :: r.1, r.2))) ∧
      (stackAfter st (l.flatMap (fun kv => Content.key d kv.1 :: getContent kv.2 (d + 1)))).take d = st.take d ∧
      d ≤ (stackAfter st (l.flatMap (fun kv => Content.key d kv.1 :: getContent kv.2 (d + 1)))).length
  | [], _, st, hst => by simp [outlineAux, stackAfter, hst]
  | kv :: l', ih, st, hst => by
    have hlen : (st.take d ++ [kv.1]).length = d + 1 := by
      simp [List.length_take, Nat.min_eq_left hst]
    obtain ⟨h1, h2, h3⟩ := ih kv (by simp) (st.take d ++ [kv.1]) (by omega)
    have htk : (st.take d ++ [kv.1]).take (d + 1) = st.take d ++ [kv.1] := by
      rw [List.take_of_length_le (by omega)]
    rw [htk] at h1 h2
    -- the stack after this branch still starts with the `d` keys of `st`
    have hst1 : (stackAfter (st.take d ++ [kv.1]) (getContent kv.2 (d + 1))).take d = st.take d := by
      have := congrArg (List.take d) h2
      rw [List.take_take, Nat.min_eq_left (by omega)] at this
      rw [this, List.take_append_of_le_length (by simp [List.length_take, Nat.min_eq_left hst])]
      rw [List.take_take, Nat.min_self]
    obtain ⟨r1, r2, r3⟩ := outline_branches d l' (fun x hx => ih x (by simp [hx]))
      (stackAfter (st.take d ++ [kv.1]) (getContent kv.2 (d + 1))) (by omega)
    simp only [List.flatMap_cons]
    rw [show Content.key d kv.1 :: getContent kv.2 (d + 1) = [Content.key d kv.1] ++ getContent kv.2 (d + 1) from rfl]
    rw [List.append_assoc, outlineAux_append, stackAfter_append, outlineAux_append, stackAfter_append]
    simp only [outlineAux, stackAfter, List.nil_append]
    refine ⟨?_, ?_, r3⟩
    · rw [h1, r1, hst1]
      congr 1
      apply List.map_congr_left
      intro r _
      simp
    · rw [r2, hst1]

/-- reading `getContent(depth)` below a chain of `depth` keys gives the rows of the tree under that chain -/
theorem outlineAux_getContent (t : Tree V) : ∀ (d : Nat) (st : List Key), d ≤ st.length →
    outlineAux st (getContent t d) = (rows t).map (fun r => (st.take d ++ r.1, r.2)) ∧
      (stackAfter st (getContent t d)).take d = st.take d ∧
      d ≤ (stackAfter st (getContent t d)).length := by
  induction t using Tree.induction with
  | h br val ih =>
    intro d st hst
    rw [getContent_node, rows_node, outlineAux_append, stackAfter_append]
    have hval : stackAfter st (match val with | some v => [Content.value d v] | none => []) = st := by
      cases val <;> simp [stackAfter]
    rw [hval]
    have hmem : ∀ kv ∈ sortByKey br, kv ∈ br := fun kv h => (sortByKey_perm br).mem_iff.1 h
    obtain ⟨b1, b2, b3⟩ := outline_branches d (sortByKey br)
      (fun kv hkv st' hst' => ih kv (hmem kv hkv) (d + 1) st' hst') st hst
    refine ⟨?_, b2, b3⟩
    rw [b1, List.map_append, List.map_flatMap]
    congr 1
    · cases val <;> simp [outlineAux]
    · apply flatMap_congr'
      intro kv _
      simp [List.map_map, Function.comp]

/-- reading the tuples `Tree.getContent()` yields as an outline gives exactly `rows` -/
theorem outline_getContent (t : Tree V) : outline (getContent t 0) = rows t := by
  have := (outlineAux_getContent t 0 [] (Nat.le_refl _)).1
  simpa [outline] using this

/-! ### the rows: every stored list once, under keys that concatenate to its path, in sorted order -/

theorem flatMap_perm_congr {α β : Type} {f g : α → List β} : ∀ {l : List α}, (∀ a ∈ l, (f a).Perm (g a)) →
    (l.flatMap f).Perm (l.flatMap g)
  | [], _ => List.Perm.refl _
  | a :: l, h => by
    simp only [List.flatMap_cons]
    exact List.Perm.append (h a (by simp)) (flatMap_perm_congr (fun x hx => h x (by simp [hx])))

/-- the rows list every `(path, list)` the tree stores (a permutation of `flatten`: only the order differs) -/
theorem rows_perm (t : Tree V) : ((rows t).map (fun r => (r.1.flatten, r.2))).Perm (flatten t) := by
  induction t using Tree.induction with
  | h br val ih =>
    rw [rows_node, flatten_node, List.map_append]
    apply List.Perm.append
    · cases val <;> simp
    · rw [List.map_flatMap]
      refine List.Perm.trans ?_ (List.Perm.flatMap_right _ (sortByKey_perm br))
      apply flatMap_perm_congr
      intro kv hkv
      have hkv' : kv ∈ br := (sortByKey_perm br).mem_iff.1 hkv
      have := (ih kv hkv').map (fun pv : List Part × List V => (kv.1 ++ pv.1, pv.2))
      rw [List.map_map] at this ⊢
      have e : (rows kv.2).map ((fun r : List Key × List V => (r.1.flatten, r.2)) ∘ fun r => (kv.1 :: r.1, r.2))
          = (rows kv.2).map ((fun pv : List Part × List V => (kv.1 ++ pv.1, pv.2)) ∘ fun r => (r.1.flatten, r.2)) :=
        List.map_congr_left (fun r _ => by simp)
      rw [e]; exact this

theorem rows_keys_ne_nil (t : Tree V) : Inv t → ∀ r ∈ rows t, ∀ k ∈ r.1, k ≠ [] := by
  induction t using Tree.induction with
  | h br val ih =>
    intro hinv r hr k hk
    rw [Inv_node] at hinv
    rw [rows_node] at hr
    simp only [List.mem_append, List.mem_flatMap, List.mem_map] at hr
    cases hr with
    | inl h => cases val <;> simp_all
    | inr h =>
      obtain ⟨kv, hkv, r', hm, rfl⟩ := h
      have hkv' : kv ∈ br := (sortByKey_perm br).mem_iff.1 hkv
      simp only [List.mem_cons] at hk
      cases hk with
      | inl h => subst h; exact (hinv.2 kv hkv').1
      | inr h => exact ih kv hkv' (hinv.2 kv hkv').2 r' hm k h

/-- under the invariant the paths of the rows are strictly increasing for Python's order on tuples of `str`:
    the files are displayed in the order of `sorted(paths)`, however the tree compressed the paths -/
theorem rows_sorted (t : Tree V) : Inv t → ((rows t).map (fun r => r.1.flatten)).Pairwise pathLt := by
  induction t using Tree.induction with
  | h br val ih =>
    intro hinv
    rw [Inv_node] at hinv
    obtain ⟨hnd, hbr⟩ := hinv
    have hperm := sortByKey_perm br
    have hmem : ∀ kv ∈ sortByKey br, kv ∈ br := fun kv h => hperm.mem_iff.1 h
    -- the sorted branches: keys in order, first segments pairwise different
    have hnd' : (sortByKey br).Pairwise (fun a b => headOf a.1 ≠ headOf b.1) := by
      have : ((sortByKey br).map (fun kv => headOf kv.1)).Nodup := (hperm.map _).nodup_iff.2 hnd
      unfold List.Nodup at this
      rwa [List.pairwise_map] at this
    have hso := (sortByKey_sorted br).and hnd'
    rw [rows_node, List.map_append, List.pairwise_append]
    refine ⟨by cases val <;> simp, ?_, ?_⟩
    · rw [List.map_flatMap, List.pairwise_flatMap]
      constructor
      · intro kv hkv
        have := ih kv (hmem kv hkv) (hbr kv (hmem kv hkv)).2
        rw [List.map_map]
        rw [List.pairwise_map] at this ⊢
        apply this.imp
        intro x y hxy
        simpa using pathLt_append_left kv.1 hxy
      · apply List.Pairwise.imp_of_mem _ hso
        intro a b ha hb hab x hx y hy
        simp only [List.map_map, List.mem_map, Function.comp] at hx hy
        obtain ⟨rx, _, rfl⟩ := hx
        obtain ⟨ry, _, rfl⟩ := hy
        have ha0 := (hbr a (hmem a ha)).1
        have hb0 := (hbr b (hmem b hb)).1
        obtain ⟨hle, hne⟩ := hab
        cases hka : a.1 with
        | nil => exact absurd hka ha0
        | cons p ps =>
          cases hkb : b.1 with
          | nil => exact absurd hkb hb0
          | cons q qs =>
            have hpq : p ≠ q := by
              intro e; apply hne; simp [headOf, hka, hkb, e]
            rw [hka, hkb, keyLe_of_head_ne hpq] at hle
            simp only [List.flatten_cons, List.cons_append]
            refine ⟨by rw [keyLe_of_head_ne hpq]; exact hle, ?_⟩
            intro e
            injection e with e1 _
            exact hpq e1
    · intro a ha b hb
      cases val with
      | none => simp at ha
      | some v =>
        simp only [List.map_cons, List.map_nil, List.mem_singleton, List.flatten_nil] at ha
        subst ha
        simp only [List.map_flatMap, List.mem_flatMap, List.map_map, List.mem_map, Function.comp] at hb
        obtain ⟨kv, hkv, r, _, rfl⟩ := hb
        have hk0 := (hbr kv (hmem kv hkv)).1
        refine ⟨by simp [keyLe], ?_⟩
        intro e
        simp only [List.flatten_cons] at e
        exact hk0 (List.append_eq_nil_iff.1 e.symm).1

end C10T

/- The hypotheses of the wildcard theorems with repeated variables, bundled; the old class is part of the new one;
   concrete matchers with a repeated variable as non-vacuity examples. -/
import CLModel.Proofs.C12BNest
import CLModel.Proofs.C12RExample
namespace C12B
open Rx PM C11R

/-- What `C12.expand_match_backref_partial` asks of a matcher `m`, wildcard values `vs`, the group names `names` of its
    regular expression and the root text `rt` (as `C11R.Fillable`, with repeated variables allowed). -/
structure FillableB (vs : Nat → Text) (m : Matcher) (names : List Text) (rt : Text) : Prop where
  /-- the environment has the shape `Matcher(...)` builds: parsed unrooted patterns, no variable twice in one value -/
  env : EnvOK m.env
  /-- top-level nodes: literal, `*`, `**/`, final `**`, a fully bound variable, and further occurrences of such a variable -/
  cls : InClassB m.env [] m.pattern.nodes
  /-- `re.compile` accepts the pattern (distinct group names, F12); `names` are its group names -/
  compiles : ∃ re, m.regexOf = .ok (re, names)
  /-- the pattern does not use `{android_locale}` -/
  noAndroidGroup : androidName ∉ names
  /-- the root decision succeeds (F11) and gives `rt` -/
  root : rootOf (expandVal (fuelFor m.env)) m.pattern m.env = .ok rt
  /-- the filling is well separated (a repeated variable counts as the literal text of its expansion) -/
  sep : WellSepB vs m.env m.pattern.nodes

theorem inClassB_of_N {env : Env} : ∀ {ns : List Node} (kn : List Text), (∀ n ∈ ns, InClassN env n) → InClassB env kn ns
  | [], _, _ => trivial
  | c :: cs, kn, h => by
    have hc := h c (by simp)
    have hr : ∀ kn', InClassB env kn' cs := fun kn' => inClassB_of_N kn' (fun n hn => h n (by simp [hn]))
    cases c with
    | lit t => exact hr kn
    | star k => exact hr kn
    | starstar k sfx => exact ⟨hc, hr kn⟩
    | android r => exact absurd hc (by simp [InClassN])
    | var name rep =>
      obtain ⟨rfl, t, ht⟩ := hc
      exact ⟨⟨t, ht⟩, hr _⟩

theorem pieceOfB_of_N {vs : Nat → Text} {env : Env} : ∀ {ns : List Node}, (∀ n ∈ ns, InClassN env n) →
    ns.map (pieceOfB vs env) = ns.map (pieceOf vs env)
  | [], _ => rfl
  | c :: cs, h => by
    simp only [List.map_cons, pieceOfB_of_N (ns := cs) (fun n hn => h n (by simp [hn]))]
    congr 1
    cases c with
    | var name rep =>
      have hv : InClassN env (.var name rep) := h _ (by simp)
      obtain ⟨hrep, _⟩ := hv
      subst hrep
      rfl
    | _ => rfl

/-- the class of the earlier theorems is part of the class with repeated variables -/
theorem fillableB_of_fillable {vs : Nat → Text} {m : Matcher} {names : List Text} {rt : Text}
    (h : Fillable vs m names rt) : FillableB vs m names rt :=
  ⟨h.env, inClassB_of_N [] h.cls, h.compiles, h.noAndroidGroup, h.root, by
    unfold WellSepB; rw [pieceOfB_of_N h.cls]; exact h.sep⟩

/-- a pattern without wildcards is always well separated -/
theorem wellSepB_nowild {vs : Nat → Text} {env : Env} : ∀ {ns : List Node},
    (∀ n ∈ ns, (∀ k, n ≠ .star k) ∧ (∀ k sfx, n ≠ .starstar k sfx)) → WellSepB vs env ns
  | [], _ => trivial
  | c :: cs, h => by
    have ih := wellSepB_nowild (vs := vs) (env := env) (ns := cs) (fun n hn => h n (by simp [hn]))
    have hc := h c (by simp)
    unfold WellSepB at ih ⊢
    cases c with
    | lit t => exact ih
    | star k => exact absurd rfl (hc.1 k)
    | starstar k sfx => exact absurd rfl (hc.2 k sfx)
    | android r => exact ih
    | var name rep => cases rep <;> exact ih

/-! ### examples -/

/-- `Matcher("{l}a/{l}b/*.ftl", {"l": "l10n/"})` written out: the second `{l}` is a repeated variable -/
def repMatcher : Matcher :=
  { pattern := { nodes := [.var (T "l") false, .lit (T "a/"), .var (T "l") true, .lit (T "b/"), .star 1, .lit (T ".ftl")],
                 root := none, prefixLen := 4 },
    env := [(T "l", .pat { nodes := [.lit (T "l10n/")], root := none, prefixLen := 1 })] }

/-- `Matcher("l10n/{locale}/x/{locale}.ftl", {"locale": "de"})` written out -/
def locMatcher : Matcher :=
  { pattern := { nodes := [.lit (T "l10n/"), .var localeName false, .lit (T "/x/"), .var localeName true, .lit (T ".ftl")],
                 root := none, prefixLen := 5 },
    env := [(localeName, .pat { nodes := [.lit (T "de")], root := none, prefixLen := 1 })] }

def repVals : Nat → Text
  | 1 => T "c.d"
  | _ => []

theorem repMatcher_is : matcherOf "{l}a/{l}b/*.ftl" [("l", "l10n/")] none = .ok repMatcher :=
  matcherOf_is (by decide +kernel)

theorem locMatcher_is : matcherOf "l10n/{locale}/x/{locale}.ftl" [("locale", "de")] none = .ok locMatcher :=
  matcherOf_is (by decide +kernel)

theorem repMatcher_l (r : Bool) : expandNode (expandVal (fuelFor repMatcher.env)) (.var (T "l") r) repMatcher.env true =
    .ok (T "l10n/") := by cases r <;> exact okEq_spec (by decide +kernel)

theorem rep_varText (r : Bool) : varText repMatcher.env (.var (T "l") r) = T "l10n/" := by
  unfold varText; rw [repMatcher_l]

theorem rep_pieces : repMatcher.pattern.nodes.map (pieceOfB repVals repMatcher.env) =
    [Piece.grp (T "l10n/"), Piece.lit (T "a/"), Piece.lit (T "l10n/"), Piece.lit (T "b/"), Piece.star (T "c.d"),
      Piece.lit (T ".ftl")] := by
  have h1 := rep_varText false
  have h2 := rep_varText true
  simp only [repMatcher] at h1 h2
  simp only [repMatcher, List.map_cons, List.map_nil, pieceOfB, pieceOf, h1, h2]
  rfl

theorem repMatcher_ok : (∃ names, FillableB repVals repMatcher names []) ∧ Expandable repMatcher := by
  obtain ⟨re, names, hre, hna⟩ := regexOf_ok_of (m := repMatcher) (by decide +kernel)
  refine ⟨⟨names, ?_, ?_, ⟨re, hre⟩, hna, rfl, ?_⟩, ?_, keysOnce_of_nodup (by decide), ?_⟩
  · intro k v hm
    simp only [repMatcher, List.mem_singleton, Prod.mk.injEq] at hm
    obtain ⟨_, rfl⟩ := hm
    exact ⟨rfl, fun n hn => by simp only [List.mem_singleton] at hn; subst hn; trivial⟩
  · exact ⟨⟨_, repMatcher_l false⟩, by simp, trivial⟩
  · show PSep _
    rw [rep_pieces]
    refine ⟨?_, ?_, trivial⟩
    · decide
    · exact noLaterHit_of_first (by decide) (by decide)
  · intro k p hm n hn r
    simp only [repMatcher, List.mem_singleton, Prod.mk.injEq, Val.pat.injEq] at hm
    obtain ⟨_, rfl⟩ := hm
    simp only [List.mem_singleton] at hn
    subst hn; simp
  · intro k
    simp [repMatcher, List.lookup, sname, T]

theorem rep_fill : [] ++ fillN repVals repMatcher.env repMatcher.pattern.nodes = T "l10n/a/l10n/b/c.d.ftl" := by
  rw [← fillB_eq, rep_pieces]
  decide +kernel

theorem locMatcher_loc (r : Bool) : expandNode (expandVal (fuelFor locMatcher.env)) (.var localeName r) locMatcher.env true =
    .ok (T "de") := by cases r <;> exact okEq_spec (by decide +kernel)

theorem locMatcher_ok : (∃ names, FillableB repVals locMatcher names []) ∧ Expandable locMatcher := by
  obtain ⟨re, names, hre, hna⟩ := regexOf_ok_of (m := locMatcher) (by decide +kernel)
  refine ⟨⟨names, ?_, ?_, ⟨re, hre⟩, hna, rfl, ?_⟩, ?_, keysOnce_of_nodup (by decide), ?_⟩
  · intro k v hm
    simp only [locMatcher, List.mem_singleton, Prod.mk.injEq] at hm
    obtain ⟨_, rfl⟩ := hm
    exact ⟨rfl, fun n hn => by simp only [List.mem_singleton] at hn; subst hn; trivial⟩
  · exact ⟨⟨_, locMatcher_loc false⟩, by simp, trivial⟩
  · apply wellSepB_nowild
    intro n hn
    simp only [locMatcher, List.mem_cons, List.not_mem_nil, or_false] at hn
    rcases hn with rfl | rfl | rfl | rfl | rfl <;> exact ⟨fun _ h => (by cases h), fun _ _ h => (by cases h)⟩
  · intro k p hm n hn r
    simp only [locMatcher, List.mem_singleton, Prod.mk.injEq, Val.pat.injEq] at hm
    obtain ⟨_, rfl⟩ := hm
    simp only [List.mem_singleton] at hn
    subst hn; simp
  · intro k
    simp [locMatcher, List.lookup, sname, localeName]

theorem loc_fill : [] ++ fillN repVals locMatcher.env locMatcher.pattern.nodes = T "l10n/de/x/de.ftl" := by
  have h1 : varText locMatcher.env (.var localeName false) = T "de" := by unfold varText; rw [locMatcher_loc]
  have h2 : varText locMatcher.env (.var localeName true) = T "de" := by unfold varText; rw [locMatcher_loc]
  simp only [fillN, locMatcher, List.map_cons, List.map_nil, pieceOf] at *
  rw [h1, h2]
  decide +kernel

end C12B

/-
C05 — `Pipe.decode` (Parser.readFile: UTF-8 with errors="replace", universal newlines): what it guarantees.
Core Lean only.
-/
import CLModel.Compare.Decode
import CLModel.Proofs.C05Dtd
namespace C05Dec
open Pipe C05Dtd

/-! ### universal newlines -/

theorem mem_universalNewlines : ∀ (t : List Nat) (c : Nat), c ∈ universalNewlines t → (c ∈ t ∧ c ≠ 13) ∨ c = 10 := by
  intro t
  fun_induction universalNewlines t with
  | case1 => intro c hc; cases hc
  | case2 rest ih =>
    intro c hc
    simp only [List.mem_cons] at hc
    rcases hc with rfl | hc
    · exact Or.inr rfl
    · rcases ih c hc with ⟨h1, h2⟩ | h
      · exact Or.inl ⟨by simp [h1], h2⟩
      · exact Or.inr h
  | case3 rest _ ih =>
    intro c hc
    simp only [List.mem_cons] at hc
    rcases hc with rfl | hc
    · exact Or.inr rfl
    · rcases ih c hc with ⟨h1, h2⟩ | h
      · exact Or.inl ⟨by simp [h1], h2⟩
      · exact Or.inr h
  | case4 c' rest _ h13 ih =>
    intro c hc
    simp only [List.mem_cons] at hc
    rcases hc with rfl | hc
    · exact Or.inl ⟨by simp, fun h => h13 h⟩
    · rcases ih c hc with ⟨h1, h2⟩ | h
      · exact Or.inl ⟨by simp [h1], h2⟩
      · exact Or.inr h

/-- **universal newlines**: no carriage return survives (`"\r\n"` and every lone `"\r"` have become `"\n"`) -/
theorem universalNewlines_no_cr (t : List Nat) : 13 ∉ universalNewlines t := by
  intro h
  rcases mem_universalNewlines t 13 h with ⟨_, h2⟩ | h
  · exact h2 rfl
  · cases h

/-- a text without carriage returns is left alone -/
theorem universalNewlines_id : ∀ (t : List Nat), 13 ∉ t → universalNewlines t = t := by
  intro t
  fun_induction universalNewlines t with
  | case1 => intro _; rfl
  | case2 rest ih => intro h; simp at h
  | case3 rest _ ih => intro h; simp at h
  | case4 c rest _ _ ih =>
    intro h
    simp only [List.mem_cons, not_or] at h
    rw [ih h.2]

/-! ### one step of the UTF-8 decoder -/

/-- what the decoder does at the front of a non-empty input: it either takes the UTF-8 encoding of ONE scalar value
    and yields that value, or it replaces `k` bytes (1 ≤ k ≤ 3: the lead byte and the continuation bytes accepted so
    far) by ONE U+FFFD and goes on right after them — no byte is dropped without a trace -/
inductive Step (r : List Nat) : Prop
  | valid (c : Nat) (e tail : List Nat) (hs : Scalar c) (he : Dtd.utf8Char c = some e) (hr : r = e ++ tail)
      (hd : utf8Decode r = c :: utf8Decode tail)
  | error (k : Nat) (h1 : 1 ≤ k) (h3 : k ≤ 3) (hk : k ≤ r.length) (hd : utf8Decode r = 0xFFFD :: utf8Decode (r.drop k))

theorem cont_bounds {b : Nat} (h : isCont b = true) : 0x80 ≤ b ∧ b ≤ 0xBF := by
  simpa [isCont] using h

theorem enc2 (b b2 : Nat) (h1 : 0xC2 ≤ b) (h2 : b < 0xE0) (h3 : isCont b2 = true) :
    Scalar ((b - 0xC0) * 64 + (b2 - 0x80)) ∧ Dtd.utf8Char ((b - 0xC0) * 64 + (b2 - 0x80)) = some [b, b2] := by
  have := cont_bounds h3
  refine ⟨by unfold Scalar; omega, ?_⟩
  unfold Dtd.utf8Char
  have a1 : ¬ ((b - 0xC0) * 64 + (b2 - 0x80) < 0x80) := by omega
  have a2 : (b - 0xC0) * 64 + (b2 - 0x80) < 0x800 := by omega
  simp only [a1, a2, if_false, if_true, Option.some.injEq, List.cons.injEq, and_true]
  constructor <;> omega

theorem enc3 (b b2 b3 : Nat) (h1 : 0xE0 ≤ b) (h2 : b < 0xF0) (h3 : isCont b2 = true) (h4 : isCont b3 = true)
    (hE0 : b = 0xE0 → 0xA0 ≤ b2) (hED : b = 0xED → b2 < 0xA0) :
    Scalar ((b - 0xE0) * 4096 + (b2 - 0x80) * 64 + (b3 - 0x80)) ∧
      Dtd.utf8Char ((b - 0xE0) * 4096 + (b2 - 0x80) * 64 + (b3 - 0x80)) = some [b, b2, b3] := by
  have := cont_bounds h3
  have := cont_bounds h4
  have hsur : ¬ (0xD800 ≤ (b - 0xE0) * 4096 + (b2 - 0x80) * 64 + (b3 - 0x80) ∧
      (b - 0xE0) * 4096 + (b2 - 0x80) * 64 + (b3 - 0x80) ≤ 0xDFFF) := by
    by_cases hb : b = 0xED
    · have := hED hb; omega
    · omega
  refine ⟨by unfold Scalar; exact ⟨by omega, hsur⟩, ?_⟩
  unfold Dtd.utf8Char
  have a1 : ¬ ((b - 0xE0) * 4096 + (b2 - 0x80) * 64 + (b3 - 0x80) < 0x80) := by
    by_cases hb : b = 0xE0
    · have := hE0 hb; omega
    · omega
  have a2 : ¬ ((b - 0xE0) * 4096 + (b2 - 0x80) * 64 + (b3 - 0x80) < 0x800) := by
    by_cases hb : b = 0xE0
    · have := hE0 hb; omega
    · omega
  have a3 : (0xD800 ≤ (b - 0xE0) * 4096 + (b2 - 0x80) * 64 + (b3 - 0x80) &&
      (b - 0xE0) * 4096 + (b2 - 0x80) * 64 + (b3 - 0x80) ≤ 0xDFFF) = false := by
    simpa using fun h => by omega
  have a4 : (b - 0xE0) * 4096 + (b2 - 0x80) * 64 + (b3 - 0x80) < 0x10000 := by omega
  simp only [a1, a2, a3, a4, if_false, if_true, Bool.false_eq_true, Option.some.injEq, List.cons.injEq, and_true]
  refine ⟨?_, ?_, ?_⟩ <;> omega

theorem enc4 (b b2 b3 b4 : Nat) (h1 : 0xF0 ≤ b) (h2 : b < 0xF5) (h3 : isCont b2 = true) (h4 : isCont b3 = true)
    (h5 : isCont b4 = true) (hF0 : b = 0xF0 → 0x90 ≤ b2) (hF4 : b = 0xF4 → b2 < 0x90) :
    Scalar ((b - 0xF0) * 262144 + (b2 - 0x80) * 4096 + (b3 - 0x80) * 64 + (b4 - 0x80)) ∧
      Dtd.utf8Char ((b - 0xF0) * 262144 + (b2 - 0x80) * 4096 + (b3 - 0x80) * 64 + (b4 - 0x80)) = some [b, b2, b3, b4] := by
  have := cont_bounds h3
  have := cont_bounds h4
  have := cont_bounds h5
  have lo : 0x10000 ≤ (b - 0xF0) * 262144 + (b2 - 0x80) * 4096 + (b3 - 0x80) * 64 + (b4 - 0x80) := by
    by_cases hb : b = 0xF0
    · have := hF0 hb; omega
    · omega
  have hi : (b - 0xF0) * 262144 + (b2 - 0x80) * 4096 + (b3 - 0x80) * 64 + (b4 - 0x80) < 0x110000 := by
    by_cases hb : b = 0xF4
    · have := hF4 hb; omega
    · omega
  refine ⟨by unfold Scalar; omega, ?_⟩
  unfold Dtd.utf8Char
  have a1 : ¬ ((b - 0xF0) * 262144 + (b2 - 0x80) * 4096 + (b3 - 0x80) * 64 + (b4 - 0x80) < 0x80) := by omega
  have a2 : ¬ ((b - 0xF0) * 262144 + (b2 - 0x80) * 4096 + (b3 - 0x80) * 64 + (b4 - 0x80) < 0x800) := by omega
  have a3 : (0xD800 ≤ (b - 0xF0) * 262144 + (b2 - 0x80) * 4096 + (b3 - 0x80) * 64 + (b4 - 0x80) &&
      (b - 0xF0) * 262144 + (b2 - 0x80) * 4096 + (b3 - 0x80) * 64 + (b4 - 0x80) ≤ 0xDFFF) = false := by
    simpa using fun h => by omega
  have a4 : ¬ ((b - 0xF0) * 262144 + (b2 - 0x80) * 4096 + (b3 - 0x80) * 64 + (b4 - 0x80) < 0x10000) := by omega
  simp only [a1, a2, a3, a4, hi, if_false, if_true, Bool.false_eq_true, Option.some.injEq, List.cons.injEq, and_true]
  refine ⟨?_, ?_, ?_, ?_⟩ <;> omega

theorem step_cases (b : Nat) (rest : List Nat) : Step (b :: rest) := by
  by_cases h1 : b < 0x80
  · refine .valid b [b] rest (by unfold Scalar; omega) (by simp [Dtd.utf8Char, h1]) rfl ?_
    conv => lhs; unfold utf8Decode
    simp [h1]
  by_cases h2 : b < 0xC2
  · refine .error 1 (by omega) (by omega) (by simp) ?_
    conv => lhs; unfold utf8Decode
    simp [h1, h2]
  by_cases h3 : b < 0xE0
  · cases rest with
    | nil =>
      refine .error 1 (by omega) (by omega) (by simp) ?_
      conv => lhs; unfold utf8Decode
      simp [h1, h2, h3, utf8Decode]
    | cons b2 r2 =>
      by_cases hc : isCont b2 = true
      · obtain ⟨hs, he⟩ := enc2 b b2 (by omega) h3 hc
        refine .valid _ [b, b2] r2 hs he rfl ?_
        conv => lhs; unfold utf8Decode
        simp [h1, h2, h3, hc]
      · refine .error 1 (by omega) (by omega) (by simp) ?_
        conv => lhs; unfold utf8Decode
        simp [h1, h2, h3, hc]
  by_cases h4 : b < 0xF0
  · cases rest with
    | nil =>
      refine .error 1 (by omega) (by omega) (by simp) ?_
      conv => lhs; unfold utf8Decode
      simp [h1, h2, h3, h4, utf8Decode]
    | cons b2 r2 =>
      by_cases hbad : (!isCont b2 || (if b2 < 0xA0 then b == 0xE0 else b == 0xED)) = true
      · refine .error 1 (by omega) (by omega) (by simp) ?_
        conv => lhs; unfold utf8Decode
        simp only [h1, h2, h3, h4, if_false, if_true, hbad]
        simp
      · have hc2 : isCont b2 = true := by
          cases hx : isCont b2 <;> simp_all
        have hE0 : b = 0xE0 → 0xA0 ≤ b2 := by
          intro hb; subst hb
          by_cases hlt : b2 < 0xA0
          · simp [hc2, hlt] at hbad
          · omega
        have hED : b = 0xED → b2 < 0xA0 := by
          intro hb; subst hb
          by_cases hlt : b2 < 0xA0
          · exact hlt
          · simp [hc2, hlt] at hbad
        cases r2 with
        | nil =>
          refine .error 2 (by omega) (by omega) (by simp) ?_
          conv => lhs; unfold utf8Decode
          simp only [h1, h2, h3, h4, if_false, if_true, hbad]
          simp [utf8Decode]
        | cons b3 r3 =>
          by_cases hc3 : isCont b3 = true
          · obtain ⟨hs, he⟩ := enc3 b b2 b3 (by omega) h4 hc2 hc3 hE0 hED
            refine .valid _ [b, b2, b3] r3 hs he rfl ?_
            conv => lhs; unfold utf8Decode
            simp only [h1, h2, h3, h4, if_false, if_true, hbad, hc3]
            simp
          · refine .error 2 (by omega) (by omega) (by simp) ?_
            conv => lhs; unfold utf8Decode
            simp only [h1, h2, h3, h4, if_false, if_true, hbad, hc3]
            simp
  by_cases h5 : b < 0xF5
  · cases rest with
    | nil =>
      refine .error 1 (by omega) (by omega) (by simp) ?_
      conv => lhs; unfold utf8Decode
      simp [h1, h2, h3, h4, h5, utf8Decode]
    | cons b2 r2 =>
      by_cases hbad : (!isCont b2 || (if b2 < 0x90 then b == 0xF0 else b == 0xF4)) = true
      · refine .error 1 (by omega) (by omega) (by simp) ?_
        conv => lhs; unfold utf8Decode
        simp only [h1, h2, h3, h4, h5, if_false, if_true, hbad]
        simp
      · have hc2 : isCont b2 = true := by
          cases hx : isCont b2 <;> simp_all
        have hF0 : b = 0xF0 → 0x90 ≤ b2 := by
          intro hb; subst hb
          by_cases hlt : b2 < 0x90
          · simp [hc2, hlt] at hbad
          · omega
        have hF4 : b = 0xF4 → b2 < 0x90 := by
          intro hb; subst hb
          by_cases hlt : b2 < 0x90
          · exact hlt
          · simp [hc2, hlt] at hbad
        cases r2 with
        | nil =>
          refine .error 2 (by omega) (by omega) (by simp) ?_
          conv => lhs; unfold utf8Decode
          simp only [h1, h2, h3, h4, h5, if_false, if_true, hbad]
          simp [utf8Decode]
        | cons b3 r3 =>
          by_cases hc3 : isCont b3 = true
          · cases r3 with
            | nil =>
              refine .error 3 (by omega) (by omega) (by simp) ?_
              conv => lhs; unfold utf8Decode
              simp only [h1, h2, h3, h4, h5, if_false, if_true, hbad, hc3]
              simp [utf8Decode]
            | cons b4 r4 =>
              by_cases hc4 : isCont b4 = true
              · obtain ⟨hs, he⟩ := enc4 b b2 b3 b4 (by omega) h5 hc2 hc3 hc4 hF0 hF4
                refine .valid _ [b, b2, b3, b4] r4 hs he rfl ?_
                conv => lhs; unfold utf8Decode
                simp only [h1, h2, h3, h4, h5, if_false, if_true, hbad, hc3, hc4]
                simp
              · refine .error 3 (by omega) (by omega) (by simp) ?_
                conv => lhs; unfold utf8Decode
                simp only [h1, h2, h3, h4, h5, if_false, if_true, hbad, hc3, hc4]
                simp
          · refine .error 2 (by omega) (by omega) (by simp) ?_
            conv => lhs; unfold utf8Decode
            simp only [h1, h2, h3, h4, h5, if_false, if_true, hbad, hc3]
            simp
  · refine .error 1 (by omega) (by omega) (by simp) ?_
    conv => lhs; unfold utf8Decode
    simp [h1, h2, h3, h4, h5]

/-! ### consequences -/

theorem utf8Char_ne_nil {c : Nat} {e : List Nat} (h : Dtd.utf8Char c = some e) : e ≠ [] := by
  unfold Dtd.utf8Char at h
  repeat' split at h
  all_goals cases h
  all_goals simp

/-- `Step` as an induction principle on the length of the input -/
theorem decode_induction (Q : List Nat → Prop) (hnil : Q [])
    (hvalid : ∀ c e tail, Scalar c → Dtd.utf8Char c = some e → utf8Decode (e ++ tail) = c :: utf8Decode tail →
      Q tail → Q (e ++ tail))
    (herror : ∀ r k, r ≠ [] → 1 ≤ k → k ≤ 3 → k ≤ r.length → utf8Decode r = 0xFFFD :: utf8Decode (r.drop k) →
      Q (r.drop k) → Q r) : ∀ bs, Q bs := by
  intro bs
  generalize hn : bs.length = n
  induction n using Nat.strongRecOn generalizing bs with
  | _ n ih =>
    cases bs with
    | nil => exact hnil
    | cons b rest =>
      cases step_cases b rest with
      | valid c e tail hs he hr hd =>
        rw [hr] at hd ⊢
        have hne := utf8Char_ne_nil he
        have hlen : tail.length < n := by
          have : (e ++ tail).length = n := by rw [← hr]; exact hn
          have : 0 < e.length := List.length_pos_iff.2 hne
          simp only [List.length_append] at *
          omega
        exact hvalid c e tail hs he hd (ih _ hlen tail rfl)
      | error k h1 h3 hk hd =>
        have hlen : ((b :: rest).drop k).length < n := by
          simp only [List.length_drop]
          omega
        exact herror _ k (by simp) h1 h3 hk hd (ih _ hlen _ rfl)

/-- the decoder yields Unicode scalar values only: no surrogate, nothing beyond U+10FFFF -/
theorem utf8Decode_scalar : ∀ bs, ScalarText (utf8Decode bs) := by
  apply decode_induction
  · intro c hc; simp [utf8Decode] at hc
  · intro c e tail hs _ hd ih x hx
    rw [hd] at hx
    simp only [List.mem_cons] at hx
    rcases hx with rfl | hx
    · exact hs
    · exact ih x hx
  · intro r k _ _ _ _ hd ih x hx
    rw [hd] at hx
    simp only [List.mem_cons] at hx
    rcases hx with rfl | hx
    · decide
    · exact ih x hx

/-- **what `Parser.readFile` leaves in `ctx.contents` holds scalar values only** (so `str.encode("utf-8")` in the DTD
    checker cannot raise on a text read from a file) … -/
theorem decode_scalar (bs : List Nat) : ScalarText (decode bs) := by
  intro c hc
  rcases mem_universalNewlines _ c hc with ⟨h, _⟩ | rfl
  · exact utf8Decode_scalar bs c h
  · decide

/-- … **and no carriage return** (universal newlines) -/
theorem decode_no_cr (bs : List Nat) : 13 ∉ decode bs := universalNewlines_no_cr _

/-- **no U+FFFD in the decoded text ⇒ the bytes were well-formed UTF-8**, namely the encoding of that text.
    Contrapositive: every ill-formed byte string yields at least one U+FFFD. -/
theorem wellformed_of_no_ufffd : ∀ bs, 0xFFFD ∉ utf8Decode bs → Dtd.utf8 (utf8Decode bs) = some bs := by
  apply decode_induction
  · intro _; simp [utf8Decode, Dtd.utf8]
  · intro c e tail _ he hd ih hno
    rw [hd] at hno ⊢
    simp only [List.mem_cons, not_or] at hno
    simp [Dtd.utf8, he, ih hno.2]
  · intro r k _ _ _ _ hd _ hno
    rw [hd] at hno
    simp at hno

theorem ufffd_of_illformed (bs : List Nat) (h : ∀ t, Dtd.utf8 t ≠ some bs) : 0xFFFD ∈ utf8Decode bs := by
  by_cases hm : 0xFFFD ∈ utf8Decode bs
  · exact hm
  · exact absurd (wellformed_of_no_ufffd bs hm) (h _)

/-! ### decoding inverts encoding -/

theorem dec_char (c : Nat) (e tail : List Nat) (h : Dtd.utf8Char c = some e) :
    utf8Decode (e ++ tail) = c :: utf8Decode tail := by
  unfold Dtd.utf8Char at h
  by_cases h1 : c < 0x80
  · simp only [h1, if_true, Option.some.injEq] at h
    subst h
    conv => lhs; unfold utf8Decode
    simp [h1]
  by_cases h2 : c < 0x800
  · simp only [h1, h2, if_true, if_false, Option.some.injEq] at h
    subst h
    have a1 : ¬ (0xC0 + c / 64 < 0x80) := by omega
    have a2 : ¬ (0xC0 + c / 64 < 0xC2) := by omega
    have a3 : 0xC0 + c / 64 < 0xE0 := by omega
    have a4 : isCont (0x80 + c % 64) = true := by simp [isCont]; omega
    simp only [List.cons_append, List.nil_append]
    conv => lhs; unfold utf8Decode
    simp only [a1, a2, a3, a4, if_false, if_true]
    simp only [List.cons.injEq, and_true]
    omega
  by_cases hs : (0xD800 ≤ c && c ≤ 0xDFFF) = true
  · simp [h1, h2, hs] at h
  have hs' : ¬ (0xD800 ≤ c ∧ c ≤ 0xDFFF) := by simpa using hs
  by_cases h3 : c < 0x10000
  · simp only [h1, h2, hs, h3, if_true, if_false, Bool.false_eq_true, Option.some.injEq] at h
    subst h
    have a1 : ¬ (0xE0 + c / 4096 < 0x80) := by omega
    have a2 : ¬ (0xE0 + c / 4096 < 0xC2) := by omega
    have a3 : ¬ (0xE0 + c / 4096 < 0xE0) := by omega
    have a4 : 0xE0 + c / 4096 < 0xF0 := by omega
    have a5 : isCont (0x80 + c / 64 % 64) = true := by simp [isCont]; omega
    have a6 : isCont (0x80 + c % 64) = true := by simp [isCont]; omega
    have a7 : (!isCont (0x80 + c / 64 % 64) ||
        (if 0x80 + c / 64 % 64 < 0xA0 then 0xE0 + c / 4096 == 0xE0 else 0xE0 + c / 4096 == 0xED)) = false := by
      rw [a5]
      by_cases hlt : 0x80 + c / 64 % 64 < 0xA0
      · simp only [hlt, if_true, Bool.not_true, Bool.false_or, beq_eq_false_iff_ne, ne_eq]; omega
      · simp only [hlt, if_false, Bool.not_true, Bool.false_or, beq_eq_false_iff_ne, ne_eq]; omega
    simp only [List.cons_append, List.nil_append]
    conv => lhs; unfold utf8Decode
    simp only [a1, a2, a3, a4, a6, a7, if_false, if_true, Bool.false_eq_true]
    simp only [List.cons.injEq, and_true]
    omega
  by_cases h4 : c < 0x110000
  · simp only [h1, h2, hs, h3, h4, if_true, if_false, Bool.false_eq_true, Option.some.injEq] at h
    subst h
    have a1 : ¬ (0xF0 + c / 262144 < 0x80) := by omega
    have a2 : ¬ (0xF0 + c / 262144 < 0xC2) := by omega
    have a3 : ¬ (0xF0 + c / 262144 < 0xE0) := by omega
    have a4 : ¬ (0xF0 + c / 262144 < 0xF0) := by omega
    have a4' : 0xF0 + c / 262144 < 0xF5 := by omega
    have a5 : isCont (0x80 + c / 4096 % 64) = true := by simp [isCont]; omega
    have a6 : isCont (0x80 + c / 64 % 64) = true := by simp [isCont]; omega
    have a6' : isCont (0x80 + c % 64) = true := by simp [isCont]; omega
    have a7 : (!isCont (0x80 + c / 4096 % 64) ||
        (if 0x80 + c / 4096 % 64 < 0x90 then 0xF0 + c / 262144 == 0xF0 else 0xF0 + c / 262144 == 0xF4)) = false := by
      rw [a5]
      by_cases hlt : 0x80 + c / 4096 % 64 < 0x90
      · simp only [hlt, if_true, Bool.not_true, Bool.false_or, beq_eq_false_iff_ne, ne_eq]; omega
      · simp only [hlt, if_false, Bool.not_true, Bool.false_or, beq_eq_false_iff_ne, ne_eq]; omega
    simp only [List.cons_append, List.nil_append]
    conv => lhs; unfold utf8Decode
    simp only [a1, a2, a3, a4, a4', a6, a6', a7, if_false, if_true, Bool.false_eq_true, Bool.not_true]
    simp only [List.cons.injEq, and_true]
    omega
  · simp [h1, h2, hs, h3, h4] at h

/-- a well-formed prefix is decoded to the text it encodes, whatever follows -/
theorem decode_valid_prefix : ∀ (t : List Nat) (e r : List Nat), Dtd.utf8 t = some e → utf8Decode (e ++ r) = t ++ utf8Decode r
  | [], e, r, h => by simp [Dtd.utf8] at h; subst h; rfl
  | c :: cs, e, r, h => by
    simp only [Dtd.utf8] at h
    cases hc : Dtd.utf8Char c with
    | none => simp [hc] at h
    | some a =>
      cases hcs : Dtd.utf8 cs with
      | none => simp [hc, hcs] at h
      | some b =>
        simp only [hc, hcs, Option.some.injEq] at h
        subst h
        rw [List.append_assoc, dec_char c a (b ++ r) hc, decode_valid_prefix cs b r hcs]
        rfl

/-- **decoding inverts encoding**: the UTF-8 encoding of a text (one exists iff the text is scalar) decodes to it -/
theorem decode_encode (t e : List Nat) (h : Dtd.utf8 t = some e) : utf8Decode e = t := by
  have := decode_valid_prefix t e [] h
  simpa [utf8Decode] using this

/-- **every ill-formed sequence yields a U+FFFD at its place**: after a well-formed prefix `e` (encoding `t`), if the
    rest `r` does not start with the encoding of a scalar value, the decoded text is `t`, then U+FFFD for the first
    1 to 3 bytes of `r`, then the decoding of what follows them -/
theorem invalid_yields_ufffd (t e r : List Nat) (h : Dtd.utf8 t = some e) (hr : r ≠ [])
    (hbad : ¬ ∃ c ec tail, Dtd.utf8Char c = some ec ∧ r = ec ++ tail) :
    ∃ k, 1 ≤ k ∧ k ≤ 3 ∧ k ≤ r.length ∧ utf8Decode (e ++ r) = t ++ 0xFFFD :: utf8Decode (r.drop k) := by
  rw [decode_valid_prefix t e r h]
  cases r with
  | nil => exact absurd rfl hr
  | cons b rest =>
    cases step_cases b rest with
    | valid c ec tail _ he hrr _ => exact absurd ⟨c, ec, tail, he, hrr⟩ hbad
    | error k h1 h3 hk hd => exact ⟨k, h1, h3, hk, by rw [hd]⟩

end C05Dec

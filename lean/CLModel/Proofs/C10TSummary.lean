/-
Helper lemmas for the text renderings of C10 (core Lean only): `ObserverList.serializeSummaries`.

* `natText_digits`, `cell_*`  — the `" {:6}"` cells
* `sortLocales_*`             — `sorted(summaries.items())`: total exactly when `None` and `str` locales are not mixed
* `columns`, `block`          — the columns of one locale and the lines printed for it
* `serializeSummaries_ok/_typeError/_indexError`
* `run_locales`               — the locales of a summary come from the files of the history
-/
import CLModel.Compare.Tree
import CLModel.Compare.Observer
import CLModel.Proofs.C10Obs
import CLModel.Proofs.C10TOrder
import CLModel.Proofs.C10TText
namespace C10T
open TreeM ObsM

/-! ### decimal numbers and cells -/

/-- `str(n)`: a non-empty string of ASCII digits -/
theorem natText_digits (n : Nat) : natText n ≠ [] ∧ ∀ c ∈ natText n, 48 ≤ c ∧ c ≤ 57 := by
  unfold natText ofString
  rw [Nat.toString_eq_repr, Nat.toList_repr]
  refine ⟨by simp [Nat.toDigits_ne_nil], ?_⟩
  intro c hc
  simp only [List.mem_map] at hc
  obtain ⟨ch, hch, rfl⟩ := hc
  have := Nat.isDigit_of_mem_toDigits (by decide) (by decide) hch
  simp only [Char.isDigit, Bool.and_eq_true, decide_eq_true_eq] at this
  simp only [Char.toNat]
  have h1 := UInt32.le_iff_toNat_le.1 this.1
  have h2 := UInt32.le_iff_toNat_le.1 this.2
  simpa using And.intro h1 h2

/-- `str(n)` has at most `k` characters iff `n < 10^k` -/
theorem natText_length_le (n k : Nat) (hk : 0 < k) : (natText n).length ≤ k ↔ n < 10 ^ k := by
  unfold natText ofString
  rw [Nat.toString_eq_repr, List.length_map, ← Nat.length_repr_le_iff hk]
  rfl

/-- the decimal digits of `str(n)` denote `n` -/
theorem natText_value (n : Nat) : Nat.ofDigitChars 10 (toString n).toList 0 = n := by
  rw [Nat.toString_eq_repr, Nat.toList_repr]; exact Nat.ofDigitChars_ten_toDigits

theorem nonBlank_spaces (n : Nat) : nonBlank (spaces n) = false := by
  simp [nonBlank, spaces]

theorem nonBlank_append (a b : Text) : nonBlank (a ++ b) = (nonBlank a || nonBlank b) := by
  simp [nonBlank]

theorem nonBlank_natText (n : Nat) : nonBlank (natText n) = true := by
  obtain ⟨hne, hd⟩ := natText_digits n
  cases h : natText n with
  | nil => exact absurd h hne
  | cons c cs =>
    have := hd c (by rw [h]; simp)
    have hc : (c != 32) = true := by simp; omega
    simp [nonBlank, hc]

/-- the value a column shows for a key (`summary.get(key)`, with `{}` for a project that does not know the locale) -/
def counterOf (c : Option Counters) (k : StatKey) : Nat :=
  match c with
  | some c => c k
  | none => 0

/-- a cell is blank exactly for a zero or missing counter (`summary.get(key) or ""`) -/
theorem nonBlank_cell (c : Option Counters) (k : StatKey) :
    nonBlank (cell (c.map (· k))) = (counterOf c k != 0) := by
  cases c with
  | none => simp [cell, counterOf, nonBlank_spaces]
  | some cs =>
    simp only [Option.map_some, cell, counterOf]
    by_cases h0 : cs k = 0
    · simp [h0, nonBlank_spaces]
    · have : (cs k == 0) = false := by simpa using h0
      simp only [this, Bool.false_eq_true, ↓reduceIte]
      rw [show (32 :: (spaces (6 - (natText (cs k)).length) ++ natText (cs k)))
        = spaces 1 ++ (spaces (6 - (natText (cs k)).length) ++ natText (cs k)) from rfl]
      simp [nonBlank_append, nonBlank_spaces, nonBlank_natText, h0]

/-- `" {:6}".format(n)`: seven characters for `0 < n < 10^6`, the number right-aligned; blank for zero / missing -/
theorem cell_shape (v : Option Nat) :
    (match v with
      | some n => if n = 0 then cell v = spaces 7
          else cell v = spaces (7 - (natText n).length) ++ natText n ∨ (10 ^ 6 ≤ n ∧ cell v = 32 :: natText n)
      | none => cell v = spaces 7) := by
  cases v with
  | none => rfl
  | some n =>
    by_cases h0 : n = 0
    · simp [h0, cell]
    · have hb : (n == 0) = false := by simpa using h0
      simp only [h0, ↓reduceIte, cell, hb, Bool.false_eq_true]
      by_cases hlt : n < 10 ^ 6
      · left
        have hl := (natText_length_le n 6 (by decide)).2 hlt
        have : 7 - (natText n).length = (6 - (natText n).length) + 1 := by omega
        rw [this]
        simp [spaces, List.replicate_succ]
      · right
        refine ⟨by omega, ?_⟩
        have hl : ¬ (natText n).length ≤ 6 := fun h => hlt ((natText_length_le n 6 (by decide)).1 h)
        have : 6 - (natText n).length = 0 := by omega
        simp [this, spaces]

/-! ### `sorted(summaries.items())` -/

/-- Python's `<=` on the locales of a summary that can be sorted -/
def locLe : Option Text → Option Text → Prop
  | some a, some b => textLe a b = true
  | none, none => True
  | _, _ => False

theorem sortLocales_some {β : Type} (l : List (Option Text × β)) (h : ∀ p ∈ l, p.1 ≠ none) :
    ∃ s, sortLocales l = .ok s ∧ s.Perm l ∧ s.Pairwise (fun a b => locLe a.1 b.1) := by
  have hn : l.filter (·.1.isNone) = [] := by
    rw [List.filter_eq_nil_iff]
    intro p hp
    cases hp1 : p.1 with
    | none => exact absurd hp1 (h p hp)
    | some t => simp
  have hback : (l.filterMap (fun p => p.1.map (fun t => (t, p.2)))).map (fun p => (some p.1, p.2)) = l := by
    clear hn
    induction l with
    | nil => rfl
    | cons p rest ih =>
      obtain ⟨loc, b⟩ := p
      cases loc with
      | none => exact absurd rfl (h (none, b) (by simp))
      | some t =>
        simp only [List.filterMap_cons, Option.map_some, List.map_cons]
        rw [ih (fun x hx => h x (by simp [hx]))]
  refine ⟨_, by simp only [sortLocales, hn, List.isEmpty_nil, ↓reduceIte]; rfl, ?_, ?_⟩
  · have := (sortLoc_perm (l.filterMap (fun p => p.1.map (fun t => (t, p.2))))).map
      (fun p : Text × β => (some p.1, p.2))
    rw [hback] at this
    exact this
  · rw [List.pairwise_map]
    exact (sortLoc_sorted _).imp (fun h => h)

theorem sortLocales_none {β : Type} (l : List (Option Text × β)) (h : ∀ p ∈ l, p.1 = none) :
    sortLocales l = .ok l ∧ l.Pairwise (fun a b => locLe a.1 b.1) := by
  have hn : l.filter (·.1.isNone) = l := by
    rw [List.filter_eq_self]
    intro p hp
    simp [h p hp]
  have hs : l.filterMap (fun p => p.1.map (fun t => (t, p.2))) = [] := by
    rw [List.filterMap_eq_nil_iff]
    intro p hp
    simp [h p hp]
  constructor
  · cases l with
    | nil => rfl
    | cons p rest =>
      simp only [sortLocales, hn, hs]
      rfl
  · clear hn hs
    induction l with
    | nil => exact List.Pairwise.nil
    | cons p rest ih =>
      rw [List.pairwise_cons]
      refine ⟨?_, ih (fun x hx => h x (by simp [hx]))⟩
      intro q hq
      rw [h p (by simp), h q (by simp [hq])]
      trivial

/-- a `None` locale next to a `str` locale: `sorted` raises `TypeError` -/
theorem sortLocales_mixed {β : Type} (l : List (Option Text × β)) (h1 : ∃ p ∈ l, p.1 = none)
    (h2 : ∃ p ∈ l, p.1 ≠ none) : sortLocales l = .error .typeError := by
  obtain ⟨p, hp, hpn⟩ := h1
  obtain ⟨r, hr, hrn⟩ := h2
  have hn : (l.filter (·.1.isNone)).isEmpty = false := by
    cases hf : l.filter (·.1.isNone) with
    | nil =>
      have : p ∈ l.filter (·.1.isNone) := List.mem_filter.2 ⟨hp, by simp [hpn]⟩
      rw [hf] at this; cases this
    | cons _ _ => rfl
  have hs : (l.filterMap (fun p => p.1.map (fun t => (t, p.2)))).isEmpty = false := by
    cases hf : l.filterMap (fun p => p.1.map (fun t => (t, p.2))) with
    | nil =>
      cases hr1 : r.1 with
      | none => exact absurd hr1 hrn
      | some t =>
        have : (t, r.2) ∈ l.filterMap (fun p => p.1.map (fun t => (t, p.2))) :=
          List.mem_filterMap.2 ⟨r, hr, by simp [hr1]⟩
        rw [hf] at this; cases this
    | cons _ _ => rfl
  simp only [sortLocales, hn, hs, Bool.false_eq_true, ↓reduceIte]
  rfl

/-- sorting only looks at the locales -/
theorem insertLoc_map {β γ : Type} (f : β → γ) (x : Text × β) : ∀ l : List (Text × β),
    insertLoc (x.1, f x.2) (l.map (fun kv => (kv.1, f kv.2))) = (insertLoc x l).map (fun kv => (kv.1, f kv.2))
  | [] => rfl
  | y :: ys => by
    simp only [List.map_cons, insertLoc]
    split
    · simp
    · simp [insertLoc_map f x ys]

theorem sortLoc_map {β γ : Type} (f : β → γ) (l : List (Text × β)) :
    (l.map (fun kv => (kv.1, f kv.2))).foldr insertLoc [] = (l.foldr insertLoc []).map (fun kv => (kv.1, f kv.2)) := by
  induction l with
  | nil => rfl
  | cons x xs ih =>
    simp only [List.map_cons, List.foldr_cons, ih]
    exact insertLoc_map f x _

theorem strs_map {β γ : Type} (f : β → γ) : ∀ (l : List (Option Text × β)),
    (l.map (fun p => (p.1, f p.2))).filterMap (fun p => p.1.map (fun t => (t, p.2)))
      = (l.filterMap (fun p => p.1.map (fun t => (t, p.2)))).map (fun q => (q.1, f q.2))
  | [] => rfl
  | (none, b) :: rest => by simpa [List.filterMap_cons] using strs_map f rest
  | (some t, b) :: rest => by
    simp only [List.map_cons, List.filterMap_cons, Option.map_some, strs_map f rest]

theorem nones_map {β γ : Type} (f : β → γ) : ∀ (l : List (Option Text × β)),
    (l.map (fun p => (p.1, f p.2))).filter (·.1.isNone)
      = (l.filter (·.1.isNone)).map (fun p => (p.1, f p.2))
  | [] => rfl
  | (none, b) :: rest => by
    simp only [List.map_cons, List.filter_cons, Option.isNone_none, ↓reduceIte, nones_map f rest]
  | (some t, b) :: rest => by simpa [List.filter_cons] using nones_map f rest

theorem sortLocales_proj {β γ : Type} (f : β → γ) (l : List (Option Text × β)) :
    sortLocales (l.map (fun p => (p.1, f p.2)))
      = (sortLocales l).map (List.map (fun p => (p.1, f p.2))) := by
  have hstr := strs_map f l
  have hnone := nones_map f l
  simp only [sortLocales, hstr, hnone, List.isEmpty_map, sortLoc_map]
  by_cases h1 : (l.filter (·.1.isNone)).isEmpty = true
  · simp only [h1, ↓reduceIte, pure, Except.pure, Except.map, List.map_map]
    rfl
  · simp only [h1, Bool.false_eq_true, ↓reduceIte]
    by_cases h2 : (l.filterMap (fun p => p.1.map (fun t => (t, p.2)))).isEmpty = true
    · simp only [h2, ↓reduceIte, pure, Except.pure, Except.map]
    · simp only [h2, Bool.false_eq_true, ↓reduceIte]
      rfl

/-! ### one locale -/

/-- the columns printed for a locale: per project observer its counters for the locale (`{}` = `none` when the
    project has none), and the list's own counters when there is more than one project -/
def columns (l : ObsList) (loc : Option Text) (own : Counters) : List (Option Counters) :=
  l.observers.map (fun o => (o.summary.find? (·.1 == loc)).map (·.2)) ++
    (if l.observers.length > 1 then [some own] else [])

/-- `changed * 100 / (changed + unchanged + report + missing)`, rounded down (0 when nothing was counted) -/
def rateOf (c : Option Counters) : Nat :=
  counterOf c .changed * 100 /
    (counterOf c .changed + counterOf c .unchanged + counterOf c .report + counterOf c .missing)

theorem rateOf_le (c : Option Counters) : rateOf c ≤ 100 := by
  unfold rateOf
  apply Nat.div_le_of_le_mul
  apply Nat.mul_le_mul_right
  omega

/-- the lines printed for one locale: `locale:` (for a non-empty `str` locale), then for each of the ten keys, in the
    order of the code, for which some column is non-zero the left-aligned key followed by one cell per column,
    then the percentage computed from the last column -/
def block (loc : Option Text) (cols : List (Option Counters)) : List Text :=
  (match loc with
    | some t => if t ≠ [] then [t ++ [58]] else []
    | none => []) ++
  (summaryRows.filter (fun k => cols.any (fun c => counterOf c k != 0))).map
    (fun k => lead k ++ (cols.map (fun c => cell (c.map (· k)))).flatten) ++
  [natText (rateOf (cols.getLast?.bind id)) ++ ofString "% of entries changed"]

theorem nonBlank_row (cols : List (Option Counters)) (k : StatKey) :
    nonBlank (cols.map (fun c => cell (c.map (· k)))).flatten = cols.any (fun c => counterOf c k != 0) := by
  induction cols with
  | nil => rfl
  | cons c rest ih =>
    simp only [List.map_cons, List.flatten_cons, nonBlank_append, ih, nonBlank_cell, List.any_cons]

theorem filterMap_ite {α β : Type} (p : α → Bool) (f : α → β) : ∀ l : List α,
    l.filterMap (fun a => if p a = true then some (f a) else none) = (l.filter p).map f
  | [] => rfl
  | a :: l => by
    by_cases h : p a = true
    · simp [h, filterMap_ite p f l]
    · simp [h, filterMap_ite p f l]

theorem rate_if (a t : Nat) : (if (t == 0) = true then 0 else a / t) = a / t := by
  by_cases h : t = 0 <;> simp [h]

/-- the body of the loop over the sorted locales, as a function -/
def blockM (p : Option Text × List (Option Counters)) : Except PyErr (List Text) :=
  let head : List Text := match p.1 with
    | some loc => if !loc.isEmpty then [loc ++ [58]] else []
    | none => []
  let rows := summaryRows.filterMap (fun k =>
    let row := (p.2.map (fun s => cell (s.map (· k)))).flatten
    if nonBlank row then some (lead k ++ row) else none)
  match p.2.getLast? with
  | none => throw PyErr.indexError
  | some last =>
    let get (k : StatKey) : Nat := match last with | some c => c k | none => 0
    let total := get .changed + get .unchanged + get .report + get .missing
    let rate := if total == 0 then 0 else (get .changed * 100) / total
    pure (head ++ rows ++ [natText rate ++ ofString "% of entries changed"])

theorem serializeSummaries_eq (l : ObsList) :
    serializeSummaries l = (do
      let sorted ← sortLocales (l.own.summary.map (fun p => (p.1, columns l p.1 p.2)))
      let blocks ← sorted.mapM blockM
      pure (joinNl blocks.flatten)) := by
  have hcols : ∀ p : Option Text × Counters,
      (if l.observers.length > 1
        then l.observers.map (fun o => (o.summary.find? (·.1 == p.1)).map (·.2)) ++ [some p.2]
        else l.observers.map (fun o => (o.summary.find? (·.1 == p.1)).map (·.2))) = columns l p.1 p.2 := by
    intro p; unfold columns; split <;> simp
  unfold serializeSummaries
  simp only [hcols]
  rfl

theorem blockM_ok (loc : Option Text) (cols : List (Option Counters)) (hc : cols ≠ []) :
    blockM (loc, cols) = .ok (block loc cols) := by
  cases hl : cols.getLast? with
  | none => exact absurd (List.getLast?_eq_none_iff.1 hl) hc
  | some last =>
    simp only [blockM, hl, block, pure, Except.pure, Option.bind_some, id]
    have hrows : summaryRows.filterMap (fun k =>
          if nonBlank (cols.map (fun s => cell (s.map (· k)))).flatten = true
          then some (lead k ++ (cols.map (fun s => cell (s.map (· k)))).flatten) else none)
        = (summaryRows.filter (fun k => cols.any (fun c => counterOf c k != 0))).map
            (fun k => lead k ++ (cols.map (fun c => cell (c.map (· k)))).flatten) := by
      simp only [nonBlank_row]
      exact filterMap_ite _ _ _
    rw [hrows]
    have hhead : (match loc with
          | some loc => if (!loc.isEmpty) = true then [loc ++ [58]] else []
          | none => ([] : List Text))
        = (match loc with
          | some t => if t ≠ [] then [t ++ [58]] else []
          | none => []) := by
      cases loc with
      | none => rfl
      | some t => cases t <;> simp
    rw [hhead]
    rw [rate_if]
    unfold rateOf counterOf
    cases last <;> rfl

theorem blockM_indexError (loc : Option Text) : blockM (loc, []) = .error .indexError := rfl

theorem columns_ne_nil (l : ObsList) (h : l.observers ≠ []) (loc : Option Text) (own : Counters) :
    columns l loc own ≠ [] := by
  unfold columns
  cases ho : l.observers with
  | nil => exact absurd ho h
  | cons o rest => simp

theorem columns_nil (l : ObsList) (h : l.observers = []) (loc : Option Text) (own : Counters) :
    columns l loc own = [] := by
  simp [columns, h]

/-- the percentage is computed from the list's own counters when there are several projects, otherwise from
    those of the only project -/
theorem columns_last (l : ObsList) (loc : Option Text) (own : Counters) :
    (columns l loc own).getLast?.bind id =
      if l.observers.length > 1 then some own
      else (l.observers.getLast?.bind (fun o => (o.summary.find? (·.1 == loc)).map (·.2))) := by
  unfold columns
  by_cases h : l.observers.length > 1
  · simp [h, List.getLast?_append]
  · simp only [h, ↓reduceIte, List.append_nil, List.getLast?_map]
    cases l.observers.getLast? <;> rfl

/-! ### the whole text -/

/-- no `None` locale next to a `str` locale, and at least one project observer: `serializeSummaries` returns,
    one block per locale of the list's own summary, sorted by locale -/
theorem serializeSummaries_ok (l : ObsList) (hobs : l.observers ≠ [])
    (hloc : (∀ p ∈ l.own.summary, p.1 = none) ∨ (∀ p ∈ l.own.summary, p.1 ≠ none)) :
    ∃ order : List (Option Text × Counters),
      order.Perm l.own.summary ∧ order.Pairwise (fun a b => locLe a.1 b.1) ∧
      serializeSummaries l = .ok (joinNl (order.flatMap (fun p => block p.1 (columns l p.1 p.2)))) := by
  -- sort the summary itself: the columns are a function of the entry
  have hsort : ∃ order : List (Option Text × Counters), order.Perm l.own.summary ∧
      order.Pairwise (fun a b => locLe a.1 b.1) ∧
      sortLocales (l.own.summary.map (fun p => (p.1, columns l p.1 p.2)))
        = .ok (order.map (fun p => (p.1, columns l p.1 p.2))) := by
    rcases hloc with hn | hs
    · refine ⟨l.own.summary, List.Perm.refl _, (sortLocales_none _ hn).2, ?_⟩
      exact (sortLocales_none _ (by
        intro p hp
        simp only [List.mem_map] at hp
        obtain ⟨p0, hp0, rfl⟩ := hp
        exact hn p0 hp0)).1
    · -- sorting looks at the locales only: sort the pairs (locale, (counters, columns))
      obtain ⟨s, hs1, hs2, hs3⟩ := sortLocales_some
        (l.own.summary.map (fun p => (p.1, (p.2, columns l p.1 p.2)))) (by
          intro p hp
          simp only [List.mem_map] at hp
          obtain ⟨p0, hp0, rfl⟩ := hp
          exact hs p0 hp0)
      have hshape : ∀ x ∈ s, x.2.2 = columns l x.1 x.2.1 := by
        intro x hx
        have := hs2.mem_iff.1 hx
        simp only [List.mem_map] at this
        obtain ⟨p0, _, rfl⟩ := this
        rfl
      refine ⟨s.map (fun x => (x.1, x.2.1)), ?_, ?_, ?_⟩
      · have := hs2.map (fun x : Option Text × Counters × List (Option Counters) => (x.1, x.2.1))
        rw [List.map_map] at this
        have e : l.own.summary.map ((fun x : Option Text × Counters × List (Option Counters) => (x.1, x.2.1)) ∘
            fun p => (p.1, (p.2, columns l p.1 p.2))) = l.own.summary := by
          rw [show ((fun x : Option Text × Counters × List (Option Counters) => (x.1, x.2.1)) ∘
            fun p : Option Text × Counters => (p.1, (p.2, columns l p.1 p.2))) = id from rfl]
          simp
        rw [e] at this
        exact this
      · rw [List.pairwise_map]
        exact hs3.imp (fun h => h)
      · -- the same sort on the projected list
        have hproj := sortLocales_proj (fun (x : Counters × List (Option Counters)) => x.2)
          (l.own.summary.map (fun p => (p.1, (p.2, columns l p.1 p.2))))
        rw [hs1] at hproj
        simp only [List.map_map] at hproj
        have e1 : l.own.summary.map ((fun p : Option Text × Counters × List (Option Counters) => (p.1, p.2.2)) ∘
            fun p => (p.1, (p.2, columns l p.1 p.2))) = l.own.summary.map (fun p => (p.1, columns l p.1 p.2)) := rfl
        rw [e1] at hproj
        rw [hproj]
        simp only [Except.map, List.map_map]
        congr 1
        apply List.map_congr_left
        intro x hx
        simp only [Function.comp]
        rw [hshape x hx]
  obtain ⟨order, hperm, hsorted, hsort⟩ := hsort
  refine ⟨order, hperm, hsorted, ?_⟩
  rw [serializeSummaries_eq, hsort]
  simp only [bind, Except.bind]
  rw [mapM_ok (g := fun p : Option Text × List (Option Counters) => block p.1 p.2)]
  · simp only [pure, Except.pure, List.map_map, List.flatMap_def]
    rfl
  · intro p hp
    simp only [List.mem_map] at hp
    obtain ⟨p0, _, rfl⟩ := hp
    exact blockM_ok _ _ (columns_ne_nil l hobs _ _)

/-- a `None` locale next to a `str` locale in the list's own summary: `TypeError` (from `sorted`) -/
theorem serializeSummaries_typeError (l : ObsList) (h1 : ∃ p ∈ l.own.summary, p.1 = none)
    (h2 : ∃ p ∈ l.own.summary, p.1 ≠ none) : serializeSummaries l = .error .typeError := by
  rw [serializeSummaries_eq, sortLocales_mixed]
  · rfl
  · obtain ⟨p, hp, hn⟩ := h1
    exact ⟨_, List.mem_map.2 ⟨p, hp, rfl⟩, hn⟩
  · obtain ⟨p, hp, hn⟩ := h2
    exact ⟨_, List.mem_map.2 ⟨p, hp, rfl⟩, hn⟩

/-- no project observer but a counted locale: `IndexError` (from `summaries[-1]`) -/
theorem serializeSummaries_indexError (l : ObsList) (hobs : l.observers = []) (hne : l.own.summary ≠ [])
    (hloc : (∀ p ∈ l.own.summary, p.1 = none) ∨ (∀ p ∈ l.own.summary, p.1 ≠ none)) :
    serializeSummaries l = .error .indexError := by
  have hmap : l.own.summary.map (fun p => (p.1, columns l p.1 p.2)) = l.own.summary.map (fun p => (p.1, [])) :=
    List.map_congr_left (fun p _ => by rw [columns_nil l hobs])
  have hsort : ∃ s, sortLocales (l.own.summary.map (fun p => (p.1, ([] : List (Option Counters))))) = .ok s ∧
      s ≠ [] ∧ ∀ x ∈ s, x.2 = [] := by
    have hmem : ∀ s : List (Option Text × List (Option Counters)),
        s.Perm (l.own.summary.map (fun p => (p.1, ([] : List (Option Counters))))) → s ≠ [] ∧ ∀ x ∈ s, x.2 = [] := by
      intro s hs
      constructor
      · intro e
        subst e
        have := hs.length_eq
        simp only [List.length_nil, List.length_map] at this
        exact hne (List.eq_nil_of_length_eq_zero this.symm)
      · intro x hx
        have := hs.mem_iff.1 hx
        simp only [List.mem_map] at this
        obtain ⟨p0, _, rfl⟩ := this
        rfl
    rcases hloc with hn | hs
    · have := sortLocales_none (l.own.summary.map (fun p => (p.1, ([] : List (Option Counters))))) (by
        intro p hp
        simp only [List.mem_map] at hp
        obtain ⟨p0, hp0, rfl⟩ := hp
        exact hn p0 hp0)
      exact ⟨_, this.1, hmem _ (List.Perm.refl _)⟩
    · obtain ⟨s, e, hp, _⟩ := sortLocales_some (l.own.summary.map (fun p => (p.1, ([] : List (Option Counters))))) (by
        intro p hp
        simp only [List.mem_map] at hp
        obtain ⟨p0, hp0, rfl⟩ := hp
        exact hs p0 hp0)
      exact ⟨s, e, hmem s hp⟩
  obtain ⟨s, e, hsne, hall⟩ := hsort
  rw [serializeSummaries_eq, hmap, e]
  simp only [bind, Except.bind]
  have herr : ∀ x ∈ s, blockM x = .error .indexError := by
    intro x hx
    obtain ⟨loc, cols⟩ := x
    have : cols = [] := hall _ hx
    subst this
    rfl
  rw [mapM_error (e := PyErr.indexError) s (fun x hx => Or.inr (herr x hx))]
  cases s with
  | nil => exact absurd rfl hsne
  | cons x _ => exact ⟨x, by simp, herr x (by simp)⟩

/-- the exact condition under which `serializeSummaries` returns -/
def SummariesOK (l : ObsList) : Prop :=
  ((∀ p ∈ l.own.summary, p.1 = none) ∨ (∀ p ∈ l.own.summary, p.1 ≠ none)) ∧
    (l.own.summary = [] ∨ l.observers ≠ [])

theorem serializeSummaries_empty (l : ObsList) (h : l.own.summary = []) : serializeSummaries l = .ok [] := by
  rw [serializeSummaries_eq, h]
  rfl

theorem serializeSummaries_total_iff (l : ObsList) : (∃ t, serializeSummaries l = .ok t) ↔ SummariesOK l := by
  constructor
  · rintro ⟨t, ht⟩
    by_cases hmix : (∃ p ∈ l.own.summary, p.1 = none) ∧ (∃ p ∈ l.own.summary, p.1 ≠ none)
    · rw [serializeSummaries_typeError l hmix.1 hmix.2] at ht; cases ht
    · have hloc : (∀ p ∈ l.own.summary, p.1 = none) ∨ (∀ p ∈ l.own.summary, p.1 ≠ none) := by
        by_cases hn : ∃ p ∈ l.own.summary, p.1 = none
        · left
          intro p hp
          cases hp1 : p.1 with
          | none => rfl
          | some t => exact absurd ⟨hn, p, hp, by simp [hp1]⟩ hmix
        · right
          intro p hp e
          exact hn ⟨p, hp, e⟩
      refine ⟨hloc, ?_⟩
      by_cases hs : l.own.summary = []
      · exact Or.inl hs
      · right
        intro ho
        rw [serializeSummaries_indexError l ho hs hloc] at ht; cases ht
  · rintro ⟨hloc, hs | ho⟩
    · exact ⟨_, serializeSummaries_empty l hs⟩
    · obtain ⟨_, _, _, e⟩ := serializeSummaries_ok l ho hloc
      exact ⟨_, e⟩

/-! ### which locales a summary has after a history -/

theorem bump_locs (s : Summary) (loc : Option Text) (k : StatKey) (n : Nat) :
    ∀ p ∈ bump s loc k n, p.1 = loc ∨ ∃ p' ∈ s, p'.1 = p.1 := by
  induction s with
  | nil => intro p hp; simp only [bump, List.mem_singleton] at hp; subst hp; exact Or.inl rfl
  | cons x rest ih =>
    intro p hp
    simp only [bump] at hp
    split at hp
    · simp only [List.mem_cons] at hp
      rcases hp with rfl | hp
      · exact Or.inr ⟨x, by simp, rfl⟩
      · exact Or.inr ⟨p, by simp [hp], rfl⟩
    · simp only [List.mem_cons] at hp
      rcases hp with rfl | hp
      · exact Or.inr ⟨p, by simp, rfl⟩
      · rcases ih p hp with h | ⟨p', hp', e⟩
        · exact Or.inl h
        · exact Or.inr ⟨p', by simp [hp'], e⟩

theorem coreAddStats_locs (loc : Option Text) : ∀ (st : List (StatKey × Nat)) (c : Core),
    ∀ p ∈ (coreAddStats c loc st).1, p.1 = loc ∨ ∃ p' ∈ c.1, p'.1 = p.1
  | [], c, p, hp => Or.inr ⟨p, hp, rfl⟩
  | (k, v) :: rest, c, p, hp => by
    simp only [coreAddStats] at hp
    rcases coreAddStats_locs loc rest _ p hp with h | ⟨p', hp', e⟩
    · exact Or.inl h
    · rcases bump_locs c.1 loc k v p' hp' with h | ⟨p'', hp'', e'⟩
      · exact Or.inl (by rw [← e, h])
      · exact Or.inr ⟨p'', hp'', by rw [e', e]⟩

theorem coreEv_locs (ign : Ev → Bool) (c : Core) (ev : Ev) :
    ∀ p ∈ (coreEv ign c ev).1, p.1 = ev.file.locale ∨ ∃ p' ∈ c.1, p'.1 = p.1 := by
  intro p hp
  cases ev with
  | notify cat f d =>
    simp only [coreEv, coreNotify] at hp
    split at hp
    · exact Or.inr ⟨p, hp, rfl⟩
    · simp only [bumpCat] at hp
      split at hp
      · exact bump_locs _ _ _ _ p hp
      · exact Or.inr ⟨p, hp, rfl⟩
  | stats f st =>
    simp only [coreEv] at hp
    split at hp
    · exact Or.inr ⟨p, hp, rfl⟩
    · exact coreAddStats_locs f.locale st c p hp

/-- every locale of the summary is the locale of the file of some event (or was there before) -/
theorem coreRun_locs (ign : Ev → Bool) : ∀ (h : List Ev) (c : Core),
    ∀ p ∈ (coreRun ign c h).1, (∃ ev ∈ h, ev.file.locale = p.1) ∨ ∃ p' ∈ c.1, p'.1 = p.1
  | [], c, p, hp => Or.inr ⟨p, hp, rfl⟩
  | ev :: rest, c, p, hp => by
    simp only [coreRun, List.foldl_cons] at hp
    rcases coreRun_locs ign rest (coreEv ign c ev) p hp with ⟨e, he, hl⟩ | ⟨p', hp', e⟩
    · exact Or.inl ⟨e, by simp [he], hl⟩
    · rcases coreEv_locs ign c ev p' hp' with h | ⟨p'', hp'', e'⟩
      · exact Or.inl ⟨ev, by simp, by rw [← h, e]⟩
      · exact Or.inr ⟨p'', hp'', by rw [e', e]⟩

theorem All₂.nil_iff {α β : Type} {R : α → β → Prop} {a : List α} {b : List β} (h : All₂ R a b) :
    a = [] ↔ b = [] := by
  cases h <;> simp

/-- after a history through a fresh list: the locales of the list's own summary are locales of files of the
    history, and the list still has its project observers -/
theorem list_run_locales {q : Nat} {obs : List Obs} {h : List Ev} {l' : ObsList}
    (hr : (ObsList.init q obs).run h = .ok l') :
    (∀ p ∈ l'.own.summary, ∃ ev ∈ h, ev.file.locale = p.1) ∧ (l'.observers = [] ↔ obs = []) := by
  have hc := list_run_core hr rfl
  obtain ⟨_, hall, _⟩ := list_run_spec h _ l' hr rfl
  constructor
  · intro p hp
    have h1 : l'.own.summary = (coreRun (ignList (ObsList.init q obs).filters) (ObsList.init q obs).own.core h).1 := by
      have := congrArg Prod.fst hc; simpa [Obs.core] using this
    rw [h1] at hp
    rcases coreRun_locs _ h _ p hp with h | ⟨p', hp', _⟩
    · exact h
    · simp [ObsList.init, Obs.init, Obs.core] at hp'
  · exact (All₂.nil_iff hall).symm

end C10T

/- Progress (and key-span) facts for the per-format `getNext` functions. -/
import CLModel.Parser.Formats
import CLModel.Proofs.RxLemmas
import CLModel.Proofs.Captures
import CLModel.Proofs.Walk
namespace P
open Rx Gen.Pat

/-- shape of the relation between an entity's span `[s, e)` and its value span `v` -/
abbrev VPred := Nat → Int × Int → Nat → Prop

/-- the value span lies inside the entity span -/
def VNormal : VPred := fun s v e => (s : Int) ≤ v.1 ∧ v.1 ≤ v.2 ∧ v.2 ≤ (e : Int)

/-- DTD: inside, or the trimmed span `(p+1, p)` of a value that is a lone apostrophe -/
def VDtd : VPred := fun s v e => VNormal s v e ∨ (v.2 + 1 = v.1 ∧ (s : Int) ≤ v.2 ∧ v.1 ≤ (e : Int))

/-- defines: inside, or `(-1, -1)` when the optional `val` group did not take part in the match -/
def VInc : VPred := fun s v e => VNormal s v e ∨ (v.1 = -1 ∧ v.2 = -1)

/-- what every `getNext` result at offset `off` satisfies: it starts (including the attached
    pre-comment) at `off`, ends strictly later and inside the text; an entity's key span lies
    inside the entity span and its value span satisfies `V`. -/
def EOK (V : VPred) (size off : Nat) (e : Entry) : Prop :=
  e.full = off ∧ off < e.e ∧ e.e ≤ size ∧
  (e.kind = .entity → (e.s : Int) ≤ e.ks ∧ e.ks ≤ e.ke ∧ e.ke ≤ (e.e : Int)) ∧
  (e.kind = .entity → V e.s (e.vs, e.ve) e.e)

theorem EOK.of_ne {V : VPred} {size off : Nat} {e : Entry} (h1 : e.full = off) (h2 : off < e.e) (h3 : e.e ≤ size)
    (hk : e.kind ≠ .entity) : EOK V size off e := ⟨h1, h2, h3, fun h => absurd h hk, fun h => absurd h hk⟩

structure CfgOK (c : BaseCfg) (V : VPred) : Prop where
  comment_ne : 1 ≤ minLen c.reComment
  white_ne : 1 ≤ minLen c.reWhitespace
  key_ne : 1 ≤ minLen c.reKey
  /-- when createEntity does not raise, its span ends inside the text and after the start, the
      key span is inside and the value span satisfies `V` -/
  create_ok : ∀ s off km e k v, off ≤ s.size → matchAt s c.reKey off = some km →
    c.create s off km = some (e, k, v) →
      off < e ∧ e ≤ s.size ∧ ((off : Int) ≤ k.1 ∧ k.1 ≤ k.2 ∧ k.2 ≤ (e : Int)) ∧ V off v e

theorem getJunk_eok (V : VPred) (s : Array Nat) (off : Nat) (exps : List Re) (hoff : off < s.size) :
    EOK V s.size off (getJunk s off exps) := by
  obtain ⟨h1, _, h3, h4, h5⟩ := getJunk_progress s off exps hoff
  exact EOK.of_ne h1 h3 h4 (by rw [h5]; decide)

theorem getNext_eok (c : BaseCfg) (V : VPred) (hc : CfgOK c V) (s : Array Nat) (off : Nat) (hoff : off < s.size) :
    EOK V s.size off (getNext c s off) := by
  have hcne := hc.comment_ne
  have hwne := hc.white_ne
  have hkne := hc.key_ne
  simp only [getNext]
  rcases hcm : matchAt s c.reComment off with _ | cst
  · simp only [Option.isSome_none, Option.isNone_none, Bool.false_and]
    rcases hws : matchAt s c.reWhitespace off with _ | w
    · simp only []
      rcases hk : matchAt s c.reKey off with _ | km
      · simp only [Option.isSome_none]
        exact getJunk_eok _ s off _ hoff
      · simp only []
        rcases hcr : c.create s off km with _ | ⟨e, k, v⟩
        · simp only [Option.map_none, Option.isSome_none]
          exact getJunk_eok _ s off _ hoff
        · obtain ⟨h1, h2, h3, h4⟩ := hc.create_ok s off km e k v (by omega) hk hcr
          simp only [Option.map_some]
          exact ⟨rfl, h1, h2, fun _ => h3, fun _ => h4⟩
    · have := matchAt_span hws (by omega)
      simp
      exact EOK.of_ne rfl (by simp; omega) this.2 (by simp)
  · have hcs := matchAt_span hcm (by omega)
    simp only [Option.isSome_some, Option.isNone_some]
    split
    · rename_i e he
      split at he
      · cases he; exact EOK.of_ne rfl (by simp; omega) hcs.2 (by simp)
      · cases he
    · rcases hws : matchAt s c.reWhitespace cst.pos with _ | w
      · simp only []
        rcases hk : matchAt s c.reKey cst.pos with _ | km
        · simp; exact EOK.of_ne rfl (by simp; omega) hcs.2 (by simp)
        · simp only []
          rcases hcr : c.create s cst.pos km with _ | ⟨e, k, v⟩
          · simp; exact EOK.of_ne rfl (by simp; omega) hcs.2 (by simp)
          · obtain ⟨h1, h2, h3, h4⟩ := hc.create_ok s _ km e k v hcs.2 hk hcr
            simp only [Option.map_some]
            exact ⟨rfl, by simp; omega, h2, fun _ => h3, fun _ => h4⟩
      · have hw := matchAt_span hws hcs.2
        simp only []
        split
        · rename_i e he
          split at he
          · cases he; exact EOK.of_ne rfl (by simp; omega) hcs.2 (by simp)
          · simp at he
        · rcases hk : matchAt s c.reKey w.pos with _ | km
          · simp; exact EOK.of_ne rfl (by simp; omega) hcs.2 (by simp)
          · simp only []
            rcases hcr : c.create s w.pos km with _ | ⟨e, k, v⟩
            · simp; exact EOK.of_ne rfl (by simp; omega) hcs.2 (by simp)
            · obtain ⟨h1, h2, h3, h4⟩ := hc.create_ok s _ km e k v hw.2 hk hcr
              simp only [Option.map_some]
              exact ⟨rfl, by simp; omega, h2, fun _ => h3, fun _ => h4⟩
theorem progress_of_eok {σ : Type} (next : σ → Nat → Entry × σ) (size : Nat)
    {V : VPred}
    (h : ∀ c off, off < size → EOK V size off (next c off).1) : Progress next size 0 := by
  intro c off hoff
  obtain ⟨h1, h2, h3, _⟩ := h c off hoff
  refine ⟨by rw [h1]; split <;> omega, by omega, h2, h3⟩

/-- span of a group that is certainly set -/
theorem spanI_of_group {st : St} {g a b : Nat} (h : st.group g = some (a, b)) :
    spanI st g = ((a : Int), (b : Int)) := by
  simp [spanI, h]

/-! ### ini -/

theorem iniCfg_ok : CfgOK iniCfg VNormal where
  comment_ne := by decide
  white_ne := by decide
  key_ne := by decide
  create_ok := by
    intro s off km e k v hle hm hcr
    simp only [iniCfg, Option.some.injEq, Prod.mk.injEq] at hcr
    obtain ⟨rfl, rfl, rfl⟩ := hcr
    have hs := matchAt_span hm hle
    have hne : 1 ≤ minLen iniCfg.reKey := by decide
    obtain ⟨a, b, hg, h1, h2, h3⟩ :=
      matchAt_group IniParser_reKey_g_key hm (by decide) (by decide)
    obtain ⟨a', b', hg', h1', h2', h3'⟩ :=
      matchAt_group IniParser_reKey_g_val hm (by decide) (by decide)
    rw [spanI_of_group hg, spanI_of_group hg']
    simp only [VNormal]
    omega

theorem iniGetNext_eok (s : Array Nat) (off : Nat) (hoff : off < s.size) :
    EOK VNormal s.size off (iniGetNext s off) := by
  unfold iniGetNext
  split
  · rename_i st hm
    have hs := matchAt_span hm (by omega)
    have hne : 1 ≤ minLen IniParser_reSection := by decide
    exact EOK.of_ne rfl (by simp; omega) hs.2 (by simp)
  · exact getNext_eok iniCfg _ iniCfg_ok s off hoff

/-! ### behaviour at the very end of the text (needed for a DTD that is just a byte-order mark) -/

theorem matchAt_end_none {s : Array Nat} {r : Re} (h : 1 ≤ minLen r) : matchAt s r s.size = none := by
  cases hm : matchAt s r s.size with
  | none => rfl
  | some st => have := matchAt_span hm (Nat.le_refl _); omega

theorem search_past_end (s : Array Nat) (r : Re) : search s r (s.size + 1) = none := by
  cases hm : search s r (s.size + 1) with
  | none => rfl
  | some x =>
    obtain ⟨q, st⟩ := x
    have := search_spec hm; omega

theorem foldl_fix {α β : Type} (f : β → α → β) (b : β) (h : ∀ x, f b x = b) (l : List α) :
    l.foldl f b = b := by
  induction l with
  | nil => rfl
  | cons x xs ih => rw [List.foldl_cons, h, ih]

theorem getJunk_end (s : Array Nat) (exps : List Re) :
    getJunk s s.size exps = { kind := .junk, full := s.size, s := s.size, e := s.size } := by
  simp only [getJunk]
  rw [foldl_fix _ none (by intro x; simp only [search_past_end])]

theorem getNext_end (c : BaseCfg) {V : VPred} (hc : CfgOK c V) (s : Array Nat) :
    getNext c s s.size = { kind := .junk, full := s.size, s := s.size, e := s.size } := by
  simp only [getNext, matchAt_end_none hc.comment_ne, matchAt_end_none hc.white_ne,
    matchAt_end_none hc.key_ne, Option.isSome_none, Bool.false_eq_true, if_false]
  exact getJunk_end s _

/-! ### DTD -/

theorem dtdCfg_ok : CfgOK dtdCfg VDtd where
  comment_ne := by decide
  white_ne := by decide
  key_ne := by decide
  create_ok := by
    intro s off km e k v hle hm hcr
    simp only [dtdCfg, Option.some.injEq, Prod.mk.injEq] at hcr
    obtain ⟨rfl, rfl, rfl⟩ := hcr
    have hs := matchAt_span hm hle
    have hne : 1 ≤ minLen dtdCfg.reKey := by decide
    obtain ⟨a, b, hg, h1, h2, h3⟩ :=
      matchAt_group DTDParser_reKey_g_key hm (by decide) (by decide)
    obtain ⟨a', b', hg', _, _, _⟩ :=
      matchAt_group DTDParser_reKey_g_val hm (by decide) (by decide)
    -- the value group starts with a quote character, so it is at least one character long
    obtain ⟨h1', h2', h3'⟩ :=
      matchAt_group_opt DTDParser_reKey_g_val 1 hm (by decide) (by decide) hg'
    rw [spanI_of_group hg, spanI_of_group hg']
    refine ⟨by omega, hs.2, by simp only; omega, ?_⟩
    by_cases hlen : a' + 2 ≤ b'
    · exact Or.inl (by simp only [VNormal]; omega)
    · exact Or.inr (by simp only; omega)

theorem dtd_header_iff (s : Array Nat) :
    (matchAt s DTDParser_reHeader 0).isSome = true ↔ s[0]? = some 0xFEFF := by
  simp [matchAt, DTDParser_reHeader, m]

def KeyIn (e : Entry) : Prop :=
  e.kind = .entity → (e.s : Int) ≤ e.ks ∧ e.ks ≤ e.ke ∧ e.ke ≤ (e.e : Int)

def ValIn (V : VPred) (e : Entry) : Prop := e.kind = .entity → V e.s (e.vs, e.ve) e.e

def DtdIn (e : Entry) : Prop := KeyIn e ∧ ValIn VDtd e

theorem EOK.keyIn {V : VPred} {size off : Nat} {e : Entry} (h : EOK V size off e) : KeyIn e := h.2.2.2.1
theorem EOK.valIn {V : VPred} {size off : Nat} {e : Entry} (h : EOK V size off e) : ValIn V e := h.2.2.2.2

/-- the part of `DTDParser.getNext` after the byte-order-mark skip -/
def dtdInner (s : Array Nat) (off : Nat) : Entry :=
  let e := getNext dtdCfg s off
  if e.kind == .junk then
    match matchAt s DTDParser_rePE off with
    | some st =>
      let k := spanI st DTDParser_rePE_g_key
      let v := spanI st DTDParser_rePE_g_val
      { kind := .entity, full := off, s := off, e := st.pos, ks := k.1, ke := k.2, vs := v.1, ve := v.2 }
    | none => e
  else e

theorem dtdGetNext_eq (s : Array Nat) (off0 : Nat) :
    dtdGetNext s off0 =
      dtdInner s (if off0 == 0 && (matchAt s DTDParser_reHeader 0).isSome then off0 + 1 else off0) := rfl

theorem dtdInner_ok (s : Array Nat) (off : Nat) (hle : off ≤ s.size) :
    (dtdInner s off).full = off ∧ off ≤ (dtdInner s off).e ∧ (off < s.size → off < (dtdInner s off).e) ∧
      (dtdInner s off).e ≤ s.size ∧ DtdIn (dtdInner s off) := by
  have hbase : (getNext dtdCfg s off).full = off ∧ off ≤ (getNext dtdCfg s off).e ∧
      (off < s.size → off < (getNext dtdCfg s off).e) ∧ (getNext dtdCfg s off).e ≤ s.size ∧
      DtdIn (getNext dtdCfg s off) := by
    by_cases hlt : off < s.size
    · obtain ⟨h1, h2, h3, h4⟩ := getNext_eok dtdCfg _ dtdCfg_ok s off hlt
      exact ⟨h1, by omega, fun _ => h2, h3, h4⟩
    · have : off = s.size := by omega
      subst this
      rw [getNext_end dtdCfg dtdCfg_ok s]
      exact ⟨rfl, Nat.le_refl _, fun h => absurd h (Nat.lt_irrefl _), Nat.le_refl _, ⟨fun h => (by cases h), fun h => (by cases h)⟩⟩
  unfold dtdInner
  simp only
  split
  · split
    · rename_i st hm
      have hs := matchAt_span hm hle
      have hne : 1 ≤ minLen DTDParser_rePE := by decide
      obtain ⟨a, b, hg, h1, h2, h3⟩ :=
        matchAt_group DTDParser_rePE_g_key hm (by decide) (by decide)
      obtain ⟨a', b', hg', h1', h2', h3'⟩ :=
        matchAt_group DTDParser_rePE_g_val hm (by decide) (by decide)
      refine ⟨rfl, by simp only; omega, fun _ => by simp only; omega, hs.2, ⟨fun _ => ?_, fun _ => Or.inl ?_⟩⟩
      · rw [spanI_of_group hg]
        simp only
        omega
      · rw [spanI_of_group hg']
        simp only [VNormal]
        omega
    · exact hbase
  · exact hbase

theorem dtdGetNext_ok (s : Array Nat) (off0 : Nat) (hoff : off0 < s.size) :
    (dtdGetNext s off0).full = (if off0 = 0 then (if s[0]? = some 0xFEFF then 1 else 0) else off0) ∧
      (dtdGetNext s off0).full ≤ (dtdGetNext s off0).e ∧ off0 < (dtdGetNext s off0).e ∧
      (dtdGetNext s off0).e ≤ s.size ∧ DtdIn (dtdGetNext s off0) := by
  rw [dtdGetNext_eq]
  by_cases h0 : off0 = 0
  · subst h0
    by_cases hb : s[0]? = some 0xFEFF
    · have hh := (dtd_header_iff s).mpr hb
      simp only [hh, beq_self_eq_true, Bool.and_self, if_true, hb]
      obtain ⟨h1, h2, _, h4, h5⟩ := dtdInner_ok s (0 + 1) (by omega)
      exact ⟨h1, by omega, by omega, h4, h5⟩
    · have hh : (matchAt s DTDParser_reHeader 0).isSome = false := by
        cases hx : (matchAt s DTDParser_reHeader 0).isSome with
        | false => rfl
        | true => exact absurd ((dtd_header_iff s).mp hx) hb
      simp only [hh, Bool.and_false, Bool.false_eq_true, if_false, hb, if_true]
      obtain ⟨h1, h2, h3, h4, h5⟩ := dtdInner_ok s 0 (by omega)
      exact ⟨h1, by omega, h3 hoff, h4, h5⟩
  · have hne : (off0 == 0) = false := by simp [h0]
    simp only [hne, Bool.false_and, Bool.false_eq_true, if_false, h0]
    obtain ⟨h1, h2, h3, h4, h5⟩ := dtdInner_ok s off0 (by omega)
    exact ⟨h1, by omega, h3 hoff, h4, h5⟩

/-! ### PO -/

theorem startsWithAt_le {s : Array Nat} {key : List Nat} {cursor : Nat}
    (h : startsWithAt s key cursor = true) (hk : 0 < key.length) : cursor + key.length ≤ s.size := by
  unfold startsWithAt slice at h
  have := congrArg List.length (beq_iff_eq.mp h)
  simp at this
  omega

theorem poFrags_ok (s : Array Nat) : ∀ fuel cursor, cursor ≤ s.size →
    cursor ≤ (poFrags s fuel cursor).2 ∧ (poFrags s fuel cursor).2 ≤ s.size ∧
      ((poFrags s fuel cursor).1 ≠ [] → cursor < (poFrags s fuel cursor).2) := by
  intro fuel
  induction fuel with
  | zero => intro cursor h; simp [poFrags, h]
  | succ fuel ih =>
    intro cursor h
    simp only [poFrags]
    split
    · simp [h]
    · rename_i st hm
      have hs := matchAt_span hm h
      split
      · simp [h]
      · obtain ⟨h1, h2, _⟩ := ih st.pos hs.2
        simp only
        exact ⟨by omega, h2, fun _ => by omega⟩

theorem poStringList_ok {s : Array Nat} {cursor : Nat} {key : List Nat} {fr : List (Nat × Nat)} {c : Nat}
    (h : poStringList s cursor key = some (fr, c)) (hk : 0 < key.length) :
    cursor + key.length < c ∧ c ≤ s.size := by
  unfold poStringList at h
  split at h
  · cases h
  · rename_i hsw
    have hle := startsWithAt_le (by simpa using hsw) hk
    obtain ⟨h1, h2, h3⟩ := poFrags_ok s (s.size + 1) (cursor + key.length) hle
    simp only at h
    split at h
    · cases h
    · rename_i hne
      simp only [Option.some.injEq, Prod.mk.injEq] at h
      obtain ⟨hfr, rfl⟩ := h
      exact ⟨h3 (by intro h0; simp [h0] at hne), h2⟩

/-- cursor after optional whitespace -/
theorem wsSkip_ok (s : Array Nat) (c : Nat) (h : c ≤ s.size) :
    c ≤ (match matchAt s Parser_reWhitespace c with | some w => w.pos | none => c) ∧
      (match matchAt s Parser_reWhitespace c with | some w => w.pos | none => c) ≤ s.size := by
  split
  · rename_i w hw
    have := matchAt_span hw h
    omega
  · omega

/-- the msgid / msgstr part of `PoParser.createEntity` -/
def poTail (s : Array Nat) (start : Nat) (msgctxt : Option (List (Nat × Nat))) (cursor : Nat) : Option PoParts :=
  match poStringList s cursor kwMsgid with
  | none => none
  | some (idfr, c1) =>
    let c2 := match matchAt s Parser_reWhitespace c1 with | some w => w.pos | none => c1
    match poStringList s c2 kwMsgstr with
    | none => none
    | some (strfr, c3) =>
      some { e := c3, idS := start, idE := c1, valS := c2, msgctxt := msgctxt, msgid := idfr, msgstr := strfr }

theorem poTail_ok {s : Array Nat} {start cursor : Nat} {mc : Option (List (Nat × Nat))} {p : PoParts}
    (h : poTail s start mc cursor = some p) (h0 : start ≤ cursor) :
    p.idS = start ∧ start ≤ p.idE ∧ p.idE ≤ p.valS ∧ p.valS ≤ p.e ∧ start < p.e ∧ p.e ≤ s.size := by
  unfold poTail at h
  split at h
  · cases h
  · rename_i idfr c1 hid
    have h1 := poStringList_ok hid (by decide)
    have hc2b := wsSkip_ok s c1 h1.2
    simp only at h
    split at h
    · cases h
    · rename_i strfr c3 hstr
      have h3 := poStringList_ok hstr (by decide)
      simp only [Option.some.injEq] at h
      subst h
      refine ⟨rfl, ?_, ?_, ?_, ?_, ?_⟩ <;> simp only <;> omega

theorem poCreate_ok {s : Array Nat} {start : Nat} {p : PoParts} (h : poCreate s start = some p) :
    p.idS = start ∧ start ≤ p.idE ∧ p.idE ≤ p.valS ∧ p.valS ≤ p.e ∧ start < p.e ∧ p.e ≤ s.size := by
  rcases hsl : poStringList s start kwMsgctxt with _ | ⟨fr, c⟩
  · have : poCreate s start = poTail s start none start := by
      simp only [poCreate, hsl, poTail]
      rfl
    rw [this] at h
    exact poTail_ok h (Nat.le_refl _)
  · have h1 := poStringList_ok hsl (by decide)
    have h2 := wsSkip_ok s c h1.2
    have : poCreate s start = poTail s start (some fr)
        (match matchAt s Parser_reWhitespace c with | some w => w.pos | none => c) := by
      simp only [poCreate, hsl, poTail]
      rfl
    rw [this] at h
    exact poTail_ok h (by omega)

theorem poCfg_ok : CfgOK poCfg VNormal where
  comment_ne := by decide
  white_ne := by decide
  key_ne := by decide
  create_ok := by
    intro s off km e k v hle hm hcr
    simp only [poCfg] at hcr
    cases hp : poCreate s off with
    | none => simp [hp] at hcr
    | some p =>
      simp only [hp, Option.map_some, Option.some.injEq, Prod.mk.injEq] at hcr
      obtain ⟨rfl, rfl, rfl⟩ := hcr
      obtain ⟨h1, h2, h3, h4, h5, h6⟩ := poCreate_ok hp
      simp only [h1, VNormal]
      omega

/-! ### properties -/

theorem findNl_ok {s : Array Nat} {off nl : Nat} (h : findNl s off = some nl) : off ≤ nl ∧ nl < s.size := by
  unfold findNl at h
  obtain ⟨i, hi, hf⟩ := List.exists_of_findSome?_eq_some h
  simp only [List.mem_range] at hi
  split at hf
  · simp only [Option.some.injEq] at hf; omega
  · cases hf

theorem propsLines_ok (s : Array Nat) (lo : Nat) : ∀ fuel off sl, lo ≤ off → off ≤ s.size → lo ≤ sl → sl ≤ s.size →
    lo ≤ (propsLines s fuel off sl).1 ∧ (propsLines s fuel off sl).1 ≤ s.size ∧
    lo ≤ (propsLines s fuel off sl).2 ∧ (propsLines s fuel off sl).2 ≤ s.size := by
  intro fuel
  induction fuel with
  | zero => intro off sl h1 h2 h3 h4; simp [propsLines]; omega
  | succ fuel ih =>
    intro off sl h1 h2 h3 h4
    simp only [propsLines]
    split
    · simp only; omega
    · rename_i nl hnl
      have := findNl_ok hnl
      split
      · simp only; omega
      · split
        · simp only; omega
        · exact ih (nl + 1) (nl + 1) (by omega) (by omega) (by omega) (by omega)

/-- the end of a properties entity -/
theorem propsEnd_ok (s : Array Nat) (p ev sl : Nat) (hp : p ≤ s.size)
    (hpl : propsLines s (s.size + 1) p p = (ev, sl)) :
    p ≤ (match search s PropertiesParser__trailingWS sl with | some (q, _) => q | none => ev) ∧
      (match search s PropertiesParser__trailingWS sl with | some (q, _) => q | none => ev) ≤ s.size := by
  have := propsLines_ok s p (s.size + 1) p p (Nat.le_refl _) hp (Nat.le_refl _) hp
  rw [hpl] at this
  simp only at this
  split
  · rename_i q st hs
    have := search_spec hs
    omega
  · omega

/-- the entity built by `PropertiesParser.getNext` once the key matched at `off2` -/
def propsEntity (s : Array Nat) (off0 off2 : Nat) (km : St) (pc : Option (Nat × Nat)) : Entry :=
  let (endval0, startline) := propsLines s (s.size + 1) km.pos km.pos
  let endval := match search s PropertiesParser__trailingWS startline with
    | some (q, _) => q
    | none => endval0
  let k := spanI km PropertiesParser_reKey_g_key
  { kind := .entity, full := off0, s := off2, e := endval, ks := k.1, ke := k.2, vs := km.pos, ve := endval,
    pc := pc }

theorem propsEntity_eok (s : Array Nat) (off0 off2 : Nat) (km : St) (pc : Option (Nat × Nat))
    (hm : matchAt s PropertiesParser_reKey off2 = some km) (h02 : off0 ≤ off2) (h2 : off2 ≤ s.size) :
    EOK VNormal s.size off0 (propsEntity s off0 off2 km pc) := by
  have hs := matchAt_span hm h2
  have hne : 1 ≤ minLen PropertiesParser_reKey := by decide
  obtain ⟨a, b, hg, h1, h3, h4⟩ :=
    matchAt_group PropertiesParser_reKey_g_key hm (by decide) (by decide)
  unfold propsEntity
  rcases hpl : propsLines s (s.size + 1) km.pos km.pos with ⟨ev, sl⟩
  have he := propsEnd_ok s km.pos ev sl hs.2 hpl
  simp only [spanI_of_group hg]
  exact ⟨rfl, by simp only; omega, he.2, fun _ => by simp only; omega,
    fun _ => by simp only [VNormal]; omega⟩

theorem propsGetNext_eok (s : Array Nat) (off : Nat) (hoff : off < s.size) :
    EOK VNormal s.size off (propsGetNext s off) := by
  have hcne : 1 ≤ minLen PropertiesParser_reComment := by decide
  have hwne : 1 ≤ minLen Parser_reWhitespace := by decide
  simp only [propsGetNext]
  rcases hcm : matchAt s PropertiesParser_reComment off with _ | cst
  · simp only [Option.isSome_none, Option.isNone_none, Bool.false_and]
    rcases hws : matchAt s Parser_reWhitespace off with _ | w
    · simp only []
      rcases hk : matchAt s PropertiesParser_reKey off with _ | km
      · simp only [Option.isSome_none]
        exact getJunk_eok _ s off _ hoff
      · exact propsEntity_eok s off off km _ hk (Nat.le_refl _) (by omega)
    · have := matchAt_span hws (by omega)
      simp
      exact EOK.of_ne rfl (by simp; omega) this.2 (by simp)
  · have hcs := matchAt_span hcm (by omega)
    simp only [Option.isSome_some, Option.isNone_some]
    split
    · rename_i e he
      split at he
      · cases he; exact EOK.of_ne rfl (by simp; omega) hcs.2 (by simp)
      · cases he
    · rcases hws : matchAt s Parser_reWhitespace cst.pos with _ | w
      · simp only []
        rcases hk : matchAt s PropertiesParser_reKey cst.pos with _ | km
        · simp; exact EOK.of_ne rfl (by simp; omega) hcs.2 (by simp)
        · exact propsEntity_eok s off cst.pos km _ hk (by omega) hcs.2
      · have hw := matchAt_span hws hcs.2
        simp only []
        split
        · rename_i e he
          split at he
          · cases he; exact EOK.of_ne rfl (by simp; omega) hcs.2 (by simp)
          · simp at he
        · rcases hk : matchAt s PropertiesParser_reKey w.pos with _ | km
          · simp; exact EOK.of_ne rfl (by simp; omega) hcs.2 (by simp)
          · exact propsEntity_eok s off w.pos km _ hk (by omega) hw.2

/-! ### defines (.inc) -/

theorem spanI_of_none {st : St} {g : Nat} (h : st.group g = none) : spanI st g = (-1, -1) := by
  simp [spanI, h]

theorem definesEntity_eok (s : Array Nat) (off0 off2 : Nat) (km : St) (pc : Option (Nat × Nat))
    (hm : matchAt s DefinesParser_reKey off2 = some km) (h02 : off0 ≤ off2) (h2 : off2 ≤ s.size) :
    EOK VInc s.size off0
      { kind := .entity, full := off0, s := off2, e := km.pos,
        ks := (spanI km DefinesParser_reKey_g_key).1, ke := (spanI km DefinesParser_reKey_g_key).2,
        vs := (spanI km DefinesParser_reKey_g_val).1, ve := (spanI km DefinesParser_reKey_g_val).2,
        pc := pc } := by
  have hs := matchAt_span hm h2
  have hne : 1 ≤ minLen DefinesParser_reKey := by decide
  obtain ⟨a, b, hg, h1, h3, h4⟩ :=
    matchAt_group DefinesParser_reKey_g_key hm (by decide) (by decide)
  simp only [spanI_of_group hg]
  refine ⟨rfl, by simp only; omega, hs.2, fun _ => by simp only; omega, fun _ => ?_⟩
  rcases hv : km.group DefinesParser_reKey_g_val with _ | ⟨a', b'⟩
  · exact Or.inr (by simp [spanI_of_none hv])
  · obtain ⟨h1', h2', h3'⟩ :=
      matchAt_group_opt DefinesParser_reKey_g_val 0 hm (by decide) (by decide) hv
    exact Or.inl (by simp only [spanI_of_group hv, VNormal]; omega)

theorem definesGetNext_eok (s : Array Nat) (fel : Bool) (off : Nat) (hoff : off < s.size) :
    EOK VInc s.size off (definesGetNext s fel off).1 := by
  have hcne : 1 ≤ minLen DefinesParser_reComment := by decide
  have hwne : 1 ≤ minLen DefinesParser_reWhitespace := by decide
  have hpne : 1 ≤ minLen DefinesParser_rePI := by decide
  simp only [definesGetNext]
  rcases hcm : matchAt s DefinesParser_reComment off with _ | cst
  · simp only [Option.isSome_none, Option.isNone_none, Bool.false_and]
    rcases hws : matchAt s DefinesParser_reWhitespace off with _ | w
    · simp only []
      rcases hk : matchAt s DefinesParser_reKey off with _ | km
      · simp only [Option.isSome_none, Bool.false_eq_true, if_false]
        rcases hpi : matchAt s DefinesParser_rePI off with _ | st
        · exact getJunk_eok _ s off _ hoff
        · have := matchAt_span hpi (by omega)
          exact EOK.of_ne rfl (by simp only; omega) this.2 (by simp)
      · exact definesEntity_eok s off off km _ hk (Nat.le_refl _) (by omega)
    · have := matchAt_span hws (by omega)
      simp only [Bool.false_eq_true, if_false, if_true]
      split
      · rename_i e he
        split at he
        · cases he; exact EOK.of_ne rfl (by simp only; omega) this.2 (by simp)
        · cases he; exact EOK.of_ne rfl (by simp only; omega) this.2 (by simp)
      · rename_i he
        split at he <;> cases he
  · have hcs := matchAt_span hcm (by omega)
    simp only [Option.isSome_some, Option.isNone_some]
    rcases hws : matchAt s DefinesParser_reWhitespace cst.pos with _ | w
    · simp only []
      rcases hk : matchAt s DefinesParser_reKey cst.pos with _ | km
      · simp only [if_true]
        exact EOK.of_ne rfl (by simp only; omega) hcs.2 (by simp)
      · exact definesEntity_eok s off cst.pos km _ hk (by omega) hcs.2
    · have hw := matchAt_span hws hcs.2
      simp only []
      split
      · rename_i e he
        split at he
        · simp only [if_true, Option.some.injEq] at he
          subst he
          exact EOK.of_ne rfl (by simp only; omega) hcs.2 (by simp)
        · split at he
          · cases he; exact EOK.of_ne rfl (by simp only; omega) hcs.2 (by simp)
          · simp at he
      · rcases hk : matchAt s DefinesParser_reKey w.pos with _ | km
        · simp only [if_true]
          exact EOK.of_ne rfl (by simp only; omega) hcs.2 (by simp)
        · exact definesEntity_eok s off w.pos km _ hk (by omega) hw.2

end P

/- C02 (round 4): `getJunk` in general, and garbage locality for properties WITH comments, any number of garbage lines. -/
import CLModel.Proofs.C02PProps
namespace C02P
open Rx P Gen.Pat C02X

/-! ### `Parser.getJunk`, characterised -/

/-- the accumulator function of `getJunk` -/
def junkStep (s : Array Nat) (off : Nat) (je : Option Nat) (exp : Re) : Option Nat :=
  match search s exp (off + 1) with
  | some (q, _) =>
      match je with
      | some j => if j != 0 then some (min j q) else some q
      | none => some q
  | none => je

theorem getJunk_eq (s : Array Nat) (off : Nat) (exps : List Re) :
    getJunk s off exps =
      { kind := .junk, full := off, s := off,
        e := match exps.foldl (junkStep s off) none with
          | some j => if j != 0 then j else s.size
          | none => s.size } := rfl

/-- junk starts at `off`; none of the expressions matches strictly inside `(off, e)`; at `e` one of them matches, or `e` is
    the end of the text and none matches there: the junk entry is `off … e` -/
theorem getJunk_at (s : Array Nat) (off e : Nat) (exps : List Re) (hoe : off < e)
    (hno : ∀ r ∈ exps, ∀ q, off < q → q < e → matchAt s r q = none)
    (hend : (∃ r ∈ exps, (matchAt s r e).isSome) ∨ (e = s.size ∧ ∀ r ∈ exps, matchAt s r e = none)) (hes : e ≤ s.size) :
    getJunk s off exps = junkEntry off e := by
  -- what one search can return
  have hge : ∀ r ∈ exps, ∀ q st, search s r (off + 1) = some (q, st) → e ≤ q := by
    intro r hr q st hs
    obtain ⟨h1, _, hm, _⟩ := search_spec hs
    by_cases hq : q < e
    · rw [hno r hr q (by omega) hq] at hm; cases hm
    · omega
  have hat : ∀ r ∈ exps, (matchAt s r e).isSome → ∃ st, search s r (off + 1) = some (e, st) := by
    intro r hr hm
    obtain ⟨st, hst⟩ := Option.isSome_iff_exists.mp hm
    refine ⟨st, ?_⟩
    have := search_first s r st (e - (off + 1)) (off + 1) (by omega)
      (fun p hp1 hp2 => hno r hr p (by omega) (by omega))
      (by rw [show off + 1 + (e - (off + 1)) = e by omega]; exact hst)
    rw [this, show off + 1 + (e - (off + 1)) = e by omega]
  -- the fold
  have fold : ∀ (l : List Re) (je : Option Nat), (∀ r ∈ l, r ∈ exps) → (je = none ∨ ∃ j, je = some j ∧ e ≤ j) →
      ((l.foldl (junkStep s off) je = none ∨ ∃ j, l.foldl (junkStep s off) je = some j ∧ e ≤ j) ∧
       ((je = some e ∨ ∃ r ∈ l, (matchAt s r e).isSome) → l.foldl (junkStep s off) je = some e) ∧
       ((je = none ∧ ∀ r ∈ l, search s r (off + 1) = none) → l.foldl (junkStep s off) je = none)) := by
    intro l
    induction l with
    | nil =>
      intro je _ hje
      refine ⟨by simpa using hje, ?_, ?_⟩
      · intro h; rcases h with h | ⟨r, hr, _⟩
        · simpa using h
        · simp at hr
      · intro h; simpa using h.1
    | cons r l ih =>
      intro je hsub hje
      have hr : r ∈ exps := hsub r (by simp)
      -- the accumulator after this expression
      have hstep : (junkStep s off je r = none ∨ ∃ j, junkStep s off je r = some j ∧ e ≤ j) ∧
          ((je = some e ∨ (matchAt s r e).isSome) → junkStep s off je r = some e) ∧
          ((je = none ∧ search s r (off + 1) = none) → junkStep s off je r = none) := by
        unfold junkStep
        cases hs : search s r (off + 1) with
        | none =>
          refine ⟨by simpa using hje, ?_, ?_⟩
          · intro h; rcases h with h | h
            · simpa using h
            · obtain ⟨st, hst⟩ := hat r hr h; rw [hs] at hst; cases hst
          · intro h; simpa using h.1
        | some qs =>
          obtain ⟨q, st⟩ := qs
          have hq := hge r hr q st hs
          rcases hje with rfl | ⟨j, rfl, hj⟩
          · refine ⟨Or.inr ⟨q, rfl, hq⟩, ?_, ?_⟩
            · intro h; rcases h with h | h
              · cases h
              · obtain ⟨st', hst'⟩ := hat r hr h
                rw [hs] at hst'; cases hst'; rfl
            · intro h; cases h.2
          · have hj0 : (j != 0) = true := by simp; omega
            simp only [hj0, if_true]
            refine ⟨Or.inr ⟨min j q, rfl, by omega⟩, ?_, ?_⟩
            · intro h; rcases h with h | h
              · cases h
                simp [Nat.min_eq_left hq]
              · obtain ⟨st', hst'⟩ := hat r hr h
                rw [hs] at hst'; cases hst'
                simp [Nat.min_eq_right hj]
            · intro h; cases h.1
      obtain ⟨s1, s2, s3⟩ := hstep
      obtain ⟨i1, i2, i3⟩ := ih (junkStep s off je r) (fun x hx => hsub x (by simp [hx])) s1
      simp only [List.foldl_cons]
      refine ⟨i1, ?_, ?_⟩
      · intro h
        rcases h with h | ⟨r', hr', hm⟩
        · exact i2 (Or.inl (s2 (Or.inl h)))
        · simp only [List.mem_cons] at hr'
          rcases hr' with rfl | hr'
          · exact i2 (Or.inl (s2 (Or.inr hm)))
          · exact i2 (Or.inr ⟨r', hr', hm⟩)
      · intro h
        exact i3 ⟨s3 ⟨h.1, h.2 r (by simp)⟩, fun x hx => h.2 x (by simp [hx])⟩
  obtain ⟨_, f2, f3⟩ := fold exps none (fun _ h => h) (Or.inl rfl)
  rw [getJunk_eq]
  rcases hend with ⟨r, hr, hm⟩ | ⟨he, hnone⟩
  · rw [f2 (Or.inr ⟨r, hr, hm⟩)]
    have : (e != 0) = true := by simp; omega
    simp [this, junkEntry]
  · have hall : ∀ r ∈ exps, search s r (off + 1) = none := by
      intro r hr
      apply search_none_c02
      intro p hp1 hp2
      by_cases hp : p < e
      · exact hno r hr p (by omega) hp
      · rw [show p = e by omega]; exact hnone r hr
    rw [f3 ⟨rfl, hall⟩]
    simp [junkEntry, he]

/-! ### properties: inert garbage lines -/

/-- a garbage line and the white-space after it: the line is non-empty, has no `= : # !` and no newline, does not start with
    white-space; the white-space starts with the newline that ends the line -/
structure PGarbage (g gap : List Nat) : Prop where
  safe : SafeGarbage g
  gap : ∃ w, gap = 10 :: w ∧ ∀ c ∈ w, isWs c = true

theorem props_key_none_ws (s : Array Nat) (p : Nat) (l : List Nat) (h : At s p l)
    (hl : ∀ c, l.head? = some c → isWs c = true) : matchAt s PropertiesParser_reKey p = none := by
  simp only [matchAt, PropertiesParser_reKey, m_seq, m_group, m_cls_charStep]
  apply step_at_fail _ h
  intro c hc
  have := hl c hc
  simp [isWs] at this
  rcases this with ((h | h) | h) | h <;> subst h <;> decide

theorem props_start_match (s : Array Nat) (p : Nat) (b : PBlock) (rest : List Nat) (hg : b.Good') (hfo : PFollow rest)
    (h : At s p (b.print ++ rest)) :
    (matchAt s PropertiesParser_reKey p).isSome ∨ (matchAt s PropertiesParser_reComment p).isSome := by
  cases b with
  | record r =>
    have hg' : r.Good := hg
    obtain ⟨gw, hgap, hgw⟩ := hg'.gap
    have h1 : At s p (printCLines r.comment ++ (r.cgap ++ (r.key.print ++ (r.value ++ (r.gap ++ rest))))) := by
      simpa [At, PBlock.print, PRecord.print] using h
    by_cases hne : r.comment = []
    · left
      have hcg := hg'.cgap_nil hne
      have h3 : At s p (r.key.print ++ (r.value ++ (r.gap ++ rest))) := by
        simpa [At, hne, hcg, printCLines] using h1
      rw [props_key_at s p r.key _ hg'.key
        (value_head_blank r hg' _ (by intro c hc; rw [hgap] at hc; simpa using hc.symm)) h3]
      rfl
    · right
      obtain ⟨w, hcg, hw⟩ := hg'.cgap hne
      have hac : AfterComment (r.cgap ++ (r.key.print ++ (r.value ++ (r.gap ++ rest)))) := by
        right
        refine ⟨w ++ (r.key.print ++ (r.value ++ (r.gap ++ rest))), by simp [hcg], ?_⟩
        intro c hc
        cases hw' : w with
        | nil => rw [hw'] at hc; simp only [List.nil_append, r.key.print_head] at hc; cases hc; exact (keyChar_notMark hg'.key.k0).1
        | cons a t => rw [hw'] at hc; simp at hc; subst hc; exact isMark_ws (hw a (by simp [hw'])).1
      rw [props_comment_at s p r.comment _ hne hg'.comment hac h1]
      rfl
  | free ls gap =>
    right
    obtain ⟨g1, g2, g3, g4, g5⟩ := hg
    obtain ⟨w, hgw⟩ : ∃ w, gap = 10 :: w := by
      cases gap with
      | nil => simp at g4
      | cons a t => simp at g4; subst g4; exact ⟨t, rfl⟩
    have hwne : w ≠ [] := by intro hh; subst hh; rw [hgw] at g5; simp at g5
    have hac : AfterComment (gap ++ rest) := by
      right
      refine ⟨w ++ rest, by rw [hgw]; rfl, ?_⟩
      intro c hc
      cases w with
      | nil => exact absurd rfl hwne
      | cons a t => simp at hc; subst hc; exact isMark_ws (g3 a (by simp [hgw]))
    have h' : At s p (printCLines ls ++ (gap ++ rest)) := by simpa [At, PBlock.print] using h
    rw [props_comment_at s p ls _ g1 g2 hac h']
    rfl

/-- `getNext` on a garbage line (with the white-space after it) that is followed by a good block or by the end of the text:
    ONE junk entry, exactly the line and that white-space -/
theorem props_junk_at (s : Array Nat) (p : Nat) (g gap rest : List Nat) (hg : PGarbage g gap)
    (hnext : rest = [] ∨ ((matchAt s PropertiesParser_reKey (p + g.length + gap.length)).isSome ∨
      (matchAt s PropertiesParser_reComment (p + g.length + gap.length)).isSome))
    (h : At s p (g ++ (gap ++ rest))) : propsGetNext s p = junkEntry p (p + g.length + gap.length) := by
  obtain ⟨w, hgap, hw⟩ := hg.gap
  have hgl : 0 < g.length := List.length_pos_iff.mpr hg.safe.ne
  have h' : s.toList.drop p = (g ++ [10]) ++ (w ++ rest) := by
    have : At s p (g ++ (10 :: w ++ rest)) := by rw [hgap] at h; exact h
    simpa [At] using this
  have hgar := garbageAt_of_drop s p g _ hg.safe h'
  have hsz := h.size_ge (by simp [hg.safe.ne])
  simp only [List.length_append] at hsz
  have hwat : At s (p + g.length + 1) (w ++ rest) := by
    have : At s p ((g ++ [10]) ++ (w ++ rest)) := h'
    simpa [Nat.add_assoc] using this.app
  -- nothing matches inside the line and the white-space
  have hkey : ∀ q, p ≤ q → q < p + g.length + gap.length → matchAt s PropertiesParser_reKey q = none := by
    intro q h1 h2
    by_cases hq : q ≤ p + g.length
    · exact garbage_key_none s p g.length hgar q h1 hq
    · have hj : q - (p + g.length + 1) < w.length := by rw [hgap] at h2; simp at h2; omega
      have : At s (p + g.length + 1) (w.take (q - (p + g.length + 1)) ++ (w.drop (q - (p + g.length + 1)) ++ rest)) := by
        rw [← List.append_assoc, List.take_append_drop]; exact hwat
      have hat := this.app
      rw [List.length_take, Nat.min_eq_left (Nat.le_of_lt hj), show p + g.length + 1 + (q - (p + g.length + 1)) = q by omega] at hat
      apply props_key_none_ws s q _ hat
      intro c hc
      rw [head?_app_ne (by intro hh; have := congrArg List.length hh; simp at this; omega)] at hc
      have hm : c ∈ w := by
        have : c ∈ w.drop (q - (p + g.length + 1)) := by
          cases hd : w.drop (q - (p + g.length + 1)) with
          | nil => rw [hd] at hc; simp at hc
          | cons a t => rw [hd] at hc; simp at hc; subst hc; simp
        exact List.mem_of_mem_drop this
      exact hw c hm
  have hcom : ∀ q, p ≤ q → q < p + g.length + gap.length → matchAt s PropertiesParser_reComment q = none := by
    intro q h1 h2
    by_cases hq : q ≤ p + g.length
    · exact garbage_comment_none s p g.length hgar q h1 hq
    · have hj : q - (p + g.length + 1) < w.length := by rw [hgap] at h2; simp at h2; omega
      have := hwat.left (q - (p + g.length + 1)) hj
      rw [show p + g.length + 1 + (q - (p + g.length + 1)) = q by omega] at this
      have hm := isMark_ws (hw _ (List.getElem_mem hj))
      simp [isMark] at hm
      exact comment_none s q _ this hm.1 hm.2
  obtain ⟨c0, hc0, b1, b2, b3⟩ := hgar.head
  obtain ⟨c0', hc0', _, _, a3, a4, a5⟩ := hgar.chars 0 hgar.glen_pos
  simp only [Nat.add_zero] at hc0'
  rw [hc0] at hc0'; cases hc0'
  have hcm := comment_none s p c0 hc0 a3 a4
  have hws := ws_none s p c0 hc0 b1 b2 b3 a5
  have hglen : 0 < gap.length := by rw [hgap]; simp
  have hkm := hkey p (Nat.le_refl _) (by omega)
  unfold propsGetNext
  simp only [hcm, hws, hkm]
  have hj := getJunk_at s p (p + g.length + gap.length) [PropertiesParser_reKey, PropertiesParser_reComment] (by omega)
    (by
      intro r hr q h1 h2
      simp only [List.mem_cons, List.not_mem_nil, or_false] at hr
      rcases hr with rfl | rfl
      · exact hkey q (by omega) h2
      · exact hcom q (by omega) h2)
    (by
      rcases hnext with rfl | hm
      · right
        have he : p + g.length + gap.length = s.size := by
          have := h.le (by simp [hg.safe.ne]); simp at this; omega
        refine ⟨he, ?_⟩
        intro r hr
        simp only [List.mem_cons, List.not_mem_nil, or_false] at hr
        rcases hr with rfl | rfl
        · rw [he]; exact key_none_at_end s
        · rw [he]; exact comment_none_at_end s
      · left
        rcases hm with hm | hm
        · exact ⟨_, by simp, hm⟩
        · exact ⟨_, by simp, hm⟩)
    (by omega)
  simpa using hj

/-! ### blocks with garbage -/

/-- a block, optionally preceded by ONE garbage line (with the white-space after it) -/
structure PGBlock where
  junk : Option (List Nat × List Nat)
  b : PBlock

def PGBlock.jtext (x : PGBlock) : List Nat :=
  match x.junk with
  | none => []
  | some (g, gap) => g ++ gap

def PGBlock.print (x : PGBlock) : List Nat := x.jtext ++ x.b.print

def PGBlock.entries (off : Nat) (x : PGBlock) : List Entry :=
  (match x.junk with
   | none => []
   | some (g, gap) => [junkEntry off (off + g.length + gap.length)]) ++ x.b.entries (off + x.jtext.length)

def PGBlock.Good' (x : PGBlock) : Prop :=
  x.b.Good' ∧ ∀ g gap, x.junk = some (g, gap) → PGarbage g gap

def PGBlock.Good (off : Nat) (x : PGBlock) : Prop :=
  x.Good' ∧ (x.junk = none → x.b.Good off)

def PGBlock.junks (x : PGBlock) : List (List Nat) :=
  match x.junk with
  | none => []
  | some (g, gap) => [g ++ gap]

theorem PBlock.good_of_pos (b : PBlock) (off : Nat) (hg : b.Good') (hoff : 0 < off) : b.Good off := by
  cases b with
  | record r => exact ⟨hg, fun h => by omega⟩
  | free ls gap => exact hg

theorem pgarbage_head (g gap : List Nat) (hg : PGarbage g gap) (l : List Nat) : PFollow (g ++ (gap ++ l)) := by
  intro c hc
  cases hgg : g with
  | nil => exact absurd hgg hg.safe.ne
  | cons a t =>
    rw [hgg] at hc; simp at hc; subst hc
    have h1 := hg.safe.head a (by rw [hgg]; rfl)
    have h2 := hg.safe.chars a (by rw [hgg]; simp)
    simp [isWs, h1, h2]

theorem props_walks_gblock (s : Array Nat) (off : Nat) (x : PGBlock) (rest : List Nat) (hg : x.Good off) (hfo : PFollow rest)
    (h : At s off (x.print ++ rest)) :
    Walks (propsNext s) s.size () off (x.entries off) () (off + x.print.length) := by
  obtain ⟨⟨hb, hj⟩, hb0⟩ := hg
  cases hjk : x.junk with
  | none =>
    have hp : x.print = x.b.print := by simp [PGBlock.print, PGBlock.jtext, hjk]
    have he : x.entries off = x.b.entries off := by simp [PGBlock.entries, PGBlock.jtext, hjk]
    rw [hp, he]
    rw [hp] at h
    exact props_walks_block s off x.b rest (hb0 hjk) hfo h
  | some gg =>
    obtain ⟨g, gap⟩ := gg
    have hpg := hj g gap hjk
    obtain ⟨w, hgap, hw⟩ := hpg.gap
    have hgl : 0 < g.length := List.length_pos_iff.mpr hpg.safe.ne
    have hjt : x.jtext = g ++ gap := by simp [PGBlock.jtext, hjk]
    have h1 : At s off (g ++ (gap ++ (x.b.print ++ rest))) := by simpa [At, PGBlock.print, hjt] using h
    have h2 : At s (off + g.length + gap.length) (x.b.print ++ rest) := h1.app.app
    have hst := props_start_match s _ x.b rest hb hfo h2
    have e1 := props_junk_at s off g gap (x.b.print ++ rest) hpg (Or.inr hst) h1
    have hbg : x.b.Good (off + g.length + gap.length) := x.b.good_of_pos _ hb (by omega)
    have w2 := props_walks_block s _ x.b rest hbg hfo h2
    have hp1 := h1.pos_lt (by simp [hpg.safe.ne])
    have w1 : Walks (propsNext s) s.size () off [junkEntry off (off + g.length + gap.length)] () (off + g.length + gap.length) :=
      Walks.one hp1 (by simp [junkEntry]; omega) (by simp [propsNext, e1, junkEntry])
    have := w1.append w2
    simp only [PGBlock.entries, hjk, hjt, PGBlock.print, List.length_append]
    rw [show off + (g.length + gap.length + x.b.print.length) = off + g.length + gap.length + x.b.print.length by omega,
      show off + (g.length + gap.length) = off + g.length + gap.length by omega]
    exact this

theorem pfollow_gblock (x : PGBlock) (off : Nat) (hg : x.Good off) (l : List Nat) : PFollow (x.print ++ l) := by
  obtain ⟨⟨hb, hj⟩, hb0⟩ := hg
  cases hjk : x.junk with
  | none =>
    have hp : x.print = x.b.print := by simp [PGBlock.print, PGBlock.jtext, hjk]
    rw [hp]
    exact pfollow_block x.b off (hb0 hjk) l
  | some gg =>
    obtain ⟨g, gap⟩ := gg
    have := pgarbage_head g gap (hj g gap hjk) (x.b.print ++ l)
    simpa [PGBlock.print, PGBlock.jtext, hjk] using this

theorem props_views_gblock (s : Array Nat) (off : Nat) (x : PGBlock) (rest : List Nat) (hg : x.Good off)
    (h : At s off (x.print ++ rest)) :
    entitiesOf .properties s (x.entries off) = x.b.views ∧ junkOf s (x.entries off) = x.junks := by
  obtain ⟨⟨hb, hj⟩, hb0⟩ := hg
  have hbv : ∀ off', At s off' (x.b.print ++ rest) →
      entitiesOf .properties s (x.b.entries off') = x.b.views ∧ junkOf s (x.b.entries off') = [] := by
    intro off' h'
    cases hxb : x.b with
    | record r =>
      rw [hxb] at h' hb
      have hv := props_view_rec s off' r rest hb h'
      have k1 := r.entity_kind off'
      have k2 := wsEntryN_kind (r.vstart off' + r.value.length) r.gap.length
      constructor
      · simp only [PBlock.entries, PBlock.views, PRecord.entries]
        rw [entitiesOf_cons_entity _ _ _ _ k1, hv, entitiesOf_cons_other _ _ _ _ (by rw [k2]; decide)]; rfl
      · simp only [PBlock.entries, PRecord.entries]
        rw [junkOf_cons_other _ _ _ (by rw [k1]; decide), junkOf_cons_other _ _ _ (by rw [k2]; decide)]; rfl
    | free ls gap =>
      constructor
      · simp only [PBlock.entries, PBlock.views]
        rw [entitiesOf_cons_other _ _ _ _ (by simp [commentEntry]), entitiesOf_cons_other _ _ _ _ (by simp [wsEntryN])]; rfl
      · simp only [PBlock.entries]
        rw [junkOf_cons_other _ _ _ (by simp [commentEntry]), junkOf_cons_other _ _ _ (by simp [wsEntryN])]; rfl
  cases hjk : x.junk with
  | none =>
    have hp : x.print = x.b.print := by simp [PGBlock.print, PGBlock.jtext, hjk]
    rw [hp] at h
    have := hbv off h
    simpa [PGBlock.entries, PGBlock.jtext, PGBlock.junks, hjk] using this
  | some gg =>
    obtain ⟨g, gap⟩ := gg
    have hjt : x.jtext = g ++ gap := by simp [PGBlock.jtext, hjk]
    have h1 : At s off ((g ++ gap) ++ (x.b.print ++ rest)) := by simpa [At, PGBlock.print, hjt] using h
    have h2 := h1.app
    obtain ⟨v1, v2⟩ := hbv _ h2
    have hsl : slice s off (off + g.length + gap.length) = g ++ gap := by
      have := h1.slice
      simpa [Nat.add_assoc] using this
    simp only [PGBlock.entries, hjk, hjt, PGBlock.junks, List.singleton_append]
    rw [entitiesOf_cons_other _ _ _ _ (by simp [junkEntry]), junkOf_cons_junk _ _ _ (by simp [junkEntry]), v1, v2]
    simp [junkEntry, hsl]

/-- the document: blocks (each optionally preceded by a garbage line) and optionally a final garbage line -/
def tailText : Option (List Nat × List Nat) → List Nat
  | none => []
  | some (g, gap) => g ++ gap

def printPropsG (xs : List PGBlock) (tail : Option (List Nat × List Nat)) : List Nat :=
  printBlocks PGBlock.print xs ++ tailText tail

def propsGEntries (xs : List PGBlock) (tail : Option (List Nat × List Nat)) : List Entry :=
  blockEntries PGBlock.print (fun off (_ : Unit) x => PGBlock.entries off x) (fun c _ => c) 0 () xs ++
    (match tail with
     | none => []
     | some (g, gap) => [junkEntry (printBlocks PGBlock.print xs).length ((printBlocks PGBlock.print xs).length + g.length + gap.length)])

def propsGViews (xs : List PGBlock) : List (Option EntView) := (xs.map (fun x => x.b.views)).flatten

def propsGJunk (xs : List PGBlock) (tail : Option (List Nat × List Nat)) : List (List Nat) :=
  (xs.map PGBlock.junks).flatten ++ (match tail with | none => [] | some (g, gap) => [g ++ gap])

theorem PGBlock.print_len (x : PGBlock) (off : Nat) (hg : x.Good off) : 1 ≤ x.print.length := by
  obtain ⟨⟨hb, hj⟩, hb0⟩ := hg
  have : 1 ≤ x.b.print.length := by
    cases hxb : x.b with
    | record r => have := r.key.print_length; simp only [PBlock.print, r.print_length]; omega
    | free ls gap =>
      rw [hxb] at hb
      have := printCLines_len ls
      have : 0 < ls.length := List.length_pos_iff.mpr hb.1
      simp only [PBlock.print, List.length_append]; omega
  simp only [PGBlock.print, List.length_append]; omega

theorem propsGGoodAll (xs : List PGBlock) (hg : ∀ x ∈ xs, x.Good') :
    ∀ off, (∀ x r, xs.head? = some x → x.junk = none → x.b = .record r → r.NoLicense off) →
      GoodAll PGBlock.print (fun (c : Unit) _ => c) (fun off _ x => PGBlock.Good off x) off () xs := by
  induction xs with
  | nil => intro off _; trivial
  | cons x xs ih =>
    intro off hl
    have hx : x.Good off := by
      refine ⟨hg x (by simp), fun hn => ?_⟩
      cases hxb : x.b with
      | record r => exact ⟨by have := (hg x (by simp)).1; rw [hxb] at this; exact this, hl x r rfl hn hxb⟩
      | free ls gap => have := (hg x (by simp)).1; rw [hxb] at this; exact this
    refine ⟨hx, ih (fun y hy => hg y (by simp [hy])) _ ?_⟩
    intro y r _ _ _ h0
    have := x.print_len off hx
    omega

/-- GARBAGE LOCALITY, properties, with comments and every layout of the block class -/
theorem walk_props_garbage (xs : List PGBlock) (tail : Option (List Nat × List Nat)) (hg : ∀ x ∈ xs, x.Good')
    (htail : ∀ g gap, tail = some (g, gap) → PGarbage g gap)
    (hlic : ∀ x r, xs.head? = some x → x.junk = none → x.b = .record r → r.NoLicense 0) :
    walk .properties (printPropsG xs tail).toArray = .done (propsGEntries xs tail) ∧
      entitiesOf .properties (printPropsG xs tail).toArray (propsGEntries xs tail) = propsGViews xs ∧
      junkOf (printPropsG xs tail).toArray (propsGEntries xs tail) = propsGJunk xs tail := by
  generalize hs : (printPropsG xs tail).toArray = s
  have hall := propsGGoodAll xs hg 0 hlic
  generalize htt' : tailText tail = tt
  have hat : At s 0 (printBlocks PGBlock.print xs ++ tt) := by rw [← hs, ← htt']; simp [At, printPropsG]
  have hfo : PFollow tt := by
    cases htl : tail with
    | none => intro c hc; rw [← htt', htl] at hc; simp [tailText] at hc
    | some gg =>
      obtain ⟨g, gap⟩ := gg
      have := pgarbage_head g gap (htail g gap htl) []
      rw [← htt', htl]
      simpa [tailText] using this
  have hw := (walks_blocks (propsNext s) s PGBlock.print
      (fun off (_ : Unit) x => PGBlock.entries off x) (fun c _ => c) (fun off _ x => PGBlock.Good off x) PFollow
      (fun b _ off rest g h f => props_walks_gblock s off b rest g f h)
      (fun b _ off rest g _ => pfollow_gblock b off g rest) xs () 0 tt hall hat hfo).1
  have hv := (views_blocks .properties s PGBlock.print
      (fun off (_ : Unit) x => PGBlock.entries off x) (fun c _ => c) (fun off _ x => PGBlock.Good off x) PFollow
      (fun x => x.b.views) PGBlock.junks
      (fun b _ off rest g h _ => props_views_gblock s off b rest g h)
      (fun b _ off rest g _ => pfollow_gblock b off g rest) xs () 0 tt hall hat hfo).1
  simp only [Nat.zero_add] at hw
  have hlen : s.size = (printBlocks PGBlock.print xs).length + tt.length := by rw [← hs, ← htt']; simp [printPropsG]
  unfold walk
  simp only []
  cases htl : tail with
  | none =>
    have htt : tt = [] := by rw [← htt', htl]; rfl
    rw [htt] at hlen
    simp only [List.length_nil, Nat.add_zero] at hlen
    have hd := hw.done (by omega) (s.size + 1) (by have := hw.length_le.1; omega)
    refine ⟨?_, ?_, ?_⟩
    · simpa [propsGEntries, htl] using hd
    · simpa [propsGEntries, propsGViews, htl] using hv.1
    · simpa [propsGEntries, propsGJunk, htl] using hv.2
  | some gg =>
    obtain ⟨g, gap⟩ := gg
    have hpg := htail g gap htl
    have htt : tt = g ++ gap := by rw [← htt', htl]; rfl
    have hgl : 0 < g.length := List.length_pos_iff.mpr hpg.safe.ne
    rw [htt] at hlen hat
    have h2 : At s (0 + (printBlocks PGBlock.print xs).length) (g ++ (gap ++ [])) := by simpa using hat.app
    rw [Nat.zero_add] at h2
    have e1 := props_junk_at s _ g gap [] hpg (Or.inl rfl) h2
    have w1 : Walks (propsNext s) s.size () (printBlocks PGBlock.print xs).length
        [junkEntry (printBlocks PGBlock.print xs).length ((printBlocks PGBlock.print xs).length + g.length + gap.length)] ()
        ((printBlocks PGBlock.print xs).length + g.length + gap.length) :=
      Walks.one (by simp at hlen; omega) (by simp [junkEntry]; omega) (by simp [propsNext, e1, junkEntry])
    have hwa := hw.append w1
    have hd := hwa.done (by simp at hlen; omega) (s.size + 1) (by have := hwa.length_le.1; simp at hlen; omega)
    have hsl : slice s (printBlocks PGBlock.print xs).length ((printBlocks PGBlock.print xs).length + g.length + gap.length) = g ++ gap := by
      have : At s (printBlocks PGBlock.print xs).length ((g ++ gap) ++ []) := by simpa using h2
      have := this.slice
      simpa [Nat.add_assoc] using this
    refine ⟨?_, ?_, ?_⟩
    · simpa [propsGEntries, htl] using hd
    · simp only [propsGEntries, htl, entitiesOf_append, hv.1, propsGViews]
      rw [entitiesOf_cons_other _ _ _ _ (by simp [junkEntry])]; simp
    · simp only [propsGEntries, htl, junkOf_append, hv.2, propsGJunk]
      rw [junkOf_cons_junk _ _ _ (by simp [junkEntry])]; simp [junkEntry, hsl]

end C02P

/-
C15R, part 2: versions that are `.properties` files printed from safe records (`P.printProps`, the class of C02): the
entries the merge sees, the merged text as a sequence of printed records and newlines, its re-parse.
-/
import CLModel.Proofs.C15RMerge
import CLModel.Proofs.C16RProps
import CLModel.Proofs.C04Reparse
namespace C15R
open AR Merge C16R
open P (PRec printRec printProps SafeRec)

/-- what the merge sees of the entity parsed from `key=value` (object number `n` of version `ver`) -/
def mE (ver n : Nat) (r : PRec) : Ent :=
  { kind := .entity, ekey := .str r.1, val := [], all := r.1 ++ 61 :: r.2, oid := (ver, n) }

/-- … and of the one-newline white-space entry -/
def mW (ver n : Nat) : Ent := { kind := .whitespace, ekey := .str [10], val := [], all := [10], oid := (ver, n) }

/-- the entries of a printed version -/
def ments (ver : Nat) : Nat → List PRec → List Ent
  | _, [] => []
  | n, r :: rs => mE ver n r :: mW ver (n + 1) :: ments ver (n + 2) rs

/-! ### the walk, as the merge sees it -/

theorem toEnt_entity (f : P.Fmt) (hf : (f == P.Fmt.po) = false) (s : Array Nat) (off : Nat) (r : PRec) (rest : List Nat)
    (ver idx : Nat) (h : s.toList.drop off = printRec r ++ rest) :
    toEnt f s ver idx (P.propsEntity_c02 off r.1.length r.2.length) = .ok (mE ver idx r) := by
  obtain ⟨_, ekey, _, eall, _⟩ := rec_slices s off r rest h
  have hk : ((off : Int) + (r.1.length : Int)).toNat = off + r.1.length := by omega
  simp [toEnt, ekeyOf, hf, P.propsEntity_c02, P.Entry.all, mE, hk, ekey, eall]

theorem toEnt_ws (f : P.Fmt) (hf : (f == P.Fmt.po) = false) (s : Array Nat) (nl ver idx : Nat) (h : s[nl]? = some 10) :
    toEnt f s ver idx (P.wsEntry nl) = .ok (mW ver idx) := by
  have := nl_slice s nl h
  simp [toEnt, ekeyOf, hf, P.wsEntry, P.Entry.all, mW, this]

theorem toEnts_expEntries (f : P.Fmt) (hf : (f == P.Fmt.po) = false) (s : Array Nat) (ver : Nat) :
    ∀ (rs : List PRec) (off n : Nat), s.toList.drop off = printProps rs →
      toEnts f s ver ((P.expEntries off rs).zipIdx n) = .ok (ments ver n rs) := by
  intro rs
  induction rs with
  | nil => intro off n _; rfl
  | cons r rs ih =>
    intro off n h
    have hpp : printProps (r :: rs) = printRec r ++ printProps rs := by simp [printProps]
    rw [hpp] at h
    obtain ⟨hdrop, hnl⟩ := after_rec s off r rs h
    simp only [P.expEntries, List.zipIdx_cons, toEnts, ments]
    rw [toEnt_entity f hf s off r _ ver n h, toEnt_ws f hf s _ ver (n + 1) hnl, ih _ (n + 1 + 1) hdrop]

theorem walkEnts_printed (ver : Nat) (rs : List PRec) (h : ∀ r ∈ rs, SafeRec r) :
    walkEnts .properties ver (printProps rs).toArray = .ok (ments ver 0 rs) := by
  unfold walkEnts
  rw [P.walk_props_printed rs h]
  exact toEnts_expEntries .properties rfl _ ver rs 0 0 (by simp)

/-- the entry lists of all versions -/
def mvers (j : Nat) (vers : List (List PRec)) : List (List Ent) := (vers.zipIdx j).map (fun p => ments p.2 0 p.1)

theorem walkAll_printed : ∀ (vers : List (List PRec)) (j : Nat), (∀ rs ∈ vers, ∀ r ∈ rs, SafeRec r) →
    walkAll .properties ((vers.map (fun rs => (printProps rs).toArray)).zipIdx j) = .ok (mvers j vers) := by
  intro vers
  induction vers with
  | nil => intro _ _; rfl
  | cons rs vers ih =>
    intro j h
    simp only [List.map_cons, List.zipIdx_cons, walkAll, mvers]
    rw [walkEnts_printed j rs (h rs (by simp)), ih (j + 1) (fun rs' hrs' => h rs' (by simp [hrs']))]
    rfl

theorem mvers_getElem? (vers : List (List PRec)) (i : Nat) :
    (mvers 0 vers)[i]? = (vers[i]?).map (fun rs => ments i 0 rs) := by
  unfold mvers
  rw [List.getElem?_map, List.getElem?_zipIdx]
  cases vers[i]? <;> simp

/-! ### facts about one printed version -/

theorem alt_ments (ver : Nat) : ∀ (rs : List PRec) (n : Nat), Alt Ent.isWs (ments ver n rs) := by
  intro rs
  induction rs with
  | nil => intro _; trivial
  | cons r rs ih => intro n; exact ⟨.inr rfl, .inl rfl, ih (n + 2)⟩

theorem keys_ments (ver : Nat) : ∀ (rs : List PRec) (n : Nat),
    ((ments ver n rs).filter (·.keyed)).map (·.ekey) = rs.map (fun r => EKey.str r.1) := by
  intro rs
  induction rs with
  | nil => intro _; rfl
  | cons r rs ih =>
    intro n
    have h1 : (mE ver n r).keyed = true := rfl
    have h2 : (mW ver (n + 1)).keyed = false := rfl
    simp only [ments, List.filter_cons, h1, h2, if_true, Bool.false_eq_true, if_false, List.map_cons, ih]
    rfl

theorem nodup_map_str : ∀ (l : List (List Nat)), l.Nodup → (l.map EKey.str).Nodup := by
  intro l
  induction l with
  | nil => intro _; simp
  | cons a l ih =>
    intro h
    rw [List.nodup_cons] at h
    rw [List.map_cons, List.nodup_cons]
    refine ⟨?_, ih h.2⟩
    intro hm
    rw [List.mem_map] at hm
    obtain ⟨b, hb, e⟩ := hm
    injection e with e
    subst e
    exact h.1 hb

theorem nodupKeys_ments (ver n : Nat) (rs : List PRec) (h : (rs.map (·.1)).Nodup) : NodupKeys (ments ver n rs) := by
  unfold NodupKeys
  rw [keys_ments]
  have := nodup_map_str _ h
  rwa [List.map_map] at this

theorem mem_ments (ver : Nat) : ∀ (rs : List PRec) (n : Nat) (e : Ent), e ∈ ments ver n rs →
    (∃ i, e = mW ver i) ∨ ∃ r ∈ rs, ∃ i, e = mE ver i r := by
  intro rs
  induction rs with
  | nil => intro _ e he; simp [ments] at he
  | cons r rs ih =>
    intro n e he
    simp only [ments, List.mem_cons] at he
    rcases he with rfl | rfl | he
    · exact .inr ⟨r, by simp, n, rfl⟩
    · exact .inl ⟨n + 1, rfl⟩
    · rcases ih (n + 2) e he with h | ⟨r', hr', h⟩
      · exact .inl h
      · exact .inr ⟨r', by simp [hr'], h⟩

theorem mE_mem_ments (ver : Nat) : ∀ (rs : List PRec) (n : Nat) (r : PRec), r ∈ rs → ∃ i, mE ver i r ∈ ments ver n rs := by
  intro rs
  induction rs with
  | nil => intro _ r hr; simp at hr
  | cons r' rs ih =>
    intro n r hr
    rcases List.mem_cons.1 hr with rfl | hr'
    · exact ⟨n, by simp [ments]⟩
    · obtain ⟨i, hi⟩ := ih (n + 2) r hr'
      exact ⟨i, by simp [ments, hi]⟩

/-! ### the entries of the merged dict, one by one -/

/-- the record stored under a dict entry: key from the dict key, value = the text after `key=` -/
def recP (p : Key × Ent) : PRec :=
  match p.1 with
  | .ent (.str k) => (k, p.2.all.drop (k.length + 1))
  | _ => ([], [])

/-- a one-newline Whitespace object, or an entity stored under its key whose text is `key=value` for a safe record -/
def GoodP (Sf : PRec → Prop) (p : Key × Ent) : Prop :=
  (p.2.isWs = true ∧ p.2.all = [10]) ∨
  (p.2.isWs = false ∧ Sf (recP p) ∧ p.1 = Key.ent (.str (recP p).1) ∧ p.2.all = (recP p).1 ++ 61 :: (recP p).2)

theorem recP_of (p : Key × Ent) (r : PRec) (h1 : p.1 = Key.ent (.str r.1)) (h2 : p.2.all = r.1 ++ 61 :: r.2) :
    recP p = r := by
  unfold recP
  rw [h1, h2]
  simp only
  have : (r.1 ++ 61 :: r.2).drop (r.1.length + 1) = r.2 := by
    rw [show r.1 ++ 61 :: r.2 = (r.1 ++ [61]) ++ r.2 by simp]
    exact List.drop_left' (by simp)
  rw [this]

theorem goodP_of {Sf : PRec → Prop} (p : Key × Ent) (r : PRec) (hs : Sf r) (hw : p.2.isWs = false)
    (h1 : p.1 = Key.ent (.str r.1)) (h2 : p.2.all = r.1 ++ 61 :: r.2) : GoodP Sf p := by
  have := recP_of p r h1 h2
  exact .inr ⟨hw, by rw [this]; exact hs, by rw [this]; exact h1, by rw [this]; exact h2⟩

theorem good_versionDict (i n : Nat) (rs : List PRec) (hs : ∀ r ∈ rs, SafeRec r) :
    ∀ p ∈ versionDict i (ments i n rs), GoodP SafeRec p := by
  intro p hp
  obtain ⟨e, he, hsb, hkey⟩ := versionDict_mem_inv i _ p hp
  rcases mem_ments i rs n e he with ⟨j, rfl⟩ | ⟨r, hr, j, rfl⟩
  · left
    exact ⟨by rw [sameBut_isWs _ _ hsb]; rfl, by rw [hsb.2.2.2]; rfl⟩
  · exact goodP_of p r (hs r hr) (by rw [sameBut_isWs _ _ hsb]; rfl) (hkey rfl) (by rw [hsb.2.2.2]; rfl)

theorem mem_versionDicts_mvers (vers : List (List PRec)) (dv : Dict) (h : dv ∈ versionDicts (mvers 0 vers)) :
    ∃ i rs, vers[i]? = some rs ∧ dv = versionDict i (ments i 0 rs) := by
  obtain ⟨i, es, hi, rfl⟩ := (mem_versionDicts _ dv).1 h
  rw [mvers_getElem?] at hi
  cases hv : vers[i]? with
  | none => rw [hv] at hi; simp at hi
  | some rs =>
    rw [hv] at hi
    simp only [Option.map_some, Option.some.injEq] at hi
    exact ⟨i, rs, hv, by rw [← hi]⟩

/-! ### from the dict to text -/

/-- a dict of good entries in which every entity is followed by a Whitespace object is, serialised, a sequence of
    printed records and newlines -/
theorem toks_of_alt (Sf : PRec → Prop) : ∀ d : List (Key × Ent), Alt pws d → (∀ p ∈ d, GoodP Sf p) →
    ∃ t : List C04R.Tok, C04R.printToks t = serialize d ∧
      C04R.recsOf t = (nws d).map recP ∧
      (hw pws d = true → ∃ t', t = C04R.Tok.nl :: t') := by
  intro d
  induction d with
  | nil => intro _ _; exact ⟨[], rfl, rfl, by intro h; simp [hw] at h⟩
  | cons p rest ih =>
    intro ha hg
    obtain ⟨t, h1, h2, h3⟩ := ih ha.2 (fun x hx => hg x (List.mem_cons_of_mem _ hx))
    have hsl : serialize (p :: rest) = p.2.all ++ serialize rest := by simp [serialize]
    rcases hg p List.mem_cons_self with ⟨hw1, hall⟩ | ⟨hw1, _, _, hall⟩
    · refine ⟨C04R.Tok.nl :: t, ?_, ?_, fun _ => ⟨t, rfl⟩⟩
      · rw [hsl, hall, C04R.printToks, h1]; rfl
      · rw [C04R.recsOf, h2, nws, nws, List.filter_cons_of_neg (by simp [hw1])]
    · have hh : hw pws rest = true := by
        rcases ha.1 with h | h
        · rw [show pws p = p.2.isWs from rfl, hw1] at h; exact absurd h (by simp)
        · exact h
      obtain ⟨t', rfl⟩ := h3 hh
      refine ⟨C04R.Tok.record (recP p) :: t', ?_, ?_, ?_⟩
      · rw [hsl, hall, C04R.printToks, ← h1, C04R.printToks]
        simp [printRec]
      · rw [C04R.recsOf, nws, List.filter_cons_of_pos (by simp [hw1]), List.map_cons, ← nws, ← h2, C04R.recsOf]
      · intro h
        simp only [hw] at h
        rw [show pws p = p.2.isWs from rfl, hw1] at h
        exact absurd h (by simp)

theorem safe_records (Sf : PRec → Prop) (d : List (Key × Ent)) (hg : ∀ p ∈ d, GoodP Sf p) :
    ∀ r ∈ (nws d).map recP, Sf r := by
  intro r hr
  rw [List.mem_map] at hr
  obtain ⟨p, hp, rfl⟩ := hr
  rw [nws, List.mem_filter] at hp
  rcases hg p hp.1 with ⟨hw1, _⟩ | ⟨_, hs, _, _⟩
  · rw [hw1] at hp; exact absurd hp.2 (by simp)
  · exact hs

/-! ### the merged text re-parses -/

/-- For printed versions (safe records, distinct keys per version): the merge succeeds; the merged dict `d` is
    well-formed, made of good entries; the merged text re-parses, junk-free, into exactly the records of the entries
    of `d` that are not Whitespace, in dict order. -/
theorem merge_reparses_core (v : List PRec) (vs : List (List PRec))
    (hsafe : ∀ rs ∈ v :: vs, ∀ r ∈ rs, SafeRec r) (hnd : ∀ rs ∈ v :: vs, (rs.map (·.1)).Nodup) :
    ∃ t es d, mergeTexts .properties ((v :: vs).map (fun rs => (printProps rs).toArray)) = .ok t ∧
      mergeResources (mvers 0 (v :: vs)) = some d ∧ WF d ∧ (∀ p ∈ d, GoodP SafeRec p) ∧
      P.walk .properties t.toArray = .done es ∧
      P.entitiesOf .properties t.toArray es = ((nws d).map recP).map P.expectedView ∧
      P.junkOf t.toArray es = [] := by
  have hwa := walkAll_printed (v :: vs) 0 hsafe
  have hsome : ∃ d, mergeResources (mvers 0 (v :: vs)) = some d := by
    rw [mergeResources_eq]
    cases hvd : versionDicts (mvers 0 (v :: vs)) with
    | nil => simp [versionDicts, mvers] at hvd
    | cons d0 ds => exact ⟨_, rfl⟩
  obtain ⟨d, hd⟩ := hsome
  obtain ⟨hwf, hmem, halt⟩ := merged_alt _ d hd
  have hgood : ∀ p ∈ d, GoodP SafeRec p := by
    intro p hp
    obtain ⟨dv, hdv, hpd⟩ := hmem p hp
    obtain ⟨i, rs, hi, rfl⟩ := mem_versionDicts_mvers _ dv hdv
    exact good_versionDict i 0 rs (hsafe rs (List.mem_of_getElem? hi)) p hpd
  have ha : Alt pws d := by
    apply halt
    intro dv hdv
    obtain ⟨i, rs, hi, rfl⟩ := mem_versionDicts_mvers _ dv hdv
    exact alt_versionDict i _ (nodupKeys_ments i 0 rs (hnd rs (List.mem_of_getElem? hi))) (alt_ments i rs 0)
  obtain ⟨t, h1, h2, _⟩ := toks_of_alt SafeRec d ha hgood
  have hsf : ∀ r ∈ C04R.recsOf t, SafeRec r := by rw [h2]; exact safe_records SafeRec d hgood
  obtain ⟨es, hw1, hw2, hw3⟩ := C04R.walk_toks t hsf
  refine ⟨serialize d, es, d, ?_, hd, hwf, hgood, ?_, ?_, ?_⟩
  · unfold mergeTexts
    rw [hwa]
    simp only [hd]
  · rw [← h1]; exact hw1
  · rw [← h1, hw2, h2]
  · rw [← h1]; exact hw3

/-! ### which records -/

theorem nws_keys {Sf : PRec → Prop} (d : List (Key × Ent)) (hgood : ∀ p ∈ d, GoodP Sf p) :
    (nws d).map (·.1) = ((nws d).map recP).map (fun r => Key.ent (.str r.1)) := by
  rw [List.map_map]
  apply List.map_congr_left
  intro p hp
  rw [nws, List.mem_filter] at hp
  rcases hgood p hp.1 with ⟨hw1, _⟩ | ⟨_, _, hk, _⟩
  · rw [hw1] at hp; exact absurd hp.2 (by simp)
  · exact hk

theorem mem_recs_iff {Sf : PRec → Prop} (d : Dict) (hwf : WF d) (hgood : ∀ p ∈ d, GoodP Sf p) (k : List Nat) :
    k ∈ ((nws d).map recP).map (·.1) ↔ Key.ent (.str k) ∈ keysOf d := by
  constructor
  · intro h
    rw [List.map_map, List.mem_map] at h
    obtain ⟨p, hp, rfl⟩ := h
    rw [nws, List.mem_filter] at hp
    rcases hgood p hp.1 with ⟨hw1, _⟩ | ⟨_, _, hk, _⟩
    · rw [hw1] at hp; exact absurd hp.2 (by simp)
    · unfold keysOf
      rw [List.mem_map]
      exact ⟨p, hp.1, hk⟩
  · intro h
    unfold keysOf at h
    rw [List.mem_map] at h
    obtain ⟨p, hp, hk⟩ := h
    rcases hgood p hp with ⟨hw1, _⟩ | ⟨hw1, _, hk', _⟩
    · exfalso
      have := (hwf.ok p hp).1 hw1
      rw [this] at hk
      cases hk
    · rw [List.map_map, List.mem_map]
      refine ⟨p, by rw [nws, List.mem_filter]; exact ⟨hp, by simp [hw1]⟩, ?_⟩
      rw [hk'] at hk
      injection hk with hk
      injection hk with hk

theorem nodup_of_map {α β : Type} (f : α → β) : ∀ l : List α, (l.map f).Nodup → l.Nodup
  | [], _ => List.nodup_nil
  | a :: l, h => by
    rw [List.map_cons, List.nodup_cons] at h
    rw [List.nodup_cons]
    exact ⟨fun hm => h.1 (List.mem_map.2 ⟨a, hm, rfl⟩), nodup_of_map f l h.2⟩

/-- the records of the merged dict: every key of every version exactly once, the newest version's record for it.
    `hkeys` and `hnew` are `C15.merged_entity_keys` and `C15.newest_text` for this merge. -/
theorem recs_facts (vers : List (List PRec)) (d : Dict) (hwf : WF d) (hgood : ∀ p ∈ d, GoodP SafeRec p)
    (hsafe : ∀ rs ∈ vers, ∀ r ∈ rs, SafeRec r) (hnd : ∀ rs ∈ vers, (rs.map (·.1)).Nodup)
    (hkeys : ∀ ek, Key.ent ek ∈ keysOf d ↔ ∃ es ∈ mvers 0 vers, ∃ e ∈ es, e.keyed = true ∧ e.ekey = ek)
    (hnew : ∀ (i : Nat) (es : List Ent), (mvers 0 vers)[i]? = some es → NodupKeys es → ∀ e ∈ es, e.keyed = true →
      (∀ j < i, ∀ es', (mvers 0 vers)[j]? = some es' → ∀ e' ∈ es', e'.keyed = true → e'.ekey ≠ e.ekey) →
      (dget d (Key.ent e.ekey)).map (·.all) = some e.all) :
    (((nws d).map recP).map (·.1)).Nodup ∧
    (∀ k, k ∈ ((nws d).map recP).map (·.1) ↔ ∃ rs ∈ vers, k ∈ rs.map (·.1)) ∧
    (∀ (i : Nat) (rs : List PRec) (r : PRec), vers[i]? = some rs → r ∈ rs →
      (∀ j < i, ∀ rs' : List PRec, vers[j]? = some rs' → r.1 ∉ rs'.map (·.1)) → r ∈ (nws d).map recP) := by
  refine ⟨?_, ?_, ?_⟩
  · -- keys once
    have h1 : ((nws d).map (·.1)).Nodup := by
      have : ((nws d).map (·.1)).Sublist (d.map (·.1)) := (List.filter_sublist (l := d)).map _
      exact hwf.nodup.sublist this
    rw [nws_keys d hgood] at h1
    have e : ((nws d).map recP).map (fun r => Key.ent (.str r.1))
        = (((nws d).map recP).map (·.1)).map (fun k => Key.ent (.str k)) := by
      simp [List.map_map]
    rw [e] at h1
    exact nodup_of_map _ _ h1
  · intro k
    rw [mem_recs_iff d hwf hgood, hkeys]
    constructor
    · rintro ⟨es, hes, e, he, hkeyed, hek⟩
      obtain ⟨i, hi, hget⟩ := List.mem_iff_getElem.1 hes
      have hi' : (mvers 0 vers)[i]? = some es := by rw [List.getElem?_eq_getElem hi, hget]
      rw [mvers_getElem?] at hi'
      cases hv : vers[i]? with
      | none => rw [hv] at hi'; simp at hi'
      | some rs =>
        rw [hv] at hi'
        simp only [Option.map_some, Option.some.injEq] at hi'
        subst hi'
        refine ⟨rs, List.mem_of_getElem? hv, ?_⟩
        rcases mem_ments i rs 0 e he with ⟨j, rfl⟩ | ⟨r, hr, j, rfl⟩
        · exact absurd hkeyed (by simp [mW, Ent.keyed])
        · simp only [mE, EKey.str.injEq] at hek
          rw [← hek]
          exact List.mem_map.2 ⟨r, hr, rfl⟩
    · rintro ⟨rs, hrs, hk⟩
      rw [List.mem_map] at hk
      obtain ⟨r, hr, rfl⟩ := hk
      obtain ⟨i, hi, hget⟩ := List.mem_iff_getElem.1 hrs
      have hv : vers[i]? = some rs := by rw [List.getElem?_eq_getElem hi, hget]
      obtain ⟨j, hj⟩ := mE_mem_ments i rs 0 r hr
      refine ⟨ments i 0 rs, ?_, mE i j r, hj, rfl, rfl⟩
      apply List.mem_of_getElem? (i := i)
      rw [mvers_getElem?, hv]
      rfl
  · intro i rs r hv hr hfirst
    obtain ⟨j, hj⟩ := mE_mem_ments i rs 0 r hr
    have hi : (mvers 0 vers)[i]? = some (ments i 0 rs) := by rw [mvers_getElem?, hv]; rfl
    have hn := hnew i _ hi (nodupKeys_ments i 0 rs (hnd rs (List.mem_of_getElem? hv))) (mE i j r) hj rfl (by
      intro j' hj' es' hes' e' he' hkeyed' hek
      rw [mvers_getElem?] at hes'
      cases hv' : vers[j']? with
      | none => rw [hv'] at hes'; simp at hes'
      | some rs' =>
        rw [hv'] at hes'
        simp only [Option.map_some, Option.some.injEq] at hes'
        subst hes'
        rcases mem_ments j' rs' 0 e' he' with ⟨_, rfl⟩ | ⟨r', hr', _, rfl⟩
        · exact absurd hkeyed' (by simp [mW, Ent.keyed])
        · simp only [mE, EKey.str.injEq] at hek
          exact hfirst j' hj' rs' hv' (List.mem_map.2 ⟨r', hr', hek⟩))
    -- the entry stored under the key
    cases hg : dget d (Key.ent (mE i j r).ekey) with
    | none => rw [hg] at hn; simp at hn
    | some e =>
      rw [hg] at hn
      simp only [Option.map_some, Option.some.injEq] at hn
      have hm := dget_mem d _ _ hg
      have hw1 : e.isWs = false := by
        cases h : e.isWs
        · rfl
        · have := (hwf.ok _ hm).1 h
          cases this
      rw [List.mem_map]
      refine ⟨(Key.ent (.str r.1), e), by rw [nws, List.mem_filter]; exact ⟨hm, by simp [hw1]⟩, ?_⟩
      exact recP_of _ r rfl hn

end C15R

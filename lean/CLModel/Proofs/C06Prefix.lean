/- C06 helper lemmas, part 4: when `b` is a prefix of `a`, `get_opcodes` is
   `[equal 0..|b|, delete |b|..|a|]` — for sequences of ANY length (the autojunk heuristic
   included). -/
import CLModel.Checks.Difflib
import CLModel.Proofs.C06Blocks
namespace Difflib
variable {α : Type} [DecidableEq α]

/-- `b[j]` exists and is not popular -/
def npB (b : List α) (j : Nat) : Bool :=
  match b[j]? with
  | some x => !decide (popular b x)
  | none => false

/-- length of the run of non-popular elements of `b` ending at `j` -/
def nprun (b : List α) : Nat → Nat
  | 0 => if npB b 0 then 1 else 0
  | j + 1 => if npB b (j + 1) then nprun b j + 1 else 0

theorem Mrel_chainB (a b : List α) (i j : Nat) :
    Mrel a (chainB b) i j = true ↔ ∃ x, a[i]? = some x ∧ b[j]? = some x ∧ ¬ popular b x := by
  unfold Mrel
  cases h : a[i]? with
  | none => simp
  | some x =>
    simp only [decide_eq_true_eq, chainB_get]
    constructor
    · intro hm
      split at hm
      · simp at hm
      · rename_i hp
        exact ⟨x, rfl, by simpa using (mem_idxFrom.mp hm).2, hp⟩
    · rintro ⟨y, hy, hb, hp⟩
      cases hy
      simp only [hp, if_false]
      exact mem_idxFrom.mpr ⟨by omega, by simpa using hb⟩

section prefix_
variable (b t : List α)

theorem pre_get {i : Nat} (h : i < b.length) : (b ++ t)[i]? = b[i]? := by
  rw [List.getElem?_append_left h]

theorem M_np {i j : Nat} (h : Mrel (b ++ t) (chainB b) i j = true) : npB b j = true := by
  obtain ⟨x, _, hb, hp⟩ := (Mrel_chainB _ _ _ _).mp h
  simp [npB, hb, hp]

theorem M_diag {i : Nat} (h : i < b.length) : Mrel (b ++ t) (chainB b) i i = npB b i := by
  rw [Bool.eq_iff_iff, Mrel_chainB, pre_get b t h]
  simp only [npB]
  rw [List.getElem?_eq_getElem h]
  simp

theorem M_to_diag {i j : Nat} (h : i < b.length) (hm : Mrel (b ++ t) (chainB b) i j = true) :
    Mrel (b ++ t) (chainB b) i i = true := by
  obtain ⟨x, ha, hb, hp⟩ := (Mrel_chainB _ _ _ _).mp hm
  rw [Mrel_chainB]
  exact ⟨x, ha, by rw [← pre_get b t h]; exact ha, hp⟩

/-- abbreviation: the DP row of the top-level box -/
abbrev R (n j : Nat) : Nat := rowv (Mrel (b ++ t) (chainB b)) 0 b.length 0 n j

theorem R_succ (n j : Nat) :
    R b t (n + 1) j = if Mrel (b ++ t) (chainB b) n j = true ∧ j < b.length then
      (if j = 0 then 0 else R b t n (j - 1)) + 1 else 0 := by
  simp [R, rowv]

theorem R_le_nprun : ∀ n j, R b t n j ≤ nprun b j := by
  intro n
  induction n with
  | zero => intro j; simp [R, rowv]
  | succ n ih =>
    intro j
    rw [R_succ]
    split
    · rename_i hc
      have hnp := M_np b t hc.1
      cases j with
      | zero => simp [nprun, hnp]
      | succ j =>
        simp only [Nat.add_one_ne_zero, if_false, Nat.add_sub_cancel, nprun, hnp, if_true]
        have := ih j
        omega
    · omega

theorem R_diag : ∀ i, i < b.length → R b t (i + 1) i = nprun b i := by
  intro i
  induction i with
  | zero =>
    intro h
    rw [R_succ, M_diag b t h]
    simp [nprun, h]
  | succ i ih =>
    intro h
    rw [R_succ, M_diag b t h]
    simp only [h, and_true, Nat.add_one_ne_zero, if_false, Nat.add_sub_cancel, nprun]
    rw [ih (by omega)]

theorem R_off_le : ∀ i j, i < j → j < b.length → R b t (i + 1) j ≤ R b t (i + 1) i := by
  intro i
  induction i with
  | zero =>
    intro j hij hj
    rw [R_succ, R_succ]
    split
    · rename_i hc
      have := M_to_diag b t (by omega) hc.1
      have h0 : 0 < b.length := by omega
      simp only [this, h0, and_self, if_true]
      have : j ≠ 0 := by omega
      simp [this, R, rowv]
    · omega
  | succ i ih =>
    intro j hij hj
    rw [R_succ (j := j), R_succ (j := i + 1)]
    split
    · rename_i hc
      have hd := M_to_diag b t (by omega) hc.1
      have h0 : i + 1 < b.length := by omega
      have hj0 : j ≠ 0 := by omega
      simp only [hd, h0, and_self, if_true, hj0, if_false, Nat.add_one_ne_zero, Nat.add_sub_cancel]
      have := ih (j - 1) (by omega) (by omega)
      omega
    · omega

omit [DecidableEq α] in
/-- the fold of one row keeps `best` on the diagonal (list-level statement) -/
theorem diag_fold (n : Nat) (val : Nat → Nat) :
    ∀ (js : List Nat) (c : Block), c.i = c.j → js.Pairwise (· < ·) →
      (∀ j ∈ js, j < n → val j ≤ c.k) →
      (∀ j ∈ js, n < j → (n ∈ js ∨ val n ≤ c.k) ∧ val j ≤ val n) →
      (js.foldl (fun c j => if val j > c.k then ⟨n + 1 - val j, j + 1 - val j, val j⟩ else c) c).i =
        (js.foldl (fun c j => if val j > c.k then ⟨n + 1 - val j, j + 1 - val j, val j⟩ else c) c).j ∧
      c.k ≤ (js.foldl (fun c j => if val j > c.k then ⟨n + 1 - val j, j + 1 - val j, val j⟩ else c) c).k ∧
      (n ∈ js → val n ≤ (js.foldl (fun c j => if val j > c.k then ⟨n + 1 - val j, j + 1 - val j, val j⟩ else c) c).k) := by
  intro js
  induction js with
  | nil => intro c hd _ _ _; simp [hd]
  | cons j rest ih =>
    intro c hd hasc hlow hhigh
    have hgt := (List.pairwise_cons.mp hasc).1
    have hasc' := (List.pairwise_cons.mp hasc).2
    simp only [List.foldl_cons]
    rcases Nat.lt_trichotomy j n with hjn | hjn | hjn
    · -- below the diagonal: no update
      have hv := hlow j (by simp) hjn
      have hne : ¬ val j > c.k := by omega
      simp only [hne, if_false]
      obtain ⟨r1, r2, r3⟩ := ih c hd hasc' (fun j' hj' => hlow j' (by simp [hj']))
        (by
          intro j' hj' hn
          obtain ⟨h1, h2⟩ := hhigh j' (by simp [hj']) hn
          refine ⟨?_, h2⟩
          rcases h1 with h1 | h1
          · rcases List.mem_cons.mp h1 with h1 | h1
            · omega
            · left; exact h1
          · right; exact h1)
      refine ⟨r1, r2, ?_⟩
      intro hn
      rcases List.mem_cons.mp hn with hn | hn
      · omega
      · exact r3 hn
    · -- on the diagonal
      subst hjn
      have hrest : ∀ j' ∈ rest, j < j' := hgt
      obtain ⟨r1, r2, r3⟩ := ih (if val j > c.k then ⟨j + 1 - val j, j + 1 - val j, val j⟩ else c)
        (by split <;> simp [hd]) hasc'
        (by intro j' hj' hlt; have := hrest j' hj'; omega)
        (by
          intro j' hj' hn
          obtain ⟨_, h2⟩ := hhigh j' (by simp [hj']) hn
          refine ⟨?_, h2⟩
          right
          split <;> (try simp only) <;> omega)
      refine ⟨r1, ?_, ?_⟩
      · have : c.k ≤ (if val j > c.k then (⟨j + 1 - val j, j + 1 - val j, val j⟩ : Block) else c).k := by
          split <;> (try simp only) <;> omega
        omega
      · intro _
        have : val j ≤ (if val j > c.k then (⟨j + 1 - val j, j + 1 - val j, val j⟩ : Block) else c).k := by
          split <;> (try simp only) <;> omega
        omega
    · -- above the diagonal: the diagonal entry was processed before
      obtain ⟨h1, h2⟩ := hhigh j (by simp) hjn
      have hvn : val n ≤ c.k := by
        rcases h1 with h1 | h1
        · rcases List.mem_cons.mp h1 with h1 | h1
          · omega
          · have := hgt n h1; omega
        · exact h1
      have hne : ¬ val j > c.k := by omega
      simp only [hne, if_false]
      obtain ⟨r1, r2, r3⟩ := ih c hd hasc' (fun j' hj' => hlow j' (by simp [hj']))
        (by
          intro j' hj' hn
          obtain ⟨_, h2'⟩ := hhigh j' (by simp [hj']) hn
          exact ⟨Or.inr hvn, h2'⟩)
      refine ⟨r1, r2, ?_⟩
      intro hn
      rcases List.mem_cons.mp hn with hn | hn
      · omega
      · exact r3 hn

end prefix_
end Difflib

namespace Difflib
variable {α : Type} [DecidableEq α]

theorem mem_b2j_iff_Mrel (a : List α) (b2j : List (α × List Nat)) {n : Nat} {x : α}
    (hx : a[n]? = some x) (j : Nat) : j ∈ b2jGet b2j x ↔ Mrel a b2j n j = true := by
  simp [Mrel, hx]

theorem outerLoop_prefix (b t : List α) :
    ∃ x, outerLoop (b ++ t) (chainB b) 0 b.length ((b ++ t).length - 0) 0 [] ⟨0, 0, 0⟩ = some x ∧
      x.i = x.j ∧ InBox 0 (b ++ t).length 0 b.length x ∧ IsMatch (b ++ t) b x := by
  have := outerLoop_inv (b ++ t) (chainB b) 0 b.length 0 (chainB_sorted b)
    (fun n best => (InBox 0 (0 + n) 0 b.length best ∧ IsMatch (b ++ t) b best) ∧ best.i = best.j ∧
      ∀ j, j < n → j < b.length → nprun b j ≤ best.k)
    (by
      intro n best x hx hinv
      obtain ⟨hv, hd, hbound⟩ := hinv
      have hx' : (b ++ t)[n]? = some x := by simpa using hx
      refine ⟨step_valid (b ++ t) b (chainB b) (chainB_sound b) 0 0 b.length n best _ hv, ?_⟩
      have hmemf : ∀ j, j ∈ (b2jGet (chainB b) x).filter (fun j => decide (0 ≤ j ∧ j < b.length)) ↔
          Mrel (b ++ t) (chainB b) n j = true ∧ j < b.length := by
        intro j
        rw [List.mem_filter, mem_b2j_iff_Mrel (b ++ t) (chainB b) hx' j]
        simp
      have key := diag_fold n (fun j => R b t (n + 1) j)
        ((b2jGet (chainB b) x).filter (fun j => decide (0 ≤ j ∧ j < b.length))) best hd
        ((chainB_sorted b x).filter _)
        (by
          intro j hj hjn
          have hjb := ((hmemf j).mp hj).2
          exact Nat.le_trans (R_le_nprun b t (n + 1) j) (hbound j hjn hjb))
        (by
          intro j hj hnj
          obtain ⟨hm, hjb⟩ := (hmemf j).mp hj
          have hnb : n < b.length := by omega
          refine ⟨Or.inl ((hmemf n).mpr ⟨M_to_diag b t hnb hm, hnb⟩), R_off_le b t n j hnj hjb⟩)
      simp only [Nat.zero_add]
      refine ⟨key.1, ?_⟩
      intro j hj hjb
      by_cases hjn : j < n
      · exact Nat.le_trans (hbound j hjn hjb) key.2.1
      · have : j = n := by omega
        subst this
        rw [← R_diag b t j hjb]
        by_cases hm : Mrel (b ++ t) (chainB b) j j = true
        · exact key.2.2 ((hmemf j).mpr ⟨hm, hjb⟩)
        · rw [R_succ]
          simp [hm])
    ((b ++ t).length - 0) 0 [] ⟨0, 0, 0⟩ (by omega) (by intro j; simp [getK, rowv])
    ⟨⟨⟨by simp, by simp, by simp, by simp⟩, by intro t ht; simp at ht⟩, rfl, by intro j hj; omega⟩
  obtain ⟨x, hx1, hx2⟩ := this
  refine ⟨x, by simpa using hx1, hx2.2.1, ?_, hx2.1.2⟩
  have e : 0 + (0 + ((b ++ t).length - 0)) = (b ++ t).length := by omega
  have := hx2.1.1
  rw [e] at this
  exact this

theorem extendBack_prefix (b t : List α) :
    ∀ d k, d ≤ b.length → extendBack (b ++ t) b 0 0 d d k = some ⟨0, 0, k + d⟩ := by
  intro d
  induction d with
  | zero => intro k _; simp [extendBack]
  | succ d ih =>
    intro k hd
    have hdb : d < b.length := by omega
    simp only [extendBack, Nat.add_sub_cancel]
    have h1 : b[d]? = some b[d] := List.getElem?_eq_getElem hdb
    have h2 : (b ++ t)[d]? = some b[d] := by rw [List.getElem?_append_left hdb, h1]
    simp only [h1, h2]
    simp only [gt_iff_lt, Nat.zero_lt_succ, and_self, if_true]
    rw [ih (k + 1) (by omega)]
    congr 2; omega

theorem extendFwd_prefix (b t : List α) :
    ∀ fuel k, k ≤ b.length → fuel ≥ b.length - k →
      extendFwd (b ++ t) b (b ++ t).length b.length 0 0 fuel k = some ⟨0, 0, b.length⟩ := by
  intro fuel
  induction fuel with
  | zero =>
    intro k hk hf
    have : k = b.length := by omega
    simp [extendFwd, this]
  | succ fuel ih =>
    intro k hk hf
    simp only [extendFwd, Nat.zero_add]
    by_cases hlt : k < b.length
    · have hla : k < (b ++ t).length := by simp; omega
      have h1 : b[k]? = some b[k] := List.getElem?_eq_getElem hlt
      have h2 : (b ++ t)[k]? = some b[k] := by rw [List.getElem?_append_left hlt, h1]
      simp only [hla, hlt, and_self, if_true, h1, h2]
      exact ih (k + 1) (by omega) (by omega)
    · have : k = b.length := by omega
      simp [this]

/-- `find_longest_match` on the whole box finds the whole of `b` when `b` is a prefix of `a` -/
theorem flm_prefix (b t : List α) :
    findLongestMatch (b ++ t) b (chainB b) 0 (b ++ t).length 0 b.length = some ⟨0, 0, b.length⟩ := by
  obtain ⟨x, hx, hd, hb, _⟩ := outerLoop_prefix b t
  have h4 := hb.h4
  unfold findLongestMatch
  rw [hx]
  simp only
  rw [hd, extendBack_prefix b t x.j x.k (by omega)]
  simp only
  exact extendFwd_prefix b t _ _ (by omega) (by simp; omega)

/-- **`get_opcodes` for a proper prefix**: one `equal` block (absent if `b` is empty) followed by
    one trailing `delete`.  No bound on the lengths. -/
theorem opcodes_prefix (b t : List α) (ht : t ≠ []) :
    opcodes (b ++ t) b = some
      ((if b.length ≠ 0 then [(⟨.equal, 0, b.length, 0, b.length⟩ : Opcode)] else []) ++
        [⟨.delete, b.length, (b ++ t).length, b.length, b.length⟩]) := by
  have hlen : b.length < (b ++ t).length := by
    have : t.length ≠ 0 := by simpa using ht
    simp; omega
  have hmb : mbLoop (b ++ t) b (chainB b) (2 * (b ++ t).length + 2) [⟨0, (b ++ t).length, 0, b.length⟩] [] =
      some (if b.length ≠ 0 then [⟨0, 0, b.length⟩] else []) := by
    simp only [mbLoop, flm_prefix]
    by_cases hb : b.length = 0
    · simp [hb, mbLoop_nil]
    · simp [hb, mbLoop_nil]
  unfold opcodes matchingBlocks
  simp only [hmb]
  by_cases hb : b.length = 0
  · simp only [hb, ne_eq, not_true_eq_false, if_false, List.mergeSort_nil, collapse, List.nil_append]
    have : 0 < b.length + t.length := by simpa using (show 0 < (b ++ t).length by omega)
    simp [opcodesGo, this]
  · simp only [ne_eq, hb, not_false_eq_true, if_true, List.mergeSort_singleton, collapse]
    simp only [Nat.add_zero, and_self, if_true, Nat.zero_add, collapse, ne_eq, hb, not_false_eq_true]
    have : 0 < t.length := by simpa using hlen
    simp [opcodesGo, hb, this]

end Difflib

/-
C06 (round 4): the numeric test of the plural gate in closed form.
`not re.match(r"\d+$", refValue)`: the regex matches exactly the values that consist of one or more Unicode
decimal digits (`\d` of a `str` pattern = category Nd, table `Gen.Unicode.digitRanges`), optionally followed by
ONE final newline (`$` without MULTILINE matches before a trailing `\n`).
Exact evaluation of the backtracking matcher (greedy `\d+`, then `$`), no hypothesis on the value.
-/
import CLModel.Proofs.C06REngine
import CLModel.Gen.Regexes
namespace C06Gate
open Rx
open C06R (At Tail at_cons at_append tail_append tail_head)

abbrev Text := List Nat

/-- a Unicode decimal digit (`\d`) -/
def UDig (c : Nat) : Prop := Rx.isDigit c = true

instance (c : Nat) : Decidable (UDig c) := by unfold UDig; infer_instance

def reUD : Re := .cls false [.digit]
def reNumeric : Re := .seq (.rep 1 none true reUD) (.eol false)

theorem gate_re_eq : Gen.Pat.checks_properties_PropertiesChecker_check_0 = reNumeric := rfl

/-- the closed form: digits, then nothing or one newline -/
def NumericValue (v : Text) : Prop := ∃ ds, ds ≠ [] ∧ (∀ d ∈ ds, UDig d) ∧ (v = ds ∨ v = ds ++ [10])

def NoUDigHead (v : Text) : Prop := ∀ c, v.head? = some c → ¬ UDig c

theorem newline_not_digit : ¬ UDig 10 := by decide

theorem inC_ud (c : Nat) : inC false [.digit] c = isDigit c := by
  simp [inC, ClsItem.has]

theorem ud_step {s : Array Nat} {p : Nat} {ds : Text} (hat : At s p ds) (hd : ∀ d ∈ ds, UDig d) (caps) :
    ∀ j, j < ds.length → ∀ k', m s reUD ⟨p + j, caps⟩ k' = k' ⟨p + j + 1, caps⟩ := by
  intro j hj k'
  exact C06R.cls_ok (C06R.at_get hat hj) (by rw [inC_ud]; exact hd _ (List.getElem_mem hj)) caps k'

theorem ud_stop {s : Array Nat} {p : Nat} (h : ∀ c, s[p]? = some c → ¬ UDig c) (caps) :
    ∀ k', m s reUD ⟨p, caps⟩ k' = none := by
  intro k'
  apply C06R.cls_fail
  intro c hc
  rw [inC_ud]
  cases hd : isDigit c with
  | false => rfl
  | true => exact absurd hd (h c hc)

/-- greedy repeat with a minimum: when the continuation fails at every end position, the repeat fails -/
theorem loop_greedy_none_min (body : St → K → Option St) (caps) (k : K) :
    ∀ n fuel pos mn,
      (∀ j, j < n → ∀ k', body ⟨pos + j, caps⟩ k' = k' ⟨pos + j + 1, caps⟩) →
      (∀ k', body ⟨pos + n, caps⟩ k' = none) →
      (∀ j, j ≤ n → k ⟨pos + j, caps⟩ = none) →
      loop body true fuel mn none ⟨pos, caps⟩ k = none := by
  intro n
  induction n with
  | zero =>
    intro fuel pos mn _ hfail hk
    cases fuel with
    | zero => rw [loop]
    | succ f =>
      by_cases hmn : mn > 0
      · exact C06R.loop_body_fail_min body true (f + 1) mn none ⟨pos, caps⟩ k (by simpa using hfail) hmn
      · have : mn = 0 := by omega
        subst this
        rw [C06R.loop_body_fail body true f none ⟨pos, caps⟩ k (by simpa using hfail)]
        simpa using hk 0 (by omega)
  | succ n ih =>
    intro fuel pos mn hstep hfail hk
    cases fuel with
    | zero => rw [loop]
    | succ f =>
      have h0 := hstep 0 (by omega)
      simp only [Nat.add_zero] at h0
      have ihh := ih f (pos + 1) (mn - 1)
        (fun j hj k' => by
          have := hstep (j + 1) (by omega) k'
          rw [show pos + (j + 1) = pos + 1 + j by omega] at this
          exact this)
        (fun k' => by
          have := hfail k'
          rw [show pos + (n + 1) = pos + 1 + n by omega] at this
          exact this)
        (fun j hj => by
          have := hk (j + 1) (by omega)
          rw [show pos + (j + 1) = pos + 1 + j by omega] at this
          exact this)
      have hk0 := hk 0 (by omega)
      simp only [Nat.add_zero] at hk0
      rw [loop]
      simp only [h0, show ¬ (pos + 1 ≤ pos) by omega, if_false, show ((none : Option Nat) == some 0) = false from rfl,
        Bool.false_eq_true, Option.map_none, ihh, hk0]
      split <;> simp

theorem m_eol (s : Array Nat) (st : St) (k : K) :
    m s (.eol false) st k =
      if st.pos == s.size || (false && s[st.pos]? == some 10) ||
         (!false && st.pos + 1 == s.size && s[st.pos]? == some 10) then k st else none := by rw [m]

/-- `$` at `p`: the end of the subject, or a newline that is its last character -/
theorem eol_iff (s : Array Nat) (p : Nat) (caps) :
    m s (.eol false) ⟨p, caps⟩ some = if p = s.size ∨ (p + 1 = s.size ∧ s[p]? = some 10) then some ⟨p, caps⟩ else none := by
  rw [m_eol]
  by_cases h1 : p = s.size
  · simp [h1]
  · by_cases h2 : p + 1 = s.size ∧ s[p]? = some 10
    · simp [h1, h2]
    · have : ¬ ((p + 1 == s.size && s[p]? == some 10) = true) := by
        simpa using fun a b => h2 ⟨a, b⟩
      simp [h1, h2]

theorem udigits_split (v : Text) : ∃ ds r, v = ds ++ r ∧ (∀ d ∈ ds, UDig d) ∧ NoUDigHead r := by
  induction v with
  | nil => exact ⟨[], [], rfl, by simp, by intro c hc; simp at hc⟩
  | cons c v ih =>
    by_cases hc : UDig c
    · obtain ⟨ds, r, hv, hds, hr⟩ := ih
      refine ⟨c :: ds, r, by rw [hv]; rfl, ?_, hr⟩
      intro d hd
      rcases List.mem_cons.mp hd with rfl | hd
      · exact hc
      · exact hds d hd
    · refine ⟨[], c :: v, rfl, by simp, ?_⟩
      intro c' hc'
      simp only [List.head?_cons, Option.some.injEq] at hc'
      subst hc'
      exact hc

/-- the maximal digit prefix is unique -/
theorem split_unique : ∀ (ds ds' r r' : Text), ds ++ r = ds' ++ r' → (∀ d ∈ ds, UDig d) → (∀ d ∈ ds', UDig d) →
    NoUDigHead r → NoUDigHead r' → ds = ds' ∧ r = r' := by
  intro ds
  induction ds with
  | nil =>
    intro ds' r r' h _ hd' hr _
    cases ds' with
    | nil => exact ⟨rfl, by simpa using h⟩
    | cons d ds' =>
      simp only [List.nil_append, List.cons_append] at h
      subst h
      exact absurd (hd' d (by simp)) (hr d (by simp))
  | cons c ds ih =>
    intro ds' r r' h hd hd' hr hr'
    cases ds' with
    | nil =>
      simp only [List.nil_append, List.cons_append] at h
      subst h
      exact absurd (hd c (by simp)) (hr' c (by simp))
    | cons d ds' =>
      simp only [List.cons_append, List.cons.injEq] at h
      obtain ⟨rfl, h⟩ := h
      obtain ⟨h1, h2⟩ := ih ds' r r' h (fun x hx => hd x (by simp [hx])) (fun x hx => hd' x (by simp [hx])) hr hr'
      exact ⟨by rw [h1], h2⟩

/-- **`re.match(r"\d+$", v)` succeeds iff `v` is digits, optionally followed by one final newline** -/
theorem numeric_iff (v : Text) : (matchAt v.toArray reNumeric 0).isSome = true ↔ NumericValue v := by
  obtain ⟨ds, r, hv, hds, hr⟩ := udigits_split v
  have htl : Tail v.toArray 0 (ds ++ r) := by rw [← hv]; exact C06R.tail_toArray v
  obtain ⟨hat, htlr⟩ := tail_append htl
  have hsize : v.toArray.size = ds.length + r.length := by
    have := htl.2; simp only [List.length_append] at this; omega
  have hstop : ∀ k', m v.toArray reUD ⟨0 + ds.length, []⟩ k' = none := by
    apply ud_stop
    intro c hc
    rw [tail_head htlr] at hc
    exact hr c hc
  have hstep := ud_step hat hds []
  have h10 : NoUDigHead [10] := by
    intro c hc
    simp only [List.head?_cons, Option.some.injEq] at hc
    subst hc
    exact newline_not_digit
  have hnil : NoUDigHead [] := by intro c hc; simp at hc
  -- a value of the closed form has `ds` as its digit run and `[]` / `[10]` as the rest
  have hform : NumericValue v → ds ≠ [] ∧ (r = [] ∨ r = [10]) := by
    rintro ⟨ds', hne', hds', hv'⟩
    rcases hv' with hv' | hv'
    · obtain ⟨h1, h2⟩ := split_unique ds ds' r [] (by rw [← hv, hv']; simp) hds hds' hr hnil
      exact ⟨by rw [h1]; exact hne', Or.inl h2⟩
    · obtain ⟨h1, h2⟩ := split_unique ds ds' r [10] (by rw [← hv, hv']) hds hds' hr h10
      exact ⟨by rw [h1]; exact hne', Or.inr h2⟩
  unfold matchAt reNumeric
  rw [C06R.m_seq, C06R.m_rep]
  have hk : ∀ p, (fun st' => m v.toArray (.eol false) st' some) ⟨p, []⟩ =
      if p = v.toArray.size ∨ (p + 1 = v.toArray.size ∧ v.toArray[p]? = some 10) then some ⟨p, []⟩ else none :=
    fun p => eol_iff _ p []
  by_cases hne : ds = []
  · -- no digit at the start: `\d+` fails
    subst hne
    have := C06R.loop_body_fail_min (m v.toArray reUD) true (v.toArray.size + 2 - 0) 1 none ⟨0, []⟩
      (fun st' => m v.toArray (.eol false) st' some) (by simpa using hstop) (by omega)
    rw [this]
    simp only [Option.isSome_none, Bool.false_eq_true, false_iff]
    intro hn
    exact (hform hn).1 rfl
  · have hlen1 : 1 ≤ ds.length := by
      cases ds with
      | nil => exact absurd rfl hne
      | cons _ _ => simp
    by_cases hrr : r = [] ∨ r = [10]
    · -- digits, then the end or one newline: the longest run is tried first and `$` succeeds there
      have hend : (fun st' => m v.toArray (.eol false) st' some) ⟨0 + ds.length, []⟩ = some ⟨0 + ds.length, []⟩ := by
        rw [hk]
        rcases hrr with rfl | rfl
        · rw [if_pos (Or.inl (by simp [hsize]))]
        · have h10' : v.toArray[0 + ds.length]? = some 10 := by
            rw [tail_head htlr]; rfl
          rw [if_pos (Or.inr ⟨by simp [hsize], h10'⟩)]
      have := C06R.loop_greedy_hit (m v.toArray reUD) [] (fun st' => m v.toArray (.eol false) st' some)
        ⟨0 + ds.length, []⟩ ds.length (v.toArray.size + 2 - 0) 0 1 (by omega) hlen1 hstep hstop hend
      rw [this]
      simp only [Option.isSome_some, true_iff]
      refine ⟨ds, hne, hds, ?_⟩
      rcases hrr with rfl | rfl
      · left; simpa using hv
      · right; exact hv
    · -- otherwise `$` fails at every end position of the digit run
      have hnone : ∀ j, j ≤ ds.length →
          (fun st' => m v.toArray (.eol false) st' some) ⟨0 + j, []⟩ = none := by
        intro j hj
        rw [hk]
        have hcond : ¬ (0 + j = v.toArray.size ∨ (0 + j + 1 = v.toArray.size ∧ v.toArray[0 + j]? = some 10)) := by
          rintro (h | ⟨h1, h2⟩)
          · have hj' : r.length = 0 := by omega
            exact hrr (Or.inl (List.eq_nil_of_length_eq_zero hj'))
          · by_cases hjl : j < ds.length
            · have := C06R.at_get hat hjl
              rw [this] at h2
              simp only [Option.some.injEq] at h2
              exact newline_not_digit (h2 ▸ hds _ (List.getElem_mem hjl))
            · have hj' : j = ds.length := by omega
              subst hj'
              have hr1 : r.length = 1 := by omega
              rw [tail_head htlr] at h2
              apply hrr
              right
              cases r with
              | nil => simp at hr1
              | cons c r' =>
                cases r' with
                | nil => simp only [List.head?_cons, Option.some.injEq] at h2; rw [h2]
                | cons _ _ => simp at hr1
        rw [if_neg hcond]
      have := loop_greedy_none_min (m v.toArray reUD) [] (fun st' => m v.toArray (.eol false) st' some)
        ds.length (v.toArray.size + 2 - 0) 0 1 hstep hstop hnone
      rw [this]
      simp only [Option.isSome_none, Bool.false_eq_true, false_iff]
      intro hn
      exact hrr (hform hn).2

end C06Gate

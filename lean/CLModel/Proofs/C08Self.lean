/-
C08, round 4: checking an entry against ITSELF (`checker.check(entity, entity)` — the linter; and compare for a localization
that copied the reference): no reference warnings, no value / attribute errors; what remains is determined by the shape.
-/
import CLModel.Proofs.C08Refs
namespace C08S
open Ftl Gen.Tables

/-- with every reference of the nodes recorded for the slot, the per-node messages are those of the select expressions -/
theorem flatMap_evMsgs_known (kp : Option (List Str)) (rr : List Str) (evs : List Ev)
    (h : ∀ e ∈ evs, ∀ q, e.refKey = some q → q.1 ∈ rr) :
    evs.flatMap (evMsgs kp rr) = evs.flatMap (termMsgs kp) := by
  induction evs with
  | nil => rfl
  | cons e r ih =>
    simp only [List.flatMap_cons]
    rw [ih (fun e' he' => h e' (List.mem_cons_of_mem _ he'))]
    congr 1
    have he := h e List.mem_cons_self
    cases e with
    | select keys => rfl
    | msgRef s i a =>
      simp only [evMsgs, termMsgs]
      cases hk : (Ev.msgRef s i a).refKey with
      | none => rfl
      | some q =>
        have := he q hk
        simp [this]
    | termRef s i a =>
      simp only [evMsgs, termMsgs]
      cases hk : (Ev.termRef s i a).refKey with
      | none => rfl
      | some q =>
        have := he q hk
        simp [this]

/-- the per-attribute messages when no reference is obsolete: select expressions, then the `style` check -/
def attrsSel (kp : Option (List Str)) : CssVal → List Attribute → List Msg
  | _, [] => []
  | rc, a :: r => (evPattern false a.value).flatMap (termMsgs kp) ++ (cssCheck rc a).1 ++ attrsSel kp (cssCheck rc a).2 r

theorem attrsMsgs_known (kp : Option (List Str)) (rr : Slot → List Str) (rc : CssVal) (attrs : List Attribute)
    (h : ∀ a ∈ attrs, ∀ e ∈ evPattern false a.value, ∀ q, e.refKey = some q → q.1 ∈ rr (some a.name)) :
    attrsMsgs kp rr rc attrs = attrsSel kp rc attrs := by
  induction attrs generalizing rc with
  | nil => rfl
  | cons a r ih =>
    simp only [attrsMsgs, attrsSel]
    rw [flatMap_evMsgs_known kp _ _ (h a List.mem_cons_self), ih _ (fun a' ha' => h a' (List.mem_cons_of_mem _ ha'))]

theorem missingAttrErrs_self (k : List Str) : missingAttrErrs k k = [] := by
  simp only [missingAttrErrs, List.map_eq_nil_iff, List.filter_eq_nil_iff]
  intro n hn
  simp [hn]

theorem obsoleteAttrErrs_self (d : List (Str × Nat)) : obsoleteAttrErrs (dictKeys d) d = [] := by
  simp only [obsoleteAttrErrs, List.map_eq_nil_iff, List.filter_eq_nil_iff]
  intro p hp
  have : p.1 ∈ dictKeys d := List.mem_map.mpr ⟨p, hp, rfl⟩
  simp [this]

theorem valueErrs_self (v : Option Pattern) : valueErrs v.isSome v = [] := by
  cases v <;> simp [valueErrs]

theorem missingRefs_self (kp : Option (List Str)) (m : Message) :
    missingRefs (refVisitEntry (.message m)).entryRefs (l10nVisitMessage kp (refVisitEntry (.message m)) m).entryRefs = [] := by
  rw [List.eq_nil_iff_forall_not_mem]
  intro x hx
  rw [mem_missingRefs] at hx
  obtain ⟨slot, refs, r, t, h1, h2, h3, _⟩ := hx
  have hne : refs ≠ [] := by intro h; rw [h] at h2; cases h2
  have := (mem_entryRefs_iff m slot refs hne).mp h1
  subst this
  apply h3
  have hk : r ∈ dictKeys (refSlotDict m slot) := List.mem_map.mpr ⟨(r, t), h2, rfl⟩
  have hr : r ∈ slotRefNames m.value m.attributes slot := (mem_rrOf_ref m slot r).mp hk
  exact (mem_l10nSlotSet kp _ m slot r).mpr hr

theorem mem_slotRefNames_value (m : Message) (p : Pattern) (hv : m.value = some p) (e : Ev) (he : e ∈ evPattern false p)
    (q : Str × RefType) (hq : e.refKey = some q) : q.1 ∈ slotRefNames m.value m.attributes none := by
  simp only [slotRefNames, slotRefs, slotPatterns, hv, Option.toList_some, List.flatMap_cons, List.flatMap_nil,
    List.append_nil, List.mem_map, List.mem_filterMap]
  exact ⟨q, ⟨e, he, hq⟩, rfl⟩

theorem mem_slotRefNames_attr (m : Message) (a : Attribute) (ha : a ∈ m.attributes) (e : Ev) (he : e ∈ evPattern false a.value)
    (q : Str × RefType) (hq : e.refKey = some q) : q.1 ∈ slotRefNames m.value m.attributes (some a.name) := by
  simp only [slotRefNames, slotRefs, slotPatterns, List.mem_map, List.mem_flatMap, List.mem_filterMap, List.mem_filter]
  exact ⟨q, ⟨a.value, ⟨a, ⟨ha, by simp⟩, rfl⟩, e, he, hq⟩, rfl⟩

/-- **self-check** -/
theorem checkMessage_self (kp : Option (List Str)) (m : Message) :
    checkMessage kp (.message m) m =
      checkDuplicateAttributes m.attributes
      ++ (match m.value with | some p => (evPattern false p).flatMap (termMsgs kp) | none => [])
      ++ attrsSel kp (refVisitEntry (.message m)).css m.attributes := by
  rw [checkMessage_structure, missingRefs_self, valueErrs_self, missingAttrErrs_self, obsoleteAttrErrs_self]
  simp only [List.append_nil]
  congr 1
  · congr 1
    cases hv : m.value with
    | none => rfl
    | some p =>
      simp only [valueMsgs]
      apply flatMap_evMsgs_known
      intro e he q hq
      exact (mem_rrOf_ref m none q.1).mpr (mem_slotRefNames_value m p hv e he q hq)
  · apply attrsMsgs_known
    intro a ha e he q hq
    exact (mem_rrOf_ref m (some a.name) q.1).mpr (mem_slotRefNames_attr m a ha e he q hq)

end C08S

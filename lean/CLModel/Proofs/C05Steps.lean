/-
C05 — the step-counting engine `Rx.mS` (Rx/Steps.lean) explores the same search as `Rx.m`: whenever it finishes
within its budget, its verdict (the match state, or no match) is the verdict of `Rx.m`.  So the step counts the regex
guard of the C05 check reads are step counts of the engine all parser / checker models run on.
Core Lean only.
-/
import CLModel.Rx.Steps
namespace C05Steps
open Rx

/-- the outcome `r` of the counted engine agrees with the outcome `o` of the plain one -/
def Agree (r : SR) (o : Option St) : Prop :=
  match r with
  | .ok st _ => o = some st
  | .no _ => o = none
  | .over => True

/-- a counted continuation simulates a plain one -/
def SimK (k : K) (ks : KS) : Prop := ∀ st n, Agree (ks st n) (k st)

theorem agree_orElse {a : SR} {oa : Option St} {f : Nat → SR} {g : Unit → Option St}
    (ha : Agree a oa) (hf : ∀ n, Agree (f n) (g ())) : Agree (a.orElse f) (oa.orElse g) := by
  cases a with
  | ok st n => simp only [Agree] at ha; subst ha; simp [SR.orElse, Agree]
  | no n => simp only [Agree] at ha; subst ha; simpa [SR.orElse] using hf n
  | over => simp [SR.orElse, Agree]

theorem loopS_sim (body : St → K → Option St) (bodyS : St → KS → Nat → SR)
    (hb : ∀ st k ks n, SimK k ks → Agree (bodyS st ks n) (body st k)) (greedy : Bool) :
    ∀ (fuel mn : Nat) (mx : Option Nat) (st : St) (k : K) (ks : KS) (n : Nat), SimK k ks →
      Agree (loopS bodyS greedy fuel mn mx st ks n) (loop body greedy fuel mn mx st k) := by
  intro fuel
  induction fuel with
  | zero => intro mn mx st k ks n _; simp [loopS, loop, Agree]
  | succ fuel ih =>
    intro mn mx st k ks n hk
    have hmore : ∀ n, Agree
        (if mx == some 0 then SR.no n else
          bodyS st (fun st' n' => if st'.pos ≤ st.pos then .no n' else loopS bodyS greedy fuel (mn - 1) (mx.map (· - 1)) st' ks n') n)
        (if mx == some 0 then none else
          body st (fun st' => if st'.pos ≤ st.pos then none else loop body greedy fuel (mn - 1) (mx.map (· - 1)) st' k)) := by
      intro n
      by_cases hz : (mx == some 0) = true
      · simp [hz, Agree]
      · simp only [hz, Bool.false_eq_true, if_false]
        apply hb
        intro st' n'
        by_cases hle : st'.pos ≤ st.pos
        · simp [hle, Agree]
        · simp only [hle, if_false]
          exact ih _ _ st' k ks n' hk
    simp only [loopS, loop]
    split
    · exact hmore n
    · split
      · exact agree_orElse (hmore n) (fun n' => hk st n')
      · exact agree_orElse (hk st n) hmore

/-- **the counted engine and the plain engine agree** (whenever the budget suffices) -/
theorem mS_sim (s : Array Nat) (budget : Nat) : ∀ (r : Re) (st : St) (k : K) (ks : KS) (n : Nat), SimK k ks →
    Agree (mS s budget r st ks n) (m s r st k) := by
  intro r
  induction r with
  | eps => intro st k ks n hk; simpa [mS, m] using hk st n
  | lit c =>
    intro st k ks n hk
    simp only [mS, m]
    by_cases hb : n ≥ budget
    · simp [hb, Agree]
    · simp only [hb, if_false]
      by_cases hc : (s[st.pos]? == some c) = true
      · simp only [hc, if_true]; exact hk _ _
      · simp [hc, Agree]
  | notLit c =>
    intro st k ks n hk
    simp only [mS, m]
    by_cases hb : n ≥ budget
    · simp [hb, Agree]
    · simp only [hb, if_false]
      cases hs : s[st.pos]? with
      | none => simp [Agree]
      | some d =>
        by_cases hc : (d != c) = true
        · simp only [hc, if_true]; exact hk _ _
        · simp [hc, Agree]
  | any dotall =>
    intro st k ks n hk
    simp only [mS, m]
    by_cases hb : n ≥ budget
    · simp [hb, Agree]
    · simp only [hb, if_false]
      cases hs : s[st.pos]? with
      | none => simp [Agree]
      | some d =>
        by_cases hc : (dotall || d != 10) = true
        · simp only [hc, if_true]; exact hk _ _
        · simp [hc, Agree]
  | cls neg items =>
    intro st k ks n hk
    simp only [mS, m]
    by_cases hb : n ≥ budget
    · simp [hb, Agree]
    · simp only [hb, if_false]
      cases hs : s[st.pos]? with
      | none => simp [Agree]
      | some d =>
        by_cases hc : ((items.any (·.has d)) != neg) = true
        · simp only [hc, if_true]; exact hk _ _
        · simp [hc, Agree]
  | seq a b iha ihb =>
    intro st k ks n hk
    simp only [mS, m]
    exact iha st _ _ n (fun st' n' => ihb st' k ks n' hk)
  | alt a b iha ihb =>
    intro st k ks n hk
    simp only [mS, m]
    exact agree_orElse (iha st k ks n hk) (fun n' => ihb st k ks n' hk)
  | group i r ih =>
    intro st k ks n hk
    simp only [mS, m]
    exact ih st _ _ n (fun st' n' => hk _ _)
  | backref i =>
    intro st k ks n hk
    simp only [mS, m]
    by_cases hb : n ≥ budget
    · simp [hb, Agree]
    · simp only [hb, if_false]
      cases hcap : capOf st.caps i with
      | none => simp [Agree]
      | some ab =>
        obtain ⟨a, b⟩ := ab
        simp only
        by_cases hc : ((List.range (b - a)).all (fun j => s[a + j]? == s[st.pos + j]? && (st.pos + j < s.size))) = true
        · simp only [hc, if_true]; exact hk _ _
        · simp [hc, Agree]
  | bol ml =>
    intro st k ks n hk
    simp only [mS, m]
    by_cases hb : n ≥ budget
    · simp [hb, Agree]
    · simp only [hb, if_false]
      by_cases hc : (st.pos == 0 || (ml && s[st.pos - 1]? == some 10)) = true
      · simp only [hc, if_true]; exact hk _ _
      · simp [hc, Agree]
  | eol ml =>
    intro st k ks n hk
    simp only [mS, m]
    by_cases hb : n ≥ budget
    · simp [hb, Agree]
    · simp only [hb, if_false]
      by_cases hc : (st.pos == s.size || (ml && s[st.pos]? == some 10) ||
          (!ml && st.pos + 1 == s.size && s[st.pos]? == some 10)) = true
      · simp only [hc, if_true]; exact hk _ _
      · simp [hc, Agree]
  | eos =>
    intro st k ks n hk
    simp only [mS, m]
    by_cases hb : n ≥ budget
    · simp [hb, Agree]
    · simp only [hb, if_false]
      by_cases hc : (st.pos == s.size) = true
      · simp only [hc, if_true]; exact hk _ _
      · simp [hc, Agree]
  | look ahead neg r ih =>
    intro st k ks n hk
    cases ahead with
    | true =>
      simp only [mS, m]
      have h := ih st some (fun st' n' => .ok st' n') n (fun st' n' => by simp [Agree])
      cases hr : mS s budget r st (fun st' n' => SR.ok st' n') n with
      | ok st' n' =>
        rw [hr] at h; simp only [Agree] at h
        simp only [h]
        split
        · simp [Agree]
        · exact hk _ _
      | no n' =>
        rw [hr] at h; simp only [Agree] at h
        simp only [h]
        split
        · exact hk _ _
        · simp [Agree]
      | over => simp [Agree]
    | false =>
      simp only [mS, m]
      by_cases hp : (st.pos == 0) = true
      · simp only [hp, if_true]
        split
        · exact hk _ _
        · simp [Agree]
      · simp only [hp, Bool.false_eq_true, if_false]
        have h := ih { st with pos := st.pos - 1 } (fun st' => if st'.pos == st.pos then some st' else none)
          (fun st' n' => if st'.pos == st.pos then .ok st' n' else .no n') n (fun st' n' => by
            by_cases he : (st'.pos == st.pos) = true
            · simp [he, Agree]
            · simp [he, Agree])
        cases hr : mS s budget r { st with pos := st.pos - 1 } (fun st' n' => if st'.pos == st.pos then SR.ok st' n' else SR.no n') n with
        | ok st' n' =>
          rw [hr] at h; simp only [Agree] at h
          simp only [h]
          split
          · simp [Agree]
          · exact hk _ _
        | no n' =>
          rw [hr] at h; simp only [Agree] at h
          simp only [h]
          split
          · exact hk _ _
          · simp [Agree]
        | over => simp [Agree]
  | rep mn mx greedy r ih =>
    intro st k ks n hk
    simp only [mS, m]
    exact loopS_sim (m s r) (mS s budget r) (fun st k ks n hk => ih st k ks n hk) greedy _ mn mx st k ks n hk

/-- `matchSteps` answers within the budget only with the verdict of `matchAt`: a count is the number of atoms the model
    engine tried for `Pattern.match(s, pos)` -/
theorem matchSteps_sound (s : Array Nat) (r : Re) (pos budget n : Nat) (h : matchSteps s r pos budget = some n) :
    (∃ st, mS s budget r ⟨pos, []⟩ (fun st n => .ok st n) 0 = .ok st n ∧ matchAt s r pos = some st) ∨
    (mS s budget r ⟨pos, []⟩ (fun st n => .ok st n) 0 = .no n ∧ matchAt s r pos = none) := by
  have hs := mS_sim s budget r ⟨pos, []⟩ some (fun st n => .ok st n) 0 (fun st n => by simp [Agree])
  unfold matchSteps at h
  cases hr : mS s budget r ⟨pos, []⟩ (fun st n => SR.ok st n) 0 with
  | ok st n' =>
    rw [hr] at h hs
    simp only [Option.some.injEq] at h
    subst h
    exact Or.inl ⟨st, rfl, hs⟩
  | no n' =>
    rw [hr] at h hs
    simp only [Option.some.injEq] at h
    subst h
    exact Or.inr ⟨rfl, hs⟩
  | over => rw [hr] at h; cases h

end C05Steps

/-
C16G, part 7: text-level idempotence, end to end through the parser models, for `.dtd` and `.properties`.
-/
import CLModel.Proofs.C16GIdem
import CLModel.Proofs.C16GDtd
import CLModel.Proofs.C02XIni
namespace C16G
open AR Ser C16L C16R
open P (PRec printProps printRec SafeRec)
open C02X (printDtd printDtdRec SafeDtdRec dtdExpEntries)

/-! ### `.dtd` -/

theorem walk_dtd_lead_entries (rs : List PRec) (h : ∀ r ∈ rs, SafeDtdRec r) :
    P.walk .dtd (10 :: printDtd rs).toArray = .done (P.wsEntry 0 :: dtdExpEntries 1 rs) := by
  let s : Array Nat := (10 :: printDtd rs).toArray
  have hs : s.toList = 10 :: printDtd rs := rfl
  have hd1 : s.toList.drop 1 = printDtd rs := by rw [hs]; rfl
  have h0 : s[0]? = some 10 := by
    have := P.get_of_drop s 0 0 _ (by rw [List.drop_zero, hs])
    simpa using this
  have h1 : s[1]? = none ∨ ∃ c, s[1]? = some c ∧ c ≠ 32 ∧ c ≠ 9 ∧ c ≠ 13 ∧ c ≠ 10 := by
    have g := P.get_of_drop s 1 0 _ hd1
    simp only [Nat.add_zero] at g
    rw [g]
    cases rs with
    | nil => left; simp [printDtd]
    | cons r' rs' =>
      right
      have : printDtd (r' :: rs') = printDtdRec r' ++ printDtd rs' := by simp [printDtd]
      rw [this, C02X.printDtdRec_head]
      exact ⟨60, rfl, by decide, by decide, by decide, by decide⟩
  have hsz : s.size = (printDtd rs).length + 1 := by
    have := congrArg List.length hs
    simpa using this
  have e1 := dtd_ws_at0 s h0 h1
  show P.walk .dtd s = _
  unfold P.walk
  simp only []
  rw [C02X.walk_step _ _ _ () () 0 (P.wsEntry 0) (by omega) (by simp only [e1]),
    show (P.wsEntry 0).e = 1 from rfl,
    C02X.walk_dtd_from s rs 1 s.size hd1 h (by have := C02X.printDtd_length_ge rs; omega)]
  rfl

theorem walkEnts_reparsed_dtd (lead : Bool) (rs : List PRec) (h : ∀ r ∈ rs, SafeDtdRec r) :
    walkEnts .dtd ((if lead then [10] else []) ++ printDtd rs).toArray = some (reparsed dtdF lead rs) := by
  cases lead with
  | false =>
    simp only [Bool.false_eq_true, if_false, List.nil_append]
    rw [reparsed_false]
    exact walkEnts_printed_dtd rs h
  | true =>
    simp only [if_true, List.singleton_append]
    rw [reparsed_true]
    unfold walkEnts
    rw [walk_dtd_lead_entries rs h]
    simp only [List.map_cons]
    have h0 : (10 :: printDtd rs).toArray[0]? = some 10 := by simp
    rw [ofEntry_ws .dtd _ 0 h0, map_ofEntry_dtdExpEntries _ rs 1 (by simp)]

/-- TEXT-LEVEL IDEMPOTENCE, `.dtd`: see `C16.serialize_idempotent_text_dtd_partial` -/
theorem idempotent_text_dtd (refRecs oldRecs : List PRec) (nd : NewData)
    (href : ∀ r ∈ refRecs, SafeDtdRec r) (hold : ∀ r ∈ oldRecs, SafeDtdRec r)
    (hrk : (refRecs.map (·.1)).Nodup) (hok : (oldRecs.map (·.1)).Nodup) (hnd : (nd.map (·.1)).Nodup)
    (hv : ∀ r ∈ refRecs, ∀ v, (r.1, some v) ∈ nd → SafeDtdRec (r.1, v)) :
    ∃ t, serializeText .dtd (printDtd refRecs).toArray (printDtd oldRecs).toArray nd = some t ∧
      serializeText .dtd (printDtd refRecs).toArray t.toArray [] = some t := by
  obtain ⟨ht, hsafe, hagain⟩ := text_idempotent dtdF SafeDtdRec refRecs oldRecs nd hold hrk hok hnd hv _ rfl
  rw [printF_dtd] at ht
  refine ⟨serializeOut (entsF dtdF refRecs) (entsF dtdF oldRecs) nd, ?_, ?_⟩
  · unfold serializeText
    rw [walkEnts_printed_dtd refRecs href, walkEnts_printed_dtd oldRecs hold]
  · unfold serializeText
    rw [walkEnts_printed_dtd refRecs href]
    conv => lhs; rw [ht]
    rw [walkEnts_reparsed_dtd _ _ hsafe]
    simp only
    rw [hagain]

/-! ### `.properties` -/

/-- `key=` … (nothing after the value) -/
def propsF : RFmt := { pre := fun k => k ++ [61], post := [] }

theorem entF_props (r : PRec) : entF propsF r = entE r := by
  simp [entF, propsF, entE]

theorem entsF_props (rs : List PRec) : entsF propsF rs = entsOf rs := by
  unfold entsF entsOf mkList
  congr 1
  funext r
  rw [entF_props]

theorem printF_props (rs : List PRec) : printF propsF rs = printProps rs := by
  unfold printF printProps
  congr 1
  apply List.map_congr_left
  intro r _
  simp [recText, propsF, printRec]

theorem walk_props_lead_entries (rs : List PRec) (h : ∀ r ∈ rs, SafeRec r) :
    P.walk .properties (10 :: printProps rs).toArray = .done (P.wsEntry 0 :: P.expEntries 1 rs) := by
  let s : Array Nat := (10 :: printProps rs).toArray
  have hs : s.toList = 10 :: printProps rs := rfl
  have hd1 : s.toList.drop 1 = printProps rs := by rw [hs]; rfl
  have h0 : s[0]? = some 10 := by
    have := P.get_of_drop s 0 0 _ (by rw [List.drop_zero, hs])
    simpa using this
  have h1 : s[1]? = none ∨ ∃ c, s[1]? = some c ∧ c ≠ 32 ∧ c ≠ 9 ∧ c ≠ 13 ∧ c ≠ 10 := by
    have g := P.get_of_drop s 1 0 _ hd1
    simp only [Nat.add_zero] at g
    cases rs with
    | nil => left; simpa [printProps] using g
    | cons r' rs' =>
      right
      have hs' := h r' (by simp)
      have hkl : 0 < r'.1.length := List.length_pos_iff.mpr hs'.key_ne
      have f0 := P.keyChar_facts (hs'.key r'.1[0] (List.getElem_mem _))
      refine ⟨r'.1[0], ?_, f0.2.2.1, f0.2.2.2.1, f0.2.2.2.2.1, f0.2.2.2.2.2.1⟩
      rw [g]
      simp [printProps, printRec, List.getElem?_append_left hkl]
  have hsz : s.size = (printProps rs).length + 1 := by
    have := congrArg List.length hs
    simpa using this
  have e1 := P.props_ws_at s 0 h0 h1
  have hlen : 2 * rs.length ≤ (printProps rs).length := C02X.printProps_length_ge rs
  show P.walk .properties s = _
  unfold P.walk
  simp only []
  rw [C04R.walk_step s s.size 0 (P.wsEntry 0) (by omega) e1,
    show (P.wsEntry 0).e = 1 from rfl,
    P.walk_props_from s rs 1 s.size hd1 h (by omega)]
  rfl

theorem walkEnts_reparsed_props (lead : Bool) (rs : List PRec) (h : ∀ r ∈ rs, SafeRec r) :
    walkEnts .properties ((if lead then [10] else []) ++ printProps rs).toArray = some (reparsed propsF lead rs) := by
  cases lead with
  | false =>
    simp only [Bool.false_eq_true, if_false, List.nil_append]
    rw [reparsed_false, entsF_props]
    exact walkEnts_printed rs h
  | true =>
    simp only [if_true, List.singleton_append]
    rw [reparsed_true, entsF_props]
    unfold walkEnts
    rw [walk_props_lead_entries rs h]
    simp only [List.map_cons]
    have h0 : (10 :: printProps rs).toArray[0]? = some 10 := by simp
    rw [ofEntry_ws .properties _ 0 h0, map_ofEntry_expEntries .properties _ rs 1 (by simp)]

/-- TEXT-LEVEL IDEMPOTENCE, `.properties`: see `C16.serialize_idempotent_text_properties_partial` -/
theorem idempotent_text_props (refRecs oldRecs : List PRec) (nd : NewData)
    (href : ∀ r ∈ refRecs, SafeRec r) (hold : ∀ r ∈ oldRecs, SafeRec r)
    (hrk : (refRecs.map (·.1)).Nodup) (hok : (oldRecs.map (·.1)).Nodup) (hnd : (nd.map (·.1)).Nodup)
    (hv : ∀ r ∈ refRecs, ∀ v, (r.1, some v) ∈ nd → SafeRec (r.1, v)) :
    ∃ t, serializeText .properties (printProps refRecs).toArray (printProps oldRecs).toArray nd = some t ∧
      serializeText .properties (printProps refRecs).toArray t.toArray [] = some t := by
  obtain ⟨ht, hsafe, hagain⟩ := text_idempotent propsF SafeRec refRecs oldRecs nd hold hrk hok hnd hv _ rfl
  rw [printF_props] at ht
  refine ⟨serializeOut (entsF propsF refRecs) (entsF propsF oldRecs) nd, ?_, ?_⟩
  · unfold serializeText
    rw [walkEnts_printed refRecs href, walkEnts_printed oldRecs hold, entsF_props, entsF_props]
  · unfold serializeText
    rw [walkEnts_printed refRecs href]
    conv => lhs; rw [ht]
    rw [walkEnts_reparsed_props _ _ hsafe]
    simp only
    rw [← entsF_props refRecs, hagain]

end C16G

/-
C05 — sessions of the composed pipeline (CLModel/Compare/PipeSession.lean): helper lemmas.

One `ContentComparer` handles a sequence of jobs.  The observers it reports to are threaded through the jobs; the tree
invariant they need (`Pipe.Fresh`) survives every event (`fresh_run`), so the one-comparison lemmas of C05Pipe apply to
job k started from the observers the jobs before it left.  The histories of the jobs concatenate, and the C10 theorems
about `toJSON()` hold for histories over several files whose paths are not prefixes of each other.
Core Lean only.
-/
import CLModel.Compare.PipeSession
import CLModel.Proofs.C05Pipe
import CLModel.Proofs.C05Report
import CLModel.Proofs.C05Props
import CLModel.Proofs.C05DtdPipe
import CLModel.Proofs.C05Clash
import CLModel.Proofs.C05Ext
import CLModel.Proofs.C05Lint
namespace C05Sess
open Pipe
open ObsM (Ev ObsList Obs)
open C05Clash (IdsIn NoJunkLike junkLike)

/-! ### the tree invariant of the observers survives every event -/

theorem fresh_step {l l' : ObsList} {ev : Ev} (hf : Fresh l) (hs : l.step ev = .ok l') : Fresh l' := by
  obtain ⟨hown, hobs⟩ := ObsM.list_step_spec hs
  refine ⟨?_, ?_⟩
  · split at hown
    · rw [hown]; exact hf.1
    · exact (ObsM.step_details hf.1 hown).1
  · intro o' ho'
    obtain ⟨o, ho, hstep⟩ := ObsM.All₂.mem_right hobs o' ho'
    exact (ObsM.step_details (hf.2 o ho) hstep).1

theorem fresh_run : ∀ (h : List Ev) {l l' : ObsList}, Fresh l → l.run h = .ok l' → Fresh l'
  | [], l, l', hf, hr => by
    simp only [ObsList.run, pure, Except.pure, Except.ok.injEq] at hr
    subst hr; exact hf
  | ev :: rest, l, l', hf, hr => by
    simp only [ObsList.run, bind, Except.bind] at hr
    cases hs : l.step ev with
    | error e => rw [hs] at hr; cases hr
    | ok l1 =>
      rw [hs] at hr
      exact fresh_run rest (fresh_step hf hs) hr

theorem fresh_stdObs : Fresh stdObs := by
  rw [stdObs_eq]; exact fresh_init 0 [none]

/-! ### junk keys, for any value of the counter before the job -/

/-- two Junks of the two files of one job never share a key, whatever the counter was before -/
theorem junk_keys_differ {n0 n1 n2 : Nat} {ref l10n : List PEnt} (hr : IdsIn n0 n1 ref) (hl : IdsIn n1 n2 l10n)
    (r l : PEnt) (hrm : r ∈ ref) (hlm : l ∈ l10n) (hrj : r.junk = true) (hlj : l.junk = true) : r.key ≠ l.key := by
  obtain ⟨i, _, hi2, hki⟩ := hr r hrm hrj
  obtain ⟨j, hj1, _, hkj⟩ := hl l hlm hlj
  intro h
  rw [hki, hkj] at h
  simp only [Cmp.Key.str.injEq] at h
  have := (C05Clash.junkKeyText_inj h).1
  omega

theorem noJunkClash_of_keys {n0 n1 n2 : Nat} {ref l10n : List PEnt} (hr : IdsIn n0 n1 ref) (hl : IdsIn n1 n2 l10n)
    (hkr : NoJunkLike ref) (hkl : NoJunkLike l10n) (ck : CheckerKind) : NoJunkClash ck ref l10n := by
  have key : ∀ (a b : PEnt), a ∈ ref → b ∈ l10n → a.key = b.key → a.junk = false ∧ b.junk = false := by
    intro a b ha hb hab
    have hlike : ∀ (x : PEnt) (n m : Nat) (xs : List PEnt), IdsIn n m xs → x ∈ xs → x.junk = true → junkLike x.key = true := by
      intro x n m xs hx hxm hxj
      obtain ⟨id, _, _, hk⟩ := hx x hxm hxj
      rw [hk]; exact C05Clash.junkKeyText_prefix _ _ _
    cases haj : a.junk <;> cases hbj : b.junk
    · exact ⟨rfl, rfl⟩
    · have h1 := hlike b _ _ _ hl hb hbj
      have h2 := hkr a ha haj
      rw [hab, h1] at h2; cases h2
    · have h1 := hlike a _ _ _ hr ha haj
      have h2 := hkl b hb hbj
      rw [← hab, h1] at h2; cases h2
    · exact absurd hab (junk_keys_differ hr hl a b ha hb haj hbj)
  intro k hkr' hkl'
  obtain ⟨b, hb, hbk⟩ := List.mem_map.1 hkl'
  obtain ⟨a, ha, hak⟩ := List.mem_map.1 hkr'
  refine ⟨?_, fun _ => ?_⟩
  · intro r hlr
    obtain ⟨hrm, hrk, _⟩ := lookup_ok hlr
    exact (key r b hrm hb (by rw [hrk, hbk])).1
  · intro l hll
    obtain ⟨hlm, hlk, _⟩ := lookup_ok hll
    exact (key a l ha hlm (by rw [hak, hlk])).2

/-! ### what the theorems ask of one job — whatever was compared before it -/

/-- the two files of a job: dtd texts hold scalar values (what `readFile` returns: `C05.decode_scalar`), a Fluent body
    carries the AST of every Message / Term (`FtlBodyOK`), and no string id begins with `_junk_` (finding F8; decidable on
    a text: `C05Clash.entityKeysOK`).  The conditions do not mention the junk counters: they hold or fail for the job
    itself, wherever it stands in a session. -/
def SrcOK : JobSrc → Prop
  | .text fmt r l => (fmt = .dtd → C05Dtd.ScalarText r.toList ∧ C05Dtd.ScalarText l.toList) ∧
      C05Clash.entityKeysOK fmt r = true ∧ C05Clash.entityKeysOK fmt l = true
  | .ftl rt lt rb lb => C05Ext.FtlBodyOK rb ∧ C05Ext.FtlBodyOK lb ∧
      (∀ n, NoJunkLike (parseFtl rt rb n).1) ∧ (∀ n, NoJunkLike (parseFtl lt lb n).1)
  | .android _ ri li => (∀ n, NoJunkLike (parseAndroid ri n).1) ∧ (∀ n, NoJunkLike (parseAndroid li n).1)

/-- a job the theorems cover: a file the observers can address, `SrcOK`, and no merge staging for Android (known finding
    F5-android-no-spans-raise: `C05.android_merge_raises`) -/
structure JobOK (j : Job) : Prop where
  modelled : ObsM.Modelled j.file
  src : SrcOK j.src
  android : j.src.cls = .node → j.mergeOn = false

theorem fileChecker_kind (ext : Ext) (k : CheckerKind) (f : ObsM.File) (r : List PEnt) : (fileChecker ext k f r).kind = k := by
  unfold fileChecker
  simp only
  split <;> rfl

theorem fileChecker_locale (ext : Ext) (k : CheckerKind) (f : ObsM.File) (r : List PEnt) : (fileChecker ext k f r).locale = f.locale := by
  unfold fileChecker
  simp only
  split <;> rfl

/-- the checker made for a file answers with the results of the base check among its own -/
def BaseIn (env : Env) (ref l10n : List PEnt) : Prop :=
  ∀ r ∈ ref, ∀ l ∈ l10n, r.junk = false → (env.ck.kind ≠ .base → l.junk = false) →
    ∀ rs, runChecker env.ck r l = .ok rs → ∀ b ∈ runBase l, b ∈ rs

/-- parsing the two files of a covered job never raises; the checker built for the job answers for every pair of its
    entities, there is no junk-key clash, and merging finds spans -/
theorem job_parse_spec (ext : Ext) (j : Job) (hj : JobOK j) (c : JunkIds)
    (hwalk : ∀ fmt s, ∃ es, P.walk fmt s = .done es) :
    ∃ ref l10n c', j.src.parse ext c = .ok (ref, l10n, c') ∧
      CheckerOK (j.env ext ref) ref l10n ∧ NoJunkClash (j.env ext ref).ck.kind ref l10n ∧
      ((j.env ext ref).mergeOn = true → (j.env ext ref).cls ≠ .node) ∧ BaseIn (j.env ext ref) ref l10n := by
  obtain ⟨src, file, mergeOn⟩ := j
  obtain ⟨hm, hsrc, hand⟩ := hj
  cases src with
  | text fmt rt lt =>
    obtain ⟨hsc, hk1, hk2⟩ := hsrc
    obtain ⟨ref, n1, hp1, hw1⟩ := parseFile_ok ext fmt rt c.junk (hwalk fmt rt)
    obtain ⟨l10n, n2, hp2, hw2⟩ := parseFile_ok ext fmt lt n1 (hwalk fmt lt)
    refine ⟨ref, l10n, { c with junk := n2 }, by simp only [JobSrc.parse, hp1, hp2], ?_, ?_, ?_, ?_⟩
    · by_cases hd : fmt = .dtd
      · subst hd
        have hsr := C05Dtd.parseFile_scalar ext rt (hsc rfl).1 _ ref n1 hp1
        have hsl := C05Dtd.parseFile_scalar ext lt (hsc rfl).2 n1 l10n n2 hp2
        exact C05Dtd.checkerOK_dtd _ rfl rfl ref l10n hw1 hw2 (C05Dtd.refVals_scalar ref hsr) hsr hsl
      · exact checkerOK_internal fmt hd _ (fileChecker_kind _ _ _ _) rfl ref l10n hw1 hw2
    · exact noJunkClash_of_keys (C05Clash.parseFile_ids ext fmt rt _ n1 ref hp1) (C05Clash.parseFile_ids ext fmt lt n1 n2 l10n hp2)
        (C05Clash.noJunkLike_of_text ext fmt rt _ n1 ref hk1 hp1) (C05Clash.noJunkLike_of_text ext fmt lt n1 n2 l10n hk2 hp2) _
    · intro _
      exact clsOf_ne_node fmt
    · intro r hr l hl hrj hlj rs hrs
      by_cases hd : fmt = .dtd
      · subst hd
        have hsr := C05Dtd.parseFile_scalar ext rt (hsc rfl).1 _ ref n1 hp1
        have hsl := C05Dtd.parseFile_scalar ext lt (hsc rfl).2 n1 l10n n2 hp2
        have hlj' := hlj (by simp [Job.env, Job.checker, fileChecker_kind, JobSrc.kind, checkerOf])
        obtain ⟨rk, hrk⟩ := (hw1 r hr).2.1 (by simp)
        obtain ⟨lk, hlk⟩ := (hw2 l hl).2.1 (by simp)
        obtain ⟨rs', h1, _, h3⟩ := C05Dtd.runDtd_ok (Job.env ext ⟨.text .dtd rt lt, file, mergeOn⟩ ref).ck r l rk lk hrk hlk hlj'
          ((hw2 l hl).entity hlj') (C05Dtd.refVals_scalar ref hsr) (hsr r hr) (hsl l hl) hrj
        have : runChecker (Job.env ext ⟨.text .dtd rt lt, file, mergeOn⟩ ref).ck r l
            = runDtd (Job.env ext ⟨.text .dtd rt lt, file, mergeOn⟩ ref).ck r l := rfl
        rw [this, h1] at hrs
        cases hrs
        exact h3
      · exact base_in_results fmt hd _ (fileChecker_kind _ _ _ _) r l (hw1 r hr) (hw2 l hl) hrj hlj rs hrs
  | ftl rt lt rb lb =>
    obtain ⟨hb1, hb2, hk1, hk2⟩ := hsrc
    obtain ⟨_, hw1, hi1⟩ := C05Ext.parseFtl_spec rt rb c.junk hb1
    obtain ⟨_, hw2, hi2⟩ := C05Ext.parseFtl_spec lt lb (parseFtl rt rb c.junk).2 hb2
    refine ⟨_, _, _, rfl, ?_, ?_, ?_, ?_⟩
    · exact C05Ext.checkerOK_ftl file mergeOn lt _ _ hw1 hw2
    · exact noJunkClash_of_keys hi1 hi2 (hk1 _) (hk2 _) _
    · intro _; simp [Job.env, JobSrc.cls]
    · intro r hr l hl hrj hlj rs hrs
      obtain ⟨rs', h1, _, h3⟩ := C05Ext.runFluent_ok file.locale r l (hw1 r hr) (hw2 l hl) hrj
        (hlj (by simp [Job.env, Job.checker, fileChecker_kind, JobSrc.kind]))
      have : runChecker (Job.env ext ⟨.ftl rt lt rb lb, file, mergeOn⟩ (parseFtl rt rb c.junk).1).ck r l = runFluent file.locale r l := rfl
      rw [this, h1] at hrs
      cases hrs
      exact h3
  | android lt ri li =>
    obtain ⟨hk1, hk2⟩ := hsrc
    obtain ⟨_, hw1, hi1⟩ := C05Ext.parseAndroid_spec ri c.xmlStart
    obtain ⟨_, hw2, hi2⟩ := C05Ext.parseAndroid_spec li (parseAndroid ri c.xmlStart).2
    have hmo : mergeOn = false := hand rfl
    subst hmo
    refine ⟨_, _, _, rfl, ?_, ?_, ?_, ?_⟩
    · exact C05Ext.checkerOK_android file false lt _ _ hw1 hw2
    · exact noJunkClash_of_keys hi1 hi2 (hk1 _) (hk2 _) _
    · intro h; simp [Job.env] at h
    · intro r hr l hl hrj hlj rs hrs
      obtain ⟨rs', h1, _, h3⟩ := C05Ext.runAndroid_ok r l (hw1 r hr) (hw2 l hl) hrj
        (hlj (by simp [Job.env, Job.checker, fileChecker_kind, JobSrc.kind]))
      have : runChecker (Job.env ext ⟨.android lt ri li, file, false⟩ (parseAndroid ri c.xmlStart).1).ck r l = runAndroid r l := rfl
      rw [this, h1] at hrs
      cases hrs
      exact h3

/-! ### one job of a session -/

/-- `C05.merge_no_type_error`, as the lemmas of C05Pipe take it -/
abbrev MergeOK : Prop :=
  ∀ (mf : Bool) (caps : Nat) (contents : List Nat) (skips : List Merge.Skip) (ms : List (List Nat)),
    (∀ s ∈ skips, s.span.isSome) → Merge.merge mf caps contents skips ms ≠ .typeError

/-- everything the property theorems need about one `compare` call of a session: it returns, whatever observers the
    earlier jobs left; the events it raises are all for ITS file and are appended to the history; and the checker the
    events of a shared key come from is `j.env ext ref`.ck — the one built for this job -/
theorem compareJob_spec (ext : Ext) (j : Job) (hj : JobOK j) (st : SessSt) (hf : Fresh st.obs)
    (hwalk : ∀ fmt s, ∃ es, P.walk fmt s = .done es) (hmerge : MergeOK) :
    ∃ ref l10n ids' obs' outcome evs stats,
      j.src.parse ext st.ids = .ok (ref, l10n, ids') ∧
      compareJob ext st j = .ok ({ obs := obs', ids := ids' }, outcome) ∧
      Reach st.obs j.file (evs ++ [.stats j.file stats]) obs' ∧ (∀ ev ∈ evs, EvWF ev) ∧
      NoJunkClash (j.env ext ref).ck.kind ref l10n ∧ BaseIn (j.env ext ref) ref l10n ∧
      ∀ p ∈ AR.addRemove (ref.map (·.key)) (l10n.map (·.key)),
        ∃ evp, StepEvs (j.env ext ref) ref l10n p evp ∧ ∀ ev ∈ evp, ev ∈ evs := by
  obtain ⟨ref, l10n, ids', hp, hck, hnc, hsp, hbase⟩ := job_parse_spec ext j hj st.ids hwalk
  have hm : ObsM.Modelled (j.env ext ref).file := hj.modelled
  obtain ⟨obs', outcome, evs, stats, hcmp, hreach, hwf, hall⟩ :=
    compareParsed_spec (j.env ext ref) hf hm ref l10n hck hnc hsp hmerge
  exact ⟨ref, l10n, ids', obs', outcome, evs, stats, hp, by simp only [compareJob, hp, hcmp], hreach, hwf, hnc, hbase, hall⟩

/-- `C05.ufffd_warned`, as a hypothesis of the helper lemmas -/
abbrev BaseWarns : Prop :=
  ∀ all : Array Nat, 0xFFFD ∈ all.toList → ∃ r ∈ Checks.baseCheck all, r.severity = .warning

/-- among the events of a job is the encoding warning for every shared key whose localized text contains U+FFFD -/
theorem job_ufffd_event (env : Env) (ref l10n : List PEnt) (evs : List Ev)
    (hnc : NoJunkClash env.ck.kind ref l10n) (hbase : BaseIn env ref l10n)
    (hall : ∀ p ∈ AR.addRemove (ref.map (·.key)) (l10n.map (·.key)),
      ∃ evp, StepEvs env ref l10n p evp ∧ ∀ ev ∈ evp, ev ∈ evs)
    (hff : BaseWarns) (k : Cmp.Key) (refent l10nent : PEnt)
    (hlr : lookup ref k = .ok refent) (hll : lookup l10n k = .ok l10nent) (hu : 0xFFFD ∈ l10nent.all) :
    ∃ line col : Int,
      Ev.notify .warning env.file (.str (checkMsg (encPrefix ++ keyText l10nent.key) line col refent.key)) ∈ evs := by
  obtain ⟨hrm, _, hkr⟩ := lookup_ok hlr
  obtain ⟨hlm, _, hkl⟩ := lookup_ok hll
  have hkmem : k ∈ (AR.addRemove (ref.map (·.key)) (l10n.map (·.key))).map (·.2) :=
    (AR.addRemove_keys_mem_gen _ _ k).2 (Or.inl hkr)
  obtain ⟨p, hp, hpk⟩ := List.mem_map.1 hkmem
  have hlab := AR.addRemove_labels_gen _ _ p hp
  have hc1 : (ref.map (·.key)).contains k = true := by simpa using hkr
  have hc2 : (l10n.map (·.key)).contains k = true := by simpa using hkl
  rw [hpk] at hlab
  simp only [AR.lab, hc1, hc2, if_true] at hlab
  obtain ⟨evp, hse, hsub⟩ := hall p hp
  obtain ⟨refent', l10nent', rs, hlr', hll', hrs, hevp⟩ := hse hlab
  rw [hpk] at hlr' hll'
  rw [hlr] at hlr'; cases hlr'
  rw [hll] at hll'; cases hll'
  obtain ⟨hrj, hlj⟩ := hnc k hkr hkl
  have hb := hbase refent hrm l10nent hlm (hrj _ hlr) (fun hp => hlj hp _ hll) rs hrs
  obtain ⟨br, hbr, hsev⟩ := hff l10nent.all.toArray (by simpa using hu)
  obtain ⟨lc, hlc⟩ := resolve_entityPos env.l10nText env.cls l10nent (br.pos : Int)
  refine ⟨lc.1, lc.2, hsub _ ?_⟩
  rw [hevp]
  simp only [List.mem_filterMap]
  refine ⟨{ sev := br.severity, pos := .entityPos (br.pos : Int), msg := encPrefix ++ keyText l10nent.key, cat := encCat }, ?_, ?_⟩
  · apply hb
    simp only [runBase, List.mem_map]
    exact ⟨br, hbr, rfl⟩
  · simp only [checkEv, hlc, Option.map_some, hsev, sevCat]

/-! ### the whole session -/

/-- the localized entity lists job `j` of the session works on: parsed with the counters the jobs `pre` before it left -/
def JobParsed (ext : Ext) (st : SessSt) (pre : List Job) (j : Job) (ref l10n : List PEnt) : Prop :=
  ∃ stj osj ids', compareSession ext pre st = .ok (stj, osj) ∧ j.src.parse ext stj.ids = .ok (ref, l10n, ids')

/-- a session of covered jobs never raises; the observers after it are the observers before it run on ONE history, the
    concatenation of the jobs' histories; every event is for the file of one of the jobs and is well formed; and for every
    job, wherever it stands, the history has the encoding warning — for ITS file — of every shared key with U+FFFD -/
theorem session_spec (ext : Ext) (hwalk : ∀ fmt s, ∃ es, P.walk fmt s = .done es) (hmerge : MergeOK) (hff : BaseWarns) :
    ∀ (jobs : List Job) (st : SessSt), Fresh st.obs → (∀ j ∈ jobs, JobOK j) →
      ∃ st' os H, compareSession ext jobs st = .ok (st', os) ∧ st.obs.run H = .ok st'.obs ∧
        (∀ ev ∈ H, ∃ j ∈ jobs, ev.file = j.file) ∧ (∀ ev ∈ H, EvWF ev) ∧
        ∀ pre j post, jobs = pre ++ j :: post → ∃ ref l10n, JobParsed ext st pre j ref l10n ∧
          ∀ k refent l10nent, lookup ref k = .ok refent → lookup l10n k = .ok l10nent → 0xFFFD ∈ l10nent.all →
            ∃ line col : Int,
              Ev.notify .warning j.file (.str (checkMsg (encPrefix ++ keyText l10nent.key) line col refent.key)) ∈ H := by
  intro jobs
  induction jobs with
  | nil =>
    intro st _ _
    refine ⟨st, [], [], rfl, rfl, by simp, by simp, ?_⟩
    intro pre j post h
    cases pre <;> cases h
  | cons j0 js ih =>
    intro st hf hok
    obtain ⟨ref0, l10n0, ids0, obs0, out0, evs0, stats0, hp0, hc0, hreach0, hwf0, hnc0, hbase0, hall0⟩ :=
      compareJob_spec ext j0 (hok j0 (by simp)) st hf hwalk hmerge
    have hf1 : Fresh obs0 := fresh_run _ hf hreach0.run
    obtain ⟨st', os, H, hs, hrun, hfiles, hwf, hjobs⟩ :=
      ih { obs := obs0, ids := ids0 } hf1 (fun j hj => hok j (by simp [hj]))
    refine ⟨st', out0 :: os, (evs0 ++ [.stats j0.file stats0]) ++ H, ?_, ?_, ?_, ?_, ?_⟩
    · simp only [compareSession, hc0, hs]
    · rw [run_append st.obs _ H obs0 hreach0.run]; exact hrun
    · intro ev hev
      rcases List.mem_append.1 hev with h | h
      · exact ⟨j0, by simp, hreach0.files ev h⟩
      · obtain ⟨j, hj, hfj⟩ := hfiles ev h
        exact ⟨j, by simp [hj], hfj⟩
    · intro ev hev
      rcases List.mem_append.1 hev with h | h
      · rcases List.mem_append.1 h with h | h
        · exact hwf0 ev h
        · simp only [List.mem_singleton] at h
          subst h
          trivial
      · exact hwf ev h
    · intro pre j post hsplit
      cases pre with
      | nil =>
        simp only [List.nil_append, List.cons.injEq] at hsplit
        obtain ⟨rfl, rfl⟩ := hsplit
        refine ⟨ref0, l10n0, ⟨st, [], ids0, rfl, hp0⟩, ?_⟩
        intro k refent l10nent hlr hll hu
        obtain ⟨line, col, hev⟩ := job_ufffd_event (j0.env ext ref0) ref0 l10n0 evs0 hnc0 hbase0 hall0 hff k refent l10nent hlr hll hu
        exact ⟨line, col, List.mem_append_left _ (List.mem_append_left _ hev)⟩
      | cons p0 pre' =>
        simp only [List.cons_append, List.cons.injEq] at hsplit
        obtain ⟨rfl, hsplit⟩ := hsplit
        obtain ⟨ref, l10n, ⟨stj, osj, ids', hpre, hpj⟩, hevs⟩ := hjobs pre' j post hsplit
        refine ⟨ref, l10n, ⟨stj, out0 :: osj, ids', by simp only [compareSession, hc0, hpre], hpj⟩, ?_⟩
        intro k refent l10nent hlr hll hu
        obtain ⟨line, col, hev⟩ := hevs k refent l10nent hlr hll hu
        exact ⟨line, col, List.mem_append_right _ hev⟩

/-! ### from the history of a session to `toJSON()`: several files -/

/-- the files of a session do not contain each other: no path is a proper prefix of another one (a path is a file or a
    directory, never both) -/
def PrefixFree (files : List ObsM.File) : Prop :=
  ∀ f1 ∈ files, ∀ f2 ∈ files, ∀ p1 p2, ObsM.partsOf f1 = .ok p1 → ObsM.partsOf f2 = .ok p2 → p1 <+: p2 → p1 = p2

theorem history_prefix_free {h : List Ev} {files : List ObsM.File} (hpf : PrefixFree files) (hf : ∀ ev ∈ h, ev.file ∈ files) :
    ∀ e1 ∈ h, ∀ e2 ∈ h, ∀ p1 p2, ObsM.partsOf e1.file = .ok p1 → ObsM.partsOf e2.file = .ok p2 → p1 <+: p2 → p1 = p2 :=
  fun e1 h1 e2 h2 p1 p2 hp1 hp2 hpre => hpf _ (hf e1 h1) _ (hf e2 h2) p1 p2 hp1 hp2 hpre

open TreeM in
/-- With the one unfiltered observer, every notification of an entity or message category raised for `file` during the
    session is an item of the leaf of `toJSON()["details"]` whose path is the path of `file`. -/
theorem report_has_detail (files : List ObsM.File) (hpf : PrefixFree files) (hmf : ∀ f ∈ files, ObsM.Modelled f)
    (h : List Ev) (obs' : ObsList) (hrun : stdObs.run h = .ok obs') (hfiles : ∀ ev ∈ h, ev.file ∈ files)
    (m : Merge.Outcome) (file : ObsM.File) (cat : ObsM.Cat) (data : ObsM.Data)
    (hev : Ev.notify cat file data ∈ h)
    (hcat : cat = .error ∨ cat = .warning ∨ cat = .missingEntity ∨ cat = .obsoleteEntity) :
    ∃ parts, ObsM.partsOf file = .ok parts ∧
      ∃ leaf ∈ (reportOf obs' m).details, joinSlash leaf.1 = joinSlash parts ∧ (cat, ObsM.DVal.data data) ∈ leaf.2 := by
  obtain ⟨hown, _⟩ := C10.list_own_as_observer 0 _ h obs' hrun
  have hfilt : h.filter (fun ev => !ObsM.ignList ((([none] : List (Option ObsM.Filter)).map (Obs.init 0)).map (·.filter)) ev) = h := by
    apply List.filter_eq_self.2
    intro ev _
    cases ev with
    | stats f st => simp [ObsM.ignList]
    | notify c f d => simp [ObsM.ignList, ObsM.Obs.init, ObsM.rvOf]
  have hfilt' : h.filter (fun ev => !ObsM.ignList (List.map (fun x => x.filter) [Obs.init 0 none]) ev) = h := hfilt
  rw [hfilt'] at hown
  have hmod : ∀ ev ∈ h, ObsM.Modelled ev.file := fun ev hev => hmf _ (hfiles ev hev)
  have hjson := C10.tojson_history 0 none h obs'.own hown hmod (history_prefix_free hpf hfiles)
  obtain ⟨o2, ho2, hinv2⟩ := C10.run_total 0 none h hmod
  rw [hown] at ho2
  cases ho2
  have hm : ObsM.Modelled file := hmf _ (hfiles _ hev)
  obtain ⟨parts, hparts, _, _⟩ := ObsM.partsOf_ok hm
  have hd : (cat, ObsM.DVal.data data) ∈ ObsM.detailsSpec 0 none h parts := by
    simp only [ObsM.detailsSpec, List.mem_filterMap]
    refine ⟨_, hev, ?_⟩
    have hshow : ObsM.shows 0 cat = true := by rcases hcat with rfl | rfl | rfl | rfl <;> rfl
    have hnf : cat.isFile = false := by rcases hcat with rfl | rfl | rfl | rfl <;> rfl
    simp [ObsM.evDetail, ObsM.rvOf, hshow, ObsM.hasParts, hparts, ObsM.detailOf, hnf]
  have hfind := ObsM.init_details hown parts
  have hne : (ObsM.detailsSpec 0 none h parts).isEmpty = false := by
    cases hds : ObsM.detailsSpec 0 none h parts with
    | nil => rw [hds] at hd; cases hd
    | cons _ _ => rfl
  rw [hne] at hfind
  simp only [Bool.false_eq_true, if_false] at hfind
  have hflat := (mem_flatten_iff_find obs'.own.details hinv2 parts _).2 hfind
  have hmem : (joinSlash parts, ObsM.detailsSpec 0 none h parts) ∈
      (toJSON obs'.own.details).leaves.map (fun kv => (joinSlash kv.1, kv.2)) := by
    rw [hjson]
    exact List.mem_map.2 ⟨_, hflat, rfl⟩
  obtain ⟨leaf, hleaf, hleq⟩ := List.mem_map.1 hmem
  refine ⟨parts, hparts, leaf, hleaf, ?_, ?_⟩
  · have := congrArg Prod.fst hleq
    simpa using this
  · have : leaf.2 = ObsM.detailsSpec 0 none h parts := by
      have := congrArg Prod.snd hleq
      simpa using this
    rw [this]
    exact hd

open TreeM in
/-- Every item `toJSON()["details"]` shows after a session was put there by one notification of its history. -/
theorem report_details_from_history (files : List ObsM.File) (hpf : PrefixFree files) (hmf : ∀ f ∈ files, ObsM.Modelled f)
    (h : List Ev) (obs' : ObsList) (hrun : stdObs.run h = .ok obs') (hfiles : ∀ ev ∈ h, ev.file ∈ files) (m : Merge.Outcome) :
    ∀ leaf ∈ (reportOf obs' m).details, ∀ d ∈ leaf.2,
      ∃ cat f data rv, Ev.notify cat f data ∈ h ∧ d = ObsM.detailOf cat rv data := by
  intro leaf hleaf d hd
  obtain ⟨hown, _⟩ := C10.list_own_as_observer 0 _ h obs' hrun
  generalize hh' : h.filter (fun ev => !ObsM.ignList (([Obs.init 0 none]).map (·.filter)) ev) = h' at hown
  have hsub : ∀ ev ∈ h', ev ∈ h := by
    intro ev hev; rw [← hh'] at hev; exact (List.mem_filter.1 hev).1
  have hfiles' : ∀ ev ∈ h', ev.file ∈ files := fun ev hev => hfiles ev (hsub ev hev)
  have hmod : ∀ ev ∈ h', ObsM.Modelled ev.file := fun ev hev => hmf _ (hfiles' ev hev)
  have hjson := C10.tojson_history 0 none h' obs'.own hown hmod (history_prefix_free hpf hfiles')
  obtain ⟨o2, ho2, hinv2⟩ := C10.run_total 0 none h' hmod
  rw [hown] at ho2
  cases ho2
  have hmem : (joinSlash leaf.1, leaf.2) ∈ (flatten obs'.own.details).map (fun pv => (joinSlash pv.1, pv.2)) := by
    rw [← hjson]
    exact List.mem_map.2 ⟨leaf, hleaf, rfl⟩
  obtain ⟨pv, hpv, hpeq⟩ := List.mem_map.1 hmem
  have hv : pv.2 = leaf.2 := by
    have := congrArg Prod.snd hpeq
    simpa using this
  have hfind := (mem_flatten_iff_find obs'.own.details hinv2 pv.1 pv.2).1 hpv
  rw [ObsM.init_details hown pv.1] at hfind
  split at hfind
  · cases hfind
  · simp only [Option.some.injEq] at hfind
    rw [← hv, ← hfind] at hd
    simp only [ObsM.detailsSpec, List.mem_filterMap] at hd
    obtain ⟨ev, hev, hde⟩ := hd
    cases ev with
    | stats f st => simp [ObsM.evDetail] at hde
    | notify cat f data =>
      simp only [ObsM.evDetail] at hde
      split at hde
      · simp only [Option.some.injEq] at hde
        exact ⟨cat, f, data, _, hsub _ hev, hde.symm⟩
      · cases hde

/-! ### the session of one linter -/

/-- what the theorem asks of one linted file, whatever was linted before it: a dtd text holds scalar values; a Fluent
    body carries its ASTs and no FluentEntity shares its key with a Junk of the reference (`lintJunkClash`) -/
def LintSrcOK : LintSrc → Prop
  | .text fmt _ cur => fmt = .dtd → C05Dtd.ScalarText cur.toList
  | .ftl ref cur body => C05Ext.FtlBodyOK body ∧
      ∀ t rb, ref = some (t, rb) → ∀ n, lintJunkClash .fluent (parseFtl t rb n).1 (parseFtl cur body (parseFtl t rb n).2).1 = false
  | .android _ _ _ => True

theorem lintJob_ok (ext : Ext) (src : LintSrc) (hs : LintSrcOK src) (c : JunkIds)
    (hwalk : ∀ fmt s, ∃ es, P.walk fmt s = .done es) :
    ∃ rs c', lintJob ext src c = .ok (rs, c') := by
  cases src with
  | text fmt refText cur =>
    have hchk : ∀ ents n0 n1, parseFile ext fmt cur n0 = .ok (ents, n1) → ∀ e ∈ ents, PWf fmt e → e.junk = false →
        ∃ rs, runChecker { kind := checkerOf fmt, locale := some referenceLocale, xml := ext.xml, refVals := ents.map (·.raw) } e e = .ok rs ∧
          ∀ x ∈ rs, Resolvable (clsOf fmt) e x.pos := by
      intro ents n0 n1 hp e he hw hj
      by_cases hd : fmt = .dtd
      · subst hd
        have hsc := C05Dtd.parseFile_scalar ext cur (hs rfl) n0 ents n1 hp
        obtain ⟨k, hk⟩ := hw.2.1 (by simp)
        obtain ⟨rs, h1, h2, _⟩ := C05Dtd.runDtd_ok
          { kind := .dtd, locale := some referenceLocale, xml := ext.xml, refVals := ents.map (·.raw) } e e k k hk hk hj
          (hw.entity hj) (C05Dtd.refVals_scalar ents hsc) (hsc e he) (hsc e he) hj
        exact ⟨rs, h1, h2⟩
      · exact lint_checker_internal fmt hd _ rfl _ e hw hj
    cases refText with
    | none =>
      obtain ⟨ents, n, hp, hwf⟩ := parseFile_ok ext fmt cur c.junk (hwalk fmt cur)
      obtain ⟨rs, hrs⟩ := lintParsed_ok ext (fileName fmt) (checkerOf fmt) (clsOf fmt) none cur ents
        (fun e he hj => (hwf e he).entity hj) (lintJunkClash_regex fmt _ _) (fun e he hj => hchk ents _ n hp e he (hwf e he) hj)
      exact ⟨rs, _, by simp only [lintJob, hp, hrs]; try rfl⟩
    | some t =>
      obtain ⟨ref, n1, hpr, _⟩ := parseFile_ok ext fmt t c.junk (hwalk fmt t)
      obtain ⟨ents, n, hp, hwf⟩ := parseFile_ok ext fmt cur n1 (hwalk fmt cur)
      obtain ⟨rs, hrs⟩ := lintParsed_ok ext (fileName fmt) (checkerOf fmt) (clsOf fmt) (some ref) cur ents
        (fun e he hj => (hwf e he).entity hj) (lintJunkClash_regex fmt _ _) (fun e he hj => hchk ents n1 n hp e he (hwf e he) hj)
      exact ⟨rs, _, by simp only [lintJob, hpr, hp, hrs]; try rfl⟩
  | ftl ref cur body =>
    obtain ⟨hb, hclash⟩ := hs
    have key : ∀ (reference : Option (List PEnt)) (n : Nat),
        lintJunkClash .fluent (refList reference) (parseFtl cur body n).1 = false →
        ∃ rs, lintParsed default ftlFileName .fluent .fluent reference cur (parseFtl cur body n).1 = .ok rs := by
      intro reference n hc
      obtain ⟨_, hw, _⟩ := C05Ext.parseFtl_spec cur body n hb
      refine lintParsed_ok default _ _ _ reference cur _ ?_ hc ?_
      · intro e he hj
        rcases (hw e he).kind with ⟨h, _⟩ | ⟨_, h, _⟩
        · rw [hj] at h; cases h
        · exact h
      · intro e he hj
        obtain ⟨rs, h1, h2, _⟩ := C05Ext.runFluent_ok (some referenceLocale) e e (hw e he) (hw e he) hj hj
        exact ⟨rs, h1, h2⟩
    cases ref with
    | none =>
      obtain ⟨rs, hrs⟩ := key none c.junk (by simp [lintJunkClash, refList, lookup, AR.keyedIndex_eq])
      exact ⟨rs, _, by simp only [lintJob, hrs]; try rfl⟩
    | some p =>
      obtain ⟨t, rb⟩ := p
      obtain ⟨rs, hrs⟩ := key (some (parseFtl t rb c.junk).1) (parseFtl t rb c.junk).2 (hclash t rb rfl c.junk)
      exact ⟨rs, _, by simp only [lintJob, hrs]; try rfl⟩
  | android ref cur items =>
    have key : ∀ (reference : Option (List PEnt)) (n : Nat),
        ∃ rs, lintParsed default androidFileName .android .node reference cur (parseAndroid items n).1 = .ok rs := by
      intro reference n
      obtain ⟨_, hw, _⟩ := C05Ext.parseAndroid_spec items n
      refine lintParsed_ok default _ _ _ reference cur _ ?_ (by simp [lintJunkClash]) ?_
      · intro e he hj
        rcases (hw e he).kind with ⟨h, _⟩ | ⟨_, h, _⟩
        · rw [hj] at h; cases h
        · exact h
      · intro e he hj
        obtain ⟨rs, h1, h2, _⟩ := C05Ext.runAndroid_ok e e (hw e he) (hw e he) hj hj
        exact ⟨rs, h1, h2⟩
    cases ref with
    | none =>
      obtain ⟨rs, hrs⟩ := key none c.xmlStart
      exact ⟨rs, _, by simp only [lintJob, hrs]; try rfl⟩
    | some ri =>
      obtain ⟨rs, hrs⟩ := key (some (parseAndroid ri c.xmlStart).1) (parseAndroid ri c.xmlStart).2
      exact ⟨rs, _, by simp only [lintJob, hrs]; try rfl⟩

theorem lintSession_ok (ext : Ext) (hwalk : ∀ fmt s, ∃ es, P.walk fmt s = .done es) :
    ∀ (srcs : List LintSrc) (c : JunkIds), (∀ s ∈ srcs, LintSrcOK s) →
      ∃ rss, lintSession ext srcs c = .ok rss ∧ rss.length = srcs.length := by
  intro srcs
  induction srcs with
  | nil => intro c _; exact ⟨[], rfl, rfl⟩
  | cons s rest ih =>
    intro c hok
    obtain ⟨rs, c1, h1⟩ := lintJob_ok ext s (hok s (by simp)) c hwalk
    obtain ⟨rss, h2, hl⟩ := ih c1 (fun x hx => hok x (by simp [hx]))
    exact ⟨rs :: rss, by simp only [lintSession, h1, h2], by simp [hl]⟩

end C05Sess

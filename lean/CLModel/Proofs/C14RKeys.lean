/-
Helper lemmas for C14 (round 4): the key TEXT `_compile_rule` compiles (`compiledKeyText`, `reEscape`,
`litDollarText`) and `TOMLParser.processFilters` (`processFiltersM`).
-/
import CLModel.Paths.Filter
import CLModel.Paths.FilterM
namespace C14R
open Filt FiltM

/-! ### `[[filters]]` tables -/

theorem compileRuleM_single (p : Text) (k : Option (OneOrMany RawKey)) (a : Action) :
    compileRuleM ⟨.many [p], k, a⟩ = compileRuleM ⟨.one p, k, a⟩ := by
  simp [compileRuleM]

theorem addRulesM_foldl (rules : List RuleM) (raws : List RawRuleM) :
    addRulesM rules raws = rules ++ raws.flatMap compileRuleM := by
  induction raws generalizing rules with
  | nil => simp [addRulesM]
  | cons r rest ih =>
    have : addRulesM rules (r :: rest) = addRulesM (rules ++ compileRuleM r) rest := rfl
    rw [this, ih, List.flatMap_cons, List.append_assoc]

theorem processFiltersM_acc (acc : List RuleM) (tables : List RawRuleM) :
    tables.foldl (fun rules d =>
      let paths := match d.path with
        | .one p => [p]
        | .many ps => ps
      addRulesM rules [⟨.many paths, d.key, d.action⟩]) acc = acc ++ tables.flatMap compileRuleM := by
  induction tables generalizing acc with
  | nil => simp
  | cons d rest ih =>
    rw [List.foldl_cons, ih, List.flatMap_cons, addRulesM_foldl]
    have : compileRuleM ⟨.many (match d.path with | .one p => [p] | .many ps => ps), d.key, d.action⟩
        = compileRuleM d := by
      cases d with
      | mk path key action =>
        cases path with
        | one p => exact compileRuleM_single p key action
        | many ps => rfl
    simp only [List.flatMap_cons, List.flatMap_nil, List.append_nil, this, List.append_assoc]

/-- `TOMLParser.processFilters` = one `add_rules` with the tables as written: a string path and a one-element
    list compile to the same rules -/
theorem processFiltersM_eq (tables : List RawRuleM) : processFiltersM tables = addRulesM [] tables := by
  rw [addRulesM_foldl]
  exact processFiltersM_acc [] tables

/-! ### the compiled key text -/

theorem litDollarText_sound : ∀ (r : Rx.Re) (s : Text), litDollarText r = some s → r = escapedDollar s
  | .eol false, s, h => by
    simp only [litDollarText, Option.some.injEq] at h
    subst h; rfl
  | .seq (.lit c) r, s, h => by
    simp only [litDollarText, Option.map_eq_some_iff] at h
    obtain ⟨t, ht, rfl⟩ := h
    have := litDollarText_sound r t ht
    rw [this]; rfl
  | .eol true, _, h => by simp [litDollarText] at h
  | .lit _, _, h => by simp [litDollarText] at h
  | .notLit _, _, h => by simp [litDollarText] at h
  | .any _, _, h => by simp [litDollarText] at h
  | .cls _ _, _, h => by simp [litDollarText] at h
  | .alt _ _, _, h => by simp [litDollarText] at h
  | .eps, _, h => by simp [litDollarText] at h
  | .rep _ _ _ _, _, h => by simp [litDollarText] at h
  | .group _ _, _, h => by simp [litDollarText] at h
  | .backref _, _, h => by simp [litDollarText] at h
  | .bol _, _, h => by simp [litDollarText] at h
  | .eos, _, h => by simp [litDollarText] at h
  | .look _ _ _, _, h => by simp [litDollarText] at h
  | .seq (.notLit _) _, _, h => by simp [litDollarText] at h
  | .seq (.any _) _, _, h => by simp [litDollarText] at h
  | .seq (.cls _ _) _, _, h => by simp [litDollarText] at h
  | .seq (.seq _ _) _, _, h => by simp [litDollarText] at h
  | .seq (.alt _ _) _, _, h => by simp [litDollarText] at h
  | .seq .eps _, _, h => by simp [litDollarText] at h
  | .seq (.rep _ _ _ _) _, _, h => by simp [litDollarText] at h
  | .seq (.group _ _) _, _, h => by simp [litDollarText] at h
  | .seq (.backref _) _, _, h => by simp [litDollarText] at h
  | .seq (.bol _) _, _, h => by simp [litDollarText] at h
  | .seq (.eol _) _, _, h => by simp [litDollarText] at h
  | .seq .eos _, _, h => by simp [litDollarText] at h
  | .seq (.look _ _ _) _, _, h => by simp [litDollarText] at h

theorem litDollarText_complete : ∀ (s : Text), litDollarText (escapedDollar s) = some s
  | [] => rfl
  | c :: s => by
    have : escapedDollar (c :: s) = .seq (.lit c) (escapedDollar s) := rfl
    rw [this, litDollarText, litDollarText_complete s]; rfl

theorem reEscape_plain (s : Text) (h : ∀ c ∈ s, Gen.Tables.reEscapeSpecials.contains c = false) : reEscape s = s := by
  induction s with
  | nil => rfl
  | cons c s ih =>
    have hc := h c (by simp)
    simp only [reEscape, List.flatMap_cons, hc, Bool.false_eq_true, ↓reduceIte, List.singleton_append, List.cons.injEq,
      true_and]
    exact ih (fun d hd => h d (by simp [hd]))

/-- undo `re.escape`: drop the backslash in front of a special character -/
def unEscape : Text → Text
  | 92 :: c :: rest => c :: unEscape rest
  | c :: rest => c :: unEscape rest
  | [] => []

theorem unEscape_reEscape : ∀ (s : Text), unEscape (reEscape s) = s
  | [] => rfl
  | c :: s => by
    have ih := unEscape_reEscape s
    simp only [reEscape, List.flatMap_cons] at ih ⊢
    by_cases hc : Gen.Tables.reEscapeSpecials.contains c = true
    · simp only [hc, ↓reduceIte, List.cons_append, List.nil_append, unEscape, ih]
    · have hc' : Gen.Tables.reEscapeSpecials.contains c = false := by simpa using hc
      have h92 : c ≠ 92 := by
        intro h; subst h; revert hc'; decide
      simp only [hc', Bool.false_eq_true, ↓reduceIte, List.singleton_append]
      rw [unEscape.eq_def]
      split
      · rename_i heq; simp only [List.cons.injEq] at heq; exact absurd heq.1 h92
      · rename_i heq; simp only [List.cons.injEq] at heq; obtain ⟨rfl, rfl⟩ := heq; rw [ih]
      · rename_i heq; cases heq

end C14R
